(** Proofs about the closed farm-staking model (Model/StakingFull.v).

    Part A  projection: a successful [sfull_step] is a successful [pstep] (with the computed boosted payout) and a
            successful [hstep] of Model/BoostedHosts.v (with the computed host-level facts) — which is a [Boosted.step] of
            the dex/farm operation with the same module-level facts ([base_of]); [sfull_run] refines [prun] and [hrun];
            every invariant of the two open models holds in every reachable closed state.
    Part B  the link invariant: the staking farm's aggregate [s_pool] is the module's books (sum of accumulated +
            remaining over the weeks, + undistributed), percentage and "factors configured" agree, and per settlement the
            staking farm cuts exactly the slice the module books — out of the capacity- and APR-bounded accrual.
    Part C  C11_staking_no_underflow: the guard [remaining(w) -= reward] of the boosted hook cannot fire in a reachable
            state.  The invariant is Proofs/FarmFullProofs.v's [NU], stated over what it really depends on — the module
            state, the user totals and the supply — and re-proved for the staking endpoints: the user whose rewards are
            settled is the ORIGINAL caller (the proxy settles its clients), totals of everybody else only go down
            (check_and_update / decrease on the recorded owner), the supply is recorded for the week whenever it changes
            (stake, compound, unstake, claimRewardsWithNewValue), compoundRewards grows the position only after the claim.
            The week-level arithmetic (EInv, touch, share_bound, claim_week_bound, PIw ...) is FarmFullProofs' own.
    Part D  C05's last clause for the closed model: a user endpoint fails iff a documented guard of the staking half fails
            (Proofs/StakingPosProofs.v [guards], whose only boosted hypothesis — the payout is within the pools — is now a
            theorem about the computed payout). *)
From MX Require Import Base.Prelude Gen.Params Model.Weekly Model.Boosted Model.BoostedHosts Model.Staking Model.StakingPos Model.StakingFull.
From MX Require Import Proofs.FarmInv Proofs.FarmSolv Proofs.FarmOwner.
From MX Require Import Proofs.StakingProofs Proofs.StakingPosProofs.
From MX Require Import Proofs.WeeklyProofs Proofs.BoostedProofs Proofs.BoostedHostsProofs.
From MX Require Model.Farm Model.FarmFull.
From MX Require Import Proofs.FarmFullProofs.

Local Notation WK := EPOCHS_IN_WEEK.
Local Notation MAXW := USER_MAX_CLAIM_WEEKS.
Local Notation utot := StakingPos.utot.
Local Notation BInv := BoostedProofs.BInv.

Ltac bnd H x E := apply bind_ok in H; destruct H as (x & E & H).

(** ================================================================== Part A: projection *)
(** the dex/farm operation with the same module-level facts *)
Definition sbop_of (s : sxstate) (op : sxop) (supply posa : Z) : option bop :=
  match hop_of s op supply posa with Some ho => Some (base_of ho) | None => None end.

Lemma hop_not_locked s op S P ho : hop_of s op S P = Some ho -> is_locked_enter ho = false.
Proof. destruct op; simpl; intros H; inversion H; reflexivity. Qed.

(** the host's way of calling the module is the dex/farm operation [base_of] as a state transformer *)
Lemma run_h_base s op S P : run_h (sx_b s) (hop_of s op S P) = FarmFull.run_b (sx_b s) (sbop_of s op S P).
Proof.
  unfold run_h, FarmFull.run_b, sbop_of. destruct (hop_of s op S P) as [ho|] eqn:E; [|reflexivity].
  apply hstep_base. apply (hop_not_locked _ _ _ _ _ E).
Qed.

(** the module's outputs do not depend on the supply / position-after arguments (they are written after the claim) *)
Lemma run_h_out_indep s op S1 P1 S2 P2 b1 o1 b2 o2 :
  run_h (sx_b s) (hop_of s op S1 P1) = Ok (b1, o1) -> run_h (sx_b s) (hop_of s op S2 P2) = Ok (b2, o2) -> o2 = o1.
Proof.
  rewrite !run_h_base. unfold sbop_of.
  destruct op; simpl; intros H1 H2;
    try (rewrite H1 in H2; inversion H2; reflexivity).
  - (* stake *)
    unfold Boosted.ep_enter in H1, H2. simpl in H1, H2.
    destruct (wf_in _ _ _ S1); [|discriminate]. destruct (wf_in _ _ _ S2); [|discriminate].
    bnd H1 cw Hcw. rewrite Hcw in H2. simpl bind in H2.
    bnd H1 x1 Hc. destruct x1 as [[h1 w1] det]. rewrite Hc in H2. simpl bind in H2.
    bnd H1 x2 Hs. destruct x2 as [[h2 bs] cut]. rewrite Hs in H2. simpl bind in H2.
    bnd H1 w2 Hu. rewrite Hu in H2. simpl bind in H2.
    inversion H1; inversion H2; reflexivity.
  - (* stake through proxy *)
    unfold Boosted.ep_enter in H1, H2. simpl in H1, H2.
    destruct (wf_in _ _ _ S1); [|discriminate]. destruct (wf_in _ _ _ S2); [|discriminate].
    bnd H1 cw Hcw. rewrite Hcw in H2. simpl bind in H2.
    bnd H1 x1 Hc. destruct x1 as [[h1 w1] det]. rewrite Hc in H2. simpl bind in H2.
    bnd H1 x2 Hs. destruct x2 as [[h2 bs] cut]. rewrite Hs in H2. simpl bind in H2.
    bnd H1 w2 Hu. rewrite Hu in H2. simpl bind in H2.
    inversion H1; inversion H2; reflexivity.
  - (* claim = the compound pattern *)
    unfold Boosted.ep_compound in H1, H2. simpl in H1, H2.
    destruct (wf_in _ _ _ S1); [|discriminate]. destruct (wf_in _ _ _ S2); [|discriminate].
    bnd H1 cw Hcw. rewrite Hcw in H2. simpl bind in H2.
    bnd H1 x2 Hs. destruct x2 as [[h2 bs] cut]. rewrite Hs in H2. simpl bind in H2.
    bnd H1 x1 Hc. destruct x1 as [[h1 w1] det]. rewrite Hc in H2. simpl bind in H2.
    bnd H1 w2 Hu. rewrite Hu in H2. simpl bind in H2.
    inversion H1; inversion H2; reflexivity.
  - (* claim with new value *)
    unfold Boosted.ep_compound in H1, H2. simpl in H1, H2.
    destruct (wf_in _ _ _ S1); [|discriminate]. destruct (wf_in _ _ _ S2); [|discriminate].
    bnd H1 cw Hcw. rewrite Hcw in H2. simpl bind in H2.
    bnd H1 x2 Hs. destruct x2 as [[h2 bs] cut]. rewrite Hs in H2. simpl bind in H2.
    bnd H1 x1 Hc. destruct x1 as [[h1 w1] det]. rewrite Hc in H2. simpl bind in H2.
    bnd H1 w2 Hu. rewrite Hu in H2. simpl bind in H2.
    inversion H1; inversion H2; reflexivity.
  - (* compound = the claim pattern *)
    unfold Boosted.ep_claim in H1, H2. simpl in H1, H2.
    destruct (wf_in _ _ _ S1); [|discriminate]. destruct (wf_in _ _ _ S2); [|discriminate].
    bnd H1 cw Hcw. rewrite Hcw in H2. simpl bind in H2.
    bnd H1 x2 Hs. destruct x2 as [[h2 bs] cut]. rewrite Hs in H2. simpl bind in H2.
    bnd H1 x1 Hc. destruct x1 as [[h1 w1] det]. rewrite Hc in H2. simpl bind in H2.
    inversion H1; inversion H2; reflexivity.
  - (* unstake *)
    unfold Boosted.ep_exit in H1, H2. simpl in H1, H2.
    destruct (wf_in _ _ _ S1 && _); [|discriminate]. destruct (wf_in _ _ _ S2 && _); [|discriminate].
    bnd H1 cw Hcw. rewrite Hcw in H2. simpl bind in H2.
    bnd H1 x2 Hs. destruct x2 as [[h2 bs] cut]. rewrite Hs in H2. simpl bind in H2.
    bnd H1 x1 Hc. destruct x1 as [[h1 w1] det]. rewrite Hc in H2. simpl bind in H2.
    bnd H1 w2 Hu. bnd H2 w2' Hu'.
    inversion H1; inversion H2; reflexivity.
  - (* unstake through proxy *)
    unfold Boosted.ep_exit in H1, H2. simpl in H1, H2.
    destruct (wf_in _ _ _ S1 && _); [|discriminate]. destruct (wf_in _ _ _ S2 && _); [|discriminate].
    bnd H1 cw Hcw. rewrite Hcw in H2. simpl bind in H2.
    bnd H1 x2 Hs. destruct x2 as [[h2 bs] cut]. rewrite Hs in H2. simpl bind in H2.
    bnd H1 x1 Hc. destruct x1 as [[h1 w1] det]. rewrite Hc in H2. simpl bind in H2.
    bnd H1 w2 Hu. bnd H2 w2' Hu'.
    inversion H1; inversion H2; reflexivity.
  - (* claimBoosted *)
    unfold Boosted.ep_claim_boosted in H1, H2. simpl in H1, H2.
    destruct (wf_in _ _ _ S1); [|discriminate]. destruct (wf_in _ _ _ S2); [|discriminate].
    destruct (negb (utot (sx_p s) c =? 0)); [|discriminate].
    bnd H1 cw Hcw. rewrite Hcw in H2. simpl bind in H2.
    bnd H1 x2 Hs. destruct x2 as [[h2 bs] cut]. rewrite Hs in H2. simpl bind in H2.
    bnd H1 x1 Hc. destruct x1 as [[h1 w1] det]. rewrite Hc in H2. simpl bind in H2.
    inversion H1; inversion H2; reflexivity.
Qed.

(** Projection: the staking half ran [pstep] with the payout the module computed, the module ran [hstep] with the supply
    and position the staking half left behind, and the module's own payout of that run is the one the staking farm paid. *)
Lemma sfull_step_proj s op s' out : sfull_step s op = Ok (s', out) ->
  sclock_of s op = Ok (sx_blk s') /\
  run_p (sx_p s) (pop_of s op (so_b out)) = Ok (sx_p s', so_p out) /\
  run_h (sx_b s) (hop_of s op (s_supply (p_s (sx_p s'))) (utot (sx_p s') (user_of op))) = Ok (sx_b s', so_m out) /\
  o_b (so_m out) = so_b out.
Proof.
  unfold sfull_step. intros H.
  bnd H blk' Hck. bnd H x1 H1. destruct x1 as [b1 o1]. bnd H x2 H2. destruct x2 as [sp' po].
  bnd H x3 H3. destruct x3 as [b' o2]. inversion H; subst; clear H. simpl.
  split; [exact Hck|]. split; [exact H2|]. split; [exact H3|].
  rewrite (run_h_out_indep _ _ _ _ _ _ _ _ _ _ H1 H3). reflexivity.
Qed.

Lemma sfull_step_staking s op s' out : sfull_step s op = Ok (s', out) ->
  match pop_of s op (so_b out) with
  | Some po => pstep (sx_p s) po = Ok (sx_p s', so_p out)
  | None => sx_p s' = sx_p s /\ so_p out = []
  end.
Proof.
  intros H. destruct (sfull_step_proj _ _ _ _ H) as (_ & Hf & _). unfold run_p in Hf.
  destruct (pop_of s op (so_b out)); [exact Hf | inversion Hf; split; reflexivity].
Qed.

Lemma sfull_step_host s op s' out : sfull_step s op = Ok (s', out) ->
  match hop_of s op (s_supply (p_s (sx_p s'))) (utot (sx_p s') (user_of op)) with
  | Some ho => hstep (sx_b s) ho = Ok (sx_b s', so_m out) /\ o_b (so_m out) = so_b out
  | None => sx_b s' = sx_b s /\ so_m out = out0 /\ so_b out = 0
  end.
Proof.
  intros H. destruct (sfull_step_proj _ _ _ _ H) as (_ & _ & Hb & Hob). unfold run_h in Hb.
  destruct (hop_of s op _ _); [split; assumption|].
  inversion Hb; subst. split; [reflexivity|]. split; [reflexivity|]. rewrite <- Hob, <- H2. reflexivity.
Qed.

(** ... as an operation of Model/Boosted.v *)
Lemma sfull_step_module s op s' out : sfull_step s op = Ok (s', out) ->
  match sbop_of s op (s_supply (p_s (sx_p s'))) (utot (sx_p s') (user_of op)) with
  | Some bo => step (sx_b s) bo = Ok (sx_b s', so_m out) /\ o_b (so_m out) = so_b out
  | None => sx_b s' = sx_b s /\ so_m out = out0 /\ so_b out = 0
  end.
Proof.
  intros H. pose proof (sfull_step_host _ _ _ _ H) as Hh. unfold sbop_of.
  destruct (hop_of s op _ _) as [ho|] eqn:E; [|exact Hh].
  destruct Hh as (Hh & Hb). rewrite (hstep_base _ _ (hop_not_locked _ _ _ _ _ E)) in Hh. split; assumption.
Qed.

(** ------------------------------------------------------------------ the two projected histories *)
Fixpoint pops (s : sxstate) (ops : list sxop) : list pop :=
  match ops with
  | [] => []
  | op :: t =>
      match sfull_step s op with
      | Ok (s', out) => opt_list (pop_of s op (so_b out)) ++ pops s' t
      | Err _ => pops s t
      end
  end.

Fixpoint hops (s : sxstate) (ops : list sxop) : list hop :=
  match ops with
  | [] => []
  | op :: t =>
      match sfull_step s op with
      | Ok (s', out) => opt_list (hop_of s op (s_supply (p_s (sx_p s'))) (utot (sx_p s') (user_of op))) ++ hops s' t
      | Err _ => hops s t
      end
  end.

Lemma prun_cons sp po l : prun sp (po :: l) = prun (pstep_total sp po) l.
Proof. reflexivity. Qed.
Lemma hrun_cons b ho l : hrun b (ho :: l) = hrun (hstep_total b ho) l.
Proof. reflexivity. Qed.

(** Refinement: the staking half of a closed history is a history of Model/StakingPos.v, the module half one of
    Model/BoostedHosts.v. *)
Lemma sfull_run_staking ops : forall s, sx_p (sfull_run s ops) = prun (sx_p s) (pops s ops).
Proof.
  induction ops as [|op t IH]; intros s; simpl; [reflexivity|].
  unfold sfull_step_total. destruct (sfull_step s op) as [[s' out]|] eqn:E; [|apply IH].
  rewrite IH. pose proof (sfull_step_staking _ _ _ _ E) as Hf.
  destruct (pop_of s op (so_b out)) as [po|]; cbn [opt_list app].
  - rewrite prun_cons. unfold pstep_total at 1. rewrite Hf. reflexivity.
  - destruct Hf as (-> & _). reflexivity.
Qed.

Lemma sfull_run_host ops : forall s, sx_b (sfull_run s ops) = hrun (sx_b s) (hops s ops).
Proof.
  induction ops as [|op t IH]; intros s; simpl; [reflexivity|].
  unfold sfull_step_total. destruct (sfull_step s op) as [[s' out]|] eqn:E; [|apply IH].
  rewrite IH. pose proof (sfull_step_host _ _ _ _ E) as Hb.
  destruct (hop_of s op _ _) as [ho|]; cbn [opt_list app].
  - destruct Hb as (Hb & _). rewrite hrun_cons. unfold hstep_total at 1. rewrite Hb. reflexivity.
  - destruct Hb as (-> & _). reflexivity.
Qed.

(** account ids in range (the position ledger keys are nonce * 1000 + holder); the proxy keeps its positions to itself
    and only its own endpoints are used for them ([sep_op] of Proofs/StakingPosProofs.v) *)
Definition sxvalid (op : sxop) : Prop :=
  match op with
  | SXStake c u _ _ _ | SXClaim c u _ _ | SXUnstake c u _ _ => valid_id c /\ valid_id u
  | SXStakeProxy c u _ _ _ | SXClaimNewValue c u _ _ _ | SXUnstakeProxy c u _ _ _ => valid_id c /\ valid_id u
  | SXCompound c _ _ _ | SXMerge c _ _ | SXClaimBoosted c _ => valid_id c
  | SXTransfer _ s d _ => valid_id s /\ valid_id d
  | _ => True
  end.

Definition sxsep (op : sxop) : Prop :=
  sxvalid op /\
  match op with
  | SXStake c _ _ _ _ | SXClaim c _ _ _ | SXUnstake c _ _ _ | SXCompound c _ _ _ | SXMerge c _ _ => c <> PROXY
  | SXTransfer _ s d _ => s <> PROXY /\ d <> PROXY
  | _ => True
  end.

Lemma pop_of_valid s op b po : sxvalid op -> pop_of s op b = Some po -> pvalid_op po.
Proof. destruct op; simpl; intros V H; inversion H; subst; simpl; tauto. Qed.

Lemma pop_of_sep s op b po : sxsep op -> pop_of s op b = Some po -> sep_op po.
Proof. destruct op; simpl; intros (V & S) H; inversion H; subst; simpl in *; tauto. Qed.

Lemma pops_valid ops : forall s, Forall sxvalid ops -> Forall pvalid_op (pops s ops).
Proof.
  induction ops as [|op t IH]; intros s V; simpl; [constructor|]. inversion V; subst.
  destruct (sfull_step s op) as [[s' out]|]; [|apply IH; assumption].
  apply Forall_app. split; [|apply IH; assumption].
  destruct (pop_of s op (so_b out)) as [po|] eqn:E; simpl; [|constructor].
  constructor; [|constructor]. eapply pop_of_valid; eassumption.
Qed.

Lemma pops_sep ops : forall s, Forall sxsep ops -> Forall sep_op (pops s ops).
Proof.
  induction ops as [|op t IH]; intros s V; simpl; [constructor|]. inversion V; subst.
  destruct (sfull_step s op) as [[s' out]|]; [|apply IH; assumption].
  apply Forall_app. split; [|apply IH; assumption].
  destruct (pop_of s op (so_b out)) as [po|] eqn:E; simpl; [|constructor].
  constructor; [|constructor]. eapply pop_of_sep; eassumption.
Qed.

(** every reachable state of the closed model, from any deployment *)
Definition sxreach (dsc apr minub blk epoch : Z) (ops : list sxop) : sxstate :=
  sfull_run (init_sx dsc apr minub blk epoch) ops.

(** C05 - C07 / C12 transfer: the staking half is a reachable state of Model/StakingPos.v *)
Lemma closed_staking_reach dsc apr minub blk epoch ops :
  sx_p (sxreach dsc apr minub blk epoch ops) = preach dsc apr minub (pops (init_sx dsc apr minub blk epoch) ops).
Proof. unfold sxreach, preach. rewrite sfull_run_staking. reflexivity. Qed.

Lemma closed_staking_inv dsc apr minub blk epoch ops : 0 < dsc -> 0 < apr -> Forall sxvalid ops ->
  Inv (sx_p (sxreach dsc apr minub blk epoch ops)).
Proof.
  intros Hd Ha V. rewrite closed_staking_reach. apply StakingPosProofs.reach_inv; try assumption. apply pops_valid. exact V.
Qed.

Lemma closed_staking_sep dsc apr minub blk epoch ops : 0 < dsc -> 0 < apr -> Forall sxsep ops ->
  Inv (sx_p (sxreach dsc apr minub blk epoch ops)) /\ VirtInv (sx_p (sxreach dsc apr minub blk epoch ops)).
Proof.
  intros Hd Ha V. rewrite closed_staking_reach. apply StakingPosProofs.reach_sep; try assumption. apply pops_sep. exact V.
Qed.

(** C11 transfer: the module half is a reachable state of Model/BoostedHosts.v, with the ghost ledger of its own history *)
Lemma closed_host_inv dsc apr minub blk epoch ops :
  let s := sxreach dsc apr minub blk epoch ops in
  let sg := hgrun (init_b epoch, bg0) (hops (init_sx dsc apr minub blk epoch) ops) in
  sx_b s = fst sg /\ BInv (fst sg) (snd sg).
Proof.
  intros s sg. unfold s, sg, sxreach. rewrite sfull_run_host. simpl. split; [rewrite hgrun_fst; reflexivity|].
  apply hreach_inv.
Qed.

(** ================================================================== Part B: the link invariant *)
(** ------------------------------------------------------------------ staking side: what an endpoint does to the aggregate pool *)
(** what a settlement reads *)
Definition ssk (s : stk) := (s_last s, s_rate s, s_produce s, s_pct s, s_factors s, s_supply s, s_apr s, s_cap s, s_acc s).

Lemma sboosted_cut_0 s : Staking.boosted_cut s 0 = 0.
Proof. unfold Staking.boosted_cut. destruct ((s_pct s =? 0) || negb (s_factors s)); [reflexivity|]. rewrite Z.mul_0_l. apply Zdiv_0_l. Qed.

Lemma ssettle_k s blk s' : Staking.settle s blk = Ok s' ->
  s_pool s' = s_pool s + Staking.boosted_cut s (semission s blk) /\
  s_pct s' = s_pct s /\ s_factors s' = s_factors s /\ s_supply s' = s_supply s /\ s_acc s' = s_acc s + semission s blk.
Proof.
  unfold Staking.settle, semission. intros H. bnd H rem Hr. apply sub_chk_ok in Hr. destruct Hr as (_ & ->).
  destruct (blk <=? s_last s).
  - assert (E : s' = s) by (inversion H; reflexivity). subst s'. rewrite sboosted_cut_0. repeat split; lia.
  - cbv zeta in *.
    set (tm := Z.min (Z.min (if s_produce s then s_rate s * (blk - s_last s) else 0) (apr_per_block s * (blk - s_last s))) (s_cap s - s_acc s)) in *.
    destruct (tm =? 0) eqn:E0.
    + apply Z.eqb_eq in E0. injection H as <-. simpl. rewrite E0, sboosted_cut_0. repeat split; lia.
    + bnd H inc Hi. injection H as <-. simpl. repeat split.
Qed.

Lemma scut_ext s g blk : ssk g = ssk s -> Staking.boosted_cut g (semission g blk) = Staking.boosted_cut s (semission s blk).
Proof. unfold ssk, Staking.boosted_cut, semission, apr_per_block. intros H; inversion H. congruence. Qed.

Lemma spay_k s r b s' : Staking.pay s r b = Ok s' -> ssk s' = ssk s /\ s_pool s' = s_pool s - b.
Proof.
  unfold Staking.pay. destruct ((0 <=? b) && (b <=? r)); [|discriminate]. intros H.
  bnd H res Hr. bnd H pool Hp. bnd H bal Hb. inversion H; subst; clear H.
  apply sub_chk_ok in Hp. destruct Hp as (_ & ->). split; reflexivity.
Qed.

(** user totals: non-negative; of everybody but the acting original caller they only go down *)
Definition sutot_nn (sp : spos) : Prop := forall v, 0 <= utot sp v.

Lemma Inv_utot_nn sp : Inv sp -> sutot_nn sp.
Proof. intros I v. rewrite (i_ut _ I). apply hsum_sind_nonneg. apply (lo_nn _ (i_led _ I)). Qed.

Lemma sutot_eq sp sp' : p_utot sp' = p_utot sp -> forall v, utot sp' v = utot sp v.
Proof. intros E v. unfold StakingPos.utot. rewrite E. reflexivity. Qed.

Lemma spay_all_fr ps : forall sp c sp', pay_all sp c ps = Ok sp' ->
  p_utot sp' = p_utot sp /\ p_s sp' = p_s sp /\ p_attrs sp' = p_attrs sp /\ Forall (fun p : Z * Z => 0 < snd p) ps.
Proof.
  induction ps as [|[n x] t IH]; intros sp c sp' H; simpl in H; [inversion H; repeat split; constructor|].
  bnd H sp1 H1. destruct (IH _ _ _ H) as (A & B & C & D).
  unfold pay_in in H1. destruct (0 <? x) eqn:Ex; [|discriminate]. apply Z.ltb_lt in Ex.
  bnd H1 b Hb. inversion H1; subst; clear H1. simpl in *.
  repeat split; try assumption. constructor; [exact Ex | exact D].
Qed.

Lemma sdecrease_user_le sp n x sp' : decrease_user sp (n, x) = Ok sp' -> 0 <= x -> sutot_nn sp ->
  (forall v, utot sp' v <= utot sp v) /\ sutot_nn sp'.
Proof.
  unfold decrease_user. intros H Hx Hnn. bnd H a Ha. inversion H; subst; clear H.
  assert (G : forall v, 0 <= utot (if x <? utot sp (sa_owner a) then set_utot sp (sa_owner a) (utot sp (sa_owner a) - x) else set_utot sp (sa_owner a) 0) v <= utot sp v).
  { intros v. pose proof (Hnn v) as Hv. pose proof (Hnn (sa_owner a)) as Ho.
    destruct (x <? utot sp (sa_owner a)) eqn:E; [apply Z.ltb_lt in E|];
      (destruct (Z.eq_dec (sa_owner a) v) as [<-|Hne]; [rewrite sutot_set_same; lia | rewrite sutot_set_other by exact Hne; lia]). }
  split; intros v; apply G.
Qed.

Lemma scheck_update_le ps : forall sp u sp', check_update sp u ps = Ok sp' ->
  Forall (fun p : Z * Z => 0 < snd p) ps -> sutot_nn sp ->
  (forall v, v <> u -> utot sp' v <= utot sp v) /\ sutot_nn sp'.
Proof.
  induction ps as [|[n x] t IH]; intros sp u sp' H Hpos Hnn; simpl in H.
  - inversion H; subst. split; [intros; lia | exact Hnn].
  - inversion Hpos as [|? ? Hx Hpos']; subst. simpl in Hx. bnd H a Ha.
    destruct (sa_owner a =? u); [apply (IH _ _ _ H Hpos' Hnn)|].
    bnd H sp1 H1. destruct (sdecrease_user_le _ _ _ _ H1 ltac:(lia) Hnn) as (D1 & D2).
    assert (Hnn2 : sutot_nn (increase_user sp1 u x)).
    { intros v. unfold increase_user. pose proof (D2 v). pose proof (D2 u).
      destruct (Z.eq_dec u v) as [<-|Hne]; [rewrite sutot_set_same; lia | rewrite sutot_set_other by exact Hne; lia]. }
    destruct (IH _ _ _ H Hpos' Hnn2) as (I1 & I2). split; [|exact I2].
    intros v Hv. specialize (I1 v Hv). unfold increase_user in I1. rewrite sutot_set_other in I1 by (intros E; apply Hv; symmetry; exact E).
    specialize (D1 v). lia.
Qed.

(** the block at which an endpoint settles, the boosted payout it is given, the account whose total may grow *)
Definition pblk (po : pop) : option Z :=
  match po with
  | PStake blk _ _ _ _ _ _ | PStakeProxy blk _ _ _ _ _ _ | PClaim blk _ _ _ _ _ | PClaimNewValue blk _ _ _ _ _ _
  | PCompound blk _ _ _ _ _ | PUnstake blk _ _ _ _ _ | PUnstakeProxy blk _ _ _ _ _ _ | PClaimBoosted blk _ _ _ => Some blk
  | PAdmin (SWithdraw blk _ _) | PAdmin (SSetRate blk _ _) | PAdmin (SEnd blk _) | PAdmin (SSetApr blk _ _)
  | PAdmin (SSetPct blk _ _) => Some blk
  | _ => None
  end.
Definition pb (po : pop) : Z :=
  match po with
  | PStake _ _ _ _ _ _ b | PStakeProxy _ _ _ _ _ _ b | PClaim _ _ _ _ _ b | PClaimNewValue _ _ _ _ _ _ b
  | PCompound _ _ _ _ _ b | PUnstake _ _ _ _ _ b | PUnstakeProxy _ _ _ _ _ _ b | PMerge _ _ _ _ b | PClaimBoosted _ _ _ b => b
  | _ => 0
  end.
Definition puser (po : pop) : option Z :=
  match po with
  | PStake _ _ _ u _ _ _ | PStakeProxy _ _ _ u _ _ _ | PClaim _ _ _ u _ _ | PClaimNewValue _ _ _ u _ _ _
  | PUnstake _ _ _ u _ _ | PUnstakeProxy _ _ _ u _ _ _ => Some u
  | PCompound _ _ c _ _ _ | PMerge _ _ c _ _ | PClaimBoosted _ _ c _ => Some c
  | _ => None
  end.
Definition pcut (sp : spos) (po : pop) : Z :=
  match pblk po with Some blk => Staking.boosted_cut (p_s sp) (semission (p_s sp) blk) | None => 0 end.

(** what one successful staking operation does to the aggregate pool, the boosted configuration flags and the totals *)
Definition plink (sp sp' : spos) (cut b : Z) (u : option Z) : Prop :=
  s_pool (p_s sp') = s_pool (p_s sp) + cut - b /\
  s_pct (p_s sp') = s_pct (p_s sp) /\ s_factors (p_s sp') = s_factors (p_s sp) /\
  forall v, u <> Some v -> utot sp' v <= utot sp v.

Lemma ep_stake_link virtual sp blk ep c u amt adds b sp' o :
  ep_stake virtual sp blk ep c u amt adds b = Ok (sp', o) -> sutot_nn sp ->
  plink sp sp' (Staking.boosted_cut (p_s sp) (semission (p_s sp) blk)) b (Some u).
Proof.
  unfold ep_stake. intros H Hnn. destruct (if virtual then whitelisted c else auth c u); [|discriminate].
  destruct (0 <? amt); [|discriminate].
  bnd H sp1 H1. bnd H sp2 H2. destruct (active (p_s sp2)); [|discriminate]. bnd H sp3 H3. cbv zeta in H. bnd H sp5 H5. bnd H m Hm.
  match type of H with (let '(_, _) := mint_pos ?g0 _ _ in _) = _ => set (g := g0) in * end.
  destruct (mint_pos g m c) as [sp7 n] eqn:Hmint. inversion H; subst sp' o; clear H.
  destruct (spay_all_fr _ _ _ _ H1) as (U1 & S1 & _ & Pos).
  unfold ppay in H2. bnd H2 s2 Hs2. inversion H2; subst sp2; clear H2. rewrite S1 in Hs2.
  destruct (spay_k _ _ _ _ Hs2) as (K2 & P2).
  assert (Hnn2 : sutot_nn (with_paid sp1 s2 (p_paid sp1 + b))) by (intros v; unfold StakingPos.utot; simpl; rewrite U1; apply Hnn).
  destruct (scheck_update_le _ _ _ _ H3 Pos Hnn2) as (C1 & _).
  pose proof (check_update_but _ _ _ _ H3) as B3. apply but_fields in B3. destruct B3 as (S3 & _). simpl in S3.
  unfold psettle in H5. bnd H5 s5 Hs5. inversion H5; subst sp5; clear H5. simpl in Hs5. rewrite S3 in Hs5.
  destruct (ssettle_k _ _ _ Hs5) as (P5 & C5 & F5 & _). rewrite (scut_ext _ _ blk K2) in P5.
  unfold ssk in K2. inversion K2.
  unfold mint_pos in Hmint. inversion Hmint; subst sp7 n; clear Hmint. unfold g. unfold plink.
  split; [destruct virtual; simpl; lia|]. split; [destruct virtual; simpl; congruence|]. split; [destruct virtual; simpl; congruence|].
  intros v Hv. assert (Hvu : v <> u) by (intros ->; apply Hv; reflexivity).
  specialize (C1 v Hvu). unfold StakingPos.utot in *. simpl in *.
  rewrite aget_aset_other by (intros E; apply Hvu; symmetry; exact E). rewrite U1 in C1. exact C1.
Qed.

Lemma ep_claim_link sp blk ep c u p newv b sp' o :
  ep_claim sp blk ep c u p newv b = Ok (sp', o) -> sutot_nn sp ->
  plink sp sp' (Staking.boosted_cut (p_s sp) (semission (p_s sp) blk)) b (Some u).
Proof.
  unfold ep_claim. intros H Hnn. destruct (match newv with Some _ => whitelisted c | None => auth c u end); [|discriminate].
  destruct (match newv with Some v => 0 <=? v | None => true end); [|discriminate].
  bnd H sp1 H1. destruct (active (p_s sp1)); [|discriminate].
  bnd H sp2 H2. bnd H a Ha. bnd H part Hp. bnd H base Hb. bnd H sp3 H3. bnd H sp4 H4.
  destruct (spay_all_fr _ _ _ _ H1) as (U1 & S1 & _ & Pos).
  unfold psettle in H2. bnd H2 s2 Hs2. inversion H2; subst sp2; clear H2. rewrite S1 in Hs2.
  destruct (ssettle_k _ _ _ Hs2) as (P2 & C2 & F2 & _).
  unfold ppay in H3. bnd H3 s3 Hs3. inversion H3; subst sp3; clear H3. simpl in Hs3.
  destruct (spay_k _ _ _ _ Hs3) as (K3 & P3). unfold ssk in K3. inversion K3.
  assert (Hnn3 : sutot_nn (with_paid (with_s sp1 s2) s3 (p_paid (with_s sp1 s2) + (base + b)))) by (intros v; unfold StakingPos.utot; simpl; rewrite U1; apply Hnn).
  destruct (scheck_update_le _ _ _ _ H4 Pos Hnn3) as (C1 & _).
  pose proof (check_update_but _ _ _ _ H4) as B4. apply but_fields in B4. destruct B4 as (S4 & _). simpl in S4.
  assert (Hle : forall v, v <> u -> utot sp4 v <= utot sp v).
  { intros v Hv. specialize (C1 v Hv). unfold StakingPos.utot in *. simpl in C1. rewrite U1 in C1. exact C1. }
  destruct newv as [nv|].
  - bnd H sup Hsup. bnd H ut Hut.
    match type of H with (let '(_, _) := mint_pos ?g0 _ _ in _) = _ => set (g := g0) in * end.
    destruct (mint_pos g _ c) as [sp6 n] eqn:Hmint. inversion H; subst sp' o; clear H.
    unfold mint_pos in Hmint. inversion Hmint; subst sp6 n; clear Hmint. unfold g, plink. simpl. rewrite S4.
    split; [lia|]. split; [congruence|]. split; [congruence|].
    intros v Hv. assert (Hvu : v <> u) by (intros ->; apply Hv; reflexivity).
    unfold StakingPos.utot. simpl. rewrite aget_aset_other by (intros E; apply Hvu; symmetry; exact E). apply (Hle v Hvu).
  - destruct (mint_pos sp4 _ c) as [sp5 n] eqn:Hmint. inversion H; subst sp' o; clear H.
    unfold mint_pos in Hmint. inversion Hmint; subst sp5 n; clear Hmint. unfold plink. simpl. rewrite S4.
    split; [lia|]. split; [congruence|]. split; [congruence|].
    intros v Hv. assert (Hvu : v <> u) by (intros ->; apply Hv; reflexivity). apply (Hle v Hvu).
Qed.

Lemma ep_compound_link sp blk ep c first adds b sp' o :
  ep_compound sp blk ep c first adds b = Ok (sp', o) -> sutot_nn sp ->
  plink sp sp' (Staking.boosted_cut (p_s sp) (semission (p_s sp) blk)) b (Some c).
Proof.
  unfold ep_compound. intros H Hnn.
  bnd H sp1 H1. destruct (active (p_s sp1)); [|discriminate].
  bnd H sp2 H2. bnd H a Ha. bnd H part Hp. bnd H base Hb. cbv zeta in H. bnd H sp3 H3. bnd H sp4 H4. bnd H m Hm.
  destruct (mint_pos sp4 m c) as [sp5 n] eqn:Hmint. inversion H; subst sp' o; clear H.
  destruct (spay_all_fr _ _ _ _ H1) as (U1 & S1 & _ & Pos).
  unfold psettle in H2. bnd H2 s2 Hs2. inversion H2; subst sp2; clear H2. rewrite S1 in Hs2.
  destruct (ssettle_k _ _ _ Hs2) as (P2 & C2 & F2 & _).
  unfold ppay in H3. bnd H3 s3 Hs3. inversion H3; subst sp3; clear H3. simpl in Hs3.
  destruct (spay_k _ _ _ _ Hs3) as (K3 & P3). unfold ssk in K3. inversion K3.
  match type of H4 with check_update ?g0 _ _ = _ => set (g := g0) in * end.
  assert (Hnn3 : sutot_nn g) by (intros v; unfold g, StakingPos.utot; simpl; rewrite U1; apply Hnn).
  destruct (scheck_update_le _ _ _ _ H4 Pos Hnn3) as (C1 & _).
  pose proof (check_update_but _ _ _ _ H4) as B4. apply but_fields in B4. destruct B4 as (S4 & _). unfold g in S4. simpl in S4.
  unfold mint_pos in Hmint. inversion Hmint; subst sp5 n; clear Hmint. unfold plink. simpl. rewrite S4. simpl.
  split; [lia|]. split; [congruence|]. split; [congruence|].
  intros v Hv. assert (Hvu : v <> c) by (intros ->; apply Hv; reflexivity).
  unfold StakingPos.utot. simpl. rewrite aget_aset_other by (intros E; apply Hvu; symmetry; exact E).
  specialize (C1 v Hvu). unfold g, StakingPos.utot in C1. simpl in C1. rewrite U1 in C1. exact C1.
Qed.

Lemma ep_unstake_link sp blk ep c u p t b sp' o :
  ep_unstake sp blk ep c u p t b = Ok (sp', o) -> sutot_nn sp ->
  plink sp sp' (Staking.boosted_cut (p_s sp) (semission (p_s sp) blk)) b None.
Proof.
  unfold ep_unstake. intros H Hnn. destruct (match t with Some _ => whitelisted c | None => auth c u end); [|discriminate].
  destruct (match t with Some v => 0 <? v | None => true end); [|discriminate].
  bnd H sp1 H1. destruct (active (p_s sp1)); [|discriminate].
  bnd H sp2 H2. bnd H a Ha. bnd H part Hp. bnd H base Hb. bnd H sp3 H3. bnd H sp4 H4. cbv zeta in H. bnd H sup Hsup.
  destruct (spay_all_fr _ _ _ _ H1) as (U1 & S1 & _ & Pos).
  unfold psettle in H2. bnd H2 s2 Hs2. inversion H2; subst sp2; clear H2. rewrite S1 in Hs2.
  destruct (ssettle_k _ _ _ Hs2) as (P2 & C2 & F2 & _).
  unfold ppay in H3. bnd H3 s3 Hs3. inversion H3; subst sp3; clear H3. simpl in Hs3.
  destruct (spay_k _ _ _ _ Hs3) as (K3 & P3). unfold ssk in K3. inversion K3.
  match type of H4 with decrease_user ?g0 _ = _ => set (g := g0) in * end.
  assert (Hnn3 : sutot_nn g) by (intros v; unfold g, StakingPos.utot; simpl; rewrite U1; apply Hnn).
  destruct p as [n0 x0]. inversion Pos as [|? ? Hx0 _]; subst. simpl in Hx0.
  destruct (sdecrease_user_le _ _ _ _ H4 ltac:(lia) Hnn3) as (D1 & _).
  pose proof (decrease_user_but _ _ _ H4) as B4. apply but_fields in B4. destruct B4 as (S4 & _). unfold g in S4. simpl in S4.
  unfold mint_unbond in H. inversion H; subst sp' o; clear H. unfold plink, credit_ub. rewrite S4.
  split; [destruct t; simpl; lia|]. split; [destruct t; simpl; congruence|]. split; [destruct t; simpl; congruence|].
  intros v _. specialize (D1 v). unfold g, StakingPos.utot in *. simpl in *. rewrite U1 in D1. exact D1.
Qed.

Lemma ep_merge_link sp blk ep c ps b sp' o :
  ep_merge sp blk ep c ps b = Ok (sp', o) -> sutot_nn sp -> plink sp sp' 0 b (Some c).
Proof.
  unfold ep_merge. intros H Hnn. destruct ps as [|first rest]; [discriminate|].
  bnd H sp1 H1. destruct (active (p_s sp1)); [|discriminate].
  bnd H sp2 H2. bnd H sp3 H3. bnd H a Ha. bnd H part Hp. bnd H m0 Hm. cbv zeta in H.
  destruct (mint_pos sp3 _ c) as [sp4 n] eqn:Hmint. inversion H; subst sp' o; clear H.
  destruct (spay_all_fr _ _ _ _ H1) as (U1 & S1 & _ & Pos).
  unfold ppay in H2. bnd H2 s2 Hs2. inversion H2; subst sp2; clear H2. rewrite S1 in Hs2.
  destruct (spay_k _ _ _ _ Hs2) as (K2 & P2). unfold ssk in K2. inversion K2.
  assert (Hnn2 : sutot_nn (with_paid sp1 s2 (p_paid sp1 + b))) by (intros v; unfold StakingPos.utot; simpl; rewrite U1; apply Hnn).
  destruct (scheck_update_le _ _ _ _ H3 Pos Hnn2) as (C1 & _).
  pose proof (check_update_but _ _ _ _ H3) as B3. apply but_fields in B3. destruct B3 as (S3 & _). simpl in S3.
  unfold mint_pos in Hmint. inversion Hmint; subst sp4 n; clear Hmint. unfold plink. simpl. rewrite S3.
  split; [lia|]. split; [congruence|]. split; [congruence|].
  intros v Hv. assert (Hvu : v <> c) by (intros ->; apply Hv; reflexivity).
  specialize (C1 v Hvu). unfold StakingPos.utot in *. simpl in *. rewrite U1 in C1. exact C1.
Qed.

Lemma ep_claim_boosted_link sp blk ep c b sp' o :
  ep_claim_boosted sp blk ep c b = Ok (sp', o) ->
  plink sp sp' (Staking.boosted_cut (p_s sp) (semission (p_s sp) blk)) b None.
Proof.
  unfold ep_claim_boosted. intros H. destruct (negb (utot sp c =? 0)); [|discriminate]. destruct (active (p_s sp)); [|discriminate].
  bnd H sp1 H1. bnd H sp2 H2. inversion H; subst sp' o; clear H.
  unfold psettle in H1. bnd H1 s1 Hs1. inversion H1; subst sp1; clear H1.
  destruct (ssettle_k _ _ _ Hs1) as (P1 & C1 & F1 & _).
  unfold ppay in H2. bnd H2 s2 Hs2. inversion H2; subst sp2; clear H2. simpl in Hs2.
  destruct (spay_k _ _ _ _ Hs2) as (K2 & P2). unfold ssk in K2. inversion K2.
  unfold plink. simpl. split; [lia|]. split; [congruence|]. split; [congruence|]. intros v _. unfold StakingPos.utot. simpl. lia.
Qed.

(** the admin endpoints of Model/Staking.v *)
Lemma admin_link s a s' o : is_admin_op a = true -> sstep s a = Ok (s', o) ->
  s_pool s' = s_pool s + (match a with
                          | SWithdraw blk _ _ | SSetRate blk _ _ | SEnd blk _ | SSetApr blk _ _ | SSetPct blk _ _ =>
                              Staking.boosted_cut s (semission s blk)
                          | _ => 0 end) /\
  s_pct s' = (match a with SSetPct _ _ p => p | _ => s_pct s end) /\
  s_factors s' = (match a with SSetFactors _ => true | _ => s_factors s end).
Proof.
  destruct a; try discriminate; intros _ H; simpl in H.
  - destruct (is_admin c); [|discriminate]. destruct (0 <? amt); [|discriminate]. inversion H; subst. simpl. repeat split; lia.
  - destruct (is_admin c); [|discriminate]. destruct (0 <=? w); [|discriminate].
    bnd H s1 H1. bnd H rem Hr. destruct (w <=? rem); [|discriminate]. bnd H cap Hc. bnd H bal Hb. inversion H; subst.
    destruct (ssettle_k _ _ _ H1) as (P1 & C1 & F1 & _). simpl. repeat split; assumption.
  - destruct (is_admin c); [|discriminate]. destruct (0 <? r); [|discriminate]. bnd H s1 H1. inversion H; subst.
    destruct (ssettle_k _ _ _ H1) as (P1 & C1 & F1 & _). simpl. repeat split; assumption.
  - destruct (is_admin c); [|discriminate]. destruct (negb (s_rate s =? 0)); [|discriminate]. destruct (negb (s_produce s)); [|discriminate].
    inversion H; subst. simpl. repeat split; lia.
  - destruct (is_admin c); [|discriminate]. bnd H s1 H1. inversion H; subst.
    destruct (ssettle_k _ _ _ H1) as (P1 & C1 & F1 & _). simpl. repeat split; assumption.
  - destruct (is_admin c); [|discriminate]. destruct (0 <? a); [|discriminate]. bnd H s1 H1. inversion H; subst.
    destruct (ssettle_k _ _ _ H1) as (P1 & C1 & F1 & _). simpl. repeat split; assumption.
  - destruct (is_admin c); [|discriminate]. destruct ((0 <=? e) && (e <=? MAX_MIN_UNBOND_EPOCHS)); [|discriminate].
    inversion H; subst. simpl. repeat split; lia.
  - destruct (is_admin c); [|discriminate]. destruct ((0 <=? p) && (p <=? MAXP)); [|discriminate]. bnd H s1 H1. inversion H; subst.
    destruct (ssettle_k _ _ _ H1) as (P1 & C1 & F1 & _). simpl. repeat split; assumption.
  - destruct (is_admin c); [|discriminate]. inversion H; subst. simpl. repeat split; lia.
  - destruct (is_admin c); [|discriminate]. destruct ((st =? ST_Active) || (st =? ST_Inactive)); [|discriminate].
    inversion H; subst. simpl. repeat split; lia.
  - destruct (0 <? amt); [|discriminate]. inversion H; subst. simpl. repeat split; lia.
Qed.

Lemma pstep_link sp po sp' o : pstep sp po = Ok (sp', o) -> sutot_nn sp ->
  s_pool (p_s sp') = s_pool (p_s sp) + pcut sp po - pb po /\
  s_pct (p_s sp') = (match po with PAdmin (SSetPct _ _ p) => p | _ => s_pct (p_s sp) end) /\
  s_factors (p_s sp') = (match po with PAdmin (SSetFactors _) => true | _ => s_factors (p_s sp) end) /\
  forall v, puser po <> Some v -> utot sp' v <= utot sp v.
Proof.
  intros H Hnn. destruct po; cbn [pstep] in H; unfold pcut; cbn [pblk pb puser].
  - apply (ep_stake_link _ _ _ _ _ _ _ _ _ _ _ H Hnn).
  - apply (ep_stake_link _ _ _ _ _ _ _ _ _ _ _ H Hnn).
  - apply (ep_claim_link _ _ _ _ _ _ _ _ _ _ H Hnn).
  - apply (ep_claim_link _ _ _ _ _ _ _ _ _ _ H Hnn).
  - apply (ep_compound_link _ _ _ _ _ _ _ _ _ H Hnn).
  - destruct (ep_unstake_link _ _ _ _ _ _ _ _ _ _ H Hnn) as (A & B & C & D).
    split; [exact A|]. split; [exact B|]. split; [exact C|]. intros v _. apply D. discriminate.
  - destruct (ep_unstake_link _ _ _ _ _ _ _ _ _ _ H Hnn) as (A & B & C & D).
    split; [exact A|]. split; [exact B|]. split; [exact C|]. intros v _. apply D. discriminate.
  - (* unbond *)
    unfold ep_unbond in H. bnd H sp1 H1. bnd H so Hs. inversion H; subst sp' o; clear H.
    destruct (debit_ub_shape _ _ _ _ H1) as (h & ->). simpl in Hs. simpl.
    destruct so as [s' o']. simpl in *. destruct (active (p_s sp)); [|discriminate]. destruct (0 <? amt); [|discriminate].
    destruct (find_z (s_ub (p_s sp)) n) as [unlock|]; [|discriminate]. destruct (unlock <=? ep); [|discriminate].
    bnd Hs rest Hr. bnd Hs bal Hb. bnd Hs tot Ht. inversion Hs; subst. simpl.
    split; [lia|]. split; [reflexivity|]. split; [reflexivity|]. intros v _. unfold StakingPos.utot. simpl. lia.
  - apply (ep_merge_link _ _ _ _ _ _ _ _ H Hnn).
  - destruct (ep_claim_boosted_link _ _ _ _ _ _ _ H) as (A & B & C & D).
    split; [exact A|]. split; [exact B|]. split; [exact C|]. intros v _. apply D. discriminate.
  - (* transfer *)
    unfold ep_transfer in H. bnd H sp1 H1. inversion H; subst sp' o; clear H.
    unfold pay_in in H1. destruct (0 <? amt); [|discriminate]. bnd H1 b Hb. inversion H1; subst sp1. simpl.
    split; [lia|]. split; [reflexivity|]. split; [reflexivity|]. intros v _. unfold StakingPos.utot. simpl. lia.
  - (* transfer of an unbond token *)
    unfold ep_transfer_ub in H. bnd H sp1 H1. inversion H; subst sp' o; clear H.
    destruct (debit_ub_shape _ _ _ _ H1) as (h & ->). unfold credit_ub. simpl.
    split; [lia|]. split; [reflexivity|]. split; [reflexivity|]. intros v _. unfold StakingPos.utot. simpl. lia.
  - (* admin *)
    destruct (is_admin_op a) eqn:Ea; [|discriminate]. bnd H so Hs. inversion H; subst sp' o; clear H.
    destruct so as [s' o']. simpl. destruct (admin_link _ _ _ _ Ea Hs) as (A & B & C).
    split; [rewrite A; destruct a; try discriminate; simpl; lia|].
    split; [rewrite B; destruct a; reflexivity|]. split; [rewrite C; destruct a; reflexivity|].
    intros v _. unfold StakingPos.utot. simpl. lia.
Qed.

(** ------------------------------------------------------------------ the invariant *)
(** s_pool = sum over the weeks of accumulated + remaining, + undistributed (collect only moves remaining / accumulated
    into undistributed, nothing leaves the contract); same percentage; "factors configured" = config present *)
Definition SLK (s : sxstate) : Prop :=
  s_pool (p_s (sx_p s)) = msum (b_h (sx_b s)) + bh_und (b_h (sx_b s)) /\
  s_pct (p_s (sx_p s)) = bh_pct (b_h (sx_b s)) /\
  (s_factors (p_s (sx_p s)) = true <-> bh_cfg (b_h (sx_b s)) <> None).

Lemma smaxp_same : Staking.MAXP = BOOSTED_MAX_PERCENT.
Proof. reflexivity. Qed.

(** the staking farm's cut and the module's slice are the same function of the accrual *)
Lemma scut_agree s tm : SLK s -> Staking.boosted_cut (p_s (sx_p s)) tm = expected_cut (sx_b s) tm.
Proof.
  intros (_ & Hp & Hf). unfold Staking.boosted_cut, expected_cut, view_pct. rewrite Hp, smaxp_same.
  destruct (s_factors (p_s (sx_p s))) eqn:Ef; destruct (bh_cfg (b_h (sx_b s))) eqn:Ec; simpl; try reflexivity.
  - exfalso. apply (proj1 Hf eq_refl). reflexivity.
  - assert (X : true = true -> False); [|exfalso; apply X; reflexivity]. intros _.
    assert (false = true) by (apply Hf; discriminate). discriminate.
Qed.

Lemma SLK_init dsc apr minub blk epoch : SLK (init_sx dsc apr minub blk epoch).
Proof. unfold SLK, msum. simpl. split; [reflexivity|]. split; [reflexivity|]. split; [discriminate | intros H; exfalso; apply H; reflexivity]. Qed.

(** which endpoints settle (run generate_aggregated_rewards), which settle a user's boosted rewards *)
Definition ssettles (op : sxop) : bool :=
  match op with
  | SXStake _ _ _ _ _ | SXStakeProxy _ _ _ _ _ | SXClaim _ _ _ _ | SXClaimNewValue _ _ _ _ _ | SXCompound _ _ _ _
  | SXUnstake _ _ _ _ | SXUnstakeProxy _ _ _ _ _ | SXClaimBoosted _ _
  | SXWithdraw _ _ | SXSetRate _ _ | SXEnd _ | SXSetApr _ _ | SXSetPct _ _ => true
  | _ => false
  end.

Definition sclaim_user (op : sxop) : option Z :=
  match op with
  | SXStake _ u _ _ _ | SXStakeProxy _ u _ _ _ | SXClaim _ u _ _ | SXClaimNewValue _ u _ _ _
  | SXUnstake _ u _ _ | SXUnstakeProxy _ u _ _ _ => Some u
  | SXCompound c _ _ _ | SXMerge c _ _ | SXClaimBoosted c _ => Some c
  | _ => None
  end.

Definition sem (s : sxstate) : Z := semission (p_s (sx_p s)) (sx_blk s).

Lemma pop_of_cut s op b po : pop_of s op b = Some po ->
  pcut (sx_p s) po = (if ssettles op then Staking.boosted_cut (p_s (sx_p s)) (sem s) else 0) /\
  pb po = (match sclaim_user op with Some _ => b | None => 0 end).
Proof. destruct op; simpl; intros H; inversion H; subst; unfold pcut, sem; simpl; split; reflexivity. Qed.

Lemma sbop_of_full s op S P bo : sbop_of s op S P = Some bo ->
  full_of bo = (if ssettles op then Some (sem s) else None) /\
  (claim_of bo = None <-> sclaim_user op = None).
Proof.
  unfold sbop_of, sem. destruct op; simpl; intros H; inversion H; subst; simpl; split; try reflexivity;
    split; intros; try discriminate; try reflexivity.
Qed.

(** Link step: the invariant is kept, and this operation's settlement cut on the staking side equals the slice the module books *)
Lemma sfull_step_link s g op s' out :
  SLK s -> BInv (sx_b s) g -> sutot_nn (sx_p s) -> sfull_step s op = Ok (s', out) ->
  SLK s' /\
  o_cut (so_m out) = (if ssettles op then Staking.boosted_cut (p_s (sx_p s)) (sem s) else 0) /\
  s_pool (p_s (sx_p s')) = s_pool (p_s (sx_p s)) + o_cut (so_m out) - so_b out.
Proof.
  intros L Hi Hnn H. pose proof (sfull_step_staking _ _ _ _ H) as Hf. pose proof (sfull_step_module _ _ _ _ H) as Hb.
  set (S := s_supply (p_s (sx_p s'))) in *. set (P := utot (sx_p s') (user_of op)) in *.
  (* module side *)
  assert (Mod : msum (b_h (sx_b s')) + bh_und (b_h (sx_b s')) = msum (b_h (sx_b s)) + bh_und (b_h (sx_b s)) + o_cut (so_m out) - so_b out /\
                o_cut (so_m out) = (if ssettles op then Staking.boosted_cut (p_s (sx_p s)) (sem s) else 0) /\
                bh_pct (b_h (sx_b s')) = (match op with SXSetPct _ p => p | _ => bh_pct (b_h (sx_b s)) end) /\
                (bh_cfg (b_h (sx_b s')) <> None <-> (bh_cfg (b_h (sx_b s)) <> None \/ exists c fa, op = SXSetFactors c fa)) /\
                (sclaim_user op = None -> so_b out = 0)).
  { destruct (sbop_of s op S P) as [bo|] eqn:Eb.
    - destruct Hb as (Hb & Hob). destruct (sbop_of_full _ _ _ _ _ Eb) as (Hfull & Hcl).
      pose proof (step_books _ _ _ _ _ Hi Hb) as B1. rewrite Hob in B1.
      destruct (step_cut _ _ _ _ _ Hi Hb) as (_ & B2). rewrite Hfull in B2.
      pose proof (step_pct _ _ _ _ _ Hi Hb) as B3. pose proof (step_cfg_presence _ _ _ _ _ Hi Hb) as B4.
      split; [exact B1|]. split; [destruct (ssettles op); [rewrite B2; symmetry; apply scut_agree; exact L | exact B2]|].
      split; [unfold sbop_of in Eb; destruct op; simpl in Eb; inversion Eb; subst bo; exact B3|].
      split.
      + rewrite B4. split; (intros [X|(c & f & X)]; [left; exact X | right]).
        * subst bo. unfold sbop_of in Eb. destruct op; simpl in Eb; try discriminate. inversion Eb; subst. eexists _, _. reflexivity.
        * subst op. unfold sbop_of in Eb. simpl in Eb. inversion Eb. eexists _, _. reflexivity.
      + intros Hn. assert (Hn' : claim_of bo = None) by (apply Hcl; exact Hn).
        destruct (step_noclaim _ _ _ _ Hb Hn') as (_ & Z0 & _). rewrite <- Hob; exact Z0.
    - destruct Hb as (-> & -> & Hb0). rewrite Hb0. simpl.
      unfold sbop_of in Eb. destruct op; simpl in Eb; try discriminate; simpl;
        (split; [lia|]); (split; [reflexivity|]); (split; [reflexivity|]);
        (split; [split; [intros X; left; exact X | intros [X|(c0 & fa0 & X)]; [exact X | discriminate]] | reflexivity]). }
  destruct Mod as (M1 & M2 & M3 & M4 & M5).
  (* staking side *)
  assert (Frm : s_pool (p_s (sx_p s')) = s_pool (p_s (sx_p s)) + (if ssettles op then Staking.boosted_cut (p_s (sx_p s)) (sem s) else 0) - so_b out /\
                s_pct (p_s (sx_p s')) = (match op with SXSetPct _ p => p | _ => s_pct (p_s (sx_p s)) end) /\
                s_factors (p_s (sx_p s')) = (match op with SXSetFactors _ _ => true | _ => s_factors (p_s (sx_p s)) end)).
  { destruct (pop_of s op (so_b out)) as [po|] eqn:Ef.
    - destruct (pstep_link _ _ _ _ Hf Hnn) as (F1 & F2 & F3 & _). destruct (pop_of_cut _ _ _ _ Ef) as (C1 & C2).
      rewrite C1, C2 in F1.
      split; [destruct (sclaim_user op) eqn:Eu; [exact F1 | rewrite (M5 eq_refl) in *; exact F1]|].
      split; destruct op; simpl in Ef; inversion Ef; subst po; assumption.
    - destruct Hf as (-> & _). destruct op; simpl in Ef; try discriminate; simpl; rewrite (M5 eq_refl); repeat split; lia. }
  destruct Frm as (F1 & F2 & F3). destruct L as (L1 & L2 & L3).
  split; [|split; [exact M2 | rewrite M2; exact F1]].
  unfold SLK. split; [rewrite F1, M1, M2; lia|]. split; [rewrite F2, M3; destruct op; try exact L2; reflexivity|].
  rewrite F3, M4. destruct op; try (rewrite L3; split; [intros X; left; exact X | intros [X|(c0 & fa0 & X)]; [exact X | discriminate]]).
  split; [intros _; right; eexists _, _; reflexivity | reflexivity].
Qed.

(** ================================================================== Part C: no underflow of remaining(week) *)
(** ------------------------------------------------------------------ C.1 what the invariant depends on *)
(** the boosted module's state, the host's user totals and its token supply *)
Record gst := mkG { g_b : bst; g_ut : Z -> Z; g_sup : Z }.

Definition gview (s : sxstate) : gst := mkG (sx_b s) (utot (sx_p s)) (s_supply (p_s (sx_p s))).

(** positions of the recorded users that can still claim week [wk] *)
Definition gpendF (ut : Z -> Z) (wk : Z) (u : Z) (p : progress) : Z := if pr_week p <=? wk then ut u else 0.
Definition gowedF (ut : Z -> Z) (w : wstate) (wk : Z) : Z := usum (gpendF ut wk) (w_prog w).

Lemma gpendF_nonneg ut wk u p : (forall v, 0 <= ut v) -> 0 <= gpendF ut wk u p.
Proof. intros Hnn. unfold gpendF. destruct (pr_week p <=? wk); [apply Hnn | lia]. Qed.

Lemma touch_gowedF cw u w w' ut wk : touch cw u w w' -> NoDup (map fst (w_prog w)) -> wk < cw ->
  gowedF ut w' wk = gowedF ut w wk - f_old2 (gpendF ut wk) u (pfind (w_prog w) u).
Proof.
  intros (cur & _ & Hpa & _) Hnd Hw. unfold gowedF. rewrite Hpa, usum_progress_after.
  - unfold gpendF at 3. simpl. assert (Ef : (cw <=? wk) = false) by (apply Z.leb_gt; lia). rewrite Ef. lia.
  - exact Hnd.
  - intros _. unfold gpendF. simpl. assert (Ef : (cw <=? wk) = false) by (apply Z.leb_gt; lia). rewrite Ef. reflexivity.
Qed.

Lemma gowedF_mono ut ut' w wk :
  (forall v p, In (v, p) (w_prog w) -> pr_week p <= wk -> ut' v <= ut v) -> gowedF ut' w wk <= gowedF ut w wk.
Proof.
  intros H. unfold gowedF. apply usum_le. intros [v p] Hin. simpl. unfold gpendF.
  destruct (pr_week p <=? wk) eqn:E; [apply Z.leb_le in E; apply (H v p Hin E) | lia].
Qed.

(** the no-underflow invariant of Proofs/FarmFullProofs.v ([NU]), on the view *)
Record GNU (s : gst) (g : xg) : Prop := mkGNU {
  gn_e : EInv (bcur_week (g_b s)) (b_w (g_b s)) (uE g);
  gn_uf0 : forall wk, 0 <= uF g wk;
  gn_uffut : forall wk, bcur_week (g_b s) <= wk -> uF g wk = 0;
  gn_sup : Fw (g_b s) (bcur_week (g_b s)) = 0 \/ Fw (g_b s) (bcur_week (g_b s)) = g_sup s;
  gn_supfut : forall wk, bcur_week (g_b s) < wk -> Fw (g_b s) wk = 0;
  gn_supnn : forall wk, 0 <= Fw (g_b s) wk;
  gn_FI : forall wk, wk < bcur_week (g_b s) ->
     Fw (g_b s) wk = 0 \/ gcuts (xg_b g) wk = 0 \/ uF g wk + gowedF (g_ut s) (b_w (g_b s)) wk <= Fw (g_b s) wk;
  gn_PI : forall wk, wk < bcur_week (g_b s) -> PIw (g_b s) g wk;
  gn_nocfg : bh_cfg (b_h (g_b s)) = None -> forall wk, gcuts (xg_b g) wk = 0;
  gn_fok : FOK (g_fac (xg_b g))
}.

(** what the host guarantees about its totals: non-negative, and those of distinct users add up to at most the supply *)
Definition host_ok (s : gst) : Prop :=
  (forall v, 0 <= g_ut s v) /\
  (forall (l : list (Z * progress)), NoDup (map fst l) -> usum (fun u _ => g_ut s u) l <= g_sup s).

Record GInv (s : gst) (g : xg) : Prop := mkGI {
  gi_host : host_ok s;
  gi_mod : BInv (g_b s) (xg_b g);
  gi_nu : GNU s g
}.

Lemma gowedF_le_supply s w wk : host_ok s -> NoDup (map fst (w_prog w)) -> gowedF (g_ut s) w wk <= g_sup s.
Proof.
  intros (Hnn & Hsum) Hnd. eapply Z.le_trans; [|apply (Hsum (w_prog w) Hnd)].
  unfold gowedF. apply usum_le. intros [v p] _. simpl. unfold gpendF.
  pose proof (Hnn v). destruct (pr_week p <=? wk); lia.
Qed.

(** ------------------------------------------------------------------ C.2 the clock moves *)
Lemma gnu_time s g dep s' out g' :
  GInv s g -> step (g_b s) (BAdvance dep) = Ok (g_b s', out) -> g_ut s' = g_ut s -> g_sup s' = g_sup s ->
  (forall wk, gcuts (xg_b g') wk = gcuts (xg_b g) wk) -> (forall wk, gpaid (xg_b g') wk = gpaid (xg_b g) wk) ->
  g_fac (xg_b g') = g_fac (xg_b g) -> (forall wk, uE g' wk = uE g wk) -> (forall wk, uF g' wk = uF g wk) ->
  GNU s' g'.
Proof.
  intros [Hh Hi N] Hb Eut Ef Gc Gp Gf Ge Gu.
  simpl in Hb. unfold Boosted.ep_advance in Hb. destruct (0 <=? dep) eqn:En0; [|discriminate]. apply Z.leb_le in En0.
  injection Hb as Eb Eo. set (cw := bcur_week (g_b s)) in *.
  assert (Hcw : cw <= bcur_week (g_b s')).
  { rewrite <- Eb. unfold cw, bcur_week; simpl. pose proof week_pos.
    pose proof (Z.div_le_mono (b_epoch (g_b s) - b_first (g_b s)) (b_epoch (g_b s) + dep - b_first (g_b s)) WK). lia. }
  assert (Ew : b_w (g_b s') = b_w (g_b s)) by (rewrite <- Eb; reflexivity).
  assert (Eh : b_h (g_b s') = b_h (g_b s)) by (rewrite <- Eb; reflexivity).
  assert (EF : forall wk, Fw (g_b s') wk = Fw (g_b s) wk) by (intros; unfold Fw; rewrite Eh; reflexivity).
  pose proof Hi as (_ & _ & (HT1 & _) & _ & HM & _). fold cw in HT1, HM.
  pose proof max_weeks_nonneg as HMX.
  assert (Hnd : NoDup (map fst (w_prog (b_w (g_b s))))) by (destruct (e_w _ _ _ (gn_e _ _ N)) as ((X & _) & _); exact X).
  constructor.
  - rewrite Ew. apply (EInv_ext _ _ (uE g)); [exact Ge|]. apply (EInv_advance cw); [exact Hcw|]. apply N.
  - intros wk. rewrite Gu. apply N.
  - intros wk Hw. rewrite Gu. apply (gn_uffut _ _ N). fold cw. lia.
  - rewrite EF, Ef. destruct (Z.eq_dec (bcur_week (g_b s')) cw) as [->|Hne]; [apply N|].
    left. apply (gn_supfut _ _ N). fold cw. lia.
  - intros wk Hw. rewrite EF. apply (gn_supfut _ _ N). fold cw. lia.
  - intros wk. rewrite EF. apply N.
  - intros wk Hw. rewrite EF, Gc, Gu, Eut, Ew.
    destruct (Z_lt_le_dec wk cw) as [H1|H1]; [apply (gn_FI _ _ N); exact H1|].
    destruct (Z.eq_dec wk cw) as [->|H2]; [|left; apply (gn_supfut _ _ N); fold cw; lia].
    destruct (gn_sup _ _ N) as [Z0|Es]; [left; exact Z0|]. right. right. fold cw in Es.
    rewrite (gn_uffut _ _ N) by (fold cw; lia). rewrite Es. pose proof (gowedF_le_supply s (b_w (g_b s)) cw Hh Hnd). lia.
  - intros wk Hw.
    destruct (Z_lt_le_dec wk cw) as [H1|H1].
    + apply (PIw_transfer (g_b s) (g_b s') g g' wk (gn_PI _ _ N wk H1)).
      * left. rewrite Ew. reflexivity.
      * apply EF.
      * apply Gp.
      * apply Gc.
      * apply Ge.
      * apply Gu.
      * apply fw_same_fac. exact Gf.
      * apply (gcuts_nonneg _ _ _ _ wk HM).
      * apply (e_ue0 _ _ _ (gn_e _ _ N)).
      * apply (gn_uf0 _ _ N).
      * apply (gn_supnn _ _ N).
      * apply (fw_ok _ _ (gn_fok _ _ N)).
      * apply (fw_ok _ _ (gn_fok _ _ N)).
    + (* a week that was running or still in the future: nothing paid for it yet *)
      unfold PIw. cbv zeta. rewrite Gp, Gc, Ge, Gu, (fw_same_fac _ _ wk Gf), EF, Ew.
      assert (P0 : gpaid (xg_b g) wk = 0).
      { assert (Hrw : rw_ (b_w (g_b s)) wk = []).
        { destruct (rw_ (b_w (g_b s)) wk) as [|x l] eqn:E; [reflexivity|]. assert (Hne : rw_ (b_w (g_b s)) wk <> []) by (rewrite E; discriminate).
          pose proof (m_fut _ _ _ _ HM wk Hne). lia. }
        apply (m_win _ _ _ _ HM wk ltac:(lia) Hrw). }
      rewrite P0. pose proof (gcuts_nonneg _ _ _ _ wk HM). pose proof (e_ue0 _ _ _ (gn_e _ _ N) wk). pose proof (gn_uf0 _ _ N wk).
      pose proof (gn_supnn _ _ N wk). pose proof (e_nn _ _ _ (gn_e _ _ N) wk). destruct (fw_ok _ wk (gn_fok _ _ N)). nia.
  - intros Hc wk. rewrite Gc. rewrite Eh in Hc. apply (gn_nocfg _ _ N Hc).
  - rewrite Gf. apply N.
Qed.

(** ------------------------------------------------------------------ C.3 operations that leave the weekly state alone *)
Lemma gnu_quiet_gen s g s' g' (cut : Z) :
  GInv s g ->
  let cw := bcur_week (g_b s) in
  bcur_week (g_b s') = cw -> b_w (g_b s') = b_w (g_b s) -> bh_sup (b_h (g_b s')) = bh_sup (b_h (g_b s)) ->
  (forall v, g_ut s' v <= g_ut s v) -> g_sup s' = g_sup s ->
  0 <= cut -> (bh_cfg (b_h (g_b s)) = None -> cut = 0) ->
  (forall wk, gcuts (xg_b g') wk = gcuts (xg_b g) wk + (if cw =? wk then cut else 0)) ->
  (forall wk, gpaid (xg_b g') wk = gpaid (xg_b g) wk) ->
  (forall wk, uE g' wk = uE g wk) -> (forall wk, uF g' wk = uF g wk) ->
  (forall wk, wk < cw -> fw (xg_b g') wk = fw (xg_b g) wk \/ gpaid (xg_b g) wk = 0) ->
  (bh_cfg (b_h (g_b s')) = None -> bh_cfg (b_h (g_b s)) = None) ->
  FOK (g_fac (xg_b g')) ->
  GNU s' g'.
Proof.
  intros [Hh Hi N] cw Ecw Ew Es Hut Hsup Hcut Hcut0 Gc Gp Ge Gu Hfw Hcfg Hfok.
  assert (EF : forall wk, Fw (g_b s') wk = Fw (g_b s) wk) by (intros; unfold Fw; rewrite Es; reflexivity).
  pose proof Hi as (_ & _ & _ & _ & HM & _). fold cw in HM.
  constructor.
  - rewrite Ecw, Ew. apply (EInv_ext _ _ (uE g)); [exact Ge | apply N].
  - intros wk. rewrite Gu. apply N.
  - intros wk Hw. rewrite Gu. apply (gn_uffut _ _ N). fold cw. lia.
  - rewrite Ecw, EF, Hsup. apply N.
  - intros wk Hw. rewrite EF. apply (gn_supfut _ _ N). fold cw. lia.
  - intros wk. rewrite EF. apply N.
  - intros wk Hw. rewrite Ecw in Hw. rewrite EF, Gc, Gu, Ew.
    assert (Ec : (cw =? wk) = false) by (apply Z.eqb_neq; lia). rewrite Ec, Z.add_0_r.
    destruct (gn_FI _ _ N wk Hw) as [H1|[H1|H1]]; [left; exact H1 | right; left; exact H1 | right; right].
    assert (gowedF (g_ut s') (b_w (g_b s)) wk <= gowedF (g_ut s) (b_w (g_b s)) wk) by (apply gowedF_mono; intros; apply Hut). lia.
  - intros wk Hw. rewrite Ecw in Hw.
    assert (Ec : (cw =? wk) = false) by (apply Z.eqb_neq; lia).
    destruct (Hfw wk Hw) as [Hf|P0].
    + apply (PIw_transfer (g_b s) (g_b s') g g' wk (gn_PI _ _ N wk Hw)).
      * left. rewrite Ew. reflexivity.
      * apply EF.
      * apply Gp.
      * rewrite Gc, Ec. lia.
      * apply Ge.
      * apply Gu.
      * exact Hf.
      * apply (gcuts_nonneg _ _ _ _ wk HM).
      * apply (e_ue0 _ _ _ (gn_e _ _ N)).
      * apply (gn_uf0 _ _ N).
      * apply (gn_supnn _ _ N).
      * apply (fw_ok _ _ (gn_fok _ _ N)).
      * apply (fw_ok _ _ (gn_fok _ _ N)).
    + unfold PIw. cbv zeta. rewrite Gp, P0, Gc, Ec, Z.add_0_r, Ge, Gu, EF, Ew.
      pose proof (gcuts_nonneg _ _ _ _ wk HM). pose proof (e_ue0 _ _ _ (gn_e _ _ N) wk). pose proof (gn_uf0 _ _ N wk).
      pose proof (gn_supnn _ _ N wk). pose proof (e_nn _ _ _ (gn_e _ _ N) wk). destruct (fw_ok _ wk Hfok). nia.
  - intros Hc wk. specialize (Hcfg Hc). rewrite Gc, (gn_nocfg _ _ N Hcfg), (Hcut0 Hcfg). destruct (_ =? _); lia.
  - exact Hfok.
Qed.

(** ------------------------------------------------------------------ C.4 operations that touch one user's claim progress *)
Lemma gnu_touch_gen s g s' g' u w1 (yE yF pd : Z -> Z) (cut : Z) :
  GInv s g ->
  let cw := bcur_week (g_b s) in let w := b_w (g_b s) in let f := g_ut s in
  let pop := pfind (w_prog w) u in
  bcur_week (g_b s') = cw ->
  (* the weekly state: at most two touches of the same user *)
  ((w1 = w /\ (forall wk, yE wk = 0 /\ yF wk = 0)) \/ touch cw u w w1) ->
  (b_w (g_b s') = w1 \/ touch cw u w1 (b_w (g_b s'))) ->
  (* what the settlement used *)
  (forall wk, 0 <= yE wk <= f_old (owed_at wk) pop) -> (forall wk, cw <= wk -> yE wk = 0) ->
  (forall wk, 0 <= yF wk <= f_old2 (gpendF f wk) u pop) -> (forall wk, cw <= wk -> yF wk = 0) ->
  (forall wk, uE g' wk = uE g wk + yE wk) -> (forall wk, uF g' wk = uF g wk + yF wk) ->
  (* what it paid *)
  (forall wk, gpaid (xg_b g') wk = gpaid (xg_b g) wk + pd wk) ->
  (forall wk, wk < cw -> 0 <= pd wk /\
     let fa := fw (xg_b g) wk in
     pd wk * ((fa_ce fa + fa_cf fa) * En w wk * Fw (g_b s) wk) <=
     gcuts (xg_b g) wk * (fa_ce fa * yE wk * Fw (g_b s) wk + fa_cf fa * yF wk * En w wk)) ->
  (* the slice *)
  0 <= cut -> (bh_cfg (b_h (g_b s)) = None -> cut = 0 /\ forall wk, pd wk = 0) ->
  (forall wk, gcuts (xg_b g') wk = gcuts (xg_b g) wk + (if cw =? wk then cut else 0)) ->
  g_fac (xg_b g') = g_fac (xg_b g) ->
  (bh_cfg (b_h (g_b s')) = None -> bh_cfg (b_h (g_b s)) = None) ->
  (* host supply per week *)
  (forall wk, wk <> cw -> Fw (g_b s') wk = Fw (g_b s) wk) ->
  (Fw (g_b s') cw = 0 \/ Fw (g_b s') cw = g_sup s') -> 0 <= Fw (g_b s') cw ->
  (* the host's user totals *)
  (forall v, v <> u -> g_ut s' v <= f v) ->
  (bh_cfg (b_h (g_b s)) <> None ->
     (forall p, In (u, p) (w_prog (b_w (g_b s'))) -> pr_week p = cw) \/ g_ut s' u <= f u) ->
  GNU s' g'.
Proof.
  intros [(Hnn & _) Hi N] cw w f pop Ecw T1 T2 HyE HyEf HyF HyFf Ge Gu Gp Hpd Hcut Hnocut Gc Gf Hcfg HF HFc HFc0 Hut Hpend.
  pose proof Hi as (_ & Hcwpos & _ & _ & HM & _). fold cw in Hcwpos, HM.
  pose proof (gn_e _ _ N) as I0. fold cw w in I0.
  assert (Hnd0 : NoDup (map fst (w_prog w))) by (destruct (e_w _ _ _ I0) as ((X & _) & _); exact X).
  (* energy invariant through the touches *)
  assert (I1 : EInv cw w1 (fun wk => uE g wk + yE wk)).
  { destruct T1 as [(-> & Hz)|T]; [|apply (touch_EInv _ _ _ _ _ _ I0 Hcwpos T HyE HyEf)].
    apply (EInv_ext _ _ (uE g)); [intros wk; destruct (Hz wk) as (-> & _); lia | exact I0]. }
  assert (I2 : EInv cw (b_w (g_b s')) (uE g')).
  { destruct T2 as [-> | T]; [apply (EInv_ext _ _ _ _ Ge I1)|].
    apply (EInv_ext _ _ (fun wk => (uE g wk + yE wk) + 0)); [intros wk; rewrite Ge; lia|].
    apply (touch_EInv _ _ _ _ _ (fun _ => 0) I1 Hcwpos T); [|reflexivity].
    intros wk. split; [lia|]. destruct (pfind (w_prog w1) u); simpl; [apply owed_at_nonneg | lia]. }
  (* energies of completed weeks: kept or dropped *)
  assert (HE1 : forall wk, wk <> cw -> En w1 wk = En w wk \/ En w1 wk = 0).
  { intros wk Hw. destruct T1 as [(-> & _)|(c0 & _ & _ & _ & X & _)]; [left; reflexivity | apply X; exact Hw]. }
  assert (HE2 : forall wk, wk <> cw -> En (b_w (g_b s')) wk = En w wk \/ En (b_w (g_b s')) wk = 0).
  { intros wk Hw. destruct T2 as [-> | (c0 & _ & _ & _ & X & _)]; [apply HE1; exact Hw|].
    destruct (X wk Hw) as [-> | ->]; [apply HE1; exact Hw | right; reflexivity]. }
  (* positions of the users that can still claim a completed week *)
  assert (Hnd1 : NoDup (map fst (w_prog w1))) by (destruct (e_w _ _ _ I1) as ((X & _) & _); exact X).
  assert (HO : forall wk, wk < cw -> gowedF f (b_w (g_b s')) wk <= gowedF f w wk - yF wk).
  { intros wk Hw.
    assert (O1 : gowedF f w1 wk <= gowedF f w wk - yF wk).
    { destruct T1 as [(-> & Hz)|T]; [destruct (Hz wk) as (_ & ->); lia|].
      rewrite (touch_gowedF _ _ _ _ f wk T Hnd0 Hw). destruct (HyF wk). fold pop. lia. }
    destruct T2 as [-> | T]; [exact O1|].
    rewrite (touch_gowedF _ _ _ _ f wk T Hnd1 Hw).
    assert (0 <= f_old2 (gpendF f wk) u (pfind (w_prog w1) u)) by (destruct (pfind (w_prog w1) u); simpl; [apply gpendF_nonneg; exact Hnn | lia]).
    lia. }
  constructor.
  - rewrite Ecw. exact I2.
  - intros wk. rewrite Gu. pose proof (gn_uf0 _ _ N wk). destruct (HyF wk). lia.
  - intros wk Hw. rewrite Ecw in Hw. rewrite Gu, (gn_uffut _ _ N) by (fold cw; lia). rewrite HyFf by lia. lia.
  - rewrite Ecw. exact HFc.
  - intros wk Hw. rewrite Ecw in Hw. rewrite HF by lia. apply (gn_supfut _ _ N). fold cw. lia.
  - intros wk. destruct (Z.eq_dec wk cw) as [->|Hne]; [exact HFc0 | rewrite HF by exact Hne; apply N].
  - intros wk Hw. rewrite Ecw in Hw. rewrite HF by lia. rewrite Gc, Gu.
    assert (Ec : (cw =? wk) = false) by (apply Z.eqb_neq; lia). rewrite Ec, Z.add_0_r.
    destruct (bh_cfg (b_h (g_b s))) as [c0|] eqn:Ecfg.
    + destruct (gn_FI _ _ N wk Hw) as [H1|[H1|H1]]; [left; exact H1 | right; left; exact H1 | right; right].
      fold f w in H1. specialize (HO wk Hw).
      assert (HB : gowedF (g_ut s') (b_w (g_b s')) wk <= gowedF f (b_w (g_b s')) wk).
      { apply gowedF_mono. intros v p Hin Hp. destruct (Z.eq_dec v u) as [->|Hv]; [|apply Hut; exact Hv].
        destruct (Hpend ltac:(discriminate)) as [Hq|Hq]; [|exact Hq]. specialize (Hq p Hin). lia. }
      lia.
    + right. left. apply (gn_nocfg _ _ N Ecfg).
  - intros wk Hw. rewrite Ecw in Hw. unfold PIw. cbv zeta. rewrite (fw_same_fac _ _ wk Gf), Gp, Gc, Ge, Gu, HF by lia.
    assert (Ec : (cw =? wk) = false) by (apply Z.eqb_neq; lia). rewrite Ec, Z.add_0_r.
    pose proof (gn_PI _ _ N wk Hw) as P. unfold PIw in P. cbv zeta in P. fold w in P.
    destruct (Hpd wk Hw) as (Hpd0 & Hpdb). cbv zeta in Hpdb.
    pose proof (gcuts_nonneg _ _ _ _ wk HM) as G0. pose proof (e_ue0 _ _ _ I0 wk) as U0. pose proof (gn_uf0 _ _ N wk) as U1.
    pose proof (gn_supnn _ _ N wk) as F0. pose proof (e_nn _ _ _ I0 wk) as E0. destruct (fw_ok _ wk (gn_fok _ _ N)) as (C0 & C1).
    destruct (HyE wk) as (YE0 & _). destruct (HyF wk) as (YF0 & _).
    set (ce := fa_ce (fw (xg_b g) wk)) in *. set (cf := fa_cf (fw (xg_b g) wk)) in *.
    set (gp := gpaid (xg_b g) wk) in *. set (gc := gcuts (xg_b g) wk) in *. set (FF := Fw (g_b s) wk) in *.
    set (ue := uE g wk) in *. set (uf := uF g wk) in *. set (ye := yE wk) in *. set (yf := yF wk) in *. set (pp := pd wk) in *.
    destruct (HE2 wk ltac:(lia)) as [-> | ->].
    + set (EE := En w wk) in *. clearbody ce cf gp gc FF ue uf ye yf pp EE.
      replace ((gp + pp) * ((ce + cf) * EE * FF)) with (gp * ((ce + cf) * EE * FF) + pp * ((ce + cf) * EE * FF)) by ring.
      replace (gc * (ce * (ue + ye) * FF + cf * (uf + yf) * EE)) with
              (gc * (ce * ue * FF + cf * uf * EE) + gc * (ce * ye * FF + cf * yf * EE)) by ring.
      lia.
    + clearbody ce cf gp gc FF ue uf ye yf pp.
      replace ((gp + pp) * ((ce + cf) * 0 * FF)) with 0 by ring.
      assert (0 <= ce * (ue + ye) * FF) by nia. nia.
  - intros Hc wk. specialize (Hcfg Hc). destruct (Hnocut Hcfg) as (-> & _). rewrite Gc, (gn_nocfg _ _ N Hcfg). destruct (_ =? _); lia.
  - rewrite Gf. apply N.
Qed.

(** ------------------------------------------------------------------ C.5 the staking farm as host: totals of distinct users add up to at most the supply *)
Definition scnt (sp : spos) (l : list (Z * progress)) (n : Z) : Z := usum (fun u _ => sind sp u n) l.

Lemma scnt_zero sp l n : ~ In (sowner_of sp n) (map fst l) -> scnt sp l n = 0.
Proof.
  unfold scnt. induction l as [|[u p] t IH]; intros Hn; [reflexivity|]. rewrite usum_cons. simpl in Hn.
  rewrite IH by (intros Hi; apply Hn; right; exact Hi). unfold sind.
  destruct (sowner_of sp n =? u) eqn:E; [apply Z.eqb_eq in E; exfalso; apply Hn; left; symmetry; exact E | reflexivity].
Qed.

Lemma scnt_le1 sp l n : NoDup (map fst l) -> 0 <= scnt sp l n <= 1.
Proof.
  unfold scnt. induction l as [|[u p] t IH]; intros Hnd; [simpl; lia|]. rewrite usum_cons. simpl in Hnd.
  inversion Hnd as [|? ? Hnin Hnd']; subst. specialize (IH Hnd').
  assert (Hi : sind sp u n = if sowner_of sp n =? u then 1 else 0) by reflexivity. rewrite Hi.
  destruct (sowner_of sp n =? u) eqn:E; [|lia]. apply Z.eqb_eq in E.
  fold (scnt sp t n). rewrite scnt_zero by (rewrite E; exact Hnin). lia.
Qed.

Lemma susers_within_supply sp l : Inv sp -> NoDup (map fst l) ->
  usum (fun u _ => utot sp u) l <= s_supply (p_s sp).
Proof.
  intros I Hnd. pose proof (lo_nn _ (i_led _ I)) as NN.
  assert (E : usum (fun u _ => utot sp u) l = FarmInv.wsum (fun k => scnt sp l (nonce_of k)) (p_held sp)).
  { clear Hnd. induction l as [|[u p] t IH].
    - unfold scnt; simpl. rewrite FarmInv.wsum_const. lia.
    - rewrite usum_cons, IH, (i_ut _ I). unfold hsum. rewrite <- FarmInv.wsum_add. apply FarmInv.wsum_ext. intros k _. reflexivity. }
  rewrite E, <- (i_sup _ I), FarmInv.asum_wsum. apply wsum_le; [exact NN|]. intros k. apply scnt_le1. exact Hnd.
Qed.

Lemma Inv_host_ok s : Inv (sx_p s) -> host_ok (gview s).
Proof. intros I. split; [apply (Inv_utot_nn _ I) | intros l Hnd; apply (susers_within_supply _ _ I Hnd)]. Qed.

(** ------------------------------------------------------------------ C.6 ghost of the closed run *)
Definition sused_e (s : sxstate) (op : sxop) (det : list (Z * list (Z * Z))) : list (Z * Z) :=
  match sclaim_user op with
  | Some u => match pfind (w_prog (b_w (sx_b s))) u with Some p => wk_entries (energy_at p) det | None => [] end
  | None => []
  end.
Definition sused_f (s : sxstate) (op : sxop) (det : list (Z * list (Z * Z))) : list (Z * Z) :=
  match sclaim_user op with Some u => wk_entries (fun _ => utot (sx_p s) u) det | None => [] end.

Definition sxgupd (s : sxstate) (g : xg) (op : sxop) (s' : sxstate) (out : sxout) : xg :=
  mkXG (match sbop_of s op (s_supply (p_s (sx_p s'))) (utot (sx_p s') (user_of op)) with
        | Some bo => gupd (xg_b g) bo (bcur_week (sx_b s)) (so_m out)
        | None => xg_b g
        end)
       (add_all (xg_ue g) (sused_e s op (o_det (so_m out))))
       (add_all (xg_uf g) (sused_f s op (o_det (so_m out)))).

Definition sxgstep (sg : sxstate * xg) (op : sxop) : sxstate * xg :=
  match sfull_step (fst sg) op with
  | Ok (s', out) => (s', sxgupd (fst sg) (snd sg) op s' out)
  | Err _ => sg
  end.
Definition sxgrun (sg : sxstate * xg) (ops : list sxop) : sxstate * xg := fold_left sxgstep ops sg.

Lemma sxgrun_fst ops : forall s g, fst (sxgrun (s, g) ops) = sfull_run s ops.
Proof.
  unfold sxgrun, sfull_run. induction ops as [|op t IH]; intros s g; simpl; [reflexivity|].
  unfold sxgstep at 2, sfull_step_total at 2. simpl. destruct (sfull_step s op) as [[s' o]|]; apply IH.
Qed.

Record SXInv (s : sxstate) (g : xg) : Prop := mkSXI {
  si_inv : Inv (sx_p s);
  si_mod : BInv (sx_b s) (xg_b g);
  si_link : SLK s;
  si_nu : GNU (gview s) g
}.

Lemma SXInv_G s g : SXInv s g -> GInv (gview s) g.
Proof. intros [I Hi _ N]. constructor; [apply Inv_host_ok; exact I | exact Hi | exact N]. Qed.

Lemma suE_upd s g op s' out wk : uE (sxgupd s g op s' out) wk = uE g wk + psum_at (sused_e s op (o_det (so_m out))) wk.
Proof. unfold uE, sxgupd. simpl. apply aget_add_all. Qed.
Lemma suF_upd s g op s' out wk : uF (sxgupd s g op s' out) wk = uF g wk + psum_at (sused_f s op (o_det (so_m out))) wk.
Proof. unfold uF, sxgupd. simpl. apply aget_add_all. Qed.

(** ------------------------------------------------------------------ C.7 the clock; operations that leave the weekly state alone *)
Lemma snu_time s g dblk dep s' out :
  SXInv s g -> sfull_step s (SXTime dblk dep) = Ok (s', out) -> GNU (gview s') (sxgupd s g (SXTime dblk dep) s' out).
Proof.
  intros X H. pose proof (SXInv_G _ _ X) as G.
  destruct (sfull_step_staking _ _ _ _ H) as (Ef & _). simpl in Ef.
  pose proof (sfull_step_module _ _ _ _ H) as Hb. unfold sbop_of in Hb. simpl in Hb. destruct Hb as (Hb & _).
  assert (Eo : so_m out = out0) by (simpl in Hb; unfold Boosted.ep_advance in Hb; destruct (0 <=? dep); [inversion Hb; reflexivity | discriminate]).
  apply (gnu_time (gview s) g dep (gview s') (so_m out) _ G Hb).
  - simpl. rewrite Ef. reflexivity.
  - simpl. rewrite Ef. reflexivity.
  - intros wk. unfold sxgupd, sbop_of. simpl. rewrite gupd_cuts, Eo. simpl. destruct (_ =? _); lia.
  - intros wk. unfold sxgupd, sbop_of. simpl. rewrite gupd_paid, Eo. simpl. lia.
  - reflexivity.
  - reflexivity.
  - reflexivity.
Qed.

(** a quiet module operation, whatever non-user staking operation goes with it *)
Lemma snu_quiet_module s g op s' out bo :
  SXInv s g -> sfull_step s op = Ok (s', out) ->
  sbop_of s op (s_supply (p_s (sx_p s'))) (utot (sx_p s') (user_of op)) = Some bo -> quiet_b bo = true -> sclaim_user op = None ->
  (forall v, utot (sx_p s') v <= utot (sx_p s) v) -> s_supply (p_s (sx_p s')) = s_supply (p_s (sx_p s)) ->
  GNU (gview s') (sxgupd s g op s' out).
Proof.
  intros X H Eb Hq Hcu Hut Hsup. pose proof X as [I Hi L N]. pose proof (SXInv_G _ _ X) as G.
  pose proof (sfull_step_module _ _ _ _ H) as Hb. rewrite Eb in Hb. destruct Hb as (Hb & Hob).
  assert (Hna : forall n, bo <> BAdvance n) by (intros n ->; discriminate).
  assert (Hnc : claim_of bo = None) by (destruct bo; try discriminate; reflexivity).
  destruct (step_noclaim _ _ _ _ Hb Hnc) as (Hdet & _).
  destruct (step_cut _ _ _ _ _ Hi Hb) as (Hc0 & Hcv).
  pose proof Hi as (_ & _ & _ & _ & HM & _).
  apply (gnu_quiet_gen (gview s) g (gview s') _ (o_cut (so_m out)) G).
  - apply (proj2 (step_week _ _ _ _ Hb) Hna).
  - apply (step_quiet_w _ _ _ _ Hb Hq).
  - pose proof (step_sup _ _ _ _ _ Hi Hb) as Hs. destruct bo; try discriminate; exact Hs.
  - exact Hut.
  - exact Hsup.
  - exact Hc0.
  - intros Hn. rewrite Hcv. destruct (full_of bo); [apply expected_cut_nocfg; exact Hn | reflexivity].
  - intros wk. unfold sxgupd. simpl. rewrite Eb. apply gupd_cuts.
  - intros wk. unfold sxgupd. simpl. rewrite Eb, gupd_paid, Hdet. simpl. lia.
  - intros wk. unfold sxgupd, uE, sused_e. simpl. rewrite Hcu. simpl. lia.
  - intros wk. unfold sxgupd, uF, sused_f. simpl. rewrite Hcu. simpl. lia.
  - intros wk Hw. unfold sxgupd. simpl. rewrite Eb. unfold fw at 1. simpl g_fac.
    destruct bo; try discriminate; try (left; reflexivity).
    (* setBoostedYieldsFactors *)
    unfold fac_event. destruct (g_fac (xg_b g)) as [[f0 log]|] eqn:Eg.
    + left. unfold fw. rewrite Eg, fac_at_snoc. assert (E : (bcur_week (sx_b s) <=? wk) = false) by (apply Z.leb_gt; exact Hw). simpl. rewrite E. reflexivity.
    + right. apply (gpaid_zero_nocuts _ _ _ _ wk HM). apply (gn_nocfg _ _ N). apply (cfg_none_iff _ _ Hi). exact Eg.
  - intros Hn. simpl in Hn |- *. destruct (bh_cfg (b_h (sx_b s))) eqn:Ec; [|reflexivity]. exfalso.
    apply (proj2 (step_cfg_presence _ _ _ _ _ Hi Hb)); [left; rewrite Ec; discriminate | exact Hn].
  - unfold sxgupd. simpl. rewrite Eb. simpl. apply (step_fok _ _ _ _ _ _ Hb (gn_fok _ _ N)).
Qed.

(** an operation of the staking farm proper only (the module is not involved) *)
Lemma snu_staking_only s g op s' out :
  SXInv s g -> sfull_step s op = Ok (s', out) ->
  sbop_of s op (s_supply (p_s (sx_p s'))) (utot (sx_p s') (user_of op)) = None ->
  (forall v, utot (sx_p s') v <= utot (sx_p s) v) -> s_supply (p_s (sx_p s')) = s_supply (p_s (sx_p s)) ->
  GNU (gview s') (sxgupd s g op s' out).
Proof.
  intros X H Eb Hut Hsup. pose proof X as [I Hi L N]. pose proof (SXInv_G _ _ X) as G.
  pose proof (sfull_step_module _ _ _ _ H) as Hb. rewrite Eb in Hb. destruct Hb as (Hb & Ho & _).
  assert (Hcu : sused_e s op (o_det (so_m out)) = [] /\ sused_f s op (o_det (so_m out)) = []).
  { rewrite Ho. unfold sused_e, sused_f. simpl. destruct (sclaim_user op); [destruct (pfind _ _)|]; split; reflexivity. }
  destruct Hcu as (Hue & Huf).
  apply (gnu_quiet_gen (gview s) g (gview s') _ 0 G); simpl; try (rewrite Hb; reflexivity); auto; try lia.
  - intros wk. unfold sxgupd. simpl. rewrite Eb. destruct (_ =? _); lia.
  - intros wk. unfold sxgupd. simpl. rewrite Eb. reflexivity.
  - intros wk. unfold sxgupd, uE. simpl. rewrite Hue. reflexivity.
  - intros wk. unfold sxgupd, uF. simpl. rewrite Huf. reflexivity.
  - intros wk _. left. unfold sxgupd. simpl. rewrite Eb. reflexivity.
  - rewrite Hb. auto.
  - unfold sxgupd. simpl. rewrite Eb. apply N.
Qed.

(** the supply moves only in stake / claimRewardsWithNewValue / compound / unstake *)
Lemma ep_merge_supply sp blk ep c ps b sp' o :
  ep_merge sp blk ep c ps b = Ok (sp', o) -> s_supply (p_s sp') = s_supply (p_s sp).
Proof.
  unfold ep_merge. intros H. destruct ps as [|first rest]; [discriminate|].
  bnd H sp1 H1. destruct (active (p_s sp1)); [|discriminate].
  bnd H sp2 H2. bnd H sp3 H3. bnd H a Ha. bnd H part Hp. bnd H m0 Hm. cbv zeta in H.
  destruct (mint_pos sp3 _ c) as [sp4 n] eqn:Hmint. inversion H; subst sp' o; clear H.
  destruct (spay_all_fr _ _ _ _ H1) as (U1 & S1 & _ & Pos).
  unfold ppay in H2. bnd H2 s2 Hs2. inversion H2; subst sp2; clear H2. rewrite S1 in Hs2.
  destruct (spay_k _ _ _ _ Hs2) as (K2 & P2). unfold ssk in K2. inversion K2.
  pose proof (check_update_but _ _ _ _ H3) as B3. apply but_fields in B3. destruct B3 as (S3 & _). simpl in S3.
  unfold mint_pos in Hmint. inversion Hmint; subst sp4 n; clear Hmint. simpl. rewrite S3. simpl. congruence.
Qed.

Lemma pstep_supply_same sp po sp' o : pstep sp po = Ok (sp', o) -> Inv sp ->
  match po with
  | PUnbond _ _ _ _ | PMerge _ _ _ _ _ | PTransfer _ _ _ _ | PTransferUb _ _ _ _ | PAdmin _ => s_supply (p_s sp') = s_supply (p_s sp)
  | _ => True
  end.
Proof.
  intros H I. destruct po; cbn [pstep] in H; try exact Logic.I.
  - unfold ep_unbond in H. bnd H sp1 H1. bnd H so Hs. inversion H; subst sp' o; clear H.
    destruct (debit_ub_shape _ _ _ _ H1) as (h & ->). cbn [p_s with_ubheld] in Hs. destruct so as [s' o']. cbn [p_s with_s fst].
    apply (unbond_frame _ _ _ _ _ _ _ Hs).
  - apply (ep_merge_supply _ _ _ _ _ _ _ _ H).
  - unfold ep_transfer in H. bnd H sp1 H1. inversion H; subst sp' o; clear H.
    unfold pay_in in H1. destruct (0 <? amt); [|discriminate]. bnd H1 b Hb. inversion H1; subst sp1. reflexivity.
  - unfold ep_transfer_ub in H. bnd H sp1 H1. inversion H; subst sp' o; clear H.
    destruct (debit_ub_shape _ _ _ _ H1) as (h & ->). reflexivity.
  - destruct (is_admin_op a) eqn:Ea; [|discriminate]. bnd H so Hs. inversion H; subst sp' o; clear H.
    destruct so as [s' o']. simpl. apply (admin_frame _ _ _ _ Ea Hs (i_stk _ I)).
Qed.

(** ------------------------------------------------------------------ C.8 operations that touch one user's claim progress *)
(** updateEnergyForUser *)
Lemma snu_update_energy s g c u raw s' out :
  SXInv s g -> sfull_step s (SXUpdateEnergy c u raw) = Ok (s', out) -> GNU (gview s') (sxgupd s g (SXUpdateEnergy c u raw) s' out).
Proof.
  intros X H. pose proof X as [I Hi L N]. pose proof (SXInv_G _ _ X) as G. set (op := SXUpdateEnergy c u raw) in *.
  destruct (sfull_step_staking _ _ _ _ H) as (Ef & _). simpl in Ef.
  pose proof (sfull_step_module _ _ _ _ H) as Hb. unfold sbop_of in Hb. simpl in Hb. destruct Hb as (Hb & _).
  set (cur := sx_entry raw (b_epoch (sx_b s))) in *. set (bo := BUpdateEnergy u cur) in *.
  change (step (sx_b s) bo = Ok (sx_b s', so_m out)) in Hb.
  assert (Hna : forall n, bo <> BAdvance n) by (intros n; discriminate).
  destruct (step_noclaim _ _ _ _ Hb eq_refl) as (Hdet & _).
  destruct (step_cut _ _ _ _ _ Hi Hb) as (_ & Hcv). simpl in Hcv.
  pose proof (gn_e _ _ N) as I0. simpl in I0.
  pose proof (Inv_utot_nn _ I) as Hnn.
  assert (T : touch (bcur_week (sx_b s)) u (b_w (sx_b s)) (b_w (sx_b s'))).
  { pose proof Hb as Hb'. simpl in Hb'. unfold ep_update_energy in Hb'. destruct (0 <=? en_tok cur) eqn:Et; [|discriminate]. apply Z.leb_le in Et.
    bnd Hb' cw Hcw. destruct (current_week_b _ _ Hcw) as (-> & _). bnd Hb' w' Hu. injection Hb' as E1 E2.
    unfold update_energy_for_user in Hu. destruct (match pfind _ u with Some p => pr_week p =? _ | None => true end); [|discriminate].
    rewrite <- E1. simpl. destruct Hi as (_ & Hp & _).
    apply (uep_touch _ _ _ _ _ Hu (e_w _ _ _ I0) (e_last _ _ _ I0) Hp Et). }
  assert (Esg : sxgupd s g op s' out = mkXG (gupd (xg_b g) bo (bcur_week (sx_b s)) (so_m out)) (add_all (xg_ue g) []) (add_all (xg_uf g) [])) by reflexivity.
  apply (gnu_touch_gen (gview s) g (gview s') _ u (b_w (sx_b s')) (fun _ => 0) (fun _ => 0) (fun _ => 0) 0 G); simpl.
  - apply (proj2 (step_week _ _ _ _ Hb) Hna).
  - right. exact T.
  - left. reflexivity.
  - intros wk. split; [lia|]. destruct (pfind _ u); simpl; [apply owed_at_nonneg | lia].
  - reflexivity.
  - intros wk. split; [lia|]. destruct (pfind _ u); simpl; [apply gpendF_nonneg; exact Hnn | lia].
  - reflexivity.
  - intros wk. unfold uE. simpl. lia.
  - intros wk. unfold uF. simpl. lia.
  - intros wk. rewrite gupd_paid, Hdet. simpl. lia.
  - intros wk _. split; [lia|]. pose proof Hi as (_ & _ & _ & _ & HM & _). pose proof (gcuts_nonneg _ _ _ _ wk HM). nia.
  - lia.
  - intros _. split; reflexivity.
  - intros wk. rewrite gupd_cuts, Hcv. reflexivity.
  - reflexivity.
  - intros Hn. destruct (bh_cfg (b_h (sx_b s))) eqn:Ec; [|reflexivity]. exfalso.
    apply (proj2 (step_cfg_presence _ _ _ _ _ Hi Hb)); [left; rewrite Ec; discriminate | exact Hn].
  - intros wk _. unfold Fw. pose proof (step_sup _ _ _ _ _ Hi Hb) as Hs. simpl in Hs. rewrite Hs. reflexivity.
  - unfold Fw. pose proof (step_sup _ _ _ _ _ Hi Hb) as Hs. simpl in Hs. rewrite Hs, Ef. apply (gn_sup _ _ N).
  - unfold Fw. pose proof (step_sup _ _ _ _ _ Hi Hb) as Hs. simpl in Hs. rewrite Hs. apply (gn_supnn _ _ N).
  - intros v _. rewrite Ef. lia.
  - intros _. right. rewrite Ef. lia.
Qed.

(** the nine user endpoints: stakeFarm, stakeFarmThroughProxy, claimRewards, claimRewardsWithNewValue, compoundRewards,
    unstakeFarm, unstakeFarmThroughProxy, mergeFarmTokens, claimBoostedRewards *)
Lemma suser_ops_shape s op u S P b : sclaim_user op = Some u ->
  exists bo po cur, sbop_of s op S P = Some bo /\ claim_of bo = Some (u, cur, utot (sx_p s) u) /\
                    pop_of s op b = Some po /\ puser po = Some u /\ (forall n, bo <> BAdvance n) /\
                    (forall cw gf, fac_event bo cw gf = gf) /\ user_of op = u.
Proof.
  unfold sbop_of. destruct op; simpl; intros H; inversion H; subst; eexists _, _, _;
    (split; [reflexivity|]); (split; [reflexivity|]); (split; [reflexivity|]); (split; [reflexivity|]);
    (split; [intros n; discriminate|]); (split; [intros; reflexivity | reflexivity]).
Qed.

Lemma snu_user s g op s' out u :
  SXInv s g -> sxvalid op -> sfull_step s op = Ok (s', out) -> sclaim_user op = Some u -> GNU (gview s') (sxgupd s g op s' out).
Proof.
  intros X V H Hcu. pose proof X as [I Hi L N]. pose proof (SXInv_G _ _ X) as G.
  destruct (suser_ops_shape s op u (s_supply (p_s (sx_p s'))) (utot (sx_p s') (user_of op)) (so_b out) Hcu)
    as (bo & po & cur & Eb & Hcl & Ef & Hfu & Hna & Hfe & Huo).
  pose proof (sfull_step_module _ _ _ _ H) as Hb. rewrite Eb in Hb. destruct Hb as (Hb & _).
  pose proof (sfull_step_staking _ _ _ _ H) as Hf. rewrite Ef in Hf.
  set (cw := bcur_week (sx_b s)) in *. set (w := b_w (sx_b s)) in *. set (f := utot (sx_p s)) in *.
  pose proof (gn_e _ _ N) as I0. simpl in I0. fold cw w in I0.
  destruct (user_step_decomp _ _ _ _ _ _ _ _ Hi (e_w _ _ _ I0) (e_last _ _ _ I0) Hb Hcl) as (w1 & D1 & D2 & D3).
  fold cw w in D1, D2, D3.
  pose proof (gn_supnn _ _ N) as Hsnn. simpl in Hsnn.
  destruct (claim_week_bound _ _ _ _ _ _ _ _ Hi (gn_fok _ _ N) Hb Hcl (e_nn _ _ _ I0) Hsnn)
    as (Hpos & Hnd & Hdet & Hbound). fold cw w in Hdet, Hbound.
  set (det := o_det (so_m out)) in *.
  set (pop := pfind (w_prog w) u) in *.
  pose proof (Inv_utot_nn _ I) as Hnn. fold f in Hnn.
  pose proof Hi as (_ & _ & _ & _ & HM & _). fold cw in HM.
  pose proof (pstep_inv _ _ _ _ Hf I (pop_of_valid _ _ _ _ V Ef)) as I'.
  (* what the ghost adds *)
  assert (HuE : forall wk, psum_at (sused_e s op det) wk =
                 match pop with Some p => if in_dec Z.eq_dec wk (map fst det) then energy_at p wk else 0 | None => 0 end).
  { intros wk. unfold sused_e. rewrite Hcu. fold w pop. destruct pop as [p|]; [apply psum_at_entries; exact Hnd | reflexivity]. }
  assert (HuF : forall wk, psum_at (sused_f s op det) wk = if in_dec Z.eq_dec wk (map fst det) then f u else 0).
  { intros wk. unfold sused_f. rewrite Hcu. apply (psum_at_entries (fun _ => f u)). exact Hnd. }
  assert (Hweeks : forall wk, In wk (map fst det) -> exists p, pop = Some p /\ pr_week p <= wk < cw).
  { intros wk Hin. destruct (Hbound wk Hin) as (p & Hp & Hr & _). exists p. split; assumption. }
  apply (gnu_touch_gen (gview s) g (gview s') _ u w1 (fun wk => psum_at (sused_e s op det) wk) (fun wk => psum_at (sused_f s op det) wk)
                      (wpaid det) (o_cut (so_m out)) G); cbn [g_b g_ut g_sup gview].
  - apply (proj2 (step_week _ _ _ _ Hb) Hna).
  - destruct (bh_cfg (b_h (sx_b s))) eqn:Ec; [right; apply D2; discriminate|]. left.
    destruct (D1 eq_refl) as (-> & Hd). split; [reflexivity|]. intros wk. rewrite HuE, HuF. fold det in Hd. rewrite Hd. simpl.
    split; [destruct pop; reflexivity | reflexivity].
  - exact D3.
  - intros wk. rewrite HuE. fold w; fold pop. destruct pop as [p|] eqn:Ep; [|simpl; lia].
    destruct (in_dec Z.eq_dec wk (map fst det)) as [Hin|_]; simpl; [|split; [lia | apply owed_at_nonneg]].
    destruct (Hweeks wk Hin) as (p' & Hp' & Hr). inversion Hp'; subst p'. unfold owed_at.
    assert (E : (pr_week p <=? wk) = true) by (apply Z.leb_le; lia). rewrite E. pose proof (energy_at_nonneg p wk). lia.
  - intros wk Hw. rewrite HuE. destruct pop as [p|]; [|reflexivity].
    destruct (in_dec Z.eq_dec wk (map fst det)) as [Hin|_]; [|reflexivity]. destruct (Hweeks wk Hin) as (p' & _ & Hr). lia.
  - intros wk. rewrite HuF. fold w; fold pop. fold f. destruct (in_dec Z.eq_dec wk (map fst det)) as [Hin|_].
    + destruct (Hweeks wk Hin) as (p & Hp & Hr). rewrite Hp. simpl. unfold gpendF.
      assert (E : (pr_week p <=? wk) = true) by (apply Z.leb_le; lia). rewrite E. pose proof (Hnn u). lia.
    + split; [lia|]. destruct pop; simpl; [apply gpendF_nonneg; exact Hnn | lia].
  - intros wk Hw. rewrite HuF. destruct (in_dec Z.eq_dec wk (map fst det)) as [Hin|_]; [|reflexivity].
    destruct (Hweeks wk Hin) as (p' & _ & Hr). lia.
  - intros wk. apply suE_upd.
  - intros wk. apply suF_upd.
  - intros wk. unfold sxgupd. simpl. rewrite Eb. apply gupd_paid.
  - intros wk Hw. cbv zeta. rewrite HuE, HuF. fold w; fold pop.
    destruct (in_dec Z.eq_dec wk (map fst det)) as [Hin|Hn].
    + destruct (Hbound wk Hin) as (p & Hp & Hr & Hb0 & Hbb). fold pop in Hp. rewrite Hp. split; [exact Hb0 | exact Hbb].
    + rewrite (wpaid_notin _ _ Hn). split; [lia|]. pose proof (gcuts_nonneg _ _ _ _ wk HM).
      destruct pop; nia.
  - apply (step_cut _ _ _ _ _ Hi Hb).
  - intros Hn. destruct (D1 Hn) as (_ & Hd). fold det in Hd. split.
    + destruct (step_cut _ _ _ _ _ Hi Hb) as (_ & ->). destruct (full_of bo); [apply expected_cut_nocfg; exact Hn | reflexivity].
    + intros wk. rewrite Hd. reflexivity.
  - intros wk. unfold sxgupd. simpl. rewrite Eb. apply gupd_cuts.
  - unfold sxgupd. simpl. rewrite Eb. simpl. apply Hfe.
  - intros Hn. destruct (bh_cfg (b_h (sx_b s))) eqn:Ec; [|reflexivity]. exfalso.
    apply (proj2 (step_cfg_presence _ _ _ _ _ Hi Hb)); [left; rewrite Ec; discriminate | exact Hn].
  - intros wk Hw. unfold Fw. pose proof (step_sup _ _ _ _ _ Hi Hb) as Hs.
    destruct bo; try discriminate; rewrite Hs; try reflexivity; fold cw; apply aget_aset_other; intros E; apply Hw; symmetry; exact E.
  - unfold Fw. pose proof (step_sup _ _ _ _ _ Hi Hb) as Hs.
    unfold sbop_of in Eb. destruct op; try discriminate; simpl in Eb; inversion Eb; subst bo; rewrite Hs; fold cw;
      try (right; apply aget_aset_same).
    (* mergeFarmTokens: neither the supply nor the week's record moves *)
    simpl in Ef. inversion Ef; subst po. pose proof (pstep_supply_same _ _ _ _ Hf I) as Hss. simpl in Hss. rewrite Hss. apply (gn_sup _ _ N).
  - unfold Fw. pose proof (step_sup _ _ _ _ _ Hi Hb) as Hs.
    assert (Hs0 : 0 <= s_supply (p_s (sx_p s'))) by (destruct (k_wf _ (i_stk _ I')) as (_ & _ & _ & _ & X0 & _); exact X0).
    unfold sbop_of in Eb. destruct op; try discriminate; simpl in Eb; inversion Eb; subst bo; rewrite Hs; fold cw;
      try (rewrite aget_aset_same; exact Hs0).
    apply (gn_supnn _ _ N).
  - intros v Hv. destruct (pstep_link _ _ _ _ Hf (Inv_utot_nn _ I)) as (_ & _ & _ & Hle). apply Hle. rewrite Hfu. intros E; inversion E; congruence.
  - intros Hn. left. intros p Hin. destruct D3 as [E|T]; [|apply (touch_not_pending _ _ _ _ _ T Hin)].
    rewrite E in Hin. apply (touch_not_pending _ _ _ _ _ (D2 Hn) Hin).
Qed.

(** ------------------------------------------------------------------ C.9 every reachable state *)
Lemma sxinv_step s g op s' out :
  SXInv s g -> sxvalid op -> sfull_step s op = Ok (s', out) -> SXInv s' (sxgupd s g op s' out).
Proof.
  intros X V H. pose proof X as [I Hi L N].
  pose proof (sfull_step_staking _ _ _ _ H) as Hf. pose proof (sfull_step_module _ _ _ _ H) as Hb.
  pose proof (Inv_utot_nn _ I) as Hnn.
  assert (HF : Inv (sx_p s') /\
               (sclaim_user op = None -> (forall v, utot (sx_p s') v <= utot (sx_p s) v) /\ s_supply (p_s (sx_p s')) = s_supply (p_s (sx_p s)))).
  { destruct (pop_of s op (so_b out)) as [po|] eqn:Ef.
    - split; [apply (pstep_inv _ _ _ _ Hf I (pop_of_valid _ _ _ _ V Ef))|]. intros Hnc.
      destruct (pstep_link _ _ _ _ Hf Hnn) as (_ & _ & _ & Hle). pose proof (pstep_supply_same _ _ _ _ Hf I) as Hs.
      split.
      + intros v. apply Hle. destruct op; simpl in Ef; inversion Ef; subst po; simpl; try discriminate; simpl in Hnc; discriminate.
      + destruct op; simpl in Ef; inversion Ef; subst po; simpl in Hs; try exact Hs; simpl in Hnc; discriminate.
    - destruct Hf as (-> & _). split; [exact I|]. intros _. split; [intros; lia | reflexivity]. }
  destruct HF as (I' & Hquiet).
  constructor.
  - exact I'.
  - unfold sxgupd. simpl. destruct (sbop_of s op _ _) as [bo|]; [destruct Hb as (Hb & _); apply (step_inv _ _ _ _ _ Hi Hb)|].
    destruct Hb as (-> & _). exact Hi.
  - apply (sfull_step_link _ _ _ _ _ L Hi Hnn H).
  - destruct (sclaim_user op) as [u|] eqn:Hcu; [apply (snu_user _ _ _ _ _ u X V H Hcu)|].
    destruct (Hquiet eq_refl) as (Hut & Hsup).
    destruct op; try discriminate.
    + apply (snu_time _ _ _ _ _ _ X H).
    + apply (snu_staking_only _ _ _ _ _ X H eq_refl Hut Hsup).
    + apply (snu_staking_only _ _ _ _ _ X H eq_refl Hut Hsup).
    + apply (snu_staking_only _ _ _ _ _ X H eq_refl Hut Hsup).
    + apply (snu_staking_only _ _ _ _ _ X H eq_refl Hut Hsup).
    + eapply (snu_quiet_module _ _ _ _ _ _ X H); [reflexivity | reflexivity | reflexivity | exact Hut | exact Hsup].
    + eapply (snu_quiet_module _ _ _ _ _ _ X H); [reflexivity | reflexivity | reflexivity | exact Hut | exact Hsup].
    + apply (snu_staking_only _ _ _ _ _ X H eq_refl Hut Hsup).
    + eapply (snu_quiet_module _ _ _ _ _ _ X H); [reflexivity | reflexivity | reflexivity | exact Hut | exact Hsup].
    + eapply (snu_quiet_module _ _ _ _ _ _ X H); [reflexivity | reflexivity | reflexivity | exact Hut | exact Hsup].
    + apply (snu_staking_only _ _ _ _ _ X H eq_refl Hut Hsup).
    + eapply (snu_quiet_module _ _ _ _ _ _ X H); [reflexivity | reflexivity | reflexivity | exact Hut | exact Hsup].
    + eapply (snu_quiet_module _ _ _ _ _ _ X H); [reflexivity | reflexivity | reflexivity | exact Hut | exact Hsup].
    + apply (snu_staking_only _ _ _ _ _ X H eq_refl Hut Hsup).
    + apply (snu_staking_only _ _ _ _ _ X H eq_refl Hut Hsup).
    + eapply (snu_quiet_module _ _ _ _ _ _ X H); [reflexivity | reflexivity | reflexivity | exact Hut | exact Hsup].
    + apply (snu_update_energy _ _ _ _ _ _ _ X H).
Qed.

Lemma sxinv_init dsc apr minub blk epoch : 0 < dsc -> 0 < apr -> SXInv (init_sx dsc apr minub blk epoch) xg0.
Proof.
  intros Hd Ha. constructor.
  - apply init_sp_inv; assumption.
  - apply BInv_init.
  - apply SLK_init.
  - assert (Hcw : bcur_week (init_b epoch) = 1).
    { unfold bcur_week; simpl. rewrite Z.sub_diag. pose proof week_pos. rewrite Z.div_0_l by lia. reflexivity. }
    constructor; simpl; rewrite ?Hcw; unfold uE, uF, Fw, PIw, gcuts, gpaid, En; simpl; intros; try lia; try (left; reflexivity); try exact Logic.I.
    constructor; simpl; unfold En, owedE; simpl; intros; try lia. apply init_w_inv.
Qed.

Lemma sxgstep_inv sg op : SXInv (fst sg) (snd sg) -> sxvalid op -> SXInv (fst (sxgstep sg op)) (snd (sxgstep sg op)).
Proof.
  intros X V. unfold sxgstep. destruct (sfull_step (fst sg) op) as [[s' out]|] eqn:E; [|exact X].
  simpl. apply (sxinv_step _ _ _ _ _ X V E).
Qed.

Lemma sxgrun_inv ops : forall sg, SXInv (fst sg) (snd sg) -> Forall sxvalid ops -> SXInv (fst (sxgrun sg ops)) (snd (sxgrun sg ops)).
Proof.
  unfold sxgrun. induction ops as [|op t IH]; intros sg X V; simpl; [exact X|]. inversion V; subst.
  apply IH; [apply sxgstep_inv; assumption | assumption].
Qed.

(** the reachable states of the closed model, with their ghost *)
Definition sxgreach (dsc apr minub blk epoch : Z) (ops : list sxop) : sxstate * xg :=
  sxgrun (init_sx dsc apr minub blk epoch, xg0) ops.

Lemma sxgreach_state dsc apr minub blk epoch ops : fst (sxgreach dsc apr minub blk epoch ops) = sxreach dsc apr minub blk epoch ops.
Proof. apply sxgrun_fst. Qed.

Lemma reach_sxinv dsc apr minub blk epoch ops : 0 < dsc -> 0 < apr -> Forall sxvalid ops ->
  SXInv (fst (sxgreach dsc apr minub blk epoch ops)) (snd (sxgreach dsc apr minub blk epoch ops)).
Proof. intros Hd Ha V. apply (sxgrun_inv ops (init_sx dsc apr minub blk epoch, xg0)); [apply sxinv_init; assumption | exact V]. Qed.
(** ------------------------------------------------------------------ C.10 the theorems, on the view *)
Lemma gowedF_usum f w wk : gowedF f w wk = usum (gpendF f wk) (w_prog w).
Proof. reflexivity. Qed.


(** ... for a recorded user who can still claim week [wk], from the current state: his present total position, his
    recorded energy decayed to the week, the week's frozen (or still accumulated) pool, supply, total energy, factors *)
Definition gpending (s : gst) (g : xg) (wk : Z) (u : Z) (p : progress) : Z :=
  if pr_week p <=? wk
  then hook_amount (fw (xg_b g) wk) (gcuts (xg_b g) wk) (g_ut s u) (Fw (g_b s) wk) (energy_at p wk) (En (b_w (g_b s)) wk)
  else 0.


(** C11_no_underflow, the sum form: in every reachable state and for every completed week, what has been paid for the
    week plus what ALL users who can still claim it would be paid (each computed by the hook's formula from the present
    state, no guard involved) does not exceed the week's pool. *)
Lemma gweek_sum_bound s g wk : GInv s g -> wk < bcur_week (g_b s) ->
  gpaid (xg_b g) wk + usum (gpending s g wk) (w_prog (b_w (g_b s))) <= gcuts (xg_b g) wk.
Proof.
  intros [(Hnn & _) Hi N] Hw. set (cw := bcur_week (g_b s)) in *.
  pose proof Hi as (_ & _ & _ & _ & HM & _). fold cw in HM.
  pose proof (gn_e _ _ N) as I0. fold cw in I0. set (w := b_w (g_b s)) in *. set (f := g_ut s) in *.
  set (gb := xg_b g) in *. set (R := gcuts gb wk). set (E := En w wk). set (F := Fw (g_b s) wk). set (fa := fw gb wk).
  pose proof (gcuts_nonneg _ _ _ _ wk HM) as HR0. fold gb R in HR0.
  assert (Hgp : 0 <= gpaid gb wk <= R).
  { unfold R. rewrite (m_week _ _ _ _ HM wk). destruct (m_nn _ _ _ _ HM wk). destruct (m_gnn _ _ _ _ HM wk). lia. }
  pose proof (e_nn _ _ _ I0 wk) as HE0. fold E in HE0. pose proof (gn_supnn _ _ N wk) as HF0. fold F in HF0.
  (* degenerate weeks pay nothing *)
  assert (Hzero : E = 0 \/ F = 0 \/ R = 0 -> usum (gpending s g wk) (w_prog w) = 0).
  { intros Hz. assert (X : usum (gpending s g wk) (w_prog w) <= usum (fun _ _ => 0) (w_prog w)).
    { apply usum_le. intros [u p] _. simpl. unfold gpending. destruct (pr_week p <=? wk); [|lia].
      rewrite hook_amount_zero; [lia | exact Hz]. }
    assert (Y : usum (fun _ _ => 0) (w_prog w) = 0) by (clear; induction (w_prog w) as [|[u p] t IH]; [reflexivity | rewrite usum_cons, IH; lia]).
    assert (Z0 : 0 <= usum (gpending s g wk) (w_prog w)).
    { apply usum_nonneg. intros [u p] _. simpl. unfold gpending. destruct (pr_week p <=? wk); [apply hook_amount_nonneg | lia]. }
    lia. }
  destruct (Z.eq_dec E 0) as [HE|HE]; [rewrite Hzero by (left; exact HE); lia|].
  destruct (Z.eq_dec F 0) as [HF|HF]; [rewrite Hzero by (right; left; exact HF); lia|].
  destruct (Z.eq_dec R 0) as [HR|HR]; [rewrite Hzero by (right; right; exact HR); lia|].
  (* a live week: factors configured, energy and position sums within the week's totals *)
  assert (Hcfg : bh_cfg (b_h (g_b s)) <> None) by (intros Hn; apply HR; apply (gn_nocfg _ _ N Hn)).
  assert (Hfac : 0 <= fa_ce fa /\ 0 <= fa_cf fa /\ 0 < fa_ce fa + fa_cf fa).
  { unfold fa, fw. pose proof (gn_fok _ _ N) as Hfok. fold gb in Hfok. unfold FOK in Hfok.
    destruct (g_fac gb) as [[f0 log]|] eqn:Eg; [destruct Hfok as (H0 & Hl); apply (fac_at_ok log f0 wk H0 Hl)|].
    exfalso. apply Hcfg. apply (cfg_none_iff _ _ Hi). exact Eg. }
  destruct Hfac as (Hce & Hcf & Hc).
  assert (HEI : uE g wk + owedE w wk <= E).
  { destruct (EInv_base _ _ _ I0 wk Hw) as [Hz|Hb]; [contradiction | exact Hb]. }
  assert (HFI : uF g wk + gowedF f w wk <= F).
  { destruct (gn_FI _ _ N wk Hw) as [Hz|[Hz|Hb]]; [contradiction | contradiction | exact Hb]. }
  pose proof (gn_PI _ _ N wk Hw) as HPI. unfold PIw in HPI. cbv zeta in HPI. fold gb fa R w E F in HPI.
  set (KK := (fa_ce fa + fa_cf fa) * E * F) in *.
  assert (HEp : 0 < E) by lia. assert (HFp : 0 < F) by lia.
  assert (HKK : 0 < KK) by (unfold KK; apply Z.mul_pos_pos; [apply Z.mul_pos_pos|]; lia).
  assert (Hsum : usum (gpending s g wk) (w_prog w) * KK <=
                 R * (fa_ce fa * usum (fun _ p => owed_at wk p) (w_prog w) * F + fa_cf fa * usum (gpendF f wk) (w_prog w) * E)).
  { apply usum_lin3. intros [u p] _. simpl. unfold gpending, owed_at, gpendF. fold gb R E F w f fa.
    destruct (pr_week p <=? wk); cbv beta iota; [|lia].
    pose proof (energy_at_nonneg p wk) as He0. pose proof (Hnn u) as Hp0.
    assert (Hrhs : 0 <= R * (fa_ce fa * energy_at p wk * F + fa_cf fa * f u * E)) by nia.
    unfold hook_amount. change (En w wk) with E. destruct (elig fa R (f u) F (energy_at p wk) E); [|lia].
    destruct (share_bound (fa_ce fa) (fa_cf fa) R (f u) F (energy_at p wk) E ltac:(lia) ltac:(lia) Hc Hce Hcf HR0 Hp0 He0) as (Hb0 & Hb).
    cbv zeta in Hb0, Hb. unfold boosted_amount, max_rewards, by_energy, by_tokens.
    set (bq := (R * fa_ce fa * energy_at p wk / E + R * fa_cf fa * f u / F) / (fa_ce fa + fa_cf fa)) in *.
    set (aq := fa_max fa * R * f u / F). clearbody bq aq.
    assert (Hle : Z.max 0 (Z.min aq bq) <= bq) by lia.
    eapply Z.le_trans; [apply Z.mul_le_mono_nonneg_r; [lia | exact Hle] | exact Hb]. }
  rewrite <- psum_usum in Hsum. fold (owedE w wk) in Hsum. rewrite <- gowedF_usum in Hsum.
  pose proof (e_ue0 _ _ _ I0 wk) as U0. pose proof (gn_uf0 _ _ N wk) as U1.
  set (AA := usum (gpending s g wk) (w_prog w)) in *. set (gp := gpaid gb wk) in *.
  set (oe := owedE w wk) in *. set (of := gowedF f w wk) in *. set (ue := uE g wk) in *. set (uf := uF g wk) in *.
  set (ce := fa_ce fa) in *. set (cf := fa_cf fa) in *.
  assert (H1 : (gp + AA) * KK <= R * (ce * (ue + oe) * F + cf * (uf + of) * E)).
  { replace ((gp + AA) * KK) with (gp * KK + AA * KK) by ring.
    replace (R * (ce * (ue + oe) * F + cf * (uf + of) * E)) with (R * (ce * ue * F + cf * uf * E) + R * (ce * oe * F + cf * of * E)) by ring.
    unfold KK. lia. }
  assert (H2 : R * (ce * (ue + oe) * F + cf * (uf + of) * E) <= R * KK).
  { unfold KK. apply Z.mul_le_mono_nonneg_l; [lia|].
    assert (ce * (ue + oe) * F <= ce * E * F) by (apply Z.mul_le_mono_nonneg_r; [lia | apply Z.mul_le_mono_nonneg_l; lia]).
    assert (cf * (uf + of) * E <= cf * F * E) by (apply Z.mul_le_mono_nonneg_r; [lia | apply Z.mul_le_mono_nonneg_l; lia]).
    lia. }
  clearbody KK AA gp. nia.
Qed.


Lemma gpool_left_ledger s g wk : GInv s g -> bcur_week (g_b s) - MAXW <= wk < bcur_week (g_b s) ->
  pool_left (g_b s) wk = gcuts (xg_b g) wk - gpaid (xg_b g) wk.
Proof.
  intros [_ Hi _] Hw. pose proof Hi as (_ & _ & _ & _ & HM & _).
  destruct (m_window_unswept _ _ _ _ wk HM (proj1 Hw)) as (S0 & _). pose proof (m_week _ _ _ _ HM wk) as Hwk.
  unfold pool_left. destruct (rw_ (b_w (g_b s)) wk) as [|x l] eqn:E.
  - destruct (m_win _ _ _ _ HM wk (proj1 Hw) E) as (R0 & P0). lia.
  - assert (Hne : rw_ (b_w (g_b s)) wk <> []) by (rewrite E; discriminate).
    destruct (m_frozen _ _ _ _ HM wk Hne) as (_ & A0). lia.
Qed.

(** C11_no_underflow, per user: whoever settles a claimable week next, the amount the hook computes for him is covered
    by what is left of the week's pool *)
Lemma gguard_slack s g wk u p : GInv s g -> bcur_week (g_b s) - MAXW <= wk < bcur_week (g_b s) ->
  pfind (w_prog (b_w (g_b s))) u = Some p -> pr_week p <= wk ->
  hook_amount (fw (xg_b g) wk) (gcuts (xg_b g) wk) (g_ut s u) (Fw (g_b s) wk) (energy_at p wk) (En (b_w (g_b s)) wk)
  <= pool_left (g_b s) wk.
Proof.
  intros X Hw Hp Hle. rewrite (gpool_left_ledger _ _ _ X Hw).
  pose proof (gweek_sum_bound _ _ wk X (proj2 Hw)) as Hs.
  assert (Hm : f_old2 (gpending s g wk) u (pfind (w_prog (b_w (g_b s))) u) <= usum (gpending s g wk) (w_prog (b_w (g_b s)))).
  { apply f_old2_le_usum. intros [v q] _. simpl. unfold gpending. destruct (pr_week q <=? wk); [apply hook_amount_nonneg | lia]. }
  rewrite Hp in Hm. simpl in Hm. unfold gpending in Hm at 1.
  assert (E : (pr_week p <=? wk) = true) by (apply Z.leb_le; exact Hle). rewrite E in Hm. lia.
Qed.

(** ... operationally: the hook call the next settlement of any such user makes for the week, on the state's own
    storage, succeeds — the guard [remaining -= reward], the division, the register lookup and the freeze all go through *)
Lemma ghook_total s g wk u p c cfg : GInv s g ->
  let cw := bcur_week (g_b s) in
  cw - MAXW <= wk < cw -> pfind (w_prog (b_w (g_b s))) u = Some p -> pr_week p <= wk ->
  bh_cfg (b_h (g_b s)) = Some c -> cfg_update c cw None = Ok cfg ->
  exists r, boosted_hook (g_ut s u) cfg cw (b_h (g_b s)) (b_w (g_b s)) wk (energy_at p wk) (En (b_w (g_b s)) wk) = Ok r.
Proof.
  intros X cw Hw Hp Hle Hc Hu. pose proof (gguard_slack _ _ _ _ _ X Hw Hp Hle) as Hg. pose proof (gpool_left_ledger _ _ _ X Hw) as Hl.
  pose proof X as [_ Hi N]. pose proof Hi as (_ & _ & _ & HC & HM & _). fold cw in HC, HM.
  set (h := b_h (g_b s)) in *. set (w := b_w (g_b s)) in *. set (gb := xg_b g) in *.
  set (pos := g_ut s u) in *. set (e := energy_at p wk) in *. set (E := En w wk) in *.
  unfold boosted_hook. change (aget (bh_sup h) wk) with (Fw (g_b s) wk). set (F := Fw (g_b s) wk) in *.
  destruct ((E =? 0) || (F =? 0)) eqn:Ez; [eexists; reflexivity|].
  apply orb_false_iff in Ez. destruct Ez as (E1 & E2).
  (* the register answers with the factors of the week *)
  unfold CI in HC. rewrite Hc in HC. destruct (g_fac gb) as [[f0 log]|] eqn:Eg; [|contradiction]. destruct HC as (Hci & _).
  destruct (cfg_update_inv _ _ _ _ _ _ Hci Hu) as (_ & Hlast & Hci').
  pose proof nslots_eq as HNS.
  destruct (get_factors_spec cfg f0 log wk Hci') as (Hg1 & _). rewrite Hg1 by (rewrite Hlast; lia). simpl bind.
  assert (Hfw : fac_at f0 log wk = fw gb wk) by (unfold fw; rewrite Eg; reflexivity). rewrite Hfw.
  set (fa := fw gb wk) in *.
  destruct ((e <? fa_mine fa) || (pos <? fa_minf fa)) eqn:Em; [eexists; reflexivity|].
  apply orb_false_iff in Em. destruct Em as (M1 & M2).
  assert (Hfok : 0 < fa_ce fa + fa_cf fa).
  { pose proof (gn_fok _ _ N) as Hf. fold gb in Hf. rewrite Eg in Hf. destruct Hf as (H0 & Hl0). rewrite <- Hfw. apply (fac_at_ok log f0 wk H0 Hl0). }
  (* the week's total: frozen, or frozen now *)
  unfold pool_left in Hl, Hg. fold h w in Hl, Hg. unfold b_collect_and_get. fold (rw_ w wk).
  destruct (rw_ w wk) as [|x l] eqn:Erw.
  - unfold b_collect. fold h. rewrite Hc, Hu. simpl bind.
    destruct (m_win _ _ _ _ HM wk (proj1 Hw) Erw) as (_ & P0).
    assert (HR : aget (bh_acc h) wk = gcuts gb wk) by (fold (acc_ h wk); lia).
    rewrite HR. set (R := gcuts gb wk) in *.
    destruct (R =? 0) eqn:ER; [eexists; reflexivity|].
    unfold div_chk. assert (Ed : (fa_ce fa + fa_cf fa =? 0) = false) by (apply Z.eqb_neq; lia). rewrite Ed. simpl bind.
    fold (boosted_amount fa R pos F e E).
    destruct (0 <? boosted_amount fa R pos F e E) eqn:Epos; [|eexists; reflexivity]. apply Z.ltb_lt in Epos.
    assert (Hamt : hook_amount fa R pos F e E = boosted_amount fa R pos F e E).
    { unfold hook_amount, elig. rewrite E1, E2, M1, M2, ER. simpl. lia. }
    rewrite Hamt in Hg. unfold sub_chk. simpl. rewrite aget_aset_same.
    assert (Es : (R <? boosted_amount fa R pos F e E) = false) by (apply Z.ltb_ge; fold (acc_ h wk) in Hg; lia).
    rewrite Es. eexists; reflexivity.
  - assert (Hne : rw_ w wk <> []) by (rewrite Erw; discriminate).
    destruct (m_frozen _ _ _ _ HM wk Hne) as (Fz & _). rewrite Erw in Fz. rewrite Fz. cbn [bind].
    set (R := gcuts gb wk) in *.
    destruct (R =? 0) eqn:ER; [eexists; reflexivity|].
    unfold div_chk. assert (Ed : (fa_ce fa + fa_cf fa =? 0) = false) by (apply Z.eqb_neq; lia). rewrite Ed. simpl bind.
    fold (boosted_amount fa R pos F e E).
    destruct (0 <? boosted_amount fa R pos F e E) eqn:Epos; [|eexists; reflexivity]. apply Z.ltb_lt in Epos.
    assert (Hamt : hook_amount fa R pos F e E = boosted_amount fa R pos F e E).
    { unfold hook_amount, elig. rewrite E1, E2, M1, M2, ER. simpl. lia. }
    rewrite Hamt in Hg. unfold sub_chk. fold (rem_ h wk).
    assert (Es : (rem_ h wk <? boosted_amount fa R pos F e E) = false) by (apply Z.ltb_ge; lia).
    rewrite Es. eexists; reflexivity.
Qed.

(** the same on any storage that agrees with the state's on the week's own data (what the call sees inside a settlement) *)
Lemma ghook_total_gen s g wk u p c cfg h' s' : GInv s g ->
  let cw := bcur_week (g_b s) in
  cw - MAXW <= wk < cw -> pfind (w_prog (b_w (g_b s))) u = Some p -> pr_week p <= wk ->
  bh_cfg (b_h (g_b s)) = Some c -> cfg_update c cw None = Ok cfg ->
  aget (bh_sup h') wk = Fw (g_b s) wk -> rw_ s' wk = rw_ (b_w (g_b s)) wk ->
  acc_ h' wk = acc_ (b_h (g_b s)) wk -> rem_ h' wk = rem_ (b_h (g_b s)) wk ->
  (exists c' c'', bh_cfg h' = Some c' /\ cfg_update c' cw None = Ok c'') ->
  exists r, boosted_hook (g_ut s u) cfg cw h' s' wk (energy_at p wk) (En (b_w (g_b s)) wk) = Ok r.
Proof.
  intros X cw Hw Hp Hle Hc Hu Hsup Hrw Hacc Hrem (c' & c'' & Hc' & Hu').
  pose proof (gguard_slack _ _ _ _ _ X Hw Hp Hle) as Hg. pose proof (gpool_left_ledger _ _ _ X Hw) as Hl.
  pose proof X as [_ Hi N]. pose proof Hi as (_ & _ & _ & HC & HM & _). fold cw in HC, HM.
  set (h := b_h (g_b s)) in *. set (w := b_w (g_b s)) in *. set (gb := xg_b g) in *.
  set (pos := g_ut s u) in *. set (e := energy_at p wk) in *. set (E := En w wk) in *.
  unfold boosted_hook. rewrite Hsup. set (F := Fw (g_b s) wk) in *.
  destruct ((E =? 0) || (F =? 0)) eqn:Ez; [eexists; reflexivity|].
  apply orb_false_iff in Ez. destruct Ez as (E1 & E2).
  unfold CI in HC. rewrite Hc in HC. destruct (g_fac gb) as [[f0 log]|] eqn:Eg; [|contradiction]. destruct HC as (Hci & _).
  destruct (cfg_update_inv _ _ _ _ _ _ Hci Hu) as (_ & Hlast & Hci').
  pose proof nslots_eq as HNS.
  destruct (get_factors_spec cfg f0 log wk Hci') as (Hg1 & _). rewrite Hg1 by (rewrite Hlast; lia). simpl bind.
  assert (Hfw : fac_at f0 log wk = fw gb wk) by (unfold fw; rewrite Eg; reflexivity). rewrite Hfw.
  set (fa := fw gb wk) in *.
  destruct ((e <? fa_mine fa) || (pos <? fa_minf fa)) eqn:Em; [eexists; reflexivity|].
  apply orb_false_iff in Em. destruct Em as (M1 & M2).
  assert (Hfok : 0 < fa_ce fa + fa_cf fa).
  { pose proof (gn_fok _ _ N) as Hf. fold gb in Hf. rewrite Eg in Hf. destruct Hf as (H0 & Hl0). rewrite <- Hfw. apply (fac_at_ok log f0 wk H0 Hl0). }
  unfold pool_left in Hl, Hg. fold h w in Hl, Hg. unfold b_collect_and_get. fold (rw_ s' wk). rewrite Hrw.
  destruct (rw_ w wk) as [|x l] eqn:Erw.
  - unfold b_collect. rewrite Hc', Hu'. simpl bind.
    destruct (m_win _ _ _ _ HM wk (proj1 Hw) Erw) as (_ & P0).
    fold (acc_ h' wk). rewrite Hacc.
    assert (HR : acc_ h wk = gcuts gb wk) by lia.
    rewrite HR. set (R := gcuts gb wk) in *.
    destruct (R =? 0) eqn:ER; [eexists; reflexivity|].
    unfold div_chk. assert (Ed : (fa_ce fa + fa_cf fa =? 0) = false) by (apply Z.eqb_neq; lia). rewrite Ed. simpl bind.
    fold (boosted_amount fa R pos F e E).
    destruct (0 <? boosted_amount fa R pos F e E) eqn:Epos; [|eexists; reflexivity]. apply Z.ltb_lt in Epos.
    assert (Hamt : hook_amount fa R pos F e E = boosted_amount fa R pos F e E).
    { unfold hook_amount, elig. rewrite E1, E2, M1, M2, ER. simpl. lia. }
    rewrite Hamt in Hg. unfold sub_chk. simpl. rewrite aget_aset_same.
    assert (Es : (R <? boosted_amount fa R pos F e E) = false) by (apply Z.ltb_ge; lia).
    rewrite Es. eexists; reflexivity.
  - assert (Hne : rw_ w wk <> []) by (rewrite Erw; discriminate).
    destruct (m_frozen _ _ _ _ HM wk Hne) as (Fz & _). rewrite Erw in Fz. rewrite Fz. cbn [bind].
    set (R := gcuts gb wk) in *.
    destruct (R =? 0) eqn:ER; [eexists; reflexivity|].
    unfold div_chk. assert (Ed : (fa_ce fa + fa_cf fa =? 0) = false) by (apply Z.eqb_neq; lia). rewrite Ed. simpl bind.
    fold (boosted_amount fa R pos F e E).
    destruct (0 <? boosted_amount fa R pos F e E) eqn:Epos; [|eexists; reflexivity]. apply Z.ltb_lt in Epos.
    assert (Hamt : hook_amount fa R pos F e E = boosted_amount fa R pos F e E).
    { unfold hook_amount, elig. rewrite E1, E2, M1, M2, ER. simpl. lia. }
    rewrite Hamt in Hg. unfold sub_chk. fold (rem_ h' wk). rewrite Hrem.
    assert (Es : (rem_ h wk <? boosted_amount fa R pos F e E) = false) by (apply Z.ltb_ge; lia).
    rewrite Es. eexists; reflexivity.
Qed.

(** ------------------------------------------------------------------ C.12 the settlement as a whole never aborts *)

Definition gweek_agrees (s : gst) (h' : bhost) (s' : wstate) (wk : Z) : Prop :=
  aget (bh_sup h') wk = Fw (g_b s) wk /\ rw_ s' wk = rw_ (b_w (g_b s)) wk /\
  acc_ h' wk = acc_ (b_h (g_b s)) wk /\ rem_ h' wk = rem_ (b_h (g_b s)) wk /\ En s' wk = En (b_w (g_b s)) wk.

Lemma gclaim_weeks_total s g u p0 c cfg : GInv s g ->
  let cw := bcur_week (g_b s) in
  pfind (w_prog (b_w (g_b s))) u = Some p0 -> bh_cfg (b_h (g_b s)) = Some c -> cfg_update c cw None = Ok cfg ->
  forall n k h' s', 0 <= k -> cw - MAXW <= pr_week p0 + k -> pr_week p0 + k + Z.of_nat n <= cw ->
    (forall wk, pr_week p0 + k <= wk < pr_week p0 + k + Z.of_nat n -> gweek_agrees s h' s' wk) ->
    (exists c' c'', bh_cfg h' = Some c' /\ cfg_update c' cw None = Ok c'') ->
    exists r, claim_weeks bhost (boosted_hook (g_ut s u) cfg cw) n h' s' (adv p0 k) = Ok r.
Proof.
  intros X cw Hp0 Hc Hu.
  assert (Ht0 : 0 <= en_tok (pr_en p0)) by (destruct X as [_ Hi _]; apply (BInv_wfp _ _ _ _ Hi Hp0)).
  induction n as [|n IH]; intros k h' s' Hk Hlo Hhi Hag Hcfg; [eexists; reflexivity|].
  simpl claim_weeks. unfold claim_single.
  set (wk := pr_week (adv p0 k)). assert (Ewk : wk = pr_week p0 + k) by (unfold wk; apply adv_week).
  destruct (Hag wk ltac:(lia)) as (A1 & A2 & A3 & A4 & A5).
  rewrite en_amount_energy_at. fold wk. rewrite energy_at_adv. fold (En s' wk). rewrite A5.
  destruct (ghook_total_gen s g wk u p0 c cfg h' s' X ltac:(fold cw; lia) Hp0 ltac:(lia) Hc Hu A1 A2 A3 A4 Hcfg) as ([[h1 s1] r] & Hh).
  fold cw in Hh. rewrite Hh. simpl bind.
  rewrite advance_week_adv by (rewrite adv_tok; exact Ht0). rewrite adv_adv.
  destruct (hook_effect _ _ _ _ _ _ _ _ _ _ _ Hh) as (Hsbr & Hrwo & (f1 & _ & _ & _ & f5) & Hcs & _).
  destruct (IH (k + 1) h1 s1 ltac:(lia) ltac:(lia) ltac:(lia)) as (r2 & Hr2).
  - intros wk2 Hw2. assert (Hne : wk2 <> wk) by lia. destruct (Hag wk2 ltac:(lia)) as (B1 & B2 & B3 & B4 & B5).
    destruct (f5 wk2 Hne) as (g1 & g2). destruct Hsbr as (_ & Hen & _).
    unfold gweek_agrees. rewrite f1, (Hrwo wk2 Hne), g1, g2. unfold En. rewrite Hen. fold (En s' wk2).
    repeat split; assumption.
  - destruct Hcfg as (c' & c'' & Hc' & Hu'). destruct Hcs as [Hsame|(c1 & c2 & Hc1 & Hu1 & Hc2)].
    + exists c', c''. rewrite Hsame. split; assumption.
    + destruct (cfg_update_again _ _ _ Hu1) as (c3 & Hu3). exists c2, c3. split; assumption.
  - rewrite Hr2. destruct r2 as [[[h2 s2] p2] rs]. simpl. eexists; reflexivity.
Qed.


(** claim_boosted_yields_rewards, called for ANY user with his present total position and any well-formed energy entry,
    on the state's module storage (possibly after the endpoint's own slice went into the running week), returns Ok *)
Lemma gclaim_boosted_total s g u cur h0 : GInv s g ->
  let cw := bcur_week (g_b s) in
  0 <= en_tok cur -> slice_rel cw (b_h (g_b s)) h0 ->
  exists r, claim_boosted h0 (b_w (g_b s)) u (g_ut s u) cw cur = Ok r.
Proof.
  intros X cw Ht (r1 & r2 & r3 & r4 & r5 & r6 & r7). pose proof X as [_ Hi N].
  pose proof Hi as (_ & Hcw & HT & HC & _ & _). fold cw in Hcw, HT, HC.
  pose proof (gn_e _ _ N) as I0. fold cw in I0. set (w := b_w (g_b s)) in *. set (h := b_h (g_b s)) in *.
  unfold claim_boosted, try_get_cfg. rewrite r3. destruct (bh_cfg h) as [c|] eqn:Ec; [|eexists; reflexivity].
  unfold CI in HC. destruct (g_fac (xg_b g)) as [[f0 log]|]; [|contradiction]. destruct HC as (_ & Hcl).
  destruct (cfg_update_ok c cw Hcl) as (cfg & Hu). rewrite Hu. simpl bind.
  unfold claim_multi.
  destruct (update_user_energy_spec w cw u cur (e_w _ _ _ I0) (e_last _ _ _ I0) Hcw Ht) as (s1 & Hue & _ & _ & _).
  rewrite Hue. simpl bind.
  destruct (update_user_energy_frame _ _ _ _ _ Hue) as (_ & _ & Hen & Hrw).
  pose proof max_weeks_nonneg as HMX.
  destruct (pfind (w_prog w) u) as [p|] eqn:Ep.
  - assert (Hle : pr_week p <= cw) by (apply (T_find _ _ _ _ HT Ep)).
    assert (Ele : (pr_week p <=? cw) = true) by (apply Z.leb_le; exact Hle). rewrite Ele.
    assert (Htp : 0 <= en_tok (pr_en p)) by (apply (T_find _ _ _ _ HT Ep)).
    assert (Hcp : (if MAXW <? cw - pr_week p then advance_multiple_weeks p (cw - pr_week p - MAXW) else p)
                  = adv p (first_claim_week p cw - pr_week p)).
    { unfold first_claim_week. destruct (MAXW <? cw - pr_week p) eqn:Em.
      - apply Z.ltb_lt in Em. rewrite advance_multiple_adv by lia. f_equal. lia.
      - apply Z.ltb_ge in Em. replace (Z.max (pr_week p) (cw - MAXW) - pr_week p) with 0 by lia. rewrite adv_0. reflexivity. }
    rewrite Hcp. fold (nr_claim_weeks p cw).
    destruct (gclaim_weeks_total s g u p c cfg X Ep Ec Hu (nr_claim_weeks p cw) (first_claim_week p cw - pr_week p) h0 s1) as (r & Hr).
    + unfold first_claim_week. lia.
    + unfold first_claim_week. fold cw. lia.
    + unfold first_claim_week, nr_claim_weeks. fold cw. lia.
    + intros wk Hw. unfold first_claim_week, nr_claim_weeks in Hw. fold cw in Hw.
      assert (Hn1 : wk <> cw) by lia. assert (Hn2 : wk <> cleared_week cw) by (unfold cleared_week; lia).
      unfold gweek_agrees. fold w h. split; [unfold Fw; fold h; rewrite r2; reflexivity|].
      split; [unfold rw_; apply Hrw; exact Hn2|]. split; [apply r7; exact Hn1|].
      split; [unfold rem_; rewrite r1; reflexivity | unfold En; apply Hen; assumption].
    + exists c. destruct (cfg_update_again _ _ _ Hu) as (c3 & _). exists cfg. split; [exact r3 | exact Hu].
    + fold cw in Hr. rewrite Hr. destruct r as [[[h2 s2] p2] det]. simpl. eexists; reflexivity.
  - simpl. rewrite Z.leb_refl, Z.sub_diag.
    destruct (MAXW <? 0) eqn:Em; [apply Z.ltb_lt in Em; lia|]. rewrite Z.min_l by lia. simpl. eexists; reflexivity.
Qed.
(** ------------------------------------------------------------------ C.11 the settlement as a whole never aborts *)
Lemma sx_entry_tok_nn raw ep : (forall e, raw = Some e -> 0 <= en_tok e) -> 0 <= en_tok (sx_entry raw ep).
Proof. intros H. unfold sx_entry. destruct raw as [e|]; [rewrite en_deplete_tok; apply H; reflexivity | simpl; lia]. Qed.

Lemma semission_nonneg s blk : StkInv s -> 0 <= semission s blk.
Proof.
  intros I. pose proof (k_wf _ I) as (_ & Hr & Ha & _ & Hs & _). pose proof (k_cap _ I).
  unfold semission. destruct (blk <=? s_last s) eqn:E; [lia|]. apply Z.leb_gt in E. cbv zeta.
  pose proof (apr_per_block_nonneg s Hs Ha).
  assert (0 <= (if s_produce s then s_rate s * (blk - s_last s) else 0)) by (destruct (s_produce s); nia).
  assert (0 <= apr_per_block s * (blk - s_last s)) by nia. lia.
Qed.

(** the raw energy entry is well formed: total locked tokens are a BigUint *)
Definition sraw_ok (op : sxop) : Prop :=
  match op with
  | SXStake _ _ _ _ raw | SXStakeProxy _ _ _ _ raw | SXClaim _ _ _ raw | SXClaimNewValue _ _ _ _ raw | SXCompound _ _ _ raw
  | SXUnstake _ _ _ raw | SXUnstakeProxy _ _ _ _ raw | SXMerge _ _ raw | SXClaimBoosted _ raw
  | SXUpdateEnergy _ _ raw => forall e, raw = Some e -> 0 <= en_tok e
  | _ => True
  end.

(** C11_staking_no_underflow at the endpoints: in a reachable state the boosted-yields half of stakeFarm /
    stakeFarmThroughProxy / claimRewards / claimRewardsWithNewValue / compoundRewards / unstakeFarm / unstakeFarmThroughProxy /
    mergeFarmTokens / claimBoostedRewards cannot abort — whoever calls for whichever original caller with whatever payments
    and stored energy entry (claimBoostedRewards: for a user with a position): no remaining(week), bucket, total-energy or
    total-locked-tokens counter goes negative, no division by zero, no register or freeze failure *)
Lemma smodule_half_total s g op u S P : SXInv s g -> sclaim_user op = Some u -> sraw_ok op -> 0 <= S -> 0 <= P ->
  (forall c raw, op = SXClaimBoosted c raw -> utot (sx_p s) c <> 0) ->
  exists r, run_h (sx_b s) (hop_of s op S P) = Ok r.
Proof.
  intros X Hcu Hraw HS HP Hcb. pose proof X as [I Hi L N]. pose proof (SXInv_G _ _ X) as G.
  pose proof Hi as (Htime & Hcw & HT & HC & _ & Hpct). set (cw := bcur_week (sx_b s)) in *.
  pose proof (gn_e _ _ N) as I0. simpl in I0. fold cw in I0.
  pose proof (Inv_utot_nn _ I) as Hnn.
  pose proof (semission_nonneg (p_s (sx_p s)) (sx_blk s) (i_stk _ I)) as Hem.
  assert (Hweek : current_week (sx_b s) = Ok cw).
  { unfold current_week, week_for_epoch. assert (E : (b_first (sx_b s) <=? b_epoch (sx_b s)) = true) by (apply Z.leb_le; exact Htime). rewrite E. reflexivity. }
  assert (Hcfgle : forall h, (forall c, bh_cfg h = Some c -> exists c0, bh_cfg (b_h (sx_b s)) = Some c0 /\ (c = c0 \/ cfg_update c0 cw None = Ok c)) ->
                   forall c, bh_cfg h = Some c -> c_last c <= cw).
  { intros h Hh c Ec. destruct (Hh c Ec) as (c0 & E0 & Hor). unfold CI in HC. rewrite E0 in HC.
    destruct (g_fac (xg_b g)) as [[f0 log]|]; [|contradiction]. destruct HC as (Hci & Hl).
    destruct Hor as [->|Hu]; [exact Hl|]. destruct (cfg_update_inv _ _ _ _ _ _ Hci Hu) as (_ & E1 & _). lia. }
  (* the claim and what follows it *)
  assert (Hclaim : forall h0 cur, 0 <= en_tok cur -> slice_rel cw (b_h (sx_b s)) h0 ->
            exists h1 w1 det, claim_boosted h0 (b_w (sx_b s)) u (utot (sx_p s) u) cw cur = Ok (h1, w1, det) /\
              WInv w1 /\ w_last w1 <= cw /\ bh_pct h1 = bh_pct (b_h (sx_b s)) /\
              (forall c, bh_cfg h1 = Some c -> c_last c <= cw)).
  { intros h0 cur Ht Hrel. destruct (gclaim_boosted_total (gview s) g u cur h0 G Ht Hrel) as ([[h1 w1] det] & Hc). simpl in Hc. fold cw in Hc.
    exists h1, w1, det. split; [exact Hc|].
    assert (Hwf : forall p, pfind (w_prog (b_w (sx_b s))) u = Some p -> 0 <= en_tok (pr_en p)) by (intros p Hp; apply (BInv_wfp _ _ _ _ Hi Hp)).
    destruct Hrel as (_ & _ & r3 & _ & _ & r6 & _).
    destruct (claim_cfg_presence _ _ _ _ _ _ _ _ _ Hwf Hc) as (P1 & _).
    assert (Hw1 : WInv w1 /\ w_last w1 <= cw).
    { destruct (bh_cfg h0) eqn:E0.
      - destruct (claim_boosted_touch _ _ _ _ _ _ _ _ _ Hc ltac:(rewrite E0; discriminate) (e_w _ _ _ I0) (e_last _ _ _ I0) Hcw Ht) as (c0 & _ & _ & Hl & _ & Hw).
        split; [exact Hw | lia].
      - unfold claim_boosted, try_get_cfg in Hc. rewrite E0 in Hc. simpl in Hc. inversion Hc; subst. split; [apply (e_w _ _ _ I0) | apply (e_last _ _ _ I0)]. }
    destruct Hw1 as (W1 & W2). split; [exact W1|]. split; [exact W2|]. split; [rewrite P1, r6; reflexivity|].
    destruct (claim_boosted_summary _ _ _ _ _ _ _ _ _ Hwf Hc) as [(_ & -> & _)|(c & cfg & s1 & Hcfg & Hu & _ & _ & _ & _ & _ & (_ & _ & _ & _ & _ & S6 & _))].
    - apply Hcfgle. intros c Ec. exists c. split; [rewrite <- r3; exact Ec | left; reflexivity].
    - intros c1 Ec1. unfold CI in HC. rewrite <- r3, Hcfg in HC. destruct (g_fac (xg_b g)) as [[f0 log]|]; [|contradiction].
      destruct HC as (Hci & Hl).
      apply (S6 (fun oc => forall c2, oc = Some c2 -> c_last c2 <= cw)); [| |exact Ec1].
      + intros ca cb Hab Hpa c2 E2. inversion E2; subst c2. specialize (Hpa ca eq_refl).
        unfold cfg_update in Hab. destruct (c_last ca <=? cw); [|discriminate].
        destruct (Z.min (cw - c_last ca) NSLOTS =? 0); inversion Hab; subst; simpl; lia.
      + intros c2 E2. rewrite Hcfg in E2. inversion E2; subst. exact Hl. }
  rewrite run_h_base. unfold sbop_of.
  destruct op; try discriminate; simpl in Hcu; inversion Hcu; subst; simpl hop_of; cbn [base_of]; unfold FarmFull.run_b; simpl Boosted.step;
    simpl in Hraw; pose proof (sx_entry_tok_nn raw (b_epoch (sx_b s)) Hraw) as Hcur;
    set (cur := sx_entry raw (b_epoch (sx_b s))) in *;
    set (full := semission (p_s (sx_p s)) (sx_blk s)) in *.
  - (* stake: claim, slice, supply, progress *)
    set (pos := utot (sx_p s) u) in *.
    unfold Boosted.ep_enter. assert (Ew : wf_in cur pos full S = true) by (unfold wf_in; rewrite !andb_true_iff, !Z.leb_le; pose proof (Hnn u); unfold pos; lia).
    rewrite Ew, Hweek. simpl bind.
    destruct (Hclaim (b_h (sx_b s)) cur Hcur (slice_rel_refl _ _)) as (h1 & w1 & det & Hc & W1 & W2 & P1 & C1). rewrite Hc. simpl bind.
    destruct (slice_total h1 cw full Hem ltac:(rewrite P1; exact Hpct)) as ([[h2 b2] cut] & Hs). rewrite Hs. simpl bind.
    destruct (uep_total w1 u cw cur W1 W2 Hcw Hcur) as (w2 & Hu). rewrite Hu. simpl. eexists; reflexivity.
  - (* stake through proxy *)
    set (pos := utot (sx_p s) u) in *.
    unfold Boosted.ep_enter. assert (Ew : wf_in cur pos full S = true) by (unfold wf_in; rewrite !andb_true_iff, !Z.leb_le; pose proof (Hnn u); unfold pos; lia).
    rewrite Ew, Hweek. simpl bind.
    destruct (Hclaim (b_h (sx_b s)) cur Hcur (slice_rel_refl _ _)) as (h1 & w1 & det & Hc & W1 & W2 & P1 & C1). rewrite Hc. simpl bind.
    destruct (slice_total h1 cw full Hem ltac:(rewrite P1; exact Hpct)) as ([[h2 b2] cut] & Hs). rewrite Hs. simpl bind.
    destruct (uep_total w1 u cw cur W1 W2 Hcw Hcur) as (w2 & Hu). rewrite Hu. simpl. eexists; reflexivity.
  - (* claim: slice, claim, supply, progress *)
    set (pos := utot (sx_p s) u) in *.
    unfold Boosted.ep_compound. assert (Ew : wf_in cur pos full S = true) by (unfold wf_in; rewrite !andb_true_iff, !Z.leb_le; pose proof (Hnn u); unfold pos; lia).
    rewrite Ew, Hweek. simpl bind.
    destruct (slice_total (b_h (sx_b s)) cw full Hem Hpct) as ([[h2 b2] cut] & Hs). rewrite Hs. simpl bind.
    destruct (Hclaim h2 cur Hcur (slice_rel_of _ _ _ _ _ _ Hs)) as (h1 & w1 & det & Hc & W1 & W2 & P1 & C1). rewrite Hc. simpl bind.
    destruct (uep_total w1 u cw cur W1 W2 Hcw Hcur) as (w2 & Hu). rewrite Hu. simpl. eexists; reflexivity.
  - (* claim with new value *)
    set (pos := utot (sx_p s) u) in *.
    unfold Boosted.ep_compound. assert (Ew : wf_in cur pos full S = true) by (unfold wf_in; rewrite !andb_true_iff, !Z.leb_le; pose proof (Hnn u); unfold pos; lia).
    rewrite Ew, Hweek. simpl bind.
    destruct (slice_total (b_h (sx_b s)) cw full Hem Hpct) as ([[h2 b2] cut] & Hs). rewrite Hs. simpl bind.
    destruct (Hclaim h2 cur Hcur (slice_rel_of _ _ _ _ _ _ Hs)) as (h1 & w1 & det & Hc & W1 & W2 & P1 & C1). rewrite Hc. simpl bind.
    destruct (uep_total w1 u cw cur W1 W2 Hcw Hcur) as (w2 & Hu). rewrite Hu. simpl. eexists; reflexivity.
  - (* compound: slice, claim, supply *)
    set (pos := utot (sx_p s) u) in *.
    unfold Boosted.ep_claim. assert (Ew : wf_in cur pos full S = true) by (unfold wf_in; rewrite !andb_true_iff, !Z.leb_le; pose proof (Hnn u); unfold pos; lia).
    rewrite Ew, Hweek. simpl bind.
    destruct (slice_total (b_h (sx_b s)) cw full Hem Hpct) as ([[h2 b2] cut] & Hs). rewrite Hs. simpl bind.
    destruct (Hclaim h2 cur Hcur (slice_rel_of _ _ _ _ _ _ Hs)) as (h1 & w1 & det & Hc & W1 & W2 & P1 & C1). rewrite Hc. simpl. eexists; reflexivity.
  - (* unstake *)
    set (pos := utot (sx_p s) u) in *.
    unfold Boosted.ep_exit. assert (Ew : wf_in cur pos full S && (0 <=? P) = true) by (unfold wf_in; rewrite !andb_true_iff, !Z.leb_le; pose proof (Hnn u); unfold pos; lia).
    rewrite Ew, Hweek. simpl bind.
    destruct (slice_total (b_h (sx_b s)) cw full Hem Hpct) as ([[h2 b2] cut] & Hs). rewrite Hs. simpl bind.
    destruct (Hclaim h2 cur Hcur (slice_rel_of _ _ _ _ _ _ Hs)) as (h1 & w1 & det & Hc & W1 & W2 & P1 & C1). rewrite Hc. simpl bind.
    destruct (clear_total (set_sup h1 cw S) w1 u cw (b_epoch (sx_b s)) P W1 W2 Hcw C1) as (w2 & Hu). rewrite Hu. simpl. eexists; reflexivity.
  - (* unstake through proxy *)
    set (pos := utot (sx_p s) u) in *.
    unfold Boosted.ep_exit. assert (Ew : wf_in cur pos full S && (0 <=? P) = true) by (unfold wf_in; rewrite !andb_true_iff, !Z.leb_le; pose proof (Hnn u); unfold pos; lia).
    rewrite Ew, Hweek. simpl bind.
    destruct (slice_total (b_h (sx_b s)) cw full Hem Hpct) as ([[h2 b2] cut] & Hs). rewrite Hs. simpl bind.
    destruct (Hclaim h2 cur Hcur (slice_rel_of _ _ _ _ _ _ Hs)) as (h1 & w1 & det & Hc & W1 & W2 & P1 & C1). rewrite Hc. simpl bind.
    destruct (clear_total (set_sup h1 cw S) w1 u cw (b_epoch (sx_b s)) P W1 W2 Hcw C1) as (w2 & Hu). rewrite Hu. simpl. eexists; reflexivity.
  - (* merge *)
    set (pos := utot (sx_p s) u) in *.
    unfold Boosted.ep_merge. assert (Ew : wf_in cur pos 0 0 = true) by (unfold wf_in; rewrite !andb_true_iff, !Z.leb_le; pose proof (Hnn u); unfold pos; lia).
    rewrite Ew, Hweek. simpl bind.
    destruct (Hclaim (b_h (sx_b s)) cur Hcur (slice_rel_refl _ _)) as (h1 & w1 & det & Hc & W1 & W2 & P1 & C1). rewrite Hc. simpl. eexists; reflexivity.
  - (* claimBoosted *)
    set (pos := utot (sx_p s) u) in *.
    unfold Boosted.ep_claim_boosted. assert (Ew : wf_in cur pos full S = true) by (unfold wf_in; rewrite !andb_true_iff, !Z.leb_le; pose proof (Hnn u); unfold pos; lia).
    rewrite Ew. assert (En0 : negb (pos =? 0) = true) by (apply negb_true_iff; apply Z.eqb_neq; apply (Hcb u raw eq_refl)). rewrite En0, Hweek. simpl bind.
    destruct (slice_total (b_h (sx_b s)) cw full Hem Hpct) as ([[h2 b2] cut] & Hs). rewrite Hs. simpl bind.
    destruct (Hclaim h2 cur Hcur (slice_rel_of _ _ _ _ _ _ Hs)) as (h1 & w1 & det & Hc & W1 & W2 & P1 & C1). rewrite Hc. simpl. eexists; reflexivity.
Qed.

(** ================================================================== Part D: the payout against the staking farm's counters *)
Lemma aget_le_asum l k : NoDup (akeys l) -> (forall j, 0 <= aget l j) -> aget l k <= asum l.
Proof.
  induction l as [|[j v] t IH]; simpl; intros Hnd Hk; [lia|]. inversion Hnd as [|? ? Hnin Hnd']; subst.
  assert (Hv : 0 <= v) by (specialize (Hk j); rewrite Z.eqb_refl in Hk; exact Hk).
  assert (Ht : forall i, 0 <= aget t i).
  { intros i. specialize (Hk i). destruct (j =? i) eqn:E; [|exact Hk]. apply Z.eqb_eq in E. subst i. rewrite (aget_notin t j Hnin). lia. }
  assert (0 <= asum t) by (apply asum_nonneg_aget; assumption).
  destruct (j =? k); [lia|]. specialize (IH Hnd' Ht). lia.
Qed.

(** whatever the module pays in an operation is non-negative and within the staking farm's aggregate pool AS IT STANDS
    BEFORE this operation's own slice is booked (the slice goes into the running week, payments come out of completed
    weeks): the [pool] and [reserve] debits of the staking half's pay cannot fail on it, whether the endpoint pays before
    its settlement (stakeFarm, mergeFarmTokens) or after it *)
Lemma spayout_within_pool s g bo b' out : SXInv s g -> step (sx_b s) bo = Ok (b', out) -> (forall n, bo <> BAdvance n) ->
  0 <= o_b out <= s_pool (p_s (sx_p s)).
Proof.
  intros [_ Hi (L1 & _) _] Hs Hna. split; [apply (step_payout_nonneg _ _ _ _ _ Hi Hs)|].
  pose proof (step_books _ _ _ _ _ Hi Hs) as Hb. pose proof (step_inv _ _ _ _ _ Hi Hs) as Hi'.
  destruct (step_running_week _ _ _ _ _ Hi Hs Hna) as (Hacc & _).
  pose proof Hi as (_ & _ & _ & _ & HM & _).
  destruct Hi' as (_ & _ & _ & _ & HM' & _).
  assert (o_cut out <= msum (b_h b') + bh_und (b_h b')).
  { destruct (m_nd _ _ _ _ HM') as (N1 & N2). destruct (m_und _ _ _ _ HM') as (_ & U0). unfold msum.
    assert (A1 : aget (bh_acc (b_h b')) (bcur_week (sx_b s)) <= asum (bh_acc (b_h b'))) by (apply aget_le_asum; [exact N1 | intros k; apply (m_nn _ _ _ _ HM' k)]).
    assert (0 <= asum (bh_rem (b_h b'))) by (apply asum_nonneg_aget; [exact N2 | intros k; apply (m_nn _ _ _ _ HM' k)]).
    unfold view_acc in Hacc. rewrite Hacc in A1. destruct (m_nn _ _ _ _ HM (bcur_week (sx_b s))) as (A0 & _). unfold acc_ in A0.
    lia. }
  lia.
Qed.

(** ------------------------------------------------------------------ the documented guards of the user endpoints *)
(** contract active, caller authorised (the original-caller argument only from the whitelisted proxy), amounts
    positive, the caller holds what he pays in, claimBoostedRewards: the user has a position.  No hypothesis about the
    boosted payout: it is computed. *)
Definition pguards (sp : spos) (po : pop) : Prop :=
  active (p_s sp) = true /\
  match po with
  | PStake _ _ c u amt adds _ => auth c u = true /\ 0 < amt /\ is_ok (pay_all sp c adds) = true
  | PStakeProxy _ _ c u amt adds _ => whitelisted c = true /\ 0 < amt /\ is_ok (pay_all sp c adds) = true
  | PClaim _ _ c u p _ => auth c u = true /\ 0 < snd p <= held sp (fst p) c
  | PClaimNewValue _ _ c u p newv _ => whitelisted c = true /\ 0 <= newv /\ 0 < snd p <= held sp (fst p) c
  | PCompound _ _ c first adds _ => is_ok (pay_all sp c (first :: adds)) = true
  | PUnstake _ _ c u p _ => auth c u = true /\ 0 < snd p <= held sp (fst p) c
  | PUnstakeProxy _ _ c u p t _ => whitelisted c = true /\ 0 < t /\ 0 < snd p <= held sp (fst p) c
  | PMerge _ _ c ps _ => ps <> [] /\ is_ok (pay_all sp c ps) = true
  | PClaimBoosted _ _ c _ => utot sp c <> 0
  | _ => False
  end.

Definition sguards (s : sxstate) (op : sxop) : Prop :=
  match pop_of s op 0 with Some po => pguards (sx_p s) po | None => False end.


(** a successful user operation passed the guards *)
Lemma spay_state s r b s' : Staking.pay s r b = Ok s' -> s_state s' = s_state s.
Proof.
  unfold Staking.pay. destruct ((0 <=? b) && (b <=? r)); [|discriminate]. intros H.
  bnd H res Hr. bnd H pool Hp. bnd H bal Hb. inversion H; subst; reflexivity.
Qed.

Lemma single_held sp c p sp1 : pay_all sp c [p] = Ok sp1 -> 0 < snd p <= held sp (fst p) c.
Proof. destruct p as [n x]. intros H. apply pay_all_single in H. exact (proj1 H). Qed.

Lemma pstep_ok_guards sp po r : pstep sp po = Ok r -> puser po <> None -> pguards sp po.
Proof.
  destruct r as [sp' o]. intros H Hu. destruct po; cbn [pstep] in H; try (exfalso; apply Hu; reflexivity); unfold pguards.
  - unfold ep_stake in H. destruct (auth c u) eqn:Ea; [|discriminate]. destruct (0 <? amt) eqn:Eam; [|discriminate]. apply Z.ltb_lt in Eam.
    bnd H sp1 H1. bnd H sp2 H2. destruct (active (p_s sp2)) eqn:Eac; [|discriminate].
    destruct (spay_all_fr _ _ _ _ H1) as (_ & S1 & _). unfold ppay in H2. bnd H2 s2 Hs2. inversion H2; subst sp2. simpl in Eac.
    rewrite S1 in Hs2. unfold active in *. rewrite (spay_state _ _ _ _ Hs2) in Eac.
    split; [exact Eac|]. split; [reflexivity|]. split; [exact Eam|]. rewrite H1. reflexivity.
  - unfold ep_stake in H. destruct (whitelisted c) eqn:Ea; [|discriminate]. destruct (0 <? amt) eqn:Eam; [|discriminate]. apply Z.ltb_lt in Eam.
    bnd H sp1 H1. bnd H sp2 H2. destruct (active (p_s sp2)) eqn:Eac; [|discriminate].
    destruct (spay_all_fr _ _ _ _ H1) as (_ & S1 & _). unfold ppay in H2. bnd H2 s2 Hs2. inversion H2; subst sp2. simpl in Eac.
    rewrite S1 in Hs2. unfold active in *. rewrite (spay_state _ _ _ _ Hs2) in Eac.
    split; [exact Eac|]. split; [reflexivity|]. split; [exact Eam|]. rewrite H1. reflexivity.
  - unfold ep_claim in H. destruct (auth c u) eqn:Ea; [|discriminate]. cbv iota in H.
    bnd H sp1 H1. destruct (active (p_s sp1)) eqn:Eac; [|discriminate].
    destruct (spay_all_fr _ _ _ _ H1) as (_ & S1 & _). rewrite S1 in Eac.
    split; [exact Eac|]. split; [reflexivity|]. apply (single_held _ _ _ _ H1).
  - unfold ep_claim in H. destruct (whitelisted c) eqn:Ea; [|discriminate]. destruct (0 <=? newv) eqn:En; [|discriminate]. apply Z.leb_le in En.
    bnd H sp1 H1. destruct (active (p_s sp1)) eqn:Eac; [|discriminate].
    destruct (spay_all_fr _ _ _ _ H1) as (_ & S1 & _). rewrite S1 in Eac.
    split; [exact Eac|]. split; [reflexivity|]. split; [exact En|]. apply (single_held _ _ _ _ H1).
  - unfold ep_compound in H. bnd H sp1 H1. destruct (active (p_s sp1)) eqn:Eac; [|discriminate].
    destruct (spay_all_fr _ _ _ _ H1) as (_ & S1 & _). rewrite S1 in Eac.
    split; [exact Eac|]. rewrite H1. reflexivity.
  - unfold ep_unstake in H. destruct (auth c u) eqn:Ea; [|discriminate]. cbv iota in H.
    bnd H sp1 H1. destruct (active (p_s sp1)) eqn:Eac; [|discriminate].
    destruct (spay_all_fr _ _ _ _ H1) as (_ & S1 & _). rewrite S1 in Eac.
    split; [exact Eac|]. split; [reflexivity|]. apply (single_held _ _ _ _ H1).
  - unfold ep_unstake in H. destruct (whitelisted c) eqn:Ea; [|discriminate]. destruct (0 <? t) eqn:En; [|discriminate]. apply Z.ltb_lt in En.
    bnd H sp1 H1. destruct (active (p_s sp1)) eqn:Eac; [|discriminate].
    destruct (spay_all_fr _ _ _ _ H1) as (_ & S1 & _). rewrite S1 in Eac.
    split; [exact Eac|]. split; [reflexivity|]. split; [exact En|]. apply (single_held _ _ _ _ H1).
  - unfold ep_merge in H. destruct ps as [|first rest]; [discriminate|].
    bnd H sp1 H1. destruct (active (p_s sp1)) eqn:Eac; [|discriminate].
    destruct (spay_all_fr _ _ _ _ H1) as (_ & S1 & _). rewrite S1 in Eac.
    split; [exact Eac|]. split; [discriminate|]. rewrite H1. reflexivity.
  - unfold ep_claim_boosted in H. destruct (negb (utot sp c =? 0)) eqn:En; [|discriminate]. destruct (active (p_s sp)) eqn:Eac; [|discriminate].
    split; [reflexivity|]. apply negb_true_iff in En. apply Z.eqb_neq in En. exact En.
Qed.

(** with the guards and a payout within the pools the staking half succeeds (Proofs/StakingPosProofs.v pstep_live; for
    claimBoostedRewards, which has no position payment, directly) *)
Lemma pguards_live sp po : Inv sp -> s_virt (p_s sp) <= s_supply (p_s sp) -> pvalid_op po -> pguards sp po ->
  0 <= pb po <= s_pool (p_s sp) -> exists r, pstep sp po = Ok r.
Proof.
  intros I Hv V (Hact & G) Hb.
  assert (Hpo : forall blk, pool_ok sp blk (pb po)).
  { intros blk s2 Hs2. destruct (ssettle_k _ _ _ Hs2) as (P2 & _).
    pose proof (k_wf _ (i_stk _ I)) as (_ & _ & _ & Hp & _).
    pose proof (boosted_cut_bounds (p_s sp) (semission (p_s sp) blk) (semission_nonneg _ _ (i_stk _ I)) Hp). lia. }
  destruct po; try contradiction; cbn [pb] in *.
  - apply pstep_live; try assumption. split; [exact Hact|]. destruct G as (G1 & G2 & G3). repeat split; try assumption; lia.
  - apply pstep_live; try assumption. split; [exact Hact|]. destruct G as (G1 & G2 & G3). repeat split; try assumption; lia.
  - apply pstep_live; try assumption. split; [exact Hact|]. destruct G as (G1 & G2). split; [exact G1|]. split; [exact G2 | apply Hpo].
  - apply pstep_live; try assumption. split; [exact Hact|]. destruct G as (G1 & G2 & G3). split; [exact G1|]. split; [exact G2|]. split; [exact G3 | apply Hpo].
  - apply pstep_live; try assumption. split; [exact Hact|]. split; [exact G | apply Hpo].
  - apply pstep_live; try assumption. split; [exact Hact|]. destruct G as (G1 & G2). split; [exact G1|]. split; [exact G2 | apply Hpo].
  - apply pstep_live; try assumption. split; [exact Hact|]. destruct G as (G1 & G2 & G3). split; [exact G1|]. split; [exact G2|]. split; [exact G3 | apply Hpo].
  - apply pstep_live; try assumption. split; [exact Hact|]. destruct G as (G1 & G2). repeat split; try assumption; lia.
  - (* claimBoostedRewards *)
    cbn [pstep]. unfold ep_claim_boosted.
    assert (E1 : negb (utot sp c =? 0) = true) by (apply negb_true_iff; apply Z.eqb_neq; exact G). rewrite E1, Hact.
    destruct (settle_total (p_s sp) blk (i_stk _ I)) as (s1 & Hs1). unfold psettle. rewrite Hs1. cbn [bind].
    pose proof (Inv_settled _ _ _ I Hs1) as I1. pose proof (pool_le_reserve _ I1) as Hpr. cbn [p_s with_s] in Hpr.
    specialize (Hpo blk s1 Hs1).
    destruct (settle_virt _ _ _ Hs1 (i_stk _ I)) as (V1 & _). destruct (ssettle_k _ _ _ Hs1) as (_ & _ & _ & S1 & _).
    destruct (pay_total s1 b b (i_stk _ I1) ltac:(lia) ltac:(lia) ltac:(lia) ltac:(cbn [p_s with_s]; lia)) as (s2 & Hs2).
    unfold ppay. cbn [p_s with_s]. rewrite Hs2. cbn [bind]. eexists; reflexivity.
Qed.

Lemma pguards_any_b s op b b' po po' : pop_of s op b = Some po -> pop_of s op b' = Some po' ->
  (pguards (sx_p s) po <-> pguards (sx_p s) po') /\ puser po = sclaim_user op /\ pb po = (match sclaim_user op with Some _ => b | None => 0 end).
Proof. destruct op; simpl; intros H1 H2; inversion H1; inversion H2; subst; simpl; (split; [tauto|]); split; reflexivity. Qed.

(** C05's last clause for the closed staking farm, "if": with the guards a user endpoint succeeds — the boosted half
    never aborts, the payout it computes is covered by the pools *)
Lemma sclosed_user_live s g op u : SXInv s g -> VirtInv (sx_p s) -> sxvalid op -> sclaim_user op = Some u -> sraw_ok op ->
  sguards s op -> exists r, sfull_step s op = Ok r.
Proof.
  intros X VI V Hcu Hraw Hg. pose proof X as [I Hi L N].
  unfold sguards in Hg. destruct (pop_of s op 0) as [po0|] eqn:E0; [|contradiction].
  assert (Hcb : forall c raw, op = SXClaimBoosted c raw -> utot (sx_p s) c <> 0).
  { intros c raw ->. simpl in E0. inversion E0; subst po0. destruct Hg as (_ & Hg). exact Hg. }
  destruct (smodule_half_total s g op u 0 0 X Hcu Hraw ltac:(lia) ltac:(lia) Hcb) as ([b1 o1] & H1).
  destruct (suser_ops_shape s op u 0 0 (o_b o1) Hcu) as (bo & po & cur & Eb & _ & Ef & _ & Hna & _ & _).
  assert (Hpool : 0 <= o_b o1 <= s_pool (p_s (sx_p s))).
  { pose proof H1 as H1'. rewrite run_h_base, Eb in H1'. simpl in H1'. apply (spayout_within_pool _ _ _ _ _ X H1' Hna). }
  destruct (pguards_any_b _ _ _ _ _ _ E0 Ef) as (Hgg & _ & _).
  destruct (pguards_any_b _ _ _ _ _ _ Ef Ef) as (_ & _ & Hpb). rewrite Hcu in Hpb.
  destruct (pguards_live (sx_p s) po I (proj2 (virt_within_supply _ I VI)) (pop_of_valid _ _ _ _ V Ef) (proj1 Hgg Hg) ltac:(rewrite Hpb; exact Hpool))
    as ([sp' pout] & Hp).
  pose proof (pstep_inv _ _ _ _ Hp I (pop_of_valid _ _ _ _ V Ef)) as I'.
  assert (Hs0 : 0 <= s_supply (p_s sp')) by (destruct (k_wf _ (i_stk _ I')) as (_ & _ & _ & _ & X0 & _); exact X0).
  destruct (smodule_half_total s g op u (s_supply (p_s sp')) (utot sp' (user_of op)) X Hcu Hraw Hs0 (Inv_utot_nn _ I' _) Hcb) as ([b2 o2] & H2).
  unfold sfull_step.
  assert (Hck : sclock_of s op = Ok (sx_blk s)) by (destruct op; try discriminate; reflexivity).
  rewrite Hck, H1. cbn [bind]. rewrite Ef. cbn [run_p]. rewrite Hp. cbn [bind]. rewrite H2. cbn [bind]. eexists; reflexivity.
Qed.

(** ... "only if": a user endpoint that succeeds passed the guards *)
Lemma sclosed_user_guards s op u r : sclaim_user op = Some u -> sfull_step s op = Ok r -> sguards s op.
Proof.
  destruct r as [s' out]. intros Hcu H. pose proof (sfull_step_staking _ _ _ _ H) as Hf.
  destruct (suser_ops_shape s op u 0 0 (so_b out) Hcu) as (_ & po & _ & _ & _ & Ef & Hpu & _).
  destruct (suser_ops_shape s op u 0 0 0 Hcu) as (_ & po0 & _ & _ & _ & E0 & _).
  rewrite Ef in Hf. unfold sguards. rewrite E0.
  destruct (pguards_any_b _ _ _ _ _ _ Ef E0) as (Hgg & _). apply Hgg.
  apply (pstep_ok_guards _ _ _ Hf). rewrite Hpu. discriminate.
Qed.

(** the equivalence, and what a failure therefore is *)
Lemma sclosed_user_total s g op u : SXInv s g -> VirtInv (sx_p s) -> sxvalid op -> sclaim_user op = Some u -> sraw_ok op ->
  ((exists r, sfull_step s op = Ok r) <-> sguards s op).
Proof.
  intros X VI V Hcu Hraw. split.
  - intros (r & H). apply (sclosed_user_guards _ _ _ _ Hcu H).
  - apply (sclosed_user_live _ _ _ _ X VI V Hcu Hraw).
Qed.

(** a failing user endpoint fails in its staking half, on a guard — the boosted half returned a payout the pools cover *)
Lemma suser_step_fails_in_staking_half s g op u e : SXInv s g -> sxvalid op -> sclaim_user op = Some u -> sraw_ok op ->
  (forall c raw, op = SXClaimBoosted c raw -> utot (sx_p s) c <> 0) ->
  sfull_step s op = Err e ->
  exists b1 o1 po e', run_h (sx_b s) (hop_of s op 0 0) = Ok (b1, o1) /\ pop_of s op (o_b o1) = Some po /\
                      pstep (sx_p s) po = Err e' /\ 0 <= o_b o1 <= s_pool (p_s (sx_p s)).
Proof.
  intros X V Hcu Hraw Hcb H. pose proof X as [I Hi L N].
  destruct (smodule_half_total s g op u 0 0 X Hcu Hraw ltac:(lia) ltac:(lia) Hcb) as ([b1 o1] & H1).
  destruct (suser_ops_shape s op u 0 0 (o_b o1) Hcu) as (bo & po & cur & Eb & _ & Ef & _ & Hna & _ & _).
  assert (Hpool : 0 <= o_b o1 <= s_pool (p_s (sx_p s))).
  { pose proof H1 as H1'. rewrite run_h_base, Eb in H1'. simpl in H1'. apply (spayout_within_pool _ _ _ _ _ X H1' Hna). }
  exists b1, o1, po. unfold sfull_step in H.
  assert (Hck : sclock_of s op = Ok (sx_blk s)) by (destruct op; try discriminate; reflexivity).
  rewrite Hck, H1 in H. cbn [bind] in H. rewrite Ef in H. cbn [run_p] in H.
  destruct (pstep (sx_p s) po) as [[sp' pout]|e'] eqn:Hp; [|exists e'; repeat split; try assumption; apply Hpool].
  exfalso. cbn [bind] in H.
  pose proof (pstep_inv _ _ _ _ Hp I (pop_of_valid _ _ _ _ V Ef)) as I'.
  assert (Hs0 : 0 <= s_supply (p_s sp')) by (destruct (k_wf _ (i_stk _ I')) as (_ & _ & _ & _ & X0 & _); exact X0).
  destruct (smodule_half_total s g op u (s_supply (p_s sp')) (utot sp' (user_of op)) X Hcu Hraw Hs0 (Inv_utot_nn _ I' _) Hcb) as ([b2 o2] & H2).
  rewrite H2 in H. simpl in H. discriminate.
Qed.

(** the reachable closed states in which the proxy keeps its positions to itself: both invariants *)
Lemma reach_sxinv_sep dsc apr minub blk epoch ops : 0 < dsc -> 0 < apr -> Forall sxsep ops ->
  let sg := sxgreach dsc apr minub blk epoch ops in SXInv (fst sg) (snd sg) /\ VirtInv (sx_p (fst sg)).
Proof.
  intros Hd Ha V sg. split.
  - apply reach_sxinv; try assumption. eapply Forall_impl; [|exact V]. intros op (Hv & _). exact Hv.
  - unfold sg. rewrite sxgreach_state. apply (closed_staking_sep dsc apr minub blk epoch ops Hd Ha V).
Qed.

(** ================================================================== Part E: C12 on the closed model *)
(** the accrual the closed model hands to the module is Staking.settle's own, with C12's bounds: never beyond the
    un-accrued capacity, at most the APR bound and the rate per block, nothing while production is off *)
Lemma semission_bounds s blk : StkInv s ->
  let d := Z.max 0 (blk - s_last s) in
  (forall s', Staking.settle s blk = Ok s' -> s_acc s' - s_acc s = semission s blk) /\
  0 <= semission s blk <= s_cap s - s_acc s /\
  semission s blk * (Staking.MAXP * BLOCKS_IN_YEAR) <= d * (s_supply s * s_apr s) /\
  semission s blk <= d * s_rate s /\
  (s_produce s = false -> semission s blk = 0).
Proof.
  intros I d. destruct (settle_total s blk I) as (s' & Hs). destruct (ssettle_k _ _ _ Hs) as (_ & _ & _ & _ & Hacc).
  destruct (settle_accrual _ _ _ Hs I) as (A1 & A2 & A3 & A4 & A5 & _). fold d in A3, A4.
  assert (Hcap : s_cap s' = s_cap s) by (destruct (settle_full _ _ _ Hs I) as (_ & F & _); sfr F; congruence).
  split; [intros s2 H2; destruct (ssettle_k _ _ _ H2) as (_ & _ & _ & _ & X); lia|].
  split; [lia|]. split; [replace (semission s blk) with (s_acc s' - s_acc s) by lia; exact A3|].
  split; [lia|]. intros Hp. specialize (A5 Hp). lia.
Qed.

(** C12's balance identity with the boosted pools itemised *)
Lemma sclosed_balance s g : SXInv s g ->
  let st := p_s (sx_p s) in let h := b_h (sx_b s) in
  let pools := asum (bh_acc h) + asum (bh_rem h) + bh_und h in
  s_bal st = (s_supply st - s_virt st) + s_ubtot st + (s_cap st - s_acc st) + (s_reserve st - pools) + pools + s_don st /\
  0 <= s_acc st <= s_cap st /\ 0 <= s_ubtot st /\ 0 <= s_don st /\ 0 <= pools /\
  sclaimable_floor (sx_p s) <= s_reserve st - pools.
Proof.
  intros [I Hi (L1 & _) _] st h pools. pose proof (i_stk _ I) as IS. fold st in IS.
  pose proof (k_bal _ IS) as Hb. pose proof (k_cap _ IS). pose proof (k_wf _ IS) as (_ & _ & _ & _ & _ & _ & Hp & Hd & _).
  pose proof (asum_nonneg _ (k_ubnn _ IS)) as Hu. rewrite <- (k_ub _ IS) in Hu.
  pose proof (floor_solvency _ I) as [F1 F2]. unfold msum in L1. fold st h in L1.
  assert (Epool : s_pool st = pools) by (unfold pools; lia).
  fold st in F1, F2. rewrite Epool in F1.
  split; [lia|]. split; [lia|]. split; [lia|]. split; [lia|]. split; [lia|]. lia.
Qed.

(** unbondFarm of the closed model is Model/Staking.v's unbond on the staking half's money-flow state, at the chain's epoch *)
Lemma sclosed_unbond s c n amt s' out : sfull_step s (SXUnbond c n amt) = Ok (s', out) ->
  sstep (p_s (sx_p s)) (SUnbond (b_epoch (sx_b s)) c n amt) = Ok (p_s (sx_p s'), so_p out) /\
  0 < amt <= ubheld (sx_p s) n c /\ sx_b s' = sx_b s.
Proof.
  intros H. pose proof (sfull_step_staking _ _ _ _ H) as Hf. simpl in Hf.
  pose proof (sfull_step_host _ _ _ _ H) as Hb. simpl in Hb. destruct Hb as (Hb & _).
  unfold ep_unbond in Hf. bnd Hf sp1 H1. bnd Hf so Hs. inversion Hf; subst; clear Hf.
  unfold debit_ub in H1. destruct (0 <? amt) eqn:Ea; [|discriminate]. apply Z.ltb_lt in Ea.
  bnd H1 b0 Hb0. inversion H1; subst sp1; clear H1. apply sub_chk_ok in Hb0. destruct Hb0 as (Hle & _).
  cbn [p_s with_ubheld] in Hs. destruct so as [st' o']. cbn [fst snd] in *.
  split; [|split; [lia | exact Hb]].
  exact Hs.
Qed.
