(** Owner totals (C07, last clause): userTotalFarmPosition(u) = sum of the outstanding amounts of the
    positions whose recorded owner is u — in every reachable state, also after positions are
    transferred and then used by another account.  In particular the saturating subtraction in
    decrease_user_farm_position never hides a deficit. *)
From MX Require Import Base.Prelude Gen.Params Model.Farm Proofs.FarmInv Proofs.FarmSolv.

Definition owner_of (f : farm) (n : Z) : Z :=
  match find_attrs (f_attrs f) n with Some a => a_owner a | None => -1 end.
Definition ind (f : farm) (u n : Z) : Z := if owner_of f n =? u then 1 else 0.
Definition UT (f : farm) : Prop := forall u, utot f u = wsum (ind f u) (f_out f).

Lemma ind_ext f f' : f_attrs f' = f_attrs f -> forall u n, ind f' u n = ind f u n.
Proof. intros E u n. unfold ind, owner_of. rewrite E. reflexivity. Qed.

Lemma ind_nonneg f u n : 0 <= ind f u n.
Proof. unfold ind. destruct (_ =? _); lia. Qed.

Lemma psum_ind_nonneg f u ps : Forall (fun p : Z * Z => 0 < snd p) ps -> 0 <= psum (ind f u) ps.
Proof.
  induction ps as [|[n x] t IH]; simpl; intros H; [lia|]. inversion H; subst. simpl in *.
  specialize (IH H3). pose proof (ind_nonneg f u n). nia.
Qed.

Lemma utot_set_same f u v : utot (set_utot f u v) u = v.
Proof. unfold utot, set_utot. simpl. apply aget_aset_same. Qed.
Lemma utot_set_other f u v w : u <> w -> utot (set_utot f u v) w = utot f w.
Proof. intros H. unfold utot, set_utot. simpl. apply aget_aset_other. exact H. Qed.

(** check_and_update_user_farm_position, with [cr] = what has already been credited to [u] *)
Lemma check_update_ut ps : forall g u g' (W : Z -> Z) cr,
  check_update g u ps = Ok g' ->
  Forall (fun p : Z * Z => 0 < snd p) ps ->
  (forall v, utot g v = W v + psum (ind g v) ps + (if v =? u then cr else 0)) ->
  (forall v, 0 <= W v) -> 0 <= cr ->
  forall v, utot g' v = W v + (if v =? u then cr + psum (fun _ => 1) ps else 0).
Proof.
  induction ps as [|[n x] t IH]; intros g u g' W cr H Hpos Hut HW Hcr v; simpl in H.
  - inversion H; subst. rewrite Hut. simpl. destruct (v =? u); lia.
  - inversion Hpos as [|? ? Hx Hpos']; subst. simpl in Hx.
    apply bind_ok in H. destruct H as (a & Ha & H).
    assert (Hown : owner_of g n = a_owner a).
    { unfold owner_of. unfold get_attrs in Ha. destruct (find_attrs (f_attrs g) n); inversion Ha; reflexivity. }
    destruct (a_owner a =? u) eqn:Eo.
    + apply Z.eqb_eq in Eo.
      apply (IH g u g' W (cr + x)) with (v := v) in H; auto; try lia.
      * rewrite H. simpl. destruct (v =? u); lia.
      * intros w. rewrite Hut. simpl. unfold ind at 1. rewrite Hown.
        destruct (w =? u) eqn:Ew.
        -- apply Z.eqb_eq in Ew. subst w. rewrite Eo, Z.eqb_refl. lia.
        -- rewrite Eo. destruct (u =? w) eqn:Ew'; [apply Z.eqb_eq in Ew'; subst; rewrite Z.eqb_refl in Ew; discriminate | lia].
    + apply Z.eqb_neq in Eo.
      apply bind_ok in H. destruct H as (g1 & H1 & H).
      unfold decrease_user in H1. rewrite Ha in H1. simpl in H1. inversion H1; subst g1; clear H1.
      set (o := a_owner a) in *.
      (* the owner's total covers x *)
      assert (Hto : utot g o = W o + x + psum (ind g o) t).
      { rewrite Hut. simpl. unfold ind at 1. rewrite Hown. fold o. rewrite Z.eqb_refl.
        destruct (o =? u) eqn:E; [apply Z.eqb_eq in E; congruence | lia]. }
      assert (Hge : x <= utot g o).
      { pose proof (psum_ind_nonneg g o t Hpos'). specialize (HW o). lia. }
      set (g1 := if x <? utot g o then set_utot g o (utot g o - x) else set_utot g o 0) in *.
      assert (Hg1o : utot g1 o = utot g o - x).
      { unfold g1. destruct (x <? utot g o) eqn:E; rewrite utot_set_same; [reflexivity|]. apply Z.ltb_ge in E. lia. }
      assert (Hg1w : forall w, w <> o -> utot g1 w = utot g w).
      { intros w Hw. unfold g1. destruct (x <? utot g o); apply utot_set_other; congruence. }
      assert (Hg1a : f_attrs g1 = f_attrs g) by (unfold g1; destruct (x <? utot g o); reflexivity).
      set (g2 := increase_user g1 u x) in *.
      assert (Hg2a : f_attrs g2 = f_attrs g) by (unfold g2, increase_user, set_utot; simpl; exact Hg1a).
      apply (IH g2 u g' W (cr + x)) with (v := v) in H; auto; try lia.
      * rewrite H. simpl. destruct (v =? u); lia.
      * intros w. rewrite (psum_ext (ind g2 w) (ind g w)) by (intros k; apply ind_ext; exact Hg2a).
        unfold g2, increase_user.
        destruct (Z.eq_dec w u) as [->|Hwu].
        -- rewrite utot_set_same. rewrite Z.eqb_refl.
           rewrite (Hg1w u) by congruence. rewrite Hut. simpl. rewrite Z.eqb_refl.
           unfold ind at 1. rewrite Hown. fold o.
           destruct (o =? u) eqn:E; [apply Z.eqb_eq in E; congruence | lia].
        -- rewrite utot_set_other by congruence.
           destruct (w =? u) eqn:E; [apply Z.eqb_eq in E; congruence|].
           destruct (Z.eq_dec w o) as [->|Hwo].
           ++ rewrite Hg1o, Hto. lia.
           ++ rewrite (Hg1w w Hwo). rewrite Hut. simpl. rewrite E.
              unfold ind at 1. rewrite Hown. fold o.
              destruct (o =? w) eqn:E2; [apply Z.eqb_eq in E2; congruence | lia].
Qed.

Lemma wsum_ge_entry w l n : NoDup (akeys l) -> all_nonneg l -> (forall k, In k (akeys l) -> 0 <= w k) ->
  aget l n * w n <= wsum w l.
Proof.
  induction l as [|[k v] t IH]; simpl; intros ND NN Hw; [lia|].
  inversion ND; subst. inversion NN; subst. simpl in *.
  assert (0 <= wsum w t) by (apply wsum_nonneg; auto).
  pose proof (Hw k (or_introl eq_refl)).
  destruct (k =? n) eqn:E.
  - apply Z.eqb_eq in E. subst. lia.
  - specialize (IH H2 H4 (fun k' Hk => Hw k' (or_intror Hk))). nia.
Qed.

Lemma UT_same f f' : f_attrs f' = f_attrs f -> f_out f' = f_out f -> f_utot f' = f_utot f -> UT f -> UT f'.
Proof.
  intros A O U H u. unfold utot. rewrite U, O. rewrite (wsum_ext (ind f' u) (ind f u)); [apply H|].
  intros k _. apply ind_ext. exact A.
Qed.

(** minting the merged position for [c] restores the equation *)
Definition AttrFresh (f : farm) : Prop := forall k a, In (k, a) (f_attrs f) -> k < f_next f.

Lemma AttrFresh_same f f' : f_attrs f' = f_attrs f -> f_next f' = f_next f -> AttrFresh f -> AttrFresh f'.
Proof. intros A N H k a Hin. rewrite A in Hin. rewrite N. eauto. Qed.

Lemma mint_ut f a f' n (W : Z -> Z) : mint_pos f a (a_owner a) = (f', n) -> MI f -> AttrFresh f -> 0 <= a_amt a -> valid_id (a_owner a) ->
  (forall v, W v = wsum (ind f v) (f_out f)) ->
  (forall v, utot f v = W v + (if v =? a_owner a then a_amt a else 0)) -> UT f' /\ AttrFresh f'.
Proof.
  intros H M fr Ha Hd HW Hut.
  assert (Hfr' : AttrFresh f').
  { pose proof (mint_pos_MI _ _ _ _ _ H M Ha Hd) as (_ & _ & En & N' & A' & _).
    intros k a0 Hin. rewrite A' in Hin. apply in_app_or in Hin. rewrite N'. destruct Hin as [Hin|[Hin|[]]].
    - specialize (fr _ _ Hin). lia.
    - inversion Hin; subst. lia. }
  split; [|exact Hfr']. intros u.
  pose proof (mint_pos_MI _ _ _ _ _ H M Ha Hd) as (M' & SB & En & N' & A' & U' & O0 & O').
  assert (Hfresh : forall k a', In (k, a') (f_attrs f) -> k <> n).
  { intros k a' Hin. specialize (fr _ _ Hin). lia. }
  assert (Hold : forall k, In k (akeys (f_out f)) -> ind f' u k = ind f u k).
  { intros k Hk. unfold ind, owner_of. rewrite A'. rewrite find_attrs_app; [reflexivity|].
    destruct M as [_ _ _ frk _ _ _]. specialize (frk _ Hk). lia. }
  assert (Hnew : ind f' u n = if a_owner a =? u then 1 else 0).
  { unfold ind, owner_of. rewrite A'. rewrite find_attrs_app_new by assumption. reflexivity. }
  unfold utot. rewrite U'. fold (utot f u). rewrite Hut, HW. rewrite O'. rewrite Hnew.
  rewrite (wsum_ext (ind f' u) (ind f u)) by assumption.
  destruct (a_owner a =? u) eqn:E.
  - apply Z.eqb_eq in E. subst u. rewrite Z.eqb_refl. lia.
  - destruct (u =? a_owner a) eqn:E2; [apply Z.eqb_eq in E2; subst; rewrite Z.eqb_refl in E; discriminate | lia].
Qed.

(** state right after the position payments: totals still count what was paid in *)
Lemma pay_all_ut f c ps f1 : pay_all f c ps = Ok f1 -> MI f -> UT f ->
  (forall v, utot f1 v = wsum (ind f1 v) (f_out f1) + psum (ind f1 v) ps) /\
  Forall (fun p : Z * Z => 0 < snd p) ps /\ f_attrs f1 = f_attrs f /\ f_next f1 = f_next f /\ MI f1.
Proof.
  intros H M U. apply pay_all_MI in H; auto. destruct H as (M1 & SB1 & N1 & A1 & U1 & O1 & Pos1 & K1).
  split; [|split; [eapply Forall_impl; [|exact Pos1]; intros ? [? _]; assumption | auto]].
  intros v. unfold utot. rewrite U1. fold (utot f v). rewrite U.
  rewrite (O1 (ind f1 v)).
  rewrite (wsum_ext (ind f v) (ind f1 v)) by (intros k _; symmetry; apply ind_ext; exact A1). lia.
Qed.

Lemma W_nonneg f v : MI f -> 0 <= wsum (ind f v) (f_out f).
Proof. intros [_ (_ & _ & NN & _) _ _ _ _ _]. apply wsum_nonneg; [assumption | intros; apply ind_nonneg]. Qed.

(** the common tail: paid-in positions re-attributed to [c], then [extra] more credited to [c],
    then a position of amount (sum + extra) minted for [c] *)
Lemma pay_check_mint f c ps f1 h f2 g m g' n extra :
  pay_all f c ps = Ok f1 ->
  (* h: the state check_update runs on; same token ledger as right after the payments *)
  MI h -> f_attrs h = f_attrs f1 -> f_out h = f_out f1 -> f_utot h = f_utot f1 -> f_next h = f_next f1 ->
  check_update h c ps = Ok f2 ->
  MI f -> UT f -> AttrFresh f -> valid_id c ->
  (* g: the state just before minting; same token ledger as f2 except that c's total got [extra] more *)
  MI g -> f_attrs g = f_attrs f2 -> f_out g = f_out f2 -> f_next g = f_next f2 ->
  (forall v, utot g v = utot f2 v + (if v =? c then extra else 0)) -> 0 <= extra ->
  a_owner m = c -> a_amt m = psum (fun _ => 1) ps + extra ->
  mint_pos g m c = (g', n) -> UT g' /\ AttrFresh g'.
Proof.
  intros H1 Mh Ah Oh Uh Nh H2 M U fr Hc Mg Ag Og Ng Hug Hex Hmo Hma Hmint.
  pose proof (pay_all_ut _ _ _ _ H1 M U) as (Hut1 & Hpos & At1 & Nx1 & M1).
  assert (Hind : forall v k, ind h v k = ind f1 v k) by (intros v k; apply ind_ext; exact Ah).
  pose proof (check_update_ut ps h c f2 (fun v => wsum (ind f1 v) (f_out f1)) 0 H2 Hpos
                ltac:(intros v; unfold utot; rewrite Uh; fold (utot f1 v); rewrite Hut1;
                      rewrite (psum_ext (ind h v) (ind f1 v)) by (intros k; apply Hind); destruct (v =? c); lia)
                ltac:(intros v; apply W_nonneg; assumption) ltac:(lia)) as Hut2.
  apply check_update_only in H2. destruct H2 as (SB2 & Nx2 & At2 & Hd2 & Ou2).
  assert (Hps : 0 <= psum (fun _ => 1) ps) by (apply psum1_nonneg; assumption).
  rewrite <- Hmo in Hmint.
  apply (mint_ut g m g' n (fun v => wsum (ind f1 v) (f_out f1))) in Hmint; auto.
  - apply (AttrFresh_same f g); [congruence | congruence | exact fr].
  - lia.
  - rewrite Hmo. exact Hc.
  - intros v. rewrite Og, Ou2, Oh. apply wsum_ext. intros k _. symmetry. apply ind_ext. congruence.
  - intros v. rewrite Hug, Hut2, Hmo, Hma. destruct (v =? c); lia.
Qed.

Lemma UT_only_core f f' : f_attrs f' = f_attrs f -> f_out f' = f_out f -> f_utot f' = f_utot f -> f_next f' = f_next f ->
  UT f /\ AttrFresh f -> UT f' /\ AttrFresh f'.
Proof. intros A O U N [H1 H2]. split; [eapply UT_same; eauto | eapply AttrFresh_same; eauto]. Qed.

Lemma ep_enter_ut f blk ep c amt adds b f' o :
  ep_enter f blk ep c amt adds b = Ok (f', o) -> FarmAcc f -> UT f /\ AttrFresh f -> valid_id c -> UT f' /\ AttrFresh f'.
Proof.
  unfold ep_enter. intros H [M out prin] [U fr] Hc.
  destruct (0 <? amt) eqn:Ea; [|discriminate]. apply Z.ltb_lt in Ea.
  apply bind_ok in H. destruct H as (f0 & H0 & H).
  destruct (active f0); [|discriminate].
  apply bind_ok in H. destruct H as (f1 & H1 & H).
  apply bind_ok in H. destruct H as (f2 & H2 & H).
  apply bind_ok in H. destruct H as (f4 & H4 & H).
  apply bind_ok in H. destruct H as (m & Hm & H).
  destruct (mint_pos _ m c) as [f6 n] eqn:Hmint. inversion H; subst; clear H.
  apply pay_reward_MI in H0; auto. destruct H0 as (M0 & _ & _ & T0 & _).
  destruct (toks_fields _ _ T0) as (Nx0 & At0 & Ou0).
  assert (Ut0 : f_utot f0 = f_utot f) by (unfold toks in T0; injection T0; intros; assumption).
  destruct (UT_only_core f f0 At0 Ou0 Ut0 Nx0 (conj U fr)) as [U0 fr0].
  pose proof H1 as H1'. apply pay_all_MI in H1'; auto. destruct H1' as (M1 & _).
  pose proof H2 as H2'. apply check_update_only in H2'. pose proof (only_utot_MI _ _ H2' M1) as M2.
  pose proof (set_utot_only f2 c (utot f2 c + amt)) as H3. fold (increase_user f2 c amt) in H3.
  pose proof (only_utot_MI _ _ H3 M2) as M3.
  apply settle_MI in H4; auto. destruct H4 as (M4 & _ & _ & T4 & S4 & _).
  destruct (toks_fields _ _ T4) as (Nx4 & At4 & Ou4).
  assert (Ut4 : f_utot f4 = f_utot (increase_user f2 c amt)) by (unfold toks in T4; injection T4; intros; assumption).
  assert (Hs4 : 0 <= f_supply f4) by (destruct M4 as [_ _ _ _ _ _ (_ & _ & _ & X & _)]; exact X).
  pose proof (upd_supply_MI f4 (f_supply f4 + amt) M4 ltac:(lia)) as M5.
  set (f5 := upd_core f4 (f_supply f4 + amt) (f_reserve f4) (f_rps f4) (f_last f4)) in *.
  apply merge_payments_amt in Hm. simpl in Hm. destruct Hm as [Hm Hmo].
  assert (E5 : f_attrs f5 = f_attrs f2 /\ f_out f5 = f_out f2 /\ f_next f5 = f_next f2).
  { unfold f5. simpl. rewrite At4, Ou4, Nx4. repeat split; reflexivity. }
  destruct E5 as (E5a & E5o & E5n).
  assert (E5u : forall v, utot f5 v = utot f2 v + (if v =? c then amt else 0)).
  { intros v. unfold utot, f5. simpl. rewrite Ut4. unfold increase_user, set_utot. simpl.
    destruct (Z.eq_dec v c) as [->|Hv].
    - rewrite aget_aset_same, Z.eqb_refl. unfold utot. lia.
    - rewrite aget_aset_other by congruence. destruct (v =? c) eqn:E; [apply Z.eqb_eq in E; congruence | lia]. }
  destruct (pay_check_mint f0 c adds f1 f1 f2 f5 m f6 n amt H1 M1 eq_refl eq_refl eq_refl eq_refl H2 M0 U0 fr0 Hc M5 E5a E5o E5n E5u ltac:(lia) Hmo ltac:(lia) Hmint) as [U6 fr6].
  apply (UT_only_core f6 _); auto.
Qed.

Lemma ep_claim_ut f blk ep c first adds b f' o :
  ep_claim f blk ep c first adds b = Ok (f', o) -> FarmAcc f -> UT f /\ AttrFresh f -> valid_id c -> UT f' /\ AttrFresh f'.
Proof.
  unfold ep_claim. intros H [M out prin] [U fr] Hc.
  destruct (active f); [|discriminate].
  apply bind_ok in H. destruct H as (f1 & H1 & H).
  apply bind_ok in H. destruct H as (f2 & H2 & H).
  apply bind_ok in H. destruct H as (a & Ha & H).
  apply bind_ok in H. destruct H as (part & Hpart & H).
  apply bind_ok in H. destruct H as (base & Hbase & H).
  apply bind_ok in H. destruct H as (f3 & H3 & H).
  apply bind_ok in H. destruct H as (f4 & H4 & H).
  apply bind_ok in H. destruct H as (m & Hm & H).
  destruct (mint_pos f4 m c) as [f5 n] eqn:Hmint. inversion H; subst; clear H.
  pose proof H1 as H1'. apply pay_all_MI in H1'; auto. destruct H1' as (M1 & _).
  apply settle_MI in H2; auto. destruct H2 as (M2 & _ & _ & T2 & _).
  destruct (toks_fields _ _ T2) as (Nx2 & At2 & Ou2).
  assert (Ut2 : f_utot f2 = f_utot f1) by (unfold toks in T2; injection T2; intros; assumption).
  apply pay_reward_MI in H3; auto. destruct H3 as (M3 & _ & _ & T3 & _).
  destruct (toks_fields _ _ T3) as (Nx3 & At3 & Ou3).
  assert (Ut3 : f_utot f3 = f_utot f2) by (unfold toks in T3; injection T3; intros; assumption).
  pose proof H4 as H4'. apply check_update_only in H4'. pose proof (only_utot_MI _ _ H4' M3) as M4.
  apply into_part_amt in Hpart. destruct Hpart as (Pa & _).
  apply merge_payments_amt in Hm. cbn [a_amt a_owner] in Hm. destruct Hm as [Hm Hmo].
  destruct first as [n0 x0]. cbn [fst snd] in *.
  apply (pay_check_mint f c ((n0, x0) :: adds) f1 f3 f4 f4 m f' n 0 H1 M3 ltac:(congruence) ltac:(congruence) ltac:(congruence) ltac:(congruence) H4 M U fr Hc M4 eq_refl eq_refl eq_refl); auto.
  - intros v. destruct (v =? c); lia.
  - lia.
  - cbn [psum]. lia.
Qed.

Lemma ep_merge_ut f blk ep c ps b f' o :
  ep_merge f blk ep c ps b = Ok (f', o) -> FarmAcc f -> UT f /\ AttrFresh f -> valid_id c -> UT f' /\ AttrFresh f'.
Proof.
  unfold ep_merge. intros H [M out prin] [U fr] Hc.
  destruct (active f); [|discriminate].
  destruct ps as [|first rest]; [discriminate|].
  apply bind_ok in H. destruct H as (f0 & H0 & H).
  apply bind_ok in H. destruct H as (f1 & H1 & H).
  apply bind_ok in H. destruct H as (f2 & H2 & H).
  apply bind_ok in H. destruct H as (a & Ha & H).
  apply bind_ok in H. destruct H as (part & Hpart & H).
  apply bind_ok in H. destruct H as (m0 & Hm & H).
  cbv zeta in H.
  destruct (mint_pos f2 _ c) as [f3 n] eqn:Hmint. inversion H; subst; clear H.
  apply pay_reward_MI in H0; auto. destruct H0 as (M0 & _ & _ & T0 & _).
  destruct (toks_fields _ _ T0) as (Nx0 & At0 & Ou0).
  assert (Ut0 : f_utot f0 = f_utot f) by (unfold toks in T0; injection T0; intros; assumption).
  destruct (UT_only_core f f0 At0 Ou0 Ut0 Nx0 (conj U fr)) as [U0 fr0].
  pose proof H1 as H1'. apply pay_all_MI in H1'; auto. destruct H1' as (M1 & _).
  pose proof H2 as H2'. apply check_update_only in H2'. pose proof (only_utot_MI _ _ H2' M1) as M2.
  apply into_part_amt in Hpart. destruct Hpart as (Pa & _).
  apply merge_payments_amt in Hm. destruct Hm as [Hm _].
  destruct first as [n0 x0]. cbn [fst snd] in *.
  apply (pay_check_mint f0 c ((n0, x0) :: rest) f1 f1 f2 f2 (mkAttrs (a_rps m0) (a_epoch m0) (a_comp m0) (a_amt m0) c) f' n 0 H1 M1 eq_refl eq_refl eq_refl eq_refl H2 M0 U0 fr0 Hc M2 eq_refl eq_refl eq_refl); auto.
  - intros v. destruct (v =? c); lia.
  - lia.
  - cbn [psum a_amt]. lia.
Qed.

Lemma ep_compound_ut f blk ep c first adds b f' o :
  ep_compound f blk ep c first adds b = Ok (f', o) -> FarmAcc f -> Solv f -> UT f /\ AttrFresh f -> valid_id c -> UT f' /\ AttrFresh f'.
Proof.
  unfold ep_compound. intros H [M out prin] [AI CV] [U fr] Hc.
  destruct (active f); [|discriminate]. destruct (f_same f); [|discriminate].
  apply bind_ok in H. destruct H as (f1 & H1 & H).
  apply bind_ok in H. destruct H as (f2 & H2 & H).
  apply bind_ok in H. destruct H as (a & Ha & H).
  apply bind_ok in H. destruct H as (part & Hpart & H).
  apply bind_ok in H. destruct H as (base & Hbase & H).
  cbv zeta in H.
  apply bind_ok in H. destruct H as (f3 & H3 & H).
  apply bind_ok in H. destruct H as (f4 & H4 & H).
  apply bind_ok in H. destruct H as (m & Hm & H).
  destruct (mint_pos f4 m c) as [f5 n] eqn:Hmint. inversion H; subst; clear H.
  (* the minted amount includes the compounded reward, credited to c only afterwards: reorder by
     crediting first (totals are a map; the two updates commute) *)
  pose proof H1 as H1'. apply pay_all_MI in H1'; auto. destruct H1' as (M1 & SB1 & N1 & A1 & U1 & O1 & Pos1 & K1).
  pose proof H2 as H2'. apply settle_MI in H2'; auto. destruct H2' as (M2 & _ & _ & T2 & _ & _ & _ & _ & tm & cut & inc & _ & Hinc & _ & _ & R2 & _).
  destruct (toks_fields _ _ T2) as (Nx2 & At2 & Ou2).
  assert (Ut2 : f_utot f2 = f_utot f1) by (unfold toks in T2; injection T2; intros; assumption).
  assert (Hb0 : 0 <= base).
  { apply get_attrs_some in Ha. apply into_part_amt in Hpart. destruct Hpart as (Pa & Pr & _).
    assert (Hx : 0 < snd first) by (inversion Pos1; subst; tauto).
    unfold base_reward in Hbase. destruct (a_rps part <? f_rps f2) eqn:E; [|inversion Hbase; lia].
    apply div_chk_ok in Hbase. destruct Hbase as [_ ->]. apply Z.ltb_lt in E.
    apply div_nonneg; [nia | apply dsc_pos; assumption]. }
  apply pay_reward_MI in H3; auto. destruct H3 as (M3 & _ & _ & T3 & S3 & _ & _ & _ & _ & Hb & _).
  destruct (toks_fields _ _ T3) as (Nx3 & At3 & Ou3).
  assert (Ut3 : f_utot f3 = f_utot f2) by (unfold toks in T3; injection T3; intros; assumption).
  assert (Hs3 : 0 <= f_supply f3) by (destruct M3 as [_ _ _ _ _ _ (_ & _ & _ & X & _)]; exact X).
  pose proof (upd_supply_MI f3 (f_supply f3 + (base + b)) M3 ltac:(lia)) as M3'.
  set (f3' := upd_core f3 (f_supply f3 + (base + b)) (f_reserve f3) (f_rps f3) (f_last f3)) in *.
  pose proof H4 as H4'. apply check_update_only in H4'. pose proof (only_utot_MI _ _ H4' M3') as M4.
  apply into_part_amt in Hpart. destruct Hpart as (Pa & _).
  apply merge_payments_amt in Hm. cbn [a_amt a_owner] in Hm. destruct Hm as [Hm Hmo].
  destruct first as [n0 x0]. cbn [fst snd] in *.
  (* mint on g := f4 with c credited (base+b) first; then show the actual order gives the same state's totals *)
  set (r := base + b) in *.
  set (g := increase_user f4 c r).
  assert (Mg : MI g) by (apply (only_utot_MI f4 g); [apply set_utot_only | exact M4]).
  destruct (mint_pos g m c) as [g' n'] eqn:Hmg.
  assert (Hres : UT g' /\ AttrFresh g').
  { apply (pay_check_mint f c ((n0, x0) :: adds) f1 f3' f4 g m g' n' r H1 M3' ltac:(unfold f3'; simpl; congruence) ltac:(unfold f3'; simpl; congruence) ltac:(unfold f3'; simpl; congruence) ltac:(unfold f3'; simpl; congruence) H4 M U fr Hc Mg eq_refl eq_refl eq_refl); auto.
    - intros v. unfold g, increase_user, utot, set_utot. simpl.
      destruct (Z.eq_dec v c) as [->|Hv].
      + rewrite aget_aset_same, Z.eqb_refl. reflexivity.
      + rewrite aget_aset_other by congruence. destruct (v =? c) eqn:E; [apply Z.eqb_eq in E; congruence | lia].
    - lia.
    - cbn [psum]. lia. }
  (* f' (credit after mint) and g' (credit before mint) have the same attrs, out, next and totals *)
  unfold mint_pos in Hmint, Hmg. inversion Hmint; subst f5 n; clear Hmint. inversion Hmg; subst g' n'; clear Hmg.
  destruct Hres as [Ug frg]. split.
  - intros u. specialize (Ug u). unfold utot, ind, owner_of, increase_user, set_utot, g in *. simpl in *. exact Ug.
  - intros k a0 Hin. specialize (frg k a0). simpl in *. apply frg. exact Hin.
Qed.

Lemma ep_exit_ut f blk ep c p b f' o :
  ep_exit f blk ep c p b = Ok (f', o) -> FarmAcc f -> UT f /\ AttrFresh f -> valid_id c -> UT f' /\ AttrFresh f'.
Proof.
  unfold ep_exit. intros H [M out prin] [U fr] Hc.
  destruct (active f); [|discriminate].
  apply bind_ok in H. destruct H as (f1 & H1 & H).
  apply bind_ok in H. destruct H as (f2 & H2 & H).
  apply bind_ok in H. destruct H as (a & Ha & H).
  apply bind_ok in H. destruct H as (part & Hpart & H).
  apply bind_ok in H. destruct H as (base & Hbase & H).
  apply bind_ok in H. destruct H as (f3 & H3 & H).
  apply bind_ok in H. destruct H as (f4 & H4 & H).
  apply bind_ok in H. destruct H as (sup & Hsup & H).
  cbv zeta in H.
  apply bind_ok in H. destruct H as (age & Hage & H).
  apply bind_ok in H. destruct H as (outp & Hout & H).
  apply bind_ok in H. destruct H as (bal & Hbal & H).
  inversion H; subst; clear H.
  assert (H1' : pay_all f c [p] = Ok f1) by (simpl; rewrite H1; reflexivity).
  pose proof (pay_all_ut _ _ _ _ H1' M U) as (Hut1 & Hpos & At1 & Nx1 & M1).
  apply settle_MI in H2; auto. destruct H2 as (M2 & _ & _ & T2 & _).
  destruct (toks_fields _ _ T2) as (Nx2 & At2 & Ou2).
  assert (Ut2 : f_utot f2 = f_utot f1) by (unfold toks in T2; injection T2; intros; assumption).
  apply pay_reward_MI in H3; auto. destruct H3 as (M3 & _ & _ & T3 & _).
  destruct (toks_fields _ _ T3) as (Nx3 & At3 & Ou3).
  assert (Ut3 : f_utot f3 = f_utot f2) by (unfold toks in T3; injection T3; intros; assumption).
  destruct p as [n0 x0]. cbn [fst snd] in *.
  inversion Hpos as [|? ? Hx0 _]; subst. cbn [snd] in Hx0.
  unfold decrease_user in H4. apply bind_ok in H4. destruct H4 as (a' & Ha' & H4).
  inversion H4; subst f4; clear H4.
  assert (Hown : owner_of f1 n0 = a_owner a').
  { unfold owner_of. unfold get_attrs in Ha'. rewrite At3, At2 in Ha'. destruct (find_attrs (f_attrs f1) n0); inversion Ha'; reflexivity. }
  set (ow := a_owner a') in *.
  assert (Huo : utot f3 ow = wsum (ind f1 ow) (f_out f1) + x0).
  { unfold utot. rewrite Ut3, Ut2. fold (utot f1 ow). rewrite Hut1. cbn [psum]. unfold ind at 2. rewrite Hown. fold ow. rewrite Z.eqb_refl. lia. }
  assert (HW : 0 <= wsum (ind f1 ow) (f_out f1)) by (apply W_nonneg; assumption).
  set (f4 := if x0 <? utot f3 ow then set_utot f3 ow (utot f3 ow - x0) else set_utot f3 ow 0) in *.
  assert (Hf4o : utot f4 ow = utot f3 ow - x0).
  { unfold f4. destruct (x0 <? utot f3 ow) eqn:E; rewrite utot_set_same; [reflexivity|]. apply Z.ltb_ge in E. lia. }
  assert (Hf4w : forall w, w <> ow -> utot f4 w = utot f3 w).
  { intros w Hw. unfold f4. destruct (x0 <? utot f3 ow); apply utot_set_other; congruence. }
  assert (E4 : f_attrs f4 = f_attrs f1 /\ f_out f4 = f_out f1 /\ f_next f4 = f_next f1).
  { unfold f4. destruct (x0 <? utot f3 ow); simpl; repeat split; congruence. }
  destruct E4 as (E4a & E4o & E4n).
  assert (Hall : forall u, utot f4 u = wsum (ind f1 u) (f_out f1)).
  { intros u. destruct (Z.eq_dec u ow) as [->|Hu].
    - rewrite Hf4o, Huo. lia.
    - rewrite (Hf4w u Hu). unfold utot. rewrite Ut3, Ut2. fold (utot f1 u). rewrite Hut1. cbn [psum].
      unfold ind at 2. rewrite Hown. fold ow. destruct (ow =? u) eqn:E; [apply Z.eqb_eq in E; congruence | lia]. }
  split.
  - intros u.
    match goal with |- utot ?F u = wsum (ind ?F u) (f_out ?F) =>
      assert (EA : f_attrs F = f_attrs f1) by (simpl; exact E4a);
      assert (EO : f_out F = f_out f1) by (simpl; exact E4o);
      assert (EU : utot F u = utot f4 u) by reflexivity
    end.
    rewrite EU, EO, Hall. apply wsum_ext. intros k _. symmetry. apply ind_ext. exact EA.
  - intros k a0 Hin.
    match goal with |- k < f_next ?F =>
      assert (EA : f_attrs F = f_attrs f1) by (simpl; exact E4a);
      assert (EN : f_next F = f_next f1) by (simpl; exact E4n)
    end.
    rewrite EA, At1 in Hin. rewrite EN, Nx1. eauto.
Qed.

Lemma fstep_ut f op f' o : fstep f op = Ok (f', o) -> FarmAcc f -> Solv f -> UT f /\ AttrFresh f -> valid_op op ->
  UT f' /\ AttrFresh f'.
Proof.
  intros H A S K V. destruct op; simpl in H, V.
  - eapply ep_enter_ut; eauto.
  - eapply ep_claim_ut; eauto.
  - eapply ep_compound_ut; eauto.
  - eapply ep_exit_ut; eauto.
  - eapply ep_merge_ut; eauto.
  - (* ClaimBoosted *) unfold ep_claim_boosted in H.
    destruct (negb (utot f c =? 0)); [|discriminate]. destruct (active f); [|discriminate].
    apply bind_ok in H. destruct H as (f1 & H1 & H).
    apply bind_ok in H. destruct H as (f2 & H2 & H). inversion H; subst; clear H.
    destruct A as [M _ _].
    apply settle_MI in H1; auto. destruct H1 as (M1 & _ & _ & T1 & _).
    apply pay_reward_MI in H2; auto. destruct H2 as (M2 & _ & _ & T2 & _).
    unfold toks in T1, T2. injection T1; intros. injection T2; intros.
    apply (UT_only_core f f'); auto; congruence.
  - (* Transfer *) unfold ep_transfer in H.
    apply bind_ok in H. destruct H as (f1 & H1 & H). inversion H; subst; clear H.
    destruct A as [M _ _]. apply debit_held_MI in H1; auto. destruct H1 as (SB & N1 & A1 & U1 & O1 & _ & _).
    apply (UT_only_core f _); simpl; auto.
  - destruct (admin c); [|discriminate]. destruct (_ && _); [|discriminate].
    apply bind_ok in H. destruct H as (f1 & H1 & H). inversion H; subst; clear H.
    destruct A as [M _ _]. apply settle_MI in H1; auto. destruct H1 as (M1 & _ & _ & T1 & _).
    unfold toks in T1. injection T1; intros. apply (UT_only_core f _); simpl; auto.
  - destruct (admin c); [|discriminate]. destruct (negb (f_rate f =? 0)); [|discriminate].
    destruct (negb (f_produce f)); [|discriminate]. inversion H; subst; clear H.
    apply (UT_only_core f _); simpl; auto.
  - destruct (admin c); [|discriminate].
    apply bind_ok in H. destruct H as (f1 & H1 & H). inversion H; subst; clear H.
    destruct A as [M _ _]. apply settle_MI in H1; auto. destruct H1 as (M1 & _ & _ & T1 & _).
    unfold toks in T1. injection T1; intros. apply (UT_only_core f _); simpl; auto.
  - destruct (admin c); [|discriminate]. destruct (_ && _); [|discriminate].
    apply bind_ok in H. destruct H as (f1 & H1 & H). inversion H; subst; clear H.
    destruct A as [M _ _]. apply settle_MI in H1; auto. destruct H1 as (M1 & _ & _ & T1 & _).
    unfold toks in T1. injection T1; intros. apply (UT_only_core f _); simpl; auto.
  - destruct (admin c); [|discriminate]. inversion H; subst. apply (UT_only_core f _); simpl; auto.
  - destruct (admin c); [|discriminate]. destruct (_ || _); [|discriminate]. inversion H; subst. apply (UT_only_core f _); simpl; auto.
  - destruct (admin c); [|discriminate]. destruct (_ && _); [|discriminate]. inversion H; subst. apply (UT_only_core f _); simpl; auto.
  - destruct (admin c); [|discriminate]. destruct (_ && _); [|discriminate]. inversion H; subst. apply (UT_only_core f _); simpl; auto.
  - destruct (0 <? amt); [|discriminate]. inversion H; subst. apply (UT_only_core f _); simpl; auto.
Qed.

Lemma frun_ut ops : forall f, FarmOK f -> UT f /\ AttrFresh f -> Forall valid_op ops -> UT (frun f ops).
Proof.
  induction ops as [|op t IH]; intros f K U V; simpl; [tauto|].
  inversion V; subst. unfold fstep_total. destruct (fstep f op) as [[f' o]|] eqn:E.
  - apply IH; auto.
    + apply fstep_ok in E; auto. tauto.
    + destruct K as (A & S & _). eapply fstep_ut; eauto.
  - apply IH; auto.
Qed.

Lemma init_ut dsc same : UT (init_farm dsc same) /\ AttrFresh (init_farm dsc same).
Proof. split; [intros u; reflexivity | intros k a []]. Qed.
