(** Proofs about [Model.Boosted] (property C11).
    Part A: the 5-slot factor register refines a week -> factors map.
    Part B: get_user_rewards_for_week against the documented formula.
    Part C: one claim: window, frame, per-week money summary.
    Part D: reachable states: progress / config / money invariants with a ghost ledger.
    Part E: at most once; pool; undistributed; conservation. *)
From MX Require Import Base.Prelude Gen.Params Model.Weekly Model.Boosted Proofs.WeeklyProofs.

Local Notation MAXW := USER_MAX_CLAIM_WEEKS.
Local Notation WK := EPOCHS_IN_WEEK.

Lemma nslots_eq : NSLOTS = MAXW + 1.
Proof. reflexivity. Qed.

Lemma nslots_pos : 1 <= NSLOTS.
Proof. rewrite nslots_eq. pose proof max_weeks_nonneg. lia. Qed.

Lemma collect_offset_eq : COLLECT_OFFSET = MAXW + 1.
Proof. reflexivity. Qed.

Global Opaque NSLOTS COLLECT_OFFSET.

(** ================================================================== Part A: the factor register *)

Lemma nth_skipn_ {A} (d : nat) : forall (l : list A) i x, nth i (skipn d l) x = nth (d + i) l x.
Proof.
  induction d as [|d IH]; intros l i x; simpl; [reflexivity|].
  destruct l as [|a l]; [destruct i; reflexivity | apply IH].
Qed.

Lemma nth_repeat_ {A} (a x : A) n i : (i < n)%nat -> nth i (repeat a n) x = a.
Proof.
  revert i. induction n as [|n IH]; intros i Hi; [lia|]. destruct i; simpl; [reflexivity | apply IH; lia].
Qed.

Lemma nth_firstn_ {A} (n : nat) : forall (l : list A) i x, (i < n)%nat -> nth i (firstn n l) x = nth i l x.
Proof.
  induction n as [|n IH]; intros l i x Hi; [lia|].
  destruct l as [|a l]; [destruct i; reflexivity|]. destruct i; simpl; [reflexivity | apply IH; lia].
Qed.

(** the abstract meaning: an accepted-settings log [(week, factors)] in call order on top of the
    factors of the very first call; the factors of week [w] are those of the last call made in a
    week <= w (weeks of calls are non-decreasing), the first call's for earlier weeks *)
Definition fac_at (f0 : factors) (log : list (Z * factors)) (w : Z) : factors :=
  fold_left (fun acc ev => if fst ev <=? w then snd ev else acc) log f0.

Lemma fac_at_snoc f0 log cw f w : fac_at f0 (log ++ [(cw, f)]) w = if cw <=? w then f else fac_at f0 log w.
Proof. unfold fac_at. rewrite fold_left_app. reflexivity. Qed.

Lemma fac_at_late f0 log L w : Forall (fun ev => fst ev <= L) log -> L <= w -> fac_at f0 log w = fac_at f0 log L.
Proof.
  unfold fac_at. revert f0. induction log as [|[k f] t IH]; intros f0 Hall Hw; simpl; [reflexivity|].
  inversion Hall as [|? ? Hk Ht]; subst. simpl in Hk.
  assert (E1 : (k <=? w) = true) by (apply Z.leb_le; lia).
  assert (E2 : (k <=? L) = true) by (apply Z.leb_le; lia).
  rewrite E1, E2. apply IH; assumption.
Qed.

(** slot [k] weeks back from [c_last] *)
Definition slot (c : bconfig) (k : Z) : factors := nth (Z.to_nat (NSLOTS - 1 - k)) (c_slots c) fac0.

Definition CInv (c : bconfig) (f0 : factors) (log : list (Z * factors)) : Prop :=
  length (c_slots c) = Z.to_nat NSLOTS /\
  Forall (fun ev => fst ev <= c_last c) log /\
  forall k, 0 <= k < NSLOTS -> slot c k = fac_at f0 log (c_last c - k).

Lemma cfg_new_inv cw f : CInv (cfg_new cw f) f [].
Proof.
  pose proof nslots_pos as HN. unfold CInv, cfg_new, slot; simpl.
  split; [apply repeat_length|]. split; [constructor|].
  intros k Hk. apply nth_repeat_. lia.
Qed.

Lemma last_slot_slot c : last_slot c = slot c 0.
Proof. unfold last_slot, slot. rewrite Z.sub_0_r. reflexivity. Qed.

(** one update (with or without new factors) keeps the refinement; the log grows by the accepted call *)
Lemma cfg_update_inv c f0 log cw nf c' :
  CInv c f0 log -> cfg_update c cw nf = Ok c' ->
  c_last c <= cw /\ c_last c' = cw /\
  CInv c' f0 (match nf with Some f => log ++ [(cw, f)] | None => log end).
Proof.
  intros (Hlen & Hall & Hsl) Hu. pose proof nslots_pos as HN. unfold cfg_update in Hu.
  destruct (c_last c <=? cw) eqn:El; [|discriminate]. apply Z.leb_le in El. split; [exact El|].
  set (d := Z.min (cw - c_last c) NSLOTS) in *.
  assert (Hd : 0 <= d <= NSLOTS) by (unfold d; lia).
  assert (Hlast : last_slot c = fac_at f0 log (c_last c)).
  { rewrite last_slot_slot, Hsl by lia. f_equal. lia. }
  destruct (d =? 0) eqn:Ed.
  - apply Z.eqb_eq in Ed. assert (Hcw : cw = c_last c) by (unfold d in Ed; lia).
    inversion Hu; subst c'; clear Hu. destruct nf as [f|].
    + simpl. split; [symmetry; exact Hcw|]. unfold CInv; simpl.
      split; [rewrite app_length, firstn_length_le by lia; simpl; lia|].
      split; [apply Forall_app; split; [exact Hall | constructor; [simpl; lia | constructor]]|].
      intros k Hk. unfold slot; simpl. rewrite fac_at_snoc.
      destruct (Z.eq_dec k 0) as [->|Hk0].
      * rewrite app_nth2 by (rewrite firstn_length_le by lia; lia).
        rewrite firstn_length_le by lia. replace (Z.to_nat (NSLOTS - 1 - 0) - Z.to_nat (NSLOTS - 1))%nat with 0%nat by lia.
        simpl. assert (E : (cw <=? c_last c - 0) = true) by (apply Z.leb_le; lia). rewrite E. reflexivity.
      * rewrite app_nth1 by (rewrite firstn_length_le by lia; lia).
        rewrite nth_firstn_ by lia.
        assert (E : (cw <=? c_last c - k) = false) by (apply Z.leb_gt; lia). rewrite E.
        apply (Hsl k Hk).
    + split; [symmetry; exact Hcw|]. split; [exact Hlen|]. split; [exact Hall | exact Hsl].
  - apply Z.eqb_neq in Ed. inversion Hu; subst c'; clear Hu. simpl. split; [reflexivity|].
    set (latest := match nf with Some f => f | None => last_slot c end).
    set (log' := match nf with Some f => log ++ [(cw, f)] | None => log end).
    assert (Hall' : Forall (fun ev => fst ev <= cw) log').
    { assert (H0 : Forall (fun ev => fst ev <= cw) log)
        by (eapply Forall_impl; [|exact Hall]; simpl; intros; lia).
      unfold log'. destruct nf; [apply Forall_app; split; [exact H0 | constructor; [simpl; lia | constructor]] | exact H0]. }
    assert (Hfac : forall w, w < cw -> fac_at f0 log' w = fac_at f0 log w).
    { intros w Hw. unfold log'. destruct nf; [|reflexivity]. rewrite fac_at_snoc.
      assert (E : (cw <=? w) = false) by (apply Z.leb_gt; lia). rewrite E. reflexivity. }
    assert (Hlatest : latest = fac_at f0 log' cw).
    { unfold latest, log'. destruct nf as [f|].
      - rewrite fac_at_snoc, Z.leb_refl. reflexivity.
      - rewrite Hlast. symmetry. apply fac_at_late; [exact Hall | lia]. }
    unfold CInv; simpl.
    assert (Hl1 : length (skipn (Z.to_nat d) (c_slots c)) = (Z.to_nat NSLOTS - Z.to_nat d)%nat)
      by (rewrite skipn_length, Hlen; reflexivity).
    split; [rewrite !app_length, Hl1, repeat_length; simpl; lia|].
    split; [exact Hall'|].
    intros k Hk. unfold slot; simpl.
    destruct (Z_lt_le_dec k d) as [Hkd|Hkd].
    + (* the refilled part *)
      rewrite app_nth2 by lia. rewrite Hl1.
      destruct (Z.eq_dec k 0) as [->|Hk0].
      * rewrite app_nth2 by (rewrite repeat_length; lia). rewrite repeat_length.
        replace (Z.to_nat (NSLOTS - 1 - 0) - (Z.to_nat NSLOTS - Z.to_nat d) - Z.to_nat (d - 1))%nat with 0%nat by lia.
        simpl. rewrite Z.sub_0_r. exact Hlatest.
      * rewrite app_nth1 by (rewrite repeat_length; lia).
        rewrite nth_repeat_ by lia. rewrite Hfac by lia. rewrite Hlast.
        symmetry. apply fac_at_late; [exact Hall | unfold d in Hkd; lia].
    + (* the shifted part: only when the register was not flushed completely *)
      assert (Hdd : d = cw - c_last c) by (unfold d in *; lia).
      rewrite app_nth1 by lia. rewrite nth_skipn_.
      replace (Z.to_nat d + Z.to_nat (NSLOTS - 1 - k))%nat with (Z.to_nat (NSLOTS - 1 - (k - d))) by lia.
      fold (slot c (k - d)). rewrite Hsl by lia. rewrite Hfac by lia. f_equal. lia.
Qed.

(** what the register answers for a week: exactly the abstract map, on exactly the last NSLOTS-1 completed weeks *)
Lemma get_factors_spec c f0 log w :
  CInv c f0 log ->
  (c_last c - NSLOTS < w < c_last c -> get_factors_for_week c w = Ok (fac_at f0 log w)) /\
  (forall fa, get_factors_for_week c w = Ok fa -> c_last c - NSLOTS < w < c_last c /\ fa = fac_at f0 log w).
Proof.
  intros (Hlen & Hall & Hsl). unfold get_factors_for_week. split.
  - intros Hw. assert (E1 : (w <? c_last c) = true) by (apply Z.ltb_lt; lia).
    assert (E2 : (c_last c - w <? NSLOTS) = true) by (apply Z.ltb_lt; lia). rewrite E1, E2.
    f_equal. fold (slot c (c_last c - w)). rewrite Hsl by lia. f_equal. lia.
  - intros fa Hg. destruct (w <? c_last c) eqn:E1; [|discriminate].
    destruct (c_last c - w <? NSLOTS) eqn:E2; [|discriminate].
    apply Z.ltb_lt in E1. apply Z.ltb_lt in E2. split; [lia|]. inversion Hg; subst.
    fold (slot c (c_last c - w)). rewrite Hsl by lia. f_equal. lia.
Qed.

(** a whole life of the register: creation, then any sequence of touches (None) and accepted settings (Some) *)
Fixpoint cfg_run (c : bconfig) (log : list (Z * factors)) (ops : list (Z * option factors))
  : result (bconfig * list (Z * factors)) :=
  match ops with
  | [] => Ok (c, log)
  | (cw, nf) :: t =>
      do c' <- cfg_update c cw nf;
      cfg_run c' (match nf with Some f => log ++ [(cw, f)] | None => log end) t
  end.

Lemma cfg_run_inv ops : forall c f0 log c' log',
  CInv c f0 log -> cfg_run c log ops = Ok (c', log') -> CInv c' f0 log'.
Proof.
  induction ops as [|[cw nf] t IH]; intros c f0 log c' log' Hi Hr; simpl in Hr.
  - inversion Hr; subst. exact Hi.
  - apply bind_ok in Hr. destruct Hr as (c1 & Hu & Hr).
    destruct (cfg_update_inv _ _ _ _ _ _ Hi Hu) as (_ & _ & Hi1). apply (IH _ _ _ _ _ Hi1 Hr).
Qed.

Lemma register_refines cw0 f0 ops c log w :
  cfg_run (cfg_new cw0 f0) [] ops = Ok (c, log) ->
  c_last c - NSLOTS < w < c_last c ->
  get_factors_for_week c w = Ok (fac_at f0 log w) /\ last_slot c = fac_at f0 log (c_last c).
Proof.
  intros Hr Hw. pose proof (cfg_run_inv _ _ _ _ _ _ (cfg_new_inv cw0 f0) Hr) as Hi.
  split; [apply (get_factors_spec _ _ _ _ Hi); exact Hw|].
  destruct Hi as (_ & _ & Hsl). pose proof nslots_pos. rewrite last_slot_slot, Hsl by lia. f_equal. lia.
Qed.

(** ================================================================== Part B: the hook *)
(** the documented amount, with the module's rounding (three floor divisions) *)
Definition boosted_amount (fa : factors) (R f F e E : Z) : Z :=
  Z.min (max_rewards fa R f F) ((by_energy fa R e E + by_tokens fa R f F) / (fa_ce fa + fa_cf fa)).

Definition rsum (r : list (Z * Z)) : Z := fold_right (fun p acc => snd p + acc) 0 r.

(** collect_and_get_rewards_for_week, explicitly *)
Lemma collect_and_get_cases cw h s w h1 s1 tot :
  b_collect_and_get cw h s w = Ok (h1, s1, tot) ->
  (rget (w_rewards s) w <> [] /\ tot = rget (w_rewards s) w /\ h1 = h /\ s1 = s) \/
  (rget (w_rewards s) w = [] /\ exists c c', bh_cfg h = Some c /\ cfg_update c cw None = Ok c' /\
     h1 = set_rem (set_acc (set_cfg h (Some c')) w 0) w (aget (bh_acc h) w) /\
     tot = [(RTOK, aget (bh_acc h) w)] /\ s1 = set_rewards s (rset (w_rewards s) w tot)).
Proof.
  unfold b_collect_and_get. destruct (rget (w_rewards s) w) as [|x l] eqn:Er.
  - intros Heq. right. split; [reflexivity|]. apply bind_ok in Heq. destruct Heq as ([h' r] & Hc & Heq).
    inversion Heq; subst; clear Heq. unfold b_collect in Hc. destruct (bh_cfg h) as [c|] eqn:Ec; [|discriminate].
    apply bind_ok in Hc. destruct Hc as (c' & Hu & Hc). inversion Hc; subst; clear Hc.
    exists c, c'. repeat split; assumption.
  - intros Heq. inversion Heq; subst. left. split; [discriminate|]. repeat split.
Qed.

(** get_user_rewards_for_week, explicitly *)
Lemma hook_cases pos cfg cw h s w e E h' s' r :
  boosted_hook pos cfg cw h s w e E = Ok (h', s', r) ->
  forall F, F = aget (bh_sup h) w ->
  (h' = h /\ s' = s /\ r = [] /\
     (E = 0 \/ F = 0 \/ exists fa, get_factors_for_week cfg w = Ok fa /\ (e < fa_mine fa \/ pos < fa_minf fa))) \/
  (exists fa h1 t R,
     E <> 0 /\ F <> 0 /\ get_factors_for_week cfg w = Ok fa /\ fa_mine fa <= e /\ fa_minf fa <= pos /\
     b_collect_and_get cw h s w = Ok (h1, s', [(t, R)]) /\
     ((r = [] /\ h' = h1 /\ (R = 0 \/ (R <> 0 /\ fa_ce fa + fa_cf fa <> 0 /\ boosted_amount fa R pos F e E <= 0))) \/
      (R <> 0 /\ fa_ce fa + fa_cf fa <> 0 /\ 0 < boosted_amount fa R pos F e E /\
       boosted_amount fa R pos F e E <= aget (bh_rem h1) w /\ r = [(t, boosted_amount fa R pos F e E)] /\
       h' = set_rem h1 w (aget (bh_rem h1) w - boosted_amount fa R pos F e E)))).
Proof.
  unfold boosted_hook. intros Heq F HF. rewrite <- HF in Heq.
  destruct ((E =? 0) || (F =? 0)) eqn:Ez.
  - inversion Heq; subst. left. repeat split. apply orb_true_iff in Ez. destruct Ez as [Ez|Ez]; apply Z.eqb_eq in Ez; auto.
  - apply orb_false_iff in Ez. destruct Ez as (E1 & E2). apply Z.eqb_neq in E1. apply Z.eqb_neq in E2.
    apply bind_ok in Heq. destruct Heq as (fa & Hfa & Heq).
    destruct ((e <? fa_mine fa) || (pos <? fa_minf fa)) eqn:Em.
    + inversion Heq; subst. left. repeat split. right. right. exists fa. split; [exact Hfa|].
      apply orb_true_iff in Em. destruct Em as [Em|Em]; apply Z.ltb_lt in Em; auto.
    + apply orb_false_iff in Em. destruct Em as (M1 & M2). apply Z.ltb_ge in M1. apply Z.ltb_ge in M2.
      apply bind_ok in Heq. destruct Heq as ([[h1 s1] tot] & Hc & Heq).
      destruct tot as [|[t R] [|y l]]; try discriminate.
      * (* an empty total is impossible: collect returns one payment, a stored total is non-empty *)
        exfalso. destruct (collect_and_get_cases _ _ _ _ _ _ _ Hc) as [(Hne & Ht & _)|(_ & c & c' & _ & _ & _ & Ht & _)];
          [apply Hne; symmetry; exact Ht | discriminate].
      * right. exists fa, h1, t, R.
        destruct (R =? 0) eqn:ER.
        -- apply Z.eqb_eq in ER. inversion Heq; subst. repeat split; try assumption. left. repeat split. left. reflexivity.
        -- apply Z.eqb_neq in ER. apply bind_ok in Heq. destruct Heq as (amt & Hd & Heq).
           apply div_chk_ok in Hd. destruct Hd as (Hc0 & ->).
           fold (boosted_amount fa R pos F e E) in Heq.
           destruct (0 <? boosted_amount fa R pos F e E) eqn:Ep.
           ++ apply Z.ltb_lt in Ep. apply bind_ok in Heq. destruct Heq as (rem & Hs & Heq).
              apply sub_chk_ok in Hs. destruct Hs as (Hle & ->). inversion Heq; subst.
              repeat split; try assumption. right. repeat split; assumption.
           ++ apply Z.ltb_ge in Ep. inversion Heq; subst. repeat split; try assumption.
              left. repeat split. right. repeat split; assumption.
Qed.

(** the amount against the documented rational value
      min (maxF*R*f/F) (R*(cE*e/E + cF*f/F)/(cE+cF)):
    never above it, and less than 1 below the cap or less than 1 + 2/(cE+cF) below the share (the
    three floor divisions), all cross-multiplied *)
Lemma boosted_amount_char fa R f F e E :
  0 < F -> 0 < E -> 0 < fa_ce fa + fa_cf fa -> 0 <= fa_ce fa -> 0 <= fa_cf fa -> 0 <= fa_max fa ->
  0 <= R -> 0 <= f -> 0 <= e ->
  let x := boosted_amount fa R f F e E in
  exists a be bt b,
    x = Z.min a b /\
    floor_of a (fa_max fa * R * f) F /\ floor_of be (R * fa_ce fa * e) E /\ floor_of bt (R * fa_cf fa * f) F /\
    floor_of b (be + bt) (fa_ce fa + fa_cf fa) /\
    0 <= x /\
    x * F <= fa_max fa * R * f /\
    x * ((fa_ce fa + fa_cf fa) * E * F) <= R * (fa_ce fa * e * F + fa_cf fa * f * E) /\
    (fa_max fa * R * f < (x + 1) * F \/
     R * (fa_ce fa * e * F + fa_cf fa * f * E) < ((x + 1) * (fa_ce fa + fa_cf fa) + 2) * (E * F)).
Proof.
  intros HF HE Hc Hce Hcf Hmx HR Hf He x. unfold boosted_amount, max_rewards, by_energy, by_tokens in x.
  set (mx := fa_max fa) in *. set (ce := fa_ce fa) in *. set (cf := fa_cf fa) in *.
  set (a := mx * R * f / F) in *. set (be := R * ce * e / E) in *. set (bt := R * cf * f / F) in *.
  set (b := (be + bt) / (ce + cf)) in *.
  exists a, be, bt, b.
  assert (Ha : floor_of a (mx * R * f) F) by (apply floor_of_div; exact HF).
  assert (Hbe : floor_of be (R * ce * e) E) by (apply floor_of_div; exact HE).
  assert (Hbt : floor_of bt (R * cf * f) F) by (apply floor_of_div; exact HF).
  assert (Hb : floor_of b (be + bt) (ce + cf)) by (apply floor_of_div; exact Hc).
  assert (Ha0 : 0 <= a) by (apply div_nonneg; [nia | exact HF]).
  assert (Hbe0 : 0 <= be) by (apply div_nonneg; [nia | exact HE]).
  assert (Hbt0 : 0 <= bt) by (apply div_nonneg; [nia | exact HF]).
  assert (Hb0 : 0 <= b) by (apply div_nonneg; [lia | exact Hc]).
  clearbody a be bt b. unfold floor_of in *.
  split; [reflexivity|]. split; [exact Ha|]. split; [exact Hbe|]. split; [exact Hbt|]. split; [exact Hb|].
  assert (Hxa : x <= a) by (unfold x; lia). assert (Hxb : x <= b) by (unfold x; lia).
  assert (Hx0 : 0 <= x) by (unfold x; lia).
  assert (Hx : x = a \/ x = b) by (unfold x; lia).
  clearbody x.
  set (N1 := R * ce * e) in *. set (N2 := R * cf * f) in *. set (N0 := mx * R * f) in *.
  assert (Hrhs : R * (ce * e * F + cf * f * E) = N1 * F + N2 * E) by (unfold N1, N2; ring).
  rewrite Hrhs. clearbody N1 N2 N0.
  split; [exact Hx0|]. split; [nia|].
  assert (HEF : 0 < E * F) by nia.
  assert (K1 : be * E * F <= N1 * F) by (apply Z.mul_le_mono_nonneg_r; lia).
  assert (K2 : bt * F * E <= N2 * E) by (apply Z.mul_le_mono_nonneg_r; lia).
  assert (K3 : b * (ce + cf) * (E * F) <= (be + bt) * (E * F)) by (apply Z.mul_le_mono_nonneg_r; lia).
  split.
  - assert (K4 : x * (ce + cf) * (E * F) <= b * (ce + cf) * (E * F)).
    { apply Z.mul_le_mono_nonneg_r; [lia|]. apply Z.mul_le_mono_nonneg_r; lia. }
    nia.
  - destruct Hx as [->| ->]; [left; lia|]. right.
    assert (L1 : N1 * F < (be + 1) * E * F) by (apply Z.mul_lt_mono_pos_r; lia).
    assert (L2 : N2 * E < (bt + 1) * F * E) by (apply Z.mul_lt_mono_pos_r; lia).
    assert (L3 : (be + bt) * (E * F) < (b + 1) * (ce + cf) * (E * F)) by (apply Z.mul_lt_mono_pos_r; lia).
    nia.
Qed.

(** ------------------------------------------------------------------ one hook call: frame and money *)
Definition acc_ (h : bhost) (w : Z) : Z := aget (bh_acc h) w.
Definition rem_ (h : bhost) (w : Z) : Z := aget (bh_rem h) w.
Definition rw_ (s : wstate) (w : Z) : list (Z * Z) := rget (w_rewards s) w.
Definition msum (h : bhost) : Z := asum (bh_acc h) + asum (bh_rem h).
Definition nd (h : bhost) : Prop := NoDup (akeys (bh_acc h)) /\ NoDup (akeys (bh_rem h)).

(** everything of the module's storage except the pools of week [w] and the stored config *)
Definition host_frame (w : Z) (h h' : bhost) : Prop :=
  bh_sup h' = bh_sup h /\ bh_und h' = bh_und h /\ bh_lastcol h' = bh_lastcol h /\ bh_pct h' = bh_pct h /\
  (forall w', w' <> w -> acc_ h' w' = acc_ h w' /\ rem_ h' w' = rem_ h w').

(** the stored config is left alone or replaced by itself brought to the current week *)
Definition cfg_step (cw : Z) (h h' : bhost) : Prop :=
  bh_cfg h' = bh_cfg h \/ exists c c', bh_cfg h = Some c /\ cfg_update c cw None = Ok c' /\ bh_cfg h' = Some c'.

Lemma host_frame_refl w h : host_frame w h h.
Proof. unfold host_frame. repeat split. Qed.

Lemma hook_effect pos cfg cw h s w e E h' s' r :
  boosted_hook pos cfg cw h s w e E = Ok (h', s', r) ->
  same_but_rewards s s' /\
  (forall w', w' <> w -> rw_ s' w' = rw_ s w') /\
  host_frame w h h' /\ cfg_step cw h h' /\
  (rw_ s' w = rw_ s w \/ (rw_ s w = [] /\ rw_ s' w = [(RTOK, acc_ h w)] /\ acc_ h' w = 0)) /\
  (rw_ s w <> [] -> acc_ h' w = acc_ h w) /\
  (rw_ s' w = [] -> h' = h /\ s' = s /\ r = []) /\
  0 <= rsum r /\
  ((rw_ s w = [] -> rem_ h w = 0) ->
     acc_ h' w + rem_ h' w + rsum r = acc_ h w + rem_ h w /\
     (nd h -> nd h' /\ msum h' + rsum r = msum h)) /\
  (0 <= acc_ h w -> 0 <= rem_ h w -> 0 <= acc_ h' w /\ 0 <= rem_ h' w).
Proof.
  intros Hh. destruct (hook_cases _ _ _ _ _ _ _ _ _ _ _ Hh _ eq_refl) as
      [(-> & -> & -> & _)|(fa & h1 & t & R & _ & _ & _ & _ & _ & Hc & Hpay)].
  - split; [apply sbr_refl|]. split; [reflexivity|]. split; [apply host_frame_refl|]. split; [left; reflexivity|].
    split; [left; reflexivity|]. split; [reflexivity|]. split; [intros; repeat split|]. split; [simpl; lia|].
    split; [intros _; split; [simpl; lia | intros Hn; split; [exact Hn | simpl; lia]] | intros; split; assumption].
  - (* facts about the collect step: h -> h1, s -> s' *)
    assert (Hcol :
      same_but_rewards s s' /\ (forall w', w' <> w -> rw_ s' w' = rw_ s w') /\ host_frame w h h1 /\ cfg_step cw h h1 /\
      rw_ s' w = [(t, R)] /\
      ((rw_ s w = [(t, R)] /\ h1 = h) \/
       (rw_ s w = [] /\ t = RTOK /\ R = acc_ h w /\ bh_acc h1 = aset (bh_acc h) w 0 /\ bh_rem h1 = aset (bh_rem h) w (acc_ h w)))).
    { destruct (collect_and_get_cases _ _ _ _ _ _ _ Hc) as [(Hne & Ht & -> & ->)|(He & c & c' & Hcfg & Hu & -> & Ht & ->)].
      - split; [apply sbr_refl|]. split; [reflexivity|]. split; [apply host_frame_refl|]. split; [left; reflexivity|].
        unfold rw_. rewrite <- Ht. split; [reflexivity|]. left. split; reflexivity.
      - inversion Ht; subst t R. split; [apply sbr_set_rewards|].
        split; [intros w' Hw'; unfold rw_; simpl; apply rget_rset_other; congruence|].
        split; [unfold host_frame, acc_, rem_; simpl; repeat split; intros; rewrite aget_aset_other by congruence; reflexivity|].
        split; [right; exists c, c'; repeat split; assumption|].
        split; [unfold rw_; simpl; apply rget_rset_same|].
        right. repeat split; assumption. }
    destruct Hcol as (Hsbr & Hoth & Hfr & Hcs & Hrw & Hcase).
    (* facts about the payment step: h1 -> h' *)
    assert (Hp : exists x, 0 <= x /\ rsum r = x /\ bh_acc h' = bh_acc h1 /\
                           bh_sup h' = bh_sup h1 /\ bh_und h' = bh_und h1 /\ bh_lastcol h' = bh_lastcol h1 /\
                           bh_pct h' = bh_pct h1 /\ bh_cfg h' = bh_cfg h1 /\
                           ((x = 0 /\ h' = h1) \/
                            (0 < x /\ x <= rem_ h1 w /\ bh_rem h' = aset (bh_rem h1) w (rem_ h1 w - x)))).
    { destruct Hpay as [(-> & -> & _)|(_ & _ & Hpos & Hle & -> & ->)].
      - exists 0. simpl. repeat split; try reflexivity; try lia. left. split; reflexivity.
      - eexists. split; [|split; [simpl; rewrite Z.add_0_r; reflexivity|]]; [lia|]. simpl.
        repeat split. right. repeat split; assumption. }
    destruct Hp as (x & Hx0 & Hrs & Pacc & Psup & Pund & Plc & Ppct & Pcfg & Hpx).
    assert (Hrem' : rem_ h' w = rem_ h1 w - x /\ (forall w', w' <> w -> rem_ h' w' = rem_ h1 w')).
    { destruct Hpx as [(-> & ->)|(_ & _ & Hr)]; [split; [lia | reflexivity]|].
      unfold rem_. rewrite Hr. split; [apply aget_aset_same | intros; apply aget_aset_other; congruence]. }
    destruct Hrem' as (Hremw & Hremo).
    assert (Hacc' : forall w', acc_ h' w' = acc_ h1 w') by (intros; unfold acc_; rewrite Pacc; reflexivity).
    destruct Hfr as (f1 & f2 & f3 & f4 & f5).
    split; [exact Hsbr|]. split; [exact Hoth|].
    split; [unfold host_frame; repeat split; try congruence;
            [rewrite Hacc'; apply (f5 w' H) | rewrite Hremo by exact H; apply (f5 w' H)]|].
    split; [destruct Hcs as [Hcs|(c & c' & c1 & c2 & c3)]; [left; congruence | right; exists c, c'; repeat split; congruence]|].
    rewrite Hrs.
    destruct Hcase as [(Hst & ->)|(Hemp & -> & -> & Lacc & Lrem)].
    + (* the total was already frozen *)
      split; [left; congruence|]. split; [intros _; apply Hacc'|].
      split; [intros Hn; rewrite Hrw in Hn; discriminate|]. split; [exact Hx0|].
      split.
      * intros _. rewrite Hacc', Hremw. split; [lia|]. intros (N1 & N2).
        destruct Hpx as [(-> & ->)|(_ & _ & Hr)]; [split; [split; assumption | lia]|].
        unfold nd, msum. rewrite Pacc, Hr. split; [split; [exact N1 | apply nodup_aset; exact N2]|].
        rewrite asum_aset by exact N2. unfold rem_. lia.
      * intros A0 M0. rewrite Hacc', Hremw. split; [exact A0|].
        destruct Hpx as [(-> & _)|(_ & Hle & _)]; lia.
    + (* first claim for the week: accumulated -> remaining *)
      assert (A1 : acc_ h1 w = 0) by (unfold acc_; rewrite Lacc; apply aget_aset_same).
      assert (M1 : rem_ h1 w = acc_ h w) by (unfold rem_; rewrite Lrem; apply aget_aset_same).
      split; [right; split; [exact Hemp | split; [exact Hrw | rewrite Hacc'; exact A1]]|].
      split; [intros Hn; contradiction|].
      split; [intros Hn; rewrite Hrw in Hn; discriminate|]. split; [exact Hx0|].
      split.
      * intros Hm0. specialize (Hm0 Hemp). rewrite Hacc', Hremw, A1, M1. split; [lia|]. intros (N1 & N2).
        assert (N1' : NoDup (akeys (bh_acc h1))) by (rewrite Lacc; apply nodup_aset; exact N1).
        assert (N2' : NoDup (akeys (bh_rem h1))) by (rewrite Lrem; apply nodup_aset; exact N2).
        assert (S1 : msum h1 = msum h).
        { unfold msum. rewrite Lacc, Lrem, !asum_aset by assumption. unfold acc_, rem_ in *. lia. }
        destruct Hpx as [(-> & ->)|(_ & _ & Hr)]; [split; [split; assumption | lia]|].
        unfold nd. rewrite Pacc, Hr. split; [split; [exact N1' | apply nodup_aset; exact N2']|].
        unfold msum in *. rewrite Pacc, Hr, asum_aset by exact N2'. unfold rem_ in *. lia.
      * intros A0 M0. rewrite Hacc', Hremw, A1, M1. split; [lia|].
        destruct Hpx as [(-> & _)|(_ & Hle & _)]; lia.
Qed.

(** ================================================================== Part C: one claim *)
Lemma hook_sbr pos cfg cw h s w e E h' s' r :
  boosted_hook pos cfg cw h s w e E = Ok (h', s', r) -> same_but_rewards s s'.
Proof. intros Hh. apply (hook_effect _ _ _ _ _ _ _ _ _ _ _ Hh). Qed.

(** boosted payments of one claim attributed to week [w] / in total *)
Definition wpaid (det : list (Z * list (Z * Z))) (w : Z) : Z :=
  fold_right (fun wr acc => (if fst wr =? w then rsum (snd wr) else 0) + acc) 0 det.

Lemma rsum_app a b : rsum (a ++ b) = rsum a + rsum b.
Proof. induction a as [|x a IH]; simpl; [reflexivity | rewrite IH; lia]. Qed.

Lemma pay_total_cons w r t : pay_total ((w, r) :: t) = rsum r + pay_total t.
Proof. unfold pay_total, flat_rewards. simpl. fold (rsum (r ++ concat (map snd t))). rewrite rsum_app. reflexivity. Qed.

Lemma pay_total_nil : pay_total [] = 0.
Proof. reflexivity. Qed.

Lemma wpaid_notin det w : ~ In w (map fst det) -> wpaid det w = 0.
Proof.
  induction det as [|[w0 r] t IH]; simpl; intros Hn; [reflexivity|].
  destruct (w0 =? w) eqn:E; [apply Z.eqb_eq in E; exfalso; apply Hn; left; exact E|].
  rewrite IH; [lia | intros Hi; apply Hn; right; exact Hi].
Qed.

Definition untouched (w : Z) (h : bhost) (s : wstate) (h' : bhost) (s' : wstate) : Prop :=
  acc_ h' w = acc_ h w /\ rem_ h' w = rem_ h w /\ rw_ s' w = rw_ s w.

(** effect of a claim on the pool of one of the weeks it processes, [x] being what it pays for it *)
Definition weff (w : Z) (h : bhost) (s : wstate) (h' : bhost) (s' : wstate) (x : Z) : Prop :=
  0 <= x /\
  (rw_ s' w = rw_ s w \/ (rw_ s w = [] /\ rw_ s' w = [(RTOK, acc_ h w)] /\ acc_ h' w = 0)) /\
  (rw_ s w <> [] -> acc_ h' w = acc_ h w) /\
  (rw_ s' w = [] -> acc_ h' w = acc_ h w /\ rem_ h' w = rem_ h w /\ x = 0) /\
  ((rw_ s w = [] -> rem_ h w = 0) -> acc_ h' w + rem_ h' w + x = acc_ h w + rem_ h w) /\
  (0 <= acc_ h w -> 0 <= rem_ h w -> 0 <= acc_ h' w /\ 0 <= rem_ h' w).

Lemma weff_pre w h s h1 s1 h' s' x : untouched w h s h1 s1 -> weff w h1 s1 h' s' x -> weff w h s h' s' x.
Proof. unfold untouched, weff. intros (-> & -> & ->) Hw. exact Hw. Qed.

Lemma weff_post w h s h1 s1 h' s' x : weff w h s h1 s1 x -> untouched w h1 s1 h' s' -> weff w h s h' s' x.
Proof. unfold untouched, weff. intros Hw (-> & -> & ->). exact Hw. Qed.

Lemma hook_weff pos cfg cw h s w e E h' s' r :
  boosted_hook pos cfg cw h s w e E = Ok (h', s', r) -> weff w h s h' s' (rsum r).
Proof.
  intros Hh. destruct (hook_effect _ _ _ _ _ _ _ _ _ _ _ Hh) as (_ & _ & _ & _ & H1 & H2 & H3 & H4 & H5 & H6).
  unfold weff. split; [exact H4|]. split; [exact H1|]. split; [exact H2|].
  split; [intros Hn; destruct (H3 Hn) as (-> & -> & ->); repeat split|].
  split; [intros Hm; apply (H5 Hm) | exact H6].
Qed.

(** preservation of any property of the stored config that survives bringing it to the current week *)
Definition cfg_pres (cw : Z) (h h' : bhost) : Prop :=
  forall P : option bconfig -> Prop,
    (forall c c', cfg_update c cw None = Ok c' -> P (Some c) -> P (Some c')) -> P (bh_cfg h) -> P (bh_cfg h').

Lemma cfg_step_pres cw h h' : cfg_step cw h h' -> cfg_pres cw h h'.
Proof.
  intros [Hc|(c & c' & H1 & H2 & H3)] P HP H0; [rewrite Hc; exact H0|].
  rewrite H3. apply (HP c c' H2). rewrite <- H1. exact H0.
Qed.

Lemma claim_weeks_money pos cfg cw n : forall h s p h' s' p' det,
  0 <= en_tok (pr_en p) ->
  claim_weeks bhost (boosted_hook pos cfg cw) n h s p = Ok (h', s', p', det) ->
  same_but_rewards s s' /\ map fst det = zseq (pr_week p) n /\
  bh_sup h' = bh_sup h /\ bh_und h' = bh_und h /\ bh_lastcol h' = bh_lastcol h /\ bh_pct h' = bh_pct h /\
  cfg_pres cw h h' /\
  (forall w, ~ In w (zseq (pr_week p) n) -> untouched w h s h' s' /\ wpaid det w = 0) /\
  (forall w, In w (zseq (pr_week p) n) -> weff w h s h' s' (wpaid det w)) /\
  ((forall w, In w (zseq (pr_week p) n) -> rw_ s w = [] -> rem_ h w = 0) ->
   nd h -> nd h' /\ msum h' + pay_total det = msum h).
Proof.
  induction n as [|n IH]; intros h s p h' s' p' det Ht; simpl claim_weeks.
  - intros Heq; inversion Heq; subst. split; [apply sbr_refl|]. split; [reflexivity|].
    repeat (split; [reflexivity|]). split; [intros P _ H0; exact H0|].
    split; [intros w _; split; [repeat split | reflexivity]|]. split; [intros w []|].
    intros _ Hn. split; [exact Hn | rewrite pay_total_nil; lia].
  - intros Heq. apply bind_ok in Heq. destruct Heq as ([[[h1 s1] p1] r] & Hs & Heq).
    apply bind_ok in Heq. destruct Heq as ([[[h2 s2] p2] rs] & Hr & Heq). inversion Heq; subst; clear Heq.
    unfold claim_single in Hs. apply bind_ok in Hs. destruct Hs as ([[hx sx] rx] & Hh & Hs). inversion Hs; subst; clear Hs.
    rewrite advance_week_adv in Hr by assumption.
    assert (Ht1 : 0 <= en_tok (pr_en (adv p 1))) by (rewrite adv_tok; exact Ht).
    destruct (IH _ _ _ _ _ _ _ Ht1 Hr) as (I1 & I2 & I3 & I4 & I5 & I6 & I7 & I8 & I9 & I10). clear IH.
    rewrite adv_week in *.
    destruct (hook_effect _ _ _ _ _ _ _ _ _ _ _ Hh) as (E1 & E2 & E3 & E4 & _ & _ & _ & _ & E9 & _).
    pose proof (hook_weff _ _ _ _ _ _ _ _ _ _ _ Hh) as Ew.
    destruct E3 as (f1 & f2 & f3 & f4 & f5).
    assert (Hnot0 : ~ In (pr_week p) (zseq (pr_week p + 1) n)) by (rewrite zseq_in; lia).
    assert (Hun1 : forall w, w <> pr_week p -> untouched w h s h1 s1).
    { intros w Hw. unfold untouched. destruct (f5 w Hw) as (a1 & a2). split; [exact a1|]. split; [exact a2 | apply E2; exact Hw]. }
    split; [eapply sbr_trans; eassumption|]. split; [simpl; rewrite I2; reflexivity|].
    split; [congruence|]. split; [congruence|]. split; [congruence|]. split; [congruence|].
    split; [intros P HP H0; apply (I7 P HP); apply (cfg_step_pres _ _ _ E4 P HP H0)|].
    split; [|split].
    + intros w Hn. simpl in Hn. assert (Hw : w <> pr_week p) by (intros ->; apply Hn; left; reflexivity).
      assert (Hn2 : ~ In w (zseq (pr_week p + 1) n)) by (intros Hi; apply Hn; right; exact Hi).
      destruct (I8 w Hn2) as ((u1 & u2 & u3) & Hz). destruct (Hun1 w Hw) as (v1 & v2 & v3).
      split; [unfold untouched; repeat split; congruence|].
      simpl. destruct (pr_week p =? w) eqn:E; [apply Z.eqb_eq in E; congruence | lia].
    + intros w Hin. simpl in Hin. simpl wpaid. destruct Hin as [<-|Hin].
      * rewrite Z.eqb_refl. destruct (I8 _ Hnot0) as (Hu & ->). rewrite Z.add_0_r.
        apply (weff_post _ _ _ _ _ _ _ _ Ew Hu).
      * assert (Hw : w <> pr_week p) by (intros ->; contradiction).
        destruct (pr_week p =? w) eqn:E; [apply Z.eqb_eq in E; congruence|]. simpl.
        apply (weff_pre _ _ _ _ _ _ _ _ (Hun1 w Hw) (I9 w Hin)).
    + intros Hm Hn. rewrite pay_total_cons.
      assert (Hm0 : rw_ s (pr_week p) = [] -> rem_ h (pr_week p) = 0) by (apply Hm; left; reflexivity).
      destruct (E9 Hm0) as (_ & Hnd). destruct (Hnd Hn) as (Hn1 & Hs1).
      assert (Hm1 : forall w, In w (zseq (pr_week p + 1) n) -> rw_ s1 w = [] -> rem_ h1 w = 0).
      { intros w Hin Hrw. assert (Hw : w <> pr_week p) by (intros ->; contradiction).
        destruct (Hun1 w Hw) as (_ & v2 & v3). rewrite v2. apply Hm; [right; exact Hin | rewrite <- v3; exact Hrw]. }
      destruct (I10 Hm1 Hn1) as (Hn2 & Hs2). split; [exact Hn2 | lia].
Qed.

(** ------------------------------------------------------------------ the module call claim_boosted_yields_rewards *)
Definition claim_range (p : progress) (cw : Z) : list Z := zseq (first_claim_week p cw) (nr_claim_weeks p cw).

Lemma claim_range_window p cw w : pr_week p <= cw -> In w (claim_range p cw) -> cw - MAXW <= w < cw /\ pr_week p <= w.
Proof.
  pose proof max_weeks_nonneg. unfold claim_range, first_claim_week, nr_claim_weeks. rewrite zseq_in. lia.
Qed.

(** the global part of a user touch changes the frozen totals only by dropping the entry of the week
    that left the claim window *)
Definition rw_weak (cw : Z) (s s' : wstate) : Prop :=
  forall w, rw_ s' w = rw_ s w \/ (rw_ s' w = [] /\ w = cleared_week cw).

Lemma rw_weak_refl cw s : rw_weak cw s s.
Proof. intros w. left. reflexivity. Qed.

Lemma uue_weak s cw cur op s1 : update_user_energy s cw cur op = Ok s1 -> rw_weak cw s s1.
Proof.
  intros Hu w. destruct (update_user_energy_frame _ _ _ _ _ Hu) as (_ & _ & _ & Hr).
  destruct (Z.eq_dec w (cleared_week cw)) as [->|Hne]; [|left; apply Hr; exact Hne].
  destruct (update_user_energy_rewards _ _ _ _ _ Hu (cleared_week cw)) as [H|H]; [left; exact H | right; split; [exact H | reflexivity]].
Qed.

Lemma store_progress_rw s u cw cur w : rw_ (store_progress s u cw cur) w = rw_ s w.
Proof. unfold rw_. rewrite store_progress_rewards. reflexivity. Qed.

(** what one boosted claim does: [rng] = the weeks it processes *)
Definition claim_summary (cw : Z) (h : bhost) (s : wstate) (h' : bhost) (s' : wstate)
  (det : list (Z * list (Z * Z))) (rng : list Z) : Prop :=
  map fst det = rng /\
  bh_sup h' = bh_sup h /\ bh_und h' = bh_und h /\ bh_lastcol h' = bh_lastcol h /\ bh_pct h' = bh_pct h /\
  cfg_pres cw h h' /\
  (forall w, ~ In w rng -> acc_ h' w = acc_ h w /\ rem_ h' w = rem_ h w /\ wpaid det w = 0 /\
                          (rw_ s' w = rw_ s w \/ (rw_ s' w = [] /\ w = cleared_week cw))) /\
  (forall w, In w rng -> weff w h s h' s' (wpaid det w)) /\
  ((forall w, In w rng -> rw_ s w = [] -> rem_ h w = 0) -> nd h -> nd h' /\ msum h' + pay_total det = msum h).

Lemma weff_rw w h s h' s' s0 s0' x : rw_ s w = rw_ s0 w -> rw_ s' w = rw_ s0' w -> weff w h s0 h' s0' x -> weff w h s h' s' x.
Proof. unfold weff. intros -> ->. tauto. Qed.

Lemma claim_boosted_summary h s u pos cw cur h' s' det :
  (forall p, pfind (w_prog s) u = Some p -> 0 <= en_tok (pr_en p)) ->
  claim_boosted h s u pos cw cur = Ok (h', s', det) ->
  (bh_cfg h = None /\ h' = h /\ s' = s /\ det = []) \/
  (exists c cfg s1,
     bh_cfg h = Some c /\ cfg_update c cw None = Ok cfg /\
     update_user_energy s cw cur (pfind (w_prog s) u) = Ok s1 /\
     w_prog s' = progress_after (w_prog s) u cw cur /\ w_last s' = cw /\ w_energy s' = w_energy s1 /\
     match pfind (w_prog s) u with
     | None => det = [] /\ h' = h /\ s' = store_progress s1 u cw cur
     | Some p => pr_week p <= cw /\
         exists s2, s' = store_progress s2 u cw cur /\
         claim_weeks bhost (boosted_hook pos cfg cw) (nr_claim_weeks p cw) h s1 (adv p (first_claim_week p cw - pr_week p))
           = Ok (h', s2, adv p (cw - pr_week p), det)
     end /\
     claim_summary cw h s h' s' det (match pfind (w_prog s) u with Some p => claim_range p cw | None => [] end)).
Proof.
  intros Hwf. unfold claim_boosted, try_get_cfg. destruct (bh_cfg h) as [c|] eqn:Ec.
  - intros Heq. right. apply bind_ok in Heq. destruct Heq as (oc & Hoc & Heq).
    apply bind_ok in Hoc. destruct Hoc as (cfg & Hu & Hoc). inversion Hoc; subst oc; clear Hoc.
    destruct (claim_multi_spec bhost _ (hook_sbr pos cfg cw) _ _ _ _ _ _ _ _ Hwf Heq) as (s1 & s2 & Hue & Hsbr & Hs' & Hpa & Hm).
    destruct (update_user_energy_frame _ _ _ _ _ Hue) as (_ & Hl1 & _).
    pose proof (uue_weak _ _ _ _ _ Hue) as Hwk.
    exists c, cfg, s1. split; [reflexivity|]. split; [exact Hu|]. split; [exact Hue|]. split; [exact Hpa|].
    assert (Hlast : w_last s' = cw).
    { rewrite Hs'. destruct Hsbr as (_ & _ & _ & f4 & _). unfold store_progress. destruct (0 <? en_amount cur); simpl; congruence. }
    split; [exact Hlast|].
    assert (Hen : w_energy s' = w_energy s1).
    { rewrite Hs', store_progress_energy. destruct Hsbr as (_ & f2 & _). exact f2. }
    split; [exact Hen|].
    destruct (pfind (w_prog s) u) as [p|] eqn:Ep.
    + destruct Hm as (Hle & Hmap & Hcw). split; [split; [exact Hle | exists s2; split; [exact Hs' | exact Hcw]]|].
      assert (Ht : 0 <= en_tok (pr_en (adv p (first_claim_week p cw - pr_week p)))) by (rewrite adv_tok; apply Hwf; reflexivity).
      destruct (claim_weeks_money _ _ _ _ _ _ _ _ _ _ _ Ht Hcw) as (_ & M2 & M3 & M4 & M5 & M6 & M7 & M8 & M9 & M10).
      assert (Hst : pr_week (adv p (first_claim_week p cw - pr_week p)) = first_claim_week p cw) by (rewrite adv_week; lia).
      rewrite Hst in *. fold (claim_range p cw) in *.
      assert (Hnc : forall w, In w (claim_range p cw) -> w <> cleared_week cw).
      { intros w Hin. apply (claim_range_window _ _ _ Hle) in Hin. unfold cleared_week. lia. }
      assert (Hrw1 : forall w, In w (claim_range p cw) -> rw_ s1 w = rw_ s w).
      { intros w Hin. destruct (Hwk w) as [H|(_ & H)]; [exact H | exfalso; apply (Hnc w Hin H)]. }
      unfold claim_summary. split; [exact M2|]. repeat (split; [assumption|]).
      split; [|split].
      * intros w Hn. destruct (M8 w Hn) as ((u1 & u2 & u3) & Hz). split; [exact u1|]. split; [exact u2|]. split; [exact Hz|].
        rewrite Hs', store_progress_rw, u3. apply Hwk.
      * intros w Hin. apply (weff_rw _ _ _ _ _ s1 s2); [symmetry; apply Hrw1; exact Hin | rewrite Hs'; apply store_progress_rw | apply M9; exact Hin].
      * intros Hm0 Hn. apply M10; [|exact Hn]. intros w Hin Hr. apply Hm0; [exact Hin | rewrite <- Hrw1 by exact Hin; exact Hr].
    + destruct Hm as (-> & -> & ->). split; [repeat split; exact Hs'|].
      unfold claim_summary. split; [reflexivity|]. repeat (split; [reflexivity|]).
      split; [intros P _ H0; exact H0|]. split; [|split].
      * intros w _. split; [reflexivity|]. split; [reflexivity|]. split; [reflexivity|]. rewrite Hs', store_progress_rw. apply Hwk.
      * intros w [].
      * intros _ Hn. split; [exact Hn | rewrite pay_total_nil; lia].
  - intros Heq. simpl in Heq. inversion Heq; subst. left. repeat split.
Qed.

(** ================================================================== Part D: reachable states *)
(** ------------------------------------------------------------------ ghost ledger *)
Record bghost := mkG {
  g_cuts : list (Z * Z);        (* week -> sum of the cuts take_reward_slice moved into its pool *)
  g_paid : list (Z * Z);        (* week -> sum of the boosted payments made for it *)
  g_swept : list (Z * Z);       (* week -> what collectUndistributedBoostedRewards took from it *)
  g_tcuts : Z; g_tpaid : Z; g_tswept : Z;                     (* the same, over all weeks *)
  g_fac : option (factors * list (Z * factors))               (* first accepted factors, later accepted (week, factors) *)
}.
Definition bg0 : bghost := mkG [] [] [] 0 0 0 None.

Definition add_at (l : list (Z * Z)) (k x : Z) : list (Z * Z) := aset l k (aget l k + x).
Definition add_all (l : list (Z * Z)) (es : list (Z * Z)) : list (Z * Z) :=
  fold_right (fun p acc => add_at acc (fst p) (snd p)) l es.
Definition psum_at (es : list (Z * Z)) (w : Z) : Z :=
  fold_right (fun p acc => (if fst p =? w then snd p else 0) + acc) 0 es.
Definition total (es : list (Z * Z)) : Z := fold_right (fun p acc => snd p + acc) 0 es.
Definition det_entries (det : list (Z * list (Z * Z))) : list (Z * Z) := map (fun wr => (fst wr, rsum (snd wr))) det.

Lemma aget_add_at l k x w : aget (add_at l k x) w = aget l w + (if k =? w then x else 0).
Proof.
  unfold add_at. rewrite aget_aset_pt. destruct (k =? w) eqn:E; [apply Z.eqb_eq in E; subst; reflexivity | lia].
Qed.

Lemma aget_add_all es : forall l w, aget (add_all l es) w = aget l w + psum_at es w.
Proof.
  induction es as [|[k x] t IH]; intros l w; simpl; [lia|]. rewrite aget_add_at, IH. lia.
Qed.

Lemma psum_det det w : psum_at (det_entries det) w = wpaid det w.
Proof. induction det as [|[k r] t IH]; simpl; [reflexivity | rewrite IH; reflexivity]. Qed.

Definition gcuts (g : bghost) (w : Z) : Z := aget (g_cuts g) w.
Definition gpaid (g : bghost) (w : Z) : Z := aget (g_paid g) w.
Definition gswept (g : bghost) (w : Z) : Z := aget (g_swept g) w.

Definition bcur_week (s : bst) : Z := (b_epoch s - b_first s) / WK + 1.

Lemma current_week_b s cw : current_week s = Ok cw -> cw = bcur_week s /\ b_first s <= b_epoch s.
Proof.
  unfold current_week, week_for_epoch, bcur_week. destruct (b_first s <=? b_epoch s) eqn:E; [|discriminate].
  apply Z.leb_le in E. intros Heq; inversion Heq; split; [reflexivity | exact E].
Qed.

Lemma bcur_week_pos s : b_first s <= b_epoch s -> 1 <= bcur_week s.
Proof.
  intros H. unfold bcur_week. pose proof week_pos. pose proof (Z.div_pos (b_epoch s - b_first s) WK). lia.
Qed.

Definition fac_event (op : bop) (cw : Z) (gf : option (factors * list (Z * factors))) :=
  match op with
  | BSetFactors _ f => match gf with None => Some (f, []) | Some (f0, log) => Some (f0, log ++ [(cw, f)]) end
  | _ => gf
  end.

Definition gupd (g : bghost) (op : bop) (cw : Z) (out : bout) : bghost :=
  mkG (add_at (g_cuts g) cw (o_cut out)) (add_all (g_paid g) (det_entries (o_det out))) (add_all (g_swept g) (o_swept out))
      (g_tcuts g + o_cut out) (g_tpaid g + o_b out) (g_tswept g + total (o_swept out))
      (fac_event op cw (g_fac g)).

Definition bgstep (sg : bst * bghost) (op : bop) : bst * bghost :=
  match step (fst sg) op with
  | Ok (s', out) => (s', gupd (snd sg) op (bcur_week (fst sg)) out)
  | Err _ => sg
  end.
Definition bgrun (sg : bst * bghost) (ops : list bop) : bst * bghost := fold_left bgstep ops sg.

Lemma bgrun_fst ops : forall s g, fst (bgrun (s, g) ops) = run s ops.
Proof.
  unfold bgrun, run. induction ops as [|op t IH]; intros s g; simpl; [reflexivity|].
  unfold bgstep at 2, step_total at 2. simpl. destruct (step s op) as [[s' o]|]; apply IH.
Qed.

(** ------------------------------------------------------------------ the money invariant *)
Record MInv (cw : Z) (h : bhost) (rw : Z -> list (Z * Z)) (g : bghost) : Prop := mkM {
  m_nn : forall w, 0 <= acc_ h w /\ 0 <= rem_ h w;
  m_und : bh_und h = g_tswept g /\ 0 <= bh_und h;
  m_gnn : forall w, 0 <= gpaid g w /\ 0 <= gswept g w;
  m_nd : nd h;
  m_week : forall w, gcuts g w = acc_ h w + rem_ h w + gpaid g w + gswept g w;
  m_glob : msum h + bh_und h + g_tpaid g = g_tcuts g;
  m_fut : forall w, rw w <> [] -> w < cw;
  m_win : forall w, cw - MAXW <= w -> rw w = [] -> rem_ h w = 0 /\ gpaid g w = 0;
  m_frozen : forall w, rw w <> [] -> rw w = [(RTOK, gcuts g w)] /\ acc_ h w = 0;
  m_swept : forall w, gswept g w <> 0 -> 1 <= w <= bh_lastcol h;
  m_lastcol : 0 <= bh_lastcol h /\ (bh_lastcol h = 0 \/ bh_lastcol h + MAXW + 1 <= cw);
  m_done : forall w, 1 <= w <= bh_lastcol h -> acc_ h w = 0 /\ rem_ h w = 0
}.

Lemma m_window_unswept cw h rw g w : MInv cw h rw g -> cw - MAXW <= w -> gswept g w = 0 /\ ~ (1 <= w <= bh_lastcol h).
Proof.
  intros M Hw. destruct (m_lastcol _ _ _ _ M) as (L0 & L1).
  assert (Hn : ~ (1 <= w <= bh_lastcol h)) by lia. split; [|exact Hn].
  destruct (Z.eq_dec (gswept g w) 0) as [E|E]; [exact E|]. exfalso. apply Hn. apply (m_swept _ _ _ _ M w E).
Qed.

Lemma MInv_init cw : MInv cw init_bh (fun _ => []) bg0.
Proof.
  constructor; simpl; unfold acc_, rem_, gcuts, gpaid, gswept, msum, nd; simpl; intros; try lia; try (split; lia); try congruence;
    try (split; constructor).
Qed.

(** time only moves the window *)
Lemma MInv_advance cw cw' h rw g : cw <= cw' -> MInv cw h rw g -> MInv cw' h rw g.
Proof.
  intros Hle M. destruct M. constructor; try assumption.
  - intros w Hw. specialize (m_fut0 w Hw). lia.
  - intros w Hw. apply m_win0. lia.
  - lia.
Qed.

(** dropping the frozen total of a week that left the window *)
Lemma MInv_weaken cw h rw rw' g :
  (forall w, rw' w = rw w \/ (rw' w = [] /\ w < cw - MAXW)) -> MInv cw h rw g -> MInv cw h rw' g.
Proof.
  intros Hw M. destruct M. constructor; try assumption.
  - intros w Hn. destruct (Hw w) as [E|(E & _)]; [rewrite E in Hn; apply m_fut0; exact Hn | contradiction].
  - intros w Hc Hn. destruct (Hw w) as [E|(_ & E)]; [rewrite E in Hn; apply m_win0; assumption | lia].
  - intros w Hn. destruct (Hw w) as [E|(E & _)]; [rewrite E in *; apply m_frozen0; exact Hn | contradiction].
Qed.

Lemma rw_weak_MInv cw h s s' g : rw_weak cw s s' -> MInv cw h (rw_ s) g -> MInv cw h (rw_ s') g.
Proof.
  intros Hw. apply MInv_weaken. intros w. destruct (Hw w) as [E|(E & ->)]; [left; exact E | right; split; [exact E | unfold cleared_week; lia]].
Qed.

(** only the module's money storage matters *)
Lemma MInv_ext cw h h' rw g :
  bh_acc h' = bh_acc h -> bh_rem h' = bh_rem h -> bh_und h' = bh_und h -> bh_lastcol h' = bh_lastcol h ->
  MInv cw h rw g -> MInv cw h' rw g.
Proof.
  intros E1 E2 E3 E4 M. destruct M. unfold acc_, rem_, msum, nd in *.
  constructor; unfold acc_, rem_, msum, nd; rewrite ?E1, ?E2, ?E3, ?E4; assumption.
Qed.

Lemma MInv_gext cw h rw g g' :
  (forall w, gcuts g' w = gcuts g w) -> (forall w, gpaid g' w = gpaid g w) -> (forall w, gswept g' w = gswept g w) ->
  g_tcuts g' = g_tcuts g -> g_tpaid g' = g_tpaid g -> g_tswept g' = g_tswept g ->
  MInv cw h rw g -> MInv cw h rw g'.
Proof.
  intros E1 E2 E3 E4 E5 E6 M. destruct M.
  constructor; intros; rewrite ?E1, ?E2, ?E3, ?E4, ?E5, ?E6; auto.
  rewrite E3 in H. auto.
Qed.

Definition g_cut (g : bghost) (cw x : Z) : bghost :=
  mkG (add_at (g_cuts g) cw x) (g_paid g) (g_swept g) (g_tcuts g + x) (g_tpaid g) (g_tswept g) (g_fac g).
Definition g_pay (g : bghost) (det : list (Z * list (Z * Z))) : bghost :=
  mkG (g_cuts g) (add_all (g_paid g) (det_entries det)) (g_swept g) (g_tcuts g) (g_tpaid g + pay_total det) (g_tswept g) (g_fac g).
Definition g_sweep (g : bghost) (l : list (Z * Z)) : bghost :=
  mkG (g_cuts g) (g_paid g) (add_all (g_swept g) l) (g_tcuts g) (g_tpaid g) (g_tswept g + total l) (g_fac g).

(** take_reward_slice *)
Lemma slice_spec h cw full h' base cut :
  0 <= full -> 0 <= bh_pct h -> take_reward_slice h cw full = Ok (h', base, cut) ->
  0 <= cut /\
  cut = (if (bh_pct h =? 0) || (match bh_cfg h with None => true | Some _ => false end) then 0
         else full * bh_pct h / BOOSTED_MAX_PERCENT) /\
  ((cut = 0 /\ h' = h) \/ (0 < cut /\ h' = set_acc h cw (acc_ h cw + cut))) /\ base = full - cut.
Proof.
  intros Hf Hp. unfold take_reward_slice.
  destruct ((bh_pct h =? 0) || match bh_cfg h with None => true | Some _ => false end).
  - intros Heq; inversion Heq; subst. split; [lia|]. split; [reflexivity|]. split; [left; split; reflexivity | lia].
  - set (c := full * bh_pct h / BOOSTED_MAX_PERCENT).
    assert (Hc : 0 <= c). { unfold c. apply Z.div_pos; [nia | vm_compute; reflexivity]. }
    destruct (0 <? c) eqn:E.
    + apply Z.ltb_lt in E. intros Heq. apply bind_ok in Heq. destruct Heq as (b & Hs & Heq). apply sub_chk_ok in Hs.
      inversion Heq; subst. split; [lia|]. split; [reflexivity|]. split; [right; split; [exact E | reflexivity] | lia].
    + apply Z.ltb_ge in E. intros Heq; inversion Heq; subst. assert (c = 0) by lia.
      split; [lia|]. split; [reflexivity|]. split; [left; split; [assumption | reflexivity] | lia].
Qed.

Lemma M_slice cw h rw g h' cut :
  MInv cw h rw g -> 1 <= cw -> 0 <= cut ->
  ((cut = 0 /\ h' = h) \/ (0 < cut /\ h' = set_acc h cw (acc_ h cw + cut))) ->
  MInv cw h' rw (g_cut g cw cut).
Proof.
  intros M Hcw Hc Hcase.
  assert (Hacc : forall w, acc_ h' w = acc_ h w + (if cw =? w then cut else 0)).
  { intros w. destruct Hcase as [(-> & ->)|(_ & ->)]; [destruct (cw =? w); lia|].
    unfold acc_; simpl. rewrite aget_aset_pt. destruct (cw =? w) eqn:E; [apply Z.eqb_eq in E; subst; reflexivity | lia]. }
  assert (Hrem : bh_rem h' = bh_rem h) by (destruct Hcase as [(_ & ->)|(_ & ->)]; reflexivity).
  assert (Hund : bh_und h' = bh_und h) by (destruct Hcase as [(_ & ->)|(_ & ->)]; reflexivity).
  assert (Hlc : bh_lastcol h' = bh_lastcol h) by (destruct Hcase as [(_ & ->)|(_ & ->)]; reflexivity).
  assert (Hnd : nd h' /\ msum h' = msum h + cut).
  { destruct (m_nd _ _ _ _ M) as (N1 & N2). destruct Hcase as [(-> & ->)|(_ & ->)]; [split; [split; assumption | lia]|].
    unfold nd, msum; simpl. split; [split; [apply nodup_aset; exact N1 | exact N2]|].
    rewrite asum_aset by exact N1. unfold acc_. lia. }
  assert (Hgc : forall w, gcuts (g_cut g cw cut) w = gcuts g w + (if cw =? w then cut else 0))
    by (intros w; unfold gcuts; simpl; apply aget_add_at).
  destruct M. unfold rem_ in *. pose proof max_weeks_nonneg as HMX.
  assert (Hlt : forall w, 1 <= w <= bh_lastcol h -> (cw =? w) = false) by (intros w Hw; apply Z.eqb_neq; lia).
  constructor; unfold rem_, gpaid, gswept; simpl; rewrite ?Hrem, ?Hund, ?Hlc; try assumption.
  - intros w. rewrite Hacc. destruct (m_nn0 w). split; [destruct (cw =? w); lia | assumption].
  - apply Hnd.
  - intros w. rewrite Hacc, Hgc. specialize (m_week0 w). unfold gpaid, gswept in m_week0. lia.
  - destruct Hnd as (_ & ->). lia.
  - intros w Hn. destruct (m_frozen0 w Hn) as (F1 & F2). specialize (m_fut0 w Hn).
    assert (E : (cw =? w) = false) by (apply Z.eqb_neq; lia). rewrite Hacc, Hgc, E, !Z.add_0_r. split; assumption.
  - intros w Hw. rewrite Hacc, (Hlt w Hw), Z.add_0_r. apply m_done0. exact Hw.
Qed.

(** one boosted claim *)
Lemma M_claim cw h s h' s' det rng g :
  MInv cw h (rw_ s) g -> claim_summary cw h s h' s' det rng -> (forall w, In w rng -> cw - MAXW <= w < cw) ->
  MInv cw h' (rw_ s') (g_pay g det).
Proof.
  intros M (S1 & S2 & S3 & S4 & S5 & S6 & Sout & Sin & Ssum) Hrng.
  assert (Hgp : forall w, gpaid (g_pay g det) w = gpaid g w + wpaid det w).
  { intros w. unfold gpaid; simpl. rewrite aget_add_all, psum_det. reflexivity. }
  assert (Hm0 : forall w, In w rng -> rw_ s w = [] -> rem_ h w = 0).
  { intros w Hin Hr. apply (m_win _ _ _ _ M w); [apply Hrng; exact Hin | exact Hr]. }
  destruct (Ssum Hm0 (m_nd _ _ _ _ M)) as (Hnd' & Hms).
  assert (Hdec : forall w, In w rng \/ ~ In w rng) by (intros w; destruct (in_dec Z.eq_dec w rng); auto).
  pose proof max_weeks_nonneg as HMX.
  assert (Hgc : forall w, gcuts (g_pay g det) w = gcuts g w) by reflexivity.
  assert (Hgs : forall w, gswept (g_pay g det) w = gswept g w) by reflexivity.
  constructor; simpl; intros; rewrite ?Hgc, ?Hgs, ?Hgp.
  - destruct (Hdec w) as [Hin|Hn].
    + destruct (Sin w Hin) as (_ & _ & _ & _ & _ & W6). destruct (m_nn _ _ _ _ M w). apply W6; assumption.
    + destruct (Sout w Hn) as (-> & -> & _). apply (m_nn _ _ _ _ M).
  - rewrite S3. apply (m_und _ _ _ _ M).
  - destruct (m_gnn _ _ _ _ M w) as (G1 & G2). split; [|exact G2].
    destruct (Hdec w) as [Hin|Hn]; [destruct (Sin w Hin) as (W1 & _); lia | destruct (Sout w Hn) as (_ & _ & -> & _); lia].
  - exact Hnd'.
  - pose proof (m_week _ _ _ _ M w) as Hw. destruct (Hdec w) as [Hin|Hn].
    + destruct (Sin w Hin) as (_ & _ & _ & _ & W5 & _). specialize (W5 (Hm0 w Hin)). lia.
    + destruct (Sout w Hn) as (-> & -> & -> & _). lia.
  - rewrite S3. pose proof (m_glob _ _ _ _ M). lia.
  - rename H into Hne. destruct (Hdec w) as [Hin|Hn]; [apply Hrng; exact Hin|].
    destruct (Sout w Hn) as (_ & _ & _ & [E|(E & _)]); [rewrite E in Hne; apply (m_fut _ _ _ _ M w Hne) | contradiction].
  - rename H into Hc. rename H0 into He. destruct (Hdec w) as [Hin|Hn].
    + destruct (Sin w Hin) as (_ & W2 & _ & W4 & _). destruct (W4 He) as (_ & -> & ->).
      destruct W2 as [E|(_ & E & _)]; [|rewrite E in He; discriminate]. rewrite E in He.
      destruct (m_win _ _ _ _ M w Hc He) as (-> & ->). split; lia.
    + destruct (Sout w Hn) as (_ & -> & -> & [E|(_ & E)]); [|unfold cleared_week in E; lia].
      rewrite E in He. destruct (m_win _ _ _ _ M w Hc He) as (-> & ->). split; lia.
  - rename H into Hne. destruct (Hdec w) as [Hin|Hn].
    + destruct (Sin w Hin) as (_ & W2 & W3 & _). destruct W2 as [E|(E0 & E1 & E2)].
      * rewrite E in *. destruct (m_frozen _ _ _ _ M w Hne) as (F1 & F2). split; [exact F1|]. rewrite (W3 Hne). exact F2.
      * split; [|exact E2]. rewrite E1. f_equal. f_equal.
        destruct (Hrng w Hin) as (Hlo & _).
        destruct (m_win _ _ _ _ M w Hlo E0) as (R0 & P0). destruct (m_window_unswept _ _ _ _ w M Hlo) as (Sw0 & _).
        pose proof (m_week _ _ _ _ M w). lia.
    + destruct (Sout w Hn) as (A & _ & _ & [E|(E & _)]); [|contradiction]. rewrite E in *. rewrite A. apply (m_frozen _ _ _ _ M w Hne).
  - rewrite S4. apply (m_swept _ _ _ _ M w H).
  - rewrite S4. apply (m_lastcol _ _ _ _ M).
  - rename H into Hw. rewrite S4 in Hw. assert (Hn : ~ In w rng).
    { intros Hin. destruct (Hrng w Hin) as (Hlo & _). destruct (m_window_unswept _ _ _ _ w M Hlo) as (_ & Hx). apply Hx. exact Hw. }
    destruct (Sout w Hn) as (-> & -> & _). apply (m_done _ _ _ _ M w Hw).
Qed.

(** collectUndistributedBoostedRewards: the sweep loop *)
Definition in_rng (a : Z) (n : nat) (w : Z) : bool := (a <=? w) && (w <? a + Z.of_nat n).

Lemma in_rng_0 a w : in_rng a 0 w = false.
Proof.
  unfold in_rng. destruct (a <=? w) eqn:E1; [|reflexivity]. apply Z.leb_le in E1. apply Z.ltb_ge. simpl. lia.
Qed.

Lemma in_rng_S a n w : in_rng a (S n) w = (a =? w) || in_rng (a + 1) n w.
Proof.
  unfold in_rng. rewrite Nat2Z.inj_succ. destruct (a =? w) eqn:E.
  - apply Z.eqb_eq in E. subst w. apply andb_true_iff. split; [apply Z.leb_le | apply Z.ltb_lt]; lia.
  - apply Z.eqb_neq in E. rewrite orb_false_l. replace (a + 1 + Z.of_nat n) with (a + Z.succ (Z.of_nat n)) by lia.
    destruct (w <? a + Z.succ (Z.of_nat n)); rewrite ?andb_true_r, ?andb_false_r; [|reflexivity].
    destruct (a <=? w) eqn:E1; destruct (a + 1 <=? w) eqn:E2; try reflexivity;
      try (apply Z.leb_le in E1); try (apply Z.leb_gt in E1); try (apply Z.leb_le in E2); try (apply Z.leb_gt in E2); lia.
Qed.

Lemma psum_at_zseq (f : Z -> Z) n : forall a w,
  psum_at (map (fun k => (k, f k)) (zseq a n)) w = if in_rng a n w then f w else 0.
Proof.
  induction n as [|n IH]; intros a w.
  - rewrite in_rng_0. reflexivity.
  - rewrite in_rng_S. cbn [zseq map psum_at fold_right fst snd]. fold (psum_at (map (fun k => (k, f k)) (zseq (a + 1) n)) w).
    rewrite IH. destruct (a =? w) eqn:E.
    + apply Z.eqb_eq in E. subst w. assert (E1 : in_rng (a + 1) n a = false).
      { unfold in_rng. assert (E2 : (a + 1 <=? a) = false) by (apply Z.leb_gt; lia). rewrite E2. reflexivity. }
      rewrite E1. simpl. lia.
    + simpl. reflexivity.
Qed.

Lemma sweep_spec n : forall a h h' l, sweep n a h = (h', l) ->
  l = map (fun k => (k, rem_ h k + acc_ h k)) (zseq a n) /\
  (forall w, acc_ h' w = if in_rng a n w then 0 else acc_ h w) /\
  (forall w, rem_ h' w = if in_rng a n w then 0 else rem_ h w) /\
  bh_und h' = bh_und h + total l /\ bh_sup h' = bh_sup h /\ bh_lastcol h' = bh_lastcol h /\ bh_pct h' = bh_pct h /\
  bh_cfg h' = bh_cfg h /\ (nd h -> nd h' /\ msum h' + total l = msum h).
Proof.
  induction n as [|n IH]; intros a h h' l; simpl sweep.
  - intros Heq; inversion Heq; subst. split; [reflexivity|].
    split; [intros w; rewrite in_rng_0; reflexivity|]. split; [intros w; rewrite in_rng_0; reflexivity|].
    simpl. repeat (split; [lia || reflexivity|]). intros Hn. split; [exact Hn | lia].
  - set (x := aget (bh_rem h) a + aget (bh_acc h) a).
    set (h1 := set_und (set_acc (set_rem h a 0) a 0) (bh_und h + x)).
    destruct (sweep n (a + 1) h1) as [h2 l2] eqn:Es. intros Heq; inversion Heq; subst h' l; clear Heq.
    destruct (IH _ _ _ _ Es) as (I1 & I2 & I3 & I4 & I5 & I6 & I7 & I8 & I9). clear IH.
    assert (A1 : forall w, acc_ h1 w = if a =? w then 0 else acc_ h w)
      by (intros w; unfold acc_, h1; simpl; apply aget_aset_pt).
    assert (R1 : forall w, rem_ h1 w = if a =? w then 0 else rem_ h w)
      by (intros w; unfold rem_, h1; simpl; apply aget_aset_pt).
    pose proof (in_rng_S a n) as Hb.
    split.
    { simpl. f_equal. rewrite I1. apply map_ext_in. intros k Hk. apply zseq_in in Hk.
      rewrite A1, R1. assert (E : (a =? k) = false) by (apply Z.eqb_neq; lia). rewrite E. reflexivity. }
    split; [intros w; rewrite I2, Hb, A1; destruct (a =? w); destruct (in_rng (a + 1) n w); reflexivity|].
    split; [intros w; rewrite I3, Hb, R1; destruct (a =? w); destruct (in_rng (a + 1) n w); reflexivity|].
    split; [rewrite I4; unfold h1; simpl; unfold x; lia|].
    split; [rewrite I5; reflexivity|]. split; [rewrite I6; reflexivity|]. split; [rewrite I7; reflexivity|].
    split; [rewrite I8; reflexivity|].
    intros (N1 & N2).
    assert (Hn1 : nd h1) by (unfold nd, h1; simpl; split; apply nodup_aset; assumption).
    assert (Hs1 : msum h1 + x = msum h).
    { unfold msum, h1; simpl. rewrite !asum_aset by assumption. unfold x. lia. }
    destruct (I9 Hn1) as (Hn2 & Hs2). split; [exact Hn2|]. simpl. unfold x in *. unfold rem_, acc_. lia.
Qed.

Lemma total_psum_nonneg l : (forall w, 0 <= psum_at l w) -> Forall (fun p => 0 <= snd p) l -> 0 <= total l.
Proof. intros _ Hall. induction l as [|[k x] t IH]; simpl; [lia|]. inversion Hall; subst. simpl in *. specialize (IH H2). lia. Qed.

Lemma M_sweep cw h rw g h' l first last :
  MInv cw h rw g -> first = bh_lastcol h + 1 -> last = cw - (MAXW + 1) -> first <= last ->
  sweep (Z.to_nat (last - first + 1)) first h = (h', l) ->
  MInv cw (set_lastcol h' last) rw (g_sweep g l).
Proof.
  intros M Hf Hl Hle Hs. pose proof max_weeks_nonneg as HMX.
  destruct (sweep_spec _ _ _ _ _ Hs) as (S1 & S2 & S3 & S4 & _ & S6 & _ & _ & S9).
  set (n := Z.to_nat (last - first + 1)) in *.
  assert (Hin : forall w, in_rng first n w = true <-> first <= w <= last).
  { intros w. unfold in_rng. rewrite andb_true_iff, Z.leb_le, Z.ltb_lt. unfold n. lia. }
  assert (Hps : forall w, psum_at l w = if in_rng first n w then rem_ h w + acc_ h w else 0)
    by (intros w; rewrite S1; apply (psum_at_zseq (fun k => rem_ h k + acc_ h k))).
  assert (Hgs : forall w, gswept (g_sweep g l) w = gswept g w + psum_at l w)
    by (intros w; unfold gswept; simpl; apply aget_add_all).
  assert (Hgc : forall w, gcuts (g_sweep g l) w = gcuts g w) by reflexivity.
  assert (Hgp : forall w, gpaid (g_sweep g l) w = gpaid g w) by reflexivity.
  assert (Hacc : forall w, acc_ (set_lastcol h' last) w = acc_ h' w) by reflexivity.
  assert (Hrem : forall w, rem_ (set_lastcol h' last) w = rem_ h' w) by reflexivity.
  assert (Htot : 0 <= total l).
  { rewrite S1. clear - M. induction (zseq first n) as [|k t IH]; simpl; [lia|]. destruct (m_nn _ _ _ _ M k). lia. }
  destruct (m_lastcol _ _ _ _ M) as (L0 & L1).
  destruct (S9 (m_nd _ _ _ _ M)) as (Hnd & Hms).
  constructor; simpl; intros; rewrite ?Hgc, ?Hgs, ?Hgp, ?Hacc, ?Hrem, ?S2, ?S3, ?Hps.
  - destruct (m_nn _ _ _ _ M w). destruct (in_rng first n w); split; lia.
  - destruct (m_und _ _ _ _ M) as (U1 & U2). rewrite S4. split; lia.
  - destruct (m_gnn _ _ _ _ M w) as (G1 & G2). destruct (m_nn _ _ _ _ M w). split; [exact G1|]. destruct (in_rng first n w); lia.
  - exact Hnd.
  - pose proof (m_week _ _ _ _ M w). destruct (in_rng first n w); lia.
  - unfold msum in *. simpl. rewrite S4. pose proof (m_glob _ _ _ _ M). unfold msum in *. lia.
  - apply (m_fut _ _ _ _ M w H).
  - destruct (in_rng first n w) eqn:E; [apply Hin in E; lia|]. apply (m_win _ _ _ _ M w H H0).
  - destruct (m_frozen _ _ _ _ M w H) as (F1 & F2). split; [exact F1|]. destruct (in_rng first n w); [reflexivity | exact F2].
  - rewrite Hgs, Hps in H. destruct (in_rng first n w) eqn:E.
    + apply Hin in E. lia.
    + assert (Hx : gswept g w <> 0) by lia. pose proof (m_swept _ _ _ _ M w Hx). lia.
  - split; lia.
  - destruct (in_rng first n w) eqn:E; [split; reflexivity|].
    assert (Hw : 1 <= w <= bh_lastcol h).
    { destruct (Z_le_gt_dec first w) as [Hge|Hlt]; [|lia]. exfalso. assert (in_rng first n w = true) by (apply Hin; lia). congruence. }
    apply (m_done _ _ _ _ M w Hw).
Qed.

(** ------------------------------------------------------------------ progress / config invariants *)
Definition TInv (cw : Z) (w : wstate) : Prop := Forall (prog_ok cw) (w_prog w) /\ w_last w <= cw.

Definition CI (cw : Z) (oc : option bconfig) (gf : option (factors * list (Z * factors))) : Prop :=
  match oc, gf with
  | None, None => True
  | Some c, Some (f0, log) => CInv c f0 log /\ c_last c <= cw
  | _, _ => False
  end.

(** all invariants at a given current week *)
Definition LInv (cw : Z) (h : bhost) (w : wstate) (g : bghost) : Prop :=
  1 <= cw /\ TInv cw w /\ CI cw (bh_cfg h) (g_fac g) /\ MInv cw h (rw_ w) g /\ 0 <= bh_pct h <= BOOSTED_MAX_PERCENT.

Lemma T_find cw w u p : TInv cw w -> pfind (w_prog w) u = Some p -> 0 <= en_tok (pr_en p) /\ pr_week p <= cw.
Proof. intros (Hall & _) Hf. apply pfind_in in Hf. rewrite Forall_forall in Hall. apply (Hall _ Hf). Qed.

Lemma T_after cw w w' u cur : TInv cw w -> 0 <= en_tok cur ->
  w_prog w' = progress_after (w_prog w) u cw cur -> w_last w' = cw -> TInv cw w'.
Proof.
  intros (Hall & _) Ht Hp Hl. split; [|lia]. rewrite Hp. apply Forall_progress_after; [exact Hall|].
  unfold prog_ok; simpl. split; [exact Ht | lia].
Qed.

Lemma CI_pres cw h h' gf : cfg_pres cw h h' -> CI cw (bh_cfg h) gf -> CI cw (bh_cfg h') gf.
Proof.
  intros Hp. apply (Hp (fun oc => CI cw oc gf)). intros c c' Hu. unfold CI. destruct gf as [[f0 log]|]; [|tauto].
  intros (Hi & _). destruct (cfg_update_inv _ _ _ _ _ _ Hi Hu) as (_ & Hl & Hi'). split; [exact Hi' | lia].
Qed.

Lemma uep_spec s u cw cur s' : update_energy_and_progress s u cw cur = Ok s' ->
  w_prog s' = progress_after (w_prog s) u cw cur /\ w_last s' = cw /\ rw_weak cw s s'.
Proof.
  unfold update_energy_and_progress. intros Heq. apply bind_ok in Heq. destruct Heq as (s1 & Hu & Heq). inversion Heq; subst; clear Heq.
  destruct (update_user_energy_frame _ _ _ _ _ Hu) as (u1 & u2 & _).
  split; [rewrite store_progress_prog, u1; reflexivity|].
  split; [unfold store_progress; destruct (0 <? en_amount cur); simpl; exact u2|].
  intros w. rewrite store_progress_rw. apply (uue_weak _ _ _ _ _ Hu).
Qed.

Lemma clear_spec s u cw ep rem mn s' : clear_user_energy s u cw ep rem mn = Ok s' ->
  s' = s \/ (w_prog s' = pdel (w_prog s) u /\ w_last s' = cw /\ rw_weak cw s s').
Proof.
  unfold clear_user_energy. destruct (mn <=? rem); [intros Heq; inversion Heq; left; reflexivity|].
  intros Heq. apply bind_ok in Heq. destruct Heq as (s1 & Hu & Heq). inversion Heq; subst; clear Heq. right.
  destruct (update_user_energy_frame _ _ _ _ _ Hu) as (u1 & u2 & _).
  split; [simpl; rewrite u1; reflexivity|]. split; [simpl; exact u2|].
  intros w. unfold rw_; simpl. apply (uue_weak _ _ _ _ _ Hu).
Qed.

Lemma L_gext cw h w g g' :
  (forall x, gcuts g' x = gcuts g x) -> (forall x, gpaid g' x = gpaid g x) -> (forall x, gswept g' x = gswept g x) ->
  g_tcuts g' = g_tcuts g -> g_tpaid g' = g_tpaid g -> g_tswept g' = g_tswept g -> g_fac g' = g_fac g ->
  LInv cw h w g -> LInv cw h w g'.
Proof.
  intros E1 E2 E3 E4 E5 E6 E7 (L1 & L2 & L3 & L4 & L5). split; [exact L1|]. split; [exact L2|].
  split; [rewrite E7; exact L3|]. split; [apply (MInv_gext _ _ _ g); assumption | exact L5].
Qed.

Lemma L_slice cw h w g full h' base cut :
  LInv cw h w g -> 0 <= full -> take_reward_slice h cw full = Ok (h', base, cut) -> LInv cw h' w (g_cut g cw cut).
Proof.
  intros (L1 & L2 & L3 & L4 & L5) Hf Hs. destruct (slice_spec _ _ _ _ _ _ Hf (proj1 L5) Hs) as (Hc & _ & Hcase & _).
  assert (Hfr : bh_cfg h' = bh_cfg h /\ bh_pct h' = bh_pct h) by (destruct Hcase as [(_ & ->)|(_ & ->)]; split; reflexivity).
  destruct Hfr as (F1 & F2). split; [exact L1|]. split; [exact L2|]. split; [rewrite F1; exact L3|].
  split; [apply (M_slice _ _ _ _ _ _ L4 L1 Hc Hcase) | rewrite F2; exact L5].
Qed.

Lemma L_claim cw h w g u pos cur h' w' det :
  LInv cw h w g -> 0 <= en_tok cur -> claim_boosted h w u pos cw cur = Ok (h', w', det) -> LInv cw h' w' (g_pay g det).
Proof.
  intros (L1 & L2 & L3 & L4 & L5) Ht Hc.
  assert (Hwf : forall p, pfind (w_prog w) u = Some p -> 0 <= en_tok (pr_en p)) by (intros p Hp; apply (T_find _ _ _ _ L2 Hp)).
  destruct (claim_boosted_summary _ _ _ _ _ _ _ _ _ Hwf Hc) as [(_ & -> & -> & ->)|(c & cfg & s1 & _ & _ & _ & Hpa & Hl & _ & Hm & Hsum)].
  - split; [exact L1|]. split; [exact L2|]. split; [exact L3|]. split; [|exact L5].
    apply (MInv_gext _ _ _ g); try reflexivity; [simpl; rewrite pay_total_nil; lia | exact L4].
  - split; [exact L1|]. split; [apply (T_after _ _ _ _ _ L2 Ht Hpa Hl)|].
    destruct Hsum as (S1 & S2 & S3 & S4 & S5 & S6 & Srest).
    split; [apply (CI_pres _ _ _ _ S6 L3)|]. split; [|rewrite S5; exact L5].
    apply (M_claim _ _ _ _ _ _ _ _ L4 (conj S1 (conj S2 (conj S3 (conj S4 (conj S5 (conj S6 Srest))))))).
    intros x Hin. destruct (pfind (w_prog w) u) as [p|] eqn:Ep; [|destruct Hin].
    destruct Hm as (Hle & _). apply (claim_range_window _ _ _ Hle Hin).
Qed.

Lemma L_sup cw h w g k v : LInv cw h w g -> LInv cw (set_sup h k v) w g.
Proof.
  intros (L1 & L2 & L3 & L4 & L5). split; [exact L1|]. split; [exact L2|]. split; [exact L3|].
  split; [apply (MInv_ext _ h); try reflexivity; exact L4 | exact L5].
Qed.

Lemma L_weak cw h w w' g : LInv cw h w g -> TInv cw w' -> rw_weak cw w w' -> LInv cw h w' g.
Proof.
  intros (L1 & L2 & L3 & L4 & L5) HT Hw. split; [exact L1|]. split; [exact HT|]. split; [exact L3|].
  split; [apply (rw_weak_MInv _ _ _ _ _ Hw L4) | exact L5].
Qed.

Lemma L_uep cw h w g u cur w' :
  LInv cw h w g -> 0 <= en_tok cur -> update_energy_and_progress w u cw cur = Ok w' -> LInv cw h w' g.
Proof.
  intros L Ht Hu. destruct (uep_spec _ _ _ _ _ Hu) as (U1 & U2 & U3).
  apply (L_weak _ _ _ _ _ L); [|exact U3]. destruct L as (_ & L2 & _). apply (T_after _ _ _ _ _ L2 Ht U1 U2).
Qed.

Lemma L_clear cw h h0 w g u ep posa w' :
  LInv cw h w g -> clear_if_needed h0 w u cw ep posa = Ok w' -> LInv cw h w' g.
Proof.
  intros L Hc. unfold clear_if_needed in Hc. apply bind_ok in Hc. destruct Hc as (oc & _ & Hc).
  destruct oc as [cfg|]; [|inversion Hc; subst; exact L].
  destruct (clear_spec _ _ _ _ _ _ _ Hc) as [->|(C1 & C2 & C3)]; [exact L|].
  apply (L_weak _ _ _ _ _ L); [|exact C3]. destruct L as (_ & (Hall & _) & _).
  split; [rewrite C1; apply Forall_pdel; exact Hall | lia].
Qed.

Lemma L_advance cw cw' h w g : cw <= cw' -> LInv cw h w g -> LInv cw' h w g.
Proof.
  intros Hle (L1 & (T1 & T2) & L3 & L4 & L5). split; [lia|].
  split; [split; [eapply Forall_impl; [|exact T1]; intros up Hp; apply (prog_ok_mono cw); assumption | lia]|].
  split; [|split; [apply (MInv_advance cw); assumption | exact L5]].
  unfold CI in *. destruct (bh_cfg h); destruct (g_fac g) as [[f0 log]|]; try assumption. destruct L3; split; [assumption | lia].
Qed.

(** ------------------------------------------------------------------ every reachable state *)
Definition BInv (s : bst) (g : bghost) : Prop :=
  b_first s <= b_epoch s /\ LInv (bcur_week s) (b_h s) (b_w s) g.

Lemma BInv_init epoch : BInv (init_b epoch) bg0.
Proof.
  split; [simpl; lia|]. unfold LInv. simpl.
  assert (Hcw : bcur_week (init_b epoch) = 1).
  { unfold bcur_week; simpl. rewrite Z.sub_diag. pose proof week_pos. rewrite Z.div_0_l by lia. reflexivity. }
  rewrite Hcw. split; [lia|]. split; [split; [constructor | simpl; lia]|]. split; [exact I|].
  split; [apply (MInv_init 1) | simpl; split; [lia | vm_compute; discriminate]].
Qed.

Ltac gx := intros; unfold gcuts, gpaid, gswept; simpl; rewrite ?aget_add_at, ?aget_add_all; simpl;
           try (destruct (_ =? _)); lia.

Lemma wf_in_ok cur pos full supply : wf_in cur pos full supply = true ->
  0 <= en_tok cur /\ 0 <= pos /\ 0 <= full /\ 0 <= supply.
Proof.
  unfold wf_in. rewrite !andb_true_iff, !Z.leb_le. tauto.
Qed.

Lemma step_inv s g op s' out :
  BInv s g -> step s op = Ok (s', out) -> BInv s' (gupd g op (bcur_week s) out).
Proof.
  intros (Htime & L) Hs. pose proof (bcur_week_pos s Htime) as Hpos.
  destruct op; simpl in Hs.
  - (* BAdvance *)
    unfold ep_advance in Hs. destruct (0 <=? n) eqn:En; [|discriminate]. apply Z.leb_le in En. inversion Hs; subst; clear Hs.
    split; [simpl; lia|]. simpl b_h; simpl b_w.
    assert (Hle : bcur_week s <= bcur_week (mkB (b_h s) (b_w s) (b_first s) (b_epoch s + n))).
    { unfold bcur_week; simpl. pose proof week_pos.
      pose proof (Z.div_le_mono (b_epoch s - b_first s) (b_epoch s + n - b_first s) WK). lia. }
    apply (L_advance _ _ _ _ _ Hle). apply (L_gext _ _ _ g); try gx; [reflexivity | exact L].
  - (* BEnter *)
    unfold ep_enter in Hs. destruct pre; [|discriminate]. destruct (wf_in cur pos full supply) eqn:Ew; [|discriminate].
    apply wf_in_ok in Ew. destruct Ew as (W1 & W2 & W3 & W4).
    apply bind_ok in Hs. destruct Hs as (cw & Hcw & Hs). destruct (current_week_b _ _ Hcw) as (-> & _).
    apply bind_ok in Hs. destruct Hs as ([[h1 w1] det] & Hc & Hs).
    apply bind_ok in Hs. destruct Hs as ([[h2 bs] cut] & Hsl & Hs).
    apply bind_ok in Hs. destruct Hs as (w2 & Hu & Hs). inversion Hs; subst; clear Hs.
    split; [exact Htime|]. change (bcur_week (with_hw s (set_sup h2 (bcur_week s) supply) w2)) with (bcur_week s). simpl b_h; simpl b_w.
    pose proof (L_claim _ _ _ _ _ _ _ _ _ _ L W1 Hc) as L1.
    pose proof (L_slice _ _ _ _ _ _ _ _ L1 W3 Hsl) as L2.
    pose proof (L_uep _ _ _ _ _ _ _ (L_sup _ _ _ _ (bcur_week s) supply L2) W1 Hu) as L3.
    apply (L_gext _ _ _ _ _) with (8 := L3); try gx; reflexivity.
  - (* BClaim *)
    unfold ep_claim in Hs. destruct pre; [|discriminate]. destruct (wf_in cur pos full supply) eqn:Ew; [|discriminate].
    apply wf_in_ok in Ew. destruct Ew as (W1 & W2 & W3 & W4).
    apply bind_ok in Hs. destruct Hs as (cw & Hcw & Hs). destruct (current_week_b _ _ Hcw) as (-> & _).
    apply bind_ok in Hs. destruct Hs as ([[h1 bs] cut] & Hsl & Hs).
    apply bind_ok in Hs. destruct Hs as ([[h2 w1] det] & Hc & Hs). inversion Hs; subst; clear Hs.
    split; [exact Htime|]. change (bcur_week (with_hw s (set_sup h2 (bcur_week s) supply) w1)) with (bcur_week s). simpl b_h; simpl b_w.
    pose proof (L_slice _ _ _ _ _ _ _ _ L W3 Hsl) as L1.
    pose proof (L_claim _ _ _ _ _ _ _ _ _ _ L1 W1 Hc) as L2.
    pose proof (L_sup _ _ _ _ (bcur_week s) supply L2) as L3.
    apply (L_gext _ _ _ _ _) with (8 := L3); try gx; reflexivity.
  - (* BCompound *)
    unfold ep_compound in Hs. destruct pre; [|discriminate]. destruct (wf_in cur pos full supply) eqn:Ew; [|discriminate].
    apply wf_in_ok in Ew. destruct Ew as (W1 & W2 & W3 & W4).
    apply bind_ok in Hs. destruct Hs as (cw & Hcw & Hs). destruct (current_week_b _ _ Hcw) as (-> & _).
    apply bind_ok in Hs. destruct Hs as ([[h1 bs] cut] & Hsl & Hs).
    apply bind_ok in Hs. destruct Hs as ([[h2 w1] det] & Hc & Hs).
    apply bind_ok in Hs. destruct Hs as (w2 & Hu & Hs). inversion Hs; subst; clear Hs.
    split; [exact Htime|]. change (bcur_week (with_hw s (set_sup h2 (bcur_week s) supply) w2)) with (bcur_week s). simpl b_h; simpl b_w.
    pose proof (L_slice _ _ _ _ _ _ _ _ L W3 Hsl) as L1.
    pose proof (L_claim _ _ _ _ _ _ _ _ _ _ L1 W1 Hc) as L2.
    pose proof (L_uep _ _ _ _ _ _ _ (L_sup _ _ _ _ (bcur_week s) supply L2) W1 Hu) as L3.
    apply (L_gext _ _ _ _ _) with (8 := L3); try gx; reflexivity.
  - (* BExit *)
    unfold ep_exit in Hs. destruct pre; [|discriminate].
    destruct (wf_in cur pos full supply && (0 <=? posa)) eqn:Ew; [|discriminate].
    apply andb_true_iff in Ew. destruct Ew as (Ew & _).
    apply wf_in_ok in Ew. destruct Ew as (W1 & W2 & W3 & W4).
    apply bind_ok in Hs. destruct Hs as (cw & Hcw & Hs). destruct (current_week_b _ _ Hcw) as (-> & _).
    apply bind_ok in Hs. destruct Hs as ([[h1 bs] cut] & Hsl & Hs).
    apply bind_ok in Hs. destruct Hs as ([[h2 w1] det] & Hc & Hs).
    apply bind_ok in Hs. destruct Hs as (w2 & Hu & Hs). inversion Hs; subst; clear Hs.
    split; [exact Htime|]. change (bcur_week (with_hw s (set_sup h2 (bcur_week s) supply) w2)) with (bcur_week s). simpl b_h; simpl b_w.
    pose proof (L_slice _ _ _ _ _ _ _ _ L W3 Hsl) as L1.
    pose proof (L_claim _ _ _ _ _ _ _ _ _ _ L1 W1 Hc) as L2.
    pose proof (L_clear _ _ _ _ _ _ _ _ _ (L_sup _ _ _ _ (bcur_week s) supply L2) Hu) as L3.
    apply (L_gext _ _ _ _ _) with (8 := L3); try gx; reflexivity.
  - (* BMerge *)
    unfold ep_merge in Hs. destruct pre; [|discriminate]. destruct (wf_in cur pos 0 0) eqn:Ew; [|discriminate].
    apply wf_in_ok in Ew. destruct Ew as (W1 & W2 & W3 & W4).
    apply bind_ok in Hs. destruct Hs as (cw & Hcw & Hs). destruct (current_week_b _ _ Hcw) as (-> & _).
    apply bind_ok in Hs. destruct Hs as ([[h1 w1] det] & Hc & Hs). inversion Hs; subst; clear Hs.
    split; [exact Htime|]. change (bcur_week (with_hw s h1 w1)) with (bcur_week s). simpl b_h; simpl b_w.
    pose proof (L_claim _ _ _ _ _ _ _ _ _ _ L W1 Hc) as L1.
    apply (L_gext _ _ _ _ _) with (8 := L1); try gx; reflexivity.
  - (* BClaimBoosted *)
    unfold ep_claim_boosted in Hs. destruct pre; [|discriminate]. destruct (wf_in cur pos full supply) eqn:Ew; [|discriminate].
    apply wf_in_ok in Ew. destruct Ew as (W1 & W2 & W3 & W4). destruct (negb (pos =? 0)); [|discriminate].
    apply bind_ok in Hs. destruct Hs as (cw & Hcw & Hs). destruct (current_week_b _ _ Hcw) as (-> & _).
    apply bind_ok in Hs. destruct Hs as ([[h1 bs] cut] & Hsl & Hs).
    apply bind_ok in Hs. destruct Hs as ([[h2 w1] det] & Hc & Hs). inversion Hs; subst; clear Hs.
    split; [exact Htime|]. change (bcur_week (with_hw s (set_sup h2 (bcur_week s) supply) w1)) with (bcur_week s). simpl b_h; simpl b_w.
    pose proof (L_slice _ _ _ _ _ _ _ _ L W3 Hsl) as L1.
    pose proof (L_claim _ _ _ _ _ _ _ _ _ _ L1 W1 Hc) as L2.
    pose proof (L_sup _ _ _ _ (bcur_week s) supply L2) as L3.
    apply (L_gext _ _ _ _ _) with (8 := L3); try gx; reflexivity.
  - (* BSettle *)
    unfold ep_settle in Hs. destruct pre; [|discriminate]. destruct (0 <=? full) eqn:Ef; [|discriminate]. apply Z.leb_le in Ef.
    apply bind_ok in Hs. destruct Hs as (cw & Hcw & Hs). destruct (current_week_b _ _ Hcw) as (-> & _).
    apply bind_ok in Hs. destruct Hs as ([[h1 bs] cut] & Hsl & Hs). inversion Hs; subst; clear Hs.
    split; [exact Htime|]. change (bcur_week (with_hw s h1 (b_w s))) with (bcur_week s). simpl b_h; simpl b_w.
    pose proof (L_slice _ _ _ _ _ _ _ _ L Ef Hsl) as L1.
    apply (L_gext _ _ _ _ _) with (8 := L1); try gx; reflexivity.
  - (* BSetPct *)
    unfold ep_set_pct in Hs. destruct (admin c); [|discriminate].
    destruct ((0 <=? p) && (p <=? BOOSTED_MAX_PERCENT)) eqn:Ep; [|discriminate].
    apply andb_true_iff in Ep. destruct Ep as (P1 & P2). apply Z.leb_le in P1. apply Z.leb_le in P2.
    destruct (0 <=? full) eqn:Ef; [|discriminate]. apply Z.leb_le in Ef.
    apply bind_ok in Hs. destruct Hs as (cw & Hcw & Hs). destruct (current_week_b _ _ Hcw) as (-> & _).
    apply bind_ok in Hs. destruct Hs as ([[h1 bs] cut] & Hsl & Hs). inversion Hs; subst; clear Hs.
    split; [exact Htime|]. change (bcur_week (with_hw s (set_pct h1 p) (b_w s))) with (bcur_week s). simpl b_h; simpl b_w.
    pose proof (L_slice _ _ _ _ _ _ _ _ L Ef Hsl) as (L1 & L2 & L3 & L4 & L5).
    assert (L' : LInv (bcur_week s) (set_pct h1 p) (b_w s) (g_cut g (bcur_week s) cut)).
    { split; [exact L1|]. split; [exact L2|]. split; [exact L3|]. split; [apply (MInv_ext _ h1); try reflexivity; exact L4 | simpl; lia]. }
    apply (L_gext _ _ _ _ _) with (8 := L'); try gx; reflexivity.
  - (* BSetFactors *)
    unfold ep_set_factors in Hs. destruct (admin c); [|discriminate].
    destruct ((0 <=? fa_max f) && (0 <=? fa_ce f) && (0 <=? fa_cf f)); [|discriminate].
    destruct ((0 <? fa_mine f) && (0 <? fa_minf f)); [|discriminate].
    destruct ((0 <? fa_ce f) || (0 <? fa_cf f)); [|discriminate].
    apply bind_ok in Hs. destruct Hs as (cw & Hcw & Hs). destruct (current_week_b _ _ Hcw) as (-> & _).
    apply bind_ok in Hs. destruct Hs as (c' & Hu & Hs). inversion Hs; subst; clear Hs.
    split; [exact Htime|]. change (bcur_week (with_hw s (set_cfg (b_h s) (Some c')) (b_w s))) with (bcur_week s). simpl b_h; simpl b_w.
    destruct L as (L1 & L2 & L3 & L4 & L5).
    split; [exact L1|]. split; [exact L2|]. split; [|split; [|exact L5]].
    + simpl. unfold CI in *. destruct (bh_cfg (b_h s)) as [cfg|]; destruct (g_fac g) as [[f0 log]|]; try contradiction.
      * destruct L3 as (Hi & _). destruct (cfg_update_inv _ _ _ _ _ _ Hi Hu) as (_ & Hl & Hi'). split; [exact Hi' | lia].
      * inversion Hu; subst. split; [apply cfg_new_inv | simpl; lia].
    + apply (MInv_ext _ (b_h s)); try reflexivity. apply (MInv_gext _ _ _ g); try gx. exact L4.
  - (* BCollect *)
    unfold ep_collect in Hs. destruct (admin c); [|discriminate].
    apply bind_ok in Hs. destruct Hs as (cw & Hcw & Hs). destruct (current_week_b _ _ Hcw) as (-> & _).
    destruct (COLLECT_OFFSET <? bcur_week s) eqn:Eo; [|discriminate]. apply Z.ltb_lt in Eo. rewrite collect_offset_eq in *.
    destruct (bcur_week s - (MAXW + 1) <? bh_lastcol (b_h s) + 1) eqn:El.
    + inversion Hs; subst; clear Hs. split; [exact Htime|]. apply (L_gext _ _ _ g); try gx; [reflexivity | exact L].
    + apply Z.ltb_ge in El.
      destruct (sweep (Z.to_nat (bcur_week s - (MAXW + 1) - (bh_lastcol (b_h s) + 1) + 1)) (bh_lastcol (b_h s) + 1) (b_h s)) as [h1 l] eqn:Esw.
      inversion Hs; subst; clear Hs. split; [exact Htime|].
      change (bcur_week (with_hw s (set_lastcol h1 (bcur_week s - (MAXW + 1))) (b_w s))) with (bcur_week s). simpl b_h; simpl b_w.
      destruct L as (L1 & L2 & L3 & L4 & L5).
      destruct (sweep_spec _ _ _ _ _ Esw) as (_ & _ & _ & _ & _ & _ & S7 & S8 & _).
      split; [exact L1|]. split; [exact L2|]. split; [simpl; rewrite S8; exact L3|]. split; [|simpl; rewrite S7; exact L5].
      pose proof (M_sweep _ _ _ _ _ _ _ _ L4 eq_refl eq_refl El Esw) as M'.
      apply (MInv_gext _ _ _ (g_sweep g l)); try gx. exact M'.
  - (* BUpdateEnergy *)
    unfold ep_update_energy in Hs. destruct (0 <=? en_tok cur) eqn:Et; [|discriminate]. apply Z.leb_le in Et.
    apply bind_ok in Hs. destruct Hs as (cw & Hcw & Hs). destruct (current_week_b _ _ Hcw) as (-> & _).
    apply bind_ok in Hs. destruct Hs as (w' & Hu & Hs). inversion Hs; subst; clear Hs.
    split; [exact Htime|]. change (bcur_week (with_hw s (b_h s) w')) with (bcur_week s). simpl b_h; simpl b_w.
    unfold update_energy_for_user in Hu. destruct (match pfind (w_prog (b_w s)) u with Some p => pr_week p =? bcur_week s | None => true end); [|discriminate].
    pose proof (L_uep _ _ _ _ _ _ _ L Et Hu) as L1.
    apply (L_gext _ _ _ g); try gx; [reflexivity | exact L1].
Qed.

Lemma bgstep_inv s g op : BInv s g -> BInv (fst (bgstep (s, g) op)) (snd (bgstep (s, g) op)).
Proof.
  intros Hi. unfold bgstep; simpl. destruct (step s op) as [[s' out]|] eqn:Es; simpl; [|exact Hi].
  apply (step_inv _ _ _ _ _ Hi Es).
Qed.

Lemma bgrun_inv ops : forall s g, BInv s g -> BInv (fst (bgrun (s, g) ops)) (snd (bgrun (s, g) ops)).
Proof.
  unfold bgrun. induction ops as [|op t IH]; intros s g Hi; simpl; [exact Hi|].
  destruct (bgstep (s, g) op) as [s1 g1] eqn:E. apply IH.
  pose proof (bgstep_inv s g op Hi) as H1. rewrite E in H1. exact H1.
Qed.

Lemma reach_inv epoch ops : BInv (fst (bgrun (init_b epoch, bg0) ops)) (snd (bgrun (init_b epoch, bg0) ops)).
Proof. apply bgrun_inv. apply BInv_init. Qed.

(** ================================================================== Part E: the property's clauses *)
(** ------------------------------------------------------------------ at most once per (user, week) *)
(** whose boosted rewards an operation settles, with which energy entry and which position amount *)
Definition claim_of (op : bop) : option (Z * en * Z) :=
  match op with
  | BEnter _ u cur pos _ _ | BClaim _ u cur pos _ _ | BCompound _ u cur pos _ _ | BExit _ u cur pos _ _ _
  | BMerge _ u cur pos | BClaimBoosted _ u cur pos _ _ => Some (u, cur, pos)
  | _ => None
  end.

(** the (user, week) pairs a successful operation processes *)
Definition bevents (op : bop) (out : bout) : list (Z * Z) :=
  match claim_of op with
  | Some (u, _, _) => map (fun wr => (u, fst wr)) (o_det out)
  | None => []
  end.

Fixpoint brun_log (s : bst) (ops : list bop) : list (Z * Z) :=
  match ops with
  | [] => []
  | op :: t => match step s op with
               | Ok (s', out) => bevents op out ++ brun_log s' t
               | Err _ => brun_log s t
               end
  end.

(** the first week a user can still be paid for *)
Definition from_l (l : list (Z * progress)) (cw u : Z) : Z :=
  match pfind l u with Some p => pr_week p | None => cw end.
Definition bclaimable_from (s : bst) (u : Z) : Z := from_l (w_prog (b_w s)) (bcur_week s) u.

Lemma from_after l u cw cur u' : from_l (progress_after l u cw cur) cw u' = if u =? u' then cw else from_l l cw u'.
Proof.
  unfold from_l. rewrite progress_after_find. destruct (u =? u'); [|reflexivity]. destruct (0 <? en_amount cur); reflexivity.
Qed.

Lemma from_pdel l u cw u' : from_l (pdel l u) cw u' = if u =? u' then cw else from_l l cw u'.
Proof.
  unfold from_l. destruct (u =? u') eqn:E.
  - apply Z.eqb_eq in E. subst. rewrite pfind_pdel_same. reflexivity.
  - apply Z.eqb_neq in E. rewrite pfind_pdel_other by exact E. reflexivity.
Qed.

Lemma from_le l cw u : Forall (prog_ok cw) l -> from_l l cw u <= cw.
Proof.
  intros Hall. unfold from_l. destruct (pfind l u) as [p|] eqn:Ep; [|lia].
  apply pfind_in in Ep. rewrite Forall_forall in Hall. apply (Hall _ Ep).
Qed.

Lemma claim_boosted_prog cw h w u pos cur h' w' det :
  TInv cw w -> claim_boosted h w u pos cw cur = Ok (h', w', det) ->
  NoDup (map fst det) /\
  ((det = [] /\ w_prog w' = w_prog w) \/
   (w_prog w' = progress_after (w_prog w) u cw cur /\
    forall x, In x (map fst det) -> from_l (w_prog w) cw u <= x < cw /\ cw - MAXW <= x)).
Proof.
  intros HT Hc.
  assert (Hwf : forall p, pfind (w_prog w) u = Some p -> 0 <= en_tok (pr_en p)) by (intros p Hp; apply (T_find _ _ _ _ HT Hp)).
  destruct (claim_boosted_summary _ _ _ _ _ _ _ _ _ Hwf Hc) as [(_ & -> & -> & ->)|(c & cfg & s1 & _ & _ & _ & Hpa & _ & _ & Hm & (S1 & _))].
  - split; [constructor|]. left. split; reflexivity.
  - rewrite S1. unfold from_l. destruct (pfind (w_prog w) u) as [p|] eqn:Ep.
    + split; [apply zseq_nodup|]. right. split; [exact Hpa|]. intros x Hin. destruct Hm as (Hle & _).
      destruct (claim_range_window _ _ _ Hle Hin). lia.
    + split; [constructor|]. right. split; [exact Hpa|]. intros x [].
Qed.

Lemma chain_once cw l l1 l' u cur (ws : list Z) :
  Forall (prog_ok cw) l ->
  ((ws = [] /\ l1 = l) \/ (l1 = progress_after l u cw cur /\ forall x, In x ws -> from_l l cw u <= x < cw /\ cw - MAXW <= x)) ->
  (l' = l1 \/ l' = progress_after l1 u cw cur \/ l' = pdel l1 u) ->
  (forall u', from_l l cw u' <= from_l l' cw u') /\ (forall x, In x ws -> from_l l cw u <= x < from_l l' cw u).
Proof.
  intros Hall H1 H2.
  assert (Hle : forall u', from_l l cw u' <= cw) by (intros; apply from_le; exact Hall).
  assert (F1 : forall u', from_l l cw u' <= from_l l1 cw u').
  { intros u'. destruct H1 as [(_ & ->)|(-> & _)]; [lia|]. rewrite from_after. destruct (u =? u'); [apply Hle | lia]. }
  assert (F2 : forall u', from_l l1 cw u' <= from_l l' cw u' /\ (from_l l1 cw u = cw -> from_l l' cw u = cw)).
  { intros u'. destruct H2 as [->|[->| ->]]; [split; [lia | tauto]| |].
    - rewrite !from_after, Z.eqb_refl. split; [|reflexivity]. destruct (u =? u'); [|lia].
      destruct H1 as [(_ & ->)|(-> & _)]; [apply Hle | rewrite from_after; destruct (u =? u'); [lia | apply Hle]].
    - rewrite !from_pdel, Z.eqb_refl. split; [|reflexivity]. destruct (u =? u'); [|lia].
      destruct H1 as [(_ & ->)|(-> & _)]; [apply Hle | rewrite from_after; destruct (u =? u'); [lia | apply Hle]]. }
  split; [intros u'; specialize (F1 u'); destruct (F2 u'); lia|].
  intros x Hin. destruct H1 as [(-> & _)|(-> & Hr)]; [destruct Hin|].
  destruct (Hr x Hin) as (Hx & _). destruct (F2 u) as (_ & Hk). rewrite from_after, Z.eqb_refl in Hk. rewrite (Hk eq_refl). exact Hx.
Qed.

Lemma events_map (u : Z) (det : list (Z * list (Z * Z))) (x w : Z) :
  In (x, w) (map (fun wr : Z * list (Z * Z) => (u, fst wr)) det) <-> x = u /\ In w (map fst det).
Proof.
  rewrite !in_map_iff. split.
  - intros ([w0 r] & Heq & Hin). simpl in Heq. inversion Heq. split; [reflexivity|]. exists (w0, r). split; [simpl; congruence | exact Hin].
  - intros (Hx & ([w0 r] & Heq & Hin)). simpl in Heq. exists (w0, r). split; [simpl; congruence | exact Hin].
Qed.

Lemma events_nodup (u : Z) (det : list (Z * list (Z * Z))) : NoDup (map fst det) -> NoDup (map (fun wr : Z * list (Z * Z) => (u, fst wr)) det).
Proof.
  induction det as [|[w r] t IH]; simpl; intros Hnd; [constructor|]. inversion Hnd; subst.
  constructor; [|apply IH; assumption]. intros Hin. apply events_map in Hin. destruct Hin as (_ & Hin). contradiction.
Qed.

Lemma clear_prog h0 w u cw ep posa w' : clear_if_needed h0 w u cw ep posa = Ok w' ->
  w_prog w' = w_prog w \/ w_prog w' = pdel (w_prog w) u.
Proof.
  unfold clear_if_needed. intros Hc. apply bind_ok in Hc. destruct Hc as (oc & _ & Hc).
  destruct oc as [cfg|]; [|inversion Hc; left; reflexivity].
  destruct (clear_spec _ _ _ _ _ _ _ Hc) as [->|(C1 & _)]; [left; reflexivity | right; exact C1].
Qed.

Lemma step_claimable s g op s' out :
  BInv s g -> step s op = Ok (s', out) ->
  (forall u, bclaimable_from s u <= bclaimable_from s' u) /\
  (forall u w, In (u, w) (bevents op out) -> bclaimable_from s u <= w < bclaimable_from s' u) /\
  NoDup (bevents op out).
Proof.
  intros (Htime & L) Hs. destruct L as (Hpos & HT & _). pose proof HT as (Hall & _).
  assert (Hsame : forall l', bcur_week s' = bcur_week s -> w_prog (b_w s') = l' -> bevents op out = [] ->
                  (forall u', from_l (w_prog (b_w s)) (bcur_week s) u' <= from_l l' (bcur_week s) u') ->
                  (forall u, bclaimable_from s u <= bclaimable_from s' u) /\
                  (forall u w, In (u, w) (bevents op out) -> bclaimable_from s u <= w < bclaimable_from s' u) /\
                  NoDup (bevents op out)).
  { intros l' Hw Hl He Hf. rewrite He. unfold bclaimable_from. rewrite Hw, Hl. split; [exact Hf|]. split; [intros u w []|constructor]. }
  assert (Hchain : forall (u : Z) (cur : en) (det : list (Z * list (Z * Z))) l1 l', bcur_week s' = bcur_week s -> w_prog (b_w s') = l' ->
            bevents op out = map (fun wr : Z * list (Z * Z) => (u, fst wr)) det ->
            NoDup (map fst det) ->
            ((det = [] /\ l1 = w_prog (b_w s)) \/
             (l1 = progress_after (w_prog (b_w s)) u (bcur_week s) cur /\
              forall x, In x (map fst det) -> from_l (w_prog (b_w s)) (bcur_week s) u <= x < bcur_week s /\ bcur_week s - MAXW <= x)) ->
            (l' = l1 \/ l' = progress_after l1 u (bcur_week s) cur \/ l' = pdel l1 u) ->
            (forall u, bclaimable_from s u <= bclaimable_from s' u) /\
            (forall u w, In (u, w) (bevents op out) -> bclaimable_from s u <= w < bclaimable_from s' u) /\
            NoDup (bevents op out)).
  { intros u cur det l1 l' Hw Hl He Hnd H1 H2. rewrite He. unfold bclaimable_from. rewrite Hw, Hl.
    assert (H1' : (map fst det = [] /\ l1 = w_prog (b_w s)) \/
             (l1 = progress_after (w_prog (b_w s)) u (bcur_week s) cur /\
              forall x, In x (map fst det) -> from_l (w_prog (b_w s)) (bcur_week s) u <= x < bcur_week s /\ bcur_week s - MAXW <= x)).
    { destruct H1 as [(-> & E)|H1]; [left; split; [reflexivity | exact E] | right; exact H1]. }
    destruct (chain_once _ _ _ _ _ _ _ Hall H1' H2) as (C1 & C2).
    split; [exact C1|]. split; [|apply events_nodup; exact Hnd].
    intros x w Hin. apply events_map in Hin. destruct Hin as (-> & Hin). apply (C2 w Hin). }
  destruct op; simpl in Hs.
  - (* BAdvance *)
    unfold ep_advance in Hs. destruct (0 <=? n) eqn:En; [|discriminate]. apply Z.leb_le in En. inversion Hs; subst; clear Hs.
    assert (Hle : bcur_week s <= bcur_week (mkB (b_h s) (b_w s) (b_first s) (b_epoch s + n))).
    { unfold bcur_week; simpl. pose proof week_pos.
      pose proof (Z.div_le_mono (b_epoch s - b_first s) (b_epoch s + n - b_first s) WK). lia. }
    split; [|split; [intros u w [] | constructor]]. intros u. unfold bclaimable_from, from_l; simpl.
    destruct (pfind (w_prog (b_w s)) u); lia.
  - unfold ep_enter in Hs. destruct pre; [|discriminate]. destruct (wf_in cur pos full supply); [|discriminate].
    apply bind_ok in Hs. destruct Hs as (cw & Hcw & Hs). destruct (current_week_b _ _ Hcw) as (-> & _).
    apply bind_ok in Hs. destruct Hs as ([[h1 w1] det] & Hc & Hs).
    apply bind_ok in Hs. destruct Hs as ([[h2 bs] cut] & Hsl & Hs).
    apply bind_ok in Hs. destruct Hs as (w2 & Hu & Hs). inversion Hs; subst; clear Hs.
    destruct (claim_boosted_prog _ _ _ _ _ _ _ _ _ HT Hc) as (Hnd & Hp). destruct (uep_spec _ _ _ _ _ Hu) as (U1 & _).
    apply (Hchain u cur det (w_prog w1) _ eq_refl eq_refl eq_refl Hnd).
    + destruct Hp as [(E1 & E2)|(E1 & E2)]; [left; split; [exact E1 | exact E2] | right; split; [exact E1 | exact E2]].
    + right. left. exact U1.
  - unfold ep_claim in Hs. destruct pre; [|discriminate]. destruct (wf_in cur pos full supply); [|discriminate].
    apply bind_ok in Hs. destruct Hs as (cw & Hcw & Hs). destruct (current_week_b _ _ Hcw) as (-> & _).
    apply bind_ok in Hs. destruct Hs as ([[h1 bs] cut] & Hsl & Hs).
    apply bind_ok in Hs. destruct Hs as ([[h2 w1] det] & Hc & Hs). inversion Hs; subst; clear Hs.
    destruct (claim_boosted_prog _ _ _ _ _ _ _ _ _ HT Hc) as (Hnd & Hp).
    apply (Hchain u cur det (w_prog w1) _ eq_refl eq_refl eq_refl Hnd); [|left; reflexivity].
    destruct Hp as [(E1 & E2)|(E1 & E2)]; [left; split; [exact E1 | exact E2] | right; split; [exact E1 | exact E2]].
  - unfold ep_compound in Hs. destruct pre; [|discriminate]. destruct (wf_in cur pos full supply); [|discriminate].
    apply bind_ok in Hs. destruct Hs as (cw & Hcw & Hs). destruct (current_week_b _ _ Hcw) as (-> & _).
    apply bind_ok in Hs. destruct Hs as ([[h1 bs] cut] & Hsl & Hs).
    apply bind_ok in Hs. destruct Hs as ([[h2 w1] det] & Hc & Hs).
    apply bind_ok in Hs. destruct Hs as (w2 & Hu & Hs). inversion Hs; subst; clear Hs.
    destruct (claim_boosted_prog _ _ _ _ _ _ _ _ _ HT Hc) as (Hnd & Hp). destruct (uep_spec _ _ _ _ _ Hu) as (U1 & _).
    apply (Hchain u cur det (w_prog w1) _ eq_refl eq_refl eq_refl Hnd); [|right; left; exact U1].
    destruct Hp as [(E1 & E2)|(E1 & E2)]; [left; split; [exact E1 | exact E2] | right; split; [exact E1 | exact E2]].
  - unfold ep_exit in Hs. destruct pre; [|discriminate]. destruct (wf_in cur pos full supply && (0 <=? posa)); [|discriminate].
    apply bind_ok in Hs. destruct Hs as (cw & Hcw & Hs). destruct (current_week_b _ _ Hcw) as (-> & _).
    apply bind_ok in Hs. destruct Hs as ([[h1 bs] cut] & Hsl & Hs).
    apply bind_ok in Hs. destruct Hs as ([[h2 w1] det] & Hc & Hs).
    apply bind_ok in Hs. destruct Hs as (w2 & Hu & Hs). inversion Hs; subst; clear Hs.
    destruct (claim_boosted_prog _ _ _ _ _ _ _ _ _ HT Hc) as (Hnd & Hp).
    apply (Hchain u cur det (w_prog w1) _ eq_refl eq_refl eq_refl Hnd).
    + destruct Hp as [(E1 & E2)|(E1 & E2)]; [left; split; [exact E1 | exact E2] | right; split; [exact E1 | exact E2]].
    + destruct (clear_prog _ _ _ _ _ _ _ Hu) as [E|E]; [left; exact E | right; right; exact E].
  - unfold ep_merge in Hs. destruct pre; [|discriminate]. destruct (wf_in cur pos 0 0); [|discriminate].
    apply bind_ok in Hs. destruct Hs as (cw & Hcw & Hs). destruct (current_week_b _ _ Hcw) as (-> & _).
    apply bind_ok in Hs. destruct Hs as ([[h1 w1] det] & Hc & Hs). inversion Hs; subst; clear Hs.
    destruct (claim_boosted_prog _ _ _ _ _ _ _ _ _ HT Hc) as (Hnd & Hp).
    apply (Hchain u cur det (w_prog w1) _ eq_refl eq_refl eq_refl Hnd); [|left; reflexivity].
    destruct Hp as [(E1 & E2)|(E1 & E2)]; [left; split; [exact E1 | exact E2] | right; split; [exact E1 | exact E2]].
  - unfold ep_claim_boosted in Hs. destruct pre; [|discriminate]. destruct (wf_in cur pos full supply); [|discriminate].
    destruct (negb (pos =? 0)); [|discriminate].
    apply bind_ok in Hs. destruct Hs as (cw & Hcw & Hs). destruct (current_week_b _ _ Hcw) as (-> & _).
    apply bind_ok in Hs. destruct Hs as ([[h1 bs] cut] & Hsl & Hs).
    apply bind_ok in Hs. destruct Hs as ([[h2 w1] det] & Hc & Hs). inversion Hs; subst; clear Hs.
    destruct (claim_boosted_prog _ _ _ _ _ _ _ _ _ HT Hc) as (Hnd & Hp).
    apply (Hchain u cur det (w_prog w1) _ eq_refl eq_refl eq_refl Hnd); [|left; reflexivity].
    destruct Hp as [(E1 & E2)|(E1 & E2)]; [left; split; [exact E1 | exact E2] | right; split; [exact E1 | exact E2]].
  - unfold ep_settle in Hs. destruct pre; [|discriminate]. destruct (0 <=? full); [|discriminate].
    apply bind_ok in Hs. destruct Hs as (cw & Hcw & Hs).
    apply bind_ok in Hs. destruct Hs as ([[h1 bs] cut] & Hsl & Hs). inversion Hs; subst; clear Hs.
    apply (Hsame _ eq_refl eq_refl eq_refl). intros; simpl; lia.
  - unfold ep_set_pct in Hs. destruct (admin c); [|discriminate]. destruct ((0 <=? p) && (p <=? BOOSTED_MAX_PERCENT)); [|discriminate].
    destruct (0 <=? full); [|discriminate].
    apply bind_ok in Hs. destruct Hs as (cw & Hcw & Hs).
    apply bind_ok in Hs. destruct Hs as ([[h1 bs] cut] & Hsl & Hs). inversion Hs; subst; clear Hs.
    apply (Hsame _ eq_refl eq_refl eq_refl). intros; simpl; lia.
  - unfold ep_set_factors in Hs. destruct (admin c); [|discriminate].
    destruct ((0 <=? fa_max f) && (0 <=? fa_ce f) && (0 <=? fa_cf f)); [|discriminate].
    destruct ((0 <? fa_mine f) && (0 <? fa_minf f)); [|discriminate].
    destruct ((0 <? fa_ce f) || (0 <? fa_cf f)); [|discriminate].
    apply bind_ok in Hs. destruct Hs as (cw & Hcw & Hs).
    apply bind_ok in Hs. destruct Hs as (c' & Hu & Hs). inversion Hs; subst; clear Hs.
    apply (Hsame _ eq_refl eq_refl eq_refl). intros; simpl; lia.
  - unfold ep_collect in Hs. destruct (admin c); [|discriminate].
    apply bind_ok in Hs. destruct Hs as (cw & Hcw & Hs).
    destruct (COLLECT_OFFSET <? cw); [|discriminate].
    destruct (cw - COLLECT_OFFSET <? bh_lastcol (b_h s) + 1).
    + inversion Hs; subst; clear Hs. apply (Hsame _ eq_refl eq_refl eq_refl). intros; simpl; lia.
    + destruct (sweep _ _ _) as [h1 l]. inversion Hs; subst; clear Hs. apply (Hsame _ eq_refl eq_refl eq_refl). intros; simpl; lia.
  - unfold ep_update_energy in Hs. destruct (0 <=? en_tok cur); [|discriminate].
    apply bind_ok in Hs. destruct Hs as (cw & Hcw & Hs). destruct (current_week_b _ _ Hcw) as (-> & _).
    apply bind_ok in Hs. destruct Hs as (w' & Hu & Hs). inversion Hs; subst; clear Hs.
    unfold update_energy_for_user in Hu. destruct (match pfind (w_prog (b_w s)) u with Some p => pr_week p =? bcur_week s | None => true end); [|discriminate].
    destruct (uep_spec _ _ _ _ _ Hu) as (U1 & _).
    apply (Hsame _ eq_refl U1 eq_refl). intros u'. rewrite from_after. destruct (u =? u'); [apply from_le; exact Hall | lia].
Qed.

(** over any history: every (user, week) is processed by at most one boosted settlement *)
Lemma brun_log_once ops : forall s g, BInv s g ->
  (forall u w, In (u, w) (brun_log s ops) -> bclaimable_from s u <= w) /\ NoDup (brun_log s ops).
Proof.
  induction ops as [|op t IH]; intros s g Hi; simpl.
  - split; [intros u w [] | constructor].
  - destruct (step s op) as [[s' out]|] eqn:Es; [|apply (IH s g Hi)].
    destruct (step_claimable _ _ _ _ _ Hi Es) as (Hmono & Hev & Hnd).
    destruct (IH s' _ (step_inv _ _ _ _ _ Hi Es)) as (IH1 & IH2).
    split.
    + intros u w Hin. apply in_app_or in Hin. destruct Hin as [Hin|Hin].
      * apply (Hev _ _ Hin).
      * specialize (IH1 _ _ Hin). specialize (Hmono u). lia.
    + apply NoDup_app_disjoint; [exact Hnd | exact IH2|].
      intros [u w] Hin Hin2. specialize (Hev _ _ Hin). specialize (IH1 _ _ Hin2). lia.
Qed.

(** ------------------------------------------------------------------ an operation that settles boosted rewards, taken apart *)
(** [h0]: the module storage the claim runs on (the state's, possibly after this operation's own slice went
    into the running week); [h1, w1]: right after the claim *)
Definition slice_rel (cw : Z) (h h0 : bhost) : Prop :=
  bh_rem h0 = bh_rem h /\ bh_sup h0 = bh_sup h /\ bh_cfg h0 = bh_cfg h /\ bh_und h0 = bh_und h /\
  bh_lastcol h0 = bh_lastcol h /\ bh_pct h0 = bh_pct h /\ (forall w, w <> cw -> acc_ h0 w = acc_ h w).

Lemma slice_rel_refl cw h : slice_rel cw h h.
Proof. unfold slice_rel. repeat split. Qed.

Lemma slice_rel_of cw h full h' b cut : take_reward_slice h cw full = Ok (h', b, cut) -> slice_rel cw h h'.
Proof.
  unfold take_reward_slice. destruct ((bh_pct h =? 0) || match bh_cfg h with None => true | Some _ => false end).
  - intros Heq; inversion Heq; subst. apply slice_rel_refl.
  - destruct (0 <? full * bh_pct h / BOOSTED_MAX_PERCENT).
    + intros Heq. apply bind_ok in Heq. destruct Heq as (x & _ & Heq). inversion Heq; subst.
      unfold slice_rel, acc_; simpl. repeat split. intros w Hw. apply aget_aset_other. congruence.
    + intros Heq; inversion Heq; subst. apply slice_rel_refl.
Qed.

Lemma step_claim_decomp s op s' out u cur pos :
  step s op = Ok (s', out) -> claim_of op = Some (u, cur, pos) ->
  let cw := bcur_week s in
  exists h0 h1 w1,
    0 <= en_tok cur /\ 0 <= pos /\ slice_rel cw (b_h s) h0 /\
    claim_boosted h0 (b_w s) u pos cw cur = Ok (h1, w1, o_det out) /\
    o_b out = pay_total (o_det out) /\ o_swept out = [] /\
    b_first s' = b_first s /\ b_epoch s' = b_epoch s /\
    bh_rem (b_h s') = bh_rem h1 /\ bh_und (b_h s') = bh_und h1 /\ bh_lastcol (b_h s') = bh_lastcol h1 /\
    (forall w, w <> cw -> acc_ (b_h s') w = acc_ h1 w /\ aget (bh_sup (b_h s')) w = aget (bh_sup h1) w) /\
    rw_weak cw w1 (b_w s') /\
    (forall w, w <> cw -> w <> cleared_week cw -> aget (w_energy (b_w s')) w = aget (w_energy w1) w).
Proof.
  intros Hs Hc. destruct op; try discriminate; simpl in Hc; inversion Hc; subst; clear Hc; simpl in Hs.
  - (* BEnter *)
    unfold ep_enter in Hs. destruct pre; [|discriminate]. destruct (wf_in cur pos full supply) eqn:Ew; [|discriminate].
    apply wf_in_ok in Ew. destruct Ew as (W1 & W2 & W3 & W4).
    apply bind_ok in Hs. destruct Hs as (cw & Hcw & Hs). destruct (current_week_b _ _ Hcw) as (-> & _).
    apply bind_ok in Hs. destruct Hs as ([[h1 w1] det] & Hc & Hs).
    apply bind_ok in Hs. destruct Hs as ([[h2 bs] cut] & Hsl & Hs).
    apply bind_ok in Hs. destruct Hs as (w2 & Hu & Hs). inversion Hs; subst; clear Hs.
    destruct (slice_rel_of _ _ _ _ _ _ Hsl) as (r1 & r2 & r3 & r4 & r5 & r6 & r7).
    exists (b_h s), h1, w1. simpl. split; [exact W1|]. split; [exact W2|]. split; [apply slice_rel_refl|]. split; [exact Hc|].
    repeat (split; [reflexivity || assumption|]).
    split; [intros w Hw; unfold acc_; simpl; split; [apply (r7 w Hw) | rewrite aget_aset_other by congruence; rewrite r2; reflexivity]|].
    unfold update_energy_and_progress in Hu. apply bind_ok in Hu. destruct Hu as (s1 & Hue & Heq). inversion Heq; subst; clear Heq.
    split; [intros w; rewrite store_progress_rw; apply (uue_weak _ _ _ _ _ Hue)|].
    intros w Hw1 Hw2. rewrite store_progress_energy. destruct (update_user_energy_frame _ _ _ _ _ Hue) as (_ & _ & He & _). apply He; assumption.
  - (* BClaim *)
    unfold ep_claim in Hs. destruct pre; [|discriminate]. destruct (wf_in cur pos full supply) eqn:Ew; [|discriminate].
    apply wf_in_ok in Ew. destruct Ew as (W1 & W2 & W3 & W4).
    apply bind_ok in Hs. destruct Hs as (cw & Hcw & Hs). destruct (current_week_b _ _ Hcw) as (-> & _).
    apply bind_ok in Hs. destruct Hs as ([[h1 bs] cut] & Hsl & Hs).
    apply bind_ok in Hs. destruct Hs as ([[h2 w1] det] & Hc & Hs). inversion Hs; subst; clear Hs.
    exists h1, h2, w1. simpl. split; [exact W1|]. split; [exact W2|]. split; [apply (slice_rel_of _ _ _ _ _ _ Hsl)|]. split; [exact Hc|].
    repeat (split; [reflexivity|]).
    split; [intros w Hw; unfold acc_; simpl; split; [reflexivity | apply aget_aset_other; congruence]|].
    split; [apply rw_weak_refl | intros; reflexivity].
  - (* BCompound *)
    unfold ep_compound in Hs. destruct pre; [|discriminate]. destruct (wf_in cur pos full supply) eqn:Ew; [|discriminate].
    apply wf_in_ok in Ew. destruct Ew as (W1 & W2 & W3 & W4).
    apply bind_ok in Hs. destruct Hs as (cw & Hcw & Hs). destruct (current_week_b _ _ Hcw) as (-> & _).
    apply bind_ok in Hs. destruct Hs as ([[h1 bs] cut] & Hsl & Hs).
    apply bind_ok in Hs. destruct Hs as ([[h2 w1] det] & Hc & Hs).
    apply bind_ok in Hs. destruct Hs as (w2 & Hu & Hs). inversion Hs; subst; clear Hs.
    exists h1, h2, w1. simpl. split; [exact W1|]. split; [exact W2|]. split; [apply (slice_rel_of _ _ _ _ _ _ Hsl)|]. split; [exact Hc|].
    repeat (split; [reflexivity|]).
    split; [intros w Hw; unfold acc_; simpl; split; [reflexivity | apply aget_aset_other; congruence]|].
    unfold update_energy_and_progress in Hu. apply bind_ok in Hu. destruct Hu as (s1 & Hue & Heq). inversion Heq; subst; clear Heq.
    split; [intros w; rewrite store_progress_rw; apply (uue_weak _ _ _ _ _ Hue)|].
    intros w Hw1 Hw2. rewrite store_progress_energy. destruct (update_user_energy_frame _ _ _ _ _ Hue) as (_ & _ & He & _). apply He; assumption.
  - (* BExit *)
    unfold ep_exit in Hs. destruct pre; [|discriminate]. destruct (wf_in cur pos full supply && (0 <=? posa)) eqn:Ew; [|discriminate].
    apply andb_true_iff in Ew. destruct Ew as (Ew & _). apply wf_in_ok in Ew. destruct Ew as (W1 & W2 & W3 & W4).
    apply bind_ok in Hs. destruct Hs as (cw & Hcw & Hs). destruct (current_week_b _ _ Hcw) as (-> & _).
    apply bind_ok in Hs. destruct Hs as ([[h1 bs] cut] & Hsl & Hs).
    apply bind_ok in Hs. destruct Hs as ([[h2 w1] det] & Hc & Hs).
    apply bind_ok in Hs. destruct Hs as (w2 & Hu & Hs). inversion Hs; subst; clear Hs.
    exists h1, h2, w1. simpl. split; [exact W1|]. split; [exact W2|]. split; [apply (slice_rel_of _ _ _ _ _ _ Hsl)|]. split; [exact Hc|].
    repeat (split; [reflexivity|]).
    split; [intros w Hw; unfold acc_; simpl; split; [reflexivity | apply aget_aset_other; congruence]|].
    unfold clear_if_needed in Hu. apply bind_ok in Hu. destruct Hu as (oc & _ & Hu).
    destruct oc as [cfg|]; [|inversion Hu; subst; split; [apply rw_weak_refl | intros; reflexivity]].
    unfold clear_user_energy in Hu. destruct (fa_minf (last_slot cfg) <=? posa); [inversion Hu; subst; split; [apply rw_weak_refl | intros; reflexivity]|].
    apply bind_ok in Hu. destruct Hu as (s1 & Hue & Heq). inversion Heq; subst; clear Heq.
    split; [intros w; unfold rw_; simpl; apply (uue_weak _ _ _ _ _ Hue)|].
    intros w Hw1 Hw2. simpl. destruct (update_user_energy_frame _ _ _ _ _ Hue) as (_ & _ & He & _). apply He; assumption.
  - (* BMerge *)
    unfold ep_merge in Hs. destruct pre; [|discriminate]. destruct (wf_in cur pos 0 0) eqn:Ew; [|discriminate].
    apply wf_in_ok in Ew. destruct Ew as (W1 & W2 & W3 & W4).
    apply bind_ok in Hs. destruct Hs as (cw & Hcw & Hs). destruct (current_week_b _ _ Hcw) as (-> & _).
    apply bind_ok in Hs. destruct Hs as ([[h1 w1] det] & Hc & Hs). inversion Hs; subst; clear Hs.
    exists (b_h s), h1, w1. simpl. split; [exact W1|]. split; [exact W2|]. split; [apply slice_rel_refl|]. split; [exact Hc|].
    repeat (split; [reflexivity|]). split; [intros; split; reflexivity|]. split; [apply rw_weak_refl | intros; reflexivity].
  - (* BClaimBoosted *)
    unfold ep_claim_boosted in Hs. destruct pre; [|discriminate]. destruct (wf_in cur pos full supply) eqn:Ew; [|discriminate].
    apply wf_in_ok in Ew. destruct Ew as (W1 & W2 & W3 & W4). destruct (negb (pos =? 0)); [|discriminate].
    apply bind_ok in Hs. destruct Hs as (cw & Hcw & Hs). destruct (current_week_b _ _ Hcw) as (-> & _).
    apply bind_ok in Hs. destruct Hs as ([[h1 bs] cut] & Hsl & Hs).
    apply bind_ok in Hs. destruct Hs as ([[h2 w1] det] & Hc & Hs). inversion Hs; subst; clear Hs.
    exists h1, h2, w1. simpl. split; [exact W1|]. split; [exact W2|]. split; [apply (slice_rel_of _ _ _ _ _ _ Hsl)|]. split; [exact Hc|].
    repeat (split; [reflexivity|]).
    split; [intros w Hw; unfold acc_; simpl; split; [reflexivity | apply aget_aset_other; congruence]|].
    split; [apply rw_weak_refl | intros; reflexivity].
Qed.

(** ------------------------------------------------------------------ the per-week formula at the endpoints *)
(** every entry of the breakdown is one hook call on the week's own, so far untouched, data *)
Lemma claim_weeks_calls pos cfg cw n : forall h s p h' s' p' det,
  0 <= en_tok (pr_en p) ->
  claim_weeks bhost (boosted_hook pos cfg cw) n h s p = Ok (h', s', p', det) ->
  forall w r, In (w, r) det ->
    exists hi si hi' si',
      boosted_hook pos cfg cw hi si w (energy_at p w) (aget (w_energy s) w) = Ok (hi', si', r) /\
      bh_sup hi = bh_sup h /\ acc_ hi w = acc_ h w /\ rem_ hi w = rem_ h w /\ rw_ si w = rw_ s w /\
      rw_ s' w = rw_ si' w /\ acc_ h' w = acc_ hi' w /\ rem_ h' w = rem_ hi' w.
Proof.
  induction n as [|n IH]; intros h s p h' s' p' det Ht; simpl claim_weeks.
  - intros Heq; inversion Heq; subst. intros w r [].
  - intros Heq. apply bind_ok in Heq. destruct Heq as ([[[h1 s1] p1] r0] & Hs & Heq).
    apply bind_ok in Heq. destruct Heq as ([[[h2 s2] p2] rs] & Hr & Heq). inversion Heq; subst; clear Heq.
    unfold claim_single in Hs. apply bind_ok in Hs. destruct Hs as ([[hx sx] rx] & Hh & Hs). inversion Hs; subst; clear Hs.
    rewrite advance_week_adv in Hr by assumption.
    assert (Ht1 : 0 <= en_tok (pr_en (adv p 1))) by (rewrite adv_tok; exact Ht).
    destruct (claim_weeks_money _ _ _ _ _ _ _ _ _ _ _ Ht1 Hr) as (M1 & M2 & M3 & _ & _ & _ & _ & M8 & _).
    destruct (hook_effect _ _ _ _ _ _ _ _ _ _ _ Hh) as (E1 & E2 & (f1 & _ & _ & _ & f5) & _).
    rewrite adv_week in *.
    intros w r [Heq|Hin].
    + inversion Heq; subst w r; clear Heq.
      assert (Hn : ~ In (pr_week p) (zseq (pr_week p + 1) n)) by (rewrite zseq_in; lia).
      destruct (M8 _ Hn) as ((u1 & u2 & u3) & _).
      exists h, s, h1, s1. rewrite <- en_amount_energy_at. split; [exact Hh|]. repeat (split; [reflexivity|]).
      split; [exact u3|]. split; [exact u1 | exact u2].
    + assert (Hw : In w (zseq (pr_week p + 1) n)) by (rewrite <- M2; apply (in_map fst) in Hin; exact Hin).
      assert (Hne : w <> pr_week p) by (apply zseq_in in Hw; lia).
      destruct (IH _ _ _ _ _ _ _ Ht1 Hr w r Hin) as (hi & si & hi' & si' & C1 & C2 & C3 & C4 & C5 & C6 & C7 & C8).
      exists hi, si, hi', si'. rewrite energy_at_adv in C1. destruct E1 as (_ & e2 & _). rewrite e2 in C1.
      split; [exact C1|]. split; [congruence|]. destruct (f5 w Hne) as (a1 & a2).
      split; [congruence|]. split; [congruence|]. split; [rewrite C5; apply E2; exact Hne|].
      split; [exact C6|]. split; [exact C7 | exact C8].
Qed.

(** what is paid for one processed week, in the property's own terms *)
Definition week_payment (s s' : bst) (pos : Z) (cfg : bconfig) (p : progress) (w : Z) (r : list (Z * Z)) : Prop :=
  let e := energy_at p w in let E := view_total_energy s w in let F := view_sup s w in
  ((E = 0 \/ F = 0) /\ r = []) \/
  (exists fa, E <> 0 /\ F <> 0 /\ get_factors_for_week cfg w = Ok fa /\
     (((e < fa_mine fa \/ pos < fa_minf fa) /\ r = []) \/
      (fa_mine fa <= e /\ fa_minf fa <= pos /\
       exists R, view_total_rewards s' w = [(RTOK, R)] /\
         (view_total_rewards s w = [] -> R = view_acc s w) /\
         (view_total_rewards s w <> [] -> view_total_rewards s w = [(RTOK, R)]) /\
         ((R = 0 /\ r = []) \/
          (R <> 0 /\ fa_ce fa + fa_cf fa <> 0 /\
           let x := Z.min (fa_max fa * R * pos / F)
                          ((R * fa_ce fa * e / E + R * fa_cf fa * pos / F) / (fa_ce fa + fa_cf fa)) in
           ((x <= 0 /\ r = []) \/ (0 < x /\ r = [(RTOK, x)]))))))).

Lemma step_formula s g op s' out u cur pos :
  BInv s g -> step s op = Ok (s', out) -> claim_of op = Some (u, cur, pos) ->
  (o_det out = [] /\ (bh_cfg (b_h s) = None \/ view_progress s u = None \/
                      exists p, view_progress s u = Some p /\ pr_week p = bcur_week s)) \/
  (exists p c cfg,
     view_progress s u = Some p /\ bh_cfg (b_h s) = Some c /\ cfg_update c (bcur_week s) None = Ok cfg /\
     map fst (o_det out) = claim_range p (bcur_week s) /\
     forall w r, In (w, r) (o_det out) ->
       pr_week p <= w /\ bcur_week s - MAXW <= w < bcur_week s /\ week_payment s s' pos cfg p w r).
Proof.
  intros Hi Hs Hc. pose proof Hi as (Htime & Hpos & HT & HC & HM & Hpct).
  destruct (step_claim_decomp _ _ _ _ _ _ _ Hs Hc) as (h0 & h1 & w1 & W1 & W2 & Hrel & Hcb & _ & _ & _ & _ & D1 & _ & _ & D4 & D5 & _).
  set (cw := bcur_week s) in *.
  destruct Hrel as (r1 & r2 & r3 & r4 & r5 & r6 & r7).
  assert (Hwf : forall p, pfind (w_prog (b_w s)) u = Some p -> 0 <= en_tok (pr_en p)) by (intros p Hp; apply (T_find _ _ _ _ HT Hp)).
  destruct (claim_boosted_summary _ _ _ _ _ _ _ _ _ Hwf Hcb) as [(Hn & _ & _ & Hd)|(c & cfg & s1 & Hcfg & Hu & Hue & _ & _ & _ & Hm & (S1 & _))].
  - left. split; [exact Hd|]. left. rewrite <- r3. exact Hn.
  - unfold view_progress. destruct (pfind (w_prog (b_w s)) u) as [p|] eqn:Ep.
    + right. destruct Hm as (Hle & s2 & Hs2 & Hcw). exists p, c, cfg. split; [reflexivity|]. split; [rewrite <- r3; exact Hcfg|].
      split; [exact Hu|]. split; [exact S1|].
      intros w r Hin.
      assert (Hwin : In w (claim_range p cw)) by (rewrite <- S1; apply (in_map fst) in Hin; exact Hin).
      destruct (claim_range_window _ _ _ Hle Hwin) as (Hw1 & Hw2). split; [exact Hw2|]. split; [exact Hw1|].
      assert (Ht : 0 <= en_tok (pr_en (adv p (first_claim_week p cw - pr_week p)))) by (rewrite adv_tok; apply Hwf; reflexivity).
      destruct (claim_weeks_calls _ _ _ _ _ _ _ _ _ _ _ Ht Hcw w r Hin) as (hi & si & hi' & si' & C1 & C2 & C3 & C4 & C5 & C6 & C7 & C8).
      rewrite energy_at_adv in C1.
      (* the week's data as seen by the views of the pre-state *)
      destruct (update_user_energy_frame _ _ _ _ _ Hue) as (_ & _ & He & Hrw).
      assert (Hnc : w <> cleared_week cw) by (unfold cleared_week; lia).
      assert (HE : aget (w_energy s1) w = view_total_energy s w) by (apply He; [lia | exact Hnc]).
      assert (HF : aget (bh_sup hi) w = view_sup s w) by (unfold view_sup; rewrite C2, r2; reflexivity).
      assert (HRW : rw_ si w = view_total_rewards s w) by (rewrite C5; unfold rw_, view_total_rewards; apply Hrw; exact Hnc).
      assert (HA : acc_ hi w = view_acc s w) by (rewrite C3; unfold view_acc; apply r7; lia).
      assert (HRW' : view_total_rewards s' w = rw_ si' w).
      { unfold view_total_rewards. fold (rw_ (b_w s') w). destruct (D5 w) as [E|(_ & E)]; [|contradiction].
        rewrite E, Hs2, store_progress_rw. exact C6. }
      rewrite HE in C1. unfold week_payment. fold cw.
      destruct (hook_cases _ _ _ _ _ _ _ _ _ _ _ C1 _ eq_refl) as
        [(_ & _ & -> & [Hz|[Hz|(fa & Hfa & Hlow)]])|(fa & hm & t & R & N1 & N2 & Hfa & G1 & G2 & Hcg & Hpay)].
      * left. split; [left; exact Hz | reflexivity].
      * left. split; [right; rewrite <- HF; exact Hz | reflexivity].
      * destruct (Z.eq_dec (view_total_energy s w) 0) as [Z1|Z1]; [left; split; [left; exact Z1 | reflexivity]|].
        destruct (Z.eq_dec (view_sup s w) 0) as [Z2|Z2]; [left; split; [right; exact Z2 | reflexivity]|].
        right. exists fa. split; [exact Z1|]. split; [exact Z2|]. split; [exact Hfa|]. left. split; [exact Hlow | reflexivity].
      * right. exists fa. rewrite HF in *. split; [exact N1|]. split; [exact N2|]. split; [exact Hfa|]. right.
        split; [exact G1|]. split; [exact G2|].
        (* the frozen total: token and amount *)
        destruct (hook_effect _ _ _ _ _ _ _ _ _ _ _ C1) as (_ & _ & _ & _ & Hfz & _).
        assert (Hsi' : rw_ si' w = [(t, R)]).
        { destruct (collect_and_get_cases _ _ _ _ _ _ _ Hcg) as [(_ & Htt & _ & ->)|(_ & c0 & c0' & _ & _ & _ & Htt & ->)].
          - symmetry. exact Htt.
          - unfold rw_; simpl. rewrite rget_rset_same. reflexivity. }
        assert (HtR : t = RTOK /\ (view_total_rewards s w = [] -> R = view_acc s w) /\
                      (view_total_rewards s w <> [] -> view_total_rewards s w = [(RTOK, R)])).
        { destruct Hfz as [E|(E0 & E1 & _)].
          - rewrite Hsi', HRW in E. assert (Hne : rw_ (b_w s) w <> []) by (unfold rw_, view_total_rewards in *; rewrite <- E; discriminate).
            destruct (m_frozen _ _ _ _ HM w Hne) as (F1 & _). unfold view_total_rewards, rw_ in *. rewrite F1 in E. inversion E; subst.
            split; [reflexivity|]. split; [intros Hx; rewrite Hx in F1; discriminate | intros _; exact F1].
          - rewrite Hsi' in E1. inversion E1; subst. rewrite HRW in E0. split; [reflexivity|].
            split; [intros _; exact HA | intros Hx; contradiction]. }
        destruct HtR as (-> & HR1 & HR2).
        exists R. split; [rewrite HRW'; exact Hsi'|]. split; [exact HR1|]. split; [exact HR2|].
        unfold boosted_amount, max_rewards, by_energy, by_tokens in Hpay.
        destruct Hpay as [(-> & _ & [HR0|(HR0 & Hc0 & Hx)])|(HR0 & Hc0 & Hx & _ & -> & _)].
        -- left. split; [exact HR0 | reflexivity].
        -- right. split; [exact HR0|]. split; [exact Hc0|]. left. split; [exact Hx | reflexivity].
        -- right. split; [exact HR0|]. split; [exact Hc0|]. right. split; [exact Hx | reflexivity].
    + left. destruct Hm as (-> & _). split; [reflexivity|]. right. left. reflexivity.
Qed.

(** ------------------------------------------------------------------ collectUndistributedBoostedRewards *)
Lemma collect_char s c s' out :
  ep_collect s c = Ok (s', out) ->
  let cw := bcur_week s in let first := view_lastcol s + 1 in let last := cw - (MAXW + 1) in
  c = ADMIN /\ MAXW + 1 < cw /\ b_first s <= b_epoch s /\
  b_w s' = b_w s /\ b_first s' = b_first s /\ b_epoch s' = b_epoch s /\
  bh_sup (b_h s') = bh_sup (b_h s) /\ bh_pct (b_h s') = bh_pct (b_h s) /\ bh_cfg (b_h s') = bh_cfg (b_h s) /\
  o_b out = 0 /\ o_det out = [] /\ o_cut out = 0 /\
  ((last < first /\ s' = s /\ o_swept out = []) \/
   (first <= last /\ view_lastcol s' = last /\
    o_swept out = map (fun w => (w, view_rem s w + view_acc s w)) (zseq first (Z.to_nat (last - first + 1))) /\
    view_und s' = view_und s + total (o_swept out) /\
    (forall w, first <= w <= last -> view_acc s' w = 0 /\ view_rem s' w = 0) /\
    (forall w, ~ (first <= w <= last) -> view_acc s' w = view_acc s w /\ view_rem s' w = view_rem s w))).
Proof.
  unfold ep_collect. intros Hs. unfold admin in Hs. destruct (c =? ADMIN) eqn:Ec; [|discriminate]. apply Z.eqb_eq in Ec.
  apply bind_ok in Hs. destruct Hs as (cw & Hcw & Hs). destruct (current_week_b _ _ Hcw) as (-> & Htime).
  destruct (COLLECT_OFFSET <? bcur_week s) eqn:Eo; [|discriminate]. apply Z.ltb_lt in Eo. rewrite collect_offset_eq in *.
  simpl. split; [exact Ec|]. split; [exact Eo|]. split; [exact Htime|]. unfold view_lastcol.
  destruct (bcur_week s - (MAXW + 1) <? bh_lastcol (b_h s) + 1) eqn:El.
  - apply Z.ltb_lt in El. inversion Hs; subst; clear Hs. repeat (split; [reflexivity|]). left. repeat split. exact El.
  - apply Z.ltb_ge in El.
    destruct (sweep (Z.to_nat (bcur_week s - (MAXW + 1) - (bh_lastcol (b_h s) + 1) + 1)) (bh_lastcol (b_h s) + 1) (b_h s)) as [h1 l] eqn:Esw.
    inversion Hs; subst; clear Hs. simpl.
    destruct (sweep_spec _ _ _ _ _ Esw) as (S1 & S2 & S3 & S4 & S5 & S6 & S7 & S8 & _).
    repeat (split; [reflexivity || assumption|]). right. split; [exact El|]. split; [reflexivity|].
    split; [exact S1|]. split; [unfold view_und; simpl; exact S4|].
    set (n := Z.to_nat (bcur_week s - (MAXW + 1) - (bh_lastcol (b_h s) + 1) + 1)) in *.
    assert (Hin : forall w, in_rng (bh_lastcol (b_h s) + 1) n w = true <-> bh_lastcol (b_h s) + 1 <= w <= bcur_week s - (MAXW + 1)).
    { intros w. unfold in_rng. rewrite andb_true_iff, Z.leb_le, Z.ltb_lt. unfold n. lia. }
    split; intros w Hw; unfold view_acc, view_rem; simpl; fold (acc_ h1 w) (rem_ h1 w); rewrite S2, S3.
    + apply Hin in Hw. rewrite Hw. split; reflexivity.
    + destruct (in_rng (bh_lastcol (b_h s) + 1) n w) eqn:E; [apply Hin in E; contradiction | split; reflexivity].
Qed.

(** a second collect in the same week moves nothing *)
Lemma collect_idem s c s' out : ep_collect s c = Ok (s', out) -> ep_collect s' c = Ok (s', out0).
Proof.
  intros Hs. destruct (collect_char _ _ _ _ Hs) as (Hc & Ho & Ht & E1 & E2 & E3 & _ & _ & _ & _ & _ & _ & Hcase).
  assert (Hcw : bcur_week s' = bcur_week s) by (unfold bcur_week; rewrite E2, E3; reflexivity).
  assert (Hl : bcur_week s - (MAXW + 1) < view_lastcol s' + 1).
  { destruct Hcase as [(Hlt & -> & _)|(_ & -> & _)]; lia. }
  unfold ep_collect, admin. rewrite Hc, Z.eqb_refl. unfold current_week, week_for_epoch. rewrite E2, E3.
  assert (Ele : (b_first s <=? b_epoch s) = true) by (apply Z.leb_le; exact Ht). rewrite Ele. simpl bind.
  fold (bcur_week s). rewrite collect_offset_eq.
  assert (Eo : (MAXW + 1 <? bcur_week s) = true) by (apply Z.ltb_lt; exact Ho). rewrite Eo.
  unfold view_lastcol in Hl.
  assert (El : (bcur_week s - (MAXW + 1) <? bh_lastcol (b_h s') + 1) = true) by (apply Z.ltb_lt; exact Hl). rewrite El. reflexivity.
Qed.

Lemma collect_perm s c : c <> ADMIN -> ep_collect s c = Err EPerm.
Proof. intros Hc. unfold ep_collect, admin. destruct (c =? ADMIN) eqn:E; [apply Z.eqb_eq in E; contradiction | reflexivity]. Qed.

(** the admin's collect never aborts once there is a week outside the window *)
Lemma collect_total s : b_first s <= b_epoch s -> MAXW + 1 < bcur_week s -> exists s' out, ep_collect s ADMIN = Ok (s', out).
Proof.
  intros Ht Ho. unfold ep_collect, admin. rewrite Z.eqb_refl. unfold current_week, week_for_epoch.
  assert (Ele : (b_first s <=? b_epoch s) = true) by (apply Z.leb_le; exact Ht). rewrite Ele. simpl bind.
  fold (bcur_week s). rewrite collect_offset_eq.
  assert (Eo : (MAXW + 1 <? bcur_week s) = true) by (apply Z.ltb_lt; exact Ho). rewrite Eo.
  destruct (bcur_week s - (MAXW + 1) <? bh_lastcol (b_h s) + 1); [eexists; eexists; reflexivity|].
  destruct (sweep _ _ _) as [h1 l]. eexists; eexists; reflexivity.
Qed.

(** operations that do not settle a user *)
Lemma step_noclaim s op s' out :
  step s op = Ok (s', out) -> claim_of op = None ->
  o_det out = [] /\ o_b out = 0 /\ rw_weak (bcur_week s) (b_w s) (b_w s') /\
  ((exists c, op = BCollect c /\ ep_collect s c = Ok (s', out)) \/
   (o_swept out = [] /\ bh_lastcol (b_h s') = bh_lastcol (b_h s) /\ bh_und (b_h s') = bh_und (b_h s) /\
    bh_rem (b_h s') = bh_rem (b_h s) /\ forall w, w <> bcur_week s -> acc_ (b_h s') w = acc_ (b_h s) w)).
Proof.
  intros Hs Hc. destruct op; try discriminate; simpl in Hs.
  - unfold ep_advance in Hs. destruct (0 <=? n); [|discriminate]. inversion Hs; subst. simpl.
    repeat (split; [reflexivity || apply rw_weak_refl|]). right. repeat split.
  - unfold ep_settle in Hs. destruct pre; [|discriminate]. destruct (0 <=? full); [|discriminate].
    apply bind_ok in Hs. destruct Hs as (cw & Hcw & Hs). destruct (current_week_b _ _ Hcw) as (-> & _).
    apply bind_ok in Hs. destruct Hs as ([[h1 bs] cut] & Hsl & Hs). inversion Hs; subst; clear Hs. simpl.
    destruct (slice_rel_of _ _ _ _ _ _ Hsl) as (r1 & r2 & r3 & r4 & r5 & r6 & r7).
    repeat (split; [reflexivity || apply rw_weak_refl|]). right. repeat split; assumption.
  - unfold ep_set_pct in Hs. destruct (admin c); [|discriminate]. destruct ((0 <=? p) && (p <=? BOOSTED_MAX_PERCENT)); [|discriminate].
    destruct (0 <=? full); [|discriminate].
    apply bind_ok in Hs. destruct Hs as (cw & Hcw & Hs). destruct (current_week_b _ _ Hcw) as (-> & _).
    apply bind_ok in Hs. destruct Hs as ([[h1 bs] cut] & Hsl & Hs). inversion Hs; subst; clear Hs. simpl.
    destruct (slice_rel_of _ _ _ _ _ _ Hsl) as (r1 & r2 & r3 & r4 & r5 & r6 & r7).
    repeat (split; [reflexivity || apply rw_weak_refl|]). right. repeat split; assumption.
  - unfold ep_set_factors in Hs. destruct (admin c); [|discriminate].
    destruct ((0 <=? fa_max f) && (0 <=? fa_ce f) && (0 <=? fa_cf f)); [|discriminate].
    destruct ((0 <? fa_mine f) && (0 <? fa_minf f)); [|discriminate].
    destruct ((0 <? fa_ce f) || (0 <? fa_cf f)); [|discriminate].
    apply bind_ok in Hs. destruct Hs as (cw & Hcw & Hs).
    apply bind_ok in Hs. destruct Hs as (c' & Hu & Hs). inversion Hs; subst; clear Hs. simpl.
    repeat (split; [reflexivity || apply rw_weak_refl|]). right. repeat split.
  - destruct (collect_char _ _ _ _ Hs) as (_ & _ & _ & E1 & _ & _ & _ & _ & _ & B1 & B2 & _).
    split; [exact B2|]. split; [exact B1|]. split; [rewrite E1; apply rw_weak_refl|]. left. exists c. split; [reflexivity | exact Hs].
  - unfold ep_update_energy in Hs. destruct (0 <=? en_tok cur); [|discriminate].
    apply bind_ok in Hs. destruct Hs as (cw & Hcw & Hs). destruct (current_week_b _ _ Hcw) as (-> & _).
    apply bind_ok in Hs. destruct Hs as (w' & Hu & Hs). inversion Hs; subst; clear Hs. simpl.
    unfold update_energy_for_user in Hu. destruct (match pfind (w_prog (b_w s)) u with Some p => pr_week p =? bcur_week s | None => true end); [|discriminate].
    destruct (uep_spec _ _ _ _ _ Hu) as (_ & _ & U3).
    split; [reflexivity|]. split; [reflexivity|]. split; [exact U3|]. right. repeat split.
Qed.

(** ------------------------------------------------------------------ sweeps along a history *)
Lemma BInv_wf s g u p : BInv s g -> pfind (w_prog (b_w s)) u = Some p -> 0 <= en_tok (pr_en p).
Proof. intros (_ & _ & HT & _) Hp. apply (T_find _ _ _ _ HT Hp). Qed.

Lemma step_sweeps s g op s' out :
  BInv s g -> step s op = Ok (s', out) ->
  view_lastcol s <= view_lastcol s' /\
  (forall w, In w (map fst (o_swept out)) ->
     view_lastcol s < w <= view_lastcol s' /\ w <= bcur_week s - MAXW - 1 /\ exists c, op = BCollect c) /\
  NoDup (map fst (o_swept out)).
Proof.
  intros Hi Hs. destruct (claim_of op) as [[[u cur] pos]|] eqn:Ec.
  - destruct (step_claim_decomp _ _ _ _ _ _ _ Hs Ec) as (h0 & h1 & w1 & _ & _ & Hrel & Hcb & _ & Hsw & _ & _ & _ & _ & D3 & _).
    destruct Hrel as (_ & _ & _ & _ & r5 & _).
    assert (Hwf : forall p, pfind (w_prog (b_w s)) u = Some p -> 0 <= en_tok (pr_en p)) by (intros p Hp; apply (BInv_wf _ _ _ _ Hi Hp)).
    assert (Hl : bh_lastcol h1 = bh_lastcol h0).
    { destruct (claim_boosted_summary _ _ _ _ _ _ _ _ _ Hwf Hcb) as [(_ & -> & _)|(c & cfg & s1 & _ & _ & _ & _ & _ & _ & _ & (_ & _ & _ & S4 & _))]; [reflexivity | exact S4]. }
    rewrite Hsw. unfold view_lastcol. rewrite D3, Hl, r5. split; [lia|]. split; [intros w []|constructor].
  - destruct (step_noclaim _ _ _ _ Hs Ec) as (_ & _ & _ & [(c & -> & Hc)|(Hsw & Hl & _)]).
    + destruct (collect_char _ _ _ _ Hc) as (_ & Ho & _ & _ & _ & _ & _ & _ & _ & _ & _ & _ & Hcase).
      destruct Hcase as [(_ & -> & ->)|(Hle & Hl & Hsw & _)].
      * split; [lia|]. split; [intros w []|constructor].
      * rewrite Hsw, map_map. simpl. rewrite map_id. rewrite Hl. split; [lia|]. split; [|apply zseq_nodup].
        intros w Hin. apply zseq_in in Hin. split; [lia|]. split; [lia | exists c; reflexivity].
    + rewrite Hsw. unfold view_lastcol. rewrite Hl. split; [lia|]. split; [intros w []|constructor].
Qed.

Fixpoint bsweep_log (s : bst) (ops : list bop) : list Z :=
  match ops with
  | [] => []
  | op :: t => match step s op with
               | Ok (s', out) => map fst (o_swept out) ++ bsweep_log s' t
               | Err _ => bsweep_log s t
               end
  end.

Lemma bsweep_log_once ops : forall s g, BInv s g ->
  (forall w, In w (bsweep_log s ops) -> view_lastcol s < w) /\ NoDup (bsweep_log s ops).
Proof.
  induction ops as [|op t IH]; intros s g Hi; simpl.
  - split; [intros w [] | constructor].
  - destruct (step s op) as [[s' out]|] eqn:Es; [|apply (IH s g Hi)].
    destruct (step_sweeps _ _ _ _ _ Hi Es) as (Hmono & Hev & Hnd).
    destruct (IH s' _ (step_inv _ _ _ _ _ Hi Es)) as (IH1 & IH2).
    split.
    + intros w Hin. apply in_app_or in Hin. destruct Hin as [Hin|Hin]; [apply (Hev _ Hin) | specialize (IH1 _ Hin); lia].
    + apply NoDup_app_disjoint; [exact Hnd | exact IH2|].
      intros w Hin Hin2. destruct (Hev _ Hin) as (Hx & _). specialize (IH1 _ Hin2). lia.
Qed.

(** ------------------------------------------------------------------ reachable states: pool, leftover, conservation *)
Lemma reach_pool epoch ops w :
  let s := fst (bgrun (init_b epoch, bg0) ops) in let g := snd (bgrun (init_b epoch, bg0) ops) in
  0 <= view_acc s w /\ 0 <= view_rem s w /\ 0 <= gpaid g w /\ 0 <= gswept g w /\
  gcuts g w = view_acc s w + view_rem s w + gpaid g w + gswept g w /\
  gpaid g w <= gcuts g w /\
  (view_total_rewards s w <> [] ->
     view_total_rewards s w = [(RTOK, gcuts g w)] /\ view_acc s w = 0 /\ w < bcur_week s /\
     view_rem s w = gcuts g w - gpaid g w - gswept g w) /\
  (bcur_week s - MAXW <= w -> view_total_rewards s w = [] -> view_rem s w = 0 /\ gpaid g w = 0 /\ gswept g w = 0).
Proof.
  intros s g. destruct (reach_inv epoch ops) as (_ & _ & _ & _ & M & _). fold s g in M.
  unfold view_acc, view_rem, view_total_rewards. fold (acc_ (b_h s) w) (rem_ (b_h s) w) (rw_ (b_w s) w).
  destruct (m_nn _ _ _ _ M w) as (N1 & N2). destruct (m_gnn _ _ _ _ M w) as (G1 & G2). pose proof (m_week _ _ _ _ M w) as Hw.
  split; [exact N1|]. split; [exact N2|]. split; [exact G1|]. split; [exact G2|]. split; [exact Hw|]. split; [lia|].
  split.
  - intros Hne. destruct (m_frozen _ _ _ _ M w Hne) as (F1 & F2). split; [exact F1|]. split; [exact F2|].
    split; [apply (m_fut _ _ _ _ M w Hne) | lia].
  - intros Hlo He. destruct (m_win _ _ _ _ M w Hlo He) as (R0 & P0). destruct (m_window_unswept _ _ _ _ w M Hlo) as (S0 & _).
    repeat split; assumption.
Qed.

Lemma reach_leftover epoch ops w :
  let s := fst (bgrun (init_b epoch, bg0) ops) in let g := snd (bgrun (init_b epoch, bg0) ops) in
  view_und s = g_tswept g /\ 0 <= view_und s /\
  (1 <= w <= view_lastcol s ->
     view_acc s w = 0 /\ view_rem s w = 0 /\ gswept g w = gcuts g w - gpaid g w /\ w <= bcur_week s - MAXW - 1) /\
  (gswept g w <> 0 -> 1 <= w <= view_lastcol s).
Proof.
  intros s g. destruct (reach_inv epoch ops) as (_ & Hpos & _ & _ & M & _). fold s g in M, Hpos.
  destruct (m_und _ _ _ _ M) as (U1 & U2). split; [exact U1|]. split; [exact U2|]. split; [|apply (m_swept _ _ _ _ M w)].
  intros Hw. destruct (m_done _ _ _ _ M w Hw) as (D1 & D2). pose proof (m_week _ _ _ _ M w) as Hk.
  destruct (m_lastcol _ _ _ _ M) as (L0 & L1). unfold view_acc, view_rem, view_lastcol in *. fold (acc_ (b_h s) w) (rem_ (b_h s) w).
  repeat split; try assumption; lia.
Qed.

Lemma reach_collectable epoch ops w :
  let s := fst (bgrun (init_b epoch, bg0) ops) in
  1 <= w <= bcur_week s - MAXW - 1 ->
  exists s' out, step s (BCollect ADMIN) = Ok (s', out) /\ w <= view_lastcol s' /\
                 (view_lastcol s < w -> In w (map fst (o_swept out))).
Proof.
  intros s Hw. destruct (reach_inv epoch ops) as (Htime & _). fold s in Htime.
  destruct (collect_total s Htime) as (s' & out & Hc); [lia|]. exists s', out. split; [exact Hc|].
  destruct (collect_char _ _ _ _ Hc) as (_ & _ & _ & _ & _ & _ & _ & _ & _ & _ & _ & _ & [(Hlt & -> & _)|(Hle & Hl & Hsw & _)]).
  - split; [lia | intros; lia].
  - split; [lia|]. intros Hgt. rewrite Hsw, map_map. simpl. rewrite map_id. apply zseq_in. lia.
Qed.

Lemma reach_conservation epoch ops :
  let s := fst (bgrun (init_b epoch, bg0) ops) in let g := snd (bgrun (init_b epoch, bg0) ops) in
  asum (bh_acc (b_h s)) + asum (bh_rem (b_h s)) + view_und s + g_tpaid g = g_tcuts g /\
  view_und s = g_tswept g /\ NoDup (akeys (bh_acc (b_h s))) /\ NoDup (akeys (bh_rem (b_h s))).
Proof.
  intros s g. destruct (reach_inv epoch ops) as (_ & _ & _ & _ & M & _). fold s g in M.
  pose proof (m_glob _ _ _ _ M) as Hg. destruct (m_und _ _ _ _ M) as (U1 & _). destruct (m_nd _ _ _ _ M) as (N1 & N2).
  unfold msum, view_und in *. repeat split; assumption.
Qed.

(** the ghost totals are what the operations handed out *)
Fixpoint out_log (s : bst) (ops : list bop) : list bout :=
  match ops with
  | [] => []
  | op :: t => match step s op with
               | Ok (s', out) => out :: out_log s' t
               | Err _ => out_log s t
               end
  end.
Definition zsum_of (f : bout -> Z) (l : list bout) : Z := fold_right (fun o acc => f o + acc) 0 l.

Lemma ghost_totals ops : forall s g,
  let g' := snd (bgrun (s, g) ops) in
  g_tcuts g' = g_tcuts g + zsum_of o_cut (out_log s ops) /\
  g_tpaid g' = g_tpaid g + zsum_of o_b (out_log s ops) /\
  g_tswept g' = g_tswept g + zsum_of (fun o => total (o_swept o)) (out_log s ops).
Proof.
  unfold bgrun. induction ops as [|op t IH]; intros s g; simpl; [repeat split; lia|].
  unfold bgstep at 2 4 6. simpl. destruct (step s op) as [[s' out]|] eqn:Es; simpl.
  - destruct (IH s' (gupd g op (bcur_week s) out)) as (I1 & I2 & I3). simpl in *. rewrite I1, I2, I3. repeat split; lia.
  - apply IH.
Qed.

(** ------------------------------------------------------------------ freezing of a week's pool, per operation *)
Lemma step_rewards s g op s' out :
  BInv s g -> step s op = Ok (s', out) ->
  let cw := bcur_week s in
  forall w,
    (view_total_rewards s w <> [] -> cw - MAXW <= w -> view_total_rewards s' w = view_total_rewards s w) /\
    (view_total_rewards s w = [] -> view_total_rewards s' w <> [] ->
       (exists u cur pos, claim_of op = Some (u, cur, pos)) /\ cw - MAXW <= w < cw /\
       view_total_rewards s' w = [(RTOK, view_acc s w)] /\ view_acc s' w = 0 /\
       view_rem s' w = view_acc s w - wpaid (o_det out) w) /\
    (w <> cw -> view_acc s' w = view_acc s w \/ view_acc s' w = 0).
Proof.
  intros Hi Hs cw w. pose proof Hi as (Htime & Hpos & HT & HC & HM & Hpct). fold cw in Hpos, HT, HC, HM.
  pose proof max_weeks_nonneg as HMX.
  unfold view_total_rewards, view_acc, view_rem.
  fold (rw_ (b_w s) w) (rw_ (b_w s') w) (acc_ (b_h s) w) (acc_ (b_h s') w) (rem_ (b_h s') w).
  destruct (claim_of op) as [[[u cur] pos]|] eqn:Ec.
  - destruct (step_claim_decomp _ _ _ _ _ _ _ Hs Ec) as (h0 & h1 & w1 & _ & _ & Hrel & Hcb & _ & _ & _ & _ & D1 & _ & _ & D4 & D5 & _).
    fold cw in Hrel, Hcb, D4, D5. destruct Hrel as (r1 & _ & _ & _ & _ & _ & r7).
    assert (Hwf : forall p, pfind (w_prog (b_w s)) u = Some p -> 0 <= en_tok (pr_en p)) by (intros p Hp; apply (BInv_wf _ _ _ _ Hi Hp)).
    assert (Hfin : rw_ (b_w s') w = rw_ w1 w \/ (rw_ (b_w s') w = [] /\ w = cleared_week cw)) by apply D5.
    assert (Hacc' : w <> cw -> acc_ (b_h s') w = acc_ h1 w) by (intros Hw; apply (D4 w Hw)).
    assert (Hrem' : rem_ (b_h s') w = rem_ h1 w) by (unfold rem_; rewrite D1; reflexivity).
    assert (Hacc0 : w <> cw -> acc_ h0 w = acc_ (b_h s) w) by (intros Hw; apply (r7 w Hw)).
    assert (Hrem0 : rem_ h0 w = rem_ (b_h s) w) by (unfold rem_; rewrite r1; reflexivity).
    destruct (claim_boosted_summary _ _ _ _ _ _ _ _ _ Hwf Hcb) as
        [(_ & -> & -> & Hd)|(c & cfg & s1 & _ & _ & _ & _ & _ & _ & Hm & (_ & _ & _ & _ & _ & _ & Sout & Sin & _))].
    + split; [|split].
      * intros Hne Hlo. destruct Hfin as [E|(_ & E)]; [exact E | unfold cleared_week in E; lia].
      * intros He Hne. destruct Hfin as [E|(E & _)]; [rewrite E in Hne; contradiction | contradiction].
      * intros Hw. left. rewrite (Hacc' Hw). apply (Hacc0 Hw).
    + set (rng := match pfind (w_prog (b_w s)) u with Some p => claim_range p cw | None => [] end) in *.
      assert (Hrng : forall x, In x rng -> cw - MAXW <= x < cw).
      { intros x Hin. unfold rng in Hin. destruct (pfind (w_prog (b_w s)) u) as [p|]; [|destruct Hin].
        destruct Hm as (Hle & _). apply (claim_range_window _ _ _ Hle Hin). }
      destruct (in_dec Z.eq_dec w rng) as [Hin|Hn].
      * destruct (Hrng w Hin) as (Hlo & Hhi). assert (Hwc : w <> cw) by lia.
        assert (Hncl : w <> cleared_week cw) by (unfold cleared_week; lia).
        assert (Hfin' : rw_ (b_w s') w = rw_ w1 w) by (destruct Hfin as [E|(_ & E)]; [exact E | contradiction]).
        destruct (Sin w Hin) as (_ & W2 & W3 & W4 & W5 & _).
        split; [|split].
        -- intros Hne _. rewrite Hfin'. destruct W2 as [E|(E & _)]; [exact E | contradiction].
        -- intros He Hne. split; [exists u, cur, pos; reflexivity|]. split; [lia|].
           rewrite Hfin' in *. destruct W2 as [E|(_ & E1 & E2)]; [rewrite E in Hne; contradiction|].
           rewrite (Hacc0 Hwc) in E1. split; [exact E1|]. split; [rewrite (Hacc' Hwc); exact E2|].
           assert (Hr0 : rw_ (b_w s) w = [] -> rem_ h0 w = 0).
           { intros _. rewrite Hrem0. apply (m_win _ _ _ _ HM w Hlo He). }
           specialize (W5 Hr0). rewrite Hrem', <- (Hacc0 Hwc). rewrite E2 in W5. rewrite (Hr0 He) in W5. lia.
        -- intros _. rewrite (Hacc' Hwc), <- (Hacc0 Hwc).
           destruct W2 as [E|(_ & _ & E2)]; [|right; exact E2]. left.
           destruct (rw_ (b_w s) w) as [|x l] eqn:Er; [apply W4; rewrite E; reflexivity | apply W3; discriminate].
      * destruct (Sout w Hn) as (A1 & _ & _ & A4).
        split; [|split].
        -- intros Hne Hlo. destruct Hfin as [E|(_ & E)]; [|unfold cleared_week in E; lia].
           rewrite E. destruct A4 as [E2|(_ & E2)]; [exact E2 | unfold cleared_week in E2; lia].
        -- intros He Hne. exfalso. destruct Hfin as [E|(E & _)]; [|contradiction]. rewrite E in Hne.
           destruct A4 as [E2|(E2 & _)]; [rewrite E2 in Hne | ]; contradiction.
        -- intros Hw. left. rewrite (Hacc' Hw), A1. apply (Hacc0 Hw).
  - destruct (step_noclaim _ _ _ _ Hs Ec) as (_ & _ & Hwk & Hcase). fold cw in Hwk, Hcase.
    split; [|split].
    + intros Hne Hlo. destruct (Hwk w) as [E|(_ & E)]; [exact E | unfold cleared_week in E; lia].
    + intros He Hne. exfalso. destruct (Hwk w) as [E|(E & _)]; [rewrite E in Hne|]; contradiction.
    + intros Hw. destruct Hcase as [(c & -> & Hc)|(_ & _ & _ & _ & Ha)]; [|left; apply (Ha w Hw)].
      destruct (collect_char _ _ _ _ Hc) as (_ & _ & _ & _ & _ & _ & _ & _ & _ & _ & _ & _ & [(_ & -> & _)|(_ & _ & _ & _ & Hz & Hsame)]).
      * left. reflexivity.
      * unfold view_acc in *. fold (acc_ (b_h s) w) (acc_ (b_h s') w) in *.
        destruct (Z_le_gt_dec (view_lastcol s + 1) w) as [H1|H1];
          [destruct (Z_le_gt_dec w (bcur_week s - (MAXW + 1))) as [H2|H2]|].
        -- right. apply (Hz w). lia.
        -- left. apply (Hsame w). lia.
        -- left. apply (Hsame w). lia.
Qed.

(** ------------------------------------------------------------------ the slice: this operation's cut and the running week *)
Definition full_of (op : bop) : option Z :=
  match op with
  | BEnter _ _ _ _ full _ | BClaim _ _ _ _ full _ | BCompound _ _ _ _ full _ | BExit _ _ _ _ _ full _
  | BClaimBoosted _ _ _ _ full _ | BSettle _ full | BSetPct _ _ full => Some full
  | _ => None
  end.

Definition expected_cut (s : bst) (full : Z) : Z :=
  if (view_pct s =? 0) || (match bh_cfg (b_h s) with None => true | Some _ => false end) then 0
  else full * view_pct s / BOOSTED_MAX_PERCENT.

Lemma claim_cfg_presence h w u pos cw cur h' w' det :
  (forall p, pfind (w_prog w) u = Some p -> 0 <= en_tok (pr_en p)) ->
  claim_boosted h w u pos cw cur = Ok (h', w', det) ->
  bh_pct h' = bh_pct h /\ (bh_cfg h = None <-> bh_cfg h' = None).
Proof.
  intros Hwf Hc. destruct (claim_boosted_summary _ _ _ _ _ _ _ _ _ Hwf Hc) as
      [(_ & -> & _)|(c & cfg & s1 & Hcfg & _ & _ & _ & _ & _ & _ & (_ & _ & _ & _ & S5 & S6 & _))]; [split; [reflexivity | tauto]|].
  split; [exact S5|]. rewrite Hcfg. split; [discriminate|]. intros Hn.
  exfalso. apply (S6 (fun oc => oc <> None)); [intros; discriminate | rewrite Hcfg; discriminate | exact Hn].
Qed.

Lemma step_cut s g op s' out :
  BInv s g -> step s op = Ok (s', out) ->
  0 <= o_cut out /\ o_cut out = match full_of op with Some full => expected_cut s full | None => 0 end.
Proof.
  intros Hi Hs. pose proof Hi as (_ & _ & _ & _ & _ & Hpct).
  assert (Hsl : forall h full h1 b cut, bh_pct h = bh_pct (b_h s) -> (bh_cfg h = None <-> bh_cfg (b_h s) = None) -> 0 <= full ->
            take_reward_slice h (bcur_week s) full = Ok (h1, b, cut) -> 0 <= cut /\ cut = expected_cut s full).
  { intros h full h1 b cut Hp Hc Hf Ht. assert (Hp0 : 0 <= bh_pct h) by (rewrite Hp; lia).
    destruct (slice_spec _ _ _ _ _ _ Hf Hp0 Ht) as (C1 & C2 & _). split; [exact C1|]. rewrite C2. unfold expected_cut, view_pct. rewrite Hp.
    destruct (bh_cfg h) as [c|] eqn:E1; destruct (bh_cfg (b_h s)) as [c2|] eqn:E2; try reflexivity.
    - exfalso. destruct Hc as (_ & Hc). specialize (Hc eq_refl). discriminate.
    - exfalso. destruct Hc as (Hc & _). specialize (Hc eq_refl). discriminate. }
  destruct op; simpl in Hs; simpl full_of.
  - unfold ep_advance in Hs. destruct (0 <=? n); [|discriminate]. inversion Hs; subst. simpl. split; [lia | reflexivity].
  - unfold ep_enter in Hs. destruct pre; [|discriminate]. destruct (wf_in cur pos full supply) eqn:Ew; [|discriminate].
    apply wf_in_ok in Ew. destruct Ew as (W1 & W2 & W3 & W4).
    apply bind_ok in Hs. destruct Hs as (cw & Hcw & Hs). destruct (current_week_b _ _ Hcw) as (-> & _).
    apply bind_ok in Hs. destruct Hs as ([[h1 w1] det] & Hc & Hs).
    apply bind_ok in Hs. destruct Hs as ([[h2 bs] cut] & Hsl1 & Hs).
    apply bind_ok in Hs. destruct Hs as (w2 & Hu & Hs). inversion Hs; subst; clear Hs. simpl.
    assert (Hwf : forall p, pfind (w_prog (b_w s)) u = Some p -> 0 <= en_tok (pr_en p)) by (intros p Hp; apply (BInv_wf _ _ _ _ Hi Hp)).
    destruct (claim_cfg_presence _ _ _ _ _ _ _ _ _ Hwf Hc) as (P1 & P2).
    apply (Hsl h1 full h2 bs cut P1); [tauto | exact W3 | exact Hsl1].
  - unfold ep_claim in Hs. destruct pre; [|discriminate]. destruct (wf_in cur pos full supply) eqn:Ew; [|discriminate].
    apply wf_in_ok in Ew. destruct Ew as (W1 & W2 & W3 & W4).
    apply bind_ok in Hs. destruct Hs as (cw & Hcw & Hs). destruct (current_week_b _ _ Hcw) as (-> & _).
    apply bind_ok in Hs. destruct Hs as ([[h1 bs] cut] & Hsl1 & Hs).
    apply bind_ok in Hs. destruct Hs as ([[h2 w1] det] & Hc & Hs). inversion Hs; subst; clear Hs. simpl.
    apply (Hsl (b_h s) full h1 bs cut eq_refl); [tauto | exact W3 | exact Hsl1].
  - unfold ep_compound in Hs. destruct pre; [|discriminate]. destruct (wf_in cur pos full supply) eqn:Ew; [|discriminate].
    apply wf_in_ok in Ew. destruct Ew as (W1 & W2 & W3 & W4).
    apply bind_ok in Hs. destruct Hs as (cw & Hcw & Hs). destruct (current_week_b _ _ Hcw) as (-> & _).
    apply bind_ok in Hs. destruct Hs as ([[h1 bs] cut] & Hsl1 & Hs).
    apply bind_ok in Hs. destruct Hs as ([[h2 w1] det] & Hc & Hs).
    apply bind_ok in Hs. destruct Hs as (w2 & Hu & Hs). inversion Hs; subst; clear Hs. simpl.
    apply (Hsl (b_h s) full h1 bs cut eq_refl); [tauto | exact W3 | exact Hsl1].
  - unfold ep_exit in Hs. destruct pre; [|discriminate]. destruct (wf_in cur pos full supply && (0 <=? posa)) eqn:Ew; [|discriminate].
    apply andb_true_iff in Ew. destruct Ew as (Ew & _). apply wf_in_ok in Ew. destruct Ew as (W1 & W2 & W3 & W4).
    apply bind_ok in Hs. destruct Hs as (cw & Hcw & Hs). destruct (current_week_b _ _ Hcw) as (-> & _).
    apply bind_ok in Hs. destruct Hs as ([[h1 bs] cut] & Hsl1 & Hs).
    apply bind_ok in Hs. destruct Hs as ([[h2 w1] det] & Hc & Hs).
    apply bind_ok in Hs. destruct Hs as (w2 & Hu & Hs). inversion Hs; subst; clear Hs. simpl.
    apply (Hsl (b_h s) full h1 bs cut eq_refl); [tauto | exact W3 | exact Hsl1].
  - unfold ep_merge in Hs. destruct pre; [|discriminate]. destruct (wf_in cur pos 0 0); [|discriminate].
    apply bind_ok in Hs. destruct Hs as (cw & Hcw & Hs).
    apply bind_ok in Hs. destruct Hs as ([[h1 w1] det] & Hc & Hs). inversion Hs; subst; clear Hs. simpl. split; [lia | reflexivity].
  - unfold ep_claim_boosted in Hs. destruct pre; [|discriminate]. destruct (wf_in cur pos full supply) eqn:Ew; [|discriminate].
    apply wf_in_ok in Ew. destruct Ew as (W1 & W2 & W3 & W4). destruct (negb (pos =? 0)); [|discriminate].
    apply bind_ok in Hs. destruct Hs as (cw & Hcw & Hs). destruct (current_week_b _ _ Hcw) as (-> & _).
    apply bind_ok in Hs. destruct Hs as ([[h1 bs] cut] & Hsl1 & Hs).
    apply bind_ok in Hs. destruct Hs as ([[h2 w1] det] & Hc & Hs). inversion Hs; subst; clear Hs. simpl.
    apply (Hsl (b_h s) full h1 bs cut eq_refl); [tauto | exact W3 | exact Hsl1].
  - unfold ep_settle in Hs. destruct pre; [|discriminate]. destruct (0 <=? full) eqn:Ef; [|discriminate]. apply Z.leb_le in Ef.
    apply bind_ok in Hs. destruct Hs as (cw & Hcw & Hs). destruct (current_week_b _ _ Hcw) as (-> & _).
    apply bind_ok in Hs. destruct Hs as ([[h1 bs] cut] & Hsl1 & Hs). inversion Hs; subst; clear Hs. simpl.
    apply (Hsl (b_h s) full h1 bs cut eq_refl); [tauto | exact Ef | exact Hsl1].
  - unfold ep_set_pct in Hs. destruct (admin c); [|discriminate]. destruct ((0 <=? p) && (p <=? BOOSTED_MAX_PERCENT)); [|discriminate].
    destruct (0 <=? full) eqn:Ef; [|discriminate]. apply Z.leb_le in Ef.
    apply bind_ok in Hs. destruct Hs as (cw & Hcw & Hs). destruct (current_week_b _ _ Hcw) as (-> & _).
    apply bind_ok in Hs. destruct Hs as ([[h1 bs] cut] & Hsl1 & Hs). inversion Hs; subst; clear Hs. simpl.
    apply (Hsl (b_h s) full h1 bs cut eq_refl); [tauto | exact Ef | exact Hsl1].
  - unfold ep_set_factors in Hs. destruct (admin c); [|discriminate].
    destruct ((0 <=? fa_max f) && (0 <=? fa_ce f) && (0 <=? fa_cf f)); [|discriminate].
    destruct ((0 <? fa_mine f) && (0 <? fa_minf f)); [|discriminate].
    destruct ((0 <? fa_ce f) || (0 <? fa_cf f)); [|discriminate].
    apply bind_ok in Hs. destruct Hs as (cw & Hcw & Hs).
    apply bind_ok in Hs. destruct Hs as (c' & Hu & Hs). inversion Hs; subst; clear Hs. simpl. split; [lia | reflexivity].
  - destruct (collect_char _ _ _ _ Hs) as (_ & _ & _ & _ & _ & _ & _ & _ & _ & _ & _ & -> & _). split; [lia | reflexivity].
  - unfold ep_update_energy in Hs. destruct (0 <=? en_tok cur); [|discriminate].
    apply bind_ok in Hs. destruct Hs as (cw & Hcw & Hs).
    apply bind_ok in Hs. destruct Hs as (w' & Hu & Hs). inversion Hs; subst; clear Hs. simpl. split; [lia | reflexivity].
Qed.

(** ------------------------------------------------------------------ time *)
Lemma step_time s op s' out : step s op = Ok (s', out) ->
  b_first s' = b_first s /\
  ((b_epoch s' = b_epoch s /\ forall n, op <> BAdvance n) \/ (exists n, op = BAdvance n /\ 0 <= n /\ b_epoch s' = b_epoch s + n)).
Proof.
  intros Hs. destruct (claim_of op) as [[[u cur] pos]|] eqn:Ec.
  - destruct (step_claim_decomp _ _ _ _ _ _ _ Hs Ec) as (h0 & h1 & w1 & _ & _ & _ & _ & _ & _ & T1 & T2 & _).
    split; [exact T1|]. left. split; [exact T2|]. intros n ->. discriminate.
  - destruct op; try discriminate; simpl in Hs.
    + unfold ep_advance in Hs. destruct (0 <=? n) eqn:En; [|discriminate]. apply Z.leb_le in En. inversion Hs; subst; simpl.
      split; [reflexivity|]. right. exists n. repeat split. exact En.
    + unfold ep_settle in Hs. destruct pre; [|discriminate]. destruct (0 <=? full); [|discriminate].
      apply bind_ok in Hs. destruct Hs as (cw & Hcw & Hs).
      apply bind_ok in Hs. destruct Hs as ([[h1 bs] cut] & Hsl & Hs). inversion Hs; subst; simpl.
      split; [reflexivity|]. left. split; [reflexivity | discriminate].
    + unfold ep_set_pct in Hs. destruct (admin c); [|discriminate]. destruct ((0 <=? p) && (p <=? BOOSTED_MAX_PERCENT)); [|discriminate].
      destruct (0 <=? full); [|discriminate].
      apply bind_ok in Hs. destruct Hs as (cw & Hcw & Hs).
      apply bind_ok in Hs. destruct Hs as ([[h1 bs] cut] & Hsl & Hs). inversion Hs; subst; simpl.
      split; [reflexivity|]. left. split; [reflexivity | discriminate].
    + unfold ep_set_factors in Hs. destruct (admin c); [|discriminate].
      destruct ((0 <=? fa_max f) && (0 <=? fa_ce f) && (0 <=? fa_cf f)); [|discriminate].
      destruct ((0 <? fa_mine f) && (0 <? fa_minf f)); [|discriminate].
      destruct ((0 <? fa_ce f) || (0 <? fa_cf f)); [|discriminate].
      apply bind_ok in Hs. destruct Hs as (cw & Hcw & Hs).
      apply bind_ok in Hs. destruct Hs as (c' & Hu & Hs). inversion Hs; subst; simpl.
      split; [reflexivity|]. left. split; [reflexivity | discriminate].
    + destruct (collect_char _ _ _ _ Hs) as (_ & _ & _ & _ & T1 & T2 & _). split; [exact T1|]. left. split; [exact T2 | discriminate].
    + unfold ep_update_energy in Hs. destruct (0 <=? en_tok cur); [|discriminate].
      apply bind_ok in Hs. destruct Hs as (cw & Hcw & Hs).
      apply bind_ok in Hs. destruct Hs as (w' & Hu & Hs). inversion Hs; subst; simpl.
      split; [reflexivity|]. left. split; [reflexivity | discriminate].
Qed.

Lemma step_week s op s' out : step s op = Ok (s', out) ->
  bcur_week s <= bcur_week s' /\ ((forall n, op <> BAdvance n) -> bcur_week s' = bcur_week s).
Proof.
  intros Hs. destruct (step_time _ _ _ _ Hs) as (T1 & [(T2 & _)|(n & -> & Hn & T2)]); unfold bcur_week; rewrite T1, T2.
  - split; [lia | reflexivity].
  - split; [|intros Hx; exfalso; apply (Hx n); reflexivity].
    pose proof week_pos. pose proof (Z.div_le_mono (b_epoch s - b_first s) (b_epoch s + n - b_first s) WK). lia.
Qed.

(** the pool of the running week is exactly its cuts: nothing of it is frozen, paid or swept *)
Lemma running_week_pool cw h rw g : MInv cw h rw g -> 0 <= MAXW ->
  acc_ h cw = gcuts g cw /\ rem_ h cw = 0 /\ gpaid g cw = 0 /\ gswept g cw = 0 /\ rw cw = [].
Proof.
  intros M HMX. assert (Hrw : rw cw = []).
  { destruct (rw cw) as [|x l] eqn:E; [reflexivity|]. assert (Hne : rw cw <> []) by (rewrite E; discriminate).
    pose proof (m_fut _ _ _ _ M cw Hne). lia. }
  assert (Hlo : cw - MAXW <= cw) by lia.
  destruct (m_win _ _ _ _ M cw Hlo Hrw) as (R0 & P0). destruct (m_window_unswept _ _ _ _ cw M Hlo) as (S0 & _).
  pose proof (m_week _ _ _ _ M cw). repeat split; try assumption. lia.
Qed.

Lemma step_running_week s g op s' out :
  BInv s g -> step s op = Ok (s', out) -> (forall n, op <> BAdvance n) ->
  view_acc s' (bcur_week s) = view_acc s (bcur_week s) + o_cut out /\ view_rem s' (bcur_week s) = 0.
Proof.
  intros Hi Hs Hna. pose proof (step_inv _ _ _ _ _ Hi Hs) as Hi'.
  destruct (step_week _ _ _ _ Hs) as (_ & Hw). specialize (Hw Hna).
  destruct Hi as (_ & _ & _ & _ & M & _). destruct Hi' as (_ & _ & _ & _ & M' & _). rewrite Hw in M'.
  pose proof max_weeks_nonneg as HMX.
  destruct (running_week_pool _ _ _ _ M HMX) as (A1 & _). destruct (running_week_pool _ _ _ _ M' HMX) as (A2 & R2 & _).
  unfold view_acc, view_rem. fold (acc_ (b_h s') (bcur_week s)) (acc_ (b_h s) (bcur_week s)) (rem_ (b_h s') (bcur_week s)).
  split; [|exact R2]. rewrite A1, A2. unfold gcuts; simpl. rewrite aget_add_at, Z.eqb_refl. reflexivity.
Qed.

(** ------------------------------------------------------------------ the factors of a week, in reachable states *)
Lemma reach_factors epoch ops :
  let s := fst (bgrun (init_b epoch, bg0) ops) in let g := snd (bgrun (init_b epoch, bg0) ops) in
  let cw := bcur_week s in
  match bh_cfg (b_h s), g_fac g with
  | None, None => True
  | Some c, Some (f0, log) =>
      c_last c <= cw /\ Forall (fun ev => fst ev <= cw) log /\
      view_factors s = Some (fac_at f0 log cw) /\
      exists cfg, cfg_update c cw None = Ok cfg /\
        forall w, (cw - NSLOTS < w < cw -> get_factors_for_week cfg w = Ok (fac_at f0 log w)) /\
                  (forall fa, get_factors_for_week cfg w = Ok fa -> cw - NSLOTS < w < cw /\ fa = fac_at f0 log w)
  | _, _ => False
  end.
Proof.
  intros s g cw. destruct (reach_inv epoch ops) as (_ & _ & _ & HC & _). fold s g cw in HC. unfold CI in HC.
  destruct (bh_cfg (b_h s)) as [c|] eqn:Ec; destruct (g_fac g) as [[f0 log]|]; try exact HC.
  destruct HC as (Hi & Hle). split; [exact Hle|].
  pose proof Hi as (_ & Hall & Hsl).
  split; [eapply Forall_impl; [|exact Hall]; simpl; intros; lia|].
  pose proof nslots_pos as HN.
  split.
  - unfold view_factors. rewrite Ec. f_equal. rewrite last_slot_slot, Hsl by lia. rewrite Z.sub_0_r.
    symmetry. apply fac_at_late; [exact Hall | exact Hle].
  - assert (Hu : exists cfg, cfg_update c cw None = Ok cfg).
    { unfold cfg_update. assert (E : (c_last c <=? cw) = true) by (apply Z.leb_le; exact Hle). rewrite E.
      destruct (Z.min (cw - c_last c) NSLOTS =? 0); eexists; reflexivity. }
    destruct Hu as (cfg & Hu). exists cfg. split; [exact Hu|].
    destruct (cfg_update_inv _ _ _ _ _ _ Hi Hu) as (_ & Hl & Hi'). intros w. rewrite <- Hl.
    apply (get_factors_spec _ _ _ w Hi').
Qed.

(** the ghost log of accepted factor settings is exactly the successful setBoostedYieldsFactors calls *)
Fixpoint fac_calls (s : bst) (ops : list bop) : list (Z * factors) :=
  match ops with
  | [] => []
  | op :: t => match step s op with
               | Ok (s', _) => (match op with BSetFactors _ f => [(bcur_week s, f)] | _ => [] end) ++ fac_calls s' t
               | Err _ => fac_calls s t
               end
  end.

Lemma fac_log_is_calls ops : forall s g,
  match g_fac (snd (bgrun (s, g) ops)), g_fac g with
  | Some (f0, log), Some (f0', log') => f0 = f0' /\ log = log' ++ fac_calls s ops
  | Some (f0, log), None => exists cw0 rest, fac_calls s ops = (cw0, f0) :: rest /\ log = rest
  | None, None => fac_calls s ops = []
  | None, Some _ => False
  end.
Proof.
  unfold bgrun. induction ops as [|op t IH]; intros s g; simpl.
  - destruct (g_fac g) as [[f0 log]|]; [split; [reflexivity | rewrite app_nil_r; reflexivity] | reflexivity].
  - unfold bgstep at 2. simpl. destruct (step s op) as [[s' out]|] eqn:Es; simpl; [|apply IH].
    specialize (IH s' (gupd g op (bcur_week s) out)). simpl in IH.
    destruct (g_fac (snd (fold_left bgstep t (s', gupd g op (bcur_week s) out)))) as [[f1 log1]|];
      destruct op; simpl in IH |- *; destruct (g_fac g) as [[f0 log0]|]; simpl in IH |- *; try exact IH;
      try (destruct IH as (-> & ->); split; [reflexivity | rewrite <- app_assoc; reflexivity]);
      try (destruct IH as (-> & ->); eexists; eexists; split; reflexivity); try contradiction.
Qed.

(** setBoostedYieldsFactors accepts exactly: admin caller, both minimums positive (the other arguments are BigUints) *)
Lemma set_factors_guard s g c f :
  BInv s g ->
  ((exists s' out, ep_set_factors s c f = Ok (s', out)) <->
   (c = ADMIN /\ 0 <= fa_max f /\ 0 <= fa_ce f /\ 0 <= fa_cf f /\ 0 < fa_mine f /\ 0 < fa_minf f /\
    (0 < fa_ce f \/ 0 < fa_cf f))).
Proof.
  intros (Htime & _ & _ & HC & _). unfold ep_set_factors, admin. split.
  - intros (s' & out & Hs). destruct (c =? ADMIN) eqn:Ec; [|discriminate]. apply Z.eqb_eq in Ec.
    destruct ((0 <=? fa_max f) && (0 <=? fa_ce f) && (0 <=? fa_cf f)) eqn:E1; [|discriminate].
    destruct ((0 <? fa_mine f) && (0 <? fa_minf f)) eqn:E2; [|discriminate].
    destruct ((0 <? fa_ce f) || (0 <? fa_cf f)) eqn:E3; [|discriminate].
    rewrite !andb_true_iff, !Z.leb_le in E1. rewrite andb_true_iff, !Z.ltb_lt in E2. rewrite orb_true_iff, !Z.ltb_lt in E3. tauto.
  - intros (-> & H1 & H2 & H3 & H4 & H5 & H6). rewrite Z.eqb_refl.
    assert (E1 : (0 <=? fa_max f) && (0 <=? fa_ce f) && (0 <=? fa_cf f) = true) by (rewrite !andb_true_iff, !Z.leb_le; tauto).
    assert (E2 : (0 <? fa_mine f) && (0 <? fa_minf f) = true) by (rewrite andb_true_iff, !Z.ltb_lt; tauto).
    assert (E3 : (0 <? fa_ce f) || (0 <? fa_cf f) = true) by (rewrite orb_true_iff, !Z.ltb_lt; tauto).
    rewrite E1, E2, E3. unfold current_week, week_for_epoch.
    assert (Ele : (b_first s <=? b_epoch s) = true) by (apply Z.leb_le; exact Htime). rewrite Ele. simpl bind.
    fold (bcur_week s). unfold CI in HC. destruct (bh_cfg (b_h s)) as [cfg|]; [|eexists; eexists; reflexivity].
    destruct (g_fac g) as [[f0 log]|]; [|contradiction]. destruct HC as (_ & Hle).
    unfold cfg_update. assert (E : (c_last cfg <=? bcur_week s) = true) by (apply Z.leb_le; exact Hle). rewrite E.
    destruct (Z.min (bcur_week s - c_last cfg) NSLOTS =? 0); eexists; eexists; reflexivity.
Qed.

Lemma set_factors_perm s c f : c <> ADMIN -> ep_set_factors s c f = Err EPerm.
Proof. intros Hc. unfold ep_set_factors, admin. destruct (c =? ADMIN) eqn:E; [apply Z.eqb_eq in E; contradiction | reflexivity]. Qed.

(** ------------------------------------------------------------------ the formula never divides by zero *)
(** setBoostedYieldsFactors rejects cE = cF = 0, so every accepted setting — hence every entry of the register —
    has cE + cF > 0 *)
Definition fac_ok (f : factors) : Prop := 0 <= fa_ce f /\ 0 <= fa_cf f /\ 0 < fa_ce f + fa_cf f.
Definition FOK (gf : option (factors * list (Z * factors))) : Prop :=
  match gf with None => True | Some (f0, log) => fac_ok f0 /\ Forall (fun ev => fac_ok (snd ev)) log end.

Lemma fac_at_ok log : forall f0 w, fac_ok f0 -> Forall (fun ev => fac_ok (snd ev)) log -> fac_ok (fac_at f0 log w).
Proof.
  unfold fac_at. induction log as [|[k f] t IH]; intros f0 w H0 Hall; simpl; [exact H0|].
  inversion Hall; subst. apply IH; [|assumption]. destruct (k <=? w); assumption.
Qed.

Lemma set_factors_ok s c f s' out : ep_set_factors s c f = Ok (s', out) -> fac_ok f.
Proof.
  unfold ep_set_factors. destruct (admin c); [|discriminate].
  destruct ((0 <=? fa_max f) && (0 <=? fa_ce f) && (0 <=? fa_cf f)) eqn:E1; [|discriminate].
  destruct ((0 <? fa_mine f) && (0 <? fa_minf f)); [|discriminate].
  destruct ((0 <? fa_ce f) || (0 <? fa_cf f)) eqn:E3; [|discriminate]. intros _.
  rewrite !andb_true_iff, !Z.leb_le in E1. rewrite orb_true_iff, !Z.ltb_lt in E3. unfold fac_ok. lia.
Qed.

Lemma step_fok s op s' out gf cw : step s op = Ok (s', out) -> FOK gf -> FOK (fac_event op cw gf).
Proof.
  intros Hs Hg. destruct op; simpl; try exact Hg. simpl in Hs. pose proof (set_factors_ok _ _ _ _ _ Hs) as Hf.
  destruct gf as [[f0 log]|]; simpl in *.
  - destruct Hg as (G1 & G2). split; [exact G1|]. apply Forall_app. split; [exact G2 | constructor; [exact Hf | constructor]].
  - split; [exact Hf | constructor].
Qed.

Lemma bgrun_fok ops : forall s g, FOK (g_fac g) -> FOK (g_fac (snd (bgrun (s, g) ops))).
Proof.
  unfold bgrun. induction ops as [|op t IH]; intros s g Hg; simpl; [exact Hg|].
  unfold bgstep at 2. simpl. destruct (step s op) as [[s' out]|] eqn:Es; simpl; [|apply IH; exact Hg].
  apply IH. simpl. apply (step_fok _ _ _ _ _ _ Es Hg).
Qed.

Lemma CInv_slots_ok c f0 log : CInv c f0 log -> FOK (Some (f0, log)) -> forall fa, In fa (c_slots c) -> fac_ok fa.
Proof.
  intros (Hlen & _ & Hsl) (H0 & Hall) fa Hin. pose proof nslots_pos as HN.
  destruct (In_nth _ _ fac0 Hin) as (i & Hi & Hnth). rewrite Hlen in Hi.
  assert (Hk : 0 <= NSLOTS - 1 - Z.of_nat i < NSLOTS) by lia.
  specialize (Hsl _ Hk). unfold slot in Hsl.
  replace (Z.to_nat (NSLOTS - 1 - (NSLOTS - 1 - Z.of_nat i))) with i in Hsl by lia.
  rewrite <- Hnth, Hsl. apply fac_at_ok; assumption.
Qed.

(** what can make get_user_rewards_for_week fail once no eligible week has cE + cF = 0: an invalid week for the
    register, a missing config at the freeze, a malformed stored total — or the guard [remaining -= reward];
    never the division *)
Lemma hook_err_cases pos cfg cw h s w e E err :
  (forall fa, get_factors_for_week cfg w = Ok fa -> fa_ce fa + fa_cf fa <> 0) ->
  boosted_hook pos cfg cw h s w e E = Err err ->
  (exists e1, get_factors_for_week cfg w = Err e1) \/
  (exists e1, b_collect_and_get cw h s w = Err e1) \/
  (exists h1 s1 tot, b_collect_and_get cw h s w = Ok (h1, s1, tot) /\ (2 <= length tot)%nat) \/
  (exists fa h1 s1 t R,
     get_factors_for_week cfg w = Ok fa /\ b_collect_and_get cw h s w = Ok (h1, s1, [(t, R)]) /\ R <> 0 /\
     0 < boosted_amount fa R pos (aget (bh_sup h) w) e E /\
     aget (bh_rem h1) w < boosted_amount fa R pos (aget (bh_sup h) w) e E).
Proof.
  intros Hnz. unfold boosted_hook. set (F := aget (bh_sup h) w).
  destruct ((E =? 0) || (F =? 0)); [discriminate|].
  destruct (get_factors_for_week cfg w) as [fa|e1] eqn:Hfa; [|intros _; left; exists e1; reflexivity]. simpl bind.
  destruct ((e <? fa_mine fa) || (pos <? fa_minf fa)); [discriminate|].
  destruct (b_collect_and_get cw h s w) as [[[h1 s1] tot]|e1] eqn:Hc; [|intros _; right; left; exists e1; reflexivity]. simpl bind.
  destruct tot as [|[t R] [|y l]]; [discriminate| |].
  - destruct (R =? 0) eqn:ER; [discriminate|]. apply Z.eqb_neq in ER.
    unfold div_chk. destruct (fa_ce fa + fa_cf fa =? 0) eqn:Ez; [apply Z.eqb_eq in Ez; exfalso; apply (Hnz fa eq_refl Ez)|]. simpl bind.
    fold (boosted_amount fa R pos F e E).
    destruct (0 <? boosted_amount fa R pos F e E) eqn:Ep; [|discriminate]. apply Z.ltb_lt in Ep.
    unfold sub_chk. destruct (aget (bh_rem h1) w <? boosted_amount fa R pos F e E) eqn:Es; [|discriminate]. apply Z.ltb_lt in Es.
    intros _. right. right. right. exists fa, h1, s1, t, R. repeat split; assumption.
  - intros _. right. right. left. exists h1, s1, ((t, R) :: y :: l). split; [reflexivity | simpl; lia].
Qed.

Lemma reach_no_div0 epoch ops :
  let s := fst (bgrun (init_b epoch, bg0) ops) in let cw := bcur_week s in
  forall c, bh_cfg (b_h s) = Some c ->
    (forall fa, In fa (c_slots c) -> fac_ok fa) /\
    forall cfg, cfg_update c cw None = Ok cfg ->
      (forall fa, In fa (c_slots cfg) -> fac_ok fa) /\
      (forall w fa, get_factors_for_week cfg w = Ok fa ->
         fac_ok fa /\ forall x, div_chk x (fa_ce fa + fa_cf fa) = Ok (x / (fa_ce fa + fa_cf fa))) /\
      (forall pos h0 s0 w e E err, boosted_hook pos cfg cw h0 s0 w e E = Err err ->
         (exists e1, get_factors_for_week cfg w = Err e1) \/
         (exists e1, b_collect_and_get cw h0 s0 w = Err e1) \/
         (exists h1 s1 tot, b_collect_and_get cw h0 s0 w = Ok (h1, s1, tot) /\ (2 <= length tot)%nat) \/
         (exists fa h1 s1 t R,
            get_factors_for_week cfg w = Ok fa /\ b_collect_and_get cw h0 s0 w = Ok (h1, s1, [(t, R)]) /\ R <> 0 /\
            0 < boosted_amount fa R pos (aget (bh_sup h0) w) e E /\
            aget (bh_rem h1) w < boosted_amount fa R pos (aget (bh_sup h0) w) e E)).
Proof.
  intros s cw c Hc. destruct (reach_inv epoch ops) as (_ & _ & _ & HC & _). fold s cw in HC.
  pose proof (bgrun_fok ops (init_b epoch) bg0 I) as Hfok. unfold CI in HC. rewrite Hc in HC.
  destruct (g_fac (snd (bgrun (init_b epoch, bg0) ops))) as [[f0 log]|]; [|contradiction].
  destruct HC as (Hi & _). split; [apply (CInv_slots_ok _ _ _ Hi Hfok)|].
  intros cfg Hu. destruct (cfg_update_inv _ _ _ _ _ _ Hi Hu) as (_ & _ & Hi').
  assert (Hsl : forall fa, In fa (c_slots cfg) -> fac_ok fa) by apply (CInv_slots_ok _ _ _ Hi' Hfok).
  assert (Hget : forall w fa, get_factors_for_week cfg w = Ok fa -> fac_ok fa).
  { intros w fa Hg. destruct (get_factors_spec _ _ _ w Hi') as (_ & H2). destruct (H2 fa Hg) as (_ & ->).
    destruct Hfok. apply fac_at_ok; assumption. }
  split; [exact Hsl|]. split.
  - intros w fa Hg. pose proof (Hget w fa Hg) as Hok. split; [exact Hok|]. intros x. unfold div_chk.
    destruct (fa_ce fa + fa_cf fa =? 0) eqn:E; [apply Z.eqb_eq in E; destruct Hok as (_ & _ & Hp); lia | reflexivity].
  - intros pos h0 s0 w e E err Hh. apply (hook_err_cases _ _ _ _ _ _ _ _ _ (fun fa Hg => ltac:(destruct (Hget w fa Hg) as (_ & _ & Hp); lia)) Hh).
Qed.
