(** Proofs for the extended permissions / pausable machine (Model/PermExt.v).

    Part A — storage and bit lemmas: [pm_get] after [add_perm] / [remove_perm] / the list loops;
             a demand for one flag is one bit test, for ALL permission values.
    Part B — the theorems of Proofs/AccessProofs.v Part B, re-proved for [px_step]: only authorised
             callers succeed (and they do); no escalation; powerless callers change nothing.
    Part C — exact effect of every operation on every address (Z level and bit level).
    Part D — idempotence.
    Part E — refinement to the set-based specification [sp_step] over every history; "granted and
             not since revoked" in its direct form.
    Part F — pause / resume: success iff the PAUSE bit; the state is what the last successful
             state-setting call set. *)
From Coq Require Import ZArith List Bool Lia.
From MX Require Import Base.Prelude Gen.Params Gen.Endpoints Model.Access Proofs.AccessProofs Model.PermExt.
Import ListNotations.
Open Scope Z_scope.

(** ================================================================== Part A *)
Local Arguments zmem : simpl never.

Lemma pm_get_set s a v x : pm_get (pm_set s a v) x = if a =? x then v else pm_get s x.
Proof.
  unfold pm_get, pm_set; simpl. destruct (a =? x) eqn:E.
  - apply Z.eqb_eq in E. subst. apply aget_aset_same.
  - apply Z.eqb_neq in E. apply aget_aset_other. exact E.
Qed.

Lemma get_add_perm s a f x :
  pm_get (add_perm s a f) x = if a =? x then Z.lor (pm_get s x) f else pm_get s x.
Proof.
  unfold add_perm. rewrite pm_get_set. destruct (a =? x) eqn:E; [|reflexivity].
  apply Z.eqb_eq in E. subst. reflexivity.
Qed.

Lemma get_remove_perm s a f x :
  pm_get (remove_perm s a f) x = if a =? x then Z.ldiff (pm_get s x) f else pm_get s x.
Proof.
  unfold remove_perm. rewrite pm_get_set. destruct (a =? x) eqn:E; [|reflexivity].
  apply Z.eqb_eq in E. subst. reflexivity.
Qed.

Lemma zmem_cons x a l : zmem x (a :: l) = (x =? a) || zmem x l.
Proof. reflexivity. Qed.

Lemma zmem_In x l : zmem x l = true <-> In x l.
Proof.
  unfold zmem. rewrite existsb_exists. split.
  - intros (y & Hy & He). apply Z.eqb_eq in He. subst. exact Hy.
  - intros H. exists x. split; [exact H | apply Z.eqb_refl].
Qed.

Lemma lor_twice p f : Z.lor (Z.lor p f) f = Z.lor p f.
Proof. rewrite <- Z.lor_assoc, Z.lor_diag. reflexivity. Qed.

Lemma ldiff_twice p f : Z.ldiff (Z.ldiff p f) f = Z.ldiff p f.
Proof.
  apply Z.bits_inj'. intros n _. rewrite !Z.ldiff_spec.
  destruct (Z.testbit p n), (Z.testbit f n); reflexivity.
Qed.

Lemma get_add_perm_all : forall l s f x,
  pm_get (add_perm_all s l f) x = if zmem x l then Z.lor (pm_get s x) f else pm_get s x.
Proof.
  induction l as [|a l IH]; intros s f x; [reflexivity|].
  change (add_perm_all s (a :: l) f) with (add_perm_all (add_perm s a f) l f).
  rewrite IH, get_add_perm, zmem_cons, (Z.eqb_sym x a).
  destruct (a =? x); simpl; destruct (zmem x l); try reflexivity. apply lor_twice.
Qed.

Lemma get_remove_perm_all : forall l s f x,
  pm_get (remove_perm_all s l f) x = if zmem x l then Z.ldiff (pm_get s x) f else pm_get s x.
Proof.
  induction l as [|a l IH]; intros s f x; [reflexivity|].
  change (remove_perm_all s (a :: l) f) with (remove_perm_all (remove_perm s a f) l f).
  rewrite IH, get_remove_perm, zmem_cons, (Z.eqb_sym x a).
  destruct (a =? x); simpl; destruct (zmem x l); try reflexivity. apply ldiff_twice.
Qed.

Lemma add_perm_all_frame : forall l s f,
  pm_state_val (add_perm_all s l f) = pm_state_val s /\ pm_chain_owner (add_perm_all s l f) = pm_chain_owner s.
Proof.
  induction l as [|a l IH]; intros s f; [split; reflexivity|].
  change (add_perm_all s (a :: l) f) with (add_perm_all (add_perm s a f) l f).
  destruct (IH (add_perm s a f) f) as [H1 H2]. rewrite H1, H2. split; reflexivity.
Qed.

Lemma remove_perm_all_frame : forall l s f,
  pm_state_val (remove_perm_all s l f) = pm_state_val s /\ pm_chain_owner (remove_perm_all s l f) = pm_chain_owner s.
Proof.
  induction l as [|a l IH]; intros s f; [split; reflexivity|].
  change (remove_perm_all s (a :: l) f) with (remove_perm_all (remove_perm s a f) l f).
  destruct (IH (remove_perm s a f) f) as [H1 H2]. rewrite H1, H2. split; reflexivity.
Qed.

(** the three flags are the bits 0, 1, 2 — for every bit index, negative ones included *)
Lemma bit_of_owner i : Z.testbit PERM_OWNER i = (BIT_OWNER =? i).
Proof. change PERM_OWNER with (2 ^ 0). apply Z.pow2_bits_eqb. unfold BIT_OWNER. lia. Qed.
Lemma bit_of_admin i : Z.testbit PERM_ADMIN i = (BIT_ADMIN =? i).
Proof. change PERM_ADMIN with (2 ^ 1). apply Z.pow2_bits_eqb. unfold BIT_ADMIN. lia. Qed.
Lemma bit_of_pause i : Z.testbit PERM_PAUSE i = (BIT_PAUSE =? i).
Proof. change PERM_PAUSE with (2 ^ 2). apply Z.pow2_bits_eqb. unfold BIT_PAUSE. lia. Qed.

Lemma land_pow2 p k : 0 <= k -> Z.land p (2 ^ k) = if Z.testbit p k then 2 ^ k else 0.
Proof.
  intros Hk. apply Z.bits_inj'. intros n _. rewrite Z.land_spec, Z.pow2_bits_eqb by exact Hk.
  destruct (Z.testbit p k) eqn:E.
  - rewrite Z.pow2_bits_eqb by exact Hk. destruct (k =? n) eqn:En.
    + apply Z.eqb_eq in En. subst. rewrite E. reflexivity.
    + apply andb_false_r.
  - rewrite Z.bits_0. destruct (k =? n) eqn:En.
    + apply Z.eqb_eq in En. subst. rewrite E. reflexivity.
    + apply andb_false_r.
Qed.

(** `caller_permissions.intersects(FLAG)` is the test of FLAG's bit, whatever else is stored *)
Lemma intersects_pow2 p k : 0 <= k -> intersects p (2 ^ k) = Z.testbit p k.
Proof.
  intros Hk. unfold intersects. rewrite land_pow2 by exact Hk.
  destruct (Z.testbit p k); [|reflexivity].
  assert (Hne : 2 ^ k <> 0) by (apply Z.pow_nonzero; lia).
  apply Z.eqb_neq in Hne. rewrite Hne. reflexivity.
Qed.

Lemma require_bit p k : 0 <= k ->
  require_any_of p (2 ^ k) = if Z.testbit p k then Ok tt else Err EPerm.
Proof. intros Hk. unfold require_any_of. rewrite intersects_pow2 by exact Hk. reflexivity. Qed.

Lemma require_owner s c :
  require_any_of (pm_get s c) PERM_OWNER = if holds_bit s c BIT_OWNER then Ok tt else Err EPerm.
Proof. change PERM_OWNER with (2 ^ 0). apply require_bit. lia. Qed.

Lemma require_pause s c :
  require_any_of (pm_get s c) PERM_PAUSE = if holds_bit s c BIT_PAUSE then Ok tt else Err EPerm.
Proof. change PERM_PAUSE with (2 ^ 2). apply require_bit. unfold BIT_PAUSE. lia. Qed.

Lemma has_flag_owner s c : has_flag (pm_get s c) PERM_OWNER <-> holds_bit s c BIT_OWNER = true.
Proof. unfold has_flag. change PERM_OWNER with (2 ^ 0). rewrite intersects_pow2 by lia. reflexivity. Qed.

Lemma has_flag_pause s c : has_flag (pm_get s c) PERM_PAUSE <-> holds_bit s c BIT_PAUSE = true.
Proof. unfold has_flag. change PERM_PAUSE with (2 ^ 2). rewrite intersects_pow2 by (unfold BIT_PAUSE; lia). reflexivity. Qed.

(** ================================================================== Part B *)

(** the documented rule: who may perform which operation *)
Definition px_authorised (s : pm_state) (op : px_op) : Prop :=
  match op with
  | XBase o => pm_authorised s o
  | XAddPausers c _ | XRemovePausers c _ => has_flag (pm_get s c) PERM_OWNER
  | XChangeOwner c _ => c = pm_chain_owner s
  end.

Theorem px_step_authorised : forall s op s', px_step s op = Ok s' -> px_authorised s op.
Proof.
  intros s op s' H. destruct op as [o | c l | c l | c n]; simpl in *.
  - exact (pm_step_authorised s o s' H).
  - destruct (require_any_of_cases (pm_get s c) PERM_OWNER) as [[Hi Hr] | [Hi Hr]]; rewrite Hr in H; simpl in H;
      [exact Hi | discriminate].
  - destruct (require_any_of_cases (pm_get s c) PERM_OWNER) as [[Hi Hr] | [Hi Hr]]; rewrite Hr in H; simpl in H;
      [exact Hi | discriminate].
  - destruct (c =? pm_chain_owner s) eqn:E; [apply Z.eqb_eq in E; exact E | discriminate].
Qed.

Theorem px_step_unauthorised : forall s op, ~ px_authorised s op -> px_step s op = Err EPerm.
Proof.
  intros s op H. destruct op as [o | c l | c l | c n]; simpl in *.
  - exact (pm_step_unauthorised s o H).
  - destruct (require_any_of_cases (pm_get s c) PERM_OWNER) as [[Hi Hr] | [Hi Hr]]; rewrite Hr; simpl;
      [contradiction | reflexivity].
  - destruct (require_any_of_cases (pm_get s c) PERM_OWNER) as [[Hi Hr] | [Hi Hr]]; rewrite Hr; simpl;
      [contradiction | reflexivity].
  - destruct (c =? pm_chain_owner s) eqn:E; [apply Z.eqb_eq in E; contradiction | reflexivity].
Qed.

(** an authorised call never fails: the operations have no other guard *)
Theorem px_step_authorised_ok : forall s op, px_authorised s op -> exists s', px_step s op = Ok s'.
Proof.
  intros s op H. destruct (px_step s op) as [s'|e] eqn:E; [eauto|].
  exfalso. destruct op as [o | c l | c l | c n]; simpl in *.
  - destruct o; simpl in *; unfold has_flag in H;
      try (unfold require_any_of in E; rewrite H in E; simpl in E; discriminate).
    subst. rewrite Z.eqb_refl in E. discriminate.
  - unfold has_flag in H. unfold require_any_of in E. rewrite H in E. discriminate.
  - unfold has_flag in H. unfold require_any_of in E. rewrite H in E. discriminate.
  - subst. rewrite Z.eqb_refl in E. discriminate.
Qed.

Lemma px_step_frame : forall s op s', px_step s op = Ok s' ->
  (pm_perms s' <> pm_perms s \/ pm_chain_owner s' <> pm_chain_owner s) ->
  has_flag (pm_get s (px_caller op)) PERM_OWNER \/ px_caller op = pm_chain_owner s.
Proof.
  intros s op s' H Hd. pose proof (px_step_authorised s op s' H) as Ha.
  destruct op as [o | c l | c l | c n]; simpl in *; auto.
  destruct o; simpl in *; auto;
    destruct (require_any_of_cases (pm_get s caller) PERM_PAUSE) as [[_ Hr]|[_ Hr]]; rewrite Hr in H; simpl in H;
    try discriminate; inversion H; subst; simpl in Hd; destruct Hd; congruence.
Qed.

(** No escalation, for every history of the extended machine (owner changes included): if no caller
    holds the OWNER flag (in the initial state) or is the chain owner, nobody's permissions ever
    change and the chain owner stays *)
Theorem px_no_escalation : forall ops s,
  (forall op, In op ops -> ~ has_flag (pm_get s (px_caller op)) PERM_OWNER /\ px_caller op <> pm_chain_owner s) ->
  pm_perms (px_run s ops) = pm_perms s /\ pm_chain_owner (px_run s ops) = pm_chain_owner s.
Proof.
  induction ops as [|op t IH]; intros s Hall; [split; reflexivity|].
  unfold px_run in *. simpl.
  assert (Hp : pm_perms (px_step_total s op) = pm_perms s /\ pm_chain_owner (px_step_total s op) = pm_chain_owner s).
  { unfold px_step_total. destruct (px_step s op) as [s'|] eqn:E; [|split; reflexivity].
    destruct (list_eq_dec (fun a b : Z * Z => ltac:(decide equality; apply Z.eq_dec)) (pm_perms s') (pm_perms s)) as [Heq|Hne];
      destruct (Z.eq_dec (pm_chain_owner s') (pm_chain_owner s)) as [Hc|Hc]; try (split; assumption);
      destruct (Hall op (or_introl eq_refl)) as [H1 H2];
      (destruct (px_step_frame s op s' E); [auto | contradiction | contradiction]). }
  destruct Hp as [Hp Hc].
  destruct (IH (px_step_total s op)) as [I1 I2].
  - intros op' Hin. destruct (Hall op' (or_intror Hin)) as [H1 H2].
    unfold pm_get in *. rewrite Hp, Hc. split; assumption.
  - rewrite I1, I2. split; assumption.
Qed.

(** callers holding no flag at all, none of them the chain owner: the whole state is left as it was *)
Theorem px_powerless_history : forall ops s,
  (forall op, In op ops -> pm_get s (px_caller op) = 0 /\ px_caller op <> pm_chain_owner s) ->
  px_run s ops = s.
Proof.
  induction ops as [|op t IH]; intros s Hall; [reflexivity|].
  unfold px_run in *. simpl.
  assert (Hs : px_step_total s op = s).
  { unfold px_step_total. destruct (Hall op (or_introl eq_refl)) as [H0 Hno].
    rewrite px_step_unauthorised; [reflexivity|].
    intros Ha. destruct op as [o | c l | c l | c n]; simpl in *.
    - destruct o; simpl in *; unfold has_flag, intersects in Ha; rewrite ?H0 in Ha; simpl in Ha;
        try discriminate; contradiction.
    - unfold has_flag, intersects in Ha. rewrite H0 in Ha. discriminate.
    - unfold has_flag, intersects in Ha. rewrite H0 in Ha. discriminate.
    - contradiction. }
  rewrite Hs. apply IH. intros op' Hin. apply Hall. right. exact Hin.
Qed.

(** the one-address whitelist calls of Model/Access.v are the one-element case *)
Lemma px_single_pauser_add s c a : px_step s (XAddPausers c [a]) = pm_step s (PmAddPauser c a).
Proof. reflexivity. Qed.
Lemma px_single_pauser_remove s c a : px_step s (XRemovePausers c [a]) = pm_step s (PmRemovePauser c a).
Proof. reflexivity. Qed.

(** ================================================================== Part C: exact effect *)

(** addresses and flag an add / remove call names *)
Definition add_target (op : px_op) : option (list Z * Z) :=
  match op with
  | XBase (PmAddAdmin _ a) => Some ([a], PERM_ADMIN)
  | XBase (PmAddPauser _ a) => Some ([a], PERM_PAUSE)
  | XAddPausers _ l => Some (l, PERM_PAUSE)
  | _ => None
  end.
Definition remove_target (op : px_op) : option (list Z * Z) :=
  match op with
  | XBase (PmRemoveAdmin _ a) => Some ([a], PERM_ADMIN)
  | XBase (PmRemovePauser _ a) => Some ([a], PERM_PAUSE)
  | XRemovePausers _ l => Some (l, PERM_PAUSE)
  | _ => None
  end.

(** the permission value of address [x] after a successful [op] *)
Definition px_effect (s : pm_state) (op : px_op) (x : Z) : Z :=
  match add_target op, remove_target op, op with
  | Some (l, f), _, _ => if zmem x l then Z.lor (pm_get s x) f else pm_get s x
  | _, Some (l, f), _ => if zmem x l then Z.ldiff (pm_get s x) f else pm_get s x
  | _, _, XBase (PmUpdateOwnerOrAdmin c prev) =>
      if c =? x then pm_get s prev else if prev =? x then 0 else pm_get s x
  | _, _, _ => pm_get s x
  end.

Lemma zmem_single x a : zmem x [a] = (a =? x).
Proof. unfold zmem. simpl. rewrite orb_false_r. apply Z.eqb_sym. Qed.

Ltac break_req H :=
  match type of H with
  | bind (require_any_of ?a ?b) _ = Ok _ =>
      destruct (require_any_of_cases a b) as [[_ Hr_] | [_ Hr_]]; rewrite Hr_ in H; simpl in H;
      [inversion H; subst; clear H | discriminate]
  end.

Theorem px_step_effect : forall s op s', px_step s op = Ok s' ->
  forall x, pm_get s' x = px_effect s op x.
Proof.
  intros s op s' H x. destruct op as [o | c l | c l | c n]; simpl in H.
  - destruct o; simpl in H; try break_req H; unfold px_effect; simpl; rewrite ?zmem_single.
    + apply (get_add_perm s a PERM_ADMIN x).
    + apply (get_remove_perm s a PERM_ADMIN x).
    + destruct (caller =? pm_chain_owner s); [|discriminate]. inversion H; subst; clear H.
      rewrite !pm_get_set. destruct (caller =? x); reflexivity.
    + apply (get_add_perm s a PERM_PAUSE x).
    + apply (get_remove_perm s a PERM_PAUSE x).
    + reflexivity.
    + reflexivity.
    + reflexivity.
  - break_req H. unfold px_effect; simpl. apply get_add_perm_all.
  - break_req H. unfold px_effect; simpl. apply get_remove_perm_all.
  - destruct (c =? pm_chain_owner s); [|discriminate]. inversion H; subst. reflexivity.
Qed.

(** the stored State and the chain owner after a successful [op] *)
Theorem px_step_state : forall s op s', px_step s op = Ok s' ->
  pm_state_val s' = match state_target op with Some v => v | None => pm_state_val s end.
Proof.
  intros s op s' H. destruct op as [o | c l | c l | c n]; simpl in H.
  - destruct o; simpl in H; try break_req H; try reflexivity.
    destruct (caller =? pm_chain_owner s); [|discriminate]. inversion H; subst. reflexivity.
  - break_req H. simpl. apply add_perm_all_frame.
  - break_req H. simpl. apply remove_perm_all_frame.
  - destruct (c =? pm_chain_owner s); [|discriminate]. inversion H; subst. reflexivity.
Qed.

Theorem px_step_chain : forall s op s', px_step s op = Ok s' ->
  pm_chain_owner s' = match op with XChangeOwner _ n => n | _ => pm_chain_owner s end.
Proof.
  intros s op s' H. destruct op as [o | c l | c l | c n]; simpl in H.
  - destruct o; simpl in H; try break_req H; try reflexivity.
    destruct (caller =? pm_chain_owner s); [|discriminate]. inversion H; subst. reflexivity.
  - break_req H. apply add_perm_all_frame.
  - break_req H. apply remove_perm_all_frame.
  - destruct (c =? pm_chain_owner s); [|discriminate]. inversion H; subst. reflexivity.
Qed.

Lemma add_target_flag op l f : add_target op = Some (l, f) -> f = PERM_ADMIN \/ f = PERM_PAUSE.
Proof. destruct op as [o| | |]; [destruct o|..]; simpl; intros H; inversion H; auto. Qed.
Lemma remove_target_flag op l f : remove_target op = Some (l, f) -> f = PERM_ADMIN \/ f = PERM_PAUSE.
Proof. destruct op as [o| | |]; [destruct o|..]; simpl; intros H; inversion H; auto. Qed.

Lemma add_remove_disjoint op l f : remove_target op = Some (l, f) -> add_target op = None.
Proof. destruct op as [o| | |]; [destruct o|..]; simpl; intros H; inversion H; reflexivity. Qed.

(** add = bitwise or: every bit of every address *)
Theorem px_add_bits : forall s op s' l f, px_step s op = Ok s' -> add_target op = Some (l, f) ->
  forall x i, Z.testbit (pm_get s' x) i = Z.testbit (pm_get s x) i || (zmem x l && Z.testbit f i).
Proof.
  intros s op s' l f H Ht x i. rewrite (px_step_effect s op s' H x). unfold px_effect. rewrite Ht.
  destruct (zmem x l); simpl; [apply Z.lor_spec | rewrite orb_false_r; reflexivity].
Qed.

(** remove = and-not: every bit of every address *)
Theorem px_remove_bits : forall s op s' l f, px_step s op = Ok s' -> remove_target op = Some (l, f) ->
  forall x i, Z.testbit (pm_get s' x) i = Z.testbit (pm_get s x) i && negb (zmem x l && Z.testbit f i).
Proof.
  intros s op s' l f H Ht x i. rewrite (px_step_effect s op s' H x). unfold px_effect.
  rewrite (add_remove_disjoint op l f Ht), Ht.
  destruct (zmem x l); simpl; [apply Z.ldiff_spec | rewrite andb_true_r; reflexivity].
Qed.

(** after removeX no address has gained a bit, and no named address holds X *)
Theorem px_remove_never_gains : forall s op s' l f, px_step s op = Ok s' -> remove_target op = Some (l, f) ->
  forall x i, Z.testbit (pm_get s' x) i = true -> Z.testbit (pm_get s x) i = true.
Proof.
  intros s op s' l f H Ht x i Hb. rewrite (px_remove_bits s op s' l f H Ht) in Hb.
  apply andb_true_iff in Hb. apply Hb.
Qed.

Theorem px_remove_clears : forall s op s' l f, px_step s op = Ok s' -> remove_target op = Some (l, f) ->
  forall x, In x l -> intersects (pm_get s' x) f = false.
Proof.
  intros s op s' l f H Ht x Hin. apply zmem_In in Hin.
  assert (Hz : Z.land (pm_get s' x) f = 0).
  { apply Z.bits_inj'. intros n _. rewrite Z.land_spec, (px_remove_bits s op s' l f H Ht), Hin, Z.bits_0.
    simpl. destruct (Z.testbit (pm_get s x) n), (Z.testbit f n); reflexivity. }
  unfold intersects. rewrite Hz. reflexivity.
Qed.

(** ================================================================== Part D: idempotence *)

Lemma owner_bit_kept_add s op s' l f c : px_step s op = Ok s' -> add_target op = Some (l, f) ->
  holds_bit s' c BIT_OWNER = holds_bit s c BIT_OWNER.
Proof.
  intros H Ht. unfold holds_bit. rewrite (px_add_bits s op s' l f H Ht).
  destruct (add_target_flag op l f Ht) as [-> | ->]; [rewrite bit_of_admin | rewrite bit_of_pause];
    simpl; rewrite andb_false_r, orb_false_r; reflexivity.
Qed.

Lemma owner_bit_kept_remove s op s' l f c : px_step s op = Ok s' -> remove_target op = Some (l, f) ->
  holds_bit s' c BIT_OWNER = holds_bit s c BIT_OWNER.
Proof.
  intros H Ht. unfold holds_bit. rewrite (px_remove_bits s op s' l f H Ht).
  destruct (remove_target_flag op l f Ht) as [-> | ->]; [rewrite bit_of_admin | rewrite bit_of_pause];
    simpl; rewrite andb_false_r; simpl; apply andb_true_r.
Qed.

Lemma target_needs_owner op l f s : add_target op = Some (l, f) \/ remove_target op = Some (l, f) ->
  (px_authorised s op <-> holds_bit s (px_caller op) BIT_OWNER = true).
Proof.
  intros Ht. destruct op as [o| c l' | c l' |]; [destruct o|..]; simpl in *;
    try (destruct Ht as [Ht|Ht]; discriminate); apply has_flag_owner.
Qed.

(** the same add / remove call issued again succeeds again and changes nobody's permissions *)
Theorem px_add_remove_idempotent : forall s op s1 l f,
  add_target op = Some (l, f) \/ remove_target op = Some (l, f) ->
  px_step s op = Ok s1 ->
  exists s2, px_step s1 op = Ok s2 /\ forall x, pm_get s2 x = pm_get s1 x.
Proof.
  intros s op s1 l f Ht H.
  assert (Ha : px_authorised s1 op).
  { apply (target_needs_owner op l f s1 Ht).
    pose proof (px_step_authorised s op s1 H) as Ha0. apply (target_needs_owner op l f s Ht) in Ha0.
    destruct Ht as [Ht|Ht]; [rewrite (owner_bit_kept_add s op s1 l f _ H Ht) | rewrite (owner_bit_kept_remove s op s1 l f _ H Ht)];
      exact Ha0. }
  destruct (px_step_authorised_ok s1 op Ha) as (s2 & H2). exists s2. split; [exact H2|].
  intros x. rewrite (px_step_effect s1 op s2 H2 x). unfold px_effect at 1.
  pose proof (px_step_effect s op s1 H x) as E1. unfold px_effect in E1.
  destruct Ht as [Ht|Ht].
  - rewrite Ht in *. destruct (zmem x l); [rewrite E1; apply lor_twice | reflexivity].
  - rewrite (add_remove_disjoint op l f Ht), Ht in *. destruct (zmem x l); [rewrite E1; apply ldiff_twice | reflexivity].
Qed.

(** revoking a role from addresses that do not hold it changes nothing *)
Theorem px_remove_not_held_noop : forall s op s' l f, px_step s op = Ok s' -> remove_target op = Some (l, f) ->
  (forall x, In x l -> intersects (pm_get s x) f = false) ->
  forall x, pm_get s' x = pm_get s x.
Proof.
  intros s op s' l f H Ht Hno x. rewrite (px_step_effect s op s' H x). unfold px_effect.
  rewrite (add_remove_disjoint op l f Ht), Ht. destruct (zmem x l) eqn:E; [|reflexivity].
  apply zmem_In in E. specialize (Hno x E). unfold intersects in Hno.
  apply negb_false_iff, Z.eqb_eq in Hno.
  apply Z.bits_inj'. intros n _. rewrite Z.ldiff_spec.
  assert (Hb : Z.testbit (Z.land (pm_get s x) f) n = false) by (rewrite Hno; apply Z.bits_0).
  rewrite Z.land_spec in Hb. destruct (Z.testbit (pm_get s x) n), (Z.testbit f n); simpl in *; congruence.
Qed.

(** granting a role to addresses that all hold it changes nothing *)
Theorem px_add_held_noop : forall s op s' l f, px_step s op = Ok s' -> add_target op = Some (l, f) ->
  (forall x, In x l -> Z.land (pm_get s x) f = f) ->
  forall x, pm_get s' x = pm_get s x.
Proof.
  intros s op s' l f H Ht Hall x. rewrite (px_step_effect s op s' H x). unfold px_effect. rewrite Ht.
  destruct (zmem x l) eqn:E; [|reflexivity].
  apply zmem_In in E. specialize (Hall x E).
  apply Z.bits_inj'. intros n _. rewrite Z.lor_spec.
  assert (Hb : Z.testbit (Z.land (pm_get s x) f) n = Z.testbit f n) by (rewrite Hall; reflexivity).
  rewrite Z.land_spec in Hb. destruct (Z.testbit (pm_get s x) n), (Z.testbit f n); simpl in *; congruence.
Qed.

(** ================================================================== Part E: refinement to sets *)

Definition refines (s : pm_state) (t : sp_state) : Prop :=
  (forall x, holds_bit s x BIT_OWNER = zmem x (sp_owners t)) /\
  (forall x, holds_bit s x BIT_ADMIN = zmem x (sp_admins t)) /\
  (forall x, holds_bit s x BIT_PAUSE = zmem x (sp_pausers t)) /\
  pm_state_val s = sp_paused t /\ pm_chain_owner s = sp_chain t.

(** the abstraction: who holds each bit, read off the permission table *)
Definition holders (s : pm_state) (i : Z) : list Z :=
  filter (fun a => holds_bit s a i) (akeys (pm_perms s)).
Definition abs (s : pm_state) : sp_state :=
  mkSp (holders s BIT_OWNER) (holders s BIT_ADMIN) (holders s BIT_PAUSE) (pm_state_val s) (pm_chain_owner s).

Lemma aget_missing l k : ~ In k (akeys l) -> aget l k = 0.
Proof.
  induction l as [|[k' v] t IH]; simpl; intros H; [reflexivity|].
  destruct (k' =? k) eqn:E.
  - apply Z.eqb_eq in E. exfalso. apply H. left. exact E.
  - apply IH. intros Hin. apply H. right. exact Hin.
Qed.

Lemma zmem_holders s i x : zmem x (holders s i) = holds_bit s x i.
Proof.
  unfold holders. destruct (holds_bit s x i) eqn:E.
  - apply zmem_In. apply filter_In. split; [|exact E].
    destruct (in_dec Z.eq_dec x (akeys (pm_perms s))) as [Hin|Hnot]; [exact Hin|].
    unfold holds_bit, pm_get in E. rewrite (aget_missing _ _ Hnot), Z.bits_0 in E. discriminate.
  - destruct (zmem x (filter (fun a => holds_bit s a i) (akeys (pm_perms s)))) eqn:Z; [|reflexivity].
    apply zmem_In, filter_In in Z. destruct Z as [_ Z]. congruence.
Qed.

Theorem abs_refines : forall s, refines s (abs s).
Proof.
  intros s. unfold refines, abs; simpl. repeat split; intros x; symmetry; apply zmem_holders.
Qed.

Lemma zmem_app x l1 l2 : zmem x (l1 ++ l2) = zmem x l1 || zmem x l2.
Proof. unfold zmem. apply existsb_app. Qed.

Lemma zmem_filter x p l : zmem x (filter p l) = p x && zmem x l.
Proof.
  induction l as [|a l IH]; simpl; [rewrite andb_false_r; reflexivity|].
  destruct (p a) eqn:Pa; simpl; rewrite ?zmem_cons, IH.
  - destruct (x =? a) eqn:E; simpl; [|reflexivity]. apply Z.eqb_eq in E. subst. rewrite Pa. reflexivity.
  - unfold zmem at 2. simpl. fold (zmem x l). destruct (x =? a) eqn:E; simpl; [|reflexivity].
    apply Z.eqb_eq in E. subst. rewrite Pa. reflexivity.
Qed.

Lemma zmem_zremove x y l : zmem x (zremove y l) = negb (x =? y) && zmem x l.
Proof. unfold zremove. apply zmem_filter. Qed.

Lemma zmem_zremove_all x ys l : zmem x (zremove_all ys l) = negb (zmem x ys) && zmem x l.
Proof. unfold zremove_all. apply zmem_filter. Qed.

Lemma zmem_ztransfer x prev c l :
  zmem x (ztransfer prev c l) = if c =? x then zmem prev l else if prev =? x then false else zmem x l.
Proof.
  unfold ztransfer. destruct (zmem prev l) eqn:W; rewrite ?zmem_cons, !zmem_zremove, (Z.eqb_sym x c), (Z.eqb_sym x prev);
    destruct (c =? x) eqn:Ec; simpl; try reflexivity; destruct (prev =? x) eqn:Ep; simpl; try reflexivity.
Qed.

Lemma refines_ok s t op : refines s t -> is_ok (px_step s op) = sp_accepts t op.
Proof.
  intros (Ro & Ra & Rp & Rs & Rc).
  destruct op as [o | c l | c l | c n]; [destruct o|..]; simpl;
    rewrite ?require_owner, ?require_pause, <- ?Ro, <- ?Rp, <- ?Rc;
    try (destruct (holds_bit s _ _); reflexivity);
    destruct (_ =? pm_chain_owner s); reflexivity.
Qed.

Lemma beq_ao : (BIT_ADMIN =? BIT_OWNER) = false. Proof. reflexivity. Qed.
Lemma beq_po : (BIT_PAUSE =? BIT_OWNER) = false. Proof. reflexivity. Qed.
Lemma beq_pa : (BIT_PAUSE =? BIT_ADMIN) = false. Proof. reflexivity. Qed.
Lemma beq_ap : (BIT_ADMIN =? BIT_PAUSE) = false. Proof. reflexivity. Qed.
Lemma beq_aa : (BIT_ADMIN =? BIT_ADMIN) = true. Proof. reflexivity. Qed.
Lemma beq_pp : (BIT_PAUSE =? BIT_PAUSE) = true. Proof. reflexivity. Qed.

(** one membership goal of the refinement: bit of the exact effect = membership in the new set *)
Ltac member_goal Ro Ra Rp x :=
  rewrite ?zmem_single, ?zmem_cons, ?zmem_app, ?zmem_zremove, ?zmem_zremove_all, ?zmem_ztransfer;
  rewrite <- ?Ro, <- ?Ra, <- ?Rp; unfold holds_bit;
  rewrite ?(Z.eqb_sym x);
  repeat match goal with |- context [if ?b then _ else _] => destruct b end;
  rewrite ?Z.lor_spec, ?Z.ldiff_spec, ?bit_of_admin, ?bit_of_pause, ?Z.bits_0,
          ?beq_ao, ?beq_po, ?beq_pa, ?beq_ap, ?beq_aa, ?beq_pp;
  repeat match goal with |- context [Z.testbit ?p ?i] => destruct (Z.testbit p i) end;
  repeat match goal with |- context [zmem ?a ?l] => destruct (zmem a l) end;
  repeat match goal with |- context [?a =? ?b] => destruct (a =? b) end;
  reflexivity.

Theorem px_refines_step : forall s t op, refines s t -> refines (px_step_total s op) (sp_step t op).
Proof.
  intros s t op R. pose proof R as (Ro & Ra & Rp & Rs & Rc).
  pose proof (refines_ok s t op R) as Hok.
  unfold px_step_total. destruct (px_step s op) as [s'|e] eqn:H; cbn [is_ok] in Hok.
  - (* accepted: exact effect on both sides *)
    assert (Hb : forall x i, holds_bit s' x i = Z.testbit (px_effect s op x) i)
      by (intros x i; unfold holds_bit; rewrite (px_step_effect s op s' H x); reflexivity).
    pose proof (px_step_state s op s' H) as Hs.
    pose proof (px_step_chain s op s' H) as Hc.
    unfold refines.
    destruct op as [o | c l | c l | c n]; [destruct o|..]; cbn [sp_accepts px_caller pm_caller] in Hok;
      cbn [sp_step]; rewrite <- Hok; cbn [sp_owners sp_admins sp_pausers sp_paused sp_chain zadd zadd_all];
      cbn [state_target] in Hs;
      (split; [|split; [|split; [|split; [rewrite Hs; try exact Rs; reflexivity | rewrite Hc; try exact Rc; reflexivity]]]]);
      intros x; rewrite Hb; unfold px_effect; cbn [add_target remove_target]; member_goal Ro Ra Rp x.
  - (* refused: nothing moves on either side *)
    assert (Hst : sp_step t op = t).
    { destruct op as [o | c l | c l | c n]; [destruct o|..]; cbn [sp_accepts px_caller pm_caller] in Hok;
        cbn [sp_step]; rewrite <- Hok; reflexivity. }
    rewrite Hst. exact R.
Qed.

Theorem px_refines_run : forall ops s t, refines s t -> refines (px_run s ops) (sp_run t ops).
Proof.
  induction ops as [|op ops IH]; intros s t R; [exact R|].
  unfold px_run, sp_run in *. simpl. apply IH. apply px_refines_step. exact R.
Qed.

(** direct form.  One step changes bit [i] of [x] only through an operation that may grant /
    revoke exactly that ... *)
Lemma px_step_bit_change : forall s op s' x i, px_step s op = Ok s' ->
  (holds_bit s x i = false -> holds_bit s' x i = true -> may_grant op x i = true) /\
  (holds_bit s x i = true -> holds_bit s' x i = false -> may_revoke op x i = true).
Proof.
  intros s op s' x i H. unfold holds_bit. rewrite (px_step_effect s op s' H x). unfold px_effect.
  destruct op as [o | c l | c l | c n]; [destruct o|..]; simpl; rewrite ?zmem_single;
    try (split; intros A B; congruence).
  - (* addAdmin *) destruct (a =? x); [|split; intros A B; congruence].
    rewrite Z.lor_spec, bit_of_admin, (Z.eqb_sym i BIT_ADMIN). simpl.
    split; intros A B; rewrite A in B; simpl in B; [exact B | discriminate].
  - (* removeAdmin *) destruct (a =? x); [|split; intros A B; congruence].
    rewrite Z.ldiff_spec, bit_of_admin, (Z.eqb_sym i BIT_ADMIN). simpl.
    split; intros A B; rewrite A in B; simpl in B; [discriminate | apply negb_false_iff in B; exact B].
  - (* updateOwnerOrAdmin *) destruct (caller =? x); simpl; [split; intros; rewrite ?orb_true_r; reflexivity|].
    destruct (prev =? x); simpl; [split; intros A B; [rewrite Z.bits_0 in B; discriminate | reflexivity]|].
    split; intros A B; congruence.
  - (* addPauser *) destruct (a =? x); [|split; intros A B; congruence].
    rewrite Z.lor_spec, bit_of_pause, (Z.eqb_sym i BIT_PAUSE). simpl.
    split; intros A B; rewrite A in B; simpl in B; [exact B | discriminate].
  - (* removePauser *) destruct (a =? x); [|split; intros A B; congruence].
    rewrite Z.ldiff_spec, bit_of_pause, (Z.eqb_sym i BIT_PAUSE). simpl.
    split; intros A B; rewrite A in B; simpl in B; [discriminate | apply negb_false_iff in B; exact B].
  - (* addPausers *) destruct (zmem x l); [|split; intros A B; congruence].
    rewrite Z.lor_spec, bit_of_pause, (Z.eqb_sym i BIT_PAUSE). simpl.
    split; intros A B; rewrite A in B; simpl in B; [exact B | discriminate].
  - (* removePausers *) destruct (zmem x l); [|split; intros A B; congruence].
    rewrite Z.ldiff_spec, bit_of_pause, (Z.eqb_sym i BIT_PAUSE). simpl.
    split; intros A B; rewrite A in B; simpl in B; [discriminate | apply negb_false_iff in B; exact B].
Qed.

(** ... so, over any history: a role not held stays not held until an operation that may grant it
    to that address (a revoked keeper stays revoked), ... *)
Theorem px_not_held_until_granted : forall ops s x i,
  holds_bit s x i = false -> (forall op, In op ops -> may_grant op x i = false) ->
  holds_bit (px_run s ops) x i = false.
Proof.
  induction ops as [|op ops IH]; intros s x i H0 Hall; [exact H0|].
  unfold px_run in *. simpl. apply IH; [|intros o Ho; apply Hall; right; exact Ho].
  unfold px_step_total. destruct (px_step s op) as [s'|] eqn:E; [|exact H0].
  destruct (holds_bit s' x i) eqn:B; [|reflexivity].
  destruct (px_step_bit_change s op s' x i E) as [G _].
  rewrite (Hall op (or_introl eq_refl)) in G. symmetry. apply G; [exact H0 | exact B].
Qed.

(** ... and a role held stays held until an operation that may revoke it from that address *)
Theorem px_held_until_revoked : forall ops s x i,
  holds_bit s x i = true -> (forall op, In op ops -> may_revoke op x i = false) ->
  holds_bit (px_run s ops) x i = true.
Proof.
  induction ops as [|op ops IH]; intros s x i H0 Hall; [exact H0|].
  unfold px_run in *. simpl. apply IH; [|intros o Ho; apply Hall; right; exact Ho].
  unfold px_step_total. destruct (px_step s op) as [s'|] eqn:E; [|exact H0].
  destruct (holds_bit s' x i) eqn:B; [reflexivity|].
  destruct (px_step_bit_change s op s' x i E) as [_ G].
  rewrite (Hall op (or_introl eq_refl)) in G. apply G; [exact H0 | exact B].
Qed.

(** ================================================================== Part F: pause / resume *)

Theorem px_pause_iff : forall s c s',
  px_step s (XBase (PmPause c)) = Ok s' <-> holds_bit s c BIT_PAUSE = true /\ s' = pm_set_state s ST_Inactive.
Proof.
  intros s c s'. cbn [px_step pm_step]. rewrite require_pause. destruct (holds_bit s c BIT_PAUSE); cbn [bind]; split.
  - intros H. inversion H. split; reflexivity.
  - intros [_ ->]. reflexivity.
  - discriminate.
  - intros [H _]. discriminate.
Qed.

Theorem px_resume_iff : forall s c s',
  px_step s (XBase (PmResume c)) = Ok s' <-> holds_bit s c BIT_PAUSE = true /\ s' = pm_set_state s ST_Active.
Proof.
  intros s c s'. cbn [px_step pm_step]. rewrite require_pause. destruct (holds_bit s c BIT_PAUSE); cbn [bind]; split.
  - intros H. inversion H. split; reflexivity.
  - intros [_ ->]. reflexivity.
  - discriminate.
  - intros [H _]. discriminate.
Qed.

(** the revoked keeper: after a successful revocation naming [x], along every history without an
    operation that may grant PAUSE to [x], [x] can neither pause nor resume *)
Theorem px_revoked_keeper_powerless : forall s op s1 l ops x,
  px_step s op = Ok s1 -> remove_target op = Some (l, PERM_PAUSE) -> In x l ->
  (forall o, In o ops -> may_grant o x BIT_PAUSE = false) ->
  px_step (px_run s1 ops) (XBase (PmPause x)) = Err EPerm /\
  px_step (px_run s1 ops) (XBase (PmResume x)) = Err EPerm.
Proof.
  intros s op s1 l ops x H Ht Hin Hall.
  assert (H1 : holds_bit s1 x BIT_PAUSE = false).
  { unfold holds_bit. rewrite (px_remove_bits s op s1 l PERM_PAUSE H Ht), bit_of_pause.
    apply zmem_In in Hin. rewrite Hin. simpl. apply andb_false_r. }
  pose proof (px_not_held_until_granted ops s1 x BIT_PAUSE H1 Hall) as H2.
  simpl. rewrite require_pause, H2. split; reflexivity.
Qed.

(** the targets of the state-setting calls that succeeded along a history, in order *)
Fixpoint state_sets (s : pm_state) (ops : list px_op) : list Z :=
  match ops with
  | [] => []
  | op :: t =>
      (match state_target op with
       | Some v => if is_ok (px_step s op) then [v] else []
       | None => []
       end) ++ state_sets (px_step_total s op) t
  end.

Lemma last_cons_default {A} (v : A) l d : last (v :: l) d = last l v.
Proof.
  revert v d. induction l as [|a l IH]; intros v d; [reflexivity|].
  change (last (v :: a :: l) d) with (last (a :: l) d). rewrite (IH a d), (IH a v). reflexivity.
Qed.

(** the stored State is what the last successful pause / resume / setStateActiveNoSwaps set
    (the initial one when none succeeded) *)
Theorem px_state_last_set : forall ops s,
  pm_state_val (px_run s ops) = last (state_sets s ops) (pm_state_val s).
Proof.
  induction ops as [|op ops IH]; intros s; [reflexivity|].
  unfold px_run in *. simpl. rewrite IH. unfold px_step_total.
  destruct (px_step s op) as [s'|] eqn:E; simpl.
  - rewrite (px_step_state s op s' E). destruct (state_target op) as [v|]; simpl; [|reflexivity].
    symmetry. apply last_cons_default.
  - destruct (state_target op); reflexivity.
Qed.
