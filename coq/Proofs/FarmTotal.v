(** C05, last clause, for dex/farm: "no legitimate enter/claim/exit/merge fails because an internal counter
    would go negative".

    Part 1  [fguards f op]: the DOCUMENTED guards of every endpoint of Model/Farm.v (the [require!]s of the Rust
            endpoints and what the VM itself enforces on ESDT payments), stated on the pre-state only.
    Part 2  [FarmTI]: the extra invariant totality needs on top of FarmOK (FarmInv/FarmSolv):
              - the exit penalty percentage is a percentage            (only its validated setter writes it),
              - the division-safety constant is positive,
              - per nonce, the amounts held by all accounts add up to the amount outstanding
                (MI only has the grand totals) -- so what a caller holds of a nonce is outstanding,
              - every position ever minted has a positive amount       (into_part's rule_of_three divides by it).
            Proved for every reachable state ([frun_ti]).
    Part 3  totality of every helper and every endpoint under the guards: [farm_no_spurious_failure];
            the guards as booleans ([holdsb], [fguardsb], sound); the converse [fguards_necessary] (an operation
            that returns Ok satisfied the guards), hence [farm_fails_iff_guard_fails].
    Part 4  composition with the closed model Model/FarmFull.v: the boosted payout is COMPUTED there, its bound
            is discharged ([payout_within_pool]; for enterFarm, whose boosted claim runs before the settlement,
            by comparing with the module's mergeFarmTokens step), the epoch guard of exitFarm is discharged by
            the clock being monotone, the boosted half is total by C11_no_underflow_endpoint:
            [closed_no_spurious_failure]. *)
From MX Require Import Base.Prelude Gen.Params Model.Farm Model.FarmFull.
From MX Require Import Proofs.FarmInv Proofs.FarmSolv Proofs.FarmOwner Proofs.FarmFullProofs.

(** ================================================================== Part 1: the documented guards *)
(** what the payment list [ps] takes of nonce [n] in total (the same nonce may be listed more than once) *)
Definition paid (ps : list (Z * Z)) (n : Z) : Z := psum (fun k => if k =? n then 1 else 0) ps.

(** the payments are farm positions the caller holds in the stated amounts, every amount positive
    (the VM rejects a multi-transfer the sender's balances do not cover, and zero-amount transfers) *)
Definition holds (f : farm) (c : Z) (ps : list (Z * Z)) : Prop :=
  Forall (fun p : Z * Z => 0 < snd p) ps /\ forall n, paid ps n <= held f n c.

(** exitFarm's penalty computes current_epoch - entering_epoch on u64: the clock is not before the position's
    entering epoch *)
Definition epoch_ok (f : farm) (ep n : Z) : Prop :=
  forall a, find_attrs (f_attrs f) n = Some a -> a_epoch a <= ep.

(** the boosted payout is within the boosted pools -- the boosted-yields module's own guard (C11); for the
    endpoints that run generate_aggregated_rewards BEFORE the boosted claim the pools include this
    operation's own slice (exactly the bound C05_boosted_payout_payable proves for the computed payout) *)
Definition payout_before (f : farm) (b : Z) : Prop := 0 <= b <= f_pool f.
Definition payout_after (f : farm) (blk b : Z) : Prop := 0 <= b <= f_pool f + boosted_cut f (emission f blk).

Definition fguards (f : farm) (op : fop) : Prop :=
  match op with
  | FEnter blk ep c amt adds b => active f = true /\ 0 < amt /\ holds f c adds /\ payout_before f b
  | FClaim blk ep c first adds b => active f = true /\ holds f c (first :: adds) /\ payout_after f blk b
  | FCompound blk ep c first adds b =>
      active f = true /\ f_same f = true /\ holds f c (first :: adds) /\ payout_after f blk b
  | FExit blk ep c p b => active f = true /\ holds f c [p] /\ epoch_ok f ep (fst p) /\ payout_after f blk b
  | FMerge blk ep c ps b => active f = true /\ ps <> [] /\ holds f c ps /\ payout_before f b
  | FClaimBoosted blk ep c b => active f = true /\ utot f c <> 0 /\ payout_after f blk b
  | FTransfer n s d a => 0 < a <= held f n s
  | FSetRate blk c r => admin c = true /\ 0 < r
  | FStart blk c => admin c = true /\ f_rate f <> 0 /\ f_produce f = false
  | FEnd blk c => admin c = true
  | FSetPct blk c p => admin c = true /\ 0 <= p <= MAXP
  | FSetFactors c => admin c = true
  | FSetState c st => admin c = true /\ (st = ST_Active \/ st = ST_Inactive)
  | FSetMinEpochs c e => admin c = true /\ 0 <= e <= FARM_MAX_MINIMUM_FARMING_EPOCHS
  | FSetPenalty c p => admin c = true /\ 0 <= p < MAXP
  | FTopUp amt => 0 < amt
  end.

(** ================================================================== Part 2: the extra invariant *)
(** weight selecting the ledger keys (nonce * 1000 + holder) of nonce [n] *)
Definition hw (n k : Z) : Z := if k / 1000 =? n then 1 else 0.

Record FarmTI (f : farm) : Prop := {
  ti_pen : 0 <= f_pen f < MAXP;
  ti_dsc : 0 < f_dsc f;
  ti_ndh : NoDup (akeys (f_held f));
  ti_hl : forall n, wsum (hw n) (f_held f) = outst f n;
  ti_apos : forall k a, In (k, a) (f_attrs f) -> 0 < a_amt a
}.

(** the fields the invariant reads *)
Definition tk (f : farm) := (f_pen f, f_dsc f, f_attrs f, f_held f, f_out f).

Lemma TI_tk f f' : tk f' = tk f -> FarmTI f -> FarmTI f'.
Proof.
  unfold tk. intros E [p d nd hl ap]. injection E as E1 E2 E3 E4 E5.
  constructor; unfold outst in *; rewrite ?E1, ?E2, ?E3, ?E4, ?E5; assumption.
Qed.

Lemma hkey_div n c : valid_id c -> hkey n c / 1000 = n.
Proof. unfold hkey, valid_id. intros H. symmetry. apply Z.div_unique with (r := c); lia. Qed.

Lemma hw_hkey m n c : valid_id c -> hw m (hkey n c) = if n =? m then 1 else 0.
Proof. intros H. unfold hw. rewrite hkey_div by assumption. reflexivity. Qed.

Lemma pay_reward_tk f r b f' : pay_reward f r b = Ok f' -> tk f' = tk f.
Proof.
  unfold pay_reward. intros H. destruct (0 <=? b); [|discriminate].
  do 3 (apply bind_ok in H; destruct H as (? & _ & H)). inversion H. reflexivity.
Qed.

Lemma settle_tk f blk f' : settle f blk = Ok f' -> tk f' = tk f.
Proof.
  unfold settle. intros H. destruct (blk <=? _); [inversion H; reflexivity|].
  destruct (_ =? 0); [inversion H; reflexivity|].
  apply bind_ok in H. destruct H as (inc & _ & H). inversion H. reflexivity.
Qed.

Lemma only_utot_tk f f' : only_utot f f' -> tk f' = tk f.
Proof.
  intros ((_ & C & _) & _ & A & Hh & O). unfold cfgt in C. injection C; intros. unfold tk. congruence.
Qed.

(** one position payment *)
Lemma pay_in_fields f c n x f' : pay_in f c (n, x) = Ok f' ->
  0 < x /\ x <= held f n c /\ x <= outst f n /\
  f_held f' = aset (f_held f) (hkey n c) (held f n c - x) /\
  f_out f' = aset (f_out f) n (outst f n - x) /\
  f_attrs f' = f_attrs f /\ f_pen f' = f_pen f /\ f_dsc f' = f_dsc f.
Proof.
  unfold pay_in, debit_held. intros H. bnd H f1 H1. destruct (0 <? x) eqn:Ex; [|discriminate]. apply Z.ltb_lt in Ex.
  bnd H1 h Hh. inversion H1; subst f1; clear H1. cbn [fst snd] in H. bnd H o Ho. inversion H; subst f'; clear H.
  apply sub_chk_ok in Hh, Ho. destruct Hh as [Hh ->]. destruct Ho as [Ho ->]. unfold outst in *. cbn in *.
  repeat split; auto.
Qed.

Lemma pay_in_ti f c p f' : pay_in f c p = Ok f' -> valid_id c -> FarmTI f -> FarmTI f'.
Proof.
  destruct p as [n x]. intros H Hc [pn d nd hl ap].
  destruct (pay_in_fields _ _ _ _ _ H) as (Hx & Hh & Ho & Eh & Eo & Ea & Ep & Ed).
  constructor; rewrite ?Ep, ?Ed, ?Ea; auto.
  - rewrite Eh. apply nodup_aset. exact nd.
  - intros m. rewrite Eh, wsum_aset by exact nd. unfold outst. rewrite Eo. fold (held f n c). rewrite hl.
    rewrite hw_hkey by exact Hc. destruct (n =? m) eqn:E.
    + apply Z.eqb_eq in E. subst m. rewrite aget_aset_same. lia.
    + apply Z.eqb_neq in E. rewrite aget_aset_other by exact E. unfold outst. lia.
Qed.

Lemma pay_all_ti ps : forall f c f', pay_all f c ps = Ok f' -> valid_id c -> FarmTI f -> FarmTI f'.
Proof.
  induction ps as [|p t IH]; intros f c f' H Hc T; cbn in H; [inversion H; subst; exact T|].
  bnd H f1 H1. apply (IH _ _ _ H Hc). apply (pay_in_ti _ _ _ _ H1 Hc T).
Qed.

Lemma pay_all_pos ps : forall f c f', pay_all f c ps = Ok f' -> Forall (fun p : Z * Z => 0 < snd p) ps.
Proof.
  induction ps as [|[n x] t IH]; intros f c f' H; cbn in H; [constructor|].
  bnd H f1 H1. constructor; [apply (pay_in_fields _ _ _ _ _ H1) | apply (IH _ _ _ H)].
Qed.

Lemma mint_pos_ti f a dst f' n : mint_pos f a dst = (f', n) -> valid_id dst -> 0 < a_amt a -> FarmTI f -> FarmTI f'.
Proof.
  unfold mint_pos. intros H Hd Ha [pn d nd hl ap]. inversion H; subst f' n; clear H.
  constructor; cbn; auto.
  - apply nodup_aset. exact nd.
  - intros m. rewrite wsum_aset by exact nd. unfold outst. cbn. fold (held f (f_next f) dst). rewrite hl.
    rewrite hw_hkey by exact Hd. destruct (f_next f =? m) eqn:E.
    + apply Z.eqb_eq in E. subst m. rewrite aget_aset_same. unfold outst. lia.
    + apply Z.eqb_neq in E. rewrite aget_aset_other by exact E. unfold outst. lia.
  - intros k a0 Hin. apply in_app_or in Hin. destruct Hin as [Hin|[Hin|[]]]; [eauto|]. inversion Hin; subst. exact Ha.
Qed.

Lemma base_reward_nonneg f a x base : base_reward f a x = Ok base -> 0 < f_dsc f -> 0 <= x -> 0 <= base.
Proof.
  unfold base_reward. intros H Hd Hx. destruct (a_rps a <? f_rps f) eqn:E; [|inversion H; lia].
  apply div_chk_ok in H. destruct H as [_ ->]. apply Z.ltb_lt in E. apply div_nonneg; [nia | exact Hd].
Qed.

Lemma tk_dsc f f' : tk f' = tk f -> f_dsc f' = f_dsc f.
Proof. unfold tk. intros E. injection E; auto. Qed.

Lemma tk_attrs f f' : tk f' = tk f -> f_attrs f' = f_attrs f.
Proof. unfold tk. intros E. injection E; auto. Qed.

Lemma pay_all_attrs ps : forall f c f', pay_all f c ps = Ok f' -> f_attrs f' = f_attrs f.
Proof.
  induction ps as [|[n x] t IH]; intros f c f' H; cbn [pay_all] in H; [inversion H; reflexivity|].
  bnd H f1 H1. rewrite (IH _ _ _ H). apply (pay_in_fields _ _ _ _ _ H1).
Qed.

Lemma fstep_ti f op f' o : fstep f op = Ok (f', o) -> valid_op op -> FarmTI f -> FarmTI f'.
Proof.
  intros H V T. destruct op; cbn [fstep valid_op] in H, V.
  - (* enter *)
    unfold ep_enter in H. destruct (0 <? amt) eqn:Ea; [|discriminate]. apply Z.ltb_lt in Ea.
    bnd H f0 H0. destruct (active f0); [|discriminate].
    bnd H f1 H1. bnd H f2 H2. bnd H f4 H4. bnd H m Hm.
    destruct (mint_pos _ m c) as [f6 n] eqn:Hmint. inversion H; subst; clear H.
    pose proof (TI_tk _ _ (pay_reward_tk _ _ _ _ H0) T) as T0.
    pose proof (pay_all_ti _ _ _ _ H1 V T0) as T1. pose proof (pay_all_pos _ _ _ _ H1) as Pos.
    pose proof (TI_tk _ _ (only_utot_tk _ _ (check_update_only _ _ _ _ H2)) T1) as T2.
    assert (T3 : FarmTI (increase_user f2 c amt)) by (apply (TI_tk f2); [reflexivity | exact T2]).
    pose proof (TI_tk _ _ (settle_tk _ _ _ H4) T3) as T4.
    apply merge_payments_amt in Hm. cbn [a_amt a_owner] in Hm. destruct Hm as [Hm _].
    pose proof (psum1_nonneg _ Pos).
    apply mint_pos_ti in Hmint; [|exact V|lia|apply (TI_tk f4); [reflexivity | exact T4]].
    apply (TI_tk f6); [reflexivity | exact Hmint].
  - (* claim *)
    unfold ep_claim in H. destruct (active f); [|discriminate].
    bnd H f1 H1. bnd H f2 H2. bnd H a Ha. bnd H part Hp. bnd H base Hb. bnd H f3 H3. bnd H f4 H4. bnd H m Hm.
    destruct (mint_pos f4 m c) as [f5 n] eqn:Hmint. inversion H; subst; clear H.
    pose proof (pay_all_ti _ _ _ _ H1 V T) as T1. pose proof (pay_all_pos _ _ _ _ H1) as Pos.
    pose proof (TI_tk _ _ (settle_tk _ _ _ H2) T1) as T2.
    pose proof (TI_tk _ _ (pay_reward_tk _ _ _ _ H3) T2) as T3.
    pose proof (TI_tk _ _ (only_utot_tk _ _ (check_update_only _ _ _ _ H4)) T3) as T4.
    apply into_part_amt in Hp. destruct Hp as (Pa & _).
    apply merge_payments_amt in Hm. cbn [a_amt a_owner] in Hm. destruct Hm as [Hm _].
    inversion Pos as [|? ? Hx Pos']; subst. pose proof (psum1_nonneg _ Pos').
    apply mint_pos_ti in Hmint; [exact Hmint|exact V|lia|exact T4].
  - (* compound *)
    unfold ep_compound in H. destruct (active f); [|discriminate]. destruct (f_same f); [|discriminate].
    bnd H f1 H1. bnd H f2 H2. bnd H a Ha. bnd H part Hp. bnd H base Hb. cbv zeta in H.
    bnd H f3 H3. bnd H f4 H4. bnd H m Hm.
    destruct (mint_pos f4 m c) as [f5 n] eqn:Hmint. inversion H; subst; clear H.
    pose proof (pay_all_ti _ _ _ _ H1 V T) as T1. pose proof (pay_all_pos _ _ _ _ H1) as Pos.
    pose proof (TI_tk _ _ (settle_tk _ _ _ H2) T1) as T2.
    pose proof (TI_tk _ _ (pay_reward_tk _ _ _ _ H3) T2) as T3.
    assert (T3' : FarmTI (upd_core f3 (f_supply f3 + (base + b)) (f_reserve f3) (f_rps f3) (f_last f3)))
      by (apply (TI_tk f3); [reflexivity | exact T3]).
    pose proof (TI_tk _ _ (only_utot_tk _ _ (check_update_only _ _ _ _ H4)) T3') as T4.
    inversion Pos as [|? ? Hx Pos']; subst. pose proof (psum1_nonneg _ Pos').
    apply base_reward_nonneg in Hb; [|apply (ti_dsc _ T2)|lia].
    apply pay_reward_spec in H3. destruct H3 as (_ & _ & _ & _ & _ & _ & _ & Hb0 & _).
    apply into_part_amt in Hp. destruct Hp as (Pa & _).
    apply merge_payments_amt in Hm. cbn [a_amt a_owner] in Hm. destruct Hm as [Hm _].
    apply mint_pos_ti in Hmint; [|exact V|lia|exact T4].
    apply (TI_tk f5); [reflexivity | exact Hmint].
  - (* exit *)
    unfold ep_exit in H. destruct (active f); [|discriminate].
    bnd H f1 H1. bnd H f2 H2. bnd H a Ha. bnd H part Hp. bnd H base Hb. bnd H f3 H3. bnd H f4 H4. bnd H sup Hs.
    cbv zeta in H. bnd H age Hg. bnd H ou Ho. bnd H bal Hbl. inversion H; subst; clear H.
    pose proof (pay_in_ti _ _ _ _ H1 V T) as T1.
    pose proof (TI_tk _ _ (settle_tk _ _ _ H2) T1) as T2.
    pose proof (TI_tk _ _ (pay_reward_tk _ _ _ _ H3) T2) as T3.
    pose proof (TI_tk _ _ (only_utot_tk _ _ (decrease_user_only _ _ _ H4)) T3) as T4.
    apply (TI_tk f4); [reflexivity | exact T4].
  - (* merge *)
    unfold ep_merge in H. destruct (active f); [|discriminate]. destruct ps as [|first rest]; [discriminate|].
    bnd H f0 H0. bnd H f1 H1. bnd H f2 H2. bnd H a Ha. bnd H part Hp. bnd H m0 Hm. cbv zeta in H.
    destruct (mint_pos f2 _ c) as [f3 n] eqn:Hmint. inversion H; subst; clear H.
    pose proof (TI_tk _ _ (pay_reward_tk _ _ _ _ H0) T) as T0.
    pose proof (pay_all_ti _ _ _ _ H1 V T0) as T1. pose proof (pay_all_pos _ _ _ _ H1) as Pos.
    pose proof (TI_tk _ _ (only_utot_tk _ _ (check_update_only _ _ _ _ H2)) T1) as T2.
    apply into_part_amt in Hp. destruct Hp as (Pa & _).
    apply merge_payments_amt in Hm. destruct Hm as [Hm _].
    inversion Pos as [|? ? Hx Pos']; subst. pose proof (psum1_nonneg _ Pos').
    apply mint_pos_ti in Hmint; [exact Hmint|exact V|cbn [a_amt]; lia|exact T2].
  - (* claimBoosted *)
    unfold ep_claim_boosted in H. destruct (negb (utot f c =? 0)); [|discriminate]. destruct (active f); [|discriminate].
    bnd H f1 H1. bnd H f2 H2. inversion H; subst; clear H.
    apply (TI_tk _ _ (pay_reward_tk _ _ _ _ H2)). apply (TI_tk _ _ (settle_tk _ _ _ H1)). exact T.
  - (* transfer *)
    destruct V as [Vs Vd]. unfold ep_transfer, debit_held in H. bnd H f1 H1.
    destruct (0 <? amt) eqn:Ex; [|discriminate]. bnd H1 h Hh. inversion H1; subst f1; clear H1.
    inversion H; subst f' o; clear H. apply sub_chk_ok in Hh. destruct Hh as [Hh ->].
    destruct T as [pn d nd hl ap]. unfold held in *. cbn in *.
    assert (nd1 : NoDup (akeys (aset (f_held f) (hkey n src) (aget (f_held f) (hkey n src) - amt)))) by (apply nodup_aset; exact nd).
    constructor; cbn; auto.
    + apply nodup_aset. exact nd1.
    + intros m. rewrite wsum_aset by exact nd1. rewrite wsum_aset by exact nd. specialize (hl m). unfold outst in *. cbn.
      rewrite !hw_hkey by assumption. destruct (n =? m); lia.
  - (* setRate *) destruct (admin c); [|discriminate]. destruct (_ && _); [|discriminate].
    bnd H f1 H1. inversion H; subst; clear H. apply (TI_tk f1); [reflexivity|]. apply (TI_tk _ _ (settle_tk _ _ _ H1)). exact T.
  - destruct (admin c); [|discriminate]. destruct (negb (f_rate f =? 0)); [|discriminate].
    destruct (negb (f_produce f)); [|discriminate]. inversion H; subst; clear H. apply (TI_tk f); [reflexivity | exact T].
  - destruct (admin c); [|discriminate].
    bnd H f1 H1. inversion H; subst; clear H. apply (TI_tk f1); [reflexivity|]. apply (TI_tk _ _ (settle_tk _ _ _ H1)). exact T.
  - destruct (admin c); [|discriminate]. destruct (_ && _); [|discriminate].
    bnd H f1 H1. inversion H; subst; clear H. apply (TI_tk f1); [reflexivity|]. apply (TI_tk _ _ (settle_tk _ _ _ H1)). exact T.
  - destruct (admin c); [|discriminate]. inversion H; subst. apply (TI_tk f); [reflexivity | exact T].
  - destruct (admin c); [|discriminate]. destruct (_ || _); [|discriminate]. inversion H; subst. apply (TI_tk f); [reflexivity | exact T].
  - destruct (admin c); [|discriminate]. destruct (_ && _); [|discriminate]. inversion H; subst. apply (TI_tk f); [reflexivity | exact T].
  - (* setPenalty: the setter's own guard *)
    destruct (admin c); [|discriminate]. destruct ((0 <=? p) && (p <? MAXP)) eqn:E; [|discriminate]. inversion H; subst.
    apply andb_prop in E. destruct E as [E1 E2]. apply Z.leb_le in E1. apply Z.ltb_lt in E2.
    destruct T as [pn d nd hl ap]. constructor; cbn; auto.
  - destruct (0 <? amt); [|discriminate]. inversion H; subst. apply (TI_tk f); [reflexivity | exact T].
Qed.

Lemma init_ti dsc same : 0 < dsc -> FarmTI (init_farm dsc same).
Proof.
  intros Hd. constructor; cbn; auto.
  - vm_compute. split; [discriminate | reflexivity].
  - constructor.
  - intros k a [].
Qed.

Lemma frun_ti ops : forall f, FarmTI f -> Forall valid_op ops -> FarmTI (frun f ops).
Proof.
  induction ops as [|op t IH]; intros f T V; [exact T|]. inversion V; subst.
  change (frun f (op :: t)) with (frun (fstep_total f op) t). apply IH; [|assumption].
  unfold fstep_total. destruct (fstep f op) as [[f' o]|] eqn:E; [|exact T]. eapply fstep_ti; eassumption.
Qed.

(** ================================================================== Part 3: totality under the guards *)
(** ------------------------------------------------------------------ the helpers *)
Lemma sub_chk_total a b : b <= a -> sub_chk a b = Ok (a - b).
Proof. intros H. unfold sub_chk. destruct (a <? b) eqn:E; [apply Z.ltb_lt in E; lia | reflexivity]. Qed.

Lemma settle_total f blk : exists f', settle f blk = Ok f'.
Proof.
  unfold settle. destruct (blk <=? f_last f); [eauto|]. cbv zeta.
  destruct (_ =? 0); [eauto|].
  destruct (f_supply f =? 0) eqn:E; cbn [bind]; [eauto|].
  unfold div_chk. rewrite E. cbn [bind]. eauto.
Qed.

Lemma pay_reward_total f r b : 0 <= b <= f_pool f -> r <= f_reserve f -> r <= f_bal_rew f ->
  exists f', pay_reward f r b = Ok f'.
Proof.
  intros Hb Hr Hbal. unfold pay_reward.
  destruct (0 <=? b) eqn:E0; [|apply Z.leb_gt in E0; lia].
  rewrite !sub_chk_total by lia. cbn [bind]. eauto.
Qed.

Lemma into_part_total a x : 0 < a_amt a -> exists p, into_part a x = Ok p.
Proof.
  intros Ha. unfold into_part, rule3. destruct (x =? a_amt a); [eauto|].
  unfold div_chk. destruct (a_amt a =? 0) eqn:E; [apply Z.eqb_eq in E; lia|]. cbn [bind]. eauto.
Qed.

Lemma base_reward_total f a x : 0 < f_dsc f -> exists r, base_reward f a x = Ok r.
Proof.
  intros Hd. unfold base_reward, div_chk. destruct (_ <? _); [|eauto].
  destruct (f_dsc f =? 0) eqn:E; [apply Z.eqb_eq in E; lia | eauto].
Qed.

Lemma merge_with_total a b : 0 < a_amt a + a_amt b -> exists m, merge_with a b = Ok m.
Proof.
  intros H. unfold merge_with, ceil_avg, div_chk.
  destruct (a_amt a + a_amt b =? 0) eqn:E; [apply Z.eqb_eq in E; lia|]. cbn [bind]. eauto.
Qed.

(** the listed payments have positive amounts and name positions with attributes of positive amount *)
Definition known (A : list (Z * attrs)) (ps : list (Z * Z)) : Prop :=
  Forall (fun p : Z * Z => 0 < snd p /\ exists a, find_attrs A (fst p) = Some a /\ 0 < a_amt a) ps.

Lemma merge_payments_total ps : forall f base, 0 < a_amt base -> known (f_attrs f) ps ->
  exists m, merge_payments f base ps = Ok m.
Proof.
  induction ps as [|[n x] t IH]; intros f base Hb K; cbn [merge_payments]; [eauto|].
  inversion K as [|? ? (Hx & a & Ha & Hp) K']; subst. cbn [fst snd] in *.
  unfold get_attrs. rewrite Ha. cbn [bind].
  destruct (into_part_total a x Hp) as (p & Hip). rewrite Hip. cbn [bind].
  pose proof (into_part_amt _ _ _ Hip) as (Pa & _).
  destruct (merge_with_total base p ltac:(lia)) as (m & Hm). rewrite Hm. cbn [bind].
  apply IH; [|exact K']. apply merge_with_amt in Hm. lia.
Qed.

Lemma decrease_user_total f n x : known (f_attrs f) [(n, x)] -> exists f', decrease_user f (n, x) = Ok f'.
Proof.
  intros K. inversion K as [|? ? (Hx & a & Ha & Hp) _]; subst. cbn [fst snd] in *.
  unfold decrease_user, get_attrs. rewrite Ha. cbn [bind]. eauto.
Qed.

Lemma check_update_total ps : forall f u, known (f_attrs f) ps -> exists f', check_update f u ps = Ok f'.
Proof.
  induction ps as [|[n x] t IH]; intros f u K; cbn [check_update]; [eauto|].
  inversion K as [|? ? (Hx & a & Ha & Hp) K']; subst. cbn [fst snd] in *.
  unfold get_attrs at 1. rewrite Ha. cbn [bind].
  destruct (a_owner a =? u); [apply IH; exact K'|].
  unfold decrease_user, get_attrs. rewrite Ha. cbn [bind].
  apply IH. destruct (x <? utot f (a_owner a)); exact K'.
Qed.

(** ------------------------------------------------------------------ the position payments *)
Lemma paid_cons n x t m : paid ((n, x) :: t) m = (if n =? m then x else 0) + paid t m.
Proof. unfold paid. cbn [psum]. destruct (n =? m); lia. Qed.

Lemma paid_nonneg ps m : Forall (fun p : Z * Z => 0 < snd p) ps -> 0 <= paid ps m.
Proof.
  induction ps as [|[n x] t IH]; intros H; [unfold paid; cbn; lia|]. inversion H; subst. cbn [snd] in *.
  rewrite paid_cons. specialize (IH H3). destruct (n =? m); lia.
Qed.

Lemma paid_ge_in ps n x : Forall (fun p : Z * Z => 0 < snd p) ps -> In (n, x) ps -> x <= paid ps n.
Proof.
  induction ps as [|[n' x'] t IH]; intros H Hin; [destruct Hin|]. inversion H; subst. cbn [snd] in *.
  rewrite paid_cons. pose proof (paid_nonneg t n H3). destruct Hin as [E|Hin].
  - inversion E; subst. rewrite Z.eqb_refl. lia.
  - specialize (IH H3 Hin). destruct (n' =? n); lia.
Qed.

(** no held / outstanding debit of a payment list fails when the caller holds the listed amounts *)
Lemma pay_all_total ps : forall f c, Forall (fun p : Z * Z => 0 < snd p) ps ->
  (forall n, paid ps n <= held f n c) -> (forall n, held f n c <= outst f n) ->
  exists f', pay_all f c ps = Ok f'.
Proof.
  induction ps as [|[n x] t IH]; intros f c Pos Hh Ho; cbn [pay_all]; [eauto|].
  inversion Pos as [|? ? Hx Pos']; subst. cbn [snd] in Hx.
  pose proof (paid_nonneg t n Pos') as Hn. pose proof (Hh n) as Hhn. rewrite paid_cons, Z.eqb_refl in Hhn.
  assert (H : exists f1, pay_in f c (n, x) = Ok f1).
  { unfold pay_in, debit_held. destruct (0 <? x) eqn:E; [|apply Z.ltb_ge in E; lia].
    rewrite sub_chk_total by lia. cbn [bind fst snd].
    match goal with |- context [sub_chk (outst ?g n) x] => change (outst g n) with (outst f n) end.
    rewrite sub_chk_total by (specialize (Ho n); lia). cbn [bind]. eauto. }
  destruct H as (f1 & H1). rewrite H1. cbn [bind].
  destruct (pay_in_fields _ _ _ _ _ H1) as (_ & _ & _ & Eh & Eo & _).
  apply IH; [exact Pos'| |].
  - intros m. unfold held. rewrite Eh. specialize (Hh m). rewrite paid_cons in Hh. unfold held in Hh.
    destruct (n =? m) eqn:E.
    + apply Z.eqb_eq in E; subst m. rewrite aget_aset_same. unfold held. lia.
    + apply Z.eqb_neq in E. rewrite aget_aset_other by (unfold hkey; lia). lia.
  - intros m. unfold held, outst. rewrite Eh, Eo. destruct (Z.eq_dec n m) as [->|E].
    + rewrite !aget_aset_same. specialize (Ho m). lia.
    + rewrite !aget_aset_other by (unfold hkey; lia). apply Ho.
Qed.

(** ------------------------------------------------------------------ what the guards give in a state satisfying the invariants *)
Lemma held_le_outst f n c : FarmAcc f -> FarmTI f -> valid_id c -> held f n c <= outst f n.
Proof.
  intros [[_ (_ & nd & _ & nn) _ _ _ _ _] _ _] T Hc. rewrite <- (ti_hl _ T n).
  assert (Hw : forall k, In k (akeys (f_held f)) -> 0 <= hw n k) by (intros; unfold hw; destruct (_ =? _); lia).
  pose proof (wsum_ge_entry (hw n) (f_held f) (hkey n c) nd nn Hw) as H.
  rewrite hw_hkey, Z.eqb_refl in H by exact Hc. unfold held. lia.
Qed.

Lemma outst_le_supply f n : FarmAcc f -> outst f n <= f_supply f.
Proof. intros [[_ (nd & _ & nn & _) _ _ _ _ _] out _]. rewrite <- out. apply aget_le_asum; assumption. Qed.

Lemma find_attrs_in l n a : find_attrs l n = Some a -> In (n, a) l.
Proof.
  induction l as [|[k a'] t IH]; cbn; [discriminate|]. destruct (k =? n) eqn:E.
  - intros H. inversion H; subst. apply Z.eqb_eq in E. subst. left. reflexivity.
  - intros H. right. apply IH. exact H.
Qed.

Lemma holds_facts f c ps : FarmOK f -> FarmTI f -> valid_id c -> holds f c ps ->
  Forall (fun p : Z * Z => 0 < snd p <= outst f (fst p) /\
            exists a, find_attrs (f_attrs f) (fst p) = Some a /\ 0 < a_amt a /\ a_rps a <= f_rps f) ps.
Proof.
  intros (A & S & _) T Hc (Pos & Hh). apply Forall_forall. intros [n x] Hin. cbn [fst snd].
  pose proof (proj1 (Forall_forall _ _) Pos _ Hin) as Hx. cbn [snd] in Hx.
  pose proof (paid_ge_in _ _ _ Pos Hin). specialize (Hh n). pose proof (held_le_outst f n c A T Hc).
  split; [lia|].
  assert (Hin' : In n (akeys (f_out f))) by (apply aget_pos_in; unfold outst in *; lia).
  destruct S as [[has _] _]. destruct (has n Hin') as (a & Ha & Hr). exists a. split; [exact Ha|]. split; [|exact Hr].
  apply (ti_apos _ T n). apply find_attrs_in. exact Ha.
Qed.

Lemma facts_known f A ps : A = f_attrs f ->
  Forall (fun p : Z * Z => 0 < snd p <= outst f (fst p) /\
            exists a, find_attrs (f_attrs f) (fst p) = Some a /\ 0 < a_amt a /\ a_rps a <= f_rps f) ps ->
  known A ps.
Proof.
  intros -> H. eapply Forall_impl; [|exact H]. intros [n x] ((Hx & _) & a & Ha & Hp & _). cbn [fst snd] in *.
  split; [exact Hx|]. exists a. auto.
Qed.

(** ------------------------------------------------------------------ the reward debit of claim / compound / exit *)
(** after the positions are paid in and the rewards settled, the base reward of the first position plus any
    boosted payout within the pools (this settlement's slice included) is covered by the reserve, the pools and
    the reward tokens held: none of the three subtractions of pay_reward fails, nor the division by DSC *)
Lemma reward_step_total f c ps f1 blk f2 n x a part b :
  FarmOK f -> pay_all f c ps = Ok f1 -> settle f1 blk = Ok f2 ->
  find_attrs (f_attrs f) n = Some a -> a_rps a <= f_rps f -> 0 < x <= outst f n -> a_rps part = a_rps a ->
  payout_after f blk b ->
  exists base f3, base_reward f2 part x = Ok base /\ pay_reward f2 (base + b) b = Ok f3 /\ 0 <= base.
Proof.
  intros (A & S & D) H1 H2 Ha Hra Hx Hp Hb. pose proof A as [M out prin].
  pose proof (pay_all_k _ _ _ _ H1) as (K1 & P1).
  pose proof (settle_k _ _ _ H2) as (P2 & _). rewrite (cut_ext _ _ blk K1) in P2.
  apply pay_all_MI in H1; auto. destruct H1 as (M1 & SB1 & N1 & A1 & U1 & O1 & Pos1 & Kk1).
  apply settle_MI in H2; auto.
  destruct H2 as (M2 & D2 & C2 & T2 & S2 & BF2 & Pd2 & L2 & tm & cut & inc & Hcut & Hinc & Hinc2 & Res2 & R2 & Pl2 & G2).
  destruct (sbt_fields _ _ SB1) as (Sup1 & Rs1 & Rp1 & Dsc1 & Pl1). pose proof (cfgt_dsc _ _ C2) as Dsc2.
  pose proof (dsc_pos _ M2) as Hd2.
  destruct (base_reward_total f2 part x Hd2) as (base & Hbase). exists base.
  pose proof (base_reward_bound _ _ _ _ Hbase Hd2 ltac:(lia) ltac:(lia)) as (Hb0 & Hbb).
  pose proof (position_claimable f n a A S Ha) as Hpc. destruct S as [_ CV].
  pose proof (outst_le_supply f n A) as Hos.
  assert (Hdon : don f1 = don f) by (unfold don; split_groups; lia).
  unfold payout_after in Hb.
  assert (Hres : base + b <= f_reserve f2).
  { rewrite Hp, R2, Rp1, Dsc2, Dsc1 in Hbb. rewrite Sup1, Dsc1 in Hinc2.
    assert (Hcut' : cut = boosted_cut f (emission f blk)) by lia.
    rewrite Res2, Rs1. rewrite <- Hcut' in Hb.
    assert (Hd : 0 < f_dsc f) by (rewrite <- Dsc1, <- Dsc2; exact Hd2).
    set (d := f_dsc f) in *. set (R := f_rps f) in *. set (ra := a_rps a) in *. set (o := outst f n) in *.
    set (sup := f_supply f) in *. set (res := f_reserve f) in *. set (pool := f_pool f) in *. set (cl := claimable f) in *.
    clearbody d R ra o sup res pool cl.
    clear - Hbb Hinc2 Hcut Hinc Hx Hra Hpc CV Hos Hb Hd Hb0.
    assert (E1 : x * (R - ra) <= o * (R - ra)) by nia.
    assert (E2 : x * inc <= inc * sup) by nia.
    assert (E3 : d * base <= d * (res - pool + tm - cut)) by nia.
    assert (E4 : base <= res - pool + tm - cut) by nia.
    lia. }
  destruct (pay_reward_total f2 (base + b) b) as (f3 & H3).
  - rewrite P2, P1. lia.
  - exact Hres.
  - unfold don in *. lia.
  - exists f3. auto.
Qed.

(** ------------------------------------------------------------------ the endpoints *)
Lemma active_same f f' : cfgt f' = cfgt f -> active f' = active f.
Proof. intros C. unfold cfgt in C. injection C; intros. unfold active. congruence. Qed.

(** claim_only_boosted_payment of enterFarm / mergeFarmTokens: the direct reserve debit *)
Lemma pay_boosted_total f b : FarmOK f -> payout_before f b ->
  exists f0, pay_reward f b b = Ok f0 /\ active f0 = active f /\ toks f0 = toks f /\ MI f0.
Proof.
  intros (A & S & D) Hb. pose proof (pool_within_reserve f A S). unfold payout_before in Hb. unfold don in D.
  destruct (pay_reward_total f b b ltac:(lia) ltac:(lia) ltac:(lia)) as (f0 & H0). exists f0. split; [exact H0|].
  destruct A as [M _ _]. destruct (pay_reward_MI _ _ _ _ H0 M) as (M0 & _ & C0 & T0 & _).
  split; [apply active_same; exact C0|]. split; [exact T0 | exact M0].
Qed.

Lemma holds_toks f f0 c ps : toks f0 = toks f -> holds f c ps -> holds f0 c ps.
Proof. intros T (P & H). unfold toks in T. injection T as _ _ Eh _ _. split; [exact P|]. intros n. unfold held. rewrite Eh. apply H. Qed.

Lemma held_le_outst_toks f f0 c : toks f0 = toks f -> (forall n, held f n c <= outst f n) -> forall n, held f0 n c <= outst f0 n.
Proof. intros T H n. unfold toks in T. injection T as _ _ Eh _ Eo. unfold held, outst. rewrite Eh, Eo. apply H. Qed.

Lemma ep_enter_total f blk ep c amt adds b : FarmOK f -> FarmTI f -> valid_id c ->
  active f = true -> 0 < amt -> holds f c adds -> payout_before f b ->
  exists r, Farm.ep_enter f blk ep c amt adds b = Ok r.
Proof.
  intros K T Hc Hact Ha Hh Hb. pose proof K as (A & S & D).
  pose proof (facts_known f _ adds eq_refl (holds_facts f c _ K T Hc Hh)) as Kn.
  destruct (pay_boosted_total f b K Hb) as (f0 & H0 & Act0 & T0 & M0).
  destruct (toks_fields _ _ T0) as (Nx0 & At0 & Ou0).
  destruct (holds_toks _ _ _ _ T0 Hh) as (Pos & Hh0).
  destruct (pay_all_total adds f0 c Pos Hh0 (held_le_outst_toks f f0 c T0 (fun n => held_le_outst f n c A T Hc))) as (f1 & H1).
  pose proof (pay_all_MI _ _ _ _ H1 M0) as (M1 & SB1 & N1 & A1 & _).
  destruct (check_update_total adds f1 c ltac:(rewrite A1, At0; exact Kn)) as (f2 & H2).
  pose proof (check_update_only _ _ _ _ H2) as (_ & _ & At2 & _).
  destruct (settle_total (increase_user f2 c amt) blk) as (f4 & H4).
  pose proof (settle_tk _ _ _ H4) as Tk4.
  assert (At4 : f_attrs f4 = f_attrs f) by (unfold tk in Tk4; injection Tk4; intros; cbn in *; congruence).
  unfold Farm.ep_enter. assert (E : (0 <? amt) = true) by (apply Z.ltb_lt; exact Ha). rewrite E, H0. cbn [bind].
  rewrite Act0, Hact, H1. cbn [bind]. rewrite H2. cbn [bind]. rewrite H4. cbn [bind].
  match goal with |- context [merge_payments ?g ?B adds] =>
    destruct (merge_payments_total adds g B ltac:(cbn; lia) ltac:(cbn; rewrite At4; exact Kn)) as (m & Hm) end.
  rewrite Hm. cbn [bind].
  match goal with |- context [mint_pos ?g m c] => destruct (mint_pos g m c) as [f6 n] end. eauto.
Qed.

Lemma ep_merge_total f blk ep c ps b : FarmOK f -> FarmTI f -> valid_id c ->
  active f = true -> ps <> [] -> holds f c ps -> payout_before f b ->
  exists r, Farm.ep_merge f blk ep c ps b = Ok r.
Proof.
  intros K T Hc Hact Hne Hh Hb. pose proof K as (A & S & D).
  pose proof (facts_known f _ ps eq_refl (holds_facts f c _ K T Hc Hh)) as Kn.
  destruct (pay_boosted_total f b K Hb) as (f0 & H0 & Act0 & T0 & M0).
  destruct (toks_fields _ _ T0) as (Nx0 & At0 & Ou0).
  destruct (holds_toks _ _ _ _ T0 Hh) as (Pos & Hh0).
  destruct (pay_all_total ps f0 c Pos Hh0 (held_le_outst_toks f f0 c T0 (fun n => held_le_outst f n c A T Hc))) as (f1 & H1).
  pose proof (pay_all_MI _ _ _ _ H1 M0) as (M1 & SB1 & N1 & A1 & _).
  destruct (check_update_total ps f1 c ltac:(rewrite A1, At0; exact Kn)) as (f2 & H2).
  pose proof (check_update_only _ _ _ _ H2) as (_ & _ & At2 & _).
  unfold Farm.ep_merge. rewrite Hact. destruct ps as [|[n0 x0] rest]; [congruence|].
  rewrite H0. cbn [bind]. rewrite H1. cbn [bind]. rewrite H2. cbn [bind fst snd].
  inversion Kn as [|? ? (Hx0 & a & Ha & Hap) Kn']; subst. cbn [fst snd] in *.
  unfold get_attrs. rewrite At2, A1, At0, Ha. cbn [bind].
  destruct (into_part_total a x0 Hap) as (part & Hp). rewrite Hp. cbn [bind].
  pose proof (into_part_amt _ _ _ Hp) as (Pa & _).
  destruct (merge_payments_total rest f2 part ltac:(lia) ltac:(rewrite At2, A1, At0; exact Kn')) as (m0 & Hm).
  rewrite Hm. cbn [bind]. cbv zeta.
  match goal with |- context [mint_pos f2 ?m c] => destruct (mint_pos f2 m c) as [f3 n] end. eauto.
Qed.

Lemma ep_claim_total f blk ep c first adds b : FarmOK f -> FarmTI f -> valid_id c ->
  active f = true -> holds f c (first :: adds) -> payout_after f blk b ->
  exists r, Farm.ep_claim f blk ep c first adds b = Ok r.
Proof.
  intros K T Hc Hact Hh Hb. pose proof K as (A & S & D). pose proof A as [M out prin].
  pose proof (holds_facts f c _ K T Hc Hh) as HF. pose proof (facts_known f _ _ eq_refl HF) as Kn.
  destruct Hh as (Pos & Hh).
  destruct (pay_all_total (first :: adds) f c Pos Hh (fun n => held_le_outst f n c A T Hc)) as (f1 & H1).
  destruct (settle_total f1 blk) as (f2 & H2).
  unfold Farm.ep_claim. rewrite Hact, H1. cbn [bind]. rewrite H2. cbn [bind].
  destruct first as [n0 x0].
  inversion HF as [|? ? (Hx0 & a & Ha & Hap & Hra) HF']; subst. cbn [fst snd] in *.
  pose proof (pay_all_MI _ _ _ _ H1 M) as (M1 & SB1 & N1 & A1 & _).
  pose proof (settle_MI _ _ _ H2 M1) as (M2 & _ & _ & T2 & _).
  destruct (toks_fields _ _ T2) as (Nx2 & At2 & Ou2).
  unfold get_attrs. rewrite At2, A1, Ha. cbn [bind].
  destruct (into_part_total a x0 Hap) as (part & Hp). rewrite Hp. cbn [bind].
  pose proof (into_part_amt _ _ _ Hp) as (Pa & Pr & _).
  destruct (reward_step_total f c _ f1 blk f2 n0 x0 a part b K H1 H2 Ha Hra Hx0 Pr Hb) as (base & f3 & Hbase & H3 & Hb0).
  rewrite Hbase. cbn [bind]. rewrite H3. cbn [bind].
  pose proof (pay_reward_MI _ _ _ _ H3 M2) as (M3 & _ & _ & T3 & _). destruct (toks_fields _ _ T3) as (Nx3 & At3 & Ou3).
  destruct (check_update_total ((n0, x0) :: adds) f3 c ltac:(rewrite At3, At2, A1; exact Kn)) as (f4 & H4).
  rewrite H4. cbn [bind].
  pose proof (check_update_only _ _ _ _ H4) as (_ & _ & At4 & _).
  inversion Kn as [|? ? _ Kn']; subst.
  match goal with |- context [merge_payments f4 ?B adds] =>
    destruct (merge_payments_total adds f4 B ltac:(cbn; lia) ltac:(rewrite At4, At3, At2, A1; exact Kn')) as (m & Hm) end.
  rewrite Hm. cbn [bind].
  destruct (mint_pos f4 m c) as [f5 n]. eauto.
Qed.

Lemma ep_compound_total f blk ep c first adds b : FarmOK f -> FarmTI f -> valid_id c ->
  active f = true -> f_same f = true -> holds f c (first :: adds) -> payout_after f blk b ->
  exists r, Farm.ep_compound f blk ep c first adds b = Ok r.
Proof.
  intros K T Hc Hact Hsame Hh Hb. pose proof K as (A & S & D). pose proof A as [M out prin].
  pose proof (holds_facts f c _ K T Hc Hh) as HF. pose proof (facts_known f _ _ eq_refl HF) as Kn.
  destruct Hh as (Pos & Hh).
  destruct (pay_all_total (first :: adds) f c Pos Hh (fun n => held_le_outst f n c A T Hc)) as (f1 & H1).
  destruct (settle_total f1 blk) as (f2 & H2).
  unfold Farm.ep_compound. rewrite Hact, Hsame, H1. cbn [bind]. rewrite H2. cbn [bind].
  destruct first as [n0 x0].
  inversion HF as [|? ? (Hx0 & a & Ha & Hap & Hra) HF']; subst. cbn [fst snd] in *.
  pose proof (pay_all_MI _ _ _ _ H1 M) as (M1 & SB1 & N1 & A1 & _).
  pose proof (settle_MI _ _ _ H2 M1) as (M2 & _ & _ & T2 & _).
  destruct (toks_fields _ _ T2) as (Nx2 & At2 & Ou2).
  unfold get_attrs. rewrite At2, A1, Ha. cbn [bind].
  destruct (into_part_total a x0 Hap) as (part & Hp). rewrite Hp. cbn [bind].
  pose proof (into_part_amt _ _ _ Hp) as (Pa & Pr & _).
  destruct (reward_step_total f c _ f1 blk f2 n0 x0 a part b K H1 H2 Ha Hra Hx0 Pr Hb) as (base & f3 & Hbase & H3 & Hb0).
  rewrite Hbase. cbn [bind]. cbv zeta. rewrite H3. cbn [bind].
  pose proof (pay_reward_MI _ _ _ _ H3 M2) as (M3 & _ & _ & T3 & _ & _ & _ & _ & _ & Hbnn & _).
  destruct (toks_fields _ _ T3) as (Nx3 & At3 & Ou3).
  match goal with |- context [check_update ?g c ((n0, x0) :: adds)] =>
    destruct (check_update_total ((n0, x0) :: adds) g c ltac:(cbn; rewrite At3, At2, A1; exact Kn)) as (f4 & H4);
    pose proof (check_update_only _ _ _ _ H4) as (_ & _ & At4 & _)
  end.
  rewrite H4. cbn [bind]. cbn [f_attrs upd_core] in At4.
  inversion Kn as [|? ? _ Kn']; subst.
  match goal with |- context [merge_payments f4 ?B adds] =>
    destruct (merge_payments_total adds f4 B ltac:(cbn; lia) ltac:(rewrite At4, At3, At2, A1; exact Kn')) as (m & Hm) end.
  rewrite Hm. cbn [bind].
  destruct (mint_pos f4 m c) as [f5 n]. eauto.
Qed.

Lemma penalty_le x p : 0 <= x -> 0 <= p < MAXP -> 0 <= x * p / MAXP <= x.
Proof.
  intros Hx Hp. pose proof maxp_pos. split; [apply div_nonneg; nia|].
  apply Z.div_le_upper_bound; [lia | nia].
Qed.

Lemma ep_exit_total f blk ep c p b : FarmOK f -> FarmTI f -> valid_id c ->
  active f = true -> holds f c [p] -> epoch_ok f ep (fst p) -> payout_after f blk b ->
  exists r, Farm.ep_exit f blk ep c p b = Ok r.
Proof.
  intros K T Hc Hact Hh Hep Hb. pose proof K as (A & S & D). pose proof A as [M out prin].
  pose proof (holds_facts f c _ K T Hc Hh) as HF. pose proof (facts_known f _ _ eq_refl HF) as Kn.
  destruct Hh as (Pos & Hh).
  destruct (pay_all_total [p] f c Pos Hh (fun n => held_le_outst f n c A T Hc)) as (f1 & H1).
  assert (H1i : pay_in f c p = Ok f1).
  { cbn [pay_all] in H1. destruct (pay_in f c p) as [g|e]; cbn [bind] in H1; [exact H1 | discriminate]. }
  destruct (settle_total f1 blk) as (f2 & H2).
  unfold Farm.ep_exit. rewrite Hact, H1i. cbn [bind]. rewrite H2. cbn [bind].
  destruct p as [n0 x0].
  inversion HF as [|? ? (Hx0 & a & Ha & Hap & Hra) _]; subst. cbn [fst snd] in *.
  pose proof (pay_all_MI _ _ _ _ H1 M) as (M1 & SB1 & N1 & A1 & _).
  pose proof (settle_MI _ _ _ H2 M1) as (M2 & _ & _ & T2 & Sup2 & BF2 & _).
  destruct (toks_fields _ _ T2) as (Nx2 & At2 & Ou2).
  unfold get_attrs at 1. rewrite At2, A1, Ha. cbn [bind].
  destruct (into_part_total a x0 Hap) as (part & Hp). rewrite Hp. cbn [bind].
  pose proof (into_part_amt _ _ _ Hp) as (Pa & Pr & _).
  destruct (reward_step_total f c _ f1 blk f2 n0 x0 a part b K H1 H2 Ha Hra Hx0 Pr Hb) as (base & f3 & Hbase & H3 & Hb0).
  rewrite Hbase. cbn [bind]. rewrite H3. cbn [bind].
  pose proof (pay_reward_MI _ _ _ _ H3 M2) as (M3 & _ & _ & T3 & Sup3 & _ & _ & BF3 & _).
  destruct (toks_fields _ _ T3) as (Nx3 & At3 & Ou3).
  destruct (decrease_user_total f3 n0 x0 ltac:(rewrite At3, At2, A1; exact Kn)) as (f4 & H4).
  rewrite H4. cbn [bind].
  pose proof (decrease_user_only _ _ _ H4) as O4. pose proof (only_utot_tk _ _ O4) as Tk4.
  destruct O4 as (SB4 & _). destruct (sbt_fields _ _ SB1) as (Sup1 & _). destruct (sbt_fields _ _ SB4) as (Sup4 & _).
  (* the amounts *)
  pose proof (outst_le_supply f n0 A) as Hos.
  rewrite sub_chk_total by lia. cbn [bind]. cbv zeta.
  rewrite (sub_chk_total ep (a_epoch a)) by (apply Hep; exact Ha). cbn [bind].
  (* penalty percentage of the state the endpoint reads it from *)
  assert (T4 : FarmTI f4).
  { apply (TI_tk _ _ Tk4). apply (TI_tk _ _ (pay_reward_tk _ _ _ _ H3)). apply (TI_tk _ _ (settle_tk _ _ _ H2)).
    apply (pay_all_ti _ _ _ _ H1 Hc T). }
  pose proof (ti_pen _ T4) as Hpen. cbn [f_pen f_minep upd_core].
  pose proof (penalty_le (a_amt part) (f_pen f4) ltac:(lia) Hpen) as Hpl.
  rewrite sub_chk_total by (destruct (_ <? _); lia). cbn [bind].
  assert (Hbf : f_bal_farming f4 = f_supply f).
  { rewrite <- prin. destruct SB1 as (_ & _ & Cm1). destruct SB4 as (_ & _ & Cm4). unfold money in *.
    injection Cm1; intros. injection Cm4; intros. congruence. }
  cbn [f_bal_farming upd_core]. rewrite sub_chk_total by lia. cbn [bind]. eauto.
Qed.

Lemma ep_claim_boosted_total f blk ep c b : FarmOK f -> active f = true -> utot f c <> 0 -> payout_after f blk b ->
  exists r, Farm.ep_claim_boosted f blk ep c b = Ok r.
Proof.
  intros (A & S & D) Hact Hu Hb. unfold Farm.ep_claim_boosted.
  assert (E : negb (utot f c =? 0) = true) by (apply negb_true_iff, Z.eqb_neq; exact Hu). rewrite E, Hact.
  destruct (settle_total f blk) as (f1 & H1). rewrite H1. cbn [bind].
  pose proof (settle_k _ _ _ H1) as (P1 & _).
  pose proof (settle_solv _ _ _ H1 A S) as S1. pose proof (settle_acc _ _ _ H1 A) as (A1 & D1 & _).
  pose proof (pool_within_reserve f1 A1 S1). unfold payout_after in Hb. unfold don in *.
  destruct (pay_reward_total f1 b b ltac:(lia) ltac:(lia) ltac:(lia)) as (f2 & H2). rewrite H2. cbn [bind]. eauto.
Qed.

(** C05, last clause, on the farm model: in a state satisfying the (reachable-state) invariants EVERY operation
    whose documented guards hold returns Ok — no held / outstanding debit, supply, principal, reserve, pool,
    reward-balance, epoch or penalty subtraction, no division (DSC, position amount, merged amount), no attribute
    lookup fails. *)
Lemma farm_no_spurious_failure f op : FarmOK f -> FarmTI f -> valid_op op -> fguards f op ->
  exists r, fstep f op = Ok r.
Proof.
  intros K T V G. destruct op; cbn [fstep valid_op fguards] in *.
  - destruct G as (G1 & G2 & G3 & G4). apply ep_enter_total; assumption.
  - destruct G as (G1 & G2 & G3). apply ep_claim_total; assumption.
  - destruct G as (G1 & G2 & G3 & G4). apply ep_compound_total; assumption.
  - destruct G as (G1 & G2 & G3 & G4). apply ep_exit_total; assumption.
  - destruct G as (G1 & G2 & G3 & G4). apply ep_merge_total; assumption.
  - destruct G as (G1 & G2 & G3). apply ep_claim_boosted_total; assumption.
  - unfold ep_transfer, debit_held. assert (E : (0 <? amt) = true) by (apply Z.ltb_lt; lia). rewrite E.
    rewrite sub_chk_total by lia. cbn [bind]. eauto.
  - destruct G as (-> & G). assert (E : negb (r =? 0) && (0 <=? r) = true).
    { apply andb_true_intro. split; [apply negb_true_iff, Z.eqb_neq; lia | apply Z.leb_le; lia]. }
    rewrite E. destruct (settle_total f blk) as (f1 & H1). rewrite H1. cbn [bind]. eauto.
  - destruct G as (-> & G1 & ->). assert (E : negb (f_rate f =? 0) = true) by (apply negb_true_iff, Z.eqb_neq; exact G1).
    rewrite E. cbn. eauto.
  - rewrite G. destruct (settle_total f blk) as (f1 & H1). rewrite H1. cbn [bind]. eauto.
  - destruct G as (-> & G). assert (E : (0 <=? p) && (p <=? MAXP) = true).
    { apply andb_true_intro. split; apply Z.leb_le; lia. }
    rewrite E. destruct (settle_total f blk) as (f1 & H1). rewrite H1. cbn [bind]. eauto.
  - rewrite G. eauto.
  - destruct G as (-> & G). assert (E : (st =? ST_Active) || (st =? ST_Inactive) = true).
    { apply orb_true_iff. destruct G as [->| ->]; [left | right]; apply Z.eqb_refl. }
    rewrite E. eauto.
  - destruct G as (-> & G). assert (E : (0 <=? e) && (e <=? FARM_MAX_MINIMUM_FARMING_EPOCHS) = true).
    { apply andb_true_intro. split; apply Z.leb_le; lia. }
    rewrite E. eauto.
  - destruct G as (-> & G). assert (E : (0 <=? p) && (p <? MAXP) = true).
    { apply andb_true_intro. split; [apply Z.leb_le | apply Z.ltb_lt]; lia. }
    rewrite E. eauto.
  - assert (E : (0 <? amt) = true) by (apply Z.ltb_lt; exact G). rewrite E. eauto.
Qed.

(** ... in every reachable state of the farm model *)
Lemma farm_reach_no_spurious_failure dsc same ops : 0 < dsc -> Forall valid_op ops ->
  let f := frun (init_farm dsc same) ops in
  forall op, valid_op op -> fguards f op -> exists r, fstep f op = Ok r.
Proof.
  intros Hd V f op Vo G. apply farm_no_spurious_failure; auto.
  - apply frun_ok; [apply init_farm_ok; exact Hd | exact V].
  - apply frun_ti; [apply init_ti; exact Hd | exact V].
Qed.

(** ------------------------------------------------------------------ the payment guard is decidable on a state with a non-negative ledger *)
Definition holdsb (f : farm) (c : Z) (ps : list (Z * Z)) : bool :=
  forallb (fun p : Z * Z => (0 <? snd p) && (paid ps (fst p) <=? held f (fst p) c)) ps.

Lemma paid_notin ps n : ~ In n (map fst ps) -> paid ps n = 0.
Proof.
  induction ps as [|[k x] t IH]; intros H; [reflexivity|]. rewrite paid_cons. cbn [map fst In] in H.
  destruct (k =? n) eqn:E; [apply Z.eqb_eq in E; tauto|]. rewrite IH by tauto. lia.
Qed.

Lemma holds_check f c ps : FarmAcc f -> holdsb f c ps = true -> holds f c ps.
Proof.
  intros [[_ (_ & _ & _ & nn) _ _ _ _ _] _ _] Hb. unfold holdsb in Hb. rewrite forallb_forall in Hb. split.
  - apply Forall_forall. intros p Hin. specialize (Hb p Hin). apply andb_prop in Hb. destruct Hb as [Hb _]. apply Z.ltb_lt. exact Hb.
  - intros n. destruct (in_dec Z.eq_dec n (map fst ps)) as [Hin|Hn].
    + apply in_map_iff in Hin. destruct Hin as (p & <- & Hin). specialize (Hb p Hin). apply andb_prop in Hb.
      destruct Hb as [_ Hb]. apply Z.leb_le. exact Hb.
    + rewrite (paid_notin _ _ Hn). unfold held. apply aget_nonneg. exact nn.
Qed.

(** ------------------------------------------------------------------ the guards as a boolean (what a monitor or an Example evaluates) *)
Definition epoch_okb (f : farm) (ep n : Z) : bool :=
  match find_attrs (f_attrs f) n with Some a => a_epoch a <=? ep | None => true end.
Definition nonempty {A} (l : list A) : bool := match l with [] => false | _ => true end.

Definition fguardsb (f : farm) (op : fop) : bool :=
  match op with
  | FEnter blk ep c amt adds b => active f && (0 <? amt) && holdsb f c adds && (0 <=? b) && (b <=? f_pool f)
  | FClaim blk ep c first adds b =>
      active f && holdsb f c (first :: adds) && (0 <=? b) && (b <=? f_pool f + boosted_cut f (emission f blk))
  | FCompound blk ep c first adds b =>
      active f && f_same f && holdsb f c (first :: adds) && (0 <=? b) && (b <=? f_pool f + boosted_cut f (emission f blk))
  | FExit blk ep c p b =>
      active f && holdsb f c [p] && epoch_okb f ep (fst p) && (0 <=? b) && (b <=? f_pool f + boosted_cut f (emission f blk))
  | FMerge blk ep c ps b => active f && nonempty ps && holdsb f c ps && (0 <=? b) && (b <=? f_pool f)
  | FClaimBoosted blk ep c b =>
      active f && negb (utot f c =? 0) && (0 <=? b) && (b <=? f_pool f + boosted_cut f (emission f blk))
  | FTransfer n s d a => (0 <? a) && (a <=? held f n s)
  | FSetRate blk c r => admin c && (0 <? r)
  | FStart blk c => admin c && negb (f_rate f =? 0) && negb (f_produce f)
  | FEnd blk c => admin c
  | FSetPct blk c p => admin c && (0 <=? p) && (p <=? MAXP)
  | FSetFactors c => admin c
  | FSetState c st => admin c && ((st =? ST_Active) || (st =? ST_Inactive))
  | FSetMinEpochs c e => admin c && (0 <=? e) && (e <=? FARM_MAX_MINIMUM_FARMING_EPOCHS)
  | FSetPenalty c p => admin c && (0 <=? p) && (p <? MAXP)
  | FTopUp amt => 0 <? amt
  end.

Ltac bools :=
  repeat match goal with
  | H : _ && _ = true |- _ => apply andb_prop in H; destruct H
  | H : (_ <? _) = true |- _ => apply Z.ltb_lt in H
  | H : (_ <=? _) = true |- _ => apply Z.leb_le in H
  | H : negb _ = true |- _ => apply negb_true_iff in H
  | H : (_ =? _) = false |- _ => apply Z.eqb_neq in H
  end.

Lemma epoch_okb_sound f ep n : epoch_okb f ep n = true -> epoch_ok f ep n.
Proof. unfold epoch_okb, epoch_ok. intros H a Ha. rewrite Ha in H. apply Z.leb_le. exact H. Qed.

Lemma nonempty_sound {A} (l : list A) : nonempty l = true -> l <> [].
Proof. destruct l; [discriminate | intros _; discriminate]. Qed.

Lemma fguardsb_sound f op : FarmAcc f -> fguardsb f op = true -> fguards f op.
Proof.
  intros A H. destruct op; cbn [fguardsb fguards] in *; bools; unfold payout_before, payout_after;
    repeat match goal with
    | |- _ /\ _ => split
    | |- holds _ _ _ => apply holds_check; assumption
    | |- epoch_ok _ _ _ => apply epoch_okb_sound; assumption
    | |- _ <> [] => apply nonempty_sound; assumption
    | |- _ \/ _ =>
        match goal with H : _ || _ = true |- _ =>
          apply orb_true_iff in H; destruct H as [H|H]; apply Z.eqb_eq in H; [left | right]; exact H end
    | |- _ => first [assumption | lia]
    end.
Qed.

(** ------------------------------------------------------------------ the guards are not stronger than the endpoints' own checks *)
(** Conversely every operation that returns Ok satisfied [fguards]: together with [farm_no_spurious_failure], in a
    reachable state an operation fails IF AND ONLY IF one of the documented guards fails. *)
Lemma pay_all_holds ps : forall f c f', pay_all f c ps = Ok f' -> (forall n, 0 <= held f n c) -> holds f c ps.
Proof.
  induction ps as [|[n x] t IH]; intros f c f' H Hnn; cbn [pay_all] in H.
  - split; [constructor|]. intros n. unfold paid. cbn [psum]. apply Hnn.
  - bnd H f1 H1. destruct (pay_in_fields _ _ _ _ _ H1) as (Hx & Hh & _ & Eh & _).
    assert (Hf1 : forall m, held f1 m c = held f m c - (if n =? m then x else 0)).
    { intros m. unfold held at 1. rewrite Eh. destruct (n =? m) eqn:E.
      - apply Z.eqb_eq in E. subst m. rewrite aget_aset_same. lia.
      - apply Z.eqb_neq in E. rewrite aget_aset_other by (unfold hkey; lia). unfold held. lia. }
    destruct (IH _ _ _ H) as (Pos & Hp).
    { intros m. rewrite Hf1. specialize (Hnn m). destruct (n =? m) eqn:E; [apply Z.eqb_eq in E; subst m|]; lia. }
    split; [constructor; [exact Hx | exact Pos]|].
    intros m. rewrite paid_cons. specialize (Hp m). rewrite Hf1 in Hp. lia.
Qed.

Lemma held_nonneg f n c : FarmAcc f -> 0 <= held f n c.
Proof. intros [[_ (_ & _ & _ & nn) _ _ _ _ _] _ _]. unfold held. apply aget_nonneg. exact nn. Qed.

Lemma payout_after_of f c ps f1 blk f2 r b f3 : pay_all f c ps = Ok f1 -> settle f1 blk = Ok f2 -> pay_reward f2 r b = Ok f3 ->
  payout_after f blk b.
Proof.
  intros H1 H2 H3. destruct (pay_all_k _ _ _ _ H1) as (K1 & P1). destruct (settle_k _ _ _ H2) as (P2 & _).
  rewrite (cut_ext _ _ blk K1) in P2. apply pay_reward_spec in H3. unfold payout_after. lia.
Qed.

Lemma fguards_necessary f op r : FarmAcc f -> fstep f op = Ok r -> fguards f op.
Proof.
  intros A H. destruct r as [f' o]. destruct op; cbn [fstep fguards] in *.
  - unfold Farm.ep_enter in H. destruct (0 <? amt) eqn:Ea; [|discriminate]. apply Z.ltb_lt in Ea.
    bnd H f0 H0. destruct (active f0) eqn:Act; [|discriminate]. bnd H f1 H1.
    pose proof (pay_reward_spec _ _ _ _ H0) as (C0 & T0 & _ & _ & _ & _ & _ & Hb & _).
    rewrite (active_same _ _ C0) in Act. split; [exact Act|]. split; [exact Ea|]. split; [|exact Hb].
    apply (holds_toks f0 f); [symmetry; exact T0|]. apply (pay_all_holds _ _ _ _ H1).
    intros n. unfold toks in T0. injection T0 as _ _ Eh _ _. unfold held. rewrite Eh. apply (held_nonneg f n c A).
  - unfold Farm.ep_claim in H. destruct (active f) eqn:Act; [|discriminate].
    bnd H f1 H1. bnd H f2 H2. bnd H a Ha. bnd H part Hp. bnd H base Hb. bnd H f3 H3.
    split; [reflexivity|]. split; [apply (pay_all_holds _ _ _ _ H1); intros n; apply held_nonneg; exact A|].
    apply (payout_after_of _ _ _ _ _ _ _ _ _ H1 H2 H3).
  - unfold Farm.ep_compound in H. destruct (active f) eqn:Act; [|discriminate]. destruct (f_same f) eqn:Sm; [|discriminate].
    bnd H f1 H1. bnd H f2 H2. bnd H a Ha. bnd H part Hp. bnd H base Hb. cbv zeta in H. bnd H f3 H3.
    split; [reflexivity|]. split; [reflexivity|].
    split; [apply (pay_all_holds _ _ _ _ H1); intros n; apply held_nonneg; exact A|].
    apply (payout_after_of _ _ _ _ _ _ _ _ _ H1 H2 H3).
  - unfold Farm.ep_exit in H. destruct (active f) eqn:Act; [|discriminate].
    bnd H f1 H1. bnd H f2 H2. bnd H a Ha. bnd H part Hp. bnd H base Hb. bnd H f3 H3. bnd H f4 H4. bnd H sup Hs.
    cbv zeta in H. bnd H age Hg.
    assert (H1' : pay_all f c [p] = Ok f1) by (cbn [pay_all]; rewrite H1; reflexivity).
    split; [reflexivity|]. split; [apply (pay_all_holds _ _ _ _ H1'); intros n; apply held_nonneg; exact A|].
    split; [|apply (payout_after_of _ _ _ _ _ _ _ _ _ H1' H2 H3)].
    intros a' Ha'. apply get_attrs_some in Ha.
    rewrite (tk_attrs _ _ (settle_tk _ _ _ H2)), (pay_all_attrs _ _ _ _ H1') in Ha.
    assert (a' = a) by congruence. subst a'. apply sub_chk_ok in Hg. lia.
  - unfold Farm.ep_merge in H. destruct (active f) eqn:Act; [|discriminate].
    destruct ps as [|first rest] eqn:Eps; [discriminate|]. rewrite <- Eps in *.
    bnd H f0 H0. bnd H f1 H1.
    pose proof (pay_reward_spec _ _ _ _ H0) as (C0 & T0 & _ & _ & _ & _ & _ & Hb & _).
    split; [reflexivity|]. split; [rewrite Eps; discriminate|]. split; [|exact Hb].
    apply (holds_toks f0 f); [symmetry; exact T0|]. apply (pay_all_holds _ _ _ _ H1).
    intros n. unfold toks in T0. injection T0 as _ _ Eh _ _. unfold held. rewrite Eh. apply (held_nonneg f n c A).
  - unfold Farm.ep_claim_boosted in H. destruct (negb (utot f c =? 0)) eqn:Eu; [|discriminate].
    destruct (active f) eqn:Act; [|discriminate]. bnd H f1 H1. bnd H f2 H2.
    split; [reflexivity|]. split; [apply Z.eqb_neq, negb_true_iff; exact Eu|].
    apply (payout_after_of f c [] f blk f1 b b f2 eq_refl H1 H2).
  - unfold ep_transfer, debit_held in H. bnd H f1 H1. destruct (0 <? amt) eqn:Ex; [|discriminate]. apply Z.ltb_lt in Ex.
    bnd H1 h Hh. apply sub_chk_ok in Hh. lia.
  - destruct (admin c); [|discriminate]. destruct (negb (r =? 0) && (0 <=? r)) eqn:E; [|discriminate]. bools. split; [reflexivity | lia].
  - destruct (admin c); [|discriminate]. destruct (negb (f_rate f =? 0)) eqn:E; [|discriminate].
    destruct (negb (f_produce f)) eqn:E2; [|discriminate]. bools. auto.
  - destruct (admin c); [|discriminate]. reflexivity.
  - destruct (admin c); [|discriminate]. destruct ((0 <=? p) && (p <=? MAXP)) eqn:E; [|discriminate]. bools. split; [reflexivity | lia].
  - destruct (admin c); [|discriminate]. reflexivity.
  - destruct (admin c); [|discriminate]. destruct ((st =? ST_Active) || (st =? ST_Inactive)) eqn:E; [|discriminate].
    split; [reflexivity|]. apply orb_true_iff in E. destruct E as [E|E]; apply Z.eqb_eq in E; auto.
  - destruct (admin c); [|discriminate]. destruct ((0 <=? e) && (e <=? FARM_MAX_MINIMUM_FARMING_EPOCHS)) eqn:E; [|discriminate].
    bools. split; [reflexivity | lia].
  - destruct (admin c); [|discriminate]. destruct ((0 <=? p) && (p <? MAXP)) eqn:E; [|discriminate]. bools. split; [reflexivity | lia].
  - destruct (0 <? amt) eqn:E; [|discriminate]. bools. exact E.
Qed.

Lemma farm_fails_iff_guard_fails f op : FarmOK f -> FarmTI f -> valid_op op ->
  ((exists r, fstep f op = Ok r) <-> fguards f op).
Proof.
  intros K T V. split.
  - intros (r & H). destruct K as (A & _). apply (fguards_necessary _ _ _ A H).
  - apply farm_no_spurious_failure; assumption.
Qed.

(** ================================================================== Part 4: the closed model *)
(** ------------------------------------------------------------------ entering epochs never exceed the clock *)
Definition EpB (f : farm) (E : Z) : Prop := forall k a, In (k, a) (f_attrs f) -> a_epoch a <= E.

(** the block epoch a user endpoint reads *)
Definition fep (fo : fop) : option Z :=
  match fo with
  | FEnter _ ep _ _ _ _ | FClaim _ ep _ _ _ _ | FCompound _ ep _ _ _ _ | FExit _ ep _ _ _ | FMerge _ ep _ _ _
  | FClaimBoosted _ ep _ _ => Some ep
  | _ => None
  end.

Lemma EpB_find f E n a : EpB f E -> find_attrs (f_attrs f) n = Some a -> a_epoch a <= E.
Proof. intros H Ha. apply (H n). apply find_attrs_in. exact Ha. Qed.

Lemma merge_payments_epoch ps : forall f base m E, merge_payments f base ps = Ok m -> a_epoch base <= E -> EpB f E ->
  a_epoch m <= E.
Proof.
  induction ps as [|[n x] t IH]; intros f base m E H Hb HE; cbn [merge_payments] in H; [inversion H; subst; exact Hb|].
  bnd H a Ha. bnd H p Hp. bnd H mm Hm. apply get_attrs_some in Ha. pose proof (EpB_find _ _ _ _ HE Ha).
  apply into_part_amt in Hp. destruct Hp as (_ & _ & Pe & _).
  apply (IH _ _ _ _ H); [|exact HE]. unfold merge_with in Hm. bnd Hm r Hr. inversion Hm; subst. cbn. lia.
Qed.

Lemma EpB_mint g f a dst f' n E : mint_pos g a dst = (f', n) -> f_attrs g = f_attrs f -> EpB f E -> a_epoch a <= E -> EpB f' E.
Proof.
  unfold mint_pos. intros H Ea HE Ha. inversion H; subst f' n; clear H. intros k a0 Hin. cbn in Hin. rewrite Ea in Hin.
  apply in_app_or in Hin. destruct Hin as [Hin|[Hin|[]]]; [eauto|]. inversion Hin; subst. exact Ha.
Qed.

Lemma EpB_same f f' E : f_attrs f' = f_attrs f -> EpB f E -> EpB f' E.
Proof. intros Ea H k a Hin. rewrite Ea in Hin. eauto. Qed.

Lemma EpB_attrs f g E : f_attrs g = f_attrs f -> EpB f E -> EpB g E.
Proof. apply EpB_same. Qed.

Lemma fstep_epb f fo f' o E : fstep f fo = Ok (f', o) -> EpB f E -> (forall ep, fep fo = Some ep -> ep <= E) -> EpB f' E.
Proof.
  intros H HE Hep. destruct fo; cbn [fstep fep] in H, Hep; try specialize (Hep _ eq_refl).
  - unfold Farm.ep_enter in H. destruct (0 <? amt); [|discriminate].
    bnd H f0 H0. destruct (active f0); [|discriminate].
    bnd H f1 H1. bnd H f2 H2. bnd H f4 H4. bnd H m Hm.
    destruct (mint_pos _ m c) as [f6 n] eqn:Hmint. inversion H; subst; clear H.
    assert (Ea : f_attrs f4 = f_attrs f).
    { rewrite (tk_attrs _ _ (settle_tk _ _ _ H4)). cbn [f_attrs increase_user set_utot upd_tokens].
      rewrite (tk_attrs _ _ (only_utot_tk _ _ (check_update_only _ _ _ _ H2))), (pay_all_attrs _ _ _ _ H1).
      apply (tk_attrs _ _ (pay_reward_tk _ _ _ _ H0)). }
    apply (EpB_same f6); [reflexivity|]. apply (EpB_mint _ f _ _ _ _ _ Hmint); [exact Ea | exact HE|].
    apply (merge_payments_epoch _ _ _ _ _ Hm); [cbn; exact Hep | apply (EpB_attrs f); [exact Ea | exact HE]].
  - unfold Farm.ep_claim in H. destruct (active f); [|discriminate].
    bnd H f1 H1. bnd H f2 H2. bnd H a Ha. bnd H part Hp. bnd H base Hb. bnd H f3 H3. bnd H f4 H4. bnd H m Hm.
    destruct (mint_pos f4 m c) as [f5 n] eqn:Hmint. inversion H; subst; clear H.
    assert (Ea2 : f_attrs f2 = f_attrs f) by (rewrite (tk_attrs _ _ (settle_tk _ _ _ H2)); apply (pay_all_attrs _ _ _ _ H1)).
    assert (Ea : f_attrs f4 = f_attrs f).
    { rewrite (tk_attrs _ _ (only_utot_tk _ _ (check_update_only _ _ _ _ H4))), (tk_attrs _ _ (pay_reward_tk _ _ _ _ H3)). exact Ea2. }
    apply get_attrs_some in Ha. rewrite Ea2 in Ha. pose proof (EpB_find _ _ _ _ HE Ha).
    apply into_part_amt in Hp. destruct Hp as (_ & _ & Pe & _).
    apply (EpB_mint _ f _ _ _ _ _ Hmint); [exact Ea | exact HE|].
    apply (merge_payments_epoch _ _ _ _ _ Hm); [cbn; lia | apply (EpB_attrs f); [exact Ea | exact HE]].
  - unfold Farm.ep_compound in H. destruct (active f); [|discriminate]. destruct (f_same f); [|discriminate].
    bnd H f1 H1. bnd H f2 H2. bnd H a Ha. bnd H part Hp. bnd H base Hb. cbv zeta in H.
    bnd H f3 H3. bnd H f4 H4. bnd H m Hm.
    destruct (mint_pos f4 m c) as [f5 n] eqn:Hmint. inversion H; subst; clear H.
    assert (Ea : f_attrs f4 = f_attrs f).
    { rewrite (tk_attrs _ _ (only_utot_tk _ _ (check_update_only _ _ _ _ H4))). cbn [f_attrs upd_core].
      rewrite (tk_attrs _ _ (pay_reward_tk _ _ _ _ H3)), (tk_attrs _ _ (settle_tk _ _ _ H2)). apply (pay_all_attrs _ _ _ _ H1). }
    apply (EpB_same f5); [reflexivity|]. apply (EpB_mint _ f _ _ _ _ _ Hmint); [exact Ea | exact HE|].
    apply (merge_payments_epoch _ _ _ _ _ Hm); [cbn; exact Hep | apply (EpB_attrs f); [exact Ea | exact HE]].
  - unfold Farm.ep_exit in H. destruct (active f); [|discriminate].
    bnd H f1 H1. bnd H f2 H2. bnd H a Ha. bnd H part Hp. bnd H base Hb. bnd H f3 H3. bnd H f4 H4. bnd H sup Hs.
    cbv zeta in H. bnd H age Hg. bnd H ou Ho. bnd H bal Hbl. inversion H; subst; clear H.
    apply (EpB_same f); [|exact HE]. cbn [f_attrs upd_money upd_core].
    rewrite (tk_attrs _ _ (only_utot_tk _ _ (decrease_user_only _ _ _ H4))), (tk_attrs _ _ (pay_reward_tk _ _ _ _ H3)),
      (tk_attrs _ _ (settle_tk _ _ _ H2)). destruct p as [n0 x0]. apply (pay_in_fields _ _ _ _ _ H1).
  - unfold Farm.ep_merge in H. destruct (active f); [|discriminate]. destruct ps as [|first rest]; [discriminate|].
    bnd H f0 H0. bnd H f1 H1. bnd H f2 H2. bnd H a Ha. bnd H part Hp. bnd H m0 Hm. cbv zeta in H.
    destruct (mint_pos f2 _ c) as [f3 n] eqn:Hmint. inversion H; subst; clear H.
    assert (Ea : f_attrs f2 = f_attrs f).
    { rewrite (tk_attrs _ _ (only_utot_tk _ _ (check_update_only _ _ _ _ H2))), (pay_all_attrs _ _ _ _ H1).
      apply (tk_attrs _ _ (pay_reward_tk _ _ _ _ H0)). }
    apply get_attrs_some in Ha. rewrite Ea in Ha. pose proof (EpB_find _ _ _ _ HE Ha).
    apply into_part_amt in Hp. destruct Hp as (_ & _ & Pe & _).
    apply (EpB_mint _ f _ _ _ _ _ Hmint); [exact Ea | exact HE|]. cbn [a_epoch].
    apply (merge_payments_epoch _ _ _ _ _ Hm); [lia | apply (EpB_attrs f); [exact Ea | exact HE]].
  - unfold Farm.ep_claim_boosted in H. destruct (negb (utot f c =? 0)); [|discriminate]. destruct (active f); [|discriminate].
    bnd H f1 H1. bnd H f2 H2. inversion H; subst; clear H.
    apply (EpB_same f); [|exact HE]. rewrite (tk_attrs _ _ (pay_reward_tk _ _ _ _ H2)). apply (tk_attrs _ _ (settle_tk _ _ _ H1)).
  - unfold ep_transfer, debit_held in H. bnd H f1 H1. destruct (0 <? amt); [|discriminate]. bnd H1 h Hh.
    inversion H1; subst f1; clear H1. inversion H; subst. apply (EpB_same f); [reflexivity | exact HE].
  - destruct (admin c); [|discriminate]. destruct (_ && _); [|discriminate]. bnd H f1 H1. inversion H; subst.
    apply (EpB_same f); [|exact HE]. cbn. apply (tk_attrs _ _ (settle_tk _ _ _ H1)).
  - destruct (admin c); [|discriminate]. destruct (negb (f_rate f =? 0)); [|discriminate]. destruct (negb (f_produce f)); [|discriminate].
    inversion H; subst. apply (EpB_same f); [reflexivity | exact HE].
  - destruct (admin c); [|discriminate]. bnd H f1 H1. inversion H; subst.
    apply (EpB_same f); [|exact HE]. cbn. apply (tk_attrs _ _ (settle_tk _ _ _ H1)).
  - destruct (admin c); [|discriminate]. destruct (_ && _); [|discriminate]. bnd H f1 H1. inversion H; subst.
    apply (EpB_same f); [|exact HE]. cbn. apply (tk_attrs _ _ (settle_tk _ _ _ H1)).
  - destruct (admin c); [|discriminate]. inversion H; subst. apply (EpB_same f); [reflexivity | exact HE].
  - destruct (admin c); [|discriminate]. destruct (_ || _); [|discriminate]. inversion H; subst. apply (EpB_same f); [reflexivity | exact HE].
  - destruct (admin c); [|discriminate]. destruct (_ && _); [|discriminate]. inversion H; subst. apply (EpB_same f); [reflexivity | exact HE].
  - destruct (admin c); [|discriminate]. destruct (_ && _); [|discriminate]. inversion H; subst. apply (EpB_same f); [reflexivity | exact HE].
  - destruct (0 <? amt); [|discriminate]. inversion H; subst. apply (EpB_same f); [reflexivity | exact HE].
Qed.

From MX Require Import Model.Weekly Model.Boosted Proofs.WeeklyProofs Proofs.BoostedProofs.

Lemma fop_of_ep s op b fo ep : fop_of s op b = Some fo -> fep fo = Some ep -> ep = b_epoch (x_b s).
Proof. destruct op; cbn; intros H; inversion H; subst; cbn; intros E; inversion E; reflexivity. Qed.

Lemma full_step_epb s op s' out : full_step s op = Ok (s', out) ->
  EpB (x_f s) (b_epoch (x_b s)) -> EpB (x_f s') (b_epoch (x_b s')).
Proof.
  intros H HE. pose proof (full_step_farm _ _ _ _ H) as Hf. pose proof (full_step_module _ _ _ _ H) as Hb.
  assert (H1 : EpB (x_f s') (b_epoch (x_b s))).
  { destruct (fop_of s op (xo_b out)) as [fo|] eqn:Ef.
    - apply (fstep_epb _ _ _ _ _ Hf HE). intros ep Hep. rewrite (fop_of_ep _ _ _ _ _ Ef Hep). lia.
    - destruct Hf as (-> & _). exact HE. }
  assert (H2 : b_epoch (x_b s) <= b_epoch (x_b s')).
  { destruct (bop_of s op _ _) as [bo|].
    - destruct Hb as (Hb & _). destruct (step_time _ _ _ _ Hb) as (_ & [(-> & _)|(n & _ & Hn & ->)]); lia.
    - destruct Hb as (-> & _). lia. }
  intros k a Hin. specialize (H1 k a Hin). lia.
Qed.

Lemma full_run_epb ops : forall s, EpB (x_f s) (b_epoch (x_b s)) -> EpB (x_f (full_run s ops)) (b_epoch (x_b (full_run s ops))).
Proof.
  induction ops as [|op t IH]; intros s HE; [exact HE|].
  change (full_run s (op :: t)) with (full_run (full_step_total s op) t). apply IH.
  unfold full_step_total. destruct (full_step s op) as [[s' out]|] eqn:E; [|exact HE]. apply (full_step_epb _ _ _ _ E HE).
Qed.

(** the extra invariants in every reachable state of the closed model *)
Lemma closed_farm_ti dsc same blk epoch ops : 0 < dsc -> Forall xvalid ops ->
  let s := xreach dsc same blk epoch ops in FarmTI (x_f s) /\ EpB (x_f s) (b_epoch (x_b s)).
Proof.
  intros Hd V s. split.
  - unfold s, xreach. rewrite full_run_farm. cbn [x_f init_x].
    apply frun_ti; [apply init_ti; exact Hd | apply fops_valid; exact V].
  - unfold s, xreach. apply full_run_epb. intros k a [].
Qed.

(** ------------------------------------------------------------------ the computed boosted payout satisfies the payout guards *)
(** enterFarm's boosted claim (claim_only_boosted_payment) runs BEFORE generate_aggregated_rewards: what it pays
    is what mergeFarmTokens' claim would pay in the same state, which books no slice *)
Lemma enter_claims_as_merge s pre u cur pos full supply s1 o1 :
  Boosted.step s (BEnter pre u cur pos full supply) = Ok (s1, o1) ->
  exists s2 o2, Boosted.step s (BMerge pre u cur pos) = Ok (s2, o2) /\ o_b o2 = o_b o1 /\ o_cut o2 = 0.
Proof.
  cbn [Boosted.step]. unfold Boosted.ep_enter, Boosted.ep_merge. intros H.
  destruct pre; [|discriminate]. destruct (wf_in cur pos full supply) eqn:Ew; [|discriminate].
  bnd H cw Hcw. bnd H x1 Hc. destruct x1 as [[h1 w1] det]. bnd H x2 Ht. destruct x2 as [[h2 bs] cut]. bnd H w2 Hu.
  inversion H; subst; clear H.
  assert (Ew0 : wf_in cur pos 0 0 = true).
  { unfold wf_in in *. apply andb_prop in Ew. destruct Ew as [Ew _]. apply andb_prop in Ew. destruct Ew as [Ew _].
    rewrite Ew. reflexivity. }
  rewrite Ew0, Hcw. cbn [bind]. rewrite Hc. cbn. eexists _, _. split; [reflexivity|]. split; reflexivity.
Qed.

(** the slice the module books in a user endpoint is the farm's own cut of this operation's emission *)
Lemma user_cut s g op bo b1 o1 : XInv s g -> bop_of s op 0 0 = Some bo -> Boosted.step (x_b s) bo = Ok (b1, o1) ->
  o_cut o1 = if settles op then boosted_cut (x_f s) (emission (x_f s) (x_blk s)) else 0.
Proof.
  intros [_ _ Hi L _] Eb Hs. destruct (step_cut _ _ _ _ _ Hi Hs) as (_ & C).
  destruct (bop_of_full _ _ _ _ _ Eb) as (Hfull & _). rewrite Hfull in C.
  destruct (settles op); [rewrite C; symmetry; apply cut_agree; exact L | exact C].
Qed.

(** the documented guards of a user endpoint of the closed model: those of the farm half without the payout bound
    (the payout is computed) and without the epoch condition (the clock is part of the state) *)
Definition xguards (s : xstate) (op : xop) : Prop :=
  let f := x_f s in
  active f = true /\
  match op with
  | XEnter c amt adds _ => 0 < amt /\ holds f c adds
  | XClaim c first adds _ => holds f c (first :: adds)
  | XCompound c first adds _ => f_same f = true /\ holds f c (first :: adds)
  | XExit c p _ => holds f c [p]
  | XMerge c ps _ => ps <> [] /\ holds f c ps
  | XClaimBoosted c _ => utot f c <> 0
  | _ => False
  end.

Lemma xguards_user s op : xguards s op -> exists u, FarmFullProofs.claim_user op = Some u.
Proof. intros (_ & G). destruct op; try contradiction; cbn; eauto. Qed.

Lemma closed_no_spurious_failure s g op : XInv s g -> FarmTI (x_f s) -> EpB (x_f s) (b_epoch (x_b s)) ->
  xvalid op -> raw_ok op -> xguards s op -> exists r, full_step s op = Ok r.
Proof.
  intros X T HE V Hraw G. destruct (xguards_user _ _ G) as (u & Hcu).
  destruct (full_step s op) as [r|e] eqn:E; [eauto|]. exfalso.
  assert (Hcb : forall c raw, op = XClaimBoosted c raw -> utot (x_f s) c <> 0).
  { intros c raw ->. destruct G as (_ & G). exact G. }
  destruct (user_step_fails_in_farm_half s g op u e X V Hcu Hraw Hcb E) as (b1 & o1 & fo & e' & H1 & Ef & Hf & Hpool).
  pose proof X as [K _ _ _ _].
  destruct (user_ops_shape s op u 0 0 (o_b o1) Hcu) as (bo & fo' & cur & Eb & _ & Ef' & _).
  rewrite Eb in H1. cbn [run_b] in H1. rewrite (user_cut s g op bo b1 o1 X Eb H1) in Hpool.
  assert (Gf : fguards (x_f s) fo).
  { destruct G as (Hact & G). destruct op; try contradiction; cbn [fop_of] in Ef; inversion Ef; subst fo; clear Ef;
      cbn [fguards settles] in *; unfold payout_after, payout_before.
    - (* enter: the claim precedes the settlement *)
      cbn [bop_of] in Eb. inversion Eb; subst bo; clear Eb.
      destruct (enter_claims_as_merge _ _ _ _ _ _ _ _ _ H1) as (s2 & o2 & Hm & Eob & Ecut).
      pose proof (payout_within_pool s g _ _ _ X Hm) as Hp2. rewrite Eob, Ecut in Hp2.
      destruct G as (G1 & G2). split; [exact Hact|]. split; [exact G1|]. split; [exact G2 | lia].
    - split; [exact Hact|]. split; [exact G | lia].
    - destruct G as (G1 & G2). split; [exact Hact|]. split; [exact G1|]. split; [exact G2 | lia].
    - split; [exact Hact|]. split; [exact G|]. split; [|lia].
      intros a Ha. apply (EpB_find _ _ _ _ HE Ha).
    - destruct G as (G1 & G2). split; [exact Hact|]. split; [exact G1|]. split; [exact G2 | lia].
    - split; [exact Hact|]. split; [exact G | lia]. }
  destruct (farm_no_spurious_failure (x_f s) fo K T (fop_of_valid _ _ _ _ V Ef) Gf) as (r & Hr). congruence.
Qed.

(** C05's last clause on the closed model: in every reachable state a user endpoint (enterFarm, claimRewards,
    compoundRewards, exitFarm, mergeFarmTokens, claimBoostedRewards) whose documented guards hold returns Ok —
    farm half AND boosted half, with the boosted payout, the caller's position, the emission, the supply and the
    clock COMPUTED.  Residual side conditions: account ids in range ([xvalid]) and the energy factory's stored
    entry for the caller carries a non-negative locked-token total ([raw_ok]). *)
Lemma closed_reach_no_spurious_failure dsc same blk epoch ops op : 0 < dsc -> Forall xvalid ops ->
  let s := fst (xgreach dsc same blk epoch ops) in
  xvalid op -> raw_ok op -> xguards s op -> exists r, full_step s op = Ok r.
Proof.
  intros Hd V s Vo Hraw G.
  pose proof (reach_xinv dsc same blk epoch ops Hd V) as X.
  pose proof (closed_farm_ti dsc same blk epoch ops Hd V) as (T & HE). cbv zeta in T, HE.
  rewrite <- xgreach_state in T, HE.
  apply (closed_no_spurious_failure s (snd (xgreach dsc same blk epoch ops))); assumption.
Qed.

(** the closed guards as a boolean *)
Definition xguardsb (s : xstate) (op : xop) : bool :=
  let f := x_f s in
  active f &&
  match op with
  | XEnter c amt adds _ => (0 <? amt) && holdsb f c adds
  | XClaim c first adds _ => holdsb f c (first :: adds)
  | XCompound c first adds _ => f_same f && holdsb f c (first :: adds)
  | XExit c p _ => holdsb f c [p]
  | XMerge c ps _ => nonempty ps && holdsb f c ps
  | XClaimBoosted c _ => negb (utot f c =? 0)
  | _ => false
  end.

Lemma xguardsb_sound s op : FarmAcc (x_f s) -> xguardsb s op = true -> xguards s op.
Proof.
  intros A H. unfold xguardsb, xguards in *. cbv zeta in *. apply andb_prop in H. destruct H as [Hact H].
  split; [exact Hact|]. destruct op; try discriminate; bools;
    repeat match goal with
    | |- _ /\ _ => split
    | |- holds _ _ _ => apply holds_check; assumption
    | |- _ <> [] => apply nonempty_sound; assumption
    | |- _ => first [assumption | lia]
    end.
Qed.

(** everything the two totality theorems assume, in every reachable state *)
Lemma farm_reach_invariants dsc same ops : 0 < dsc -> Forall valid_op ops ->
  let f := frun (init_farm dsc same) ops in FarmOK f /\ FarmTI f.
Proof.
  intros Hd V f. split.
  - apply frun_ok; [apply init_farm_ok; exact Hd | exact V].
  - apply frun_ti; [apply init_ti; exact Hd | exact V].
Qed.

(** conversely a user endpoint of the closed model that returns Ok satisfied [xguards]: in a reachable closed state
    (with a well-formed energy entry) a user endpoint fails IF AND ONLY IF a documented guard fails *)
Lemma xguards_necessary s op r u : FarmAcc (x_f s) -> FarmFullProofs.claim_user op = Some u -> full_step s op = Ok r ->
  xguards s op.
Proof.
  intros A Hcu H. destruct r as [s' out]. pose proof (full_step_farm _ _ _ _ H) as Hf.
  destruct op; try discriminate; cbn [fop_of] in Hf; apply (fguards_necessary _ _ _ A) in Hf; cbn [fguards] in Hf;
    unfold xguards; cbv zeta; tauto.
Qed.

Lemma closed_fails_iff_guard_fails dsc same blk epoch ops op u : 0 < dsc -> Forall xvalid ops ->
  let s := fst (xgreach dsc same blk epoch ops) in
  xvalid op -> raw_ok op -> FarmFullProofs.claim_user op = Some u ->
  ((exists r, full_step s op = Ok r) <-> xguards s op).
Proof.
  intros Hd V s Vo Hraw Hcu. split.
  - intros (r & H). pose proof (reach_xinv dsc same blk epoch ops Hd V) as [(A & _) _ _ _ _].
    apply (xguards_necessary s op r u A Hcu H).
  - apply closed_reach_no_spurious_failure; assumption.
Qed.
