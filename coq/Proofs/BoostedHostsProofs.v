(** Proofs about [Model.BoostedHosts]: the boosted-yields module as called by farm-with-locked-rewards and
    farm-staking.  Every host operation preserves the invariant [BInv] of Proofs/BoostedProofs.v (with the same
    ghost ledger), so the C11 theorems about reachable states extend to histories of host operations; the
    per-operation clauses (formula, once, slice, running week) are re-established for the host operations by reusing
    the lemmas of BoostedProofs:
      - farm-staking's claimRewards / compoundRewards / unstakeFarm ARE dex/farm's compound / claim / exit as state
        transformers ([stake_claim_is_compound], [stake_compound_is_claim], [unstake_is_exit]);
      - farm-with-locked-rewards' enterFarm (two energy entries) is dex/farm's mergeFarmTokens step (the boosted
        claim) followed by slice ; supply ; energy update with the second entry ([locked_enter_decomp]). *)
From MX Require Import Base.Prelude Gen.Params Model.Weekly Model.Boosted Model.BoostedHosts.
From MX Require Import Proofs.WeeklyProofs Proofs.BoostedProofs.

Local Notation MAXW := USER_MAX_CLAIM_WEEKS.
Local Notation WK := EPOCHS_IN_WEEK.

(** ================================================================== 1. host operations that are dex/farm operations *)
Lemma stake_claim_is_compound s pre u cur pos full supply :
  ep_stake_claim s pre u cur pos full supply = ep_compound s pre u cur pos full supply.
Proof. reflexivity. Qed.

Lemma stake_compound_is_claim s pre u cur pos full supply :
  ep_stake_compound s pre u cur pos full supply = ep_claim s pre u cur pos full supply.
Proof. reflexivity. Qed.

(** clear_user_energy_if_needed reads the config only: running it before set_farm_supply_for_current_week
    (farm-staking) or after it (dex/farm) is the same *)
Lemma clear_if_needed_sup h w u cw ep posa k v :
  clear_if_needed (set_sup h k v) w u cw ep posa = clear_if_needed h w u cw ep posa.
Proof. reflexivity. Qed.

Lemma unstake_is_exit s pre u cur pos posa full supply :
  ep_unstake s pre u cur pos posa full supply = ep_exit s pre u cur pos posa full supply.
Proof. reflexivity. Qed.

(** the locked farm's enterFarm when nothing is locked in between (boosted payout 0: the factory's entry is unchanged) *)
Lemma locked_enter_same_energy s pre u cur pos full supply :
  ep_locked_enter s pre u cur cur pos full supply = ep_enter s pre u cur pos full supply.
Proof.
  unfold ep_locked_enter, ep_enter, wf_in. destruct pre; [|reflexivity].
  destruct (0 <=? en_tok cur); simpl; [|reflexivity].
  destruct (0 <=? pos); simpl; [|reflexivity]. destruct (0 <=? full); simpl; [|reflexivity].
  destruct (0 <=? supply); reflexivity.
Qed.

Definition is_locked_enter (op : hop) : bool :=
  match op with HLEnter _ _ _ _ _ _ _ => true | _ => false end.

Lemma hstep_base s op : is_locked_enter op = false -> hstep s op = step s (base_of op).
Proof. destruct op; simpl; intros H; try reflexivity. discriminate. Qed.

(** ================================================================== 2. the locked farm's enterFarm, taken apart *)
Lemma locked_enter_decomp s pre u cur cur2 pos full supply s' out :
  ep_locked_enter s pre u cur cur2 pos full supply = Ok (s', out) ->
  let cw := bcur_week s in
  exists h1 w1 h2 bs w2,
    0 <= en_tok cur /\ 0 <= pos /\ 0 <= full /\ 0 <= supply /\ 0 <= en_tok cur2 /\ b_first s <= b_epoch s /\
    claim_boosted (b_h s) (b_w s) u pos cw cur = Ok (h1, w1, o_det out) /\
    ep_merge s true u cur pos = Ok (with_hw s h1 w1, mkOut (pay_total (o_det out)) (o_det out) 0 []) /\
    take_reward_slice h1 cw full = Ok (h2, bs, o_cut out) /\
    update_energy_and_progress w1 u cw cur2 = Ok w2 /\
    s' = with_hw s (set_sup h2 cw supply) w2 /\
    o_b out = pay_total (o_det out) /\ o_swept out = [].
Proof.
  unfold ep_locked_enter. intros Hs. destruct pre; [|discriminate].
  destruct (wf_in cur pos full supply && (0 <=? en_tok cur2)) eqn:Ew; [|discriminate].
  apply andb_true_iff in Ew. destruct Ew as (Ew & E2). apply Z.leb_le in E2.
  pose proof Ew as Ew'. apply wf_in_ok in Ew. destruct Ew as (W1 & W2 & W3 & W4).
  apply bind_ok in Hs. destruct Hs as (cw & Hcw & Hs). destruct (current_week_b _ _ Hcw) as (-> & Ht).
  apply bind_ok in Hs. destruct Hs as ([[h1 w1] det] & Hc & Hs).
  apply bind_ok in Hs. destruct Hs as ([[h2 bs] cut] & Hsl & Hs).
  apply bind_ok in Hs. destruct Hs as (w2 & Hu & Hs). inversion Hs; subst; clear Hs. simpl.
  exists h1, w1, h2, bs, w2. repeat (split; [assumption|]).
  split.
  - unfold ep_merge. assert (Hwf : wf_in cur pos 0 0 = true).
    { unfold wf_in. rewrite !andb_true_iff, !Z.leb_le. repeat split; try assumption; lia. }
    rewrite Hwf, Hcw. simpl. rewrite Hc. reflexivity.
  - repeat (split; [reflexivity || assumption|]). reflexivity.
Qed.

(** ================================================================== 3. the invariant *)
Lemma hstep_inv s g op s' out :
  BInv s g -> hstep s op = Ok (s', out) -> BInv s' (gupd g (base_of op) (bcur_week s) out).
Proof.
  intros Hi Hs. destruct (is_locked_enter op) eqn:El.
  - destruct op; try discriminate. simpl in Hs. simpl base_of.
    destruct Hi as (Htime & L).
    destruct (locked_enter_decomp _ _ _ _ _ _ _ _ _ _ Hs) as (h1 & w1 & h2 & bs & w2 & W1 & W2 & W3 & W4 & W5 & _ & Hc & _ & Hsl & Hu & -> & Hb & Hsw).
    split; [exact Htime|]. change (bcur_week (with_hw s (set_sup h2 (bcur_week s) supply) w2)) with (bcur_week s). simpl b_h; simpl b_w.
    pose proof (L_claim _ _ _ _ _ _ _ _ _ _ L W1 Hc) as L1.
    pose proof (L_slice _ _ _ _ _ _ _ _ L1 W3 Hsl) as L2.
    pose proof (L_uep _ _ _ _ _ _ _ (L_sup _ _ _ _ (bcur_week s) supply L2) W5 Hu) as L3.
    destruct out as [ob odet ocut osw]. simpl in *. subst ob osw.
    apply (L_gext _ _ _ _ _) with (8 := L3); try gx; reflexivity.
  - rewrite (hstep_base _ _ El) in Hs. apply (step_inv _ _ _ _ _ Hi Hs).
Qed.

(** ghost-instrumented host runs: the same ledger as [bgrun], fed with [base_of] *)
Definition hgstep (sg : bst * bghost) (op : hop) : bst * bghost :=
  match hstep (fst sg) op with
  | Ok (s', out) => (s', gupd (snd sg) (base_of op) (bcur_week (fst sg)) out)
  | Err _ => sg
  end.
Definition hgrun (sg : bst * bghost) (ops : list hop) : bst * bghost := fold_left hgstep ops sg.

Lemma hgrun_fst ops : forall s g, fst (hgrun (s, g) ops) = hrun s ops.
Proof.
  unfold hgrun, hrun. induction ops as [|op t IH]; intros s g; simpl; [reflexivity|].
  unfold hgstep at 2, hstep_total at 2. simpl. destruct (hstep s op) as [[s' o]|]; apply IH.
Qed.

(** a dex/farm history is a host history *)
Lemma hgrun_base ops : forall sg, hgrun sg (map HBase ops) = bgrun sg ops.
Proof.
  unfold hgrun, bgrun. induction ops as [|op t IH]; intros sg; simpl; [reflexivity|]. apply IH.
Qed.

Lemma hgstep_inv s g op : BInv s g -> BInv (fst (hgstep (s, g) op)) (snd (hgstep (s, g) op)).
Proof.
  intros Hi. unfold hgstep; simpl. destruct (hstep s op) as [[s' out]|] eqn:Es; simpl; [|exact Hi].
  apply (hstep_inv _ _ _ _ _ Hi Es).
Qed.

Lemma hgrun_inv ops : forall s g, BInv s g -> BInv (fst (hgrun (s, g) ops)) (snd (hgrun (s, g) ops)).
Proof.
  unfold hgrun. induction ops as [|op t IH]; intros s g Hi; simpl; [exact Hi|].
  destruct (hgstep (s, g) op) as [s1 g1] eqn:E. apply IH.
  pose proof (hgstep_inv s g op Hi) as H1. rewrite E in H1. exact H1.
Qed.

Lemma hreach_inv epoch ops : BInv (fst (hgrun (init_b epoch, bg0) ops)) (snd (hgrun (init_b epoch, bg0) ops)).
Proof. apply hgrun_inv. apply BInv_init. Qed.

(** ================================================================== 4. what the invariant says about any state *)
Lemma BInv_pool s g w : BInv s g ->
  0 <= view_acc s w /\ 0 <= view_rem s w /\ 0 <= gpaid g w /\ 0 <= gswept g w /\
  gcuts g w = view_acc s w + view_rem s w + gpaid g w + gswept g w /\
  gpaid g w <= gcuts g w /\
  (view_total_rewards s w <> [] ->
     view_total_rewards s w = [(RTOK, gcuts g w)] /\ view_acc s w = 0 /\ w < bcur_week s /\
     view_rem s w = gcuts g w - gpaid g w - gswept g w) /\
  (bcur_week s - MAXW <= w -> view_total_rewards s w = [] -> view_rem s w = 0 /\ gpaid g w = 0 /\ gswept g w = 0).
Proof.
  intros (_ & _ & _ & _ & M & _).
  unfold view_acc, view_rem, view_total_rewards. fold (acc_ (b_h s) w) (rem_ (b_h s) w) (rw_ (b_w s) w).
  destruct (m_nn _ _ _ _ M w) as (N1 & N2). destruct (m_gnn _ _ _ _ M w) as (G1 & G2). pose proof (m_week _ _ _ _ M w) as Hw.
  split; [exact N1|]. split; [exact N2|]. split; [exact G1|]. split; [exact G2|]. split; [exact Hw|]. split; [lia|].
  split.
  - intros Hne. destruct (m_frozen _ _ _ _ M w Hne) as (F1 & F2). split; [exact F1|]. split; [exact F2|].
    split; [apply (m_fut _ _ _ _ M w Hne) | lia].
  - intros Hlo He. destruct (m_win _ _ _ _ M w Hlo He) as (R0 & P0). destruct (m_window_unswept _ _ _ _ w M Hlo) as (S0 & _).
    repeat split; assumption.
Qed.

Lemma BInv_leftover s g w : BInv s g ->
  view_und s = g_tswept g /\ 0 <= view_und s /\
  (1 <= w <= view_lastcol s ->
     view_acc s w = 0 /\ view_rem s w = 0 /\ gswept g w = gcuts g w - gpaid g w /\ w <= bcur_week s - MAXW - 1) /\
  (gswept g w <> 0 -> 1 <= w <= view_lastcol s).
Proof.
  intros (_ & Hpos & _ & _ & M & _).
  destruct (m_und _ _ _ _ M) as (U1 & U2). split; [exact U1|]. split; [exact U2|]. split; [|apply (m_swept _ _ _ _ M w)].
  intros Hw. destruct (m_done _ _ _ _ M w Hw) as (D1 & D2). pose proof (m_week _ _ _ _ M w) as Hk.
  destruct (m_lastcol _ _ _ _ M) as (L0 & L1). unfold view_acc, view_rem, view_lastcol in *. fold (acc_ (b_h s) w) (rem_ (b_h s) w).
  repeat split; try assumption; lia.
Qed.

Lemma BInv_conservation s g : BInv s g ->
  asum (bh_acc (b_h s)) + asum (bh_rem (b_h s)) + view_und s + g_tpaid g = g_tcuts g /\
  view_und s = g_tswept g /\ NoDup (akeys (bh_acc (b_h s))) /\ NoDup (akeys (bh_rem (b_h s))).
Proof.
  intros (_ & _ & _ & _ & M & _).
  pose proof (m_glob _ _ _ _ M) as Hg. destruct (m_und _ _ _ _ M) as (U1 & _). destruct (m_nd _ _ _ _ M) as (N1 & N2).
  unfold msum, view_und in *. repeat split; assumption.
Qed.

Lemma hreach_pool epoch ops w :
  let s := fst (hgrun (init_b epoch, bg0) ops) in let g := snd (hgrun (init_b epoch, bg0) ops) in
  0 <= view_acc s w /\ 0 <= view_rem s w /\ 0 <= gpaid g w /\ 0 <= gswept g w /\
  gcuts g w = view_acc s w + view_rem s w + gpaid g w + gswept g w /\
  gpaid g w <= gcuts g w /\
  (view_total_rewards s w <> [] ->
     view_total_rewards s w = [(RTOK, gcuts g w)] /\ view_acc s w = 0 /\ w < bcur_week s /\
     view_rem s w = gcuts g w - gpaid g w - gswept g w) /\
  (bcur_week s - MAXW <= w -> view_total_rewards s w = [] -> view_rem s w = 0 /\ gpaid g w = 0 /\ gswept g w = 0).
Proof. intros s g. apply BInv_pool. apply hreach_inv. Qed.

Lemma hreach_leftover epoch ops w :
  let s := fst (hgrun (init_b epoch, bg0) ops) in let g := snd (hgrun (init_b epoch, bg0) ops) in
  view_und s = g_tswept g /\ 0 <= view_und s /\
  (1 <= w <= view_lastcol s ->
     view_acc s w = 0 /\ view_rem s w = 0 /\ gswept g w = gcuts g w - gpaid g w /\ w <= bcur_week s - MAXW - 1) /\
  (gswept g w <> 0 -> 1 <= w <= view_lastcol s).
Proof. intros s g. apply BInv_leftover. apply hreach_inv. Qed.

Lemma hreach_conservation epoch ops :
  let s := fst (hgrun (init_b epoch, bg0) ops) in let g := snd (hgrun (init_b epoch, bg0) ops) in
  asum (bh_acc (b_h s)) + asum (bh_rem (b_h s)) + view_und s + g_tpaid g = g_tcuts g /\
  view_und s = g_tswept g /\ NoDup (akeys (bh_acc (b_h s))) /\ NoDup (akeys (bh_rem (b_h s))).
Proof. intros s g. apply BInv_conservation. apply hreach_inv. Qed.

(** every week that left the window is collectable in a host history as well *)
Lemma hreach_collectable epoch ops w :
  let s := fst (hgrun (init_b epoch, bg0) ops) in
  1 <= w <= bcur_week s - MAXW - 1 ->
  exists s' out, hstep s (HBase (BCollect ADMIN)) = Ok (s', out) /\ w <= view_lastcol s' /\
                 (view_lastcol s < w -> In w (map fst (o_swept out))).
Proof.
  intros s Hw. destruct (hreach_inv epoch ops) as (Htime & _). fold s in Htime.
  destruct (collect_total s Htime) as (s' & out & Hc); [lia|]. exists s', out. split; [exact Hc|].
  destruct (collect_char _ _ _ _ Hc) as (_ & _ & _ & _ & _ & _ & _ & _ & _ & _ & _ & _ & [(Hlt & -> & _)|(Hle & Hl & Hsw & _)]).
  - split; [lia | intros; lia].
  - split; [lia|]. intros Hgt. rewrite Hsw, map_map. simpl. rewrite map_id. apply zseq_in. lia.
Qed.

(** ================================================================== 5. the per-week formula at the host endpoints *)
Definition hclaim_of (op : hop) : option (Z * en * Z) := claim_of (base_of op).

Lemma week_payment_ext s s1 s2 pos cfg p w r :
  view_total_rewards s2 w = view_total_rewards s1 w -> week_payment s s1 pos cfg p w r -> week_payment s s2 pos cfg p w r.
Proof. unfold week_payment. intros E H. rewrite E. exact H. Qed.

Lemma hstep_formula s g op s' out u cur pos :
  BInv s g -> hstep s op = Ok (s', out) -> hclaim_of op = Some (u, cur, pos) ->
  (o_det out = [] /\ (bh_cfg (b_h s) = None \/ view_progress s u = None \/
                      exists p, view_progress s u = Some p /\ pr_week p = bcur_week s)) \/
  (exists p c cfg,
     view_progress s u = Some p /\ bh_cfg (b_h s) = Some c /\ cfg_update c (bcur_week s) None = Ok cfg /\
     map fst (o_det out) = claim_range p (bcur_week s) /\
     forall w r, In (w, r) (o_det out) ->
       pr_week p <= w /\ bcur_week s - MAXW <= w < bcur_week s /\ week_payment s s' pos cfg p w r).
Proof.
  intros Hi Hs Hc. destruct (is_locked_enter op) eqn:El.
  - destruct op; try discriminate. simpl in Hs. unfold hclaim_of in Hc. simpl in Hc. inversion Hc; subst u0 cur0 pos0; clear Hc.
    destruct (locked_enter_decomp _ _ _ _ _ _ _ _ _ _ Hs) as (h1 & w1 & h2 & bs & w2 & _ & _ & _ & _ & _ & _ & _ & Hm & _ & Hu & -> & _ & _).
    destruct (step_formula s g (BMerge true u cur pos) _ _ u cur pos Hi Hm eq_refl) as [H|(p & c & cfg & H1 & H2 & H3 & H4 & H5)].
    + left. exact H.
    + right. exists p, c, cfg. simpl in H4, H5. repeat (split; [assumption|]).
      intros w r Hin. destruct (H5 w r Hin) as (A1 & A2 & A3). split; [exact A1|]. split; [exact A2|].
      apply (week_payment_ext s (with_hw s h1 w1)); [|exact A3].
      unfold view_total_rewards. simpl. fold (rw_ w2 w) (rw_ w1 w).
      destruct (uep_spec _ _ _ _ _ Hu) as (_ & _ & Hrw). destruct (Hrw w) as [E|(_ & E)]; [exact E|].
      exfalso. unfold cleared_week in E. lia.
  - rewrite (hstep_base _ _ El) in Hs. apply (step_formula _ _ _ _ _ _ _ _ Hi Hs Hc).
Qed.

(** ================================================================== 6. at most once per (user, week) *)
Definition hevents (op : hop) (out : bout) : list (Z * Z) := bevents (base_of op) out.

Fixpoint hrun_log (s : bst) (ops : list hop) : list (Z * Z) :=
  match ops with
  | [] => []
  | op :: t => match hstep s op with
               | Ok (s', out) => hevents op out ++ hrun_log s' t
               | Err _ => hrun_log s t
               end
  end.

Lemma hstep_claimable s g op s' out :
  BInv s g -> hstep s op = Ok (s', out) ->
  (forall u, bclaimable_from s u <= bclaimable_from s' u) /\
  (forall u w, In (u, w) (hevents op out) -> bclaimable_from s u <= w < bclaimable_from s' u) /\
  NoDup (hevents op out).
Proof.
  intros Hi Hs. destruct (is_locked_enter op) eqn:El.
  - destruct op; try discriminate. simpl in Hs. unfold hevents. simpl base_of.
    destruct (locked_enter_decomp _ _ _ _ _ _ _ _ _ _ Hs) as (h1 & w1 & h2 & bs & w2 & _ & _ & _ & _ & _ & _ & _ & Hm & _ & Hu & -> & _ & _).
    destruct (step_claimable s g (BMerge true u cur pos) _ _ Hi Hm) as (C1 & C2 & C3).
    pose proof (step_inv s g (BMerge true u cur pos) _ _ Hi Hm) as (_ & _ & (Hall & _) & _). simpl in Hall.
    change (bcur_week (with_hw s h1 w1)) with (bcur_week s) in Hall.
    destruct (uep_spec _ _ _ _ _ Hu) as (U1 & _).
    assert (Hf : forall u', bclaimable_from (with_hw s h1 w1) u' <= bclaimable_from (with_hw s (set_sup h2 (bcur_week s) supply) w2) u').
    { intros u'. unfold bclaimable_from. simpl b_w.
      change (bcur_week (with_hw s (set_sup h2 (bcur_week s) supply) w2)) with (bcur_week s).
      change (bcur_week (with_hw s h1 w1)) with (bcur_week s).
      rewrite U1, from_after. destruct (u =? u'); [apply from_le; exact Hall | lia]. }
    assert (Hev : bevents (BEnter pre u cur pos full supply) out = bevents (BMerge true u cur pos) (mkOut (pay_total (o_det out)) (o_det out) 0 []))
      by reflexivity.
    rewrite Hev. split; [intros u'; specialize (C1 u'); specialize (Hf u'); lia|]. split; [|exact C3].
    intros u' w Hin. specialize (C2 u' w Hin). specialize (Hf u'). lia.
  - rewrite (hstep_base _ _ El) in Hs. apply (step_claimable _ _ _ _ _ Hi Hs).
Qed.

Lemma hrun_log_once ops : forall s g, BInv s g ->
  (forall u w, In (u, w) (hrun_log s ops) -> bclaimable_from s u <= w) /\ NoDup (hrun_log s ops).
Proof.
  induction ops as [|op t IH]; intros s g Hi; simpl.
  - split; [intros u w [] | constructor].
  - destruct (hstep s op) as [[s' out]|] eqn:Es; [|apply (IH s g Hi)].
    destruct (hstep_claimable _ _ _ _ _ Hi Es) as (Hmono & Hev & Hnd).
    destruct (IH s' _ (hstep_inv _ _ _ _ _ Hi Es)) as (IH1 & IH2).
    split.
    + intros u w Hin. apply in_app_or in Hin. destruct Hin as [Hin|Hin].
      * apply (Hev _ _ Hin).
      * specialize (IH1 _ _ Hin). specialize (Hmono u). lia.
    + apply NoDup_app_disjoint; [exact Hnd | exact IH2|].
      intros [u w] Hin Hin2. specialize (Hev _ _ Hin). specialize (IH1 _ _ Hin2). lia.
Qed.

(** ================================================================== 7. the slice, with the host's own emission *)
Definition hfull_of (op : hop) : option Z := full_of (base_of op).

Lemma hstep_cut s g op s' out :
  BInv s g -> hstep s op = Ok (s', out) ->
  0 <= o_cut out /\ o_cut out = match hfull_of op with Some full => expected_cut s full | None => 0 end.
Proof.
  intros Hi Hs. destruct (is_locked_enter op) eqn:El.
  - destruct op; try discriminate. simpl in Hs. unfold hfull_of. simpl.
    pose proof Hi as (_ & _ & _ & _ & _ & Hpct).
    destruct (locked_enter_decomp _ _ _ _ _ _ _ _ _ _ Hs) as (h1 & w1 & h2 & bs & w2 & _ & _ & W3 & _ & _ & _ & Hc & _ & Hsl & _).
    assert (Hwf : forall p, pfind (w_prog (b_w s)) u = Some p -> 0 <= en_tok (pr_en p)) by (intros p Hp; apply (BInv_wf _ _ _ _ Hi Hp)).
    destruct (claim_cfg_presence _ _ _ _ _ _ _ _ _ Hwf Hc) as (P1 & P2).
    assert (Hp0 : 0 <= bh_pct h1) by (rewrite P1; lia).
    destruct (slice_spec _ _ _ _ _ _ W3 Hp0 Hsl) as (C1 & C2 & _). split; [exact C1|]. rewrite C2. unfold expected_cut, view_pct. rewrite P1.
    destruct (bh_cfg h1) as [c|] eqn:E1; destruct (bh_cfg (b_h s)) as [c2|] eqn:E2; try reflexivity.
    + exfalso. destruct P2 as (P2 & _). specialize (P2 eq_refl). discriminate.
    + exfalso. destruct P2 as (_ & P2). specialize (P2 eq_refl). discriminate.
  - rewrite (hstep_base _ _ El) in Hs. apply (step_cut _ _ _ _ _ Hi Hs).
Qed.

Lemma hstep_week s op s' out : hstep s op = Ok (s', out) ->
  bcur_week s <= bcur_week s' /\ ((forall n, op <> HBase (BAdvance n)) -> bcur_week s' = bcur_week s).
Proof.
  intros Hs. destruct (is_locked_enter op) eqn:El.
  - destruct op; try discriminate. simpl in Hs.
    destruct (locked_enter_decomp _ _ _ _ _ _ _ _ _ _ Hs) as (h1 & w1 & h2 & bs & w2 & _ & _ & _ & _ & _ & _ & _ & _ & _ & _ & -> & _).
    change (bcur_week (with_hw s (set_sup h2 (bcur_week s) supply) w2)) with (bcur_week s). split; [lia | reflexivity].
  - rewrite (hstep_base _ _ El) in Hs. destruct (step_week _ _ _ _ Hs) as (A & B). split; [exact A|].
    intros Hn. apply B. intros n E. destruct op; simpl in E; try discriminate. apply (Hn n). rewrite E. reflexivity.
Qed.

(** the running week's pool grows by exactly this operation's cut; nothing of it is remaining *)
Lemma hstep_running_week s g op s' out :
  BInv s g -> hstep s op = Ok (s', out) -> (forall n, op <> HBase (BAdvance n)) ->
  view_acc s' (bcur_week s) = view_acc s (bcur_week s) + o_cut out /\ view_rem s' (bcur_week s) = 0.
Proof.
  intros Hi Hs Hna. pose proof (hstep_inv _ _ _ _ _ Hi Hs) as Hi'.
  destruct (hstep_week _ _ _ _ Hs) as (_ & Hw). specialize (Hw Hna).
  destruct Hi as (_ & _ & _ & _ & M & _). destruct Hi' as (_ & _ & _ & _ & M' & _). rewrite Hw in M'.
  pose proof max_weeks_nonneg as HMX.
  destruct (running_week_pool _ _ _ _ M HMX) as (A1 & _). destruct (running_week_pool _ _ _ _ M' HMX) as (A2 & R2 & _).
  unfold view_acc, view_rem. fold (acc_ (b_h s') (bcur_week s)) (acc_ (b_h s) (bcur_week s)) (rem_ (b_h s') (bcur_week s)).
  split; [|exact R2]. rewrite A1, A2. unfold gcuts; simpl. rewrite aget_add_at, Z.eqb_refl. reflexivity.
Qed.

(** ================================================================== 8. sweeps: only collectUndistributedBoostedRewards *)
Lemma hstep_sweeps s g op s' out :
  BInv s g -> hstep s op = Ok (s', out) ->
  view_lastcol s <= view_lastcol s' /\
  (forall w, In w (map fst (o_swept out)) ->
     view_lastcol s < w <= view_lastcol s' /\ w <= bcur_week s - MAXW - 1 /\ exists c, op = HBase (BCollect c)) /\
  NoDup (map fst (o_swept out)).
Proof.
  intros Hi Hs. destruct (is_locked_enter op) eqn:El.
  - destruct op; try discriminate. simpl in Hs.
    destruct (locked_enter_decomp _ _ _ _ _ _ _ _ _ _ Hs) as (h1 & w1 & h2 & bs & w2 & _ & _ & _ & _ & _ & _ & _ & Hm & Hsl & _ & -> & _ & Hsw).
    destruct (step_sweeps s g (BMerge true u cur pos) _ _ Hi Hm) as (S1 & _). destruct (slice_rel_of _ _ _ _ _ _ Hsl) as (_ & _ & _ & _ & r5 & _).
    rewrite Hsw. unfold view_lastcol in *. simpl in *. rewrite r5. split; [exact S1|]. split; [intros w []|constructor].
  - rewrite (hstep_base _ _ El) in Hs. destruct (step_sweeps _ _ _ _ _ Hi Hs) as (A & B & C). split; [exact A|]. split; [|exact C].
    intros w Hin. destruct (B w Hin) as (B1 & B2 & c & Hc). split; [exact B1|]. split; [exact B2|]. exists c.
    destruct op; simpl in Hc; try discriminate. rewrite Hc. reflexivity.
Qed.

Fixpoint hsweep_log (s : bst) (ops : list hop) : list Z :=
  match ops with
  | [] => []
  | op :: t => match hstep s op with
               | Ok (s', out) => map fst (o_swept out) ++ hsweep_log s' t
               | Err _ => hsweep_log s t
               end
  end.

Lemma hsweep_log_once ops : forall s g, BInv s g ->
  (forall w, In w (hsweep_log s ops) -> view_lastcol s < w) /\ NoDup (hsweep_log s ops).
Proof.
  induction ops as [|op t IH]; intros s g Hi; simpl.
  - split; [intros w [] | constructor].
  - destruct (hstep s op) as [[s' out]|] eqn:Es; [|apply (IH s g Hi)].
    destruct (hstep_sweeps _ _ _ _ _ Hi Es) as (Hmono & Hev & Hnd).
    destruct (IH s' _ (hstep_inv _ _ _ _ _ Hi Es)) as (IH1 & IH2).
    split.
    + intros w Hin. apply in_app_or in Hin. destruct Hin as [Hin|Hin]; [apply (Hev _ Hin) | specialize (IH1 _ Hin); lia].
    + apply NoDup_app_disjoint; [exact Hnd | exact IH2|].
      intros w Hin Hin2. destruct (Hev _ Hin) as (Hx & _). specialize (IH1 _ Hin2). lia.
Qed.

(** ================================================================== 9. freezing of a week's pool, per host operation *)
Lemma hstep_rewards s g op s' out :
  BInv s g -> hstep s op = Ok (s', out) ->
  let cw := bcur_week s in
  forall w,
    (view_total_rewards s w <> [] -> cw - MAXW <= w -> view_total_rewards s' w = view_total_rewards s w) /\
    (view_total_rewards s w = [] -> view_total_rewards s' w <> [] ->
       (exists u cur pos, hclaim_of op = Some (u, cur, pos)) /\ cw - MAXW <= w < cw /\
       view_total_rewards s' w = [(RTOK, view_acc s w)] /\ view_acc s' w = 0 /\
       view_rem s' w = view_acc s w - wpaid (o_det out) w) /\
    (w <> cw -> view_acc s' w = view_acc s w \/ view_acc s' w = 0).
Proof.
  intros Hi Hs cw w. destruct (is_locked_enter op) eqn:El.
  - destruct op; try discriminate. simpl in Hs.
    destruct (locked_enter_decomp _ _ _ _ _ _ _ _ _ _ Hs) as (h1 & w1 & h2 & bs & w2 & _ & _ & _ & _ & _ & _ & _ & Hm & Hsl & Hu & -> & _ & _).
    fold cw in Hsl, Hu.
    destruct (step_rewards s g (BMerge true u cur pos) _ _ Hi Hm w) as (R1 & R2 & R3). fold cw in R1, R2, R3. simpl o_det in R2.
    destruct (slice_rel_of _ _ _ _ _ _ Hsl) as (r1 & _ & _ & _ & _ & _ & r7).
    destruct (uep_spec _ _ _ _ _ Hu) as (_ & _ & Hrw).
    unfold view_total_rewards, view_acc, view_rem in *. simpl b_h in *. simpl b_w in *.
    fold (rw_ w2 w) (rw_ w1 w) (rw_ (b_w s) w) in *.
    fold (acc_ (set_sup h2 cw supply) w) (acc_ h1 w) (acc_ (b_h s) w) in *.
    fold (rem_ (set_sup h2 cw supply) w) (rem_ h1 w) in *.
    assert (Hacc : w <> cw -> acc_ (set_sup h2 cw supply) w = acc_ h1 w) by (intros Hne; apply (r7 w Hne)).
    assert (Hrem : rem_ (set_sup h2 cw supply) w = rem_ h1 w) by (unfold rem_; simpl; rewrite r1; reflexivity).
    split; [|split].
    + intros Hne Hlo. rewrite <- (R1 Hne Hlo). destruct (Hrw w) as [E|(_ & E)]; [exact E|]. exfalso. unfold cleared_week in E. fold cw in E. lia.
    + intros He Hne'. assert (E : rw_ w2 w = rw_ w1 w) by (destruct (Hrw w) as [E|(E & _)]; [exact E | contradiction]).
      rewrite E in Hne'. destruct (R2 He Hne') as (_ & Hwin & F1 & F2 & F3).
      split; [exists u, cur, pos; reflexivity|]. split; [exact Hwin|]. split; [rewrite E; exact F1|].
      change (aget (bh_acc (set_sup h2 (bcur_week s) supply)) w) with (acc_ (set_sup h2 cw supply) w).
      change (aget (bh_rem (set_sup h2 (bcur_week s) supply)) w) with (rem_ (set_sup h2 cw supply) w).
      rewrite Hacc by lia. rewrite Hrem. split; [exact F2 | exact F3].
    + intros Hne. change (aget (bh_acc (set_sup h2 (bcur_week s) supply)) w) with (acc_ (set_sup h2 cw supply) w).
      rewrite (Hacc Hne). apply (R3 Hne).
  - rewrite (hstep_base _ _ El) in Hs. apply (step_rewards _ _ _ _ _ Hi Hs).
Qed.

(** ================================================================== 10. the factors of a week along host histories *)
Lemma BInv_factors s g : BInv s g ->
  let cw := bcur_week s in
  match bh_cfg (b_h s), g_fac g with
  | None, None => True
  | Some c, Some (f0, log) =>
      c_last c <= cw /\ Forall (fun ev => fst ev <= cw) log /\
      view_factors s = Some (fac_at f0 log cw) /\
      exists cfg, cfg_update c cw None = Ok cfg /\
        forall w, (cw - NSLOTS < w < cw -> get_factors_for_week cfg w = Ok (fac_at f0 log w)) /\
                  (forall fa, get_factors_for_week cfg w = Ok fa -> cw - NSLOTS < w < cw /\ fa = fac_at f0 log w)
  | _, _ => False
  end.
Proof.
  intros (_ & _ & _ & HC & _) cw. fold cw in HC. unfold CI in HC.
  destruct (bh_cfg (b_h s)) as [c|] eqn:Ec; destruct (g_fac g) as [[f0 log]|]; try exact HC.
  destruct HC as (Hi & Hle). split; [exact Hle|].
  pose proof Hi as (_ & Hall & Hsl).
  split; [eapply Forall_impl; [|exact Hall]; simpl; intros; lia|].
  pose proof nslots_pos as HN.
  split.
  - unfold view_factors. rewrite Ec. f_equal. rewrite last_slot_slot, Hsl by lia. rewrite Z.sub_0_r.
    symmetry. apply fac_at_late; [exact Hall | exact Hle].
  - assert (Hu : exists cfg, cfg_update c cw None = Ok cfg).
    { unfold cfg_update. assert (E : (c_last c <=? cw) = true) by (apply Z.leb_le; exact Hle). rewrite E.
      destruct (Z.min (cw - c_last c) NSLOTS =? 0); eexists; reflexivity. }
    destruct Hu as (cfg & Hu). exists cfg. split; [exact Hu|].
    destruct (cfg_update_inv _ _ _ _ _ _ Hi Hu) as (_ & Hl & Hi'). intros w. rewrite <- Hl.
    apply (get_factors_spec _ _ _ w Hi').
Qed.

Lemma hreach_factors epoch ops :
  let s := fst (hgrun (init_b epoch, bg0) ops) in let g := snd (hgrun (init_b epoch, bg0) ops) in
  let cw := bcur_week s in
  match bh_cfg (b_h s), g_fac g with
  | None, None => True
  | Some c, Some (f0, log) =>
      c_last c <= cw /\ Forall (fun ev => fst ev <= cw) log /\
      view_factors s = Some (fac_at f0 log cw) /\
      exists cfg, cfg_update c cw None = Ok cfg /\
        forall w, (cw - NSLOTS < w < cw -> get_factors_for_week cfg w = Ok (fac_at f0 log w)) /\
                  (forall fa, get_factors_for_week cfg w = Ok fa -> cw - NSLOTS < w < cw /\ fa = fac_at f0 log w)
  | _, _ => False
  end.
Proof. intros s g. apply BInv_factors. apply hreach_inv. Qed.

(** the ghost log along a host history: only setBoostedYieldsFactors ([HBase (BSetFactors _ _)]) appends to it *)
Fixpoint hfac_calls (s : bst) (ops : list hop) : list (Z * factors) :=
  match ops with
  | [] => []
  | op :: t => match hstep s op with
               | Ok (s', _) => (match op with HBase (BSetFactors _ f) => [(bcur_week s, f)] | _ => [] end) ++ hfac_calls s' t
               | Err _ => hfac_calls s t
               end
  end.

Lemma hfac_event op cw gf :
  fac_event (base_of op) cw gf =
  match op with
  | HBase (BSetFactors _ f) => match gf with None => Some (f, []) | Some (f0, log) => Some (f0, log ++ [(cw, f)]) end
  | _ => gf
  end.
Proof. destruct op; reflexivity. Qed.

Lemma hfac_log_is_calls ops : forall s g,
  match g_fac (snd (hgrun (s, g) ops)), g_fac g with
  | Some (f0, log), Some (f0', log') => f0 = f0' /\ log = log' ++ hfac_calls s ops
  | Some (f0, log), None => exists cw0 rest, hfac_calls s ops = (cw0, f0) :: rest /\ log = rest
  | None, None => hfac_calls s ops = []
  | None, Some _ => False
  end.
Proof.
  unfold hgrun. induction ops as [|op t IH]; intros s g; simpl.
  - destruct (g_fac g) as [[f0 log]|]; [split; [reflexivity | rewrite app_nil_r; reflexivity] | reflexivity].
  - unfold hgstep at 2. simpl. destruct (hstep s op) as [[s' out]|] eqn:Es; simpl; [|apply IH].
    specialize (IH s' (gupd g (base_of op) (bcur_week s) out)). simpl g_fac in IH. rewrite hfac_event in IH.
    destruct (g_fac (snd (fold_left hgstep t (s', gupd g (base_of op) (bcur_week s) out)))) as [[f1 log1]|];
      destruct op as [b| | | |]; try destruct b; simpl in IH |- *; destruct (g_fac g) as [[f0 log0]|]; simpl in IH |- *; try exact IH;
      try (destruct IH as (-> & ->); split; [reflexivity | rewrite <- app_assoc; reflexivity]);
      try (destruct IH as (-> & ->); eexists; eexists; split; reflexivity); try contradiction.
Qed.

Lemma hstep_fok s op s' out gf cw : hstep s op = Ok (s', out) -> FOK gf -> FOK (fac_event (base_of op) cw gf).
Proof.
  intros Hs Hg. destruct op as [b| | | |]; simpl base_of; try exact Hg. simpl in Hs. apply (step_fok _ _ _ _ _ _ Hs Hg).
Qed.

Lemma hgrun_fok ops : forall s g, FOK (g_fac g) -> FOK (g_fac (snd (hgrun (s, g) ops))).
Proof.
  unfold hgrun. induction ops as [|op t IH]; intros s g Hg; simpl; [exact Hg|].
  unfold hgstep at 2. simpl. destruct (hstep s op) as [[s' out]|] eqn:Es; simpl; [|apply IH; exact Hg].
  apply IH. simpl. apply (hstep_fok _ _ _ _ _ _ Es Hg).
Qed.

Lemma hreach_no_div0 epoch ops :
  let s := fst (hgrun (init_b epoch, bg0) ops) in let cw := bcur_week s in
  forall c, bh_cfg (b_h s) = Some c ->
    (forall fa, In fa (c_slots c) -> fac_ok fa) /\
    forall cfg, cfg_update c cw None = Ok cfg ->
      (forall fa, In fa (c_slots cfg) -> fac_ok fa) /\
      (forall w fa, get_factors_for_week cfg w = Ok fa ->
         fac_ok fa /\ forall x, div_chk x (fa_ce fa + fa_cf fa) = Ok (x / (fa_ce fa + fa_cf fa))) /\
      (forall pos h0 s0 w e E err, boosted_hook pos cfg cw h0 s0 w e E = Err err ->
         (exists e1, get_factors_for_week cfg w = Err e1) \/
         (exists e1, b_collect_and_get cw h0 s0 w = Err e1) \/
         (exists h1 s1 tot, b_collect_and_get cw h0 s0 w = Ok (h1, s1, tot) /\ (2 <= length tot)%nat) \/
         (exists fa h1 s1 t R,
            get_factors_for_week cfg w = Ok fa /\ b_collect_and_get cw h0 s0 w = Ok (h1, s1, [(t, R)]) /\ R <> 0 /\
            0 < boosted_amount fa R pos (aget (bh_sup h0) w) e E /\
            aget (bh_rem h1) w < boosted_amount fa R pos (aget (bh_sup h0) w) e E)).
Proof.
  intros s cw c Hc. destruct (hreach_inv epoch ops) as (_ & _ & _ & HC & _). fold s cw in HC.
  pose proof (hgrun_fok ops (init_b epoch) bg0 I) as Hfok. unfold CI in HC. rewrite Hc in HC.
  destruct (g_fac (snd (hgrun (init_b epoch, bg0) ops))) as [[f0 log]|]; [|contradiction].
  destruct HC as (Hi & _). split; [apply (CInv_slots_ok _ _ _ Hi Hfok)|].
  intros cfg Hu. destruct (cfg_update_inv _ _ _ _ _ _ Hi Hu) as (_ & _ & Hi').
  assert (Hsl : forall fa, In fa (c_slots cfg) -> fac_ok fa) by apply (CInv_slots_ok _ _ _ Hi' Hfok).
  assert (Hget : forall w fa, get_factors_for_week cfg w = Ok fa -> fac_ok fa).
  { intros w fa Hg. destruct (get_factors_spec _ _ _ w Hi') as (_ & H2). destruct (H2 fa Hg) as (_ & ->).
    destruct Hfok. apply fac_at_ok; assumption. }
  split; [exact Hsl|]. split.
  - intros w fa Hg. pose proof (Hget w fa Hg) as Hok. split; [exact Hok|]. intros x. unfold div_chk.
    destruct (fa_ce fa + fa_cf fa =? 0) eqn:E; [apply Z.eqb_eq in E; destruct Hok as (_ & _ & Hp); lia | reflexivity].
  - intros pos h0 s0 w e E err Hh. apply (hook_err_cases _ _ _ _ _ _ _ _ _ (fun fa Hg => ltac:(destruct (Hget w fa Hg) as (_ & _ & Hp); lia)) Hh).
Qed.
