(** Proofs about the closed dex/farm model (Model/FarmFull.v).

    Part A  projection: a successful [full_step] is a successful [fstep] (with the computed boosted payout) and a
            successful [Boosted.step] (with the computed farm-level facts); [full_run] refines [frun] and [run];
            every invariant of the two open models holds in every reachable closed state.
    Part B  the link invariant: the farm's aggregate [f_pool] is the module's books
            (sum of accumulated + remaining over the weeks, + undistributed), percentage and "factors configured" agree,
            and per settlement the farm cuts exactly the slice the module books.
    Part C  C11_no_underflow: the guard [remaining(w) -= reward] of the boosted hook cannot fire in a reachable state.
            Invariant [NU] (with ghost sums [uE], [uF] per week of the energies / positions the week's settlements were
            computed with):  for every completed week
              (EI) used energies + energies of the recorded users who can still claim it  <= total energy of the week
                   (from the bucket bookkeeping invariant WeeklyProofs.WInv at the moment the week closes; afterwards
                   every change of a user's progress first settles him: [touch]),
              (FI) used positions + present total positions of those users <= farm supply of the week, whenever the week
                   has a pool (user totals of distinct users add up to at most the supply — C07's owner totals — and the
                   supply of the running week is the recorded one: every supply change records it; a total grows only
                   for the caller, after his settlement; while no config exists totals may grow unsettled, but then no
                   pool accrues — the F4 repair),
              (PI) paid(w) * (cE+cF) * E * F <= R * (cE * usedE * F + cF * usedF * E)   (three floor divisions).
            Together: paid + everything still claimable <= R ([week_sum_bound]), the hook call of any pending user succeeds
            ([hook_total]), the module half of every user endpoint is total ([module_half_total]), a user endpoint fails only
            in its farm half ([user_step_fails_in_farm_half]). *)
From MX Require Import Base.Prelude Gen.Params Model.Weekly Model.Farm Model.Boosted Model.FarmFull.
From MX Require Import Proofs.FarmInv Proofs.FarmSolv Proofs.FarmRps Proofs.FarmOwner.
From MX Require Import Proofs.WeeklyProofs Proofs.BoostedProofs.

Local Notation WK := EPOCHS_IN_WEEK.
Local Notation MAXW := USER_MAX_CLAIM_WEEKS.

Ltac bnd H x E := apply bind_ok in H; destruct H as (x & E & H).

(** ================================================================== Part A: projection *)

(** the module's outputs do not depend on the supply / position-after arguments (they are written after the claim) *)
Lemma run_b_out_indep s op S1 P1 S2 P2 b1 o1 b2 o2 :
  run_b (x_b s) (bop_of s op S1 P1) = Ok (b1, o1) -> run_b (x_b s) (bop_of s op S2 P2) = Ok (b2, o2) -> o2 = o1.
Proof.
  destruct op; simpl; intros H1 H2;
    try (rewrite H1 in H2; inversion H2; reflexivity).
  - (* enter *)
    unfold Boosted.ep_enter in H1, H2. simpl in H1, H2.
    destruct (wf_in _ _ _ S1); [|discriminate]. destruct (wf_in _ _ _ S2); [|discriminate].
    bnd H1 cw Hcw. rewrite Hcw in H2. simpl bind in H2.
    bnd H1 x1 Hc. destruct x1 as [[h1 w1] det]. rewrite Hc in H2. simpl bind in H2.
    bnd H1 x2 Hs. destruct x2 as [[h2 bs] cut]. rewrite Hs in H2. simpl bind in H2.
    bnd H1 w2 Hu. rewrite Hu in H2. simpl bind in H2.
    inversion H1; inversion H2; reflexivity.
  - (* claim *)
    unfold Boosted.ep_claim in H1, H2. simpl in H1, H2.
    destruct (wf_in _ _ _ S1); [|discriminate]. destruct (wf_in _ _ _ S2); [|discriminate].
    bnd H1 cw Hcw. rewrite Hcw in H2. simpl bind in H2.
    bnd H1 x2 Hs. destruct x2 as [[h2 bs] cut]. rewrite Hs in H2. simpl bind in H2.
    bnd H1 x1 Hc. destruct x1 as [[h1 w1] det]. rewrite Hc in H2. simpl bind in H2.
    inversion H1; inversion H2; reflexivity.
  - (* compound *)
    unfold Boosted.ep_compound in H1, H2. simpl in H1, H2.
    destruct (wf_in _ _ _ S1); [|discriminate]. destruct (wf_in _ _ _ S2); [|discriminate].
    bnd H1 cw Hcw. rewrite Hcw in H2. simpl bind in H2.
    bnd H1 x2 Hs. destruct x2 as [[h2 bs] cut]. rewrite Hs in H2. simpl bind in H2.
    bnd H1 x1 Hc. destruct x1 as [[h1 w1] det]. rewrite Hc in H2. simpl bind in H2.
    bnd H1 w2 Hu. rewrite Hu in H2. simpl bind in H2.
    inversion H1; inversion H2; reflexivity.
  - (* exit *)
    unfold Boosted.ep_exit in H1, H2. simpl in H1, H2.
    destruct (wf_in _ _ _ S1 && _); [|discriminate]. destruct (wf_in _ _ _ S2 && _); [|discriminate].
    bnd H1 cw Hcw. rewrite Hcw in H2. simpl bind in H2.
    bnd H1 x2 Hs. destruct x2 as [[h2 bs] cut]. rewrite Hs in H2. simpl bind in H2.
    bnd H1 x1 Hc. destruct x1 as [[h1 w1] det]. rewrite Hc in H2. simpl bind in H2.
    bnd H1 w2 Hu. bnd H2 w2' Hu'.
    inversion H1; inversion H2; reflexivity.
  - (* claimBoosted *)
    unfold Boosted.ep_claim_boosted in H1, H2. simpl in H1, H2.
    destruct (wf_in _ _ _ S1); [|discriminate]. destruct (wf_in _ _ _ S2); [|discriminate].
    destruct (negb (utot (x_f s) c =? 0)); [|discriminate].
    bnd H1 cw Hcw. rewrite Hcw in H2. simpl bind in H2.
    bnd H1 x2 Hs. destruct x2 as [[h2 bs] cut]. rewrite Hs in H2. simpl bind in H2.
    bnd H1 x1 Hc. destruct x1 as [[h1 w1] det]. rewrite Hc in H2. simpl bind in H2.
    inversion H1; inversion H2; reflexivity.
Qed.

(** Projection: the farm half ran [fstep] with the payout the module computed, the module ran [step] with the supply and
    position the farm half left behind, and the module's own payout of that run is the one the farm paid. *)
Lemma full_step_proj s op s' out : full_step s op = Ok (s', out) ->
  clock_of s op = Ok (x_blk s') /\
  run_f (x_f s) (fop_of s op (xo_b out)) = Ok (x_f s', xo_f out) /\
  run_b (x_b s) (bop_of s op (f_supply (x_f s')) (utot (x_f s') (caller_of op))) = Ok (x_b s', xo_m out) /\
  o_b (xo_m out) = xo_b out.
Proof.
  unfold full_step. intros H.
  bnd H blk' Hck. bnd H x1 H1. destruct x1 as [b1 o1]. bnd H x2 H2. destruct x2 as [f' fo].
  bnd H x3 H3. destruct x3 as [b' o2]. inversion H; subst; clear H. simpl.
  split; [exact Hck|]. split; [exact H2|]. split; [exact H3|].
  rewrite (run_b_out_indep _ _ _ _ _ _ _ _ _ _ H1 H3). reflexivity.
Qed.

(** the same, spelled out per half *)
Lemma full_step_farm s op s' out : full_step s op = Ok (s', out) ->
  match fop_of s op (xo_b out) with
  | Some fo => fstep (x_f s) fo = Ok (x_f s', xo_f out)
  | None => x_f s' = x_f s /\ xo_f out = []
  end.
Proof.
  intros H. destruct (full_step_proj _ _ _ _ H) as (_ & Hf & _). unfold run_f in Hf.
  destruct (fop_of s op (xo_b out)); [exact Hf | inversion Hf; split; reflexivity].
Qed.

Lemma full_step_module s op s' out : full_step s op = Ok (s', out) ->
  match bop_of s op (f_supply (x_f s')) (utot (x_f s') (caller_of op)) with
  | Some bo => step (x_b s) bo = Ok (x_b s', xo_m out) /\ o_b (xo_m out) = xo_b out
  | None => x_b s' = x_b s /\ xo_m out = out0 /\ xo_b out = 0
  end.
Proof.
  intros H. destruct (full_step_proj _ _ _ _ H) as (_ & _ & Hb & Hob). unfold run_b in Hb.
  destruct (bop_of s op _ _); [split; assumption|].
  inversion Hb; subst. split; [reflexivity|]. split; [reflexivity|]. rewrite <- Hob, <- H2. reflexivity.
Qed.

(** ------------------------------------------------------------------ the two projected histories *)
Definition opt_list {A} (o : option A) : list A := match o with Some a => [a] | None => [] end.

Fixpoint fops (s : xstate) (ops : list xop) : list fop :=
  match ops with
  | [] => []
  | op :: t =>
      match full_step s op with
      | Ok (s', out) => opt_list (fop_of s op (xo_b out)) ++ fops s' t
      | Err _ => fops s t
      end
  end.

Fixpoint bops (s : xstate) (ops : list xop) : list bop :=
  match ops with
  | [] => []
  | op :: t =>
      match full_step s op with
      | Ok (s', out) => opt_list (bop_of s op (f_supply (x_f s')) (utot (x_f s') (caller_of op))) ++ bops s' t
      | Err _ => bops s t
      end
  end.

Lemma frun_cons f fo l : frun f (fo :: l) = frun (fstep_total f fo) l.
Proof. reflexivity. Qed.
Lemma run_cons b bo l : run b (bo :: l) = run (step_total b bo) l.
Proof. reflexivity. Qed.

(** Refinement: the farm half of a closed history is a history of Model/Farm.v, the module half one of Model/Boosted.v. *)
Lemma full_run_farm ops : forall s, x_f (full_run s ops) = frun (x_f s) (fops s ops).
Proof.
  induction ops as [|op t IH]; intros s; simpl; [reflexivity|].
  unfold full_step_total. destruct (full_step s op) as [[s' out]|] eqn:E; [|apply IH].
  rewrite IH. pose proof (full_step_farm _ _ _ _ E) as Hf.
  destruct (fop_of s op (xo_b out)) as [fo|]; cbn [opt_list app].
  - rewrite frun_cons. unfold fstep_total at 1. rewrite Hf. reflexivity.
  - destruct Hf as (-> & _). reflexivity.
Qed.

Lemma full_run_module ops : forall s, x_b (full_run s ops) = run (x_b s) (bops s ops).
Proof.
  induction ops as [|op t IH]; intros s; simpl; [reflexivity|].
  unfold full_step_total. destruct (full_step s op) as [[s' out]|] eqn:E; [|apply IH].
  rewrite IH. pose proof (full_step_module _ _ _ _ E) as Hb.
  destruct (bop_of s op _ _) as [bo|]; cbn [opt_list app].
  - destruct Hb as (Hb & _). rewrite run_cons. unfold step_total at 1. rewrite Hb. reflexivity.
  - destruct Hb as (-> & _). reflexivity.
Qed.

(** account ids in range (the position ledger keys are nonce * 1000 + holder) *)
Definition xvalid (op : xop) : Prop :=
  match op with
  | XEnter c _ _ _ | XClaim c _ _ _ | XCompound c _ _ _ | XExit c _ _ | XMerge c _ _ | XClaimBoosted c _ => valid_id c
  | XTransfer _ s d _ => valid_id s /\ valid_id d
  | _ => True
  end.

Lemma fop_of_valid s op b fo : xvalid op -> fop_of s op b = Some fo -> valid_op fo.
Proof. destruct op; simpl; intros V H; inversion H; subst; simpl; auto. Qed.

Lemma fops_valid ops : forall s, Forall xvalid ops -> Forall valid_op (fops s ops).
Proof.
  induction ops as [|op t IH]; intros s V; simpl; [constructor|]. inversion V; subst.
  destruct (full_step s op) as [[s' out]|]; [|apply IH; assumption].
  apply Forall_app. split; [|apply IH; assumption].
  destruct (fop_of s op (xo_b out)) as [fo|] eqn:E; simpl; [|constructor].
  constructor; [|constructor]. eapply fop_of_valid; eassumption.
Qed.

(** every reachable state of the closed model, from any deployment *)
Definition xreach (dsc : Z) (same : bool) (blk epoch : Z) (ops : list xop) : xstate :=
  full_run (init_x dsc same blk epoch) ops.

(** C05 - C07 transfer: accounting, solvency, principal, owner totals *)
Lemma closed_farm_ok dsc same blk epoch ops : 0 < dsc -> Forall xvalid ops ->
  let f := x_f (xreach dsc same blk epoch ops) in FarmOK f /\ FarmAcc f /\ Solv f /\ UT f.
Proof.
  intros Hd V f. unfold f, xreach. rewrite full_run_farm. simpl.
  pose proof (fops_valid ops (init_x dsc same blk epoch) V) as V'.
  pose proof (frun_ok _ _ (init_farm_ok dsc same Hd) V') as K.
  split; [exact K|]. destruct K as (A & S & D). split; [exact A|]. split; [exact S|].
  apply frun_ut; [apply init_farm_ok; assumption | apply init_ut | exact V'].
Qed.

(** C11 transfer: the module half is a reachable state of Model/Boosted.v, with the ghost ledger of its own history *)
Lemma closed_module_inv dsc same blk epoch ops :
  let s := xreach dsc same blk epoch ops in
  let sg := bgrun (init_b epoch, bg0) (bops (init_x dsc same blk epoch) ops) in
  x_b s = fst sg /\ BoostedProofs.BInv (fst sg) (snd sg).
Proof.
  intros s sg. unfold s, sg, xreach. rewrite full_run_module. simpl. split; [rewrite bgrun_fst; reflexivity|].
  apply reach_inv.
Qed.

(** ================================================================== Part B: the link invariant *)
(** ------------------------------------------------------------------ farm side: what an endpoint does to the aggregate pool *)
(** what a settlement reads, and the aggregate *)
Definition sk (f : farm) := (f_last f, f_rate f, f_produce f, f_pct f, f_factors f).

Lemma pay_in_k f c p f' : pay_in f c p = Ok f' -> sk f' = sk f /\ f_pool f' = f_pool f.
Proof.
  unfold pay_in, debit_held. destruct p as [n x]. intros H. bnd H f1 H1.
  destruct (0 <? x); [|discriminate]. bnd H1 b Hb. inversion H1; subst; clear H1.
  simpl in H. bnd H o Ho. inversion H; subst. split; reflexivity.
Qed.

Lemma pay_all_k ps : forall f c f', pay_all f c ps = Ok f' -> sk f' = sk f /\ f_pool f' = f_pool f.
Proof.
  induction ps as [|p t IH]; intros f c f' H; simpl in H; [inversion H; split; reflexivity|].
  bnd H f1 H1. destruct (pay_in_k _ _ _ _ H1) as (A & B). destruct (IH _ _ _ H) as (A' & B'). split; congruence.
Qed.

Lemma only_utot_k f f' : only_utot f f' -> sk f' = sk f /\ f_pool f' = f_pool f.
Proof.
  intros ((Hc & Hg & Hm) & _). unfold core, cfgt, money, sk in *.
  injection Hc as c1 c2 c3 c4. injection Hg as g1 g2 g3 g4 g5 g6 g7 g8 g9. injection Hm as m1 m2 m3 m4 m5.
  split; congruence.
Qed.

Lemma pay_reward_k f r b f' : pay_reward f r b = Ok f' -> sk f' = sk f /\ f_pool f' = f_pool f - b.
Proof.
  intros H. destruct (pay_reward_spec _ _ _ _ H) as (Hg & _ & _ & _ & Hl & _ & _ & _ & _ & _ & _ & Hp & _).
  unfold cfgt, sk in *. inversion Hg. split; [congruence | exact Hp].
Qed.

Lemma boosted_cut_0 f : boosted_cut f 0 = 0.
Proof. unfold boosted_cut. destruct ((f_pct f =? 0) || negb (f_factors f)); [reflexivity|]. rewrite Z.mul_0_l. apply Zdiv_0_l. Qed.

Lemma settle_k f blk f' : settle f blk = Ok f' ->
  f_pool f' = f_pool f + boosted_cut f (emission f blk) /\
  f_rate f' = f_rate f /\ f_produce f' = f_produce f /\ f_pct f' = f_pct f /\ f_factors f' = f_factors f.
Proof.
  unfold settle, emission. destruct (blk <=? f_last f).
  - intros H. assert (E : f' = f) by (inversion H; reflexivity). subst f'.
    rewrite boosted_cut_0. repeat split; lia.
  - cbv zeta. set (tm := if f_produce f then f_rate f * (blk - f_last f) else 0).
    destruct (tm =? 0) eqn:E0.
    + apply Z.eqb_eq in E0. intros H. injection H as <-. simpl. rewrite E0, boosted_cut_0. repeat split; lia.
    + intros H. bnd H inc Hi. injection H as <-. simpl. repeat split.
Qed.

Lemma cut_ext f g blk : sk g = sk f -> boosted_cut g (emission g blk) = boosted_cut f (emission f blk).
Proof. unfold sk, boosted_cut, emission. intros H; inversion H. congruence. Qed.

(** the block at which an endpoint settles, the boosted payout it is given *)
Definition fblk (fo : fop) : option Z :=
  match fo with
  | FEnter blk _ _ _ _ _ | FClaim blk _ _ _ _ _ | FCompound blk _ _ _ _ _ | FExit blk _ _ _ _
  | FClaimBoosted blk _ _ _ | FSetRate blk _ _ | FEnd blk _ | FSetPct blk _ _ => Some blk
  | _ => None
  end.
Definition fb (fo : fop) : Z :=
  match fo with
  | FEnter _ _ _ _ _ b | FClaim _ _ _ _ _ b | FCompound _ _ _ _ _ b | FExit _ _ _ _ b | FMerge _ _ _ _ b
  | FClaimBoosted _ _ _ b => b
  | _ => 0
  end.
Definition fcut (f : farm) (fo : fop) : Z :=
  match fblk fo with Some blk => boosted_cut f (emission f blk) | None => 0 end.

Lemma fstep_link f fo f' o : fstep f fo = Ok (f', o) ->
  f_pool f' = f_pool f + fcut f fo - fb fo /\
  f_pct f' = (match fo with FSetPct _ _ p => p | _ => f_pct f end) /\
  f_factors f' = (match fo with FSetFactors _ => true | _ => f_factors f end).
Proof.
  unfold fcut. destruct fo; simpl; intros H.
  - (* enter *)
    unfold Farm.ep_enter in H. destruct (0 <? amt); [|discriminate].
    bnd H f0 H0. destruct (active f0); [|discriminate].
    bnd H f1 H1. bnd H f2 H2. bnd H f4 H4. bnd H m Hm.
    destruct (mint_pos _ m c) as [f6 n] eqn:Hmint. inversion H; subst; clear H.
    destruct (pay_reward_k _ _ _ _ H0) as (K0 & P0). destruct (pay_all_k _ _ _ _ H1) as (K1 & P1).
    destruct (only_utot_k _ _ (check_update_only _ _ _ _ H2)) as (K2 & P2).
    destruct (settle_k _ _ _ H4) as (P4 & R4 & D4 & C4 & F4).
    unfold mint_pos in Hmint. inversion Hmint; subst; clear Hmint. simpl.
    assert (K3 : sk (increase_user f2 c amt) = sk f) by (unfold increase_user, set_utot, sk in *; simpl; congruence).
    rewrite (cut_ext _ _ blk K3) in P4. simpl in P4.
    unfold sk in *. inversion K0. inversion K1. inversion K2.
    split; [lia|]. split; congruence.
  - (* claim *)
    unfold Farm.ep_claim in H. destruct (active f); [|discriminate].
    bnd H f1 H1. bnd H f2 H2. bnd H a Ha. bnd H part Hp. bnd H base Hb. bnd H f3 H3. bnd H f4 H4. bnd H m Hm.
    destruct (mint_pos f4 m c) as [f5 n] eqn:Hmint. inversion H; subst; clear H.
    destruct (pay_all_k _ _ _ _ H1) as (K1 & P1). destruct (settle_k _ _ _ H2) as (P2 & R2 & D2 & C2 & F2).
    destruct (pay_reward_k _ _ _ _ H3) as (K3 & P3).
    destruct (only_utot_k _ _ (check_update_only _ _ _ _ H4)) as (K4 & P4).
    unfold mint_pos in Hmint. inversion Hmint; subst; clear Hmint. simpl.
    rewrite (cut_ext _ _ blk K1) in P2. unfold sk in *. inversion K1. inversion K3. inversion K4.
    split; [lia|]. split; congruence.
  - (* compound *)
    unfold Farm.ep_compound in H. destruct (active f); [|discriminate]. destruct (f_same f); [|discriminate].
    bnd H f1 H1. bnd H f2 H2. bnd H a Ha. bnd H part Hp. bnd H base Hb. bnd H f3 H3. bnd H f4 H4. bnd H m Hm.
    destruct (mint_pos f4 m c) as [f5 n] eqn:Hmint. inversion H; subst; clear H.
    destruct (pay_all_k _ _ _ _ H1) as (K1 & P1). destruct (settle_k _ _ _ H2) as (P2 & R2 & D2 & C2 & F2).
    destruct (pay_reward_k _ _ _ _ H3) as (K3 & P3).
    destruct (only_utot_k _ _ (check_update_only _ _ _ _ H4)) as (K4 & P4).
    unfold mint_pos in Hmint. inversion Hmint; subst; clear Hmint. simpl.
    rewrite (cut_ext _ _ blk K1) in P2. unfold sk in *. simpl in *. inversion K1. inversion K3. inversion K4.
    split; [lia|]. split; congruence.
  - (* exit *)
    unfold Farm.ep_exit in H. destruct (active f); [|discriminate].
    bnd H f1 H1. bnd H f2 H2. bnd H a Ha. bnd H part Hp. bnd H base Hb. bnd H f3 H3. bnd H f4 H4. bnd H sup Hs.
    bnd H age Hg. bnd H ou Ho. bnd H bal Hbl. inversion H; subst; clear H.
    destruct (pay_in_k _ _ _ _ H1) as (K1 & P1). destruct (settle_k _ _ _ H2) as (P2 & R2 & D2 & C2 & F2).
    destruct (pay_reward_k _ _ _ _ H3) as (K3 & P3).
    destruct (only_utot_k _ _ (decrease_user_only _ _ _ H4)) as (K4 & P4). simpl.
    rewrite (cut_ext _ _ blk K1) in P2. unfold sk in *. inversion K1. inversion K3. inversion K4.
    split; [lia|]. split; congruence.
  - (* merge *)
    unfold Farm.ep_merge in H. destruct (active f); [|discriminate]. destruct ps as [|first rest]; [discriminate|].
    bnd H f0 H0. bnd H f1 H1. bnd H f2 H2. bnd H a Ha. bnd H part Hp. bnd H m0 Hm.
    destruct (mint_pos f2 _ c) as [f3 n] eqn:Hmint. inversion H; subst; clear H.
    destruct (pay_reward_k _ _ _ _ H0) as (K0 & P0). destruct (pay_all_k _ _ _ _ H1) as (K1 & P1).
    destruct (only_utot_k _ _ (check_update_only _ _ _ _ H2)) as (K2 & P2).
    unfold mint_pos in Hmint. inversion Hmint; subst; clear Hmint. simpl.
    unfold sk in *. inversion K0. inversion K1. inversion K2. split; [lia|]. split; congruence.
  - (* claimBoosted *)
    unfold Farm.ep_claim_boosted in H. destruct (negb (utot f c =? 0)); [|discriminate]. destruct (active f); [|discriminate].
    bnd H f1 H1. bnd H f2 H2. inversion H; subst; clear H.
    destruct (settle_k _ _ _ H1) as (P1 & R1 & D1 & C1 & F1). destruct (pay_reward_k _ _ _ _ H2) as (K2 & P2).
    unfold sk in *. inversion K2. split; [lia|]. split; congruence.
  - (* transfer *)
    unfold Farm.ep_transfer, debit_held in H. bnd H f1 H1. destruct (0 <? amt); [|discriminate]. bnd H1 b Hb.
    inversion H1; subst; clear H1. inversion H; subst. simpl. split; [lia|]. split; reflexivity.
  - destruct (Farm.admin c); [|discriminate]. destruct (negb (r =? 0) && (0 <=? r)); [|discriminate].
    bnd H f1 H1. inversion H; subst. destruct (settle_k _ _ _ H1) as (P1 & R1 & D1 & C1 & F1). simpl. split; [lia|]. split; assumption.
  - destruct (Farm.admin c); [|discriminate]. destruct (negb (f_rate f =? 0)); [|discriminate]. destruct (negb (f_produce f)); [|discriminate].
    inversion H; subst. simpl. split; [lia|]. split; reflexivity.
  - destruct (Farm.admin c); [|discriminate].
    bnd H f1 H1. inversion H; subst. destruct (settle_k _ _ _ H1) as (P1 & R1 & D1 & C1 & F1). simpl. split; [lia|]. split; assumption.
  - destruct (Farm.admin c); [|discriminate]. destruct ((0 <=? p) && (p <=? MAXP)); [|discriminate].
    bnd H f1 H1. inversion H; subst. destruct (settle_k _ _ _ H1) as (P1 & R1 & D1 & C1 & F1). simpl. split; [lia|]. split; [reflexivity | assumption].
  - destruct (Farm.admin c); [|discriminate]. inversion H; subst. simpl. split; [lia|]. split; reflexivity.
  - destruct (Farm.admin c); [|discriminate]. destruct ((st =? ST_Active) || (st =? ST_Inactive)); [|discriminate].
    inversion H; subst. simpl. split; [lia|]. split; reflexivity.
  - destruct (Farm.admin c); [|discriminate]. destruct ((0 <=? e) && (e <=? FARM_MAX_MINIMUM_FARMING_EPOCHS)); [|discriminate].
    inversion H; subst. simpl. split; [lia|]. split; reflexivity.
  - destruct (Farm.admin c); [|discriminate]. destruct ((0 <=? p) && (p <? MAXP)); [|discriminate].
    inversion H; subst. simpl. split; [lia|]. split; reflexivity.
  - destruct (0 <? amt); [|discriminate]. inversion H; subst. simpl. split; [lia|]. split; reflexivity.
Qed.

(** ------------------------------------------------------------------ module side *)
Lemma BInv_wfp s g u p : BoostedProofs.BInv s g -> pfind (w_prog (b_w s)) u = Some p -> 0 <= en_tok (pr_en p).
Proof. intros (_ & _ & HT & _) Hp. apply (T_find _ _ _ _ HT Hp). Qed.

Lemma step_pct s g op s' out : BoostedProofs.BInv s g -> step s op = Ok (s', out) ->
  bh_pct (b_h s') = match op with BSetPct _ p _ => p | _ => bh_pct (b_h s) end.
Proof.
  intros Hi Hs.
  assert (Hcl : forall h w u pos cw cur h' w' det, w = b_w s -> claim_boosted h w u pos cw cur = Ok (h', w', det) -> bh_pct h' = bh_pct h).
  { intros h w u pos cw cur h' w' det -> Hc. apply (claim_cfg_presence _ _ _ _ _ _ _ _ _ (fun p Hp => BInv_wfp _ _ _ _ Hi Hp) Hc). }
  assert (Hsl : forall h cw full h' b cut, take_reward_slice h cw full = Ok (h', b, cut) -> bh_pct h' = bh_pct h).
  { intros h cw full h' b cut Ht. apply (slice_rel_of _ _ _ _ _ _ Ht). }
  destruct op; simpl in Hs.
  - unfold ep_advance in Hs. destruct (0 <=? n); [|discriminate]. inversion Hs; reflexivity.
  - unfold Boosted.ep_enter in Hs. destruct pre; [|discriminate]. destruct (wf_in _ _ _ _); [|discriminate].
    bnd Hs cw Hcw. bnd Hs x1 Hc. destruct x1 as [[h1 w1] det]. bnd Hs x2 Ht. destruct x2 as [[h2 bs] cut]. bnd Hs w2 Hu.
    inversion Hs; subst; simpl. rewrite (Hsl _ _ _ _ _ _ Ht). apply (Hcl _ _ _ _ _ _ _ _ _ eq_refl Hc).
  - unfold Boosted.ep_claim in Hs. destruct pre; [|discriminate]. destruct (wf_in _ _ _ _); [|discriminate].
    bnd Hs cw Hcw. bnd Hs x2 Ht. destruct x2 as [[h2 bs] cut]. bnd Hs x1 Hc. destruct x1 as [[h1 w1] det].
    inversion Hs; subst; simpl. rewrite (Hcl _ _ _ _ _ _ _ _ _ eq_refl Hc). apply (Hsl _ _ _ _ _ _ Ht).
  - unfold Boosted.ep_compound in Hs. destruct pre; [|discriminate]. destruct (wf_in _ _ _ _); [|discriminate].
    bnd Hs cw Hcw. bnd Hs x2 Ht. destruct x2 as [[h2 bs] cut]. bnd Hs x1 Hc. destruct x1 as [[h1 w1] det]. bnd Hs w2 Hu.
    inversion Hs; subst; simpl. rewrite (Hcl _ _ _ _ _ _ _ _ _ eq_refl Hc). apply (Hsl _ _ _ _ _ _ Ht).
  - unfold Boosted.ep_exit in Hs. destruct pre; [|discriminate]. destruct (wf_in _ _ _ _ && _); [|discriminate].
    bnd Hs cw Hcw. bnd Hs x2 Ht. destruct x2 as [[h2 bs] cut]. bnd Hs x1 Hc. destruct x1 as [[h1 w1] det]. bnd Hs w2 Hu.
    inversion Hs; subst; simpl. rewrite (Hcl _ _ _ _ _ _ _ _ _ eq_refl Hc). apply (Hsl _ _ _ _ _ _ Ht).
  - unfold Boosted.ep_merge in Hs. destruct pre; [|discriminate]. destruct (wf_in _ _ _ _); [|discriminate].
    bnd Hs cw Hcw. bnd Hs x1 Hc. destruct x1 as [[h1 w1] det].
    inversion Hs; subst; simpl. apply (Hcl _ _ _ _ _ _ _ _ _ eq_refl Hc).
  - unfold Boosted.ep_claim_boosted in Hs. destruct pre; [|discriminate]. destruct (wf_in _ _ _ _); [|discriminate].
    destruct (negb (pos =? 0)); [|discriminate].
    bnd Hs cw Hcw. bnd Hs x2 Ht. destruct x2 as [[h2 bs] cut]. bnd Hs x1 Hc. destruct x1 as [[h1 w1] det].
    inversion Hs; subst; simpl. rewrite (Hcl _ _ _ _ _ _ _ _ _ eq_refl Hc). apply (Hsl _ _ _ _ _ _ Ht).
  - unfold ep_settle in Hs. destruct pre; [|discriminate]. destruct (0 <=? full); [|discriminate].
    bnd Hs cw Hcw. bnd Hs x2 Ht. destruct x2 as [[h2 bs] cut]. inversion Hs; subst; simpl. apply (Hsl _ _ _ _ _ _ Ht).
  - unfold ep_set_pct in Hs. destruct (Boosted.admin c); [|discriminate]. destruct ((0 <=? p) && (p <=? BOOSTED_MAX_PERCENT)); [|discriminate].
    destruct (0 <=? full); [|discriminate].
    bnd Hs cw Hcw. bnd Hs x2 Ht. destruct x2 as [[h2 bs] cut]. inversion Hs; subst; simpl. reflexivity.
  - unfold ep_set_factors in Hs. destruct (Boosted.admin c); [|discriminate].
    destruct ((0 <=? fa_max f) && (0 <=? fa_ce f) && (0 <=? fa_cf f)); [|discriminate].
    destruct ((0 <? fa_mine f) && (0 <? fa_minf f)); [|discriminate].
    destruct ((0 <? fa_ce f) || (0 <? fa_cf f)); [|discriminate].
    bnd Hs cw Hcw. bnd Hs c' Hu. inversion Hs; subst; simpl. reflexivity.
  - destruct (collect_char _ _ _ _ Hs) as (_ & _ & _ & _ & _ & _ & _ & T & _). exact T.
  - unfold ep_update_energy in Hs. destruct (0 <=? en_tok cur); [|discriminate].
    bnd Hs cw Hcw. bnd Hs w' Hu. inversion Hs; subst; simpl. reflexivity.
Qed.

(** money: the module's books move by the slice it took minus what it paid *)
Lemma step_books s g op s' out : BoostedProofs.BInv s g -> step s op = Ok (s', out) ->
  msum (b_h s') + bh_und (b_h s') = msum (b_h s) + bh_und (b_h s) + o_cut out - o_b out.
Proof.
  intros Hi Hs. pose proof (step_inv _ _ _ _ _ Hi Hs) as Hi'.
  destruct Hi as (_ & _ & _ & _ & M & _). destruct Hi' as (_ & _ & _ & _ & M' & _).
  pose proof (m_glob _ _ _ _ M) as G. pose proof (m_glob _ _ _ _ M') as G'. simpl in G'. lia.
Qed.

Lemma cfg_none_iff s g : BoostedProofs.BInv s g -> (bh_cfg (b_h s) = None <-> g_fac g = None).
Proof.
  intros (_ & _ & _ & C & _). unfold CI in C. destruct (bh_cfg (b_h s)); destruct (g_fac g) as [[f0 log]|]; try tauto.
  split; discriminate.
Qed.

Lemma step_cfg_presence s g op s' out : BoostedProofs.BInv s g -> step s op = Ok (s', out) ->
  (bh_cfg (b_h s') <> None <-> (bh_cfg (b_h s) <> None \/ exists c f, op = BSetFactors c f)).
Proof.
  intros Hi Hs. pose proof (step_inv _ _ _ _ _ Hi Hs) as Hi'.
  pose proof (cfg_none_iff _ _ Hi) as C. pose proof (cfg_none_iff _ _ Hi') as C'. simpl in C'.
  assert (E : fac_event op (bcur_week s) (g_fac g) = None <-> (g_fac g = None /\ forall c f, op <> BSetFactors c f)).
  { unfold fac_event. destruct op; try (split; [intros H; split; [exact H | intros; discriminate] | intros (H & _); exact H]).
    destruct (g_fac g) as [[f0 log]|]; split; try discriminate; intros (H & H2); try discriminate. exfalso. apply (H2 c f). reflexivity. }
  split.
  - intros Hn. destruct (bh_cfg (b_h s)) eqn:Ec; [left; discriminate|]. right.
    destruct op; try (exfalso; apply Hn; apply C'; apply E; split; [apply C; reflexivity | intros; discriminate]).
    exists c, f. reflexivity.
  - intros [Hn|(c & f & ->)] Hx; apply C' in Hx; apply E in Hx; destruct Hx as (Hx & Hy).
    + apply Hn. apply C. exact Hx.
    + apply (Hy c f). reflexivity.
Qed.

(** ------------------------------------------------------------------ the invariant *)
(** f_pool = sum over the weeks of accumulated + remaining, + undistributed (collect only moves remaining / accumulated
    into undistributed, nothing leaves the contract); same percentage; "factors configured" = config present *)
Definition LK (s : xstate) : Prop :=
  f_pool (x_f s) = msum (b_h (x_b s)) + bh_und (b_h (x_b s)) /\
  f_pct (x_f s) = bh_pct (b_h (x_b s)) /\
  (f_factors (x_f s) = true <-> bh_cfg (b_h (x_b s)) <> None).

Lemma maxp_same : MAXP = BOOSTED_MAX_PERCENT.
Proof. reflexivity. Qed.

(** the farm's cut and the module's slice are the same function of the emission *)
Lemma cut_agree s tm : LK s -> boosted_cut (x_f s) tm = expected_cut (x_b s) tm.
Proof.
  intros (_ & Hp & Hf). unfold boosted_cut, expected_cut, view_pct. rewrite Hp, maxp_same.
  destruct (f_factors (x_f s)) eqn:Ef; destruct (bh_cfg (b_h (x_b s))) eqn:Ec; simpl; try reflexivity.
  - exfalso. apply (proj1 Hf eq_refl). reflexivity.
  - assert (X : true = true -> False); [|exfalso; apply X; reflexivity]. intros _.
    assert (false = true) by (apply Hf; discriminate). discriminate.
Qed.

Lemma LK_init dsc same blk epoch : LK (init_x dsc same blk epoch).
Proof. unfold LK, msum. simpl. split; [reflexivity|]. split; [reflexivity|]. split; [discriminate | intros H; exfalso; apply H; reflexivity]. Qed.

(** which endpoints settle (run generate_aggregated_rewards) *)
Definition settles (op : xop) : bool :=
  match op with
  | XEnter _ _ _ _ | XClaim _ _ _ _ | XCompound _ _ _ _ | XExit _ _ _ | XClaimBoosted _ _ | XSetRate _ _ | XEnd _ | XSetPct _ _ => true
  | _ => false
  end.

Lemma fop_of_cut s op b fo : fop_of s op b = Some fo ->
  fcut (x_f s) fo = (if settles op then boosted_cut (x_f s) (emission (x_f s) (x_blk s)) else 0) /\
  fb fo = (match op with XEnter _ _ _ _ | XClaim _ _ _ _ | XCompound _ _ _ _ | XExit _ _ _ | XMerge _ _ _ | XClaimBoosted _ _ => b | _ => 0 end).
Proof. destruct op; simpl; intros H; inversion H; subst; unfold fcut; simpl; split; reflexivity. Qed.

Lemma bop_of_full s op S P bo : bop_of s op S P = Some bo ->
  full_of bo = (if settles op then Some (emission (x_f s) (x_blk s)) else None) /\
  (claim_of bo = None <-> match op with XEnter _ _ _ _ | XClaim _ _ _ _ | XCompound _ _ _ _ | XExit _ _ _ | XMerge _ _ _ | XClaimBoosted _ _ => False | _ => True end).
Proof. destruct op; simpl; intros H; inversion H; subst; simpl; split; try reflexivity; split; intros; try discriminate; try tauto. Qed.

(** Link step: the invariant is kept, and this operation's settlement cut on the farm side equals the slice the module books *)
Lemma full_step_link s g op s' out :
  LK s -> BoostedProofs.BInv (x_b s) g -> full_step s op = Ok (s', out) ->
  LK s' /\
  o_cut (xo_m out) = (if settles op then boosted_cut (x_f s) (emission (x_f s) (x_blk s)) else 0) /\
  f_pool (x_f s') = f_pool (x_f s) + o_cut (xo_m out) - xo_b out.
Proof.
  intros L Hi H. pose proof (full_step_farm _ _ _ _ H) as Hf. pose proof (full_step_module _ _ _ _ H) as Hb.
  set (S := f_supply (x_f s')) in *. set (P := utot (x_f s') (caller_of op)) in *.
  (* module side *)
  assert (Mod : msum (b_h (x_b s')) + bh_und (b_h (x_b s')) = msum (b_h (x_b s)) + bh_und (b_h (x_b s)) + o_cut (xo_m out) - xo_b out /\
                o_cut (xo_m out) = (if settles op then boosted_cut (x_f s) (emission (x_f s) (x_blk s)) else 0) /\
                bh_pct (b_h (x_b s')) = (match op with XSetPct _ p => p | _ => bh_pct (b_h (x_b s)) end) /\
                (bh_cfg (b_h (x_b s')) <> None <-> (bh_cfg (b_h (x_b s)) <> None \/ exists c fa, op = XSetFactors c fa)) /\
                (match op with XEnter _ _ _ _ | XClaim _ _ _ _ | XCompound _ _ _ _ | XExit _ _ _ | XMerge _ _ _ | XClaimBoosted _ _ => True | _ => xo_b out = 0 end)).
  { destruct (bop_of s op S P) as [bo|] eqn:Eb.
    - destruct Hb as (Hb & Hob). destruct (bop_of_full _ _ _ _ _ Eb) as (Hfull & Hcl).
      pose proof (step_books _ _ _ _ _ Hi Hb) as B1. rewrite Hob in B1.
      destruct (step_cut _ _ _ _ _ Hi Hb) as (_ & B2). rewrite Hfull in B2.
      pose proof (step_pct _ _ _ _ _ Hi Hb) as B3. pose proof (step_cfg_presence _ _ _ _ _ Hi Hb) as B4.
      split; [exact B1|]. split; [destruct (settles op); [rewrite B2; symmetry; apply cut_agree; exact L | exact B2]|].
      split; [destruct op; simpl in Eb; inversion Eb; subst bo; exact B3|].
      split.
      + rewrite B4. split; (intros [X|(c & f & X)]; [left; exact X | right]).
        * subst bo. destruct op; simpl in Eb; try discriminate. inversion Eb; subst. eexists _, _. reflexivity.
        * subst op. simpl in Eb. inversion Eb. eexists _, _. reflexivity.
      + destruct op; try exact I; (assert (Hn : claim_of bo = None) by (apply Hcl; exact I));
          destruct (step_noclaim _ _ _ _ Hb Hn) as (_ & Z0 & _); rewrite <- Hob; exact Z0.
    - destruct Hb as (-> & -> & Hb0). rewrite Hb0. simpl.
      destruct op; simpl in Eb; try discriminate; simpl;
        (split; [lia|]); (split; [reflexivity|]); (split; [reflexivity|]);
        (split; [split; [intros X; left; exact X | intros [X|(c0 & fa0 & X)]; [exact X | discriminate]] | reflexivity]). }
  destruct Mod as (M1 & M2 & M3 & M4 & M5).
  (* farm side *)
  assert (Frm : f_pool (x_f s') = f_pool (x_f s) + (if settles op then boosted_cut (x_f s) (emission (x_f s) (x_blk s)) else 0) - xo_b out /\
                f_pct (x_f s') = (match op with XSetPct _ p => p | _ => f_pct (x_f s) end) /\
                f_factors (x_f s') = (match op with XSetFactors _ _ => true | _ => f_factors (x_f s) end)).
  { destruct (fop_of s op (xo_b out)) as [fo|] eqn:Ef.
    - destruct (fstep_link _ _ _ _ Hf) as (F1 & F2 & F3). destruct (fop_of_cut _ _ _ _ Ef) as (C1 & C2).
      rewrite C1, C2 in F1.
      split; [destruct op; simpl in *; try rewrite M5; lia|].
      split; destruct op; simpl in Ef; inversion Ef; subst fo; assumption.
    - destruct Hf as (-> & _). destruct op; simpl in Ef; try discriminate; simpl; rewrite M5; repeat split; lia. }
  destruct Frm as (F1 & F2 & F3). destruct L as (L1 & L2 & L3).
  split; [|split; [exact M2 | rewrite M2; exact F1]].
  unfold LK. split; [rewrite F1, M1, M2; lia|]. split; [rewrite F2, M3; destruct op; try exact L2; reflexivity|].
  rewrite F3, M4. destruct op; try (rewrite L3; split; [intros X; left; exact X | intros [X|(c0 & fa0 & X)]; [exact X | discriminate]]).
  split; [intros _; right; eexists _, _; reflexivity | reflexivity].
Qed.

(** ================================================================== Part C: no underflow of remaining(week) *)
(** ------------------------------------------------------------------ C.0 sums over the recorded users, with the user id *)
Definition usum (f : Z -> progress -> Z) (l : list (Z * progress)) : Z :=
  fold_right (fun up acc => f (fst up) (snd up) + acc) 0 l.

Definition f_old2 (f : Z -> progress -> Z) (u : Z) (op : option progress) : Z :=
  match op with Some p => f u p | None => 0 end.

Lemma psum_usum g l : WeeklyProofs.psum g l = usum (fun _ p => g p) l.
Proof. reflexivity. Qed.

Lemma usum_pset f l u pn : usum f (pset l u pn) = usum f l - f_old2 f u (pfind l u) + f u pn.
Proof.
  induction l as [|[u' p'] t IH]; simpl; [lia|].
  destruct (u' =? u) eqn:E; simpl; [apply Z.eqb_eq in E; subst; lia | rewrite IH; lia].
Qed.

Lemma usum_pdel f l u : NoDup (map fst l) -> usum f (pdel l u) = usum f l - f_old2 f u (pfind l u).
Proof.
  induction l as [|[u' p'] t IH]; simpl; intros Hnd; [lia|].
  inversion Hnd as [|? ? Hnin Hnd']; subst. unfold pdel in *. simpl.
  destruct (u' =? u) eqn:E; simpl.
  - apply Z.eqb_eq in E. subst u'. destruct (pfind_notin _ _ Hnin) as (_ & Hd). unfold pdel in Hd. rewrite Hd. lia.
  - rewrite IH by exact Hnd'. lia.
Qed.

Lemma usum_progress_after f l u cw cur : NoDup (map fst l) ->
  (en_amount cur = 0 -> f u (mkProg cur cw) = 0) ->
  usum f (progress_after l u cw cur) = usum f l - f_old2 f u (pfind l u) + f u (mkProg cur cw).
Proof.
  intros Hnd Hz. unfold progress_after. destruct (0 <? en_amount cur) eqn:E.
  - apply usum_pset.
  - apply Z.ltb_ge in E. pose proof (en_amount_nonneg cur). rewrite Hz by lia. rewrite usum_pdel by exact Hnd. lia.
Qed.

Lemma usum_le f g l : (forall up, In up l -> f (fst up) (snd up) <= g (fst up) (snd up)) -> usum f l <= usum g l.
Proof.
  induction l as [|up t IH]; simpl; intros Hfg; [lia|].
  specialize (Hfg up (or_introl eq_refl)) as H1. assert (usum f t <= usum g t) by (apply IH; intros; apply Hfg; right; assumption). lia.
Qed.

Lemma usum_nonneg f l : (forall up, In up l -> 0 <= f (fst up) (snd up)) -> 0 <= usum f l.
Proof.
  induction l as [|up t IH]; simpl; intros Hf; [lia|].
  specialize (Hf up (or_introl eq_refl)) as H1. assert (0 <= usum f t) by (apply IH; intros; apply Hf; right; assumption). lia.
Qed.

Lemma f_old2_le_usum f l u : (forall up, In up l -> 0 <= f (fst up) (snd up)) -> 0 <= f_old2 f u (pfind l u) <= usum f l.
Proof.
  intros Hf. destruct (pfind l u) as [p|] eqn:Ep; simpl; [|split; [lia | apply usum_nonneg; exact Hf]].
  apply pfind_in in Ep. split; [apply (Hf _ Ep)|].
  revert Ep. induction l as [|up t IH]; simpl; intros Hin; [destruct Hin|].
  pose proof (Hf up (or_introl eq_refl)) as H1.
  assert (Ht : 0 <= usum f t) by (apply usum_nonneg; intros; apply Hf; right; assumption).
  destruct Hin as [->|Hin]; [simpl; lia|].
  assert (f u p <= usum f t) by (apply IH; [intros; apply Hf; right; assumption | exact Hin]). lia.
Qed.

(** applying the same user's update twice at the same week keeps only the second *)
Lemma pfind_progress_after l u cw cur v :
  pfind (progress_after l u cw cur) v =
  if u =? v then (if 0 <? en_amount cur then Some (mkProg cur cw) else None) else pfind l v.
Proof.
  unfold progress_after. destruct (u =? v) eqn:E.
  - apply Z.eqb_eq in E. subst v. destruct (0 <? en_amount cur); [apply pfind_pset_same | apply pfind_pdel_same].
  - apply Z.eqb_neq in E. destruct (0 <? en_amount cur); [apply pfind_pset_other | apply pfind_pdel_other]; exact E.
Qed.

(** ------------------------------------------------------------------ C.1 farm side: user totals of everybody but the caller only go down *)
Definition utot_nn (f : farm) : Prop := forall v, 0 <= utot f v.

Lemma UT_nn f : MI f -> UT f -> utot_nn f.
Proof. intros M U v. rewrite U. apply W_nonneg. exact M. Qed.

Lemma pay_all_utot ps : forall f c f', pay_all f c ps = Ok f' ->
  f_utot f' = f_utot f /\ Forall (fun p : Z * Z => 0 < snd p) ps.
Proof.
  induction ps as [|[n x] t IH]; intros f c f' H; simpl in H; [inversion H; split; [reflexivity | constructor]|].
  bnd H f1 H1. destruct (IH _ _ _ H) as (A & B).
  unfold pay_in, debit_held in H1. bnd H1 f0 H0. destruct (0 <? x) eqn:Ex; [|discriminate]. apply Z.ltb_lt in Ex.
  bnd H0 b Hb. inversion H0; subst; clear H0. simpl in H1. bnd H1 o Ho. inversion H1; subst; clear H1. simpl in A.
  split; [exact A | constructor; [exact Ex | exact B]].
Qed.

Lemma decrease_user_le f n x f' : decrease_user f (n, x) = Ok f' -> 0 <= x -> utot_nn f ->
  (forall v, utot f' v <= utot f v) /\ utot_nn f'.
Proof.
  unfold decrease_user. intros H Hx Hnn. bnd H a Ha. inversion H; subst; clear H.
  assert (G : forall v, 0 <= utot (if x <? utot f (a_owner a) then set_utot f (a_owner a) (utot f (a_owner a) - x) else set_utot f (a_owner a) 0) v <= utot f v).
  { intros v. pose proof (Hnn v) as Hv. pose proof (Hnn (a_owner a)) as Ho.
    destruct (x <? utot f (a_owner a)) eqn:E; [apply Z.ltb_lt in E|];
      (destruct (Z.eq_dec (a_owner a) v) as [<-|Hne]; [rewrite utot_set_same; lia | rewrite utot_set_other by exact Hne; lia]). }
  split; intros v; apply G.
Qed.

Lemma check_update_le ps : forall f u f', check_update f u ps = Ok f' ->
  Forall (fun p : Z * Z => 0 < snd p) ps -> utot_nn f ->
  (forall v, v <> u -> utot f' v <= utot f v) /\ utot_nn f'.
Proof.
  induction ps as [|[n x] t IH]; intros f u f' H Hpos Hnn; simpl in H.
  - inversion H; subst. split; [intros; lia | exact Hnn].
  - inversion Hpos as [|? ? Hx Hpos']; subst. simpl in Hx. bnd H a Ha.
    destruct (a_owner a =? u); [apply (IH _ _ _ H Hpos' Hnn)|].
    bnd H f1 H1. destruct (decrease_user_le _ _ _ _ H1 ltac:(lia) Hnn) as (D1 & D2).
    assert (Hnn2 : utot_nn (increase_user f1 u x)).
    { intros v. unfold increase_user. pose proof (D2 v). pose proof (D2 u).
      destruct (Z.eq_dec u v) as [<-|Hne]; [rewrite utot_set_same; lia | rewrite utot_set_other by exact Hne; lia]. }
    destruct (IH _ _ _ H Hpos' Hnn2) as (I1 & I2). split; [|exact I2].
    intros v Hv. specialize (I1 v Hv). unfold increase_user in I1. rewrite utot_set_other in I1 by (intros E; apply Hv; symmetry; exact E).
    specialize (D1 v). lia.
Qed.

Lemma settle_toks f blk f' : settle f blk = Ok f' -> f_supply f' = f_supply f /\ f_utot f' = f_utot f.
Proof.
  unfold settle. destruct (blk <=? f_last f); [intros H; inversion H; split; reflexivity|]. cbv zeta.
  destruct ((if f_produce f then f_rate f * (blk - f_last f) else 0) =? 0); [intros H; inversion H; split; reflexivity|].
  intros H. bnd H inc Hi. inversion H; split; reflexivity.
Qed.

Lemma pay_reward_toks f r b f' : pay_reward f r b = Ok f' -> f_supply f' = f_supply f /\ f_utot f' = f_utot f.
Proof.
  intros H. destruct (pay_reward_spec _ _ _ _ H) as (_ & Ht & Hs & _). unfold toks in Ht.
  injection Ht as t1 t2 t3 t4 t5. split; assumption.
Qed.

(** the account whose total may grow *)
Definition fuser (fo : fop) : option Z :=
  match fo with
  | FEnter _ _ c _ _ _ | FClaim _ _ c _ _ _ | FCompound _ _ c _ _ _ | FExit _ _ c _ _ | FMerge _ _ c _ _ | FClaimBoosted _ _ c _ => Some c
  | _ => None
  end.

Lemma utot_eq f f' : f_utot f' = f_utot f -> forall v, utot f' v = utot f v.
Proof. intros E v. unfold utot. rewrite E. reflexivity. Qed.

Lemma fstep_utot f fo f' o : fstep f fo = Ok (f', o) -> utot_nn f ->
  forall v, fuser fo <> Some v -> utot f' v <= utot f v.
Proof.
  destruct fo; simpl; intros H Hnn v Hv0; try (assert (Hv : v <> c) by (intros ->; apply Hv0; reflexivity)).
  - (* enter *)
    unfold Farm.ep_enter in H. destruct (0 <? amt); [|discriminate].
    bnd H f0 H0. destruct (active f0); [|discriminate].
    bnd H f1 H1. bnd H f2 H2. bnd H f4 H4. bnd H m Hm.
    destruct (mint_pos _ m c) as [f6 n] eqn:Hmint. inversion H; subst; clear H.
    destruct (pay_reward_toks _ _ _ _ H0) as (_ & U0). destruct (pay_all_utot _ _ _ _ H1) as (U1 & Pos).
    assert (Hnn1 : utot_nn f1) by (intros x; rewrite (utot_eq _ _ U1), (utot_eq _ _ U0); apply Hnn).
    destruct (check_update_le _ _ _ _ H2 Pos Hnn1) as (C1 & _).
    destruct (settle_toks _ _ _ H4) as (_ & U4).
    unfold mint_pos in Hmint. inversion Hmint; subst; clear Hmint.
    unfold utot at 1. simpl. fold (utot f4 v). rewrite (utot_eq _ _ U4). unfold increase_user. rewrite utot_set_other by (intros E; apply Hv; symmetry; exact E).
    specialize (C1 v Hv). rewrite (utot_eq _ _ U1), (utot_eq _ _ U0) in C1. exact C1.
  - (* claim *)
    unfold Farm.ep_claim in H. destruct (active f); [|discriminate].
    bnd H f1 H1. bnd H f2 H2. bnd H a Ha. bnd H part Hp. bnd H base Hb. bnd H f3 H3. bnd H f4 H4. bnd H m Hm.
    destruct (mint_pos f4 m c) as [f5 n] eqn:Hmint. inversion H; subst; clear H.
    destruct (pay_all_utot _ _ _ _ H1) as (U1 & Pos). destruct (settle_toks _ _ _ H2) as (_ & U2).
    destruct (pay_reward_toks _ _ _ _ H3) as (_ & U3).
    assert (Hnn3 : utot_nn f3) by (intros x; rewrite (utot_eq _ _ U3), (utot_eq _ _ U2), (utot_eq _ _ U1); apply Hnn).
    destruct (check_update_le _ _ _ _ H4 Pos Hnn3) as (C1 & _).
    unfold mint_pos in Hmint. inversion Hmint; subst; clear Hmint.
    unfold utot at 1. simpl. fold (utot f4 v). specialize (C1 v Hv).
    rewrite (utot_eq _ _ U3), (utot_eq _ _ U2), (utot_eq _ _ U1) in C1. exact C1.
  - (* compound *)
    unfold Farm.ep_compound in H. destruct (active f); [|discriminate]. destruct (f_same f); [|discriminate].
    bnd H f1 H1. bnd H f2 H2. bnd H a Ha. bnd H part Hp. bnd H base Hb. bnd H f3 H3. bnd H f4 H4. bnd H m Hm.
    destruct (mint_pos f4 m c) as [f5 n] eqn:Hmint. inversion H; subst; clear H.
    destruct (pay_all_utot _ _ _ _ H1) as (U1 & Pos). destruct (settle_toks _ _ _ H2) as (_ & U2).
    destruct (pay_reward_toks _ _ _ _ H3) as (_ & U3).
    set (f3' := upd_core f3 (f_supply f3 + (base + b)) (f_reserve f3) (f_rps f3) (f_last f3)) in *.
    assert (Hnn3 : utot_nn f3') by (intros x; unfold f3', utot; simpl; fold (utot f3 x); rewrite (utot_eq _ _ U3), (utot_eq _ _ U2), (utot_eq _ _ U1); apply Hnn).
    destruct (check_update_le _ _ _ _ H4 Pos Hnn3) as (C1 & _).
    unfold mint_pos in Hmint. inversion Hmint; subst; clear Hmint.
    unfold increase_user. unfold utot at 1. simpl. rewrite aget_aset_other by (intros E; apply Hv; symmetry; exact E).
    fold (utot f4 v). specialize (C1 v Hv). unfold f3', utot at 2 in C1. simpl in C1. fold (utot f3 v) in C1.
    rewrite (utot_eq _ _ U3), (utot_eq _ _ U2), (utot_eq _ _ U1) in C1. exact C1.
  - (* exit *)
    unfold Farm.ep_exit in H. destruct (active f); [|discriminate].
    bnd H f1 H1. bnd H f2 H2. bnd H a Ha. bnd H part Hp. bnd H base Hb. bnd H f3 H3. bnd H f4 H4. bnd H sup Hs.
    bnd H age Hg. bnd H ou Ho. bnd H bal Hbl. inversion H; subst; clear H.
    destruct (pay_all_utot [p] f c f1) as (U1 & Pos); [simpl; rewrite H1; reflexivity|].
    destruct (settle_toks _ _ _ H2) as (_ & U2). destruct (pay_reward_toks _ _ _ _ H3) as (_ & U3).
    assert (Hnn3 : utot_nn f3) by (intros x; rewrite (utot_eq _ _ U3), (utot_eq _ _ U2), (utot_eq _ _ U1); apply Hnn).
    destruct p as [n x]. inversion Pos; subst. simpl in *.
    destruct (decrease_user_le _ _ _ _ H4 ltac:(lia) Hnn3) as (D1 & _).
    unfold utot at 1. simpl. fold (utot f4 v). specialize (D1 v).
    rewrite (utot_eq _ _ U3), (utot_eq _ _ U2), (utot_eq _ _ U1) in D1. exact D1.
  - (* merge *)
    unfold Farm.ep_merge in H. destruct (active f); [|discriminate]. destruct ps as [|first rest]; [discriminate|].
    bnd H f0 H0. bnd H f1 H1. bnd H f2 H2. bnd H a Ha. bnd H part Hp. bnd H m0 Hm.
    destruct (mint_pos f2 _ c) as [f3 n] eqn:Hmint. inversion H; subst; clear H.
    destruct (pay_reward_toks _ _ _ _ H0) as (_ & U0). destruct (pay_all_utot _ _ _ _ H1) as (U1 & Pos).
    assert (Hnn1 : utot_nn f1) by (intros x; rewrite (utot_eq _ _ U1), (utot_eq _ _ U0); apply Hnn).
    destruct (check_update_le _ _ _ _ H2 Pos Hnn1) as (C1 & _).
    unfold mint_pos in Hmint. inversion Hmint; subst; clear Hmint.
    unfold utot at 1. simpl. fold (utot f2 v). specialize (C1 v Hv). rewrite (utot_eq _ _ U1), (utot_eq _ _ U0) in C1. exact C1.
  - (* claimBoosted *)
    unfold Farm.ep_claim_boosted in H. destruct (negb (utot f c =? 0)); [|discriminate]. destruct (active f); [|discriminate].
    bnd H f1 H1. bnd H f2 H2. inversion H; subst; clear H.
    destruct (settle_toks _ _ _ H1) as (_ & U1). destruct (pay_reward_toks _ _ _ _ H2) as (_ & U2).
    rewrite (utot_eq _ _ U2), (utot_eq _ _ U1). lia.
  - unfold Farm.ep_transfer, debit_held in H. bnd H f1 H1. destruct (0 <? amt); [|discriminate]. bnd H1 b Hb.
    inversion H1; subst; clear H1. inversion H; subst. unfold utot; simpl. lia.
  - destruct (Farm.admin c); [|discriminate]. destruct (negb (r =? 0) && (0 <=? r)); [|discriminate].
    bnd H f1 H1. inversion H; subst. destruct (settle_toks _ _ _ H1) as (_ & U1). unfold utot; simpl. rewrite U1. lia.
  - destruct (Farm.admin c); [|discriminate]. destruct (negb (f_rate f =? 0)); [|discriminate]. destruct (negb (f_produce f)); [|discriminate].
    inversion H; subst. unfold utot; simpl. lia.
  - destruct (Farm.admin c); [|discriminate].
    bnd H f1 H1. inversion H; subst. destruct (settle_toks _ _ _ H1) as (_ & U1). unfold utot; simpl. rewrite U1. lia.
  - destruct (Farm.admin c); [|discriminate]. destruct ((0 <=? p) && (p <=? MAXP)); [|discriminate].
    bnd H f1 H1. inversion H; subst. destruct (settle_toks _ _ _ H1) as (_ & U1). unfold utot; simpl. rewrite U1. lia.
  - destruct (Farm.admin c); [|discriminate]. inversion H; subst. unfold utot; simpl. lia.
  - destruct (Farm.admin c); [|discriminate]. destruct ((st =? ST_Active) || (st =? ST_Inactive)); [|discriminate].
    inversion H; subst. unfold utot; simpl. lia.
  - destruct (Farm.admin c); [|discriminate]. destruct ((0 <=? e) && (e <=? FARM_MAX_MINIMUM_FARMING_EPOCHS)); [|discriminate].
    inversion H; subst. unfold utot; simpl. lia.
  - destruct (Farm.admin c); [|discriminate]. destruct ((0 <=? p) && (p <? MAXP)); [|discriminate].
    inversion H; subst. unfold utot; simpl. lia.
  - destruct (0 <? amt); [|discriminate]. inversion H; subst. unfold utot; simpl. lia.
Qed.

(** ------------------------------------------------------------------ C.2 the totals of distinct users add up to at most the supply *)
Definition cnt (f : farm) (l : list (Z * progress)) (n : Z) : Z := usum (fun u _ => ind f u n) l.

Lemma usum_cons f u p t : usum f ((u, p) :: t) = f u p + usum f t.
Proof. reflexivity. Qed.

Lemma cnt_zero f l n : ~ In (owner_of f n) (map fst l) -> cnt f l n = 0.
Proof.
  unfold cnt. induction l as [|[u p] t IH]; intros Hn; [reflexivity|]. rewrite usum_cons. simpl in Hn.
  rewrite IH by (intros Hi; apply Hn; right; exact Hi). unfold ind.
  destruct (owner_of f n =? u) eqn:E; [apply Z.eqb_eq in E; exfalso; apply Hn; left; symmetry; exact E | reflexivity].
Qed.

Lemma cnt_le1 f l n : NoDup (map fst l) -> 0 <= cnt f l n <= 1.
Proof.
  unfold cnt. induction l as [|[u p] t IH]; intros Hnd; [simpl; lia|]. rewrite usum_cons. simpl in Hnd.
  inversion Hnd as [|? ? Hnin Hnd']; subst. specialize (IH Hnd').
  assert (Hi : ind f u n = if owner_of f n =? u then 1 else 0) by reflexivity. rewrite Hi.
  destruct (owner_of f n =? u) eqn:E; [|lia]. apply Z.eqb_eq in E.
  fold (cnt f t n). rewrite cnt_zero by (rewrite E; exact Hnin). lia.
Qed.

Lemma wsum_le w w' l : all_nonneg l -> (forall k, w k <= w' k) -> FarmInv.wsum w l <= FarmInv.wsum w' l.
Proof.
  intros NN Hle.
  assert (E : FarmInv.wsum w' l = FarmInv.wsum w l + FarmInv.wsum (fun k => w' k - w k) l).
  { rewrite <- FarmInv.wsum_add. apply FarmInv.wsum_ext. intros; lia. }
  rewrite E. assert (0 <= FarmInv.wsum (fun k => w' k - w k) l) by (apply FarmInv.wsum_nonneg; [exact NN | intros k _; specialize (Hle k); lia]). lia.
Qed.

Lemma users_within_supply f l : MI f -> UT f -> NoDup (map fst l) ->
  usum (fun u _ => utot f u) l <= asum (f_out f).
Proof.
  intros M U Hnd. pose proof M as [_ (_ & _ & NN & _) _ _ _ _ _].
  assert (E : usum (fun u _ => utot f u) l = FarmInv.wsum (cnt f l) (f_out f)).
  { clear Hnd. induction l as [|[u p] t IH].
    - unfold cnt; simpl. rewrite FarmInv.wsum_const. lia.
    - rewrite usum_cons, IH, U. rewrite <- FarmInv.wsum_add. apply FarmInv.wsum_ext. intros k _. reflexivity. }
  rewrite E, FarmInv.asum_wsum. apply wsum_le; [exact NN|]. intros k. apply cnt_le1. exact Hnd.
Qed.

(** ------------------------------------------------------------------ C.3 what one operation does to the module's weekly state *)
(** energy of the recorded users that can still claim week [wk] (WeeklyProofs.owed_at), and their positions *)
Definition owedE (w : wstate) (wk : Z) : Z := WeeklyProofs.psum (owed_at wk) (w_prog w).
Definition owedF (f : farm) (w : wstate) (wk : Z) : Z :=
  usum (fun u p => if pr_week p <=? wk then utot f u else 0) (w_prog w).
Definition En (w : wstate) (wk : Z) : Z := aget (w_energy w) wk.

(** a user touch at week [cw]: the user's progress is replaced (or dropped), the global update ran *)
Definition touch (cw u : Z) (w w' : wstate) : Prop :=
  exists cur, 0 <= en_tok cur /\
    w_prog w' = progress_after (w_prog w) u cw cur /\ w_last w' = cw /\
    (forall wk, wk <> cw -> En w' wk = En w wk \/ En w' wk = 0) /\
    WInv w'.


Lemma uue_energy s cw cur op s1 : update_user_energy s cw cur op = Ok s1 ->
  forall wk, wk <> cw -> En s1 wk = En s wk \/ En s1 wk = 0.
Proof.
  intros Hu wk Hw. unfold En. destruct (update_user_energy_frame _ _ _ _ _ Hu) as (_ & _ & He & _).
  destruct (Z.eq_dec wk (cleared_week cw)) as [->|Hc]; [|left; apply He; assumption].
  destruct (update_user_energy_cleared _ _ _ _ _ Hu) as [(E1 & _)|(E1 & _)]; [left | right]; exact E1.
Qed.

Lemma claim_boosted_touch h w u pos cw cur h' w' det :
  claim_boosted h w u pos cw cur = Ok (h', w', det) -> bh_cfg h <> None ->
  WInv w -> w_last w <= cw -> 1 <= cw -> 0 <= en_tok cur -> touch cw u w w'.
Proof.
  intros Hc Hcfg Hinv Hle Hcw Ht.
  assert (Hwf : forall p, pfind (w_prog w) u = Some p -> 0 <= en_tok (pr_en p)).
  { intros p Hp. apply pfind_in in Hp. destruct Hinv as ((_ & Hall) & _). rewrite Forall_forall in Hall. apply (Hall _ Hp). }
  destruct (claim_boosted_summary _ _ _ _ _ _ _ _ _ Hwf Hc) as [(Hn & _)|(c & cfg & s1 & _ & _ & Hue & Hpa & Hl & Hen & _)]; [contradiction|].
  exists cur. split; [exact Ht|]. split; [exact Hpa|]. split; [exact Hl|].
  split; [intros wk Hw; unfold En; rewrite Hen; apply (uue_energy _ _ _ _ _ Hue wk Hw)|].
  unfold claim_boosted in Hc. bnd Hc oc Hoc. destruct oc as [cfg'|].
  - apply (claim_multi_inv bhost _ (hook_sbr pos cfg' cw) _ _ _ _ _ _ _ _ Hinv Hle Hcw Ht Hc).
  - exfalso. unfold try_get_cfg in Hoc. destruct (bh_cfg h); [bnd Hoc c' Hu'; discriminate | contradiction].
Qed.

Lemma uep_touch w u cw cur w' : update_energy_and_progress w u cw cur = Ok w' ->
  WInv w -> w_last w <= cw -> 1 <= cw -> 0 <= en_tok cur -> touch cw u w w'.
Proof.
  intros Hu Hinv Hle Hcw Ht. destruct (uep_spec _ _ _ _ _ Hu) as (U1 & U2 & _).
  exists cur. split; [exact Ht|]. split; [exact U1|]. split; [exact U2|].
  split; [|apply (update_energy_and_progress_inv _ _ _ _ _ Hinv Hle Hcw Ht Hu)].
  unfold update_energy_and_progress in Hu. bnd Hu s1 Hue. inversion Hu; subst.
  intros wk Hw. unfold En. rewrite store_progress_energy. apply (uue_energy _ _ _ _ _ Hue wk Hw).
Qed.

Lemma clear_touch w u cw ep rem mn w' : clear_user_energy w u cw ep rem mn = Ok w' ->
  WInv w -> w_last w <= cw -> 1 <= cw -> w' = w \/ touch cw u w w'.
Proof.
  unfold clear_user_energy. intros Hc Hinv Hle Hcw. destruct (mn <=? rem); [inversion Hc; left; reflexivity|]. right.
  bnd Hc s1 Hue. inversion Hc; subst; clear Hc.
  assert (Ht : 0 <= en_tok (en_zero ep)) by (simpl; lia).
  destruct (update_user_energy_spec w cw u (en_zero ep) Hinv Hle Hcw Ht) as (s2 & Hue' & Hpr & Hl & Hlast).
  rewrite Hue in Hue'. inversion Hue'; subst s2.
  assert (Hpa : progress_after (w_prog w) u cw (en_zero ep) = pdel (w_prog w) u) by reflexivity.
  exists (en_zero ep). split; [exact Ht|]. simpl w_prog. rewrite Hpr. split; [symmetry; exact Hpa|]. split; [exact Hlast|].
  split; [intros wk Hw; unfold En; simpl; apply (uue_energy _ _ _ _ _ Hue wk Hw)|].
  rewrite Hpa in Hl. unfold WInv. simpl w_prog. unfold WInvL, zero_maps in *. simpl. exact Hl.
Qed.

(** ------------------------------------------------------------------ C.4 the energy side of the invariant *)
Record EInv (cw : Z) (w : wstate) (ue : Z -> Z) : Prop := mkEI {
  e_w : WInv w;
  e_last : w_last w <= cw;
  e_nn : forall wk, 0 <= En w wk;
  e_fut : forall wk, w_last w < wk -> En w wk = 0;
  e_ue0 : forall wk, 0 <= ue wk;
  e_uefut : forall wk, w_last w <= wk -> ue wk = 0;
  e_EI : forall wk, wk < w_last w -> En w wk = 0 \/ ue wk + owedE w wk <= En w wk
}.

Lemma WInv_energy w : WInv w -> En w (w_last w) = WeeklyProofs.psum (fun p => energy_at p (w_last w)) (w_prog w).
Proof. intros (_ & (_ & _ & _ & _ & HE) & _). exact HE. Qed.

Lemma owedE_last w : WInv w -> owedE w (w_last w) = En w (w_last w).
Proof.
  intros Hinv. rewrite (WInv_energy _ Hinv). unfold owedE. apply psum_ext. intros [u p] Hin. simpl.
  destruct Hinv as ((_ & Hall) & _). rewrite Forall_forall in Hall. destruct (Hall _ Hin) as (_ & Hw). simpl in Hw.
  unfold owed_at. assert (E : (pr_week p <=? w_last w) = true) by (apply Z.leb_le; exact Hw). rewrite E. reflexivity.
Qed.

(** before the touch: every completed week satisfies the energy inequality (the last globally updated week with equality) *)
Lemma EInv_base cw w ue : EInv cw w ue ->
  forall wk, wk < cw -> En w wk = 0 \/ ue wk + owedE w wk <= En w wk.
Proof.
  intros I wk Hw. destruct (Z_lt_le_dec wk (w_last w)) as [H1|H1]; [apply (e_EI _ _ _ I); exact H1|].
  destruct (Z.eq_dec wk (w_last w)) as [->|H2].
  - right. rewrite (e_uefut _ _ _ I) by lia. rewrite owedE_last by (apply (e_w _ _ _ I)). lia.
  - left. apply (e_fut _ _ _ I). lia.
Qed.

Lemma touch_EInv cw u w w' ue (y : Z -> Z) : EInv cw w ue -> 1 <= cw -> touch cw u w w' ->
  (forall wk, 0 <= y wk <= f_old (owed_at wk) (pfind (w_prog w) u)) -> (forall wk, cw <= wk -> y wk = 0) ->
  EInv cw w' (fun wk => ue wk + y wk).
Proof.
  intros I Hcw (cur & Ht & Hpa & Hl & Hen & Hinv') Hy Hyfut.
  pose proof (e_last _ _ _ I) as Hle.
  assert (Hnd : NoDup (map fst (w_prog w))) by (destruct (e_w _ _ _ I) as ((X & _) & _); exact X).
  constructor.
  - exact Hinv'.
  - lia.
  - intros wk. destruct (Z.eq_dec wk cw) as [->|Hne].
    + rewrite <- Hl. rewrite (WInv_energy _ Hinv'). apply psum_nonneg. intros. apply energy_at_nonneg.
    + destruct (Hen wk Hne) as [-> | ->]; [apply (e_nn _ _ _ I) | lia].
  - intros wk Hw. rewrite Hl in Hw. destruct (Hen wk ltac:(lia)) as [-> | ->]; [apply (e_fut _ _ _ I); lia | reflexivity].
  - intros wk. pose proof (e_ue0 _ _ _ I wk). destruct (Hy wk). lia.
  - intros wk Hw. rewrite Hl in Hw. rewrite (e_uefut _ _ _ I) by lia. rewrite Hyfut by lia. lia.
  - intros wk Hw. rewrite Hl in Hw.
    destruct (Hen wk ltac:(lia)) as [E1 | E1]; [|left; exact E1]. rewrite E1.
    destruct (EInv_base _ _ _ I wk Hw) as [Hz|Hb]; [left; exact Hz|]. right.
    assert (Ho : owedE w' wk = owedE w wk - f_old (owed_at wk) (pfind (w_prog w) u)).
    { unfold owedE. rewrite Hpa, psum_progress_after.
      - unfold owed_at at 3. simpl. assert (Ef : (cw <=? wk) = false) by (apply Z.leb_gt; lia). rewrite Ef. lia.
      - exact Hnd.
      - intros _. unfold owed_at. simpl. assert (Ef : (cw <=? wk) = false) by (apply Z.leb_gt; lia). rewrite Ef. reflexivity. }
    rewrite Ho. destruct (Hy wk). lia.
Qed.

Lemma EInv_advance cw cw' w ue : cw <= cw' -> EInv cw w ue -> EInv cw' w ue.
Proof. intros Hle I. constructor; try apply I. pose proof (e_last _ _ _ I). lia. Qed.

(** supply moves only in enterFarm / exitFarm / compoundRewards *)
Lemma fstep_supply_same f fo f' o : fstep f fo = Ok (f', o) ->
  match fo with FEnter _ _ _ _ _ _ | FExit _ _ _ _ _ | FCompound _ _ _ _ _ _ | FClaim _ _ _ _ _ _ | FClaimBoosted _ _ _ _ => True
           | _ => f_supply f' = f_supply f end.
Proof.
  destruct fo; simpl; intros H; try exact I.
  - unfold Farm.ep_merge in H. destruct (active f); [|discriminate]. destruct ps as [|first rest]; [discriminate|].
    bnd H f0 H0. bnd H f1 H1. bnd H f2 H2. bnd H a Ha. bnd H part Hp. bnd H m0 Hm.
    destruct (mint_pos f2 _ c) as [f3 n] eqn:Hmint. inversion H; subst; clear H.
    destruct (pay_reward_toks _ _ _ _ H0) as (S0 & _).
    assert (S1 : f_supply f1 = f_supply f0).
    { clear - H1. revert f0 H1. induction (first :: rest) as [|p t IH]; intros f0 H1; simpl in H1; [inversion H1; reflexivity|].
      bnd H1 fx Hx. rewrite (IH _ H1). unfold pay_in, debit_held in Hx. destruct p as [n x]. bnd Hx fy Hy. destruct (0 <? x); [|discriminate].
      bnd Hy b Hb. inversion Hy; subst. simpl in Hx. bnd Hx o Ho. inversion Hx; subst. reflexivity. }
    destruct (check_update_only _ _ _ _ H2) as ((Hc & _) & _). unfold core in Hc. injection Hc as c1 c2 c3 c4.
    unfold mint_pos in Hmint. inversion Hmint; subst. simpl. congruence.
  - unfold Farm.ep_transfer, debit_held in H. bnd H f1 H1. destruct (0 <? amt); [|discriminate]. bnd H1 b Hb.
    inversion H1; subst; clear H1. inversion H; subst. reflexivity.
  - destruct (Farm.admin c); [|discriminate]. destruct (negb (r =? 0) && (0 <=? r)); [|discriminate].
    bnd H f1 H1. inversion H; subst. destruct (settle_toks _ _ _ H1) as (S1 & _). exact S1.
  - destruct (Farm.admin c); [|discriminate]. destruct (negb (f_rate f =? 0)); [|discriminate]. destruct (negb (f_produce f)); [|discriminate].
    inversion H; subst. reflexivity.
  - destruct (Farm.admin c); [|discriminate]. bnd H f1 H1. inversion H; subst. destruct (settle_toks _ _ _ H1) as (S1 & _). exact S1.
  - destruct (Farm.admin c); [|discriminate]. destruct ((0 <=? p) && (p <=? MAXP)); [|discriminate].
    bnd H f1 H1. inversion H; subst. destruct (settle_toks _ _ _ H1) as (S1 & _). exact S1.
  - destruct (Farm.admin c); [|discriminate]. inversion H; subst. reflexivity.
  - destruct (Farm.admin c); [|discriminate]. destruct ((st =? ST_Active) || (st =? ST_Inactive)); [|discriminate]. inversion H; subst. reflexivity.
  - destruct (Farm.admin c); [|discriminate]. destruct ((0 <=? e) && (e <=? FARM_MAX_MINIMUM_FARMING_EPOCHS)); [|discriminate]. inversion H; subst. reflexivity.
  - destruct (Farm.admin c); [|discriminate]. destruct ((0 <=? p) && (p <? MAXP)); [|discriminate]. inversion H; subst. reflexivity.
  - destruct (0 <? amt); [|discriminate]. inversion H; subst. reflexivity.
Qed.

(** ------------------------------------------------------------------ C.5 the position side *)
Definition pendF (f : farm) (wk : Z) (u : Z) (p : progress) : Z := if pr_week p <=? wk then utot f u else 0.

Lemma owedF_usum f w wk : owedF f w wk = usum (pendF f wk) (w_prog w).
Proof. reflexivity. Qed.

Lemma pendF_nonneg f wk u p : utot_nn f -> 0 <= pendF f wk u p.
Proof. intros Hnn. unfold pendF. destruct (pr_week p <=? wk); [apply Hnn | lia]. Qed.

Lemma touch_owedF cw u w w' f wk : touch cw u w w' -> NoDup (map fst (w_prog w)) -> wk < cw ->
  owedF f w' wk = owedF f w wk - f_old2 (pendF f wk) u (pfind (w_prog w) u).
Proof.
  intros (cur & _ & Hpa & _) Hnd Hw. rewrite !owedF_usum, Hpa, usum_progress_after.
  - unfold pendF at 3. simpl. assert (Ef : (cw <=? wk) = false) by (apply Z.leb_gt; lia). rewrite Ef. lia.
  - exact Hnd.
  - intros _. unfold pendF. simpl. assert (Ef : (cw <=? wk) = false) by (apply Z.leb_gt; lia). rewrite Ef. reflexivity.
Qed.

Lemma owedF_mono f f' w wk :
  (forall v p, In (v, p) (w_prog w) -> pr_week p <= wk -> utot f' v <= utot f v) -> owedF f' w wk <= owedF f w wk.
Proof.
  intros H. rewrite !owedF_usum. apply usum_le. intros [v p] Hin. simpl. unfold pendF.
  destruct (pr_week p <=? wk) eqn:E; [apply Z.leb_le in E; apply (H v p Hin E) | lia].
Qed.

Lemma pfind_of_in l u p : NoDup (map fst l) -> In (u, p) l -> pfind l u = Some p.
Proof.
  induction l as [|[u' p'] t IH]; simpl; intros Hnd Hin; [destruct Hin|].
  inversion Hnd as [|? ? Hnin Hnd']; subst.
  destruct Hin as [E|Hin]; [inversion E; subst; rewrite Z.eqb_refl; reflexivity|].
  destruct (u' =? u) eqn:E; [|apply IH; assumption].
  apply Z.eqb_eq in E. subst u'. exfalso. apply Hnin. apply (in_map fst) in Hin. exact Hin.
Qed.

(** after a touch at [cw] the touched user cannot claim any completed week *)
Lemma touch_not_pending cw u w w' p : touch cw u w w' -> In (u, p) (w_prog w') -> pr_week p = cw.
Proof.
  intros (cur & _ & Hpa & _ & _ & Hinv') Hin.
  assert (Hnd : NoDup (map fst (w_prog w'))) by (destruct Hinv' as ((X & _) & _); exact X).
  pose proof (pfind_of_in _ _ _ Hnd Hin) as Hf. rewrite Hpa, pfind_progress_after, Z.eqb_refl in Hf.
  destruct (0 <? en_amount cur); inversion Hf; reflexivity.
Qed.

(** ------------------------------------------------------------------ C.6 ghost of the closed run *)
Record xg := mkXG {
  xg_b : bghost;                 (* the module's ledger (BoostedProofs): cuts, payments, sweeps per week, accepted factors *)
  xg_ue : list (Z * Z);          (* week -> sum of the energies the settlements of that week's pool were computed with *)
  xg_uf : list (Z * Z)           (* week -> sum of the positions they were computed with *)
}.
Definition xg0 : xg := mkXG bg0 [] [].
Definition uE (g : xg) (wk : Z) : Z := aget (xg_ue g) wk.
Definition uF (g : xg) (wk : Z) : Z := aget (xg_uf g) wk.

Definition claim_user (op : xop) : option Z :=
  match op with
  | XEnter c _ _ _ | XClaim c _ _ _ | XCompound c _ _ _ | XExit c _ _ | XMerge c _ _ | XClaimBoosted c _ => Some c
  | _ => None
  end.

Definition wk_entries (g : Z -> Z) (det : list (Z * list (Z * Z))) : list (Z * Z) := map (fun wr => (fst wr, g (fst wr))) det.

Definition used_e (s : xstate) (op : xop) (det : list (Z * list (Z * Z))) : list (Z * Z) :=
  match claim_user op with
  | Some u => match pfind (w_prog (b_w (x_b s))) u with Some p => wk_entries (energy_at p) det | None => [] end
  | None => []
  end.
Definition used_f (s : xstate) (op : xop) (det : list (Z * list (Z * Z))) : list (Z * Z) :=
  match claim_user op with Some u => wk_entries (fun _ => utot (x_f s) u) det | None => [] end.

Definition xgupd (s : xstate) (g : xg) (op : xop) (s' : xstate) (out : xout) : xg :=
  mkXG (match bop_of s op (f_supply (x_f s')) (utot (x_f s') (caller_of op)) with
        | Some bo => gupd (xg_b g) bo (bcur_week (x_b s)) (xo_m out)
        | None => xg_b g
        end)
       (add_all (xg_ue g) (used_e s op (o_det (xo_m out))))
       (add_all (xg_uf g) (used_f s op (o_det (xo_m out)))).

Definition xgstep (sg : xstate * xg) (op : xop) : xstate * xg :=
  match full_step (fst sg) op with
  | Ok (s', out) => (s', xgupd (fst sg) (snd sg) op s' out)
  | Err _ => sg
  end.
Definition xgrun (sg : xstate * xg) (ops : list xop) : xstate * xg := fold_left xgstep ops sg.

Lemma xgrun_fst ops : forall s g, fst (xgrun (s, g) ops) = full_run s ops.
Proof.
  unfold xgrun, full_run. induction ops as [|op t IH]; intros s g; simpl; [reflexivity|].
  unfold xgstep at 2, full_step_total at 2. simpl. destruct (full_step s op) as [[s' o]|]; apply IH.
Qed.

Lemma psum_at_entries (g : Z -> Z) det wk : NoDup (map fst det) ->
  psum_at (wk_entries g det) wk = if in_dec Z.eq_dec wk (map fst det) then g wk else 0.
Proof.
  unfold wk_entries. induction det as [|[k r] t IH]; simpl; intros Hnd; [reflexivity|].
  inversion Hnd as [|? ? Hnin Hnd']; subst. rewrite IH by exact Hnd'.
  destruct (k =? wk) eqn:E.
  - apply Z.eqb_eq in E. subst k. destruct (in_dec Z.eq_dec wk (map fst t)) as [Hi|Hi]; [contradiction|].
    destruct (Z.eq_dec wk wk); [lia | congruence].
  - apply Z.eqb_neq in E. destruct (Z.eq_dec k wk) as [Ek|Ek]; [congruence|].
    destruct (in_dec Z.eq_dec wk (map fst t)); lia.
Qed.

(** ------------------------------------------------------------------ C.7 what one module operation does, as far as the invariant looks *)
Definition Fw (b : bst) (wk : Z) : Z := aget (bh_sup (b_h b)) wk.

Lemma claim_sup h w u pos cw cur h' w' det :
  (forall p, pfind (w_prog w) u = Some p -> 0 <= en_tok (pr_en p)) ->
  claim_boosted h w u pos cw cur = Ok (h', w', det) -> bh_sup h' = bh_sup h.
Proof.
  intros Hwf Hc. destruct (claim_boosted_summary _ _ _ _ _ _ _ _ _ Hwf Hc) as
    [(_ & -> & _)|(c & cfg & s1 & _ & _ & _ & _ & _ & _ & _ & (_ & S2 & _))]; [reflexivity | exact S2].
Qed.

Lemma slice_sup h cw full h' b cut : take_reward_slice h cw full = Ok (h', b, cut) -> bh_sup h' = bh_sup h.
Proof. intros Ht. apply (slice_rel_of _ _ _ _ _ _ Ht). Qed.

Lemma step_sup s g op s' out : BoostedProofs.BInv s g -> step s op = Ok (s', out) ->
  match op with
  | BEnter _ _ _ _ _ sp | BClaim _ _ _ _ _ sp | BCompound _ _ _ _ _ sp | BExit _ _ _ _ _ _ sp | BClaimBoosted _ _ _ _ _ sp =>
      bh_sup (b_h s') = aset (bh_sup (b_h s)) (bcur_week s) sp
  | _ => bh_sup (b_h s') = bh_sup (b_h s)
  end.
Proof.
  intros Hi Hs.
  assert (Hcl : forall h u pos cw cur h' w' det, claim_boosted h (b_w s) u pos cw cur = Ok (h', w', det) -> bh_sup h' = bh_sup h).
  { intros h u pos cw cur h' w' det Hc. apply (claim_sup _ _ _ _ _ _ _ _ _ (fun p Hp => BInv_wfp _ _ _ _ Hi Hp) Hc). }
  destruct op; simpl in Hs.
  - unfold ep_advance in Hs. destruct (0 <=? n); [|discriminate]. inversion Hs; reflexivity.
  - unfold Boosted.ep_enter in Hs. destruct pre; [|discriminate]. destruct (wf_in _ _ _ _); [|discriminate].
    bnd Hs cw Hcw. destruct (current_week_b _ _ Hcw) as (-> & _).
    bnd Hs x1 Hc. destruct x1 as [[h1 w1] det]. bnd Hs x2 Ht. destruct x2 as [[h2 bs] cut]. bnd Hs w2 Hu.
    inversion Hs; subst; simpl. rewrite (slice_sup _ _ _ _ _ _ Ht), (Hcl _ _ _ _ _ _ _ _ Hc). reflexivity.
  - unfold Boosted.ep_claim in Hs. destruct pre; [|discriminate]. destruct (wf_in _ _ _ _); [|discriminate].
    bnd Hs cw Hcw. destruct (current_week_b _ _ Hcw) as (-> & _).
    bnd Hs x2 Ht. destruct x2 as [[h2 bs] cut]. bnd Hs x1 Hc. destruct x1 as [[h1 w1] det].
    inversion Hs; subst; simpl. rewrite (Hcl _ _ _ _ _ _ _ _ Hc), (slice_sup _ _ _ _ _ _ Ht). reflexivity.
  - unfold Boosted.ep_compound in Hs. destruct pre; [|discriminate]. destruct (wf_in _ _ _ _); [|discriminate].
    bnd Hs cw Hcw. destruct (current_week_b _ _ Hcw) as (-> & _).
    bnd Hs x2 Ht. destruct x2 as [[h2 bs] cut]. bnd Hs x1 Hc. destruct x1 as [[h1 w1] det]. bnd Hs w2 Hu.
    inversion Hs; subst; simpl. rewrite (Hcl _ _ _ _ _ _ _ _ Hc), (slice_sup _ _ _ _ _ _ Ht). reflexivity.
  - unfold Boosted.ep_exit in Hs. destruct pre; [|discriminate]. destruct (wf_in _ _ _ _ && _); [|discriminate].
    bnd Hs cw Hcw. destruct (current_week_b _ _ Hcw) as (-> & _).
    bnd Hs x2 Ht. destruct x2 as [[h2 bs] cut]. bnd Hs x1 Hc. destruct x1 as [[h1 w1] det]. bnd Hs w2 Hu.
    inversion Hs; subst; simpl. rewrite (Hcl _ _ _ _ _ _ _ _ Hc), (slice_sup _ _ _ _ _ _ Ht). reflexivity.
  - unfold Boosted.ep_merge in Hs. destruct pre; [|discriminate]. destruct (wf_in _ _ _ _); [|discriminate].
    bnd Hs cw Hcw. bnd Hs x1 Hc. destruct x1 as [[h1 w1] det].
    inversion Hs; subst; simpl. apply (Hcl _ _ _ _ _ _ _ _ Hc).
  - unfold Boosted.ep_claim_boosted in Hs. destruct pre; [|discriminate]. destruct (wf_in _ _ _ _); [|discriminate].
    destruct (negb (pos =? 0)); [|discriminate].
    bnd Hs cw Hcw. destruct (current_week_b _ _ Hcw) as (-> & _).
    bnd Hs x2 Ht. destruct x2 as [[h2 bs] cut]. bnd Hs x1 Hc. destruct x1 as [[h1 w1] det].
    inversion Hs; subst; simpl. rewrite (Hcl _ _ _ _ _ _ _ _ Hc), (slice_sup _ _ _ _ _ _ Ht). reflexivity.
  - unfold ep_settle in Hs. destruct pre; [|discriminate]. destruct (0 <=? full); [|discriminate].
    bnd Hs cw Hcw. bnd Hs x2 Ht. destruct x2 as [[h2 bs] cut]. inversion Hs; subst; simpl. apply (slice_sup _ _ _ _ _ _ Ht).
  - unfold ep_set_pct in Hs. destruct (Boosted.admin c); [|discriminate]. destruct ((0 <=? p) && (p <=? BOOSTED_MAX_PERCENT)); [|discriminate].
    destruct (0 <=? full); [|discriminate].
    bnd Hs cw Hcw. bnd Hs x2 Ht. destruct x2 as [[h2 bs] cut]. inversion Hs; subst; simpl. apply (slice_sup _ _ _ _ _ _ Ht).
  - unfold ep_set_factors in Hs. destruct (Boosted.admin c); [|discriminate].
    destruct ((0 <=? fa_max f) && (0 <=? fa_ce f) && (0 <=? fa_cf f)); [|discriminate].
    destruct ((0 <? fa_mine f) && (0 <? fa_minf f)); [|discriminate].
    destruct ((0 <? fa_ce f) || (0 <? fa_cf f)); [|discriminate].
    bnd Hs cw Hcw. bnd Hs c' Hu. inversion Hs; subst; simpl. reflexivity.
  - destruct (collect_char _ _ _ _ Hs) as (_ & _ & _ & _ & _ & _ & T & _). exact T.
  - unfold ep_update_energy in Hs. destruct (0 <=? en_tok cur); [|discriminate].
    bnd Hs cw Hcw. bnd Hs w' Hu. inversion Hs; subst; simpl. reflexivity.
Qed.

(** the weekly state after a settlement of user [u]: (no config: untouched) the claim's touch, then possibly the
    endpoint's own second touch (update_energy_and_progress / clear_user_energy) *)
Lemma user_step_decomp s g op s' out u cur pos :
  BoostedProofs.BInv s g -> WInv (b_w s) -> w_last (b_w s) <= bcur_week s ->
  step s op = Ok (s', out) -> claim_of op = Some (u, cur, pos) ->
  let cw := bcur_week s in
  exists w1,
    (bh_cfg (b_h s) = None -> w1 = b_w s /\ o_det out = []) /\
    (bh_cfg (b_h s) <> None -> touch cw u (b_w s) w1) /\
    (b_w s' = w1 \/ touch cw u w1 (b_w s')).
Proof.
  intros Hi Hinv Hle Hs Hc cw.
  pose proof Hi as (Htime & Hpos & _).
  (* the claim itself, on a module storage with the same config presence *)
  assert (Hcl : forall h w1 h1 det, (bh_cfg h = None <-> bh_cfg (b_h s) = None) ->
            0 <= en_tok cur -> claim_boosted h (b_w s) u pos cw cur = Ok (h1, w1, det) ->
            (bh_cfg (b_h s) = None -> w1 = b_w s /\ det = []) /\
            (bh_cfg (b_h s) <> None -> touch cw u (b_w s) w1) /\ WInv w1 /\ w_last w1 <= cw).
  { intros h w1 h1 det Hcfg Ht Hcb. destruct (bh_cfg (b_h s)) eqn:Ec.
    - assert (Hn : bh_cfg h <> None) by (intros X; apply Hcfg in X; discriminate).
      pose proof (claim_boosted_touch _ _ _ _ _ _ _ _ _ Hcb Hn Hinv Hle Hpos Ht) as T.
      split; [intros X; discriminate|]. split; [intros _; exact T|].
      destruct T as (c0 & _ & _ & Hl & _ & Hw). split; [exact Hw | lia].
    - assert (Hn : bh_cfg h = None) by (apply Hcfg; reflexivity).
      unfold claim_boosted, try_get_cfg in Hcb. rewrite Hn in Hcb. simpl in Hcb. inversion Hcb; subst.
      split; [intros _; split; reflexivity|]. split; [intros X; contradiction|]. split; [exact Hinv | exact Hle]. }
  assert (Hsl : forall h full h2 b cut, take_reward_slice h cw full = Ok (h2, b, cut) -> (bh_cfg h2 = None <-> bh_cfg h = None)).
  { intros h full h2 b cut Ht. destruct (slice_rel_of _ _ _ _ _ _ Ht) as (_ & _ & E & _). rewrite E. tauto. }
  destruct op; try discriminate; simpl in Hc; inversion Hc; subst; clear Hc; simpl in Hs.
  - (* enter *)
    unfold Boosted.ep_enter in Hs. destruct pre; [|discriminate]. destruct (wf_in _ _ _ _) eqn:Ew; [|discriminate].
    apply wf_in_ok in Ew. destruct Ew as (W1 & _).
    bnd Hs cw0 Hcw. destruct (current_week_b _ _ Hcw) as (-> & _). fold cw in Hs.
    bnd Hs x1 Hcb. destruct x1 as [[h1 w1] det]. bnd Hs x2 Ht. destruct x2 as [[h2 bs] cut]. bnd Hs w2 Hu.
    inversion Hs; subst; clear Hs. simpl.
    destruct (Hcl _ _ _ _ (iff_refl _) W1 Hcb) as (C1 & C2 & C3 & C4).
    exists w1. split; [exact C1|]. split; [exact C2|]. right. apply (uep_touch _ _ _ _ _ Hu C3 C4 Hpos W1).
  - (* claim *)
    unfold Boosted.ep_claim in Hs. destruct pre; [|discriminate]. destruct (wf_in _ _ _ _) eqn:Ew; [|discriminate].
    apply wf_in_ok in Ew. destruct Ew as (W1 & _).
    bnd Hs cw0 Hcw. destruct (current_week_b _ _ Hcw) as (-> & _). fold cw in Hs.
    bnd Hs x2 Ht. destruct x2 as [[h2 bs] cut]. bnd Hs x1 Hcb. destruct x1 as [[h1 w1] det].
    inversion Hs; subst; clear Hs. simpl.
    destruct (Hcl _ _ _ _ (Hsl _ _ _ _ _ Ht) W1 Hcb) as (C1 & C2 & C3 & C4).
    exists w1. split; [exact C1|]. split; [exact C2|]. left. reflexivity.
  - (* compound *)
    unfold Boosted.ep_compound in Hs. destruct pre; [|discriminate]. destruct (wf_in _ _ _ _) eqn:Ew; [|discriminate].
    apply wf_in_ok in Ew. destruct Ew as (W1 & _).
    bnd Hs cw0 Hcw. destruct (current_week_b _ _ Hcw) as (-> & _). fold cw in Hs.
    bnd Hs x2 Ht. destruct x2 as [[h2 bs] cut]. bnd Hs x1 Hcb. destruct x1 as [[h1 w1] det]. bnd Hs w2 Hu.
    inversion Hs; subst; clear Hs. simpl.
    destruct (Hcl _ _ _ _ (Hsl _ _ _ _ _ Ht) W1 Hcb) as (C1 & C2 & C3 & C4).
    exists w1. split; [exact C1|]. split; [exact C2|]. right. apply (uep_touch _ _ _ _ _ Hu C3 C4 Hpos W1).
  - (* exit *)
    unfold Boosted.ep_exit in Hs. destruct pre; [|discriminate]. destruct (wf_in _ _ _ _ && _) eqn:Ew; [|discriminate].
    apply andb_true_iff in Ew. destruct Ew as (Ew & _). apply wf_in_ok in Ew. destruct Ew as (W1 & _).
    bnd Hs cw0 Hcw. destruct (current_week_b _ _ Hcw) as (-> & _). fold cw in Hs.
    bnd Hs x2 Ht. destruct x2 as [[h2 bs] cut]. bnd Hs x1 Hcb. destruct x1 as [[h1 w1] det]. bnd Hs w2 Hu.
    inversion Hs; subst; clear Hs. simpl.
    destruct (Hcl _ _ _ _ (Hsl _ _ _ _ _ Ht) W1 Hcb) as (C1 & C2 & C3 & C4).
    exists w1. split; [exact C1|]. split; [exact C2|].
    unfold clear_if_needed in Hu. bnd Hu oc Hoc. destruct oc as [cfg|]; [|inversion Hu; left; reflexivity].
    destruct (clear_touch _ _ _ _ _ _ _ Hu C3 C4 Hpos) as [->|T]; [left; reflexivity | right; exact T].
  - (* merge *)
    unfold Boosted.ep_merge in Hs. destruct pre; [|discriminate]. destruct (wf_in _ _ _ _) eqn:Ew; [|discriminate].
    apply wf_in_ok in Ew. destruct Ew as (W1 & _).
    bnd Hs cw0 Hcw. destruct (current_week_b _ _ Hcw) as (-> & _). fold cw in Hs.
    bnd Hs x1 Hcb. destruct x1 as [[h1 w1] det].
    inversion Hs; subst; clear Hs. simpl.
    destruct (Hcl _ _ _ _ (iff_refl _) W1 Hcb) as (C1 & C2 & C3 & C4).
    exists w1. split; [exact C1|]. split; [exact C2|]. left. reflexivity.
  - (* claimBoosted *)
    unfold Boosted.ep_claim_boosted in Hs. destruct pre; [|discriminate]. destruct (wf_in _ _ _ _) eqn:Ew; [|discriminate].
    apply wf_in_ok in Ew. destruct Ew as (W1 & _). destruct (negb (pos =? 0)); [|discriminate].
    bnd Hs cw0 Hcw. destruct (current_week_b _ _ Hcw) as (-> & _). fold cw in Hs.
    bnd Hs x2 Ht. destruct x2 as [[h2 bs] cut]. bnd Hs x1 Hcb. destruct x1 as [[h1 w1] det].
    inversion Hs; subst; clear Hs. simpl.
    destruct (Hcl _ _ _ _ (Hsl _ _ _ _ _ Ht) W1 Hcb) as (C1 & C2 & C3 & C4).
    exists w1. split; [exact C1|]. split; [exact C2|]. left. reflexivity.
Qed.

(** ------------------------------------------------------------------ C.8 what a settlement pays for a week, against the week's totals *)
Definition fw (gb : bghost) (wk : Z) : factors :=
  match g_fac gb with Some (f0, log) => fac_at f0 log wk | None => fac0 end.

Lemma fw_ok gb wk : FOK (g_fac gb) -> 0 <= fa_ce (fw gb wk) /\ 0 <= fa_cf (fw gb wk).
Proof.
  unfold fw, FOK. destruct (g_fac gb) as [[f0 log]|]; [|simpl; lia].
  intros (H0 & Hl). destruct (fac_at_ok log f0 wk H0 Hl) as (A & B & _). split; assumption.
Qed.

Lemma wpaid_in det wk r : NoDup (map fst det) -> In (wk, r) det -> wpaid det wk = rsum r.
Proof.
  induction det as [|[k r0] t IH]; simpl; intros Hnd Hin; [destruct Hin|].
  inversion Hnd as [|? ? Hnin Hnd']; subst. destruct Hin as [E|Hin].
  - inversion E; subst. rewrite Z.eqb_refl. rewrite wpaid_notin by exact Hnin. lia.
  - assert (Hne : k <> wk) by (intros ->; apply Hnin; apply (in_map fst) in Hin; exact Hin).
    destruct (k =? wk) eqn:E; [apply Z.eqb_eq in E; contradiction|]. rewrite (IH Hnd' Hin). lia.
Qed.

(** the share bound of the formula alone (whatever the cap does): three floor divisions, cross-multiplied *)
Lemma share_bound ce cf R f F e E :
  0 < F -> 0 < E -> 0 < ce + cf -> 0 <= ce -> 0 <= cf -> 0 <= R -> 0 <= f -> 0 <= e ->
  let b := (R * ce * e / E + R * cf * f / F) / (ce + cf) in
  0 <= b /\ b * ((ce + cf) * E * F) <= R * (ce * e * F + cf * f * E).
Proof.
  intros HF HE Hc Hce Hcf HR Hf He b. unfold b.
  set (be := R * ce * e / E). set (bt := R * cf * f / F). set (q := (be + bt) / (ce + cf)).
  assert (Hbe : be * E <= R * ce * e) by (apply div_lo; exact HE).
  assert (Hbt : bt * F <= R * cf * f) by (apply div_lo; exact HF).
  assert (Hq : q * (ce + cf) <= be + bt) by (apply div_lo; exact Hc).
  assert (Hbe0 : 0 <= be) by (apply div_nonneg; [nia | exact HE]).
  assert (Hbt0 : 0 <= bt) by (apply div_nonneg; [nia | exact HF]).
  assert (Hq0 : 0 <= q) by (apply div_nonneg; [lia | exact Hc]).
  clearbody be bt q. split; [exact Hq0|].
  assert (K1 : be * E * F <= R * ce * e * F) by (apply Z.mul_le_mono_nonneg_r; lia).
  assert (K2 : bt * F * E <= R * cf * f * E) by (apply Z.mul_le_mono_nonneg_r; lia).
  assert (K3 : q * (ce + cf) * (E * F) <= (be + bt) * (E * F)) by (apply Z.mul_le_mono_nonneg_r; nia).
  nia.
Qed.

Lemma gcuts_nonneg cw h rw g wk : MInv cw h rw g -> 0 <= gcuts g wk.
Proof.
  intros M. rewrite (m_week _ _ _ _ M wk). destruct (m_nn _ _ _ _ M wk). destruct (m_gnn _ _ _ _ M wk). lia.
Qed.

Lemma claim_week_bound s g op s' out u cur pos :
  BoostedProofs.BInv s g -> FOK (g_fac g) -> step s op = Ok (s', out) -> claim_of op = Some (u, cur, pos) ->
  (forall wk, 0 <= En (b_w s) wk) -> (forall wk, 0 <= Fw s wk) ->
  let cw := bcur_week s in let det := o_det out in
  0 <= pos /\ NoDup (map fst det) /\
  (det = [] \/ exists p, pfind (w_prog (b_w s)) u = Some p /\ bh_cfg (b_h s) <> None /\
                         map fst det = claim_range p cw /\ pr_week p <= cw) /\
  forall wk, In wk (map fst det) ->
    exists p, pfind (w_prog (b_w s)) u = Some p /\ pr_week p <= wk < cw /\
      let fa := fw g wk in
      0 <= wpaid det wk /\
      wpaid det wk * ((fa_ce fa + fa_cf fa) * En (b_w s) wk * Fw s wk) <=
      gcuts g wk * (fa_ce fa * energy_at p wk * Fw s wk + fa_cf fa * pos * En (b_w s) wk).
Proof.
  intros Hi Hfok Hs Hc HE0 HF0 cw det.
  destruct (step_claim_decomp _ _ _ _ _ _ _ Hs Hc) as (_ & _ & _ & _ & Hpos & _).
  pose proof Hi as (_ & _ & HT & HC & HM & _). fold cw in HT, HC, HM.
  destruct (step_formula _ _ _ _ _ _ _ _ Hi Hs Hc) as [(Hd & _)|(p & c & cfg & Hp & Hcfg & Hu & Hmap & Hw)].
  - unfold det. rewrite Hd. split; [exact Hpos|]. split; [constructor|]. split; [left; reflexivity | intros wk []].
  - fold cw in Hu, Hmap, Hw. unfold view_progress in Hp.
    assert (Hle : pr_week p <= cw) by (apply (T_find _ _ _ _ HT Hp)).
    assert (Hnd : NoDup (map fst det)) by (unfold det; rewrite Hmap; apply zseq_nodup).
    split; [exact Hpos|]. split; [exact Hnd|].
    split; [right; exists p; split; [exact Hp|]; split; [rewrite Hcfg; discriminate|]; split; [exact Hmap | exact Hle]|].
    intros wk Hin. exists p. split; [exact Hp|].
    apply in_map_iff in Hin. destruct Hin as ([wk0 r] & Hf & Hin). simpl in Hf. subst wk0.
    destruct (Hw wk r Hin) as (W1 & W2 & W3). split; [lia|]. cbv zeta.
    rewrite (wpaid_in _ _ _ Hnd Hin).
    destruct (fw_ok g wk Hfok) as (Hce & Hcf).
    pose proof (gcuts_nonneg _ _ _ _ wk HM) as HR0. pose proof (energy_at_nonneg p wk) as He0.
    specialize (HE0 wk). specialize (HF0 wk).
    assert (Hzero : rsum [] = 0) by reflexivity.
    assert (Hrhs : 0 <= gcuts g wk * (fa_ce (fw g wk) * energy_at p wk * Fw s wk + fa_cf (fw g wk) * pos * En (b_w s) wk)) by nia.
    unfold week_payment in W3. fold (En (b_w s) wk) in W3. change (view_sup s wk) with (Fw s wk) in W3.
    unfold view_total_energy in W3. fold (En (b_w s) wk) in W3.
    destruct W3 as [(_ & ->)|(fa & N1 & N2 & Hfa & [(_ & ->)|(G1 & G2 & R & HR' & HR1 & HR2 & Hpay)])]; try (rewrite Hzero; split; lia).
    (* the factors and the pool are the ghost's *)
    assert (Hfw : fa = fw g wk /\ 0 < fa_ce fa + fa_cf fa).
    { unfold CI in HC. rewrite Hcfg in HC. unfold fw. destruct (g_fac g) as [[f0 log]|] eqn:Eg; [|contradiction].
      destruct HC as (Hci & _). destruct (cfg_update_inv _ _ _ _ _ _ Hci Hu) as (_ & _ & Hci').
      destruct (get_factors_spec cfg f0 log wk Hci') as (_ & Hg2). destruct (Hg2 fa Hfa) as (_ & ->).
      split; [reflexivity|]. unfold FOK in Hfok. destruct Hfok as (H0 & Hl).
      apply (fac_at_ok log f0 wk H0 Hl). }
    destruct Hfw as (-> & Hcpos).
    assert (HRg : R = gcuts g wk).
    { destruct (view_total_rewards s wk) as [|x l] eqn:Erw.
      - rewrite (HR1 eq_refl). unfold view_acc. fold (acc_ (b_h s) wk).
        assert (Erw' : rw_ (b_w s) wk = []) by exact Erw.
        destruct (m_win _ _ _ _ HM wk (proj1 W2) Erw') as (M1 & M2).
        destruct (m_window_unswept _ _ _ _ wk HM (proj1 W2)) as (M3 & _).
        rewrite (m_week _ _ _ _ HM wk). lia.
      - assert (Hne : rw_ (b_w s) wk <> []) by (unfold rw_, view_total_rewards in *; rewrite Erw; discriminate).
        destruct (m_frozen _ _ _ _ HM wk Hne) as (F1 & _).
        assert (HR2' := HR2 ltac:(discriminate)). unfold rw_ in F1. unfold view_total_rewards in Erw. rewrite Erw in F1.
        rewrite F1 in HR2'. inversion HR2'. reflexivity. }
    subst R.
    destruct Hpay as [(_ & ->)|(HRn & _ & Hx)]; [rewrite Hzero; split; lia|].
    assert (HE : 0 < En (b_w s) wk) by lia. assert (HF : 0 < Fw s wk) by lia.
    destruct (share_bound (fa_ce (fw g wk)) (fa_cf (fw g wk)) (gcuts g wk) pos (Fw s wk) (energy_at p wk) (En (b_w s) wk)
                HF HE Hcpos Hce Hcf HR0 Hpos He0) as (Hb0 & Hb).
    cbv zeta in Hx, Hb, Hb0.
    set (bq := (gcuts g wk * fa_ce (fw g wk) * energy_at p wk / En (b_w s) wk + gcuts g wk * fa_cf (fw g wk) * pos / Fw s wk) /
               (fa_ce (fw g wk) + fa_cf (fw g wk))) in *.
    set (aq := fa_max (fw g wk) * gcuts g wk * pos / Fw s wk) in *. clearbody bq aq.
    destruct Hx as [(_ & ->)|(Hxp & ->)]; [rewrite Hzero; split; lia|].
    simpl rsum. rewrite Z.add_0_r. split; [lia|].
    assert (Hmin : Z.min aq bq <= bq) by lia.
    assert (HK : 0 <= (fa_ce (fw g wk) + fa_cf (fw g wk)) * En (b_w s) wk * Fw s wk) by nia.
    eapply Z.le_trans; [apply Z.mul_le_mono_nonneg_r; [exact HK | exact Hmin] | exact Hb].
Qed.

(** ------------------------------------------------------------------ C.9 the invariant *)
Definition PIw (b : bst) (g : xg) (wk : Z) : Prop :=
  let fa := fw (xg_b g) wk in
  gpaid (xg_b g) wk * ((fa_ce fa + fa_cf fa) * En (b_w b) wk * Fw b wk) <=
  gcuts (xg_b g) wk * (fa_ce fa * uE g wk * Fw b wk + fa_cf fa * uF g wk * En (b_w b) wk).

Record NU (s : xstate) (g : xg) : Prop := mkNU {
  nu_e : EInv (bcur_week (x_b s)) (b_w (x_b s)) (uE g);
  nu_uf0 : forall wk, 0 <= uF g wk;
  nu_uffut : forall wk, bcur_week (x_b s) <= wk -> uF g wk = 0;
  nu_sup : Fw (x_b s) (bcur_week (x_b s)) = 0 \/ Fw (x_b s) (bcur_week (x_b s)) = f_supply (x_f s);
  nu_supfut : forall wk, bcur_week (x_b s) < wk -> Fw (x_b s) wk = 0;
  nu_supnn : forall wk, 0 <= Fw (x_b s) wk;
  nu_FI : forall wk, wk < bcur_week (x_b s) ->
     Fw (x_b s) wk = 0 \/ gcuts (xg_b g) wk = 0 \/ uF g wk + owedF (x_f s) (b_w (x_b s)) wk <= Fw (x_b s) wk;
  nu_PI : forall wk, wk < bcur_week (x_b s) -> PIw (x_b s) g wk;
  nu_nocfg : bh_cfg (b_h (x_b s)) = None -> forall wk, gcuts (xg_b g) wk = 0;
  nu_fok : FOK (g_fac (xg_b g))
}.

Record XInv (s : xstate) (g : xg) : Prop := mkXI {
  xi_farm : FarmOK (x_f s);
  xi_ut : UT (x_f s) /\ AttrFresh (x_f s);
  xi_mod : BoostedProofs.BInv (x_b s) (xg_b g);
  xi_link : LK s;
  xi_nu : NU s g
}.

Lemma gupd_cuts g bo cw out wk : gcuts (gupd g bo cw out) wk = gcuts g wk + (if cw =? wk then o_cut out else 0).
Proof. unfold gcuts, gupd; simpl. apply aget_add_at. Qed.
Lemma gupd_paid g bo cw out wk : gpaid (gupd g bo cw out) wk = gpaid g wk + wpaid (o_det out) wk.
Proof. unfold gpaid, gupd; simpl. rewrite aget_add_all, psum_det. reflexivity. Qed.

Lemma psum_at_nil wk : psum_at [] wk = 0.
Proof. reflexivity. Qed.

(** energy, positions of the recorded users in the running week: within the week's totals *)
Lemma owedF_le_supply f w wk : FarmAcc f -> UT f -> NoDup (map fst (w_prog w)) -> owedF f w wk <= f_supply f.
Proof.
  intros A U Hnd. pose proof A as [M Hout _]. rewrite <- Hout.
  eapply Z.le_trans; [|apply (users_within_supply f (w_prog w) M U Hnd)].
  rewrite owedF_usum. apply usum_le. intros [v p] _. simpl. unfold pendF.
  pose proof (UT_nn f M U v). destruct (pr_week p <=? wk); lia.
Qed.

Lemma fw_same_fac g g' wk : g_fac g' = g_fac g -> fw g' wk = fw g wk.
Proof. unfold fw. intros ->. reflexivity. Qed.

(** the payment inequality survives when the week's total energy is dropped (it left the claim window) *)
Lemma PIw_transfer b b' g g' wk :
  PIw b g wk ->
  (En (b_w b') wk = En (b_w b) wk \/ En (b_w b') wk = 0) -> Fw b' wk = Fw b wk ->
  gpaid (xg_b g') wk = gpaid (xg_b g) wk -> gcuts (xg_b g') wk = gcuts (xg_b g) wk ->
  uE g' wk = uE g wk -> uF g' wk = uF g wk -> fw (xg_b g') wk = fw (xg_b g) wk ->
  0 <= gcuts (xg_b g) wk -> 0 <= uE g wk -> 0 <= uF g wk -> 0 <= Fw b wk ->
  0 <= fa_ce (fw (xg_b g) wk) -> 0 <= fa_cf (fw (xg_b g) wk) ->
  PIw b' g' wk.
Proof.
  unfold PIw. intros H HE HF Hp Hc Hue Huf Hfw G0 U0 U1 F0 C0 C1. cbv zeta in *.
  rewrite HF, Hp, Hc, Hue, Huf, Hfw. destruct HE as [-> | ->]; [exact H|].
  set (ce := fa_ce (fw (xg_b g) wk)) in *. set (cf := fa_cf (fw (xg_b g) wk)) in *.
  replace (gpaid (xg_b g) wk * ((ce + cf) * 0 * Fw b wk)) with 0 by ring.
  replace (ce * uE g wk * Fw b wk + cf * uF g wk * 0) with (ce * uE g wk * Fw b wk) by ring.
  assert (0 <= ce * uE g wk * Fw b wk) by nia. nia.
Qed.

(** ------------------------------------------------------------------ the clock moves *)
Lemma nu_time s g dblk dep s' out :
  XInv s g -> full_step s (XTime dblk dep) = Ok (s', out) -> NU s' (xgupd s g (XTime dblk dep) s' out).
Proof.
  intros [K (U & _) Hi L N] H.
  destruct (full_step_farm _ _ _ _ H) as (Ef & _). simpl in Ef.
  pose proof (full_step_module _ _ _ _ H) as Hb. simpl in Hb. destruct Hb as (Hb & _).
  unfold Boosted.ep_advance in Hb. destruct (0 <=? dep) eqn:En0; [|discriminate]. apply Z.leb_le in En0.
  injection Hb as Eb Eo. set (cw := bcur_week (x_b s)) in *.
  assert (Hcw : cw <= bcur_week (x_b s')).
  { rewrite <- Eb. unfold cw, bcur_week; simpl. pose proof week_pos.
    pose proof (Z.div_le_mono (b_epoch (x_b s) - b_first (x_b s)) (b_epoch (x_b s) + dep - b_first (x_b s)) WK). lia. }
  assert (Ew : b_w (x_b s') = b_w (x_b s)) by (rewrite <- Eb; reflexivity).
  assert (Eh : b_h (x_b s') = b_h (x_b s)) by (rewrite <- Eb; reflexivity).
  assert (EF : forall wk, Fw (x_b s') wk = Fw (x_b s) wk) by (intros; unfold Fw; rewrite Eh; reflexivity).
  set (g' := xgupd s g (XTime dblk dep) s' out).
  assert (Gc : forall wk, gcuts (xg_b g') wk = gcuts (xg_b g) wk).
  { intros wk. unfold g', xgupd. simpl. rewrite gupd_cuts, <- Eo. simpl. destruct (_ =? _); lia. }
  assert (Gp : forall wk, gpaid (xg_b g') wk = gpaid (xg_b g) wk).
  { intros wk. unfold g', xgupd. simpl. rewrite gupd_paid, <- Eo. simpl. lia. }
  assert (Gf : g_fac (xg_b g') = g_fac (xg_b g)) by reflexivity.
  assert (Ge : forall wk, uE g' wk = uE g wk) by reflexivity.
  assert (Gu : forall wk, uF g' wk = uF g wk) by reflexivity.
  pose proof Hi as (_ & _ & (HT1 & _) & _ & HM & _). fold cw in HT1, HM.
  pose proof max_weeks_nonneg as HMX.
  assert (Hnd : NoDup (map fst (w_prog (b_w (x_b s))))) by (destruct (e_w _ _ _ (nu_e _ _ N)) as ((X & _) & _); exact X).
  destruct K as (A & _).
  constructor.
  - rewrite Ew. apply (EInv_advance cw); [exact Hcw|]. apply N.
  - intros wk. rewrite Gu. apply N.
  - intros wk Hw. rewrite Gu. apply (nu_uffut _ _ N). fold cw. lia.
  - rewrite EF, Ef. destruct (Z.eq_dec (bcur_week (x_b s')) cw) as [->|Hne]; [apply N|].
    left. apply (nu_supfut _ _ N). fold cw. lia.
  - intros wk Hw. rewrite EF. apply (nu_supfut _ _ N). fold cw. lia.
  - intros wk. rewrite EF. apply N.
  - intros wk Hw. rewrite EF, Gc, Gu, Ef, Ew.
    destruct (Z_lt_le_dec wk cw) as [H1|H1]; [apply (nu_FI _ _ N); exact H1|].
    destruct (Z.eq_dec wk cw) as [->|H2]; [|left; apply (nu_supfut _ _ N); fold cw; lia].
    destruct (nu_sup _ _ N) as [Z0|Es]; [left; exact Z0|]. right. right. fold cw in Es.
    rewrite (nu_uffut _ _ N) by (fold cw; lia). rewrite Es. pose proof (owedF_le_supply _ (b_w (x_b s)) cw A U Hnd). lia.
  - intros wk Hw.
    destruct (Z_lt_le_dec wk cw) as [H1|H1].
    + apply (PIw_transfer (x_b s) (x_b s') g g' wk (nu_PI _ _ N wk H1)).
      * left. rewrite Ew. reflexivity.
      * apply EF.
      * apply Gp.
      * apply Gc.
      * apply Ge.
      * apply Gu.
      * apply fw_same_fac. exact Gf.
      * apply (gcuts_nonneg _ _ _ _ wk HM).
      * apply (e_ue0 _ _ _ (nu_e _ _ N)).
      * apply (nu_uf0 _ _ N).
      * apply (nu_supnn _ _ N).
      * apply (fw_ok _ _ (nu_fok _ _ N)).
      * apply (fw_ok _ _ (nu_fok _ _ N)).
    + (* a week that was running or still in the future: nothing paid for it yet *)
      unfold PIw. cbv zeta. rewrite Gp, Gc, Ge, Gu, (fw_same_fac _ _ wk Gf), EF, Ew.
      assert (P0 : gpaid (xg_b g) wk = 0).
      { assert (Hrw : rw_ (b_w (x_b s)) wk = []).
        { destruct (rw_ (b_w (x_b s)) wk) as [|x l] eqn:E; [reflexivity|]. assert (Hne : rw_ (b_w (x_b s)) wk <> []) by (rewrite E; discriminate).
          pose proof (m_fut _ _ _ _ HM wk Hne). lia. }
        apply (m_win _ _ _ _ HM wk ltac:(lia) Hrw). }
      rewrite P0. pose proof (gcuts_nonneg _ _ _ _ wk HM). pose proof (e_ue0 _ _ _ (nu_e _ _ N) wk). pose proof (nu_uf0 _ _ N wk).
      pose proof (nu_supnn _ _ N wk). pose proof (e_nn _ _ _ (nu_e _ _ N) wk). destruct (fw_ok _ wk (nu_fok _ _ N)). nia.
  - intros Hc wk. rewrite Gc. rewrite Eh in Hc. apply (nu_nocfg _ _ N Hc).
  - rewrite Gf. apply N.
Qed.

Lemma EInv_ext cw w ue ue' : (forall wk, ue' wk = ue wk) -> EInv cw w ue -> EInv cw w ue'.
Proof.
  intros E I. constructor; try apply I; intros wk; rewrite ?E.
  - apply (e_ue0 _ _ _ I).
  - apply (e_uefut _ _ _ I).
  - apply (e_EI _ _ _ I).
Qed.

(** ------------------------------------------------------------------ operations that leave the weekly state alone *)
Lemma nu_quiet_gen s g s' g' (cut : Z) :
  XInv s g ->
  let cw := bcur_week (x_b s) in
  bcur_week (x_b s') = cw -> b_w (x_b s') = b_w (x_b s) -> bh_sup (b_h (x_b s')) = bh_sup (b_h (x_b s)) ->
  (forall v, utot (x_f s') v <= utot (x_f s) v) -> f_supply (x_f s') = f_supply (x_f s) ->
  0 <= cut -> (bh_cfg (b_h (x_b s)) = None -> cut = 0) ->
  (forall wk, gcuts (xg_b g') wk = gcuts (xg_b g) wk + (if cw =? wk then cut else 0)) ->
  (forall wk, gpaid (xg_b g') wk = gpaid (xg_b g) wk) ->
  (forall wk, uE g' wk = uE g wk) -> (forall wk, uF g' wk = uF g wk) ->
  (forall wk, wk < cw -> fw (xg_b g') wk = fw (xg_b g) wk \/ gpaid (xg_b g) wk = 0) ->
  (bh_cfg (b_h (x_b s')) = None -> bh_cfg (b_h (x_b s)) = None) ->
  FOK (g_fac (xg_b g')) ->
  NU s' g'.
Proof.
  intros [K (U & _) Hi L N] cw Ecw Ew Es Hut Hsup Hcut Hcut0 Gc Gp Ge Gu Hfw Hcfg Hfok.
  assert (EF : forall wk, Fw (x_b s') wk = Fw (x_b s) wk) by (intros; unfold Fw; rewrite Es; reflexivity).
  pose proof Hi as (_ & _ & _ & _ & HM & _). fold cw in HM.
  constructor.
  - rewrite Ecw, Ew. apply (EInv_ext _ _ (uE g)); [exact Ge | apply N].
  - intros wk. rewrite Gu. apply N.
  - intros wk Hw. rewrite Gu. apply (nu_uffut _ _ N). fold cw. lia.
  - rewrite Ecw, EF, Hsup. apply N.
  - intros wk Hw. rewrite EF. apply (nu_supfut _ _ N). fold cw. lia.
  - intros wk. rewrite EF. apply N.
  - intros wk Hw. rewrite Ecw in Hw. rewrite EF, Gc, Gu, Ew.
    assert (Ec : (cw =? wk) = false) by (apply Z.eqb_neq; lia). rewrite Ec, Z.add_0_r.
    destruct (nu_FI _ _ N wk Hw) as [H1|[H1|H1]]; [left; exact H1 | right; left; exact H1 | right; right].
    assert (owedF (x_f s') (b_w (x_b s)) wk <= owedF (x_f s) (b_w (x_b s)) wk) by (apply owedF_mono; intros; apply Hut). lia.
  - intros wk Hw. rewrite Ecw in Hw.
    assert (Ec : (cw =? wk) = false) by (apply Z.eqb_neq; lia).
    destruct (Hfw wk Hw) as [Hf|P0].
    + apply (PIw_transfer (x_b s) (x_b s') g g' wk (nu_PI _ _ N wk Hw)).
      * left. rewrite Ew. reflexivity.
      * apply EF.
      * apply Gp.
      * rewrite Gc, Ec. lia.
      * apply Ge.
      * apply Gu.
      * exact Hf.
      * apply (gcuts_nonneg _ _ _ _ wk HM).
      * apply (e_ue0 _ _ _ (nu_e _ _ N)).
      * apply (nu_uf0 _ _ N).
      * apply (nu_supnn _ _ N).
      * apply (fw_ok _ _ (nu_fok _ _ N)).
      * apply (fw_ok _ _ (nu_fok _ _ N)).
    + unfold PIw. cbv zeta. rewrite Gp, P0, Gc, Ec, Z.add_0_r, Ge, Gu, EF, Ew.
      pose proof (gcuts_nonneg _ _ _ _ wk HM). pose proof (e_ue0 _ _ _ (nu_e _ _ N) wk). pose proof (nu_uf0 _ _ N wk).
      pose proof (nu_supnn _ _ N wk). pose proof (e_nn _ _ _ (nu_e _ _ N) wk). destruct (fw_ok _ wk Hfok). nia.
  - intros Hc wk. specialize (Hcfg Hc). rewrite Gc, (nu_nocfg _ _ N Hcfg), (Hcut0 Hcfg). destruct (_ =? _); lia.
  - exact Hfok.
Qed.

Definition quiet_b (bo : bop) : bool :=
  match bo with BSettle _ _ | BSetPct _ _ _ | BSetFactors _ _ | BCollect _ => true | _ => false end.

Lemma step_quiet_w s bo s' out : step s bo = Ok (s', out) -> quiet_b bo = true -> b_w s' = b_w s.
Proof.
  destruct bo; try discriminate; simpl; intros Hs _.
  - unfold ep_settle in Hs. destruct pre; [|discriminate]. destruct (0 <=? full); [|discriminate].
    bnd Hs cw Hcw. bnd Hs x2 Ht. destruct x2 as [[h2 bs] cut]. inversion Hs; reflexivity.
  - unfold ep_set_pct in Hs. destruct (Boosted.admin c); [|discriminate]. destruct ((0 <=? p) && (p <=? BOOSTED_MAX_PERCENT)); [|discriminate].
    destruct (0 <=? full); [|discriminate].
    bnd Hs cw Hcw. bnd Hs x2 Ht. destruct x2 as [[h2 bs] cut]. inversion Hs; reflexivity.
  - unfold ep_set_factors in Hs. destruct (Boosted.admin c); [|discriminate].
    destruct ((0 <=? fa_max f) && (0 <=? fa_ce f) && (0 <=? fa_cf f)); [|discriminate].
    destruct ((0 <? fa_mine f) && (0 <? fa_minf f)); [|discriminate].
    destruct ((0 <? fa_ce f) || (0 <? fa_cf f)); [|discriminate].
    bnd Hs cw Hcw. bnd Hs c' Hu. inversion Hs; reflexivity.
  - destruct (collect_char _ _ _ _ Hs) as (_ & _ & _ & T & _). exact T.
Qed.

Lemma gpaid_zero_nocuts cw h rw g wk : MInv cw h rw g -> gcuts g wk = 0 -> gpaid g wk = 0.
Proof.
  intros M Hc. rewrite (m_week _ _ _ _ M wk) in Hc. destruct (m_nn _ _ _ _ M wk). destruct (m_gnn _ _ _ _ M wk). lia.
Qed.

Lemma expected_cut_nocfg b full : bh_cfg (b_h b) = None -> expected_cut b full = 0.
Proof. unfold expected_cut. intros ->. rewrite orb_true_r. reflexivity. Qed.

(** a quiet module operation, whatever non-user farm operation goes with it *)
Lemma nu_quiet_module s g op s' out bo :
  XInv s g -> full_step s op = Ok (s', out) ->
  bop_of s op (f_supply (x_f s')) (utot (x_f s') (caller_of op)) = Some bo -> quiet_b bo = true -> claim_user op = None ->
  (forall v, utot (x_f s') v <= utot (x_f s) v) -> f_supply (x_f s') = f_supply (x_f s) ->
  NU s' (xgupd s g op s' out).
Proof.
  intros X H Eb Hq Hcu Hut Hsup. pose proof X as [K (U & _) Hi L N].
  pose proof (full_step_module _ _ _ _ H) as Hb. rewrite Eb in Hb. destruct Hb as (Hb & Hob).
  assert (Hna : forall n, bo <> BAdvance n) by (intros n ->; discriminate).
  assert (Hnc : claim_of bo = None) by (destruct bo; try discriminate; reflexivity).
  destruct (step_noclaim _ _ _ _ Hb Hnc) as (Hdet & _).
  destruct (step_cut _ _ _ _ _ Hi Hb) as (Hc0 & Hcv).
  pose proof Hi as (_ & _ & _ & _ & HM & _).
  apply (nu_quiet_gen s g s' _ (o_cut (xo_m out)) X).
  - apply (proj2 (step_week _ _ _ _ Hb) Hna).
  - apply (step_quiet_w _ _ _ _ Hb Hq).
  - pose proof (step_sup _ _ _ _ _ Hi Hb) as Hs. destruct bo; try discriminate; exact Hs.
  - exact Hut.
  - exact Hsup.
  - exact Hc0.
  - intros Hn. rewrite Hcv. destruct (full_of bo); [apply expected_cut_nocfg; exact Hn | reflexivity].
  - intros wk. unfold xgupd. simpl. rewrite Eb. apply gupd_cuts.
  - intros wk. unfold xgupd. simpl. rewrite Eb, gupd_paid, Hdet. simpl. lia.
  - intros wk. unfold xgupd, uE, used_e. simpl. rewrite Hcu. simpl. lia.
  - intros wk. unfold xgupd, uF, used_f. simpl. rewrite Hcu. simpl. lia.
  - intros wk Hw. unfold xgupd. simpl. rewrite Eb. unfold fw at 1. simpl g_fac.
    destruct bo; try discriminate; try (left; reflexivity).
    (* setBoostedYieldsFactors *)
    unfold fac_event. destruct (g_fac (xg_b g)) as [[f0 log]|] eqn:Eg.
    + left. unfold fw. rewrite Eg, fac_at_snoc. assert (E : (bcur_week (x_b s) <=? wk) = false) by (apply Z.leb_gt; exact Hw). rewrite E. reflexivity.
    + right. apply (gpaid_zero_nocuts _ _ _ _ wk HM). apply (nu_nocfg _ _ N). apply (cfg_none_iff _ _ Hi). exact Eg.
  - intros Hn. destruct (bh_cfg (b_h (x_b s))) eqn:Ec; [|reflexivity]. exfalso.
    apply (proj2 (step_cfg_presence _ _ _ _ _ Hi Hb)); [left; rewrite Ec; discriminate | exact Hn].
  - unfold xgupd. simpl. rewrite Eb. simpl. apply (step_fok _ _ _ _ _ _ Hb (nu_fok _ _ N)).
Qed.

(** an operation of the farm proper only (the module is not involved) *)
Lemma nu_farm_only s g op s' out :
  XInv s g -> full_step s op = Ok (s', out) ->
  bop_of s op (f_supply (x_f s')) (utot (x_f s') (caller_of op)) = None ->
  (forall v, utot (x_f s') v <= utot (x_f s) v) -> f_supply (x_f s') = f_supply (x_f s) ->
  NU s' (xgupd s g op s' out).
Proof.
  intros X H Eb Hut Hsup. pose proof X as [K (U & _) Hi L N].
  pose proof (full_step_module _ _ _ _ H) as Hb. rewrite Eb in Hb. destruct Hb as (Hb & Ho & _).
  assert (Hcu : used_e s op (o_det (xo_m out)) = [] /\ used_f s op (o_det (xo_m out)) = []).
  { rewrite Ho. unfold used_e, used_f. simpl. destruct (claim_user op); [destruct (pfind _ _)|]; split; reflexivity. }
  destruct Hcu as (Hue & Huf).
  apply (nu_quiet_gen s g s' _ 0 X); try (rewrite Hb; reflexivity); auto; try lia.
  - intros wk. unfold xgupd. simpl. rewrite Eb. destruct (_ =? _); lia.
  - intros wk. unfold xgupd. simpl. rewrite Eb. reflexivity.
  - intros wk. unfold xgupd, uE. simpl. rewrite Hue. reflexivity.
  - intros wk. unfold xgupd, uF. simpl. rewrite Huf. reflexivity.
  - intros wk _. left. unfold xgupd. simpl. rewrite Eb. reflexivity.
  - rewrite Hb. auto.
  - unfold xgupd. simpl. rewrite Eb. apply N.
Qed.

(** ------------------------------------------------------------------ operations that touch one user's claim progress *)
Lemma nu_touch_gen s g s' g' u w1 (yE yF pd : Z -> Z) (cut : Z) :
  XInv s g ->
  let cw := bcur_week (x_b s) in let w := b_w (x_b s) in let f := x_f s in
  let pop := pfind (w_prog w) u in
  bcur_week (x_b s') = cw ->
  (* the weekly state: at most two touches of the same user *)
  ((w1 = w /\ (forall wk, yE wk = 0 /\ yF wk = 0)) \/ touch cw u w w1) ->
  (b_w (x_b s') = w1 \/ touch cw u w1 (b_w (x_b s'))) ->
  (* what the settlement used *)
  (forall wk, 0 <= yE wk <= f_old (owed_at wk) pop) -> (forall wk, cw <= wk -> yE wk = 0) ->
  (forall wk, 0 <= yF wk <= f_old2 (pendF f wk) u pop) -> (forall wk, cw <= wk -> yF wk = 0) ->
  (forall wk, uE g' wk = uE g wk + yE wk) -> (forall wk, uF g' wk = uF g wk + yF wk) ->
  (* what it paid *)
  (forall wk, gpaid (xg_b g') wk = gpaid (xg_b g) wk + pd wk) ->
  (forall wk, wk < cw -> 0 <= pd wk /\
     let fa := fw (xg_b g) wk in
     pd wk * ((fa_ce fa + fa_cf fa) * En w wk * Fw (x_b s) wk) <=
     gcuts (xg_b g) wk * (fa_ce fa * yE wk * Fw (x_b s) wk + fa_cf fa * yF wk * En w wk)) ->
  (* the slice *)
  0 <= cut -> (bh_cfg (b_h (x_b s)) = None -> cut = 0 /\ forall wk, pd wk = 0) ->
  (forall wk, gcuts (xg_b g') wk = gcuts (xg_b g) wk + (if cw =? wk then cut else 0)) ->
  g_fac (xg_b g') = g_fac (xg_b g) ->
  (bh_cfg (b_h (x_b s')) = None -> bh_cfg (b_h (x_b s)) = None) ->
  (* farm supply per week *)
  (forall wk, wk <> cw -> Fw (x_b s') wk = Fw (x_b s) wk) ->
  (Fw (x_b s') cw = 0 \/ Fw (x_b s') cw = f_supply (x_f s')) -> 0 <= Fw (x_b s') cw ->
  (* the farm's user totals *)
  (forall v, v <> u -> utot (x_f s') v <= utot f v) ->
  (bh_cfg (b_h (x_b s)) <> None ->
     (forall p, In (u, p) (w_prog (b_w (x_b s'))) -> pr_week p = cw) \/ utot (x_f s') u <= utot f u) ->
  NU s' g'.
Proof.
  intros [K (U & _) Hi L N] cw w f pop Ecw T1 T2 HyE HyEf HyF HyFf Ge Gu Gp Hpd Hcut Hnocut Gc Gf Hcfg HF HFc HFc0 Hut Hpend.
  pose proof Hi as (_ & Hcwpos & _ & _ & HM & _). fold cw in Hcwpos, HM.
  destruct K as (A & _). pose proof A as [M _ _].
  pose proof (UT_nn f M U) as Hnn.
  pose proof (nu_e _ _ N) as I0. fold cw w in I0.
  assert (Hnd0 : NoDup (map fst (w_prog w))) by (destruct (e_w _ _ _ I0) as ((X & _) & _); exact X).
  (* energy invariant through the touches *)
  assert (I1 : EInv cw w1 (fun wk => uE g wk + yE wk)).
  { destruct T1 as [(-> & Hz)|T]; [|apply (touch_EInv _ _ _ _ _ _ I0 Hcwpos T HyE HyEf)].
    apply (EInv_ext _ _ (uE g)); [intros wk; destruct (Hz wk) as (-> & _); lia | exact I0]. }
  assert (I2 : EInv cw (b_w (x_b s')) (uE g')).
  { destruct T2 as [-> | T]; [apply (EInv_ext _ _ _ _ Ge I1)|].
    apply (EInv_ext _ _ (fun wk => (uE g wk + yE wk) + 0)); [intros wk; rewrite Ge; lia|].
    apply (touch_EInv _ _ _ _ _ (fun _ => 0) I1 Hcwpos T); [|reflexivity].
    intros wk. split; [lia|]. destruct (pfind (w_prog w1) u); simpl; [apply owed_at_nonneg | lia]. }
  (* energies of completed weeks: kept or dropped *)
  assert (HE1 : forall wk, wk <> cw -> En w1 wk = En w wk \/ En w1 wk = 0).
  { intros wk Hw. destruct T1 as [(-> & _)|(c0 & _ & _ & _ & X & _)]; [left; reflexivity | apply X; exact Hw]. }
  assert (HE2 : forall wk, wk <> cw -> En (b_w (x_b s')) wk = En w wk \/ En (b_w (x_b s')) wk = 0).
  { intros wk Hw. destruct T2 as [-> | (c0 & _ & _ & _ & X & _)]; [apply HE1; exact Hw|].
    destruct (X wk Hw) as [-> | ->]; [apply HE1; exact Hw | right; reflexivity]. }
  (* positions of the users that can still claim a completed week *)
  assert (Hnd1 : NoDup (map fst (w_prog w1))) by (destruct (e_w _ _ _ I1) as ((X & _) & _); exact X).
  assert (HO : forall wk, wk < cw -> owedF f (b_w (x_b s')) wk <= owedF f w wk - yF wk).
  { intros wk Hw.
    assert (O1 : owedF f w1 wk <= owedF f w wk - yF wk).
    { destruct T1 as [(-> & Hz)|T]; [destruct (Hz wk) as (_ & ->); lia|].
      rewrite (touch_owedF _ _ _ _ f wk T Hnd0 Hw). destruct (HyF wk). fold pop. lia. }
    destruct T2 as [-> | T]; [exact O1|].
    rewrite (touch_owedF _ _ _ _ f wk T Hnd1 Hw).
    assert (0 <= f_old2 (pendF f wk) u (pfind (w_prog w1) u)) by (destruct (pfind (w_prog w1) u); simpl; [apply pendF_nonneg; exact Hnn | lia]).
    lia. }
  constructor.
  - rewrite Ecw. exact I2.
  - intros wk. rewrite Gu. pose proof (nu_uf0 _ _ N wk). destruct (HyF wk). lia.
  - intros wk Hw. rewrite Ecw in Hw. rewrite Gu, (nu_uffut _ _ N) by (fold cw; lia). rewrite HyFf by lia. lia.
  - rewrite Ecw. exact HFc.
  - intros wk Hw. rewrite Ecw in Hw. rewrite HF by lia. apply (nu_supfut _ _ N). fold cw. lia.
  - intros wk. destruct (Z.eq_dec wk cw) as [->|Hne]; [exact HFc0 | rewrite HF by exact Hne; apply N].
  - intros wk Hw. rewrite Ecw in Hw. rewrite HF by lia. rewrite Gc, Gu.
    assert (Ec : (cw =? wk) = false) by (apply Z.eqb_neq; lia). rewrite Ec, Z.add_0_r.
    destruct (bh_cfg (b_h (x_b s))) as [c0|] eqn:Ecfg.
    + destruct (nu_FI _ _ N wk Hw) as [H1|[H1|H1]]; [left; exact H1 | right; left; exact H1 | right; right].
      fold f w in H1. specialize (HO wk Hw).
      assert (HB : owedF (x_f s') (b_w (x_b s')) wk <= owedF f (b_w (x_b s')) wk).
      { apply owedF_mono. intros v p Hin Hp. destruct (Z.eq_dec v u) as [->|Hv]; [|apply Hut; exact Hv].
        destruct (Hpend ltac:(discriminate)) as [Hq|Hq]; [|exact Hq]. specialize (Hq p Hin). lia. }
      lia.
    + right. left. apply (nu_nocfg _ _ N Ecfg).
  - intros wk Hw. rewrite Ecw in Hw. unfold PIw. cbv zeta. rewrite (fw_same_fac _ _ wk Gf), Gp, Gc, Ge, Gu, HF by lia.
    assert (Ec : (cw =? wk) = false) by (apply Z.eqb_neq; lia). rewrite Ec, Z.add_0_r.
    pose proof (nu_PI _ _ N wk Hw) as P. unfold PIw in P. cbv zeta in P. fold w in P.
    destruct (Hpd wk Hw) as (Hpd0 & Hpdb). cbv zeta in Hpdb.
    pose proof (gcuts_nonneg _ _ _ _ wk HM) as G0. pose proof (e_ue0 _ _ _ I0 wk) as U0. pose proof (nu_uf0 _ _ N wk) as U1.
    pose proof (nu_supnn _ _ N wk) as F0. pose proof (e_nn _ _ _ I0 wk) as E0. destruct (fw_ok _ wk (nu_fok _ _ N)) as (C0 & C1).
    destruct (HyE wk) as (YE0 & _). destruct (HyF wk) as (YF0 & _).
    set (ce := fa_ce (fw (xg_b g) wk)) in *. set (cf := fa_cf (fw (xg_b g) wk)) in *.
    set (gp := gpaid (xg_b g) wk) in *. set (gc := gcuts (xg_b g) wk) in *. set (FF := Fw (x_b s) wk) in *.
    set (ue := uE g wk) in *. set (uf := uF g wk) in *. set (ye := yE wk) in *. set (yf := yF wk) in *. set (pp := pd wk) in *.
    destruct (HE2 wk ltac:(lia)) as [-> | ->].
    + set (EE := En w wk) in *. clearbody ce cf gp gc FF ue uf ye yf pp EE.
      replace ((gp + pp) * ((ce + cf) * EE * FF)) with (gp * ((ce + cf) * EE * FF) + pp * ((ce + cf) * EE * FF)) by ring.
      replace (gc * (ce * (ue + ye) * FF + cf * (uf + yf) * EE)) with
              (gc * (ce * ue * FF + cf * uf * EE) + gc * (ce * ye * FF + cf * yf * EE)) by ring.
      lia.
    + clearbody ce cf gp gc FF ue uf ye yf pp.
      replace ((gp + pp) * ((ce + cf) * 0 * FF)) with 0 by ring.
      assert (0 <= ce * (ue + ye) * FF) by nia. nia.
  - intros Hc wk. specialize (Hcfg Hc). destruct (Hnocut Hcfg) as (-> & _). rewrite Gc, (nu_nocfg _ _ N Hcfg). destruct (_ =? _); lia.
  - rewrite Gf. apply N.
Qed.

Lemma uE_upd s g op s' out wk : uE (xgupd s g op s' out) wk = uE g wk + psum_at (used_e s op (o_det (xo_m out))) wk.
Proof. unfold uE, xgupd. simpl. apply aget_add_all. Qed.
Lemma uF_upd s g op s' out wk : uF (xgupd s g op s' out) wk = uF g wk + psum_at (used_f s op (o_det (xo_m out))) wk.
Proof. unfold uF, xgupd. simpl. apply aget_add_all. Qed.

Lemma fstep_farmok f fo f' o : fstep f fo = Ok (f', o) -> FarmOK f -> UT f /\ AttrFresh f -> valid_op fo ->
  FarmOK f' /\ UT f' /\ AttrFresh f'.
Proof.
  intros H K U V. destruct (fstep_ok _ _ _ _ H K V) as (K' & _). split; [exact K'|].
  destruct K as (A & S & _). apply (fstep_ut _ _ _ _ H A S U V).
Qed.

(** updateEnergyForUser *)
Lemma nu_update_energy s g c u raw s' out :
  XInv s g -> full_step s (XUpdateEnergy c u raw) = Ok (s', out) -> NU s' (xgupd s g (XUpdateEnergy c u raw) s' out).
Proof.
  intros X H. pose proof X as [K (U & _) Hi L N]. set (op := XUpdateEnergy c u raw) in *.
  destruct (full_step_farm _ _ _ _ H) as (Ef & _). simpl in Ef.
  pose proof (full_step_module _ _ _ _ H) as Hb. simpl in Hb. destruct Hb as (Hb & _).
  set (cur := energy_entry raw (b_epoch (x_b s))) in *. set (bo := BUpdateEnergy u cur) in *.
  change (step (x_b s) bo = Ok (x_b s', xo_m out)) in Hb.
  assert (Hna : forall n, bo <> BAdvance n) by (intros n; discriminate).
  destruct (step_noclaim _ _ _ _ Hb eq_refl) as (Hdet & _).
  destruct (step_cut _ _ _ _ _ Hi Hb) as (_ & Hcv). simpl in Hcv.
  pose proof (nu_e _ _ N) as I0.
  assert (T : touch (bcur_week (x_b s)) u (b_w (x_b s)) (b_w (x_b s'))).
  { pose proof Hb as Hb'. simpl in Hb'. unfold ep_update_energy in Hb'. destruct (0 <=? en_tok cur) eqn:Et; [|discriminate]. apply Z.leb_le in Et.
    bnd Hb' cw Hcw. destruct (current_week_b _ _ Hcw) as (-> & _). bnd Hb' w' Hu. injection Hb' as E1 E2.
    unfold update_energy_for_user in Hu. destruct (match pfind _ u with Some p => pr_week p =? _ | None => true end); [|discriminate].
    rewrite <- E1. simpl. destruct Hi as (_ & Hp & _).
    apply (uep_touch _ _ _ _ _ Hu (e_w _ _ _ I0) (e_last _ _ _ I0) Hp Et). }
  apply (nu_touch_gen s g s' _ u (b_w (x_b s')) (fun _ => 0) (fun _ => 0) (fun _ => 0) 0 X).
  - apply (proj2 (step_week _ _ _ _ Hb) Hna).
  - right. exact T.
  - left. reflexivity.
  - intros wk. split; [lia|]. destruct (pfind _ u); simpl; [apply owed_at_nonneg | lia].
  - reflexivity.
  - intros wk. split; [lia|]. destruct K as (A & _). pose proof A as [M _ _].
    destruct (pfind _ u); simpl; [apply pendF_nonneg; apply (UT_nn _ M U) | lia].
  - reflexivity.
  - intros wk. rewrite uE_upd. unfold used_e. simpl. lia.
  - intros wk. rewrite uF_upd. unfold used_f. simpl. lia.
  - intros wk. unfold xgupd. simpl. rewrite gupd_paid, Hdet. simpl. lia.
  - intros wk _. cbv zeta. split; [lia|]. pose proof Hi as (_ & _ & _ & _ & HM & _). pose proof (gcuts_nonneg _ _ _ _ wk HM). nia.
  - lia.
  - intros _. split; reflexivity.
  - intros wk. unfold xgupd. simpl. rewrite gupd_cuts, Hcv. reflexivity.
  - reflexivity.
  - intros Hn. destruct (bh_cfg (b_h (x_b s))) eqn:Ec; [|reflexivity]. exfalso.
    apply (proj2 (step_cfg_presence _ _ _ _ _ Hi Hb)); [left; rewrite Ec; discriminate | exact Hn].
  - intros wk _. unfold Fw. pose proof (step_sup _ _ _ _ _ Hi Hb) as Hs. simpl in Hs. rewrite Hs. reflexivity.
  - unfold Fw. pose proof (step_sup _ _ _ _ _ Hi Hb) as Hs. simpl in Hs. rewrite Hs, Ef. apply N.
  - unfold Fw. pose proof (step_sup _ _ _ _ _ Hi Hb) as Hs. simpl in Hs. rewrite Hs. apply (nu_supnn _ _ N).
  - intros v _. rewrite Ef. lia.
  - intros _. right. rewrite Ef. lia.
Qed.

(** the six user endpoints: enterFarm, claimRewards, compoundRewards, exitFarm, mergeFarmTokens, claimBoostedRewards *)
Lemma user_ops_shape s op u S P b : claim_user op = Some u ->
  exists bo fo cur, bop_of s op S P = Some bo /\ claim_of bo = Some (u, cur, utot (x_f s) u) /\
                    fop_of s op b = Some fo /\ fuser fo = Some u /\ (forall n, bo <> BAdvance n) /\
                    (forall cw gf, fac_event bo cw gf = gf).
Proof.
  destruct op; simpl; intros H; inversion H; subst; eexists _, _, _;
    (split; [reflexivity|]); (split; [reflexivity|]); (split; [reflexivity|]); (split; [reflexivity|]);
    (split; [intros n; discriminate | intros; reflexivity]).
Qed.

Lemma nu_user s g op s' out u :
  XInv s g -> xvalid op -> full_step s op = Ok (s', out) -> claim_user op = Some u -> NU s' (xgupd s g op s' out).
Proof.
  intros X V H Hcu. pose proof X as [K (U & AF) Hi L N].
  destruct (user_ops_shape s op u (f_supply (x_f s')) (utot (x_f s') (caller_of op)) (xo_b out) Hcu)
    as (bo & fo & cur & Eb & Hcl & Ef & Hfu & Hna & Hfe).
  pose proof (full_step_module _ _ _ _ H) as Hb. rewrite Eb in Hb. destruct Hb as (Hb & _).
  pose proof (full_step_farm _ _ _ _ H) as Hf. rewrite Ef in Hf.
  set (cw := bcur_week (x_b s)) in *. set (w := b_w (x_b s)) in *. set (f := x_f s) in *.
  pose proof (nu_e _ _ N) as I0. fold cw w in I0.
  destruct (user_step_decomp _ _ _ _ _ _ _ _ Hi (e_w _ _ _ I0) (e_last _ _ _ I0) Hb Hcl) as (w1 & D1 & D2 & D3).
  fold cw w in D1, D2, D3.
  destruct (claim_week_bound _ _ _ _ _ _ _ _ Hi (nu_fok _ _ N) Hb Hcl (e_nn _ _ _ I0) (nu_supnn _ _ N))
    as (Hpos & Hnd & Hdet & Hbound). fold cw w f in Hdet, Hbound.
  set (det := o_det (xo_m out)) in *.
  set (pop := pfind (w_prog w) u) in *.
  destruct K as (A & So & Dn). pose proof A as [M _ _]. pose proof (UT_nn f M U) as Hnn.
  pose proof Hi as (_ & _ & _ & _ & HM & _). fold cw in HM.
  (* what the ghost adds *)
  assert (HuE : forall wk, psum_at (used_e s op det) wk =
                 match pop with Some p => if in_dec Z.eq_dec wk (map fst det) then energy_at p wk else 0 | None => 0 end).
  { intros wk. unfold used_e. rewrite Hcu. fold w pop. destruct pop as [p|]; [apply psum_at_entries; exact Hnd | reflexivity]. }
  assert (HuF : forall wk, psum_at (used_f s op det) wk = if in_dec Z.eq_dec wk (map fst det) then utot f u else 0).
  { intros wk. unfold used_f. rewrite Hcu. apply (psum_at_entries (fun _ => utot f u)). exact Hnd. }
  assert (Hweeks : forall wk, In wk (map fst det) -> exists p, pop = Some p /\ pr_week p <= wk < cw).
  { intros wk Hin. destruct (Hbound wk Hin) as (p & Hp & Hr & _). exists p. split; assumption. }
  pose proof (fstep_farmok _ _ _ _ Hf (conj A (conj So Dn)) (conj U AF) (fop_of_valid _ _ _ _ V Ef)) as ((A' & _) & _).
  apply (nu_touch_gen s g s' _ u w1 (fun wk => psum_at (used_e s op det) wk) (fun wk => psum_at (used_f s op det) wk)
                      (wpaid det) (o_cut (xo_m out)) X).
  - apply (proj2 (step_week _ _ _ _ Hb) Hna).
  - destruct (bh_cfg (b_h (x_b s))) eqn:Ec; [right; apply D2; discriminate|]. left.
    destruct (D1 eq_refl) as (-> & Hd). split; [reflexivity|]. intros wk. rewrite HuE, HuF. fold det in Hd. rewrite Hd. simpl.
    split; [destruct pop; reflexivity | reflexivity].
  - exact D3.
  - intros wk. rewrite HuE. fold w; fold pop. destruct pop as [p|] eqn:Ep; [|simpl; lia].
    destruct (in_dec Z.eq_dec wk (map fst det)) as [Hin|_]; simpl; [|split; [lia | apply owed_at_nonneg]].
    destruct (Hweeks wk Hin) as (p' & Hp' & Hr). inversion Hp'; subst p'. unfold owed_at.
    assert (E : (pr_week p <=? wk) = true) by (apply Z.leb_le; lia). rewrite E. pose proof (energy_at_nonneg p wk). lia.
  - intros wk Hw. rewrite HuE. destruct pop as [p|]; [|reflexivity].
    destruct (in_dec Z.eq_dec wk (map fst det)) as [Hin|_]; [|reflexivity]. destruct (Hweeks wk Hin) as (p' & _ & Hr). lia.
  - intros wk. rewrite HuF. fold w; fold pop. fold f. destruct (in_dec Z.eq_dec wk (map fst det)) as [Hin|_].
    + destruct (Hweeks wk Hin) as (p & Hp & Hr). rewrite Hp. simpl. unfold pendF.
      assert (E : (pr_week p <=? wk) = true) by (apply Z.leb_le; lia). rewrite E. pose proof (Hnn u). lia.
    + split; [lia|]. destruct pop; simpl; [apply pendF_nonneg; exact Hnn | lia].
  - intros wk Hw. rewrite HuF. destruct (in_dec Z.eq_dec wk (map fst det)) as [Hin|_]; [|reflexivity].
    destruct (Hweeks wk Hin) as (p' & _ & Hr). lia.
  - intros wk. apply uE_upd.
  - intros wk. apply uF_upd.
  - intros wk. unfold xgupd. simpl. rewrite Eb. apply gupd_paid.
  - intros wk Hw. cbv zeta. rewrite HuE, HuF. fold w; fold pop.
    destruct (in_dec Z.eq_dec wk (map fst det)) as [Hin|Hn].
    + destruct (Hbound wk Hin) as (p & Hp & Hr & Hb0 & Hbb). fold pop in Hp. rewrite Hp. split; [exact Hb0 | exact Hbb].
    + rewrite (wpaid_notin _ _ Hn). split; [lia|]. pose proof (gcuts_nonneg _ _ _ _ wk HM).
      destruct pop; nia.
  - apply (step_cut _ _ _ _ _ Hi Hb).
  - intros Hn. destruct (D1 Hn) as (_ & Hd). fold det in Hd. split.
    + destruct (step_cut _ _ _ _ _ Hi Hb) as (_ & ->). destruct (full_of bo); [apply expected_cut_nocfg; exact Hn | reflexivity].
    + intros wk. rewrite Hd. reflexivity.
  - intros wk. unfold xgupd. simpl. rewrite Eb. apply gupd_cuts.
  - unfold xgupd. simpl. rewrite Eb. simpl. apply Hfe.
  - intros Hn. destruct (bh_cfg (b_h (x_b s))) eqn:Ec; [|reflexivity]. exfalso.
    apply (proj2 (step_cfg_presence _ _ _ _ _ Hi Hb)); [left; rewrite Ec; discriminate | exact Hn].
  - intros wk Hw. unfold Fw. pose proof (step_sup _ _ _ _ _ Hi Hb) as Hs.
    destruct bo; try discriminate; rewrite Hs; try reflexivity; fold cw; apply aget_aset_other; intros E; apply Hw; symmetry; exact E.
  - unfold Fw. pose proof (step_sup _ _ _ _ _ Hi Hb) as Hs.
    destruct op; try discriminate; simpl in Eb; inversion Eb; subst bo; rewrite Hs; fold cw;
      try (right; apply aget_aset_same).
    (* mergeFarmTokens: neither the supply nor the week's record moves *)
    simpl in Ef. inversion Ef; subst fo. pose proof (fstep_supply_same _ _ _ _ Hf) as Hss. simpl in Hss. rewrite Hss. apply N.
  - unfold Fw. pose proof (step_sup _ _ _ _ _ Hi Hb) as Hs.
    assert (Hs0 : 0 <= f_supply (x_f s')) by (destruct A' as [[_ _ _ _ _ _ (_ & _ & _ & X0 & _)] _ _]; exact X0).
    destruct op; try discriminate; simpl in Eb; inversion Eb; subst bo; rewrite Hs; fold cw;
      try (rewrite aget_aset_same; exact Hs0).
    apply (nu_supnn _ _ N).
  - intros v Hv. apply (fstep_utot _ _ _ _ Hf Hnn). rewrite Hfu. intros E; inversion E; congruence.
  - intros Hn. left. intros p Hin. destruct D3 as [E|T]; [|apply (touch_not_pending _ _ _ _ _ T Hin)].
    rewrite E in Hin. apply (touch_not_pending _ _ _ _ _ (D2 Hn) Hin).
Qed.

(** ------------------------------------------------------------------ C.10 every reachable state *)
Lemma xinv_step s g op s' out :
  XInv s g -> xvalid op -> full_step s op = Ok (s', out) -> XInv s' (xgupd s g op s' out).
Proof.
  intros X V H. pose proof X as [K (U & AF) Hi L N].
  pose proof (full_step_farm _ _ _ _ H) as Hf. pose proof (full_step_module _ _ _ _ H) as Hb.
  assert (HF : FarmOK (x_f s') /\ UT (x_f s') /\ AttrFresh (x_f s') /\
               ((forall c, claim_user op <> Some c) -> (forall v, utot (x_f s') v <= utot (x_f s) v)) /\
               (match op with XEnter _ _ _ _ | XExit _ _ _ | XCompound _ _ _ _ | XClaim _ _ _ _ | XClaimBoosted _ _ => True
                         | _ => f_supply (x_f s') = f_supply (x_f s) end)).
  { destruct (fop_of s op (xo_b out)) as [fo|] eqn:Ef.
    - destruct (fstep_farmok _ _ _ _ Hf K (conj U AF) (fop_of_valid _ _ _ _ V Ef)) as (K' & U' & AF').
      split; [exact K'|]. split; [exact U'|]. split; [exact AF'|]. destruct K as (A & _). pose proof A as [M _ _].
      split.
      + intros Hnc v. apply (fstep_utot _ _ _ _ Hf (UT_nn _ M U)).
        destruct op; simpl in Ef; inversion Ef; subst fo; simpl; try discriminate; intros E; inversion E; subst;
          exfalso; eapply Hnc; reflexivity.
      + pose proof (fstep_supply_same _ _ _ _ Hf) as Hs. destruct op; simpl in Ef; inversion Ef; subst fo; simpl in Hs; try exact I; exact Hs.
    - destruct Hf as (-> & _). split; [exact K|]. split; [exact U|]. split; [exact AF|]. split; [intros; lia|].
      destruct op; simpl in Ef; try discriminate; reflexivity. }
  destruct HF as (K' & U' & AF' & Hut & Hsup).
  constructor.
  - exact K'.
  - split; assumption.
  - unfold xgupd. simpl. destruct (bop_of s op _ _) as [bo|]; [destruct Hb as (Hb & _); apply (step_inv _ _ _ _ _ Hi Hb)|].
    destruct Hb as (-> & _). exact Hi.
  - apply (full_step_link _ _ _ _ _ L Hi H).
  - destruct op.
    + apply (nu_time _ _ _ _ _ _ X H).
    + apply (nu_user _ _ _ _ _ c X V H eq_refl).
    + apply (nu_user _ _ _ _ _ c X V H eq_refl).
    + apply (nu_user _ _ _ _ _ c X V H eq_refl).
    + apply (nu_user _ _ _ _ _ c X V H eq_refl).
    + apply (nu_user _ _ _ _ _ c X V H eq_refl).
    + apply (nu_user _ _ _ _ _ c X V H eq_refl).
    + apply (nu_farm_only _ _ _ _ _ X H eq_refl); [apply Hut; intros; discriminate | exact Hsup].
    + eapply (nu_quiet_module _ _ _ _ _ _ X H); [reflexivity | reflexivity | reflexivity | apply Hut; intros; discriminate | exact Hsup].
    + apply (nu_farm_only _ _ _ _ _ X H eq_refl); [apply Hut; intros; discriminate | exact Hsup].
    + eapply (nu_quiet_module _ _ _ _ _ _ X H); [reflexivity | reflexivity | reflexivity | apply Hut; intros; discriminate | exact Hsup].
    + eapply (nu_quiet_module _ _ _ _ _ _ X H); [reflexivity | reflexivity | reflexivity | apply Hut; intros; discriminate | exact Hsup].
    + eapply (nu_quiet_module _ _ _ _ _ _ X H); [reflexivity | reflexivity | reflexivity | apply Hut; intros; discriminate | exact Hsup].
    + apply (nu_farm_only _ _ _ _ _ X H eq_refl); [apply Hut; intros; discriminate | exact Hsup].
    + apply (nu_farm_only _ _ _ _ _ X H eq_refl); [apply Hut; intros; discriminate | exact Hsup].
    + apply (nu_farm_only _ _ _ _ _ X H eq_refl); [apply Hut; intros; discriminate | exact Hsup].
    + apply (nu_farm_only _ _ _ _ _ X H eq_refl); [apply Hut; intros; discriminate | exact Hsup].
    + eapply (nu_quiet_module _ _ _ _ _ _ X H); [reflexivity | reflexivity | reflexivity | apply Hut; intros; discriminate | exact Hsup].
    + apply (nu_update_energy _ _ _ _ _ _ _ X H).
Qed.

Lemma xinv_init dsc same blk epoch : 0 < dsc -> XInv (init_x dsc same blk epoch) xg0.
Proof.
  intros Hd. constructor.
  - apply init_farm_ok. exact Hd.
  - apply init_ut.
  - apply BInv_init.
  - apply LK_init.
  - assert (Hcw : bcur_week (init_b epoch) = 1).
    { unfold bcur_week; simpl. rewrite Z.sub_diag. pose proof week_pos. rewrite Z.div_0_l by lia. reflexivity. }
    constructor; simpl; rewrite ?Hcw; unfold uE, uF, Fw, PIw, gcuts, gpaid, En; simpl; intros; try lia; try (left; reflexivity); try exact I.
    constructor; simpl; unfold En, owedE; simpl; intros; try lia. apply init_w_inv.
Qed.

Lemma xgstep_inv sg op : XInv (fst sg) (snd sg) -> xvalid op -> XInv (fst (xgstep sg op)) (snd (xgstep sg op)).
Proof.
  intros X V. unfold xgstep. destruct (full_step (fst sg) op) as [[s' out]|] eqn:E; [|exact X].
  simpl. apply (xinv_step _ _ _ _ _ X V E).
Qed.

Lemma xgrun_inv ops : forall sg, XInv (fst sg) (snd sg) -> Forall xvalid ops -> XInv (fst (xgrun sg ops)) (snd (xgrun sg ops)).
Proof.
  unfold xgrun. induction ops as [|op t IH]; intros sg X V; simpl; [exact X|]. inversion V; subst.
  apply IH; [apply xgstep_inv; assumption | assumption].
Qed.

(** the reachable states of the closed model, with their ghost *)
Definition xgreach (dsc : Z) (same : bool) (blk epoch : Z) (ops : list xop) : xstate * xg :=
  xgrun (init_x dsc same blk epoch, xg0) ops.

Lemma xgreach_state dsc same blk epoch ops : fst (xgreach dsc same blk epoch ops) = xreach dsc same blk epoch ops.
Proof. apply xgrun_fst. Qed.

Lemma reach_xinv dsc same blk epoch ops : 0 < dsc -> Forall xvalid ops ->
  XInv (fst (xgreach dsc same blk epoch ops)) (snd (xgreach dsc same blk epoch ops)).
Proof. intros Hd V. apply (xgrun_inv ops (init_x dsc same blk epoch, xg0)); [apply xinv_init; exact Hd | exact V]. Qed.

(** ================================================================== C.11 the theorems *)
(** what get_user_rewards_for_week computes for a user with position [pos] and energy [e] from a week's totals —
    WITHOUT the guard on remaining(week) *)
Definition elig (fa : factors) (R pos F e E : Z) : bool :=
  negb ((E =? 0) || (F =? 0) || (e <? fa_mine fa) || (pos <? fa_minf fa) || (R =? 0)).
Definition hook_amount (fa : factors) (R pos F e E : Z) : Z :=
  if elig fa R pos F e E then Z.max 0 (boosted_amount fa R pos F e E) else 0.

(** ... for a recorded user who can still claim week [wk], from the current state: his present total position, his
    recorded energy decayed to the week, the week's frozen (or still accumulated) pool, supply, total energy, factors *)
Definition pending_amount (s : xstate) (g : xg) (wk : Z) (u : Z) (p : progress) : Z :=
  if pr_week p <=? wk
  then hook_amount (fw (xg_b g) wk) (gcuts (xg_b g) wk) (utot (x_f s) u) (Fw (x_b s) wk) (energy_at p wk) (En (b_w (x_b s)) wk)
  else 0.

Lemma hook_amount_nonneg fa R pos F e E : 0 <= hook_amount fa R pos F e E.
Proof. unfold hook_amount. destruct (elig _ _ _ _ _ _); lia. Qed.

Lemma hook_amount_zero fa R pos F e E : E = 0 \/ F = 0 \/ R = 0 -> hook_amount fa R pos F e E = 0.
Proof.
  unfold hook_amount, elig. intros H.
  destruct (E =? 0) eqn:E1; destruct (F =? 0) eqn:E2; destruct (R =? 0) eqn:E3; simpl; rewrite ?orb_true_r; try reflexivity.
  apply Z.eqb_neq in E1. apply Z.eqb_neq in E2. apply Z.eqb_neq in E3. lia.
Qed.

Lemma usum_lin3 (a x y : Z -> progress -> Z) (K R ce cf F E : Z) l :
  (forall up, In up l -> a (fst up) (snd up) * K <= R * (ce * x (fst up) (snd up) * F + cf * y (fst up) (snd up) * E)) ->
  usum a l * K <= R * (ce * usum x l * F + cf * usum y l * E).
Proof.
  induction l as [|[u p] t IH]; intros H; [simpl; lia|]. rewrite !usum_cons.
  assert (H1 := H (u, p) (or_introl eq_refl)). simpl in H1.
  assert (H2 : usum a t * K <= R * (ce * usum x t * F + cf * usum y t * E)) by (apply IH; intros; apply H; right; assumption).
  replace ((a u p + usum a t) * K) with (a u p * K + usum a t * K) by ring.
  replace (R * (ce * (x u p + usum x t) * F + cf * (y u p + usum y t) * E)) with
          (R * (ce * x u p * F + cf * y u p * E) + R * (ce * usum x t * F + cf * usum y t * E)) by ring.
  lia.
Qed.

(** C11_no_underflow, the sum form: in every reachable state and for every completed week, what has been paid for the
    week plus what ALL users who can still claim it would be paid (each computed by the hook's formula from the present
    state, no guard involved) does not exceed the week's pool. *)
Lemma week_sum_bound s g wk : XInv s g -> wk < bcur_week (x_b s) ->
  gpaid (xg_b g) wk + usum (pending_amount s g wk) (w_prog (b_w (x_b s))) <= gcuts (xg_b g) wk.
Proof.
  intros [K (U & _) Hi L N] Hw. set (cw := bcur_week (x_b s)) in *.
  pose proof Hi as (_ & _ & _ & _ & HM & _). fold cw in HM.
  pose proof (nu_e _ _ N) as I0. fold cw in I0. set (w := b_w (x_b s)) in *. set (f := x_f s) in *.
  set (gb := xg_b g) in *. set (R := gcuts gb wk). set (E := En w wk). set (F := Fw (x_b s) wk). set (fa := fw gb wk).
  pose proof (gcuts_nonneg _ _ _ _ wk HM) as HR0. fold gb R in HR0.
  assert (Hgp : 0 <= gpaid gb wk <= R).
  { unfold R. rewrite (m_week _ _ _ _ HM wk). destruct (m_nn _ _ _ _ HM wk). destruct (m_gnn _ _ _ _ HM wk). lia. }
  pose proof (e_nn _ _ _ I0 wk) as HE0. fold E in HE0. pose proof (nu_supnn _ _ N wk) as HF0. fold F in HF0.
  destruct K as (A & _). pose proof A as [M _ _]. pose proof (UT_nn f M U) as Hnn.
  (* degenerate weeks pay nothing *)
  assert (Hzero : E = 0 \/ F = 0 \/ R = 0 -> usum (pending_amount s g wk) (w_prog w) = 0).
  { intros Hz. assert (X : usum (pending_amount s g wk) (w_prog w) <= usum (fun _ _ => 0) (w_prog w)).
    { apply usum_le. intros [u p] _. simpl. unfold pending_amount. destruct (pr_week p <=? wk); [|lia].
      rewrite hook_amount_zero; [lia | exact Hz]. }
    assert (Y : usum (fun _ _ => 0) (w_prog w) = 0) by (clear; induction (w_prog w) as [|[u p] t IH]; [reflexivity | rewrite usum_cons, IH; lia]).
    assert (Z0 : 0 <= usum (pending_amount s g wk) (w_prog w)).
    { apply usum_nonneg. intros [u p] _. simpl. unfold pending_amount. destruct (pr_week p <=? wk); [apply hook_amount_nonneg | lia]. }
    lia. }
  destruct (Z.eq_dec E 0) as [HE|HE]; [rewrite Hzero by (left; exact HE); lia|].
  destruct (Z.eq_dec F 0) as [HF|HF]; [rewrite Hzero by (right; left; exact HF); lia|].
  destruct (Z.eq_dec R 0) as [HR|HR]; [rewrite Hzero by (right; right; exact HR); lia|].
  (* a live week: factors configured, energy and position sums within the week's totals *)
  assert (Hcfg : bh_cfg (b_h (x_b s)) <> None) by (intros Hn; apply HR; apply (nu_nocfg _ _ N Hn)).
  assert (Hfac : 0 <= fa_ce fa /\ 0 <= fa_cf fa /\ 0 < fa_ce fa + fa_cf fa).
  { unfold fa, fw. pose proof (nu_fok _ _ N) as Hfok. fold gb in Hfok. unfold FOK in Hfok.
    destruct (g_fac gb) as [[f0 log]|] eqn:Eg; [destruct Hfok as (H0 & Hl); apply (fac_at_ok log f0 wk H0 Hl)|].
    exfalso. apply Hcfg. apply (cfg_none_iff _ _ Hi). exact Eg. }
  destruct Hfac as (Hce & Hcf & Hc).
  assert (HEI : uE g wk + owedE w wk <= E).
  { destruct (EInv_base _ _ _ I0 wk Hw) as [Hz|Hb]; [contradiction | exact Hb]. }
  assert (HFI : uF g wk + owedF f w wk <= F).
  { destruct (nu_FI _ _ N wk Hw) as [Hz|[Hz|Hb]]; [contradiction | contradiction | exact Hb]. }
  pose proof (nu_PI _ _ N wk Hw) as HPI. unfold PIw in HPI. cbv zeta in HPI. fold gb fa R w E F in HPI.
  set (KK := (fa_ce fa + fa_cf fa) * E * F) in *.
  assert (HEp : 0 < E) by lia. assert (HFp : 0 < F) by lia.
  assert (HKK : 0 < KK) by (unfold KK; apply Z.mul_pos_pos; [apply Z.mul_pos_pos|]; lia).
  assert (Hsum : usum (pending_amount s g wk) (w_prog w) * KK <=
                 R * (fa_ce fa * usum (fun _ p => owed_at wk p) (w_prog w) * F + fa_cf fa * usum (pendF f wk) (w_prog w) * E)).
  { apply usum_lin3. intros [u p] _. simpl. unfold pending_amount, owed_at, pendF. fold gb R E F w f fa.
    destruct (pr_week p <=? wk); cbv beta iota; [|lia].
    pose proof (energy_at_nonneg p wk) as He0. pose proof (Hnn u) as Hp0.
    assert (Hrhs : 0 <= R * (fa_ce fa * energy_at p wk * F + fa_cf fa * utot f u * E)) by nia.
    unfold hook_amount. change (En w wk) with E. destruct (elig fa R (utot f u) F (energy_at p wk) E); [|lia].
    destruct (share_bound (fa_ce fa) (fa_cf fa) R (utot f u) F (energy_at p wk) E ltac:(lia) ltac:(lia) Hc Hce Hcf HR0 Hp0 He0) as (Hb0 & Hb).
    cbv zeta in Hb0, Hb. unfold boosted_amount, max_rewards, by_energy, by_tokens.
    set (bq := (R * fa_ce fa * energy_at p wk / E + R * fa_cf fa * utot f u / F) / (fa_ce fa + fa_cf fa)) in *.
    set (aq := fa_max fa * R * utot f u / F). clearbody bq aq.
    assert (Hle : Z.max 0 (Z.min aq bq) <= bq) by lia.
    eapply Z.le_trans; [apply Z.mul_le_mono_nonneg_r; [lia | exact Hle] | exact Hb]. }
  rewrite <- psum_usum in Hsum. fold (owedE w wk) in Hsum. rewrite <- owedF_usum in Hsum.
  pose proof (e_ue0 _ _ _ I0 wk) as U0. pose proof (nu_uf0 _ _ N wk) as U1.
  set (AA := usum (pending_amount s g wk) (w_prog w)) in *. set (gp := gpaid gb wk) in *.
  set (oe := owedE w wk) in *. set (of := owedF f w wk) in *. set (ue := uE g wk) in *. set (uf := uF g wk) in *.
  set (ce := fa_ce fa) in *. set (cf := fa_cf fa) in *.
  assert (H1 : (gp + AA) * KK <= R * (ce * (ue + oe) * F + cf * (uf + of) * E)).
  { replace ((gp + AA) * KK) with (gp * KK + AA * KK) by ring.
    replace (R * (ce * (ue + oe) * F + cf * (uf + of) * E)) with (R * (ce * ue * F + cf * uf * E) + R * (ce * oe * F + cf * of * E)) by ring.
    unfold KK. lia. }
  assert (H2 : R * (ce * (ue + oe) * F + cf * (uf + of) * E) <= R * KK).
  { unfold KK. apply Z.mul_le_mono_nonneg_l; [lia|].
    assert (ce * (ue + oe) * F <= ce * E * F) by (apply Z.mul_le_mono_nonneg_r; [lia | apply Z.mul_le_mono_nonneg_l; lia]).
    assert (cf * (uf + of) * E <= cf * F * E) by (apply Z.mul_le_mono_nonneg_r; [lia | apply Z.mul_le_mono_nonneg_l; lia]).
    lia. }
  clearbody KK AA gp. nia.
Qed.

(** what is left of a week's pool in the module's storage: remaining(week) once the total is frozen, the whole
    accumulated(week) before *)
Definition pool_left (b : bst) (wk : Z) : Z :=
  match rw_ (b_w b) wk with [] => acc_ (b_h b) wk | _ => rem_ (b_h b) wk end.

Lemma pool_left_ledger s g wk : XInv s g -> bcur_week (x_b s) - MAXW <= wk < bcur_week (x_b s) ->
  pool_left (x_b s) wk = gcuts (xg_b g) wk - gpaid (xg_b g) wk.
Proof.
  intros [_ _ Hi _ _] Hw. pose proof Hi as (_ & _ & _ & _ & HM & _).
  destruct (m_window_unswept _ _ _ _ wk HM (proj1 Hw)) as (S0 & _). pose proof (m_week _ _ _ _ HM wk) as Hwk.
  unfold pool_left. destruct (rw_ (b_w (x_b s)) wk) as [|x l] eqn:E.
  - destruct (m_win _ _ _ _ HM wk (proj1 Hw) E) as (R0 & P0). lia.
  - assert (Hne : rw_ (b_w (x_b s)) wk <> []) by (rewrite E; discriminate).
    destruct (m_frozen _ _ _ _ HM wk Hne) as (_ & A0). lia.
Qed.

(** C11_no_underflow, per user: whoever settles a claimable week next, the amount the hook computes for him is covered
    by what is left of the week's pool *)
Lemma guard_slack s g wk u p : XInv s g -> bcur_week (x_b s) - MAXW <= wk < bcur_week (x_b s) ->
  pfind (w_prog (b_w (x_b s))) u = Some p -> pr_week p <= wk ->
  hook_amount (fw (xg_b g) wk) (gcuts (xg_b g) wk) (utot (x_f s) u) (Fw (x_b s) wk) (energy_at p wk) (En (b_w (x_b s)) wk)
  <= pool_left (x_b s) wk.
Proof.
  intros X Hw Hp Hle. rewrite (pool_left_ledger _ _ _ X Hw).
  pose proof (week_sum_bound _ _ wk X (proj2 Hw)) as Hs.
  assert (Hm : f_old2 (pending_amount s g wk) u (pfind (w_prog (b_w (x_b s))) u) <= usum (pending_amount s g wk) (w_prog (b_w (x_b s)))).
  { apply f_old2_le_usum. intros [v q] _. simpl. unfold pending_amount. destruct (pr_week q <=? wk); [apply hook_amount_nonneg | lia]. }
  rewrite Hp in Hm. simpl in Hm. unfold pending_amount in Hm at 1.
  assert (E : (pr_week p <=? wk) = true) by (apply Z.leb_le; exact Hle). rewrite E in Hm. lia.
Qed.

(** ... operationally: the hook call the next settlement of any such user makes for the week, on the state's own
    storage, succeeds — the guard [remaining -= reward], the division, the register lookup and the freeze all go through *)
Lemma hook_total s g wk u p c cfg : XInv s g ->
  let cw := bcur_week (x_b s) in
  cw - MAXW <= wk < cw -> pfind (w_prog (b_w (x_b s))) u = Some p -> pr_week p <= wk ->
  bh_cfg (b_h (x_b s)) = Some c -> cfg_update c cw None = Ok cfg ->
  exists r, boosted_hook (utot (x_f s) u) cfg cw (b_h (x_b s)) (b_w (x_b s)) wk (energy_at p wk) (En (b_w (x_b s)) wk) = Ok r.
Proof.
  intros X cw Hw Hp Hle Hc Hu. pose proof (guard_slack _ _ _ _ _ X Hw Hp Hle) as Hg. pose proof (pool_left_ledger _ _ _ X Hw) as Hl.
  pose proof X as [_ _ Hi _ N]. pose proof Hi as (_ & _ & _ & HC & HM & _). fold cw in HC, HM.
  set (h := b_h (x_b s)) in *. set (w := b_w (x_b s)) in *. set (gb := xg_b g) in *.
  set (pos := utot (x_f s) u) in *. set (e := energy_at p wk) in *. set (E := En w wk) in *.
  unfold boosted_hook. change (aget (bh_sup h) wk) with (Fw (x_b s) wk). set (F := Fw (x_b s) wk) in *.
  destruct ((E =? 0) || (F =? 0)) eqn:Ez; [eexists; reflexivity|].
  apply orb_false_iff in Ez. destruct Ez as (E1 & E2).
  (* the register answers with the factors of the week *)
  unfold CI in HC. rewrite Hc in HC. destruct (g_fac gb) as [[f0 log]|] eqn:Eg; [|contradiction]. destruct HC as (Hci & _).
  destruct (cfg_update_inv _ _ _ _ _ _ Hci Hu) as (_ & Hlast & Hci').
  pose proof nslots_eq as HNS.
  destruct (get_factors_spec cfg f0 log wk Hci') as (Hg1 & _). rewrite Hg1 by (rewrite Hlast; lia). simpl bind.
  assert (Hfw : fac_at f0 log wk = fw gb wk) by (unfold fw; rewrite Eg; reflexivity). rewrite Hfw.
  set (fa := fw gb wk) in *.
  destruct ((e <? fa_mine fa) || (pos <? fa_minf fa)) eqn:Em; [eexists; reflexivity|].
  apply orb_false_iff in Em. destruct Em as (M1 & M2).
  assert (Hfok : 0 < fa_ce fa + fa_cf fa).
  { pose proof (nu_fok _ _ N) as Hf. fold gb in Hf. rewrite Eg in Hf. destruct Hf as (H0 & Hl0). rewrite <- Hfw. apply (fac_at_ok log f0 wk H0 Hl0). }
  (* the week's total: frozen, or frozen now *)
  unfold pool_left in Hl, Hg. fold h w in Hl, Hg. unfold b_collect_and_get. fold (rw_ w wk).
  destruct (rw_ w wk) as [|x l] eqn:Erw.
  - unfold b_collect. fold h. rewrite Hc, Hu. simpl bind.
    destruct (m_win _ _ _ _ HM wk (proj1 Hw) Erw) as (_ & P0).
    assert (HR : aget (bh_acc h) wk = gcuts gb wk) by (fold (acc_ h wk); lia).
    rewrite HR. set (R := gcuts gb wk) in *.
    destruct (R =? 0) eqn:ER; [eexists; reflexivity|].
    unfold div_chk. assert (Ed : (fa_ce fa + fa_cf fa =? 0) = false) by (apply Z.eqb_neq; lia). rewrite Ed. simpl bind.
    fold (boosted_amount fa R pos F e E).
    destruct (0 <? boosted_amount fa R pos F e E) eqn:Epos; [|eexists; reflexivity]. apply Z.ltb_lt in Epos.
    assert (Hamt : hook_amount fa R pos F e E = boosted_amount fa R pos F e E).
    { unfold hook_amount, elig. rewrite E1, E2, M1, M2, ER. simpl. lia. }
    rewrite Hamt in Hg. unfold sub_chk. simpl. rewrite aget_aset_same.
    assert (Es : (R <? boosted_amount fa R pos F e E) = false) by (apply Z.ltb_ge; fold (acc_ h wk) in Hg; lia).
    rewrite Es. eexists; reflexivity.
  - assert (Hne : rw_ w wk <> []) by (rewrite Erw; discriminate).
    destruct (m_frozen _ _ _ _ HM wk Hne) as (Fz & _). rewrite Erw in Fz. rewrite Fz. cbn [bind].
    set (R := gcuts gb wk) in *.
    destruct (R =? 0) eqn:ER; [eexists; reflexivity|].
    unfold div_chk. assert (Ed : (fa_ce fa + fa_cf fa =? 0) = false) by (apply Z.eqb_neq; lia). rewrite Ed. simpl bind.
    fold (boosted_amount fa R pos F e E).
    destruct (0 <? boosted_amount fa R pos F e E) eqn:Epos; [|eexists; reflexivity]. apply Z.ltb_lt in Epos.
    assert (Hamt : hook_amount fa R pos F e E = boosted_amount fa R pos F e E).
    { unfold hook_amount, elig. rewrite E1, E2, M1, M2, ER. simpl. lia. }
    rewrite Hamt in Hg. unfold sub_chk. fold (rem_ h wk).
    assert (Es : (rem_ h wk <? boosted_amount fa R pos F e E) = false) by (apply Z.ltb_ge; lia).
    rewrite Es. eexists; reflexivity.
Qed.

(** the same on any storage that agrees with the state's on the week's own data (what the call sees inside a settlement) *)
Lemma hook_total_gen s g wk u p c cfg h' s' : XInv s g ->
  let cw := bcur_week (x_b s) in
  cw - MAXW <= wk < cw -> pfind (w_prog (b_w (x_b s))) u = Some p -> pr_week p <= wk ->
  bh_cfg (b_h (x_b s)) = Some c -> cfg_update c cw None = Ok cfg ->
  aget (bh_sup h') wk = Fw (x_b s) wk -> rw_ s' wk = rw_ (b_w (x_b s)) wk ->
  acc_ h' wk = acc_ (b_h (x_b s)) wk -> rem_ h' wk = rem_ (b_h (x_b s)) wk ->
  (exists c' c'', bh_cfg h' = Some c' /\ cfg_update c' cw None = Ok c'') ->
  exists r, boosted_hook (utot (x_f s) u) cfg cw h' s' wk (energy_at p wk) (En (b_w (x_b s)) wk) = Ok r.
Proof.
  intros X cw Hw Hp Hle Hc Hu Hsup Hrw Hacc Hrem (c' & c'' & Hc' & Hu').
  pose proof (guard_slack _ _ _ _ _ X Hw Hp Hle) as Hg. pose proof (pool_left_ledger _ _ _ X Hw) as Hl.
  pose proof X as [_ _ Hi _ N]. pose proof Hi as (_ & _ & _ & HC & HM & _). fold cw in HC, HM.
  set (h := b_h (x_b s)) in *. set (w := b_w (x_b s)) in *. set (gb := xg_b g) in *.
  set (pos := utot (x_f s) u) in *. set (e := energy_at p wk) in *. set (E := En w wk) in *.
  unfold boosted_hook. rewrite Hsup. set (F := Fw (x_b s) wk) in *.
  destruct ((E =? 0) || (F =? 0)) eqn:Ez; [eexists; reflexivity|].
  apply orb_false_iff in Ez. destruct Ez as (E1 & E2).
  unfold CI in HC. rewrite Hc in HC. destruct (g_fac gb) as [[f0 log]|] eqn:Eg; [|contradiction]. destruct HC as (Hci & _).
  destruct (cfg_update_inv _ _ _ _ _ _ Hci Hu) as (_ & Hlast & Hci').
  pose proof nslots_eq as HNS.
  destruct (get_factors_spec cfg f0 log wk Hci') as (Hg1 & _). rewrite Hg1 by (rewrite Hlast; lia). simpl bind.
  assert (Hfw : fac_at f0 log wk = fw gb wk) by (unfold fw; rewrite Eg; reflexivity). rewrite Hfw.
  set (fa := fw gb wk) in *.
  destruct ((e <? fa_mine fa) || (pos <? fa_minf fa)) eqn:Em; [eexists; reflexivity|].
  apply orb_false_iff in Em. destruct Em as (M1 & M2).
  assert (Hfok : 0 < fa_ce fa + fa_cf fa).
  { pose proof (nu_fok _ _ N) as Hf. fold gb in Hf. rewrite Eg in Hf. destruct Hf as (H0 & Hl0). rewrite <- Hfw. apply (fac_at_ok log f0 wk H0 Hl0). }
  unfold pool_left in Hl, Hg. fold h w in Hl, Hg. unfold b_collect_and_get. fold (rw_ s' wk). rewrite Hrw.
  destruct (rw_ w wk) as [|x l] eqn:Erw.
  - unfold b_collect. rewrite Hc', Hu'. simpl bind.
    destruct (m_win _ _ _ _ HM wk (proj1 Hw) Erw) as (_ & P0).
    fold (acc_ h' wk). rewrite Hacc.
    assert (HR : acc_ h wk = gcuts gb wk) by lia.
    rewrite HR. set (R := gcuts gb wk) in *.
    destruct (R =? 0) eqn:ER; [eexists; reflexivity|].
    unfold div_chk. assert (Ed : (fa_ce fa + fa_cf fa =? 0) = false) by (apply Z.eqb_neq; lia). rewrite Ed. simpl bind.
    fold (boosted_amount fa R pos F e E).
    destruct (0 <? boosted_amount fa R pos F e E) eqn:Epos; [|eexists; reflexivity]. apply Z.ltb_lt in Epos.
    assert (Hamt : hook_amount fa R pos F e E = boosted_amount fa R pos F e E).
    { unfold hook_amount, elig. rewrite E1, E2, M1, M2, ER. simpl. lia. }
    rewrite Hamt in Hg. unfold sub_chk. simpl. rewrite aget_aset_same.
    assert (Es : (R <? boosted_amount fa R pos F e E) = false) by (apply Z.ltb_ge; lia).
    rewrite Es. eexists; reflexivity.
  - assert (Hne : rw_ w wk <> []) by (rewrite Erw; discriminate).
    destruct (m_frozen _ _ _ _ HM wk Hne) as (Fz & _). rewrite Erw in Fz. rewrite Fz. cbn [bind].
    set (R := gcuts gb wk) in *.
    destruct (R =? 0) eqn:ER; [eexists; reflexivity|].
    unfold div_chk. assert (Ed : (fa_ce fa + fa_cf fa =? 0) = false) by (apply Z.eqb_neq; lia). rewrite Ed. simpl bind.
    fold (boosted_amount fa R pos F e E).
    destruct (0 <? boosted_amount fa R pos F e E) eqn:Epos; [|eexists; reflexivity]. apply Z.ltb_lt in Epos.
    assert (Hamt : hook_amount fa R pos F e E = boosted_amount fa R pos F e E).
    { unfold hook_amount, elig. rewrite E1, E2, M1, M2, ER. simpl. lia. }
    rewrite Hamt in Hg. unfold sub_chk. fold (rem_ h' wk). rewrite Hrem.
    assert (Es : (rem_ h wk <? boosted_amount fa R pos F e E) = false) by (apply Z.ltb_ge; lia).
    rewrite Es. eexists; reflexivity.
Qed.

(** ------------------------------------------------------------------ C.12 the settlement as a whole never aborts *)
Lemma cfg_update_again c cw c' : cfg_update c cw None = Ok c' -> exists c'', cfg_update c' cw None = Ok c''.
Proof.
  unfold cfg_update. destruct (c_last c <=? cw) eqn:E; [|discriminate].
  destruct (Z.min (cw - c_last c) NSLOTS =? 0) eqn:Ed.
  - intros H; inversion H; subst. rewrite E, Ed. eexists; reflexivity.
  - intros H; inversion H; subst. simpl. rewrite Z.leb_refl, Z.sub_diag.
    pose proof nslots_pos. rewrite Z.min_l by lia. simpl. eexists; reflexivity.
Qed.

Definition week_agrees (s : xstate) (h' : bhost) (s' : wstate) (wk : Z) : Prop :=
  aget (bh_sup h') wk = Fw (x_b s) wk /\ rw_ s' wk = rw_ (b_w (x_b s)) wk /\
  acc_ h' wk = acc_ (b_h (x_b s)) wk /\ rem_ h' wk = rem_ (b_h (x_b s)) wk /\ En s' wk = En (b_w (x_b s)) wk.

Lemma claim_weeks_total s g u p0 c cfg : XInv s g ->
  let cw := bcur_week (x_b s) in
  pfind (w_prog (b_w (x_b s))) u = Some p0 -> bh_cfg (b_h (x_b s)) = Some c -> cfg_update c cw None = Ok cfg ->
  forall n k h' s', 0 <= k -> cw - MAXW <= pr_week p0 + k -> pr_week p0 + k + Z.of_nat n <= cw ->
    (forall wk, pr_week p0 + k <= wk < pr_week p0 + k + Z.of_nat n -> week_agrees s h' s' wk) ->
    (exists c' c'', bh_cfg h' = Some c' /\ cfg_update c' cw None = Ok c'') ->
    exists r, claim_weeks bhost (boosted_hook (utot (x_f s) u) cfg cw) n h' s' (adv p0 k) = Ok r.
Proof.
  intros X cw Hp0 Hc Hu.
  assert (Ht0 : 0 <= en_tok (pr_en p0)) by (destruct X as [_ _ Hi _ _]; apply (BInv_wfp _ _ _ _ Hi Hp0)).
  induction n as [|n IH]; intros k h' s' Hk Hlo Hhi Hag Hcfg; [eexists; reflexivity|].
  simpl claim_weeks. unfold claim_single.
  set (wk := pr_week (adv p0 k)). assert (Ewk : wk = pr_week p0 + k) by (unfold wk; apply adv_week).
  destruct (Hag wk ltac:(lia)) as (A1 & A2 & A3 & A4 & A5).
  rewrite en_amount_energy_at. fold wk. rewrite energy_at_adv. fold (En s' wk). rewrite A5.
  destruct (hook_total_gen s g wk u p0 c cfg h' s' X ltac:(fold cw; lia) Hp0 ltac:(lia) Hc Hu A1 A2 A3 A4 Hcfg) as ([[h1 s1] r] & Hh).
  fold cw in Hh. rewrite Hh. simpl bind.
  rewrite advance_week_adv by (rewrite adv_tok; exact Ht0). rewrite adv_adv.
  destruct (hook_effect _ _ _ _ _ _ _ _ _ _ _ Hh) as (Hsbr & Hrwo & (f1 & _ & _ & _ & f5) & Hcs & _).
  destruct (IH (k + 1) h1 s1 ltac:(lia) ltac:(lia) ltac:(lia)) as (r2 & Hr2).
  - intros wk2 Hw2. assert (Hne : wk2 <> wk) by lia. destruct (Hag wk2 ltac:(lia)) as (B1 & B2 & B3 & B4 & B5).
    destruct (f5 wk2 Hne) as (g1 & g2). destruct Hsbr as (_ & Hen & _).
    unfold week_agrees. rewrite f1, (Hrwo wk2 Hne), g1, g2. unfold En. rewrite Hen. fold (En s' wk2).
    repeat split; assumption.
  - destruct Hcfg as (c' & c'' & Hc' & Hu'). destruct Hcs as [Hsame|(c1 & c2 & Hc1 & Hu1 & Hc2)].
    + exists c', c''. rewrite Hsame. split; assumption.
    + destruct (cfg_update_again _ _ _ Hu1) as (c3 & Hu3). exists c2, c3. split; assumption.
  - rewrite Hr2. destruct r2 as [[[h2 s2] p2] rs]. simpl. eexists; reflexivity.
Qed.

Lemma cfg_update_ok c cw : c_last c <= cw -> exists c', cfg_update c cw None = Ok c'.
Proof.
  intros H. unfold cfg_update. assert (E : (c_last c <=? cw) = true) by (apply Z.leb_le; exact H). rewrite E.
  destruct (Z.min (cw - c_last c) NSLOTS =? 0); eexists; reflexivity.
Qed.

(** claim_boosted_yields_rewards, called for ANY user with his present total position and any well-formed energy entry,
    on the state's module storage (possibly after the endpoint's own slice went into the running week), returns Ok *)
Lemma claim_boosted_total s g u cur h0 : XInv s g ->
  let cw := bcur_week (x_b s) in
  0 <= en_tok cur -> slice_rel cw (b_h (x_b s)) h0 ->
  exists r, claim_boosted h0 (b_w (x_b s)) u (utot (x_f s) u) cw cur = Ok r.
Proof.
  intros X cw Ht (r1 & r2 & r3 & r4 & r5 & r6 & r7). pose proof X as [_ _ Hi _ N].
  pose proof Hi as (_ & Hcw & HT & HC & _ & _). fold cw in Hcw, HT, HC.
  pose proof (nu_e _ _ N) as I0. fold cw in I0. set (w := b_w (x_b s)) in *. set (h := b_h (x_b s)) in *.
  unfold claim_boosted, try_get_cfg. rewrite r3. destruct (bh_cfg h) as [c|] eqn:Ec; [|eexists; reflexivity].
  unfold CI in HC. destruct (g_fac (xg_b g)) as [[f0 log]|]; [|contradiction]. destruct HC as (_ & Hcl).
  destruct (cfg_update_ok c cw Hcl) as (cfg & Hu). rewrite Hu. simpl bind.
  unfold claim_multi.
  destruct (update_user_energy_spec w cw u cur (e_w _ _ _ I0) (e_last _ _ _ I0) Hcw Ht) as (s1 & Hue & _ & _ & _).
  rewrite Hue. simpl bind.
  destruct (update_user_energy_frame _ _ _ _ _ Hue) as (_ & _ & Hen & Hrw).
  pose proof max_weeks_nonneg as HMX.
  destruct (pfind (w_prog w) u) as [p|] eqn:Ep.
  - assert (Hle : pr_week p <= cw) by (apply (T_find _ _ _ _ HT Ep)).
    assert (Ele : (pr_week p <=? cw) = true) by (apply Z.leb_le; exact Hle). rewrite Ele.
    assert (Htp : 0 <= en_tok (pr_en p)) by (apply (T_find _ _ _ _ HT Ep)).
    assert (Hcp : (if MAXW <? cw - pr_week p then advance_multiple_weeks p (cw - pr_week p - MAXW) else p)
                  = adv p (first_claim_week p cw - pr_week p)).
    { unfold first_claim_week. destruct (MAXW <? cw - pr_week p) eqn:Em.
      - apply Z.ltb_lt in Em. rewrite advance_multiple_adv by lia. f_equal. lia.
      - apply Z.ltb_ge in Em. replace (Z.max (pr_week p) (cw - MAXW) - pr_week p) with 0 by lia. rewrite adv_0. reflexivity. }
    rewrite Hcp. fold (nr_claim_weeks p cw).
    destruct (claim_weeks_total s g u p c cfg X Ep Ec Hu (nr_claim_weeks p cw) (first_claim_week p cw - pr_week p) h0 s1) as (r & Hr).
    + unfold first_claim_week. lia.
    + unfold first_claim_week. fold cw. lia.
    + unfold first_claim_week, nr_claim_weeks. fold cw. lia.
    + intros wk Hw. unfold first_claim_week, nr_claim_weeks in Hw. fold cw in Hw.
      assert (Hn1 : wk <> cw) by lia. assert (Hn2 : wk <> cleared_week cw) by (unfold cleared_week; lia).
      unfold week_agrees. fold w h. split; [unfold Fw; fold h; rewrite r2; reflexivity|].
      split; [unfold rw_; apply Hrw; exact Hn2|]. split; [apply r7; exact Hn1|].
      split; [unfold rem_; rewrite r1; reflexivity | unfold En; apply Hen; assumption].
    + exists c. destruct (cfg_update_again _ _ _ Hu) as (c3 & _). exists cfg. split; [exact r3 | exact Hu].
    + fold cw in Hr. rewrite Hr. destruct r as [[[h2 s2] p2] det]. simpl. eexists; reflexivity.
  - simpl. rewrite Z.leb_refl, Z.sub_diag.
    destruct (MAXW <? 0) eqn:Em; [apply Z.ltb_lt in Em; lia|]. rewrite Z.min_l by lia. simpl. eexists; reflexivity.
Qed.

Lemma slice_total h cw full : 0 <= full -> 0 <= bh_pct h <= BOOSTED_MAX_PERCENT ->
  exists r, take_reward_slice h cw full = Ok r.
Proof.
  intros Hf Hp. unfold take_reward_slice.
  destruct ((bh_pct h =? 0) || match bh_cfg h with None => true | Some _ => false end); [eexists; reflexivity|].
  destruct (0 <? full * bh_pct h / BOOSTED_MAX_PERCENT); [|eexists; reflexivity].
  assert (Hc : full * bh_pct h / BOOSTED_MAX_PERCENT <= full).
  { apply Z.div_le_upper_bound; [vm_compute; reflexivity|]. assert (0 < BOOSTED_MAX_PERCENT) by (vm_compute; reflexivity). nia. }
  unfold sub_chk. assert (E : (full <? full * bh_pct h / BOOSTED_MAX_PERCENT) = false) by (apply Z.ltb_ge; exact Hc).
  rewrite E. simpl. eexists; reflexivity.
Qed.

Lemma uep_total w u cw cur : WInv w -> w_last w <= cw -> 1 <= cw -> 0 <= en_tok cur ->
  exists w', update_energy_and_progress w u cw cur = Ok w'.
Proof.
  intros Hinv Hle Hcw Ht. unfold update_energy_and_progress.
  destruct (update_user_energy_spec w cw u cur Hinv Hle Hcw Ht) as (s2 & Hue & _). rewrite Hue. simpl. eexists; reflexivity.
Qed.

Lemma clear_total h w u cw ep posa : WInv w -> w_last w <= cw -> 1 <= cw ->
  (forall c, bh_cfg h = Some c -> c_last c <= cw) ->
  exists w', clear_if_needed h w u cw ep posa = Ok w'.
Proof.
  intros Hinv Hle Hcw Hc. unfold clear_if_needed, try_get_cfg. destruct (bh_cfg h) as [c|] eqn:Ec; [|eexists; reflexivity].
  destruct (cfg_update_ok c cw (Hc c eq_refl)) as (cfg & Hu). rewrite Hu. simpl bind.
  unfold clear_user_energy. destruct (fa_minf (last_slot cfg) <=? posa); [eexists; reflexivity|].
  assert (Ht : 0 <= en_tok (en_zero ep)) by (simpl; lia).
  destruct (update_user_energy_spec w cw u (en_zero ep) Hinv Hle Hcw Ht) as (s2 & Hue & _). rewrite Hue. simpl. eexists; reflexivity.
Qed.

Lemma energy_entry_tok_nn raw ep : (forall e, raw = Some e -> 0 <= en_tok e) -> 0 <= en_tok (energy_entry raw ep).
Proof. intros H. unfold energy_entry. destruct raw as [e|]; [rewrite en_deplete_tok; apply H; reflexivity | simpl; lia]. Qed.

Lemma emission_nonneg f blk : 0 <= f_rate f -> 0 <= emission f blk.
Proof. intros Hr. unfold emission. destruct (blk <=? f_last f) eqn:E; [lia|]. apply Z.leb_gt in E. destruct (f_produce f); nia. Qed.

(** the raw energy entry is well formed: total locked tokens are a BigUint *)
Definition raw_ok (op : xop) : Prop :=
  match op with
  | XEnter _ _ _ raw | XClaim _ _ _ raw | XCompound _ _ _ raw | XExit _ _ raw | XMerge _ _ raw | XClaimBoosted _ raw
  | XUpdateEnergy _ _ raw => forall e, raw = Some e -> 0 <= en_tok e
  | _ => True
  end.

(** C11_no_underflow at the endpoints: in a reachable state the boosted-yields half of enterFarm / claimRewards /
    compoundRewards / exitFarm / mergeFarmTokens / claimBoostedRewards cannot abort — whatever the caller, payments and
    stored energy entry (claimBoostedRewards: for a user with a position): no remaining(week), bucket, total-energy or
    total-locked-tokens counter goes negative, no division by zero, no register or freeze failure *)
Lemma module_half_total s g op u S P : XInv s g -> claim_user op = Some u -> raw_ok op -> 0 <= S -> 0 <= P ->
  (forall c raw, op = XClaimBoosted c raw -> utot (x_f s) c <> 0) ->
  exists r, run_b (x_b s) (bop_of s op S P) = Ok r.
Proof.
  intros X Hcu Hraw HS HP Hcb. pose proof X as [K (U & _) Hi L N].
  pose proof Hi as (Htime & Hcw & HT & HC & _ & Hpct). set (cw := bcur_week (x_b s)) in *.
  pose proof (nu_e _ _ N) as I0. fold cw in I0.
  destruct K as (A & _). pose proof A as [M _ _]. pose proof (UT_nn _ M U) as Hnn.
  assert (Hrate : 0 <= f_rate (x_f s)) by (destruct M as [_ _ _ _ _ _ (_ & X0 & _)]; exact X0).
  pose proof (emission_nonneg (x_f s) (x_blk s) Hrate) as Hem.
  assert (Hweek : current_week (x_b s) = Ok cw).
  { unfold current_week, week_for_epoch. assert (E : (b_first (x_b s) <=? b_epoch (x_b s)) = true) by (apply Z.leb_le; exact Htime). rewrite E. reflexivity. }
  assert (Hcfgle : forall h, (forall c, bh_cfg h = Some c -> exists c0, bh_cfg (b_h (x_b s)) = Some c0 /\ (c = c0 \/ cfg_update c0 cw None = Ok c)) ->
                   forall c, bh_cfg h = Some c -> c_last c <= cw).
  { intros h Hh c Ec. destruct (Hh c Ec) as (c0 & E0 & Hor). unfold CI in HC. rewrite E0 in HC.
    destruct (g_fac (xg_b g)) as [[f0 log]|]; [|contradiction]. destruct HC as (Hci & Hl).
    destruct Hor as [->|Hu]; [exact Hl|]. destruct (cfg_update_inv _ _ _ _ _ _ Hci Hu) as (_ & E1 & _). lia. }
  (* the claim and what follows it *)
  assert (Hclaim : forall h0 cur, 0 <= en_tok cur -> slice_rel cw (b_h (x_b s)) h0 ->
            exists h1 w1 det, claim_boosted h0 (b_w (x_b s)) u (utot (x_f s) u) cw cur = Ok (h1, w1, det) /\
              WInv w1 /\ w_last w1 <= cw /\ bh_pct h1 = bh_pct (b_h (x_b s)) /\
              (forall c, bh_cfg h1 = Some c -> c_last c <= cw)).
  { intros h0 cur Ht Hrel. destruct (claim_boosted_total s g u cur h0 X Ht Hrel) as ([[h1 w1] det] & Hc). fold cw in Hc.
    exists h1, w1, det. split; [exact Hc|].
    assert (Hwf : forall p, pfind (w_prog (b_w (x_b s))) u = Some p -> 0 <= en_tok (pr_en p)) by (intros p Hp; apply (BInv_wfp _ _ _ _ Hi Hp)).
    destruct Hrel as (_ & _ & r3 & _ & _ & r6 & _).
    destruct (claim_cfg_presence _ _ _ _ _ _ _ _ _ Hwf Hc) as (P1 & _).
    assert (Hw1 : WInv w1 /\ w_last w1 <= cw).
    { destruct (bh_cfg h0) eqn:E0.
      - destruct (claim_boosted_touch _ _ _ _ _ _ _ _ _ Hc ltac:(rewrite E0; discriminate) (e_w _ _ _ I0) (e_last _ _ _ I0) Hcw Ht) as (c0 & _ & _ & Hl & _ & Hw).
        split; [exact Hw | lia].
      - unfold claim_boosted, try_get_cfg in Hc. rewrite E0 in Hc. simpl in Hc. inversion Hc; subst. split; [apply (e_w _ _ _ I0) | apply (e_last _ _ _ I0)]. }
    destruct Hw1 as (W1 & W2). split; [exact W1|]. split; [exact W2|]. split; [rewrite P1, r6; reflexivity|].
    destruct (claim_boosted_summary _ _ _ _ _ _ _ _ _ Hwf Hc) as [(_ & -> & _)|(c & cfg & s1 & Hcfg & Hu & _ & _ & _ & _ & _ & (_ & _ & _ & _ & _ & S6 & _))].
    - apply Hcfgle. intros c Ec. exists c. split; [rewrite <- r3; exact Ec | left; reflexivity].
    - intros c1 Ec1. unfold CI in HC. rewrite <- r3, Hcfg in HC. destruct (g_fac (xg_b g)) as [[f0 log]|]; [|contradiction].
      destruct HC as (Hci & Hl).
      apply (S6 (fun oc => forall c2, oc = Some c2 -> c_last c2 <= cw)); [| |exact Ec1].
      + intros ca cb Hab Hpa c2 E2. inversion E2; subst c2. specialize (Hpa ca eq_refl).
        unfold cfg_update in Hab. destruct (c_last ca <=? cw); [|discriminate].
        destruct (Z.min (cw - c_last ca) NSLOTS =? 0); inversion Hab; subst; simpl; lia.
      + intros c2 E2. rewrite Hcfg in E2. inversion E2; subst. exact Hl. }
  destruct op; try discriminate; simpl in Hcu; inversion Hcu; subst u; simpl bop_of; unfold run_b; simpl Boosted.step;
    simpl in Hraw; pose proof (energy_entry_tok_nn raw (b_epoch (x_b s)) Hraw) as Hcur;
    set (cur := energy_entry raw (b_epoch (x_b s))) in *; set (pos := utot (x_f s) c) in *;
    set (full := emission (x_f s) (x_blk s)) in *.
  - (* enter: claim, slice, supply, progress *)
    unfold Boosted.ep_enter. assert (Ew : wf_in cur pos full S = true) by (unfold wf_in; rewrite !andb_true_iff, !Z.leb_le; pose proof (Hnn c); unfold pos; lia).
    rewrite Ew, Hweek. simpl bind.
    destruct (Hclaim (b_h (x_b s)) cur Hcur (slice_rel_refl _ _)) as (h1 & w1 & det & Hc & W1 & W2 & P1 & C1). rewrite Hc. simpl bind.
    destruct (slice_total h1 cw full Hem ltac:(rewrite P1; exact Hpct)) as ([[h2 b2] cut] & Hs). rewrite Hs. simpl bind.
    destruct (uep_total w1 c cw cur W1 W2 Hcw Hcur) as (w2 & Hu). rewrite Hu. simpl. eexists; reflexivity.
  - (* claim *)
    unfold Boosted.ep_claim. assert (Ew : wf_in cur pos full S = true) by (unfold wf_in; rewrite !andb_true_iff, !Z.leb_le; pose proof (Hnn c); unfold pos; lia).
    rewrite Ew, Hweek. simpl bind.
    destruct (slice_total (b_h (x_b s)) cw full Hem Hpct) as ([[h2 b2] cut] & Hs). rewrite Hs. simpl bind.
    destruct (Hclaim h2 cur Hcur (slice_rel_of _ _ _ _ _ _ Hs)) as (h1 & w1 & det & Hc & W1 & W2 & P1 & C1). rewrite Hc. simpl. eexists; reflexivity.
  - (* compound *)
    unfold Boosted.ep_compound. assert (Ew : wf_in cur pos full S = true) by (unfold wf_in; rewrite !andb_true_iff, !Z.leb_le; pose proof (Hnn c); unfold pos; lia).
    rewrite Ew, Hweek. simpl bind.
    destruct (slice_total (b_h (x_b s)) cw full Hem Hpct) as ([[h2 b2] cut] & Hs). rewrite Hs. simpl bind.
    destruct (Hclaim h2 cur Hcur (slice_rel_of _ _ _ _ _ _ Hs)) as (h1 & w1 & det & Hc & W1 & W2 & P1 & C1). rewrite Hc. simpl bind.
    destruct (uep_total w1 c cw cur W1 W2 Hcw Hcur) as (w2 & Hu). rewrite Hu. simpl. eexists; reflexivity.
  - (* exit *)
    unfold Boosted.ep_exit. assert (Ew : wf_in cur pos full S && (0 <=? P) = true) by (unfold wf_in; rewrite !andb_true_iff, !Z.leb_le; pose proof (Hnn c); unfold pos; lia).
    rewrite Ew, Hweek. simpl bind.
    destruct (slice_total (b_h (x_b s)) cw full Hem Hpct) as ([[h2 b2] cut] & Hs). rewrite Hs. simpl bind.
    destruct (Hclaim h2 cur Hcur (slice_rel_of _ _ _ _ _ _ Hs)) as (h1 & w1 & det & Hc & W1 & W2 & P1 & C1). rewrite Hc. simpl bind.
    destruct (clear_total (set_sup h1 cw S) w1 c cw (b_epoch (x_b s)) P W1 W2 Hcw C1) as (w2 & Hu). rewrite Hu. simpl. eexists; reflexivity.
  - (* merge *)
    unfold Boosted.ep_merge. assert (Ew : wf_in cur pos 0 0 = true) by (unfold wf_in; rewrite !andb_true_iff, !Z.leb_le; pose proof (Hnn c); unfold pos; lia).
    rewrite Ew, Hweek. simpl bind.
    destruct (Hclaim (b_h (x_b s)) cur Hcur (slice_rel_refl _ _)) as (h1 & w1 & det & Hc & W1 & W2 & P1 & C1). rewrite Hc. simpl. eexists; reflexivity.
  - (* claimBoosted *)
    unfold Boosted.ep_claim_boosted. assert (Ew : wf_in cur pos full S = true) by (unfold wf_in; rewrite !andb_true_iff, !Z.leb_le; pose proof (Hnn c); unfold pos; lia).
    rewrite Ew. assert (En0 : negb (pos =? 0) = true) by (apply negb_true_iff; apply Z.eqb_neq; apply (Hcb c raw eq_refl)). rewrite En0, Hweek. simpl bind.
    destruct (slice_total (b_h (x_b s)) cw full Hem Hpct) as ([[h2 b2] cut] & Hs). rewrite Hs. simpl bind.
    destruct (Hclaim h2 cur Hcur (slice_rel_of _ _ _ _ _ _ Hs)) as (h1 & w1 & det & Hc & W1 & W2 & P1 & C1). rewrite Hc. simpl. eexists; reflexivity.
Qed.

(** ------------------------------------------------------------------ C.13 the payout against the farm's counters *)
Lemma claim_weeks_paynn pos cfg cw n : forall h s p h' s' p' det,
  claim_weeks bhost (boosted_hook pos cfg cw) n h s p = Ok (h', s', p', det) -> 0 <= pay_total det.
Proof.
  induction n as [|n IH]; intros h s p h' s' p' det; simpl claim_weeks.
  - intros Heq; inversion Heq; subst. rewrite pay_total_nil. lia.
  - intros Heq. bnd Heq x1 Hs. destruct x1 as [[[h1 s1] p1] r]. bnd Heq x2 Hr. destruct x2 as [[[h2 s2] p2] rs].
    inversion Heq; subst; clear Heq. rewrite pay_total_cons.
    unfold claim_single in Hs. bnd Hs x3 Hh. destruct x3 as [[hx sx] rx]. inversion Hs; subst; clear Hs.
    destruct (hook_effect _ _ _ _ _ _ _ _ _ _ _ Hh) as (_ & _ & _ & _ & _ & _ & _ & R0 & _).
    specialize (IH _ _ _ _ _ _ _ Hr). lia.
Qed.

Lemma step_payout_nonneg s g op s' out : BoostedProofs.BInv s g -> step s op = Ok (s', out) -> 0 <= o_b out.
Proof.
  intros Hi Hs. destruct (claim_of op) as [[[u cur] pos]|] eqn:Ec.
  - destruct (step_claim_decomp _ _ _ _ _ _ _ Hs Ec) as (h0 & h1 & w1 & _ & _ & _ & Hcb & Hob & _). rewrite Hob.
    assert (Hwf : forall p, pfind (w_prog (b_w s)) u = Some p -> 0 <= en_tok (pr_en p)) by (intros p Hp; apply (BInv_wfp _ _ _ _ Hi Hp)).
    destruct (claim_boosted_summary _ _ _ _ _ _ _ _ _ Hwf Hcb) as [(_ & _ & _ & ->)|(c & cfg & s1 & _ & _ & _ & _ & _ & _ & Hm & _)];
      [rewrite pay_total_nil; lia|].
    destruct (pfind (w_prog (b_w s)) u) as [p|]; [|destruct Hm as (-> & _); rewrite pay_total_nil; lia].
    destruct Hm as (_ & s2 & _ & Hcw). apply (claim_weeks_paynn _ _ _ _ _ _ _ _ _ _ _ Hcw).
  - destruct (step_noclaim _ _ _ _ Hs Ec) as (_ & -> & _). lia.
Qed.

Lemma asum_nonneg_aget l : NoDup (akeys l) -> (forall k, 0 <= aget l k) -> 0 <= asum l.
Proof.
  induction l as [|[k v] t IH]; simpl; intros Hnd Hk; [lia|]. inversion Hnd as [|? ? Hnin Hnd']; subst.
  assert (Hv : 0 <= v) by (specialize (Hk k); rewrite Z.eqb_refl in Hk; exact Hk).
  assert (Ht : 0 <= asum t).
  { apply IH; [exact Hnd'|]. intros k'. specialize (Hk k'). destruct (k =? k') eqn:E; [|exact Hk].
    apply Z.eqb_eq in E. subst k'. rewrite (aget_notin t k Hnin). lia. }
  lia.
Qed.

(** whatever the module pays in an operation is non-negative and within the farm's aggregate pool (plus this
    operation's own slice): the [pool] and [reserve] debits of the farm half's pay_reward cannot fail on it
    (Props/C05 C05_reward_payable asks exactly for 0 <= b <= f_pool) *)
Lemma payout_within_pool s g bo b' out : XInv s g -> step (x_b s) bo = Ok (b', out) ->
  0 <= o_b out <= f_pool (x_f s) + o_cut out.
Proof.
  intros [_ _ Hi (L1 & _) _] Hs. split; [apply (step_payout_nonneg _ _ _ _ _ Hi Hs)|].
  pose proof (step_books _ _ _ _ _ Hi Hs) as Hb. pose proof (step_inv _ _ _ _ _ Hi Hs) as Hi'.
  destruct Hi' as (_ & _ & _ & _ & HM' & _).
  assert (0 <= msum (b_h b') + bh_und (b_h b')).
  { destruct (m_nd _ _ _ _ HM') as (N1 & N2). destruct (m_und _ _ _ _ HM') as (_ & U0). unfold msum.
    assert (0 <= asum (bh_acc (b_h b'))) by (apply asum_nonneg_aget; [exact N1 | intros k; apply (m_nn _ _ _ _ HM' k)]).
    assert (0 <= asum (bh_rem (b_h b'))) by (apply asum_nonneg_aget; [exact N2 | intros k; apply (m_nn _ _ _ _ HM' k)]).
    lia. }
  lia.
Qed.

(** C05's last clause for the closed model: a user endpoint fails only if its farm half fails — with the boosted payout
    the module computed, which the farm's pool covers *)
Lemma user_step_fails_in_farm_half s g op u e : XInv s g -> xvalid op -> claim_user op = Some u -> raw_ok op ->
  (forall c raw, op = XClaimBoosted c raw -> utot (x_f s) c <> 0) ->
  full_step s op = Err e ->
  exists b1 o1 fo e', run_b (x_b s) (bop_of s op 0 0) = Ok (b1, o1) /\ fop_of s op (o_b o1) = Some fo /\
                      fstep (x_f s) fo = Err e' /\ 0 <= o_b o1 <= f_pool (x_f s) + o_cut o1.
Proof.
  intros X V Hcu Hraw Hcb H. pose proof X as [K UA Hi L N].
  destruct (module_half_total s g op u 0 0 X Hcu Hraw ltac:(lia) ltac:(lia) Hcb) as ([b1 o1] & H1).
  destruct (user_ops_shape s op u 0 0 (o_b o1) Hcu) as (bo & fo & cur & Eb & _ & Ef & _).
  assert (Hpool : 0 <= o_b o1 <= f_pool (x_f s) + o_cut o1).
  { rewrite Eb in H1. simpl in H1. apply (payout_within_pool _ _ _ _ _ X H1). }
  exists b1, o1, fo. unfold full_step in H.
  assert (Hck : clock_of s op = Ok (x_blk s)) by (destruct op; try discriminate; reflexivity).
  rewrite Hck, H1 in H. simpl bind in H. rewrite Ef in H. simpl run_f in H.
  destruct (fstep (x_f s) fo) as [[f' fou]|e'] eqn:Hf; [|exists e'; repeat split; try assumption; apply Hpool].
  exfalso. simpl bind in H.
  destruct (fstep_farmok _ _ _ _ Hf K UA (fop_of_valid _ _ _ _ V Ef)) as ((A' & _) & U' & _).
  assert (Hs0 : 0 <= f_supply f') by (destruct A' as [[_ _ _ _ _ _ (_ & _ & _ & X0 & _)] _ _]; exact X0).
  assert (Hp0 : 0 <= utot f' (caller_of op)) by (destruct A' as [M' _ _]; apply (UT_nn _ M' U')).
  destruct (module_half_total s g op u (f_supply f') (utot f' (caller_of op)) X Hcu Hraw Hs0 Hp0 Hcb) as ([b2 o2] & H2).
  rewrite H2 in H. simpl in H. discriminate.
Qed.
