(** On-behalf endpoints (Model/FarmBehalf.v, Model/StakingBehalf.v): every invariant of the underlying models
    transfers (the endpoints are compositions of their operations), the endpoints are characterised
    (who must have authorised whom, whose positions, who gets the rewards, who holds the new position, whose
    total moves), unauthorised / foreign-owner calls fail, and no on-behalf operation pays out principal. *)
From MX Require Import Base.Prelude Gen.Params Proofs.FarmInv.
From MX Require Model.Access Proofs.AccessProofs.
From MX Require Model.Farm Model.FarmLocked Model.FarmBehalf Proofs.FarmInv Proofs.FarmSolv Proofs.FarmOwner Proofs.FarmLockedProofs.
From MX Require Model.Staking Model.StakingPos Model.StakingBehalf Proofs.StakingProofs Proofs.StakingPosProofs.

(** ================================================================== the hub (shared) *)
(** every listed pair was listed by a valid account *)
Definition hub_ok (h : Access.hub) : Prop :=
  forall u a, Access.pmem (u, a) (Access.h_wl h) = true -> valid_id u.

Definition hub_caller (op : Access.hub_op) : Z :=
  match op with
  | Access.HWhitelist c _ | Access.HRemoveWhitelist c _ | Access.HBlacklist c _ | Access.HRemoveBlacklist c _ => c
  end.

Lemma pmem_premove x y l : Access.pmem x (Access.premove y l) = true -> Access.pmem x l = true.
Proof.
  unfold Access.pmem, Access.premove. induction l as [|z t IH]; simpl; [auto|].
  destruct (negb (Access.pair_eqb z y)); simpl.
  - destruct (Access.pair_eqb x z); [reflexivity | exact IH].
  - intros H. apply IH in H. rewrite H. apply orb_true_r.
Qed.

Lemma pair_eqb_eq x y : Access.pair_eqb x y = true -> x = y.
Proof.
  unfold Access.pair_eqb. destruct x, y. simpl. intros H. apply andb_prop in H. destruct H as [A B].
  apply Z.eqb_eq in A, B. congruence.
Qed.

Lemma hub_step_ok h op h' : Access.hub_step h op = Ok h' -> hub_ok h -> valid_id (hub_caller op) -> hub_ok h'.
Proof.
  unfold Access.hub_step, hub_ok. intros H K V u a.
  destruct op as [c x|c x|c x|c x]; simpl in *.
  - destruct (negb _); [|discriminate]. inversion H; subst; clear H. simpl.
    destruct (Access.pair_eqb (u, a) (c, x)) eqn:E; simpl.
    + apply pair_eqb_eq in E. inversion E; subst. intros _. exact V.
    + apply K.
  - destruct (Access.pmem _ _); [|discriminate]. inversion H; subst; clear H. simpl.
    intros P. apply pmem_premove in P. eapply K; eauto.
  - destruct (c =? _); [|discriminate]. inversion H; subst; clear H. simpl. apply K.
  - destruct (c =? _); [|discriminate]. inversion H; subst; clear H. simpl. apply K.
Qed.

Lemma is_whitelisted_listed h u a : Access.is_whitelisted h u a = true ->
  Access.pmem (u, a) (Access.h_wl h) = true /\ Access.zmem a (Access.h_black h) = false.
Proof.
  unfold Access.is_whitelisted. intros H. apply andb_prop in H. destruct H as [A B].
  split; [exact B|]. destruct (Access.zmem a (Access.h_black h)); [discriminate | reflexivity].
Qed.

(** get_claim_original_owner: every owner is the (non-zero) result *)
Lemma claim_owner_all owners : forall acc u, Access.claim_original_owner owners acc = Ok u ->
  Forall (fun o => o = u /\ o <> 0) owners /\ match acc with Some x => x = u | None => owners <> [] end.
Proof.
  induction owners as [|o t IH]; intros acc u H; simpl in H.
  - destruct acc; inversion H; subst. split; [constructor | reflexivity].
  - destruct (negb (o =? 0)) eqn:E0; [|discriminate].
    assert (o <> 0) by (intros ->; discriminate).
    destruct acc as [x|].
    + destruct (x =? o) eqn:E; [|discriminate]. apply Z.eqb_eq in E. subst x.
      apply IH in H. destruct H as [F A]. simpl in A. subst o. split; [constructor; auto | reflexivity].
    + apply IH in H. destruct H as [F A]. simpl in A. subst o. split; [constructor; auto | discriminate].
Qed.

(** ================================================================== dex/farm and the locked farm *)
Module FarmB.
Import Farm FarmLocked FarmBehalf FarmInv FarmSolv FarmOwner FarmLockedProofs.

(** everything an ESDT transfer of a position leaves alone *)
Definition but_held (f : farm) := (core f, cfgt f, money f, f_next f, f_attrs f, f_utot f, f_out f).

(** the recorded owner of every payment is [u] *)
Definition owned (f : farm) (u : Z) (ps : list (Z * Z)) : Prop :=
  Forall (fun p => exists a, find_attrs (f_attrs f) (fst p) = Some a /\ a_owner a = u) ps.

Lemma owned_ext f f' u ps : f_attrs f' = f_attrs f -> owned f u ps -> owned f' u ps.
Proof. unfold owned. intros E. rewrite E. auto. Qed.

Lemma owners_of_spec ps : forall f l, owners_of f ps = Ok l ->
  Forall2 (fun p o => exists a, find_attrs (f_attrs f) (fst p) = Some a /\ a_owner a = o) ps l.
Proof.
  induction ps as [|p t IH]; intros f l H; simpl in H.
  - inversion H; subst. constructor.
  - apply bind_ok in H. destruct H as (a & Ha & H). apply bind_ok in H. destruct H as (r & Hr & H).
    inversion H; subst; clear H. constructor; [|apply IH; exact Hr].
    exists a. split; [apply get_attrs_some; exact Ha | reflexivity].
Qed.

Lemma owners_all_owned f ps l u : owners_of f ps = Ok l -> Forall (fun o => o = u) l -> owned f u ps.
Proof.
  intros H F. apply owners_of_spec in H. unfold owned. induction H; [constructor|].
  inversion F; subst. constructor; auto.
Qed.

Lemma owned_owners f ps u : owned f u ps -> exists l, owners_of f ps = Ok l /\ Forall (fun o => o = u) l.
Proof.
  unfold owned. induction ps as [|p t IH]; intros H.
  - exists []. split; [reflexivity | constructor].
  - inversion H as [|? ? (a & Ha & Ho) Ht]; subst. destruct (IH Ht) as (l & Hl & Fl).
    exists (a_owner a :: l). split; [|constructor; auto].
    simpl. unfold get_attrs. rewrite Ha. simpl. rewrite Hl. reflexivity.
Qed.

Lemma enter_guard_spec h a u owners r : Access.enter_on_behalf h a u owners = Ok r ->
  Access.is_whitelisted h u a = true /\ Forall (fun o => o = u) owners.
Proof.
  unfold Access.enter_on_behalf. destruct (Access.is_whitelisted h u a); [|discriminate].
  destruct (forallb (fun o => o =? u) owners) eqn:E; [|discriminate]. intros _. split; [reflexivity|].
  rewrite forallb_forall in E. apply Forall_forall. intros o Ho. apply Z.eqb_eq. auto.
Qed.

(** check_and_update_user_farm_position does nothing on positions already recorded for the user *)
Lemma check_update_owned ps : forall f u, owned f u ps -> check_update f u ps = Ok f.
Proof.
  induction ps as [|[n x] t IH]; intros f u H; simpl; [reflexivity|].
  inversion H as [|? ? (a & Ha & Ho) Ht]; subst. simpl in Ha.
  unfold get_attrs. rewrite Ha. simpl. rewrite Z.eqb_refl. apply IH. exact Ht.
Qed.

(** ---------------------------------------------------------------- sequences are runs *)
Lemma fseq_frun ops : forall f f', fseq f ops = Ok f' -> f' = frun f ops.
Proof.
  induction ops as [|op t IH]; intros f f' H; simpl in H.
  - inversion H; reflexivity.
  - apply bind_ok in H. destruct H as ([f1 o] & H1 & H). simpl in H.
    unfold frun. simpl. unfold fstep_total at 2. rewrite H1. apply IH. exact H.
Qed.

Lemma frun_app f l1 l2 : frun f (l1 ++ l2) = frun (frun f l1) l2.
Proof. unfold frun. apply fold_left_app. Qed.

Lemma frun_one f op f' o : fstep f op = Ok (f', o) -> frun f [op] = f'.
Proof. intros H. unfold frun. simpl. unfold fstep_total. rewrite H. reflexivity. Qed.

Lemma xfers_valid a u ps : valid_id a -> valid_id u -> Forall valid_op (map (xfer a u) ps).
Proof. intros Ha Hu. induction ps; simpl; constructor; auto. simpl. auto. Qed.

Lemma ep_transfer_frame f n s d x f' o : ep_transfer f n s d x = Ok (f', o) ->
  but_held f' = but_held f /\ 0 < x <= held f n s /\ o = [] /\
  f_held f' = aset (aset (f_held f) (hkey n s) (held f n s - x)) (hkey n d)
                   (aget (aset (f_held f) (hkey n s) (held f n s - x)) (hkey n d) + x).
Proof.
  unfold ep_transfer, debit_held. intros H.
  destruct (0 <? x) eqn:Ex; [|discriminate]. apply Z.ltb_lt in Ex.
  apply bind_ok in H. destruct H as (f1 & H1 & H). apply bind_ok in H1. destruct H1 as (b & Hb & H1).
  apply sub_chk_ok in Hb. destruct Hb as [Hb ->]. inversion H1; subst f1; clear H1.
  inversion H; subst; clear H. unfold but_held, core, cfgt, money, held. simpl. repeat split; auto; lia.
Qed.

Lemma xfers_frame ps : forall f a u f1, fseq f (map (xfer a u) ps) = Ok f1 -> but_held f1 = but_held f.
Proof.
  induction ps as [|p t IH]; intros f a u f1 H; simpl in H.
  - inversion H; reflexivity.
  - apply bind_ok in H. destruct H as ([f0 o] & H0 & H). simpl in H, H0.
    apply ep_transfer_frame in H0. destruct H0 as (B & _). apply IH in H. congruence.
Qed.

Lemma but_held_fields f f' : but_held f' = but_held f ->
  core f' = core f /\ cfgt f' = cfgt f /\ money f' = money f /\ f_next f' = f_next f /\ f_attrs f' = f_attrs f /\
  f_utot f' = f_utot f /\ f_out f' = f_out f.
Proof. unfold but_held. intros H. repeat split; congruence. Qed.


(** ---------------------------------------------------------------- the shape of the user's own operation when every
    paid position is already recorded for the user *)
Lemma toks_all f f' : toks f' = toks f ->
  f_next f' = f_next f /\ f_attrs f' = f_attrs f /\ f_held f' = f_held f /\ f_utot f' = f_utot f /\ f_out f' = f_out f.
Proof. unfold toks. intros H. repeat split; congruence. Qed.

Lemma hkey_ne n a u : valid_id a -> valid_id u -> a <> u -> hkey n a <> hkey n u.
Proof. unfold hkey, valid_id. lia. Qed.

Lemma FarmTotal_find l n a : find_attrs l n = Some a -> In (n, a) l.
Proof.
  induction l as [|[k a'] t IH]; simpl; [discriminate|].
  destruct (k =? n) eqn:E; [apply Z.eqb_eq in E; intros H; inversion H; subst; left; reflexivity | intros H; right; auto].
Qed.

Lemma fresh_key f n c : MI f -> f_next f <= n -> valid_id c -> aget (f_held f) (hkey n c) = 0.
Proof.
  intros M Hn Hc. apply aget_notin. intros Hin. apply (mi_fresh_held _ M) in Hin.
  unfold hkey, valid_id in *. lia.
Qed.

Lemma ep_enter_shape f blk ep c amt adds b f' o :
  ep_enter f blk ep c amt adds b = Ok (f', o) -> MI f -> valid_id c -> owned f c adds ->
  exists m,
    o = [f_next f; a_amt m; b] /\ a_owner m = c /\ a_amt m = amt + psum (fun _ => 1) adds /\ 0 < amt /\
    f_attrs f' = f_attrs f ++ [(f_next f, m)] /\ f_next f' = f_next f + 1 /\
    f_utot f' = aset (f_utot f) c (utot f c + amt) /\
    f_bal_farming f' = f_bal_farming f + amt /\ f_supply f' = f_supply f + amt /\
    held f' (f_next f) c = a_amt m /\
    (forall d, valid_id d -> d <> c -> held f' (f_next f) d = 0).
Proof.
  unfold ep_enter. intros H M Hc Hown.
  destruct (0 <? amt) eqn:Ea; [|discriminate]. apply Z.ltb_lt in Ea.
  apply bind_ok in H. destruct H as (f0 & H0 & H).
  destruct (active f0); [|discriminate].
  apply bind_ok in H. destruct H as (f1 & H1 & H).
  apply bind_ok in H. destruct H as (f2 & H2 & H).
  apply bind_ok in H. destruct H as (f4 & H4 & H).
  apply bind_ok in H. destruct H as (m & Hm & H).
  destruct (mint_pos _ m c) as [f6 n] eqn:Hmint. inversion H; subst f' o; clear H.
  apply pay_reward_MI in H0; auto.
  destruct H0 as (M0 & D0 & C0 & T0 & S0 & R0 & L0 & BF0 & G0 & Hb & Hr & Res0 & P0 & Pd0).
  destruct (toks_all _ _ T0) as (Nx0 & At0 & He0 & Ut0 & Ou0).
  pose proof H1 as H1'. apply pay_all_MI in H1'; auto. destruct H1' as (M1 & SB1 & N1 & A1 & U1 & O1 & Pos1 & K1).
  assert (HK1 : forall k, In k (akeys (f_held f1)) -> In k (akeys (f_held f0))).
  { destruct M0 as [_ led _ _ _ _ _]. apply pay_all_post in H1; auto. destruct H1. assumption. }
  assert (Hown1 : owned f1 c adds) by (apply (owned_ext f); [congruence | exact Hown]).
  rewrite (check_update_owned adds f1 c Hown1) in H2. inversion H2; subst f2; clear H2.
  pose proof (set_utot_only f1 c (utot f1 c + amt)) as H3. fold (increase_user f1 c amt) in H3.
  pose proof (only_utot_MI _ _ H3 M1) as M3.
  apply settle_MI in H4; auto.
  destruct H4 as (M4 & D4 & C4 & T4 & S4 & BF4 & Pd4 & L4 & _).
  destruct (toks_all _ _ T4) as (Nx4 & At4 & He4 & Ut4 & Ou4).
  assert (Hs4 : 0 <= f_supply f4) by (destruct M4 as [_ _ _ _ _ _ (_ & _ & _ & X & _)]; exact X).
  pose proof (upd_supply_MI f4 (f_supply f4 + amt) M4 ltac:(lia)) as M5.
  set (f5 := upd_core f4 (f_supply f4 + amt) (f_reserve f4) (f_rps f4) (f_last f4)) in *.
  apply merge_payments_amt in Hm. simpl in Hm. destruct Hm as [Hm Hmo].
  pose proof (psum1_nonneg adds (pos_weaken (fun n => In n (akeys (f_out f0))) adds Pos1)) as Hps.
  pose proof Hmint as Hmint'. apply mint_pos_MI in Hmint'; auto; [|lia].
  destruct Hmint' as (M6 & SB6 & En & N6 & A6 & U6 & O6z & O6).
  assert (Hheld6 : f_held f6 = aset (f_held f5) (hkey n c) (held f5 n c + a_amt m)).
  { unfold mint_pos in Hmint. inversion Hmint; subst. reflexivity. }
  assert (E5n : f_next f5 = f_next f) by (unfold f5; simpl; unfold increase_user, set_utot in Nx4; simpl in Nx4; congruence).
  assert (E5h : f_held f5 = f_held f1) by (unfold f5; simpl; unfold increase_user, set_utot in He4; simpl in He4; congruence).
  assert (Z5 : forall d, valid_id d -> aget (f_held f5) (hkey n d) = 0).
  { intros d Hd. apply fresh_key; auto. lia. }
  exists m. subst n. rewrite E5n in *.
  assert (Su : f_supply f4 = f_supply f).
  { unfold increase_user, set_utot in S4. simpl in S4. destruct SB1 as (C1 & _). unfold core in C1. injection C1; intros. lia. }
  assert (Bf : f_bal_farming f4 = f_bal_farming f).
  { unfold increase_user, set_utot in BF4. simpl in BF4. destruct SB1 as (_ & _ & C1). unfold money in C1. injection C1; intros. lia. }
  destruct SB6 as (C6 & _ & Mo6). unfold core in C6. unfold money in Mo6.
  split; [reflexivity|]. split; [exact Hmo|]. split; [exact Hm|]. split; [exact Ea|].
  split; [simpl; rewrite A6; unfold f5; simpl; rewrite At4; unfold increase_user, set_utot; simpl; congruence|].
  split; [simpl; lia|].
  split; [simpl; rewrite U6; unfold f5; simpl; rewrite Ut4; unfold increase_user, set_utot, utot; simpl; congruence|].
  split; [simpl; injection Mo6; intros; unfold f5 in *; simpl in *; lia|].
  split; [simpl; injection C6; intros; unfold f5 in *; simpl in *; lia|].
  split.
  - unfold held. simpl. rewrite Hheld6, aget_aset_same. unfold held. rewrite Z5 by assumption. lia.
  - intros d Hd Hne. unfold held. simpl. rewrite Hheld6, aget_aset_other by (apply hkey_ne; auto). apply Z5. exact Hd.
Qed.

Lemma ep_claim_shape f blk ep c first adds b f' o :
  ep_claim f blk ep c first adds b = Ok (f', o) -> MI f -> valid_id c -> owned f c (first :: adds) ->
  exists m r,
    o = [f_next f; a_amt m; r] /\ a_owner m = c /\ a_amt m = snd first + psum (fun _ => 1) adds /\ 0 < snd first /\
    f_attrs f' = f_attrs f ++ [(f_next f, m)] /\ f_next f' = f_next f + 1 /\
    f_utot f' = f_utot f /\
    f_bal_farming f' = f_bal_farming f /\ f_supply f' = f_supply f /\
    held f' (f_next f) c = a_amt m /\
    (forall d, valid_id d -> d <> c -> held f' (f_next f) d = 0).
Proof.
  unfold ep_claim. intros H M Hc Hown.
  destruct (active f); [|discriminate].
  apply bind_ok in H. destruct H as (f1 & H1 & H).
  apply bind_ok in H. destruct H as (f2 & H2 & H).
  apply bind_ok in H. destruct H as (a & Ha & H).
  apply bind_ok in H. destruct H as (part & Hpart & H).
  apply bind_ok in H. destruct H as (base & Hbase & H).
  apply bind_ok in H. destruct H as (f3 & H3 & H).
  apply bind_ok in H. destruct H as (f4 & H4 & H).
  apply bind_ok in H. destruct H as (m & Hm & H).
  destruct (mint_pos f4 m c) as [f5 n] eqn:Hmint. inversion H; subst f' o; clear H.
  pose proof H1 as H1'. apply pay_all_MI in H1'; auto. destruct H1' as (M1 & SB1 & N1 & A1 & U1 & O1 & Pos1 & K1).
  apply settle_MI in H2; auto. destruct H2 as (M2 & D2 & C2 & T2 & S2 & BF2 & Pd2 & L2 & _).
  destruct (toks_all _ _ T2) as (Nx2 & At2 & He2 & Ut2 & Ou2).
  apply pay_reward_MI in H3; auto.
  destruct H3 as (M3 & D3 & C3 & T3 & S3 & R3 & L3 & BF3 & G3 & Hb & Hr & Res3 & P3 & Pd3).
  destruct (toks_all _ _ T3) as (Nx3 & At3 & He3 & Ut3 & Ou3).
  assert (Hown3 : owned f3 c (first :: adds)) by (apply (owned_ext f); [congruence | exact Hown]).
  rewrite (check_update_owned _ f3 c Hown3) in H4. inversion H4; subst f4; clear H4.
  apply into_part_amt in Hpart. destruct Hpart as (Pa & _).
  apply merge_payments_amt in Hm. simpl in Hm. destruct Hm as [Hm Hmo].
  pose proof (Forall_inv Pos1) as [Hx0 _]. pose proof (Forall_inv_tail Pos1) as Pos1'.
  pose proof (psum1_nonneg adds (pos_weaken (fun n => In n (akeys (f_out f))) adds Pos1')) as Hps.
  pose proof Hmint as Hmint'. apply mint_pos_MI in Hmint'; auto; [|lia].
  destruct Hmint' as (M5 & SB5 & En & N5 & A5 & U5 & O5z & O5).
  assert (Hheld5 : f_held f5 = aset (f_held f3) (hkey n c) (held f3 n c + a_amt m)).
  { unfold mint_pos in Hmint. inversion Hmint; subst. reflexivity. }
  assert (E3n : f_next f3 = f_next f) by congruence.
  assert (Z3 : forall d, valid_id d -> aget (f_held f3) (hkey n d) = 0).
  { intros d Hd. apply fresh_key; auto. lia. }
  exists m, (base + b). subst n. rewrite E3n in *.
  destruct SB1 as (C1 & _ & Mo1). unfold core in C1. unfold money in Mo1.
  destruct SB5 as (C5 & _ & Mo5). unfold core in C5. unfold money in Mo5.
  split; [reflexivity|]. split; [exact Hmo|]. split; [lia|]. split; [exact Hx0|].
  split; [rewrite A5; congruence|].
  split; [lia|].
  split; [congruence|].
  split; [injection Mo5; injection Mo1; intros; lia|].
  split; [injection C5; injection C1; intros; lia|].
  split.
  - unfold held. rewrite Hheld5, aget_aset_same. unfold held. rewrite Z3 by assumption. lia.
  - intros d Hd Hne. unfold held. rewrite Hheld5, aget_aset_other by (apply hkey_ne; auto). apply Z3. exact Hd.
Qed.

(** ---------------------------------------------------------------- enterFarmOnBehalf *)
Definition enter_ops (blk ep a u amt : Z) (adds : list (Z * Z)) (b : Z) (o : fouts) : list fop :=
  map (xfer a u) adds ++ [FEnter blk ep u amt adds b; FTransfer (nth 0 o 0) u a (nth 1 o 0)].

Definition claim_ops (blk ep a u : Z) (first : Z * Z) (adds : list (Z * Z)) (b : Z) (o : fouts) : list fop :=
  map (xfer a u) (first :: adds) ++ [FClaim blk ep u first adds b; FTransfer (nth 0 o 0) u a (nth 1 o 0)].

(** the endpoint IS that history of Model/Farm.v, each step of it succeeding *)
Lemma ob_enter_refines h f blk ep a u amt adds b f' o : ob_enter h f blk ep a u amt adds b = Ok (f', o) ->
  f' = frun f (enter_ops blk ep a u amt adds b o) /\
  Access.is_whitelisted h u a = true /\ owned f u adds /\
  exists f1 f2, fseq f (map (xfer a u) adds) = Ok f1 /\ ep_enter f1 blk ep u amt adds b = Ok (f2, o) /\
                ep_transfer f2 (nth 0 o 0) u a (nth 1 o 0) = Ok (f', []).
Proof.
  unfold ob_enter. intros H.
  apply bind_ok in H. destruct H as (owners & Ho & H).
  apply bind_ok in H. destruct H as (tt & Hg & H).
  apply bind_ok in H. destruct H as (f1 & H1 & H).
  apply bind_ok in H. destruct H as ([f2 o2] & H2 & H).
  apply bind_ok in H. destruct H as ([f3 o3] & H3 & H). cbn [fst snd] in *. inversion H; subst f3 o2; clear H.
  apply enter_guard_spec in Hg. destruct Hg as [W Fo].
  pose proof (ep_transfer_frame _ _ _ _ _ _ _ H3) as (_ & _ & -> & _).
  split; [|split; [exact W | split; [eapply owners_all_owned; eauto | exists f1, f2; auto]]].
  unfold enter_ops. rewrite frun_app. rewrite <- (fseq_frun _ _ _ H1).
  change [FEnter blk ep u amt adds b; FTransfer (nth 0 o 0) u a (nth 1 o 0)]
    with ([FEnter blk ep u amt adds b] ++ [FTransfer (nth 0 o 0) u a (nth 1 o 0)]).
  rewrite frun_app. rewrite (frun_one f1 _ f2 o) by exact H2. symmetry. eapply frun_one. exact H3.
Qed.

Lemma ob_claim_refines h f blk ep a first adds b f' o u : ob_claim h f blk ep a first adds b = Ok (f', o, u) ->
  f' = frun f (claim_ops blk ep a u first adds b o) /\
  Access.is_whitelisted h u a = true /\ owned f u (first :: adds) /\ u <> 0 /\
  exists f1 f2, fseq f (map (xfer a u) (first :: adds)) = Ok f1 /\ ep_claim f1 blk ep u first adds b = Ok (f2, o) /\
                ep_transfer f2 (nth 0 o 0) u a (nth 1 o 0) = Ok (f', []).
Proof.
  unfold ob_claim. intros H.
  apply bind_ok in H. destruct H as (owners & Ho & H).
  apply bind_ok in H. destruct H as (u' & Hu & H).
  destruct (Access.is_whitelisted h u' a) eqn:W; [|discriminate].
  apply bind_ok in H. destruct H as (f1 & H1 & H).
  apply bind_ok in H. destruct H as ([f2 o2] & H2 & H).
  apply bind_ok in H. destruct H as ([f3 o3] & H3 & H). cbn [fst snd] in *. inversion H; subst f3 o2 u'; clear H.
  apply claim_owner_all in Hu. destruct Hu as [Fo Ne].
  pose proof (ep_transfer_frame _ _ _ _ _ _ _ H3) as (_ & _ & -> & _).
  assert (Hown : owned f u (first :: adds)).
  { eapply owners_all_owned; eauto. eapply Forall_impl; [|exact Fo]. intros x [A _]. exact A. }
  assert (Hnz : u <> 0).
  { destruct owners as [|o0 t]; [congruence|]. inversion Fo as [|? ? [A B] _]; subst. exact B. }
  split; [|split; [exact W | split; [exact Hown | split; [exact Hnz | exists f1, f2; auto]]]].
  unfold claim_ops. rewrite frun_app. rewrite <- (fseq_frun _ _ _ H1).
  change [FClaim blk ep u first adds b; FTransfer (nth 0 o 0) u a (nth 1 o 0)]
    with ([FClaim blk ep u first adds b] ++ [FTransfer (nth 0 o 0) u a (nth 1 o 0)]).
  rewrite frun_app. rewrite (frun_one f1 _ f2 o) by exact H2. symmetry. eapply frun_one. exact H3.
Qed.


(** ---------------------------------------------------------------- characterisation on the farm's state *)
Lemma fseq_acc ops : forall f f', fseq f ops = Ok f' -> FarmAcc f -> Forall valid_op ops -> FarmAcc f'.
Proof. intros f f' H A V. rewrite (fseq_frun _ _ _ H). apply frun_acc; assumption. Qed.

Lemma utot_aset f c v w : aget (aset (f_utot f) c (utot f c + v)) w = utot f w + (if w =? c then v else 0).
Proof.
  destruct (Z.eq_dec w c) as [->|Hw].
  - rewrite aget_aset_same, Z.eqb_refl. reflexivity.
  - rewrite aget_aset_other by congruence. destruct (w =? c) eqn:E; [apply Z.eqb_eq in E; congruence | unfold utot; lia].
Qed.

(** the agent ends up holding the whole new position, the user none of it *)
Lemma back_transfer f2 n u a x f' o : ep_transfer f2 n u a x = Ok (f', o) ->
  valid_id a -> valid_id u -> held f2 n u = x -> (a <> u -> held f2 n a = 0) ->
  but_held f' = but_held f2 /\ held f' n a = x /\ (a <> u -> held f' n u = 0).
Proof.
  intros H Ha Hu Hx H0. apply ep_transfer_frame in H. destruct H as (B & Hpos & _ & Hh).
  split; [exact B|]. unfold held in *. rewrite Hh.
  destruct (Z.eq_dec a u) as [->|Hne].
  - split; [|congruence]. rewrite aget_aset_same, aget_aset_same. lia.
  - pose proof (hkey_ne n a u Ha Hu Hne) as K.
    split.
    + rewrite aget_aset_same. rewrite aget_aset_other by congruence. rewrite (H0 Hne). lia.
    + intros _. rewrite aget_aset_other by congruence. rewrite aget_aset_same. lia.
Qed.

Theorem ob_enter_char h f blk ep a u amt adds b f' o :
  ob_enter h f blk ep a u amt adds b = Ok (f', o) -> FarmOK f -> valid_id a -> valid_id u ->
  Access.pmem (u, a) (Access.h_wl h) = true /\ Access.zmem a (Access.h_black h) = false /\ owned f u adds /\
  exists m,
    o = [f_next f; a_amt m; b] /\ a_owner m = u /\ a_amt m = amt + psum (fun _ => 1) adds /\ 0 < amt /\
    find_attrs (f_attrs f') (f_next f) = Some m /\
    held f' (f_next f) a = a_amt m /\ (a <> u -> held f' (f_next f) u = 0) /\
    (forall v, utot f' v = utot f v + (if v =? u then amt else 0)) /\
    f_bal_farming f' = f_bal_farming f + amt /\ f_supply f' = f_supply f + amt.
Proof.
  intros H (A & S & _) Ha Hu.
  apply ob_enter_refines in H. destruct H as (_ & W & Hown & f1 & f2 & H1 & H2 & H3).
  apply is_whitelisted_listed in W. destruct W as [W1 W2].
  split; [exact W1|]. split; [exact W2|]. split; [exact Hown|].
  pose proof (fseq_acc _ _ _ H1 A (xfers_valid a u adds Ha Hu)) as A1.
  apply xfers_frame in H1. apply but_held_fields in H1. destruct H1 as (C1 & G1 & Mo1 & N1 & At1 & U1 & O1).
  apply ep_enter_shape in H2; [|destruct A1; assumption | exact Hu | apply (owned_ext f); assumption].
  destruct H2 as (m & -> & Hmo & Hma & Hamt & At2 & N2 & U2 & BF2 & S2 & Hh & Hz).
  rewrite N1 in *. cbn [nth] in H3.
  apply back_transfer in H3; auto.
  destruct H3 as (B3 & Hha & Hhu). apply but_held_fields in B3. destruct B3 as (C3 & G3 & Mo3 & N3 & At3 & U3 & O3).
  exists m. split; [reflexivity|]. split; [exact Hmo|]. split; [exact Hma|]. split; [exact Hamt|].
  split.
  { rewrite At3, At2, At1. apply find_attrs_app_new. intros k a' Hin.
    destruct S as [[_ fr] _]. specialize (fr _ _ Hin). lia. }
  split; [exact Hha|]. split; [exact Hhu|].
  split.
  { intros v. unfold utot at 1. rewrite U3, U2. unfold utot at 1 2. rewrite U1. apply utot_aset. }
  unfold core in C1, C3. unfold money in Mo1, Mo3.
  split; [injection Mo3; injection Mo1; intros; lia | injection C3; injection C1; intros; lia].
Qed.

Theorem ob_claim_char h f blk ep a first adds b f' o u :
  ob_claim h f blk ep a first adds b = Ok (f', o, u) -> FarmOK f -> valid_id a -> valid_id u ->
  Access.pmem (u, a) (Access.h_wl h) = true /\ Access.zmem a (Access.h_black h) = false /\
  owned f u (first :: adds) /\ u <> 0 /\
  exists m r,
    o = [f_next f; a_amt m; r] /\ a_owner m = u /\ a_amt m = snd first + psum (fun _ => 1) adds /\
    find_attrs (f_attrs f') (f_next f) = Some m /\
    held f' (f_next f) a = a_amt m /\ (a <> u -> held f' (f_next f) u = 0) /\
    (forall v, utot f' v = utot f v) /\
    f_bal_farming f' = f_bal_farming f /\ f_supply f' = f_supply f.
Proof.
  intros H (A & S & _) Ha Hu.
  apply ob_claim_refines in H. destruct H as (_ & W & Hown & Hnz & f1 & f2 & H1 & H2 & H3).
  apply is_whitelisted_listed in W. destruct W as [W1 W2].
  split; [exact W1|]. split; [exact W2|]. split; [exact Hown|]. split; [exact Hnz|].
  pose proof (fseq_acc _ _ _ H1 A (xfers_valid a u (first :: adds) Ha Hu)) as A1.
  apply xfers_frame in H1. apply but_held_fields in H1. destruct H1 as (C1 & G1 & Mo1 & N1 & At1 & U1 & O1).
  apply ep_claim_shape in H2; [|destruct A1; assumption | exact Hu | apply (owned_ext f); assumption].
  destruct H2 as (m & r & -> & Hmo & Hma & Hamt & At2 & N2 & U2 & BF2 & S2 & Hh & Hz).
  rewrite N1 in *. cbn [nth] in H3.
  apply back_transfer in H3; auto.
  destruct H3 as (B3 & Hha & Hhu). apply but_held_fields in B3. destruct B3 as (C3 & G3 & Mo3 & N3 & At3 & U3 & O3).
  exists m, r. split; [reflexivity|]. split; [exact Hmo|]. split; [exact Hma|].
  split.
  { rewrite At3, At2, At1. apply find_attrs_app_new. intros k a' Hin.
    destruct S as [[_ fr] _]. specialize (fr _ _ Hin). lia. }
  split; [exact Hha|]. split; [exact Hhu|].
  split.
  { intros v. unfold utot. rewrite U3, U2, U1. reflexivity. }
  unfold core in C1, C3. unfold money in Mo1, Mo3.
  split; [injection Mo3; injection Mo1; intros; lia | injection C3; injection C1; intros; lia].
Qed.

(** (3) an unauthorised caller, or a position of another owner at ANY payment index, makes the call fail *)
Theorem ob_enter_unauthorised h f blk ep a u amt adds b :
  Access.is_whitelisted h u a = false -> is_ok (ob_enter h f blk ep a u amt adds b) = false.
Proof.
  intros W. destruct (ob_enter h f blk ep a u amt adds b) as [[f' o]|] eqn:E; [|reflexivity].
  apply ob_enter_refines in E. destruct E as (_ & W' & _). congruence.
Qed.

Theorem ob_enter_foreign h f blk ep a u amt adds b i n x own :
  nth_error adds i = Some (n, x) -> find_attrs (f_attrs f) n = Some own -> a_owner own <> u ->
  is_ok (ob_enter h f blk ep a u amt adds b) = false.
Proof.
  intros Hi Hf Hne. destruct (ob_enter h f blk ep a u amt adds b) as [[f' o]|] eqn:E; [|reflexivity].
  apply ob_enter_refines in E. destruct E as (_ & _ & Hown & _). exfalso.
  unfold owned in Hown. rewrite Forall_forall in Hown. apply nth_error_In in Hi.
  destruct (Hown _ Hi) as (a0 & Ha0 & Ho). simpl in Ha0. congruence.
Qed.

Theorem ob_claim_unauthorised h f blk ep a first adds b own :
  find_attrs (f_attrs f) (fst first) = Some own -> Access.is_whitelisted h (a_owner own) a = false ->
  is_ok (ob_claim h f blk ep a first adds b) = false.
Proof.
  intros Hf W. destruct (ob_claim h f blk ep a first adds b) as [[[f' o] u]|] eqn:E; [|reflexivity].
  apply ob_claim_refines in E. destruct E as (_ & W' & Hown & _). exfalso.
  inversion Hown as [|? ? (a0 & Ha0 & Ho) _]; subst. rewrite Hf in Ha0. inversion Ha0; subst. congruence.
Qed.

(** two payments with different recorded owners (at any two indexes), or a payment without a recorded owner *)
Theorem ob_claim_mixed h f blk ep a first adds b i j n1 x1 n2 x2 o1 o2 :
  nth_error (first :: adds) i = Some (n1, x1) -> nth_error (first :: adds) j = Some (n2, x2) ->
  find_attrs (f_attrs f) n1 = Some o1 -> find_attrs (f_attrs f) n2 = Some o2 -> a_owner o1 <> a_owner o2 ->
  is_ok (ob_claim h f blk ep a first adds b) = false.
Proof.
  intros Hi Hj H1 H2 Hne. destruct (ob_claim h f blk ep a first adds b) as [[[f' o] u]|] eqn:E; [|reflexivity].
  apply ob_claim_refines in E. destruct E as (_ & _ & Hown & _). exfalso.
  unfold owned in Hown. rewrite Forall_forall in Hown.
  apply nth_error_In in Hi, Hj.
  destruct (Hown _ Hi) as (a1 & Ha1 & Hu1). destruct (Hown _ Hj) as (a2 & Ha2 & Hu2). simpl in Ha1, Ha2. congruence.
Qed.

Theorem ob_claim_legacy h f blk ep a first adds b i n x own :
  nth_error (first :: adds) i = Some (n, x) -> find_attrs (f_attrs f) n = Some own -> a_owner own = 0 ->
  is_ok (ob_claim h f blk ep a first adds b) = false.
Proof.
  intros Hi Hf H0. destruct (ob_claim h f blk ep a first adds b) as [[[f' o] u]|] eqn:E; [|reflexivity].
  apply ob_claim_refines in E. destruct E as (_ & _ & Hown & Hnz & _). exfalso.
  unfold owned in Hown. rewrite Forall_forall in Hown. apply nth_error_In in Hi.
  destruct (Hown _ Hi) as (a0 & Ha0 & Ho). simpl in Ha0. congruence.
Qed.

(** ================================================================ the wrapper: farm + hub + ledgers *)
Definition bvalid (op : bop) : Prop :=
  match op with
  | BF o => valid_op o
  | BHub o => valid_id (hub_caller o)
  | BEnterOB _ _ a u _ _ _ => valid_id a /\ valid_id u
  | BClaimOB _ _ a _ _ _ => valid_id a
  end.

(** all invariants of Model/Farm.v (C05: FarmOK = accounting + solvency; C07: UT = owner totals) + well-formed hub *)
Definition BOK (s : bst) : Prop :=
  FarmOK (b_f s) /\ UT (b_f s) /\ AttrFresh (b_f s) /\ hub_ok (b_hub s).

Lemma frun_all ops : forall f, FarmOK f -> UT f /\ AttrFresh f -> Forall valid_op ops ->
  FarmOK (frun f ops) /\ UT (frun f ops) /\ AttrFresh (frun f ops).
Proof.
  induction ops as [|op t IH]; intros f K U V; simpl; [tauto|].
  inversion V; subst. unfold fstep_total. destruct (fstep f op) as [[f' o]|] eqn:E.
  - apply IH; auto.
    + apply fstep_ok in E; auto. tauto.
    + destruct K as (A & S & _). eapply fstep_ut; eauto.
  - apply IH; auto.
Qed.

Lemma enter_ops_valid blk ep a u amt adds b o : valid_id a -> valid_id u -> Forall valid_op (enter_ops blk ep a u amt adds b o).
Proof.
  intros Ha Hu. unfold enter_ops. apply Forall_app. split; [apply xfers_valid; assumption|].
  constructor; [exact Hu|]. constructor; [split; assumption | constructor].
Qed.

Lemma claim_ops_valid blk ep a u first adds b o : valid_id a -> valid_id u -> Forall valid_op (claim_ops blk ep a u first adds b o).
Proof.
  intros Ha Hu. unfold claim_ops. apply Forall_app. split; [apply xfers_valid; assumption|].
  constructor; [exact Hu|]. constructor; [split; assumption | constructor].
Qed.

Lemma bstep_farm s op s' o : bstep s op = Ok (s', o) -> hub_ok (b_hub s) -> bvalid op ->
  hub_ok (b_hub s') /\ exists fops, Forall valid_op fops /\ b_f s' = frun (b_f s) fops.
Proof.
  intros H K V. destruct op as [fo|ho|blk ep a u amt adds b|blk ep a first adds b]; simpl in H, V.
  - apply bind_ok in H. destruct H as ([f' o'] & Hf & H). inversion H; subst; clear H. simpl.
    split; [exact K|]. exists [fo]. split; [constructor; [exact V | constructor]|]. symmetry. eapply frun_one. exact Hf.
  - apply bind_ok in H. destruct H as (h' & Hh & H). inversion H; subst; clear H. simpl.
    split; [eapply hub_step_ok; eauto|]. exists []. split; [constructor | reflexivity].
  - apply bind_ok in H. destruct H as ([f' o'] & Hf & H). inversion H; subst; clear H. simpl.
    split; [exact K|]. apply ob_enter_refines in Hf. destruct Hf as (-> & _).
    eexists. split; [|reflexivity]. apply enter_ops_valid; tauto.
  - apply bind_ok in H. destruct H as ([[f' o'] u] & Hf & H). inversion H; subst; clear H. simpl.
    split; [exact K|]. apply ob_claim_refines in Hf. destruct Hf as (-> & W & _).
    apply is_whitelisted_listed in W. destruct W as [W _]. apply K in W.
    eexists. split; [|reflexivity]. apply claim_ops_valid; assumption.
Qed.

(** (1) every invariant of the farm model is preserved by every operation of the mixed system *)
Theorem bstep_ok s op s' o : bstep s op = Ok (s', o) -> BOK s -> bvalid op -> BOK s'.
Proof.
  intros H (K & U & F & Hh) V. destruct (bstep_farm _ _ _ _ H Hh V) as (Hh' & fops & Vf & E).
  destruct (frun_all fops (b_f s) K (conj U F) Vf) as (K' & U' & F'). unfold BOK. rewrite E. tauto.
Qed.

Theorem brun_ok : forall ops s, BOK s -> Forall bvalid ops -> BOK (brun s ops).
Proof.
  induction ops as [|op t IH]; intros s K V; [exact K|].
  change (brun s (op :: t)) with (brun (bstep_total s op) t). inversion V; subst.
  apply IH; [|assumption]. unfold bstep_total.
  destruct (bstep s op) as [[s' o]|] eqn:E; [|exact K]. eapply bstep_ok; eauto.
Qed.

Lemma init_b_ok dsc same ho : 0 < dsc -> BOK (init_b dsc same ho).
Proof.
  intros Hd. split; [apply init_farm_ok; exact Hd|]. destruct (init_ut dsc same) as [U F].
  split; [exact U|]. split; [exact F|]. intros u a H. discriminate.
Qed.

(** the farm of every mixed history is the farm of a history of Model/Farm.v: every theorem about [frun] transfers *)
Theorem brun_refines_frun : forall ops s, hub_ok (b_hub s) -> Forall bvalid ops ->
  exists fops, Forall valid_op fops /\ b_f (brun s ops) = frun (b_f s) fops.
Proof.
  induction ops as [|op t IH]; intros s K V.
  - exists []. split; [constructor | reflexivity].
  - change (brun s (op :: t)) with (brun (bstep_total s op) t). inversion V; subst. unfold bstep_total.
    destruct (bstep s op) as [[s' o]|] eqn:E.
    + destruct (bstep_farm _ _ _ _ E K H1) as (K' & f1 & V1 & E1).
      destruct (IH s' K' H2) as (f2 & V2 & E2). exists (f1 ++ f2). split; [apply Forall_app; auto|].
      rewrite frun_app, <- E1. exact E2.
    + apply IH; assumption.
Qed.

(** C07 (owner totals) on every reachable state of the mixed system: the tracked total of every account is the sum of
    the outstanding positions RECORDED for it - whoever holds them *)
Theorem behalf_owner_totals dsc same ho ops u : 0 < dsc -> Forall bvalid ops ->
  let f := b_f (brun (init_b dsc same ho) ops) in
  utot f u = wsum (ind f u) (f_out f) /\ f_supply f = asum (f_out f) /\ asum (f_out f) = asum (f_held f).
Proof.
  intros Hd V f. destruct (brun_ok ops _ (init_b_ok dsc same ho Hd) V) as (K & U & _ & _). fold f in K, U.
  split; [apply U|]. destruct K as ([[_ _ hh _ _ _ _] out _] & _ & _). split; congruence.
Qed.

(** ---------------------------------------------------------------- (2) the endpoints, with the ledgers *)
Lemma acredit_same l k v : aget (acredit l k v) k = aget l k + v.
Proof. unfold acredit. apply aget_aset_same. Qed.
Lemma acredit_other l k v w : k <> w -> aget (acredit l k v) w = aget l w.
Proof. unfold acredit. intros H. apply aget_aset_other. exact H. Qed.

Theorem enter_on_behalf_spec s blk ep a u amt adds b s' o :
  bstep s (BEnterOB blk ep a u amt adds b) = Ok (s', o) -> BOK s -> valid_id a -> valid_id u ->
  let f := b_f s in let f' := b_f s' in
  (* authorisation: listed by the user, not blacklisted; every paid position is the user's *)
  Access.pmem (u, a) (Access.h_wl (b_hub s)) = true /\ Access.zmem a (Access.h_black (b_hub s)) = false /\ owned f u adds /\
  b_hub s' = b_hub s /\
  exists m,
    o = [f_next f; a_amt m; b] /\
    (* the new position: recorded owner = the user, held by the agent *)
    find_attrs (f_attrs f') (f_next f) = Some m /\ a_owner m = u /\ a_amt m = amt + psum (fun _ => 1) adds /\
    held f' (f_next f) a = a_amt m /\ (a <> u -> held f' (f_next f) u = 0) /\
    (* the user's total moves as if the user had entered; nobody else's moves *)
    (forall v, utot f' v = utot f v + (if v =? u then amt else 0)) /\
    (* boosted rewards: to the user, nothing to anybody else (in particular not to the agent) *)
    aget (b_rew s') u = aget (b_rew s) u + b /\ (forall v, v <> u -> aget (b_rew s') v = aget (b_rew s) v) /\
    (* the farming tokens come from the agent; nobody receives farming tokens *)
    aget (b_fin s') a = aget (b_fin s) a + amt /\ (forall v, v <> a -> aget (b_fin s') v = aget (b_fin s) v) /\
    b_fout s' = b_fout s /\ f_bal_farming f' = f_bal_farming f + amt.
Proof.
  intros H (K & _) Ha Hu f f'. simpl in H.
  apply bind_ok in H. destruct H as ([f1 o1] & Hf & H). inversion H; subst s' o; clear H. cbn [fst snd] in *.
  apply ob_enter_char in Hf; auto. destruct Hf as (W1 & W2 & Hown & m & -> & Hmo & Hma & _ & Hfa & Hha & Hhu & Hut & Hbf & _).
  split; [exact W1|]. split; [exact W2|]. split; [exact Hown|]. split; [reflexivity|].
  exists m. cbn [b_f b_rew b_fin b_fout nth]. repeat split; auto.
  - apply acredit_same.
  - intros v Hv. apply acredit_other. congruence.
  - apply acredit_same.
  - intros v Hv. apply acredit_other. congruence.
Qed.

Theorem claim_on_behalf_spec s blk ep a first adds b s' o :
  bstep s (BClaimOB blk ep a first adds b) = Ok (s', o) -> BOK s -> valid_id a ->
  let f := b_f s in let f' := b_f s' in
  exists u m r,
    (* the user is the recorded (non-zero) owner of EVERY paid position and has authorised the caller *)
    u <> 0 /\ owned f u (first :: adds) /\
    Access.pmem (u, a) (Access.h_wl (b_hub s)) = true /\ Access.zmem a (Access.h_black (b_hub s)) = false /\
    b_hub s' = b_hub s /\
    o = [f_next f; a_amt m; r] /\
    find_attrs (f_attrs f') (f_next f) = Some m /\ a_owner m = u /\ a_amt m = snd first + psum (fun _ => 1) adds /\
    held f' (f_next f) a = a_amt m /\ (a <> u -> held f' (f_next f) u = 0) /\
    (forall v, utot f' v = utot f v) /\
    (* rewards claimed on behalf go to the position owner, never to the caller *)
    aget (b_rew s') u = aget (b_rew s) u + r /\ (forall v, v <> u -> aget (b_rew s') v = aget (b_rew s) v) /\
    b_fin s' = b_fin s /\ b_fout s' = b_fout s /\ f_bal_farming f' = f_bal_farming f.
Proof.
  intros H (K & _ & _ & Hh) Ha f f'. simpl in H.
  apply bind_ok in H. destruct H as ([[f1 o1] u] & Hf & H). inversion H; subst s' o; clear H.
  assert (Hu : valid_id u).
  { pose proof Hf as Hf'. apply ob_claim_refines in Hf'. destruct Hf' as (_ & W & _).
    apply is_whitelisted_listed in W. destruct W as [W _]. eapply Hh; eauto. }
  apply ob_claim_char in Hf; auto.
  destruct Hf as (W1 & W2 & Hown & Hnz & m & r & -> & Hmo & Hma & Hfa & Hha & Hhu & Hut & Hbf & _).
  exists u, m, r. cbn [b_f b_rew b_fin b_fout b_hub nth]. repeat split; auto.
  - apply acredit_same.
  - intros v Hv. apply acredit_other. congruence.
Qed.

(** (3) unauthorised (never listed / revoked / blacklisted) or foreign-owner calls fail and leave the state unchanged *)
Theorem enter_unauthorised_unchanged s blk ep a u amt adds b :
  Access.is_whitelisted (b_hub s) u a = false -> bstep_total s (BEnterOB blk ep a u amt adds b) = s.
Proof.
  intros W. unfold bstep_total. simpl.
  pose proof (ob_enter_unauthorised (b_hub s) (b_f s) blk ep a u amt adds b W) as E.
  destruct (ob_enter _ _ _ _ _ _ _ _ _); [discriminate | reflexivity].
Qed.

Theorem enter_foreign_unchanged s blk ep a u amt adds b i n x own :
  nth_error adds i = Some (n, x) -> find_attrs (f_attrs (b_f s)) n = Some own -> a_owner own <> u ->
  bstep_total s (BEnterOB blk ep a u amt adds b) = s.
Proof.
  intros Hi Hf Hne. unfold bstep_total. simpl.
  pose proof (ob_enter_foreign (b_hub s) (b_f s) blk ep a u amt adds b i n x own Hi Hf Hne) as E.
  destruct (ob_enter _ _ _ _ _ _ _ _ _); [discriminate | reflexivity].
Qed.

Theorem claim_unauthorised_unchanged s blk ep a first adds b own :
  find_attrs (f_attrs (b_f s)) (fst first) = Some own -> Access.is_whitelisted (b_hub s) (a_owner own) a = false ->
  bstep_total s (BClaimOB blk ep a first adds b) = s.
Proof.
  intros Hf W. unfold bstep_total. simpl.
  pose proof (ob_claim_unauthorised (b_hub s) (b_f s) blk ep a first adds b own Hf W) as E.
  destruct (ob_claim _ _ _ _ _ _ _ _); [discriminate | reflexivity].
Qed.

Theorem claim_mixed_unchanged s blk ep a first adds b i j n1 x1 n2 x2 o1 o2 :
  nth_error (first :: adds) i = Some (n1, x1) -> nth_error (first :: adds) j = Some (n2, x2) ->
  find_attrs (f_attrs (b_f s)) n1 = Some o1 -> find_attrs (f_attrs (b_f s)) n2 = Some o2 -> a_owner o1 <> a_owner o2 ->
  bstep_total s (BClaimOB blk ep a first adds b) = s.
Proof.
  intros Hi Hj H1 H2 Hne. unfold bstep_total. simpl.
  pose proof (ob_claim_mixed (b_hub s) (b_f s) blk ep a first adds b i j n1 x1 n2 x2 o1 o2 Hi Hj H1 H2 Hne) as E.
  destruct (ob_claim _ _ _ _ _ _ _ _); [discriminate | reflexivity].
Qed.

(** ---------------------------------------------------------------- the hub inside a mixed history *)
Definition hub_ops_of (ops : list bop) : list Access.hub_op :=
  flat_map (fun op => match op with BHub o => [o] | _ => [] end) ops.

Lemma brun_hub : forall ops s, b_hub (brun s ops) = Access.hub_run (b_hub s) (hub_ops_of ops).
Proof.
  induction ops as [|op t IH]; intros s; [reflexivity|].
  change (brun s (op :: t)) with (brun (bstep_total s op) t). rewrite IH. clear IH.
  unfold bstep_total. destruct op as [fo|ho|blk ep a u amt adds b|blk ep a first adds b]; simpl.
  - destruct (fstep (b_f s) fo) as [[f' o]|]; reflexivity.
  - unfold Access.hub_run. simpl. unfold Access.hub_step_total. destruct (Access.hub_step (b_hub s) ho); reflexivity.
  - destruct (ob_enter _ _ _ _ _ _ _ _ _) as [[f' o]|]; reflexivity.
  - destruct (ob_claim _ _ _ _ _ _ _ _) as [[[f' o] u]|]; reflexivity.
Qed.

(** after the user revoked the agent, and until the user lists it again, every on-behalf enter by that agent for that
    user fails and changes nothing - whatever else happens in between *)
Theorem revoked_agent_fails s s1 u a ops blk ep amt adds b :
  bstep s (BHub (Access.HRemoveWhitelist u a)) = Ok (s1, []) ->
  ~ In (Access.HWhitelist u a) (hub_ops_of ops) ->
  let s2 := brun s1 ops in
  bstep_total s2 (BEnterOB blk ep a u amt adds b) = s2.
Proof.
  intros H Hno s2. apply enter_unauthorised_unchanged. unfold s2. rewrite brun_hub.
  simpl in H. apply bind_ok in H. destruct H as (h' & Hh & H). inversion H; subst; clear H. simpl.
  eapply AccessProofs.hub_revoked; eauto.
Qed.

(** a blacklisted agent: while the hub's owner does not lift the blacklisting, every on-behalf enter fails *)
Theorem blacklisted_agent_fails s a ops u blk ep amt adds b :
  Access.zmem a (Access.h_black (b_hub s)) = true ->
  ~ In (Access.HRemoveBlacklist (Access.h_owner (b_hub s)) a) (hub_ops_of ops) ->
  let s2 := brun s ops in
  bstep_total s2 (BEnterOB blk ep a u amt adds b) = s2.
Proof.
  intros Hb Hno s2. apply enter_unauthorised_unchanged. unfold s2. rewrite brun_hub.
  apply AccessProofs.hub_blacklisted; assumption.
Qed.

(** ---------------------------------------------------------------- (4) no principal through on-behalf operations *)
Definition own_exit (x : Z) (op : bop) : Prop := match op with BF (FExit _ _ c _ _) => c = x | _ => False end.

Lemma bstep_fout s op s' o x : bstep s op = Ok (s', o) -> ~ own_exit x op -> aget (b_fout s') x = aget (b_fout s) x.
Proof.
  intros H Hn. destruct op as [fo|ho|blk ep a u amt adds b|blk ep a first adds b]; simpl in H.
  - apply bind_ok in H. destruct H as ([f' o'] & Hf & H). inversion H; subst s' o; clear H. cbn [b_fout fst snd].
    assert (Hz : farming_out fo o' = 0 \/ (exists blk ep c p b, fo = FExit blk ep c p b)).
    { destruct fo; simpl; auto. right. eauto 10. }
    destruct Hz as [Hz | (blk & ep & c & p & b & ->)].
    + rewrite Hz. destruct (Z.eq_dec (op_caller fo) x) as [<-|Hx]; [rewrite acredit_same; lia | apply acredit_other; exact Hx].
    + simpl. simpl in Hn. apply acredit_other. exact Hn.
  - apply bind_ok in H. destruct H as (h' & _ & H). inversion H; subst. reflexivity.
  - apply bind_ok in H. destruct H as (r & _ & H). inversion H; subst. reflexivity.
  - apply bind_ok in H. destruct H as ([[f' o'] u] & _ & H). inversion H; subst. reflexivity.
Qed.

(** over ANY history: an account that does not itself call exitFarm receives no farming tokens from the farm -
    there is no exit-on-behalf, and no on-behalf / hub / transfer operation pays principal to anybody *)
Theorem no_principal_without_exit : forall ops s x, Forall (fun op => ~ own_exit x op) ops ->
  aget (b_fout (brun s ops)) x = aget (b_fout s) x.
Proof.
  induction ops as [|op t IH]; intros s x V; [reflexivity|].
  change (brun s (op :: t)) with (brun (bstep_total s op) t). inversion V; subst.
  rewrite IH by assumption. unfold bstep_total. destruct (bstep s op) as [[s' o]|] eqn:E; [|reflexivity].
  eapply bstep_fout; eauto.
Qed.

(** an on-behalf operation never changes the attributes (in particular the recorded owner) of an existing position *)
Theorem on_behalf_keeps_owners s op s' o n at_ : bstep s op = Ok (s', o) -> BOK s -> bvalid op ->
  (match op with BEnterOB _ _ _ _ _ _ _ | BClaimOB _ _ _ _ _ _ => True | _ => False end) ->
  find_attrs (f_attrs (b_f s)) n = Some at_ -> find_attrs (f_attrs (b_f s')) n = Some at_.
Proof.
  intros H K V Hk Hn. pose proof K as (KK & _ & _ & Hh).
  assert (Hlt : n < f_next (b_f s)).
  { destruct KK as (_ & [[_ fr] _] & _). apply (fr n at_). apply FarmTotal_find. exact Hn. }
  destruct op as [fo|ho|blk ep a u amt adds b|blk ep a first adds b]; try contradiction; simpl in H, V.
  - apply bind_ok in H. destruct H as ([f1 o1] & Hf & H). inversion H; subst s' o; clear H. cbn [b_f fst].
    destruct V as [Ha Hu]. destruct KK as (A & S & D).
    apply ob_enter_refines in Hf. destruct Hf as (_ & _ & Hown & f2 & f3 & H1 & H2 & H3).
    pose proof (fseq_acc _ _ _ H1 A (xfers_valid a u adds Ha Hu)) as A1.
    apply xfers_frame in H1. apply but_held_fields in H1. destruct H1 as (_ & _ & _ & N1 & At1 & _).
    apply ep_enter_shape in H2; [|destruct A1; assumption | exact Hu | apply (owned_ext (b_f s)); assumption].
    destruct H2 as (m & _ & _ & _ & _ & At2 & _).
    apply ep_transfer_frame in H3. destruct H3 as (B3 & _). apply but_held_fields in B3. destruct B3 as (_ & _ & _ & _ & At3 & _).
    rewrite At3, At2, At1, N1. rewrite find_attrs_app by lia. exact Hn.
  - apply bind_ok in H. destruct H as ([[f1 o1] u] & Hf & H). inversion H; subst s' o; clear H. cbn [b_f].
    destruct KK as (A & S & D).
    apply ob_claim_refines in Hf. destruct Hf as (_ & W & Hown & _ & f2 & f3 & H1 & H2 & H3).
    assert (Hu : valid_id u) by (apply is_whitelisted_listed in W; destruct W as [W _]; eapply Hh; eauto).
    pose proof (fseq_acc _ _ _ H1 A (xfers_valid a u (first :: adds) V Hu)) as A1.
    apply xfers_frame in H1. apply but_held_fields in H1. destruct H1 as (_ & _ & _ & N1 & At1 & _).
    apply ep_claim_shape in H2; [|destruct A1; assumption | exact Hu | apply (owned_ext (b_f s)); assumption].
    destruct H2 as (m & r & _ & _ & _ & _ & At2 & _).
    apply ep_transfer_frame in H3. destruct H3 as (B3 & _). apply but_held_fields in B3. destruct B3 as (_ & _ & _ & _ & At3 & _).
    rewrite At3, At2, At1, N1. rewrite find_attrs_app by lia. exact Hn.
Qed.

(** ================================================================ farm-with-locked-rewards *)
Definition receipts_of (c r ue : Z) : list receipt := if 0 <? r then [(c, (r, ue))] else [].

Lemma lstep_LF s op s' o rc : lstep s (LF op) = Ok (s', o, rc) ->
  fstep (l_f s) op = Ok (l_f s', o) /\ l_opts s' = l_opts s /\ l_lock s' = l_lock s /\
  rc = receipts_of (op_caller op) (reward_of op o) (unlock_of (op_epoch op) (l_lock s)).
Proof.
  unfold lstep, receipts_of. intros H. destruct (has_endpoint op); [|discriminate].
  apply bind_ok in H. destruct H as ([f' o'] & Hf & H). cbv zeta in H.
  destruct (0 <? reward_of op o') eqn:Er.
  - destruct (listed s); [|discriminate]. destruct (op_epoch op <? _); [|discriminate].
    inversion H; subst; clear H. simpl. rewrite Er. auto.
  - inversion H; subst; clear H. simpl. rewrite Er. auto.
Qed.

Lemma lseq_xfers ps : forall s a u s1, lseq s (map (xfer a u) ps) = Ok s1 ->
  fseq (l_f s) (map (xfer a u) ps) = Ok (l_f s1) /\ l_lock s1 = l_lock s /\ l_opts s1 = l_opts s.
Proof.
  induction ps as [|p t IH]; intros s a u s1 H.
  - simpl in H. inversion H; subst. auto.
  - cbn [map lseq] in H. apply bind_ok in H. destruct H as ([[s0 o] rc] & H0 & H). cbn [fst] in H.
    apply lstep_LF in H0. destruct H0 as (Hf & Ho & Hl & _).
    apply IH in H. destruct H as (Hq & Hl' & Ho'). cbn [map fseq]. rewrite Hf. cbn [bind fst].
    split; [exact Hq|]. split; congruence.
Qed.

Lemma lob_enter_farm h s blk ep a u amt adds b s' o rc : lob_enter h s blk ep a u amt adds b = Ok (s', o, rc) ->
  ob_enter h (l_f s) blk ep a u amt adds b = Ok (l_f s', o) /\ l_lock s' = l_lock s /\ l_opts s' = l_opts s /\
  rc = receipts_of u (nth 2 o 0) (unlock_of ep (l_lock s)).
Proof.
  unfold lob_enter, ob_enter. intros H.
  apply bind_ok in H. destruct H as (owners & Ho & H). rewrite Ho. cbn [bind].
  apply bind_ok in H. destruct H as (tt & Hg & H). rewrite Hg. cbn [bind].
  apply bind_ok in H. destruct H as (s1 & H1 & H). apply lseq_xfers in H1. destruct H1 as (H1 & L1 & O1). rewrite H1. cbn [bind].
  apply bind_ok in H. destruct H as ([[s2 o2] rc2] & H2 & H).
  apply bind_ok in H. destruct H as ([[s3 o3] rc3] & H3 & H). cbn [fst snd] in H. inversion H; subst s3 o2 rc2; clear H.
  apply lstep_LF in H2. destruct H2 as (F2 & O2 & L2 & R2). rewrite F2. cbn [bind fst snd].
  apply lstep_LF in H3. destruct H3 as (F3 & O3 & L3 & R3). rewrite F3. cbn [bind fst snd].
  split; [reflexivity|]. split; [congruence|]. split; [congruence|]. simpl in R2. rewrite L1 in R2. exact R2.
Qed.

Lemma lob_claim_farm h s blk ep a first adds b s' o rc u : lob_claim h s blk ep a first adds b = Ok (s', o, rc, u) ->
  ob_claim h (l_f s) blk ep a first adds b = Ok (l_f s', o, u) /\ l_lock s' = l_lock s /\ l_opts s' = l_opts s /\
  rc = receipts_of u (nth 2 o 0) (unlock_of ep (l_lock s)).
Proof.
  unfold lob_claim, ob_claim. intros H.
  apply bind_ok in H. destruct H as (owners & Ho & H). rewrite Ho. cbn [bind].
  apply bind_ok in H. destruct H as (u' & Hu & H). rewrite Hu. cbn [bind].
  destruct (Access.is_whitelisted h u' a); [|discriminate].
  apply bind_ok in H. destruct H as (s1 & H1 & H). apply lseq_xfers in H1. destruct H1 as (H1 & L1 & O1). rewrite H1. cbn [bind].
  apply bind_ok in H. destruct H as ([[s2 o2] rc2] & H2 & H).
  apply bind_ok in H. destruct H as ([[s3 o3] rc3] & H3 & H). cbn [fst snd] in H. inversion H; subst s3 o2 rc2 u'; clear H.
  apply lstep_LF in H2. destruct H2 as (F2 & O2 & L2 & R2). rewrite F2. cbn [bind fst snd].
  apply lstep_LF in H3. destruct H3 as (F3 & O3 & L3 & R3). rewrite F3. cbn [bind fst snd].
  split; [reflexivity|]. split; [congruence|]. split; [congruence|]. simpl in R2. rewrite L1 in R2. exact R2.
Qed.

Definition lbvalid (op : lbop) : Prop :=
  match op with
  | LBL o => lvalid o
  | LBHub o => valid_id (hub_caller o)
  | LBEnterOB _ _ a u _ _ _ => valid_id a /\ valid_id u
  | LBClaimOB _ _ a _ _ _ => valid_id a
  end.

Definition LBOK (s : lbst) : Prop :=
  FarmOK (l_f (lb_s s)) /\ UT (l_f (lb_s s)) /\ AttrFresh (l_f (lb_s s)) /\ hub_ok (lb_hub s).

Lemma lbstep_farm s op s' o rc : lbstep s op = Ok (s', o, rc) -> hub_ok (lb_hub s) -> lbvalid op ->
  hub_ok (lb_hub s') /\ exists fops, Forall valid_op fops /\ l_f (lb_s s') = frun (l_f (lb_s s)) fops.
Proof.
  intros H K V. destruct op as [lo|ho|blk ep a u amt adds b|blk ep a first adds b]; simpl in H, V.
  - apply bind_ok in H. destruct H as ([[s1 o1] rc1] & Hf & H). inversion H; subst; clear H. simpl.
    split; [exact K|]. destruct lo as [fo|c e].
    + apply lstep_farm in Hf. destruct Hf as (_ & Ef & _).
      exists [fo]. split; [constructor; [exact V | constructor]|]. symmetry. eapply frun_one. exact Ef.
    + apply lstep_setlock in Hf. destruct Hf as (_ & Ef & _). exists []. split; [constructor | exact Ef].
  - apply bind_ok in H. destruct H as (h' & Hh & H). inversion H; subst; clear H. simpl.
    split; [eapply hub_step_ok; eauto|]. exists []. split; [constructor | reflexivity].
  - apply bind_ok in H. destruct H as ([[s1 o1] rc1] & Hf & H). inversion H; subst; clear H. simpl.
    split; [exact K|]. apply lob_enter_farm in Hf. destruct Hf as (Hf & _).
    apply ob_enter_refines in Hf. destruct Hf as (-> & _).
    eexists. split; [|reflexivity]. apply enter_ops_valid; tauto.
  - apply bind_ok in H. destruct H as ([[[s1 o1] rc1] u] & Hf & H). inversion H; subst; clear H. simpl.
    split; [exact K|]. apply lob_claim_farm in Hf. destruct Hf as (Hf & _).
    apply ob_claim_refines in Hf. destruct Hf as (-> & W & _).
    apply is_whitelisted_listed in W. destruct W as [W _]. apply K in W.
    eexists. split; [|reflexivity]. apply claim_ops_valid; assumption.
Qed.

Theorem lbstep_ok s op s' o rc : lbstep s op = Ok (s', o, rc) -> LBOK s -> lbvalid op -> LBOK s'.
Proof.
  intros H (K & U & F & Hh) V. destruct (lbstep_farm _ _ _ _ _ H Hh V) as (Hh' & fops & Vf & E).
  destruct (frun_all fops _ K (conj U F) Vf) as (K' & U' & F'). unfold LBOK. rewrite E. tauto.
Qed.

Theorem lbrun_ok : forall ops s, LBOK s -> Forall lbvalid ops -> LBOK (lbrun s ops).
Proof.
  induction ops as [|op t IH]; intros s K V; [exact K|].
  change (lbrun s (op :: t)) with (lbrun (lbstep_total s op) t). inversion V; subst.
  apply IH; [|assumption]. unfold lbstep_total.
  destruct (lbstep s op) as [[[s' o] rc]|] eqn:E; [|exact K]. eapply lbstep_ok; eauto.
Qed.

Lemma init_lb_ok dsc same opts lock ho : 0 < dsc -> LBOK (init_lb dsc same opts lock ho).
Proof.
  intros Hd. split; [apply init_farm_ok; exact Hd|]. destruct (init_ut dsc same) as [U F].
  split; [exact U|]. split; [exact F|]. intros u a H. discriminate.
Qed.

Theorem locked_behalf_owner_totals dsc same opts lock ho ops u : 0 < dsc -> Forall lbvalid ops ->
  let f := l_f (lb_s (lbrun (init_lb dsc same opts lock ho) ops)) in
  FarmOK f /\ utot f u = wsum (ind f u) (f_out f) /\ f_supply f = asum (f_out f) /\ asum (f_out f) = asum (f_held f).
Proof.
  intros Hd V f. destruct (lbrun_ok ops _ (init_lb_ok dsc same opts lock ho Hd) V) as (K & U & _ & _). fold f in K, U.
  split; [exact K|]. split; [apply U|]. destruct K as ([[_ _ hh _ _ _ _] out _] & _ & _). split; congruence.
Qed.

Lemma credit_receipts_of l c r ue w :
  aget (credit_receipts l (receipts_of c r ue)) w = aget l w + (if w =? c then Z.max 0 r else 0).
Proof.
  unfold receipts_of, credit_receipts. destruct (0 <? r) eqn:E; simpl.
  - apply Z.ltb_lt in E. destruct (Z.eq_dec w c) as [->|Hw].
    + rewrite acredit_same, Z.eqb_refl. lia.
    + rewrite acredit_other by congruence. destruct (w =? c) eqn:E2; [apply Z.eqb_eq in E2; congruence | lia].
  - apply Z.ltb_ge in E. destruct (w =? c); lia.
Qed.

(** (2) for the locked farm: the same characterisation; the reward arrives as LOCKED tokens created for the USER *)
Theorem locked_enter_on_behalf_spec s blk ep a u amt adds b s' o rc :
  lbstep s (LBEnterOB blk ep a u amt adds b) = Ok (s', o, rc) -> LBOK s -> valid_id a -> valid_id u ->
  let f := l_f (lb_s s) in let f' := l_f (lb_s s') in
  Access.pmem (u, a) (Access.h_wl (lb_hub s)) = true /\ Access.zmem a (Access.h_black (lb_hub s)) = false /\ owned f u adds /\
  lb_hub s' = lb_hub s /\
  exists m,
    o = [f_next f; a_amt m; b] /\
    find_attrs (f_attrs f') (f_next f) = Some m /\ a_owner m = u /\ a_amt m = amt + psum (fun _ => 1) adds /\
    held f' (f_next f) a = a_amt m /\ (a <> u -> held f' (f_next f) u = 0) /\
    (forall v, utot f' v = utot f v + (if v =? u then amt else 0)) /\
    (* the only LOCKED tokens created are the user's boosted rewards, with the farm's lock period *)
    rc = receipts_of u b (unlock_of ep (l_lock (lb_s s))) /\
    (forall v, aget (lb_lk s') v = aget (lb_lk s) v + (if v =? u then Z.max 0 b else 0)) /\
    aget (lb_fin s') a = aget (lb_fin s) a + amt /\ (forall v, v <> a -> aget (lb_fin s') v = aget (lb_fin s) v) /\
    lb_fout s' = lb_fout s.
Proof.
  intros H (K & _) Ha Hu f f'. simpl in H.
  apply bind_ok in H. destruct H as ([[s1 o1] rc1] & Hf & H). inversion H; subst s' o rc; clear H.
  apply lob_enter_farm in Hf. destruct Hf as (Hf & _ & _ & Hrc).
  apply ob_enter_char in Hf; auto. destruct Hf as (W1 & W2 & Hown & m & -> & Hmo & Hma & _ & Hfa & Hha & Hhu & Hut & _).
  split; [exact W1|]. split; [exact W2|]. split; [exact Hown|]. split; [reflexivity|].
  exists m. cbn [lb_s lb_lk lb_fin lb_fout nth] in *. subst rc1. repeat split; auto.
  - intros v. apply credit_receipts_of.
  - apply acredit_same.
  - intros v Hv. apply acredit_other. congruence.
Qed.

Theorem locked_claim_on_behalf_spec s blk ep a first adds b s' o rc :
  lbstep s (LBClaimOB blk ep a first adds b) = Ok (s', o, rc) -> LBOK s -> valid_id a ->
  let f := l_f (lb_s s) in let f' := l_f (lb_s s') in
  exists u m r,
    u <> 0 /\ owned f u (first :: adds) /\
    Access.pmem (u, a) (Access.h_wl (lb_hub s)) = true /\ Access.zmem a (Access.h_black (lb_hub s)) = false /\
    lb_hub s' = lb_hub s /\
    o = [f_next f; a_amt m; r] /\
    find_attrs (f_attrs f') (f_next f) = Some m /\ a_owner m = u /\ a_amt m = snd first + psum (fun _ => 1) adds /\
    held f' (f_next f) a = a_amt m /\ (a <> u -> held f' (f_next f) u = 0) /\
    (forall v, utot f' v = utot f v) /\
    (* destination and energy address of lockVirtual = the user *)
    rc = receipts_of u r (unlock_of ep (l_lock (lb_s s))) /\
    (forall v, aget (lb_lk s') v = aget (lb_lk s) v + (if v =? u then Z.max 0 r else 0)) /\
    lb_fin s' = lb_fin s /\ lb_fout s' = lb_fout s.
Proof.
  intros H (K & _ & _ & Hh) Ha f f'. simpl in H.
  apply bind_ok in H. destruct H as ([[[s1 o1] rc1] u] & Hf & H). inversion H; subst s' o rc; clear H.
  apply lob_claim_farm in Hf. destruct Hf as (Hf & _ & _ & Hrc).
  assert (Hu : valid_id u).
  { pose proof Hf as Hf'. apply ob_claim_refines in Hf'. destruct Hf' as (_ & W & _).
    apply is_whitelisted_listed in W. destruct W as [W _]. eapply Hh; eauto. }
  apply ob_claim_char in Hf; auto.
  destruct Hf as (W1 & W2 & Hown & Hnz & m & r & -> & Hmo & Hma & Hfa & Hha & Hhu & Hut & _).
  exists u, m, r. cbn [lb_s lb_lk lb_fin lb_fout lb_hub nth] in *. subst rc1. repeat split; auto.
  intros v. apply credit_receipts_of.
Qed.

Theorem locked_enter_unauthorised_unchanged s blk ep a u amt adds b :
  Access.is_whitelisted (lb_hub s) u a = false -> lbstep_total s (LBEnterOB blk ep a u amt adds b) = s.
Proof.
  intros W. unfold lbstep_total. simpl.
  destruct (lob_enter _ _ _ _ _ _ _ _ _) as [[[s1 o1] rc1]|] eqn:E; [|reflexivity].
  apply lob_enter_farm in E. destruct E as (E & _).
  pose proof (ob_enter_unauthorised (lb_hub s) (l_f (lb_s s)) blk ep a u amt adds b W) as X. rewrite E in X. discriminate.
Qed.

Theorem locked_enter_foreign_unchanged s blk ep a u amt adds b i n x own :
  nth_error adds i = Some (n, x) -> find_attrs (f_attrs (l_f (lb_s s))) n = Some own -> a_owner own <> u ->
  lbstep_total s (LBEnterOB blk ep a u amt adds b) = s.
Proof.
  intros Hi Hf Hne. unfold lbstep_total. simpl.
  destruct (lob_enter _ _ _ _ _ _ _ _ _) as [[[s1 o1] rc1]|] eqn:E; [|reflexivity].
  apply lob_enter_farm in E. destruct E as (E & _).
  pose proof (ob_enter_foreign (lb_hub s) (l_f (lb_s s)) blk ep a u amt adds b i n x own Hi Hf Hne) as X. rewrite E in X. discriminate.
Qed.

Theorem locked_claim_unauthorised_unchanged s blk ep a first adds b own :
  find_attrs (f_attrs (l_f (lb_s s))) (fst first) = Some own -> Access.is_whitelisted (lb_hub s) (a_owner own) a = false ->
  lbstep_total s (LBClaimOB blk ep a first adds b) = s.
Proof.
  intros Hf W. unfold lbstep_total. simpl.
  destruct (lob_claim _ _ _ _ _ _ _ _) as [[[[s1 o1] rc1] u]|] eqn:E; [|reflexivity].
  apply lob_claim_farm in E. destruct E as (E & _).
  pose proof (ob_claim_unauthorised (lb_hub s) (l_f (lb_s s)) blk ep a first adds b own Hf W) as X. rewrite E in X. discriminate.
Qed.

Theorem locked_claim_mixed_unchanged s blk ep a first adds b i j n1 x1 n2 x2 o1 o2 :
  nth_error (first :: adds) i = Some (n1, x1) -> nth_error (first :: adds) j = Some (n2, x2) ->
  find_attrs (f_attrs (l_f (lb_s s))) n1 = Some o1 -> find_attrs (f_attrs (l_f (lb_s s))) n2 = Some o2 -> a_owner o1 <> a_owner o2 ->
  lbstep_total s (LBClaimOB blk ep a first adds b) = s.
Proof.
  intros Hi Hj H1 H2 Hne. unfold lbstep_total. simpl.
  destruct (lob_claim _ _ _ _ _ _ _ _) as [[[[s1 o1'] rc1] u]|] eqn:E; [|reflexivity].
  apply lob_claim_farm in E. destruct E as (E & _).
  pose proof (ob_claim_mixed (lb_hub s) (l_f (lb_s s)) blk ep a first adds b i j n1 x1 n2 x2 o1 o2 Hi Hj H1 H2 Hne) as X.
  rewrite E in X. discriminate.
Qed.

Definition lown_exit (x : Z) (op : lbop) : Prop := match op with LBL (LF (FExit _ _ c _ _)) => c = x | _ => False end.

Lemma lbstep_fout s op s' o rc x : lbstep s op = Ok (s', o, rc) -> ~ lown_exit x op -> aget (lb_fout s') x = aget (lb_fout s) x.
Proof.
  intros H Hn. destruct op as [lo|ho|blk ep a u amt adds b|blk ep a first adds b]; simpl in H.
  - apply bind_ok in H. destruct H as ([[s1 o1] rc1] & Hf & H). inversion H; subst s' o rc; clear H. cbn [lb_fout].
    set (fo := lop_fop lo).
    assert (Hz : farming_out fo o1 = 0 \/ (exists blk ep c p b, lo = LF (FExit blk ep c p b))).
    { unfold fo. destruct lo as [fo'|c e]; simpl; auto. destruct fo'; simpl; auto. right. eauto 10. }
    destruct Hz as [Hz | (blk & ep & c & p & b & ->)].
    + rewrite Hz. destruct (Z.eq_dec (op_caller fo) x) as [<-|Hx]; [rewrite acredit_same; lia | apply acredit_other; exact Hx].
    + simpl. simpl in Hn. apply acredit_other. exact Hn.
  - apply bind_ok in H. destruct H as (h' & _ & H). inversion H; subst. reflexivity.
  - apply bind_ok in H. destruct H as ([[s1 o1] rc1] & _ & H). inversion H; subst. reflexivity.
  - apply bind_ok in H. destruct H as ([[[s1 o1] rc1] u] & _ & H). inversion H; subst. reflexivity.
Qed.

Theorem locked_no_principal_without_exit : forall ops s x, Forall (fun op => ~ lown_exit x op) ops ->
  aget (lb_fout (lbrun s ops)) x = aget (lb_fout s) x.
Proof.
  induction ops as [|op t IH]; intros s x V; [reflexivity|].
  change (lbrun s (op :: t)) with (lbrun (lbstep_total s op) t). inversion V; subst.
  rewrite IH by assumption. unfold lbstep_total. destruct (lbstep s op) as [[[s' o] rc]|] eqn:E; [|reflexivity].
  eapply lbstep_fout; eauto.
Qed.

(** C07 with an agent in the picture: after an on-behalf enter the AGENT holds the whole new position, the user holds
    none of it, its recorded owner is the user, and the owner totals are exact in the new state *)
Theorem agent_holds_user_counts s blk ep a u amt adds b s' o :
  bstep s (BEnterOB blk ep a u amt adds b) = Ok (s', o) -> BOK s -> valid_id a -> valid_id u -> a <> u ->
  let f' := b_f s' in let n := f_next (b_f s) in
  held f' n a = amt + psum (fun _ => 1) adds /\ held f' n u = 0 /\ owner_of f' n = u /\
  (forall v, utot f' v = wsum (ind f' v) (f_out f')) /\
  utot f' u = utot (b_f s) u + amt.
Proof.
  intros H K Ha Hu Hne f' n.
  pose proof (bstep_ok _ _ _ _ H K (conj Ha Hu)) as (_ & U' & _).
  destruct (enter_on_behalf_spec _ _ _ _ _ _ _ _ _ _ H K Ha Hu) as (_ & _ & _ & _ & m & _ & Hf & Hmo & Hma & Hha & Hhu & Hut & _).
  split; [unfold f', n; lia|]. split; [apply Hhu; exact Hne|].
  split; [unfold owner_of, f', n; rewrite Hf; exact Hmo|].
  split; [exact U'|]. unfold f'. rewrite Hut. rewrite Z.eqb_refl. reflexivity.
Qed.

Definition lhub_ops_of (ops : list lbop) : list Access.hub_op :=
  flat_map (fun op => match op with LBHub o => [o] | _ => [] end) ops.

Lemma lbrun_hub : forall ops s, lb_hub (lbrun s ops) = Access.hub_run (lb_hub s) (lhub_ops_of ops).
Proof.
  induction ops as [|op t IH]; intros s; [reflexivity|].
  change (lbrun s (op :: t)) with (lbrun (lbstep_total s op) t). rewrite IH. clear IH.
  unfold lbstep_total. destruct op as [lo|ho|blk ep a u amt adds b|blk ep a first adds b]; simpl.
  - destruct (lstep (lb_s s) lo) as [[[s1 o] rc]|]; reflexivity.
  - unfold Access.hub_run. simpl. unfold Access.hub_step_total. destruct (Access.hub_step (lb_hub s) ho); reflexivity.
  - destruct (lob_enter _ _ _ _ _ _ _ _ _) as [[[s1 o] rc]|]; reflexivity.
  - destruct (lob_claim _ _ _ _ _ _ _ _) as [[[[s1 o] rc] u]|]; reflexivity.
Qed.

Theorem locked_revoked_agent_fails s s1 u a ops blk ep amt adds b :
  lbstep s (LBHub (Access.HRemoveWhitelist u a)) = Ok (s1, [], []) ->
  ~ In (Access.HWhitelist u a) (lhub_ops_of ops) ->
  let s2 := lbrun s1 ops in
  lbstep_total s2 (LBEnterOB blk ep a u amt adds b) = s2.
Proof.
  intros H Hno s2. apply locked_enter_unauthorised_unchanged. unfold s2. rewrite lbrun_hub.
  simpl in H. apply bind_ok in H. destruct H as (h' & Hh & H). inversion H; subst; clear H. simpl.
  eapply AccessProofs.hub_revoked; eauto.
Qed.

Theorem locked_blacklisted_agent_fails s a ops u blk ep amt adds b :
  Access.zmem a (Access.h_black (lb_hub s)) = true ->
  ~ In (Access.HRemoveBlacklist (Access.h_owner (lb_hub s)) a) (lhub_ops_of ops) ->
  let s2 := lbrun s ops in
  lbstep_total s2 (LBEnterOB blk ep a u amt adds b) = s2.
Proof.
  intros Hb Hno s2. apply locked_enter_unauthorised_unchanged. unfold s2. rewrite lbrun_hub.
  apply AccessProofs.hub_blacklisted; assumption.
Qed.

End FarmB.

(** ================================================================== farm-staking *)
Module StakB.
Import FarmSolv FarmOwner.
Import Staking StakingPos StakingBehalf StakingProofs StakingPosProofs.

(** the extra step: the multi-payment claim is the ordinary claim when there are no additional payments *)
Lemma claim_multi_single sp blk ep c u p b : auth c u = true ->
  ep_claim sp blk ep c u p None b = ep_claim_multi sp blk ep c u p [] b.
Proof. intros A. unfold ep_claim, ep_claim_multi. rewrite A. reflexivity. Qed.

(** ... and preserves the whole invariant of Model/StakingPos.v (C12 money flow, C05 accounting + solvency,
    C07 supply = sum and owner totals) for any number of additional payments *)
Lemma ep_claim_multi_inv sp blk ep c u first adds b sp' o :
  ep_claim_multi sp blk ep c u first adds b = Ok (sp', o) -> Inv sp -> valid_id c -> Inv sp'.
Proof.
  unfold ep_claim_multi. intros H I Hc.
  apply bind_ok in H. destruct H as (sp1 & H1 & H).
  destruct (active (p_s sp1)); [|discriminate].
  apply bind_ok in H. destruct H as (sp2 & H2 & H).
  apply bind_ok in H. destruct H as (a & Ha & H).
  apply bind_ok in H. destruct H as (part & Hpart & H).
  apply bind_ok in H. destruct H as (base & Hbase & H).
  apply bind_ok in H. destruct H as (sp3 & H3 & H).
  apply bind_ok in H. destruct H as (sp4 & H4 & H).
  apply bind_ok in H. destruct H as (m & Hm & H).
  destruct I as [IS IL IA IN ISup IAcc ISolv IUT].
  pose proof (pay_all_post _ _ _ _ H1 IL Hc) as PP.
  pose proof (ut_after_pay _ _ _ _ PP IUT) as U1.
  destruct PP as [r1 s1 l1 k1 pos1 le1]. apply rest_fields in r1. destruct r1 as (S1 & A1 & UB1 & UT1 & PD1).
  unfold psettle in H2. apply bind_ok in H2. destruct H2 as (s2 & Hs2 & H2). inversion H2; subst sp2; clear H2.
  rewrite S1 in Hs2. destruct (settle_full _ _ _ Hs2 IS) as (IS2 & F2 & L2 & total & cut & inc & Hcut & Hinc & Hinc2 & Ac2 & Re2 & Rp2 & Pl2).
  destruct first as [n0 x0]. cbn [fst snd] in *.
  apply get_attrs_some in Ha. cbn [p_attrs with_s] in Ha. rewrite A1 in Ha.
  pose proof (Forall_inv pos1) as [Hx0 Hin0]. pose proof (Forall_inv_tail pos1) as pos1'. cbn [fst snd] in *.
  pose proof IA as [has fr]. destruct (has _ Hin0) as (a' & Ha' & Hra & Hpa). rewrite nonce_hkey in Ha' by assumption.
  assert (a' = a) by congruence. subst a'.
  apply sinto_part_amt in Hpart. destruct Hpart as (Pa & Pr & Po).
  pose proof (k_wf _ IS) as (Hd & _).
  sfr F2.
  apply sbase_reward_bound in Hbase; cbn [p_s with_s] in *; [|lia|lia|lia]. destruct Hbase as [Hb0 Hbb].
  unfold ppay in H3. apply bind_ok in H3. destruct H3 as (s3 & Hs3 & H3). inversion H3; subst sp3; clear H3. cbn [p_s with_s] in Hs3.
  destruct (pay_full _ _ _ _ Hs3 IS2) as (IS3 & F3 & Hb & Hr & Hbp & Hrb & Re3 & Pl3 & Bl3).
  pfr F3.
  cbn [p_s with_s with_paid] in *.
  pose proof (check_update_but _ _ _ _ H4) as B4. apply but_fields in B4. cbn in B4. destruct B4 as (S4 & A4 & HD4 & UB4 & PD4).
  destruct (mint_pos sp4 m c) as [sp5 n] eqn:Hmint. inversion H; subst sp' o; clear H.
  assert (L4 : ledger_ok sp4).
  { destruct l1 as [nd nn fr1]. constructor; rewrite ?HD4; auto. intros k Hk. specialize (fr1 k Hk). rewrite S1 in fr1. rewrite S4. cbn. lia. }
  assert (AO4 : AttrOK sp4).
  { apply (AttrOK_shrink sp sp4 IA); rewrite ?HD4, ?S4; auto; try congruence; cbn; lia. }
  assert (Aeq : p_attrs sp4 = p_attrs sp) by congruence.
  pose proof (AttrOK_pays sp c adds (s_rps s3) IA ltac:(lia) pos1' Hc) as Hall.
  rewrite <- Aeq in Hall. rewrite S4 in Hm. cbn [s_rps] in Hm.
  pose proof (merge_payments_amt _ _ _ _ Hm) as [Mamt Mown]. cbn [sa_amt sa_owner] in Mamt, Mown.
  pose proof (merge_payments_entitlement _ _ _ _ (s_rps s3) Hm ltac:(cbn; lia) ltac:(cbn; lia) Hall) as (Ment & Mrps & Mpos).
  cbn [sa_amt sa_rps] in Ment.
  apply mint_pos_post in Hmint; auto; try (destruct AO4; assumption); try (rewrite S4; cbn; lia); try lia.
  pose proof (AttrOK_mint _ _ _ _ _ AO4 Hmint ltac:(rewrite S4; cbn; lia) Hc) as AO5.
  assert (Hposs : Forall (fun p : Z * Z => 0 < snd p) ((n0, x0) :: adds)).
  { constructor; [cbn; lia | eapply Forall_pos; exact pos1']. }
  assert (Hp1 : 0 <= psum (fun _ => 1) adds) by (apply psum1_nonneg; inversion Hposs; assumption).
  assert (U5 : SUT sp5).
  { lazymatch type of H4 with check_update ?h _ _ = _ =>
      apply (ut_check_mint sp1 ((n0, x0) :: adds) h u sp4 sp4 m c sp5 n 0 U1 Hposs (lo_nn _ l1)) end;
      auto; try (cbn; congruence); try (cbn [psum]; lia).
    intros w. destruct (w =? u); lia. }
  assert (E1 := s1 (fun _ => 1)). rewrite !hsum_one in E1. cbn [psum] in E1.
  assert (Hrn0 : srps_of sp n0 = sa_rps a) by (apply srps_of_some; exact Ha).
  destruct Hmint as [mn ms mat mh (mub & mut & mpd) mnew mold msum masum mled mz].
  constructor.
  - rewrite ms, S4. apply inv_bump. exact IS3.
  - exact mled.
  - exact AO5.
  - rewrite ms, S4. cbn. lia.
  - rewrite masum, ms, HD4, S4. cbn. lia.
  - rewrite ms, mpd, PD4, S4. cbn. lia.
  - rewrite sclaimable_wa, ms, msum, S4. cbn [bump s_rps s_dsc s_reserve s_pool u_tok]. rewrite Aeq, HD4.
    unfold f_rps at 2.
    replace (s_rps s3) with (s_rps (p_s sp) + inc) by lia.
    rewrite hsum_rps_shift, s1, E1. rewrite <- sclaimable_wa. cbn [psum]. unfold wa at 1, f_rps at 1. rewrite Ha.
    replace (psum (wa (f_rps (s_rps (p_s sp))) (p_attrs sp)) adds) with (psum (fun n => s_rps (p_s sp) - srps_of sp n) adds) by reflexivity.
    assert (HE : s_dsc (p_s sp) * base <= x0 * (s_rps (p_s sp) + inc - sa_rps a)).
    { rewrite Pr in Hbb. replace (s_dsc (p_s sp)) with (s_dsc s2) by lia. replace (s_rps (p_s sp) + inc) with (s_rps s2) by lia. exact Hbb. }
    assert (HM : x0 * (s_rps (p_s sp) + inc - sa_rps a) + sa_amt m * (s_rps (p_s sp) + inc - sa_rps m) <=
                 (x0 * (s_rps (p_s sp) - sa_rps a) + psum (fun n => s_rps (p_s sp) - srps_of sp n) adds) + inc * (x0 + psum (fun _ => 1) adds)).
    { assert (HM' : sa_amt m * (s_rps (p_s sp) + inc - sa_rps m) <= psum (fun n => s_rps (p_s sp) - srps_of sp n) adds + inc * psum (fun _ => 1) adds).
      { rewrite <- psum_rps_shift. replace (s_rps (p_s sp) + inc) with (s_rps s3) by lia.
        rewrite (psum_ext (fun k => s_rps s3 - srps_of sp k) (fun k => s_rps s3 - srps_of sp4 k)).
        - replace (s_rps s3 - s_rps s3) with 0 in Ment by lia. lia.
        - intros k. unfold srps_of. rewrite Aeq. reflexivity. }
      lia. }
    pose proof (solv_arith (sclaimable sp) (s_dsc (p_s sp)) (s_reserve (p_s sp)) (s_pool (p_s sp)) (s_supply (p_s sp))
              (x0 * (s_rps (p_s sp) - sa_rps a) + psum (fun n => s_rps (p_s sp) - srps_of sp n) adds) (x0 + psum (fun _ => 1) adds)
              inc total cut base b (x0 * (s_rps (p_s sp) + inc - sa_rps a))
              (sa_amt m * (s_rps (p_s sp) + inc - sa_rps m)) _
              ISolv Hd Hinc Hinc2 HE HM eq_refl) as SA.
    replace (s_dsc s3) with (s_dsc (p_s sp)) by lia.
    replace (s_reserve s3) with (s_reserve (p_s sp) + total - (base + b)) by lia.
    replace (s_pool s3) with (s_pool (p_s sp) + cut - b) by lia.
    rewrite ISup. lia.
  - exact U5.
Qed.

Lemma find_sattrs_in l n a : find_sattrs l n = Some a -> In (n, a) l.
Proof.
  induction l as [|[k a'] t IH]; simpl; [discriminate|].
  destruct (k =? n) eqn:E; [apply Z.eqb_eq in E; intros H; inversion H; subst; left; reflexivity | intros H; right; auto].
Qed.

(** ---------------------------------------------------------------- owners, transfers *)
Definition sowned (sp : spos) (u : Z) (ps : list (Z * Z)) : Prop :=
  Forall (fun p => exists a, find_sattrs (p_attrs sp) (fst p) = Some a /\ sa_owner a = u) ps.

Lemma sowned_ext sp sp' u ps : p_attrs sp' = p_attrs sp -> sowned sp u ps -> sowned sp' u ps.
Proof. unfold sowned. intros E. rewrite E. auto. Qed.

Lemma sowners_all_owned ps : forall sp l u, sowners_of sp ps = Ok l -> Forall (fun o => o = u) l -> sowned sp u ps.
Proof.
  induction ps as [|p t IH]; intros sp l u H F; simpl in H.
  - constructor.
  - apply bind_ok in H. destruct H as (a & Ha & H). apply bind_ok in H. destruct H as (r & Hr & H).
    inversion H; subst; clear H. inversion F; subst. constructor; [|eapply IH; eauto].
    exists a. split; [apply get_attrs_some; exact Ha | reflexivity].
Qed.

Lemma scheck_update_owned ps : forall sp u, sowned sp u ps -> check_update sp u ps = Ok sp.
Proof.
  induction ps as [|[n x] t IH]; intros sp u H; simpl; [reflexivity|].
  inversion H as [|? ? (a & Ha & Ho) Ht]; subst. simpl in Ha.
  unfold get_attrs. rewrite Ha. simpl. rewrite Z.eqb_refl. apply IH. exact Ht.
Qed.

Lemma enter_guard_spec h a u owners r : Access.enter_on_behalf h a u owners = Ok r ->
  Access.is_whitelisted h u a = true /\ Forall (fun o => o = u) owners.
Proof.
  unfold Access.enter_on_behalf. destruct (Access.is_whitelisted h u a); [|discriminate].
  destruct (forallb (fun o => o =? u) owners) eqn:E; [|discriminate]. intros _. split; [reflexivity|].
  rewrite forallb_forall in E. apply Forall_forall. intros o Ho. apply Z.eqb_eq. auto.
Qed.

Lemma ptransfer_frame sp n s d x sp' o : ep_transfer sp n s d x = Ok (sp', o) ->
  rest_of sp' = rest_of sp /\ o = [] /\ 0 < x <= held sp n s /\
  p_held sp' = aset (aset (p_held sp) (hkey n s) (held sp n s - x)) (hkey n d)
                    (aget (aset (p_held sp) (hkey n s) (held sp n s - x)) (hkey n d) + x).
Proof.
  unfold ep_transfer, pay_in. intros H.
  apply bind_ok in H. destruct H as (sp1 & H1 & H).
  destruct (0 <? x) eqn:Ex; [|discriminate]. apply Z.ltb_lt in Ex.
  apply bind_ok in H1. destruct H1 as (b & Hb & H1). apply sub_chk_ok in Hb. destruct Hb as [Hb ->].
  inversion H1; subst sp1; clear H1. inversion H; subst; clear H. unfold rest_of, held. simpl. repeat split; auto; lia.
Qed.

Lemma pxfers_frame ps : forall sp a u sp1, pseq sp (map (pxfer a u) ps) = Ok sp1 -> rest_of sp1 = rest_of sp.
Proof.
  induction ps as [|p t IH]; intros sp a u sp1 H.
  - simpl in H. inversion H; reflexivity.
  - cbn [map pseq] in H. apply bind_ok in H. destruct H as ([sp0 o] & H0 & H). cbn [fst] in H.
    unfold pxfer in H0. cbn [pstep] in H0. apply ptransfer_frame in H0. destruct H0 as (B & _). apply IH in H. congruence.
Qed.

Lemma pxfers_inv ps : forall sp a u sp1, pseq sp (map (pxfer a u) ps) = Ok sp1 -> Inv sp -> valid_id a -> valid_id u -> Inv sp1.
Proof.
  induction ps as [|p t IH]; intros sp a u sp1 H I Ha Hu.
  - simpl in H. inversion H; subst. exact I.
  - cbn [map pseq] in H. apply bind_ok in H. destruct H as ([sp0 o] & H0 & H). cbn [fst] in H.
    unfold pxfer in H0. cbn [pstep] in H0. apply ep_transfer_inv in H0; auto. eapply IH; eauto.
Qed.

Lemma shkey_ne n a u : valid_id a -> valid_id u -> a <> u -> hkey n a <> hkey n u.
Proof. unfold hkey, valid_id. lia. Qed.

Lemma sfresh_key sp n c : ledger_ok sp -> s_next (p_s sp) <= n -> valid_id c -> aget (p_held sp) (hkey n c) = 0.
Proof.
  intros [_ _ fr] Hn Hc. apply aget_notin. intros Hin. apply fr in Hin. unfold hkey, valid_id in *. lia.
Qed.

Lemma sback_transfer sp2 n u a x sp' o : ep_transfer sp2 n u a x = Ok (sp', o) ->
  valid_id a -> valid_id u -> held sp2 n u = x -> (a <> u -> held sp2 n a = 0) ->
  rest_of sp' = rest_of sp2 /\ held sp' n a = x /\ (a <> u -> held sp' n u = 0).
Proof.
  intros H Ha Hu Hx H0. apply ptransfer_frame in H. destruct H as (B & _ & Hpos & Hh).
  split; [exact B|]. unfold held in *. rewrite Hh.
  destruct (Z.eq_dec a u) as [->|Hne].
  - split; [|congruence]. rewrite aget_aset_same, aget_aset_same. lia.
  - pose proof (shkey_ne n a u Ha Hu Hne) as K.
    split.
    + rewrite aget_aset_same. rewrite aget_aset_other by congruence. rewrite (H0 Hne). lia.
    + intros _. rewrite aget_aset_other by congruence. rewrite aget_aset_same. lia.
Qed.

Lemma sutot_aset sp c v w : aget (aset (p_utot sp) c (utot sp c + v)) w = utot sp w + (if w =? c then v else 0).
Proof.
  destruct (Z.eq_dec w c) as [->|Hw].
  - rewrite aget_aset_same, Z.eqb_refl. reflexivity.
  - rewrite aget_aset_other by congruence. destruct (w =? c) eqn:E; [apply Z.eqb_eq in E; congruence | unfold utot; lia].
Qed.

(** ---------------------------------------------------------------- the user's own stake / multi-claim on positions that are
    already recorded for the user *)
Lemma ep_stake_own sp blk ep u amt adds b sp' o :
  ep_stake false sp blk ep u u amt adds b = Ok (sp', o) -> Inv sp -> valid_id u -> sowned sp u adds ->
  exists m,
    o = [s_next (p_s sp); sa_amt m; b] /\ sa_owner m = u /\ sa_amt m = amt + psum (fun _ => 1) adds /\ 0 < amt /\
    find_sattrs (p_attrs sp') (s_next (p_s sp)) = Some m /\
    (forall k at_, find_sattrs (p_attrs sp) k = Some at_ -> find_sattrs (p_attrs sp') k = Some at_) /\
    p_utot sp' = aset (p_utot sp) u (utot sp u + amt) /\
    held sp' (s_next (p_s sp)) u = sa_amt m /\
    (forall d, valid_id d -> d <> u -> held sp' (s_next (p_s sp)) d = 0).
Proof.
  intros H I Hu Hown.
  assert (Hut : p_utot sp' = aset (p_utot sp) u (utot sp u + amt)).
  { unfold ep_stake in H. destruct (auth u u); [|discriminate]. destruct (0 <? amt); [|discriminate].
    apply bind_ok in H. destruct H as (sp1 & H1 & H).
    apply bind_ok in H. destruct H as (sp2 & H2 & H).
    destruct (active (p_s sp2)); [|discriminate].
    apply bind_ok in H. destruct H as (sp3 & H3 & H).
    apply bind_ok in H. destruct H as (sp5 & H5 & H). cbv zeta in H.
    apply bind_ok in H. destruct H as (m & Hm & H).
    destruct (mint_pos _ m u) as [sp7 n] eqn:Hmint. inversion H; subst sp' o; clear H.
    apply pay_all_post in H1; [|destruct I; assumption | exact Hu]. destruct H1 as [r1 _ _ _ _ _].
    apply rest_fields in r1. destruct r1 as (S1 & A1 & UB1 & UT1 & PD1).
    unfold ppay in H2. apply bind_ok in H2. destruct H2 as (s2 & _ & H2). inversion H2; subst sp2; clear H2.
    rewrite scheck_update_owned in H3 by (apply (sowned_ext sp); [cbn; exact A1 | exact Hown]).
    inversion H3; subst sp3; clear H3.
    unfold psettle in H5. apply bind_ok in H5. destruct H5 as (s5 & _ & H5). inversion H5; subst sp5; clear H5.
    unfold mint_pos in Hmint. inversion Hmint; subst sp7 n; clear Hmint. cbn. unfold utot. cbn. rewrite UT1. reflexivity. }
  destruct (ep_stake_shape _ _ _ _ _ _ _ _ _ _ _ H I Hu) as (sp1 & s2 & s5 & m & H1 & _ & _ & Hamt & Hm & Ho & Hat & Hnew & Hheld & _).
  pose proof (merge_payments_amt _ _ _ _ Hm) as [Mamt Mown]. cbn [sa_amt sa_owner] in Mamt, Mown.
  pose proof (pay_all_post _ _ _ _ H1 (i_led _ I) Hu) as [r1 _ l1 k1 _ _].
  apply rest_fields in r1. destruct r1 as (S1 & _).
  assert (Z1 : forall d, valid_id d -> aget (p_held sp1) (hkey (s_next (p_s sp)) d) = 0).
  { intros d Hd. apply sfresh_key; auto. rewrite S1. lia. }
  exists m. split; [exact Ho|]. split; [exact Mown|]. split; [lia|]. split; [exact Hamt|]. split; [exact Hnew|].
  split.
  { intros k at_ Hk. rewrite Hat. rewrite find_sattrs_app; [exact Hk|].
    destruct (i_attr _ I) as [_ fr]. intros ->. apply find_sattrs_in in Hk. apply fr in Hk. lia. }
  split; [exact Hut|]. unfold held. rewrite Hheld. split.
  - apply aget_aset_same.
  - intros d Hd Hne. rewrite aget_aset_other by (apply shkey_ne; auto). apply Z1. exact Hd.
Qed.

Lemma ep_claim_multi_own sp blk ep u first adds b sp' o :
  ep_claim_multi sp blk ep u u first adds b = Ok (sp', o) -> Inv sp -> valid_id u -> sowned sp u (first :: adds) ->
  exists m r,
    o = [s_next (p_s sp); sa_amt m; r] /\ sa_owner m = u /\ sa_amt m = snd first + psum (fun _ => 1) adds /\
    find_sattrs (p_attrs sp') (s_next (p_s sp)) = Some m /\
    (forall k at_, find_sattrs (p_attrs sp) k = Some at_ -> find_sattrs (p_attrs sp') k = Some at_) /\
    p_utot sp' = p_utot sp /\
    held sp' (s_next (p_s sp)) u = sa_amt m /\
    (forall d, valid_id d -> d <> u -> held sp' (s_next (p_s sp)) d = 0).
Proof.
  unfold ep_claim_multi. intros H I Hu Hown.
  apply bind_ok in H. destruct H as (sp1 & H1 & H).
  destruct (active (p_s sp1)); [|discriminate].
  apply bind_ok in H. destruct H as (sp2 & H2 & H).
  apply bind_ok in H. destruct H as (a & Ha & H).
  apply bind_ok in H. destruct H as (part & Hpart & H).
  apply bind_ok in H. destruct H as (base & Hbase & H).
  apply bind_ok in H. destruct H as (sp3 & H3 & H).
  apply bind_ok in H. destruct H as (sp4 & H4 & H).
  apply bind_ok in H. destruct H as (m & Hm & H).
  destruct (mint_pos sp4 m u) as [sp5 n] eqn:Hmint. inversion H; subst sp' o; clear H.
  pose proof (pay_all_post _ _ _ _ H1 (i_led _ I) Hu) as [r1 _ l1 k1 _ _].
  apply rest_fields in r1. destruct r1 as (S1 & A1 & UB1 & UT1 & PD1).
  unfold psettle in H2. apply bind_ok in H2. destruct H2 as (s2 & Hs2 & H2). inversion H2; subst sp2; clear H2.
  rewrite S1 in Hs2. destruct (settle_full _ _ _ Hs2 (i_stk _ I)) as (IS2 & F2 & _). sfr F2.
  unfold ppay in H3. apply bind_ok in H3. destruct H3 as (s3 & Hs3 & H3). inversion H3; subst sp3; clear H3. cbn [p_s with_s] in Hs3.
  destruct (pay_full _ _ _ _ Hs3 IS2) as (IS3 & F3 & _). pfr F3.
  rewrite scheck_update_owned in H4 by (apply (sowned_ext sp); [cbn; exact A1 | exact Hown]).
  inversion H4; subst sp4; clear H4.
  apply sinto_part_amt in Hpart. destruct Hpart as (Pa & _).
  pose proof (merge_payments_amt _ _ _ _ Hm) as [Mamt Mown]. cbn [sa_amt sa_owner] in Mamt, Mown.
  unfold mint_pos in Hmint. inversion Hmint; subst sp5 n; clear Hmint. cbn [p_s p_attrs p_held p_utot with_paid with_s held].
  assert (Nx : s_next s3 = s_next (p_s sp)) by lia.
  assert (Z1 : forall d, valid_id d -> aget (p_held sp1) (hkey (s_next (p_s sp)) d) = 0).
  { intros d Hd. apply sfresh_key; auto. rewrite S1. lia. }
  rewrite Nx. exists m, (base + b).
  split; [reflexivity|]. split; [exact Mown|]. split; [lia|].
  destruct (i_attr _ I) as [_ fr].
  split.
  { rewrite A1. apply find_sattrs_app_new. intros k a' Hin. apply fr in Hin. lia. }
  split.
  { intros k at_ Hk. rewrite A1. rewrite find_sattrs_app; [exact Hk|].
    intros ->. apply find_sattrs_in in Hk. apply fr in Hk. lia. }
  split; [exact UT1|]. split.
  - unfold held. cbn [p_held with_paid with_s]. rewrite aget_aset_same. rewrite Z1 by assumption. lia.
  - intros d Hd Hne. unfold held. cbn [p_held with_paid with_s].
    rewrite aget_aset_other by (apply shkey_ne; auto). apply Z1. exact Hd.
Qed.

(** ---------------------------------------------------------------- the endpoints on the contract's state *)
Lemma sob_stake_parts h sp blk ep a u amt adds b sp' o : sob_stake h sp blk ep a u amt adds b = Ok (sp', o) ->
  Access.is_whitelisted h u a = true /\ sowned sp u adds /\
  exists sp1 sp2, pseq sp (map (pxfer a u) adds) = Ok sp1 /\ ep_stake false sp1 blk ep u u amt adds b = Ok (sp2, o) /\
                  ep_transfer sp2 (nth 0 o 0) u a (nth 1 o 0) = Ok (sp', []).
Proof.
  unfold sob_stake. intros H.
  apply bind_ok in H. destruct H as (owners & Ho & H).
  apply bind_ok in H. destruct H as (tt & Hg & H).
  apply bind_ok in H. destruct H as (sp1 & H1 & H).
  apply bind_ok in H. destruct H as ([sp2 o2] & H2 & H).
  apply bind_ok in H. destruct H as ([sp3 o3] & H3 & H). cbn [fst snd] in *. inversion H; subst sp3 o2; clear H.
  apply enter_guard_spec in Hg. destruct Hg as [W Fo].
  cbn [pstep] in H2, H3. pose proof (ptransfer_frame _ _ _ _ _ _ _ H3) as (_ & -> & _).
  split; [exact W|]. split; [eapply sowners_all_owned; eauto|]. exists sp1, sp2. auto.
Qed.

Lemma sob_claim_parts h sp blk ep a first adds b sp' o u : sob_claim h sp blk ep a first adds b = Ok (sp', o, u) ->
  Access.is_whitelisted h u a = true /\ sowned sp u (first :: adds) /\ u <> 0 /\
  exists sp1 sp2, pseq sp (map (pxfer a u) (first :: adds)) = Ok sp1 /\
                  ep_claim_multi sp1 blk ep u u first adds b = Ok (sp2, o) /\
                  ep_transfer sp2 (nth 0 o 0) u a (nth 1 o 0) = Ok (sp', []).
Proof.
  unfold sob_claim. intros H.
  apply bind_ok in H. destruct H as (owners & Ho & H).
  apply bind_ok in H. destruct H as (u' & Hu & H).
  destruct (Access.is_whitelisted h u' a) eqn:W; [|discriminate].
  apply bind_ok in H. destruct H as (sp1 & H1 & H).
  apply bind_ok in H. destruct H as ([sp2 o2] & H2 & H).
  apply bind_ok in H. destruct H as ([sp3 o3] & H3 & H). cbn [fst snd] in *. inversion H; subst sp3 o2 u'; clear H.
  apply claim_owner_all in Hu. destruct Hu as [Fo Ne].
  cbn [pstep] in H3. pose proof (ptransfer_frame _ _ _ _ _ _ _ H3) as (_ & -> & _).
  assert (Hown : sowned sp u (first :: adds)).
  { eapply sowners_all_owned; eauto. eapply Forall_impl; [|exact Fo]. intros x [A _]. exact A. }
  assert (Hnz : u <> 0).
  { destruct owners as [|o0 t]; [congruence|]. inversion Fo as [|? ? [A B] _]; subst. exact B. }
  split; [exact W|]. split; [exact Hown|]. split; [exact Hnz|]. exists sp1, sp2. auto.
Qed.

(** (1) the whole invariant of Model/StakingPos.v is preserved by the on-behalf endpoints *)
Lemma sob_stake_inv h sp blk ep a u amt adds b sp' o : sob_stake h sp blk ep a u amt adds b = Ok (sp', o) ->
  Inv sp -> valid_id a -> valid_id u -> Inv sp'.
Proof.
  intros H I Ha Hu. apply sob_stake_parts in H. destruct H as (_ & _ & sp1 & sp2 & H1 & H2 & H3).
  apply pxfers_inv in H1; auto. apply ep_stake_inv in H2; auto. eapply ep_transfer_inv; eauto.
Qed.

Lemma sob_claim_inv h sp blk ep a first adds b sp' o u : sob_claim h sp blk ep a first adds b = Ok (sp', o, u) ->
  Inv sp -> valid_id a -> valid_id u -> Inv sp'.
Proof.
  intros H I Ha Hu. apply sob_claim_parts in H. destruct H as (_ & _ & _ & sp1 & sp2 & H1 & H2 & H3).
  apply pxfers_inv in H1; auto. apply ep_claim_multi_inv in H2; auto. eapply ep_transfer_inv; eauto.
Qed.

Theorem sob_stake_char h sp blk ep a u amt adds b sp' o :
  sob_stake h sp blk ep a u amt adds b = Ok (sp', o) -> Inv sp -> valid_id a -> valid_id u ->
  Access.pmem (u, a) (Access.h_wl h) = true /\ Access.zmem a (Access.h_black h) = false /\ sowned sp u adds /\
  exists m,
    o = [s_next (p_s sp); sa_amt m; b] /\ sa_owner m = u /\ sa_amt m = amt + psum (fun _ => 1) adds /\ 0 < amt /\
    find_sattrs (p_attrs sp') (s_next (p_s sp)) = Some m /\
    (forall k at_, find_sattrs (p_attrs sp) k = Some at_ -> find_sattrs (p_attrs sp') k = Some at_) /\
    held sp' (s_next (p_s sp)) a = sa_amt m /\ (a <> u -> held sp' (s_next (p_s sp)) u = 0) /\
    (forall v, utot sp' v = utot sp v + (if v =? u then amt else 0)).
Proof.
  intros H I Ha Hu. apply sob_stake_parts in H. destruct H as (W & Hown & sp1 & sp2 & H1 & H2 & H3).
  apply is_whitelisted_listed in W. destruct W as [W1 W2].
  split; [exact W1|]. split; [exact W2|]. split; [exact Hown|].
  pose proof (pxfers_inv _ _ _ _ _ H1 I Ha Hu) as I1.
  apply pxfers_frame in H1. apply rest_fields in H1. destruct H1 as (S1 & A1 & _ & U1 & _).
  apply ep_stake_own in H2; auto; [|apply (sowned_ext sp); assumption].
  destruct H2 as (m & -> & Hmo & Hma & Hamt & Hnew & Hold & Hut & Hh & Hz).
  rewrite S1 in *. cbn [nth] in H3.
  apply sback_transfer in H3; auto.
  destruct H3 as (B3 & Hha & Hhu). apply rest_fields in B3. destruct B3 as (_ & A3 & _ & U3 & _).
  exists m. split; [reflexivity|]. split; [exact Hmo|]. split; [exact Hma|]. split; [exact Hamt|].
  split; [rewrite A3; exact Hnew|].
  split; [intros k at_ Hk; rewrite A3; apply Hold; rewrite A1; exact Hk|].
  split; [exact Hha|]. split; [exact Hhu|].
  intros v. unfold utot at 1. rewrite U3, Hut. unfold utot at 1 2. rewrite U1. apply sutot_aset.
Qed.

Theorem sob_claim_char h sp blk ep a first adds b sp' o u :
  sob_claim h sp blk ep a first adds b = Ok (sp', o, u) -> Inv sp -> valid_id a -> valid_id u ->
  Access.pmem (u, a) (Access.h_wl h) = true /\ Access.zmem a (Access.h_black h) = false /\
  sowned sp u (first :: adds) /\ u <> 0 /\
  exists m r,
    o = [s_next (p_s sp); sa_amt m; r] /\ sa_owner m = u /\ sa_amt m = snd first + psum (fun _ => 1) adds /\
    find_sattrs (p_attrs sp') (s_next (p_s sp)) = Some m /\
    (forall k at_, find_sattrs (p_attrs sp) k = Some at_ -> find_sattrs (p_attrs sp') k = Some at_) /\
    held sp' (s_next (p_s sp)) a = sa_amt m /\ (a <> u -> held sp' (s_next (p_s sp)) u = 0) /\
    (forall v, utot sp' v = utot sp v).
Proof.
  intros H I Ha Hu. apply sob_claim_parts in H. destruct H as (W & Hown & Hnz & sp1 & sp2 & H1 & H2 & H3).
  apply is_whitelisted_listed in W. destruct W as [W1 W2].
  split; [exact W1|]. split; [exact W2|]. split; [exact Hown|]. split; [exact Hnz|].
  pose proof (pxfers_inv _ _ _ _ _ H1 I Ha Hu) as I1.
  apply pxfers_frame in H1. apply rest_fields in H1. destruct H1 as (S1 & A1 & _ & U1 & _).
  apply ep_claim_multi_own in H2; auto; [|apply (sowned_ext sp); assumption].
  destruct H2 as (m & r & -> & Hmo & Hma & Hnew & Hold & Hut & Hh & Hz).
  rewrite S1 in *. cbn [nth] in H3.
  apply sback_transfer in H3; auto.
  destruct H3 as (B3 & Hha & Hhu). apply rest_fields in B3. destruct B3 as (_ & A3 & _ & U3 & _).
  exists m, r. split; [reflexivity|]. split; [exact Hmo|]. split; [exact Hma|].
  split; [rewrite A3; exact Hnew|].
  split; [intros k at_ Hk; rewrite A3; apply Hold; rewrite A1; exact Hk|].
  split; [exact Hha|]. split; [exact Hhu|].
  intros v. unfold utot. rewrite U3, Hut, U1. reflexivity.
Qed.

(** ---------------------------------------------------------------- the wrapper *)
Definition sbvalid (op : sbop) : Prop :=
  match op with
  | SBP o => pvalid_op o
  | SBHub o => valid_id (hub_caller o)
  | SBStakeOB _ _ a u _ _ _ => valid_id a /\ valid_id u
  | SBClaimOB _ _ a _ _ _ => valid_id a
  end.

Definition SBOK (s : sbst) : Prop := Inv (sb_p s) /\ hub_ok (sb_hub s).

Theorem sbstep_ok s op s' o : sbstep s op = Ok (s', o) -> SBOK s -> sbvalid op -> SBOK s'.
Proof.
  intros H (I & K) V. destruct op as [po|ho|blk ep a u amt adds b|blk ep a first adds b]; simpl in H, V.
  - apply bind_ok in H. destruct H as ([sp' o'] & Hp & H). inversion H; subst; clear H.
    split; [eapply pstep_inv; eauto | exact K].
  - apply bind_ok in H. destruct H as (h' & Hh & H). inversion H; subst; clear H.
    split; [exact I | eapply hub_step_ok; eauto].
  - apply bind_ok in H. destruct H as ([sp' o'] & Hp & H). inversion H; subst; clear H.
    split; [|exact K]. destruct V. eapply sob_stake_inv; eauto.
  - apply bind_ok in H. destruct H as ([[sp' o'] u] & Hp & H). inversion H; subst; clear H.
    split; [|exact K]. cbn [sb_p].
    assert (Hu : valid_id u).
    { pose proof Hp as Hp'. apply sob_claim_parts in Hp'. destruct Hp' as (W & _).
      apply is_whitelisted_listed in W. destruct W as [W _]. eapply K; eauto. }
    eapply sob_claim_inv; eauto.
Qed.

Theorem sbrun_ok : forall ops s, SBOK s -> Forall sbvalid ops -> SBOK (sbrun s ops).
Proof.
  induction ops as [|op t IH]; intros s K V; [exact K|].
  change (sbrun s (op :: t)) with (sbrun (sbstep_total s op) t). inversion V; subst.
  apply IH; [|assumption]. unfold sbstep_total.
  destruct (sbstep s op) as [[s' o]|] eqn:E; [|exact K]. eapply sbstep_ok; eauto.
Qed.

Lemma init_sb_ok dsc apr minub ho : 0 < dsc -> 0 < apr -> SBOK (init_sb dsc apr minub ho).
Proof. intros Hd Ha. split; [apply init_sp_inv; assumption|]. intros u a H. discriminate. Qed.

(** C07 (and C05) for every reachable state of the mixed staking system *)
Theorem staking_behalf_owner_totals dsc apr minub ho ops u : 0 < dsc -> 0 < apr -> Forall sbvalid ops ->
  let sp := sb_p (sbrun (init_sb dsc apr minub ho) ops) in
  Inv sp /\ utot sp u = hsum (fun n => if sowner_of sp n =? u then 1 else 0) (p_held sp) /\
  s_supply (p_s sp) = asum (p_held sp).
Proof.
  intros Hd Ha V sp. destruct (sbrun_ok ops _ (init_sb_ok dsc apr minub ho Hd Ha) V) as (I & _). fold sp in I.
  split; [exact I|]. split; [exact (i_ut _ I u) | symmetry; exact (i_sup _ I)].
Qed.

Lemma acredit_same l k v : aget (acredit l k v) k = aget l k + v.
Proof. unfold acredit. apply aget_aset_same. Qed.
Lemma acredit_other l k v w : k <> w -> aget (acredit l k v) w = aget l w.
Proof. unfold acredit. intros H. apply aget_aset_other. exact H. Qed.

Theorem stake_on_behalf_spec s blk ep a u amt adds b s' o :
  sbstep s (SBStakeOB blk ep a u amt adds b) = Ok (s', o) -> SBOK s -> valid_id a -> valid_id u ->
  let sp := sb_p s in let sp' := sb_p s' in
  Access.pmem (u, a) (Access.h_wl (sb_hub s)) = true /\ Access.zmem a (Access.h_black (sb_hub s)) = false /\
  sowned sp u adds /\ sb_hub s' = sb_hub s /\
  exists m,
    o = [s_next (p_s sp); sa_amt m; b] /\
    find_sattrs (p_attrs sp') (s_next (p_s sp)) = Some m /\ sa_owner m = u /\ sa_amt m = amt + psum (fun _ => 1) adds /\
    held sp' (s_next (p_s sp)) a = sa_amt m /\ (a <> u -> held sp' (s_next (p_s sp)) u = 0) /\
    (forall k at_, find_sattrs (p_attrs sp) k = Some at_ -> find_sattrs (p_attrs sp') k = Some at_) /\
    (forall v, utot sp' v = utot sp v + (if v =? u then amt else 0)) /\
    aget (sb_rew s') u = aget (sb_rew s) u + b /\ (forall v, v <> u -> aget (sb_rew s') v = aget (sb_rew s) v) /\
    aget (sb_in s') a = aget (sb_in s) a + amt /\ (forall v, v <> a -> aget (sb_in s') v = aget (sb_in s) v) /\
    sb_out s' = sb_out s.
Proof.
  intros H (I & _) Ha Hu sp sp'. simpl in H.
  apply bind_ok in H. destruct H as ([sp1 o1] & Hf & H). inversion H; subst s' o; clear H. cbn [fst snd] in *.
  apply sob_stake_char in Hf; auto. destruct Hf as (W1 & W2 & Hown & m & -> & Hmo & Hma & _ & Hnew & Hold & Hha & Hhu & Hut).
  split; [exact W1|]. split; [exact W2|]. split; [exact Hown|]. split; [reflexivity|].
  exists m. cbn [sb_p sb_rew sb_in sb_out nth]. repeat split; auto.
  - apply acredit_same.
  - intros v Hv. apply acredit_other. congruence.
  - apply acredit_same.
  - intros v Hv. apply acredit_other. congruence.
Qed.

Theorem staking_claim_on_behalf_spec s blk ep a first adds b s' o :
  sbstep s (SBClaimOB blk ep a first adds b) = Ok (s', o) -> SBOK s -> valid_id a ->
  let sp := sb_p s in let sp' := sb_p s' in
  exists u m r,
    u <> 0 /\ sowned sp u (first :: adds) /\
    Access.pmem (u, a) (Access.h_wl (sb_hub s)) = true /\ Access.zmem a (Access.h_black (sb_hub s)) = false /\
    sb_hub s' = sb_hub s /\
    o = [s_next (p_s sp); sa_amt m; r] /\
    find_sattrs (p_attrs sp') (s_next (p_s sp)) = Some m /\ sa_owner m = u /\ sa_amt m = snd first + psum (fun _ => 1) adds /\
    held sp' (s_next (p_s sp)) a = sa_amt m /\ (a <> u -> held sp' (s_next (p_s sp)) u = 0) /\
    (forall k at_, find_sattrs (p_attrs sp) k = Some at_ -> find_sattrs (p_attrs sp') k = Some at_) /\
    (forall v, utot sp' v = utot sp v) /\
    aget (sb_rew s') u = aget (sb_rew s) u + r /\ (forall v, v <> u -> aget (sb_rew s') v = aget (sb_rew s) v) /\
    sb_in s' = sb_in s /\ sb_out s' = sb_out s.
Proof.
  intros H (I & Hh) Ha sp sp'. simpl in H.
  apply bind_ok in H. destruct H as ([[sp1 o1] u] & Hf & H). inversion H; subst s' o; clear H.
  assert (Hu : valid_id u).
  { pose proof Hf as Hf'. apply sob_claim_parts in Hf'. destruct Hf' as (W & _).
    apply is_whitelisted_listed in W. destruct W as [W _]. eapply Hh; eauto. }
  apply sob_claim_char in Hf; auto.
  destruct Hf as (W1 & W2 & Hown & Hnz & m & r & -> & Hmo & Hma & Hnew & Hold & Hha & Hhu & Hut).
  exists u, m, r. cbn [sb_p sb_rew sb_in sb_out sb_hub nth]. repeat split; auto.
  - apply acredit_same.
  - intros v Hv. apply acredit_other. congruence.
Qed.

(** (3) *)
Theorem stake_unauthorised_unchanged s blk ep a u amt adds b :
  Access.is_whitelisted (sb_hub s) u a = false -> sbstep_total s (SBStakeOB blk ep a u amt adds b) = s.
Proof.
  intros W. unfold sbstep_total. simpl.
  destruct (sob_stake _ _ _ _ _ _ _ _ _) as [[sp1 o1]|] eqn:E; [|reflexivity].
  apply sob_stake_parts in E. destruct E as (W' & _). congruence.
Qed.

Theorem stake_foreign_unchanged s blk ep a u amt adds b i n x own :
  nth_error adds i = Some (n, x) -> find_sattrs (p_attrs (sb_p s)) n = Some own -> sa_owner own <> u ->
  sbstep_total s (SBStakeOB blk ep a u amt adds b) = s.
Proof.
  intros Hi Hf Hne. unfold sbstep_total. simpl.
  destruct (sob_stake _ _ _ _ _ _ _ _ _) as [[sp1 o1]|] eqn:E; [|reflexivity].
  apply sob_stake_parts in E. destruct E as (_ & Hown & _). exfalso.
  unfold sowned in Hown. rewrite Forall_forall in Hown. apply nth_error_In in Hi.
  destruct (Hown _ Hi) as (a0 & Ha0 & Ho). simpl in Ha0. congruence.
Qed.

Theorem staking_claim_unauthorised_unchanged s blk ep a first adds b own :
  find_sattrs (p_attrs (sb_p s)) (fst first) = Some own -> Access.is_whitelisted (sb_hub s) (sa_owner own) a = false ->
  sbstep_total s (SBClaimOB blk ep a first adds b) = s.
Proof.
  intros Hf W. unfold sbstep_total. simpl.
  destruct (sob_claim _ _ _ _ _ _ _ _) as [[[sp1 o1] u]|] eqn:E; [|reflexivity].
  apply sob_claim_parts in E. destruct E as (W' & Hown & _). exfalso.
  inversion Hown as [|? ? (a0 & Ha0 & Ho) _]; subst. rewrite Hf in Ha0. inversion Ha0; subst. congruence.
Qed.

Theorem staking_claim_mixed_unchanged s blk ep a first adds b i j n1 x1 n2 x2 o1 o2 :
  nth_error (first :: adds) i = Some (n1, x1) -> nth_error (first :: adds) j = Some (n2, x2) ->
  find_sattrs (p_attrs (sb_p s)) n1 = Some o1 -> find_sattrs (p_attrs (sb_p s)) n2 = Some o2 -> sa_owner o1 <> sa_owner o2 ->
  sbstep_total s (SBClaimOB blk ep a first adds b) = s.
Proof.
  intros Hi Hj H1 H2 Hne. unfold sbstep_total. simpl.
  destruct (sob_claim _ _ _ _ _ _ _ _) as [[[sp1 o1'] u]|] eqn:E; [|reflexivity].
  apply sob_claim_parts in E. destruct E as (_ & Hown & _). exfalso.
  unfold sowned in Hown. rewrite Forall_forall in Hown. apply nth_error_In in Hi, Hj.
  destruct (Hown _ Hi) as (a1 & Ha1 & Hu1). destruct (Hown _ Hj) as (a2 & Ha2 & Hu2). simpl in Ha1, Ha2. congruence.
Qed.

(** (4) staking tokens leave the contract towards an account only as rewards or through that account's own unbondFarm;
    no on-behalf operation unstakes or unbonds *)
Definition own_unbond (x : Z) (op : sbop) : Prop := match op with SBP (PUnbond _ c _ _) => c = x | _ => False end.

Lemma sbstep_out s op s' o x : sbstep s op = Ok (s', o) -> ~ own_unbond x op -> aget (sb_out s') x = aget (sb_out s) x.
Proof.
  intros H Hn. destruct op as [po|ho|blk ep a u amt adds b|blk ep a first adds b]; simpl in H.
  - apply bind_ok in H. destruct H as ([sp' o'] & Hf & H). inversion H; subst s' o; clear H. cbn [sb_out fst snd].
    assert (Hz : pout po o' = 0 \/ (exists ep c n amt, po = PUnbond ep c n amt)).
    { destruct po; simpl; auto. right. eauto 10. }
    destruct Hz as [Hz | (ep & c & n & amt & ->)].
    + rewrite Hz. destruct (Z.eq_dec (pcaller po) x) as [<-|Hx]; [rewrite acredit_same; lia | apply acredit_other; exact Hx].
    + simpl. simpl in Hn. apply acredit_other. exact Hn.
  - apply bind_ok in H. destruct H as (h' & _ & H). inversion H; subst. reflexivity.
  - apply bind_ok in H. destruct H as (r & _ & H). inversion H; subst. reflexivity.
  - apply bind_ok in H. destruct H as ([[sp' o'] u] & _ & H). inversion H; subst. reflexivity.
Qed.

Theorem staking_no_principal_without_unbond : forall ops s x, Forall (fun op => ~ own_unbond x op) ops ->
  aget (sb_out (sbrun s ops)) x = aget (sb_out s) x.
Proof.
  induction ops as [|op t IH]; intros s x V; [reflexivity|].
  change (sbrun s (op :: t)) with (sbrun (sbstep_total s op) t). inversion V; subst.
  rewrite IH by assumption. unfold sbstep_total. destruct (sbstep s op) as [[s' o]|] eqn:E; [|reflexivity].
  eapply sbstep_out; eauto.
Qed.

Definition shub_ops_of (ops : list sbop) : list Access.hub_op :=
  flat_map (fun op => match op with SBHub o => [o] | _ => [] end) ops.

Lemma sbrun_hub : forall ops s, sb_hub (sbrun s ops) = Access.hub_run (sb_hub s) (shub_ops_of ops).
Proof.
  induction ops as [|op t IH]; intros s; [reflexivity|].
  change (sbrun s (op :: t)) with (sbrun (sbstep_total s op) t). rewrite IH. clear IH.
  unfold sbstep_total. destruct op as [po|ho|blk ep a u amt adds b|blk ep a first adds b]; simpl.
  - destruct (pstep (sb_p s) po) as [[s1 o]|]; reflexivity.
  - unfold Access.hub_run. simpl. unfold Access.hub_step_total. destruct (Access.hub_step (sb_hub s) ho); reflexivity.
  - destruct (sob_stake _ _ _ _ _ _ _ _ _) as [[s1 o]|]; reflexivity.
  - destruct (sob_claim _ _ _ _ _ _ _ _) as [[[s1 o] u]|]; reflexivity.
Qed.

Theorem staking_revoked_agent_fails s s1 u a ops blk ep amt adds b :
  sbstep s (SBHub (Access.HRemoveWhitelist u a)) = Ok (s1, []) ->
  ~ In (Access.HWhitelist u a) (shub_ops_of ops) ->
  let s2 := sbrun s1 ops in
  sbstep_total s2 (SBStakeOB blk ep a u amt adds b) = s2.
Proof.
  intros H Hno s2. apply stake_unauthorised_unchanged. unfold s2. rewrite sbrun_hub.
  simpl in H. apply bind_ok in H. destruct H as (h' & Hh & H). inversion H; subst; clear H. simpl.
  eapply AccessProofs.hub_revoked; eauto.
Qed.

Theorem staking_blacklisted_agent_fails s a ops u blk ep amt adds b :
  Access.zmem a (Access.h_black (sb_hub s)) = true ->
  ~ In (Access.HRemoveBlacklist (Access.h_owner (sb_hub s)) a) (shub_ops_of ops) ->
  let s2 := sbrun s ops in
  sbstep_total s2 (SBStakeOB blk ep a u amt adds b) = s2.
Proof.
  intros Hb Hno s2. apply stake_unauthorised_unchanged. unfold s2. rewrite sbrun_hub.
  apply AccessProofs.hub_blacklisted; assumption.
Qed.

End StakB.
