(** The only facts about the generated constants that proofs may use.  Each is re-checked against
    the values extracted from /repo on every run; a source edit that falsifies one breaks exactly
    the properties that depend on it. *)
From MX Require Import Base.Prelude Gen.Params.

Lemma pair_params :
  0 < PAIR_MAX_PERCENTAGE /\ 0 <= PAIR_MAX_FEE_PERCENTAGE /\ PAIR_MAX_FEE_PERCENTAGE < PAIR_MAX_PERCENTAGE.
Proof. vm_compute. repeat split; congruence. Qed.

Lemma min_liq_pos : 0 < MINIMUM_LIQUIDITY.
Proof. vm_compute. reflexivity. Qed.

Lemma state_codes : ST_Inactive = 0 /\ ST_Active = 1 /\ ST_PartialActive = 2 /\ ST_COUNT = 3.
Proof. vm_compute. repeat split. Qed.
