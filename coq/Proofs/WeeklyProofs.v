(** Lemmas about the weekly-rewards-splitting model ([Model.Weekly]) and the fees collector built on
    it ([Model.FeesCollector]); the property statements of C10 in [Props/C10.v] are instances.

    Part A  energy decay, claim loop structure, the share formula, the claim window
    Part B  fees collector: claim characterisation, at-most-once over histories, frozen totals
    Part C  the global bookkeeping invariant: total energy = sum of the recorded energies decayed to the
            week, with the expiry-bucket invariant that makes the weekly shift exact
    Part D  never more than deposited; the collector can always pay *)
From MX Require Import Base.Prelude Gen.Params Model.Weekly Model.FeesCollector.

(** The only facts about the generated constants the proofs use. *)
Lemma weekly_params : 0 < EPOCHS_IN_WEEK /\ 0 <= USER_MAX_CLAIM_WEEKS /\ 0 <= BLOCKS_IN_WEEK.
Proof. vm_compute. repeat split; congruence. Qed.

Lemma week_pos : 0 < EPOCHS_IN_WEEK.
Proof. apply weekly_params. Qed.
Lemma max_weeks_nonneg : 0 <= USER_MAX_CLAIM_WEEKS.
Proof. apply weekly_params. Qed.

Global Opaque EPOCHS_IN_WEEK USER_MAX_CLAIM_WEEKS BLOCKS_IN_WEEK.

Local Notation WK := EPOCHS_IN_WEEK.
Local Notation MAXW := USER_MAX_CLAIM_WEEKS.

(** ================================================================== Part A *)

(** ------------------------------------------------------------------ maps *)
Lemma rget_rset_same l k v : rget (rset l k v) k = v.
Proof.
  induction l as [|[k' v'] t IH]; simpl.
  - rewrite Z.eqb_refl. reflexivity.
  - destruct (k' =? k) eqn:E; simpl.
    + rewrite Z.eqb_refl. reflexivity.
    + rewrite E. exact IH.
Qed.

Lemma rget_rset_other l k k2 v : k <> k2 -> rget (rset l k v) k2 = rget l k2.
Proof.
  intros Hne. induction l as [|[k' v'] t IH]; simpl.
  - destruct (k =? k2) eqn:E; [apply Z.eqb_eq in E; contradiction | reflexivity].
  - destruct (k' =? k) eqn:E; simpl.
    + apply Z.eqb_eq in E. subst k'.
      destruct (k =? k2) eqn:E2; [apply Z.eqb_eq in E2; contradiction | reflexivity].
    + destruct (k' =? k2); [reflexivity | exact IH].
Qed.

Lemma pfind_pset_same l u p : pfind (pset l u p) u = Some p.
Proof.
  induction l as [|[u' p'] t IH]; simpl.
  - rewrite Z.eqb_refl. reflexivity.
  - destruct (u' =? u) eqn:E; simpl.
    + rewrite Z.eqb_refl. reflexivity.
    + rewrite E. exact IH.
Qed.

Lemma pfind_pset_other l u u2 p : u <> u2 -> pfind (pset l u p) u2 = pfind l u2.
Proof.
  intros Hne. induction l as [|[u' p'] t IH]; simpl.
  - destruct (u =? u2) eqn:E; [apply Z.eqb_eq in E; contradiction | reflexivity].
  - destruct (u' =? u) eqn:E; simpl.
    + apply Z.eqb_eq in E. subst u'.
      destruct (u =? u2) eqn:E2; [apply Z.eqb_eq in E2; contradiction | reflexivity].
    + destruct (u' =? u2); [reflexivity | exact IH].
Qed.

Lemma pfind_pdel_same l u : pfind (pdel l u) u = None.
Proof.
  unfold pdel. induction l as [|[u' p'] t IH]; simpl; [reflexivity|].
  destruct (u' =? u) eqn:E; simpl; [exact IH|]. rewrite E. exact IH.
Qed.

Lemma pfind_pdel_other l u u2 : u <> u2 -> pfind (pdel l u) u2 = pfind l u2.
Proof.
  intros Hne. unfold pdel. induction l as [|[u' p'] t IH]; simpl; [reflexivity|].
  destruct (u' =? u) eqn:E; simpl.
  - apply Z.eqb_eq in E. subst u'.
    destruct (u =? u2) eqn:E2; [apply Z.eqb_eq in E2; contradiction | exact IH].
  - destruct (u' =? u2); [reflexivity | exact IH].
Qed.

(** equality of small records up to linear arithmetic in the fields *)
Ltac req := first [reflexivity | lia | (f_equal; first [reflexivity | lia | (f_equal; first [reflexivity | lia])])].

(** ------------------------------------------------------------------ energy decay *)
(** the signed amount of a recorded entry after decaying to week [w] (7 epochs of all its tokens per week) *)
Definition decay_amt (p : progress) (w : Z) : Z :=
  en_amt (pr_en p) - WK * en_tok (pr_en p) * (w - pr_week p).

(** "their energy for that week": the positive part *)
Definition energy_at (p : progress) (w : Z) : Z := Z.max 0 (decay_amt p w).

(** the entry advanced by [k] weeks *)
Definition adv (p : progress) (k : Z) : progress :=
  mkProg (mkEn (en_amt (pr_en p) - en_tok (pr_en p) * (WK * k)) (en_epoch (pr_en p) + WK * k) (en_tok (pr_en p)))
         (pr_week p + k).

Lemma en_amount_max e : en_amount e = Z.max 0 (en_amt e).
Proof. unfold en_amount. destruct (0 <? en_amt e) eqn:E; [apply Z.ltb_lt in E | apply Z.ltb_ge in E]; lia. Qed.

Lemma en_amount_nonneg e : 0 <= en_amount e.
Proof. rewrite en_amount_max. lia. Qed.

Lemma deplete_fwd e n : 0 <= en_tok e -> 0 <= n ->
  en_deplete e (en_epoch e + n) = mkEn (en_amt e - en_tok e * n) (en_epoch e + n) (en_tok e).
Proof.
  intros Ht Hn. unfold en_deplete. destruct e as [a ep t]; simpl in *.
  destruct (ep =? ep + n) eqn:E.
  - apply Z.eqb_eq in E. assert (n = 0) by lia. subst n. f_equal; lia.
  - apply Z.eqb_neq in E. f_equal.
    destruct (0 <? t) eqn:E1; simpl.
    + destruct (ep <? ep + n) eqn:E2; [lia | apply Z.ltb_ge in E2; lia].
    + apply Z.ltb_ge in E1. assert (t = 0) by lia. subst t. lia.
Qed.

Lemma advance_week_adv p : 0 <= en_tok (pr_en p) -> advance_week p = adv p 1.
Proof.
  intros Ht. unfold advance_week, adv. pose proof week_pos.
  rewrite deplete_fwd by lia. req.
Qed.

Lemma advance_multiple_adv p n : 0 <= en_tok (pr_en p) -> 0 <= n -> advance_multiple_weeks p n = adv p n.
Proof.
  intros Ht Hn. unfold advance_multiple_weeks, adv. pose proof week_pos.
  rewrite deplete_fwd by nia. reflexivity.
Qed.

Lemma adv_adv p a b : adv (adv p a) b = adv p (a + b).
Proof. unfold adv; simpl. req. Qed.

Lemma adv_0 p : adv p 0 = p.
Proof. unfold adv. destruct p as [[a e t] w]; simpl. req. Qed.

Lemma adv_week p k : pr_week (adv p k) = pr_week p + k.
Proof. reflexivity. Qed.

Lemma adv_tok p k : en_tok (pr_en (adv p k)) = en_tok (pr_en p).
Proof. reflexivity. Qed.

Lemma adv_amount p k : en_amount (pr_en (adv p k)) = energy_at p (pr_week p + k).
Proof. rewrite en_amount_max. unfold energy_at, decay_amt, adv; simpl. f_equal. lia. Qed.

Lemma energy_at_nonneg p w : 0 <= energy_at p w.
Proof. unfold energy_at. lia. Qed.

(** ------------------------------------------------------------------ the share formula *)
(** q = floor(n / d), by cross-multiplication *)
Definition floor_of (q n d : Z) : Prop := q * d <= n < q * d + d.

Lemma floor_of_div n d : 0 < d -> floor_of (n / d) n d.
Proof. intros. split; [apply div_lo | apply div_hi]; assumption. Qed.

(** every payment is the floor share of one of the week's totals, in order, zero shares dropped *)
Lemma shares_char tot e E : 0 < E ->
  shares tot e E = filter (fun p => 0 <? snd p) (map (fun ta => (fst ta, snd ta * e / E)) tot).
Proof.
  intros HE. induction tot as [|[t a] tl IH]; simpl; [reflexivity|].
  destruct (0 <? a * e / E); simpl; rewrite IH; reflexivity.
Qed.

Lemma shares_in tot e E t x : 0 < E -> In (t, x) (shares tot e E) ->
  exists a, In (t, a) tot /\ floor_of x (a * e) E /\ 0 < x.
Proof.
  intros HE. induction tot as [|[t' a] tl IH]; simpl; [intros []|].
  destruct (0 <? a * e / E) eqn:Ep.
  - intros [Heq|Hin].
    + inversion Heq; subst. exists a. split; [left; reflexivity|].
      split; [apply floor_of_div; assumption | apply Z.ltb_lt in Ep; exact Ep].
    + destruct (IH Hin) as (a' & Hin' & Hf). exists a'. split; [right; exact Hin' | exact Hf].
  - intros Hin. destruct (IH Hin) as (a' & Hin' & Hf). exists a'. split; [right; exact Hin' | exact Hf].
Qed.

Lemma shares_complete tot e E t a : 0 < E -> In (t, a) tot -> 0 < a * e / E -> In (t, a * e / E) (shares tot e E).
Proof.
  intros HE. induction tot as [|[t' a'] tl IH]; simpl; [intros []|].
  intros [Heq|Hin] Hp.
  - inversion Heq; subst. apply Z.ltb_lt in Hp. rewrite Hp. left; reflexivity.
  - destruct (0 <? a' * e / E); [right|]; apply IH; assumption.
Qed.

(** total paid per token of one week's share list *)
Definition tok_sum (l : list (Z * Z)) (t : Z) : Z :=
  fold_right (fun p acc => if fst p =? t then snd p + acc else acc) 0 l.

Lemma tok_sum_app l1 l2 t : tok_sum (l1 ++ l2) t = tok_sum l1 t + tok_sum l2 t.
Proof. induction l1 as [|[t' a] tl IH]; simpl; [lia|]. destruct (t' =? t); rewrite IH; lia. Qed.

Lemma tok_sum_shares_le tot e E t : 0 < E -> 0 <= e -> Forall (fun p => 0 <= snd p) tot ->
  tok_sum (shares tot e E) t * E <= tok_sum tot t * e /\ 0 <= tok_sum (shares tot e E) t.
Proof.
  intros HE He. induction tot as [|[t' a] tl IH]; simpl; intros Hall; [lia|].
  inversion Hall as [|? ? Ha Htl]; subst. simpl in Ha. destruct (IH Htl) as [IH1 IH2].
  pose proof (div_lo (a * e) E HE) as Hlo.
  assert (0 <= a * e / E) by (apply div_nonneg; [nia | assumption]).
  destruct (0 <? a * e / E) eqn:Ep; simpl.
  - destruct (t' =? t); [|split; assumption]. split; nia.
  - apply Z.ltb_ge in Ep. destruct (t' =? t); [|split; assumption]. split; nia.
Qed.

(** ------------------------------------------------------------------ frames *)
(** everything of the weekly state except the frozen weekly totals *)
Definition same_but_rewards (s s' : wstate) : Prop :=
  w_prog s' = w_prog s /\ w_energy s' = w_energy s /\ w_tokens s' = w_tokens s /\ w_last s' = w_last s /\
  w_first s' = w_first s /\ w_btok s' = w_btok s /\ w_bsur s' = w_bsur s.

Lemma sbr_refl s : same_but_rewards s s.
Proof. unfold same_but_rewards. repeat split. Qed.

Lemma sbr_trans s1 s2 s3 : same_but_rewards s1 s2 -> same_but_rewards s2 s3 -> same_but_rewards s1 s3.
Proof.
  unfold same_but_rewards. intros (a1 & a2 & a3 & a4 & a5 & a6 & a7) (b1 & b2 & b3 & b4 & b5 & b6 & b7).
  repeat split; congruence.
Qed.

Lemma sbr_set_rewards s l : same_but_rewards s (set_rewards s l).
Proof. unfold same_but_rewards. repeat split. Qed.

(** consecutive weeks a, a+1, ..., a+n-1 *)
Fixpoint zseq (a : Z) (n : nat) : list Z :=
  match n with O => [] | S n' => a :: zseq (a + 1) n' end.

Lemma zseq_in a n w : In w (zseq a n) <-> a <= w < a + Z.of_nat n.
Proof.
  revert a. induction n as [|n IH]; intros a; simpl.
  - split; [intros [] | lia].
  - rewrite IH. split; [intros [->|Hx]; lia | intros Hx; destruct (Z.eq_dec a w); [left; assumption | right; lia]].
Qed.

Lemma zseq_nodup a n : NoDup (zseq a n).
Proof.
  revert a. induction n as [|n IH]; intros a; simpl; constructor; [|apply IH].
  rewrite zseq_in. lia.
Qed.

(** ------------------------------------------------------------------ default hook *)
Section DefaultHook.
  Variable H : Type.
  Variable collect : H -> Z -> H * list (Z * Z).

  Lemma collect_and_get_spec h s week h' s' tot :
    collect_and_get H collect h s week = (h', s', tot) ->
    same_but_rewards s s' /\
    (forall w, w <> week -> rget (w_rewards s') w = rget (w_rewards s) w) /\
    rget (w_rewards s') week = tot /\
    (rget (w_rewards s) week <> [] -> tot = rget (w_rewards s) week /\ h' = h /\ s' = s) /\
    (rget (w_rewards s) week = [] -> (h', tot) = collect h week).
  Proof.
    unfold collect_and_get. destruct (rget (w_rewards s) week) as [|x r] eqn:Er.
    - destruct (collect h week) as [h1 r1] eqn:Ec. intros Heq; inversion Heq; subst.
      split; [apply sbr_set_rewards|]. split; [intros w Hw; simpl; apply rget_rset_other; congruence|].
      split; [simpl; apply rget_rset_same|]. split; [intros Hne; congruence | reflexivity].
    - intros Heq; inversion Heq; subst. split; [apply sbr_refl|]. split; [reflexivity|].
      split; [exact Er|]. split; [intros _; repeat split | intros Hn; discriminate].
  Qed.

  Lemma default_hook_spec h s week e E h' s' r :
    default_user_rewards H collect h s week e E = Ok (h', s', r) ->
    same_but_rewards s s' /\
    (forall w, w <> week -> rget (w_rewards s') w = rget (w_rewards s) w) /\
    r = (if (e =? 0) || (E =? 0) then [] else shares (rget (w_rewards s') week) e E) /\
    (rget (w_rewards s) week <> [] -> rget (w_rewards s') week = rget (w_rewards s) week /\ h' = h) /\
    ((e =? 0) || (E =? 0) = true -> s' = s /\ h' = h) /\
    ((e =? 0) || (E =? 0) = false -> rget (w_rewards s) week = [] -> (h', rget (w_rewards s') week) = collect h week).
  Proof.
    unfold default_user_rewards. destruct ((e =? 0) || (E =? 0)) eqn:Ez.
    - intros Heq; inversion Heq; subst. split; [apply sbr_refl|]. split; [reflexivity|].
      split; [reflexivity|]. split; [intros; split; reflexivity|]. split; [intros; split; reflexivity | discriminate].
    - destruct (collect_and_get H collect h s week) as [[h1 s1] tot] eqn:Ec.
      intros Heq; inversion Heq; subst.
      destruct (collect_and_get_spec _ _ _ _ _ _ Ec) as (Hs & Ho & Hw & Hne & Hem).
      split; [exact Hs|]. split; [exact Ho|]. split; [rewrite Hw; reflexivity|].
      split; [intros Hn; destruct (Hne Hn) as (-> & -> & ->); split; reflexivity|].
      split; [discriminate|]. intros _ Hn. rewrite Hw. apply Hem. exact Hn.
  Qed.
End DefaultHook.

(** ------------------------------------------------------------------ claim loop, any hook that only
    touches the host and the frozen weekly totals (true of the default hook and of the farms' one) *)
Section ClaimLoop.
  Variable H : Type.
  Variable hook : H -> wstate -> Z -> Z -> Z -> result (H * wstate * list (Z * Z)).
  Hypothesis hook_frame : forall h s w e E h' s' r, hook h s w e E = Ok (h', s', r) -> same_but_rewards s s'.

  Lemma claim_weeks_frame n : forall h s p h' s' p' det,
    0 <= en_tok (pr_en p) ->
    claim_weeks H hook n h s p = Ok (h', s', p', det) ->
    same_but_rewards s s' /\ p' = adv p (Z.of_nat n) /\ map fst det = zseq (pr_week p) n.
  Proof.
    induction n as [|n IH]; intros h s p h' s' p' det Ht; simpl claim_weeks.
    - intros Heq; inversion Heq; subst. split; [apply sbr_refl|]. split; [rewrite adv_0; reflexivity | reflexivity].
    - intros Heq. apply bind_ok in Heq. destruct Heq as ([[[h1 s1] p1] r] & Hs & Heq).
      apply bind_ok in Heq. destruct Heq as ([[[h2 s2] p2] rs] & Hr & Heq). inversion Heq; subst.
      unfold claim_single in Hs. apply bind_ok in Hs. destruct Hs as ([[hx sx] rx] & Hh & Hs). inversion Hs; subst.
      rewrite advance_week_adv in Hr by assumption.
      destruct (IH _ _ _ _ _ _ _ (eq_ind _ (fun x => 0 <= x) Ht _ (eq_sym (adv_tok p 1))) Hr) as (Hf & Hp & Hm).
      split; [eapply sbr_trans; [eapply hook_frame; exact Hh | exact Hf]|].
      split; [rewrite Hp, adv_adv; f_equal; lia|].
      simpl. rewrite Hm. reflexivity.
  Qed.
End ClaimLoop.

(** ------------------------------------------------------------------ what a user touch leaves alone *)
Lemma shift_buckets_ok_frame n : forall f bt bs T E f' bt' bs' T' E',
  shift_buckets n f bt bs T E = Ok (f', bt', bs', T', E') -> f' = f + Z.of_nat n.
Proof.
  induction n as [|n IH]; intros f bt bs T E f' bt' bs' T' E'; simpl shift_buckets.
  - intros Heq; inversion Heq; lia.
  - intros Heq. apply bind_ok in Heq. destruct Heq as (t' & _ & Heq). apply IH in Heq. lia.
Qed.

Definition cleared_week (cw : Z) : Z := cw - MAXW - 1.

Lemma perform_weekly_update_frame s cw s1 :
  perform_weekly_update s cw = Ok s1 ->
  w_prog s1 = w_prog s /\ w_last s1 = cw /\
  (forall w, w <> cw -> w <> cleared_week cw -> aget (w_energy s1) w = aget (w_energy s) w) /\
  (forall w, w <> cleared_week cw -> rget (w_rewards s1) w = rget (w_rewards s) w).
Proof.
  unfold perform_weekly_update, cleared_week.
  destruct (w_last s =? cw) eqn:E1.
  - intros Heq; inversion Heq; subst. apply Z.eqb_eq in E1. repeat split; auto.
  - destruct (w_last s =? 0) eqn:E2.
    + intros Heq; inversion Heq; subst. simpl. repeat split; auto.
    + destruct (w_last s <=? cw) eqn:E3; [|discriminate].
      intros Heq. apply bind_ok in Heq. destruct Heq as ([[[[f bt] bs] tt'] te'] & Hsh & Heq).
      destruct (MAXW + 1 <? cw) eqn:E4; inversion Heq; subst; simpl.
      * split; [reflexivity|]. split; [reflexivity|]. split.
        -- intros w Hw Hc. rewrite aget_aset_other by lia. rewrite aget_aset_other by lia. reflexivity.
        -- intros w Hc. apply rget_rset_other. lia.
      * split; [reflexivity|]. split; [reflexivity|]. split.
        -- intros w Hw Hc. rewrite aget_aset_other by lia. reflexivity.
        -- intros w Hc. reflexivity.
Qed.

Lemma reallocate_bucket_frame s a b c s' hp hc :
  reallocate_bucket s a b c = Ok (s', hp, hc) ->
  w_prog s' = w_prog s /\ w_energy s' = w_energy s /\ w_tokens s' = w_tokens s /\ w_last s' = w_last s /\
  w_rewards s' = w_rewards s /\ w_first s' = w_first s.
Proof.
  unfold reallocate_bucket. intros Heq. apply bind_ok in Heq. destruct Heq as (s1 & Hs1 & Heq).
  assert (Hf : w_prog s1 = w_prog s /\ w_energy s1 = w_energy s /\ w_tokens s1 = w_tokens s /\ w_last s1 = w_last s /\
               w_rewards s1 = w_rewards s /\ w_first s1 = w_first s).
  { destruct (bucket_id_for (w_first s) b).
    - apply bind_ok in Hs1. destruct Hs1 as (t & _ & Hs1). apply bind_ok in Hs1. destruct Hs1 as (x & _ & Hs1).
      inversion Hs1; subst. simpl. repeat split.
    - inversion Hs1; subst. repeat split. }
  destruct Hf as (f1 & f2 & f3 & f4 & f5 & f6).
  inversion Heq; subst. destruct (bucket_id_for (w_first s1) c); simpl; repeat split; assumption.
Qed.

Lemma update_global_amounts_frame s cw la prev cur s1 :
  update_global_amounts s cw la prev cur = Ok s1 ->
  w_prog s1 = w_prog s /\ w_last s1 = cw /\
  (forall w, w <> cw -> w <> cleared_week cw -> aget (w_energy s1) w = aget (w_energy s) w) /\
  (forall w, w <> cleared_week cw -> rget (w_rewards s1) w = rget (w_rewards s) w).
Proof.
  unfold update_global_amounts. intros Heq. apply bind_ok in Heq. destruct Heq as (s0 & Hp & Heq).
  destruct (la <=? cw); [|discriminate].
  apply bind_ok in Heq. destruct Heq as ([[s2 hp] hc] & Hr & Heq).
  apply bind_ok in Heq. destruct Heq as (tl' & _ & Heq).
  apply bind_ok in Heq. destruct Heq as (te & _ & Heq). inversion Heq; subst; clear Heq.
  destruct (perform_weekly_update_frame _ _ _ Hp) as (p1 & p2 & p3 & p4).
  destruct (reallocate_bucket_frame _ _ _ _ _ _ _ Hr) as (r1 & r2 & r3 & r4 & r5 & r6).
  simpl. split; [congruence|]. split; [congruence|]. split.
  - intros w Hw Hc. rewrite aget_aset_other by lia. rewrite r2. apply p3; assumption.
  - intros w Hc. rewrite r5. apply p4; assumption.
Qed.

Lemma update_user_energy_frame s cw cur op s1 :
  update_user_energy s cw cur op = Ok s1 ->
  w_prog s1 = w_prog s /\ w_last s1 = cw /\
  (forall w, w <> cw -> w <> cleared_week cw -> aget (w_energy s1) w = aget (w_energy s) w) /\
  (forall w, w <> cleared_week cw -> rget (w_rewards s1) w = rget (w_rewards s) w).
Proof.
  unfold update_user_energy. destruct op as [p|]; apply update_global_amounts_frame.
Qed.

(** ------------------------------------------------------------------ claim_multi: the window *)
Definition first_claim_week (p : progress) (cw : Z) : Z := Z.max (pr_week p) (cw - MAXW).
Definition nr_claim_weeks (p : progress) (cw : Z) : nat := Z.to_nat (Z.min (cw - pr_week p) MAXW).

Definition progress_after (l : list (Z * progress)) (user cw : Z) (cur : en) : list (Z * progress) :=
  if 0 <? en_amount cur then pset l user (mkProg cur cw) else pdel l user.

Section ClaimMulti.
  Variable H : Type.
  Variable hook : H -> wstate -> Z -> Z -> Z -> result (H * wstate * list (Z * Z)).
  Hypothesis hook_frame : forall h s w e E h' s' r, hook h s w e E = Ok (h', s', r) -> same_but_rewards s s'.

  (** a claim at week [cw] processes exactly the weeks max(progress.week, cw-4) .. cw-1, in order, starting
      from the recorded entry decayed to the first of them; then the progress is (current energy, cw),
      or empty if the current energy is zero.  A user without progress claims nothing. *)
  Lemma claim_multi_spec h s user cw cur h' s' det :
    (forall p, pfind (w_prog s) user = Some p -> 0 <= en_tok (pr_en p)) ->
    claim_multi H hook h s user cw cur = Ok (h', s', det) ->
    exists s1 s2,
      update_user_energy s cw cur (pfind (w_prog s) user) = Ok s1 /\
      same_but_rewards s1 s2 /\
      s' = store_progress s2 user cw cur /\
      w_prog s' = progress_after (w_prog s) user cw cur /\
      match pfind (w_prog s) user with
      | None => det = [] /\ h' = h /\ s2 = s1
      | Some p =>
          pr_week p <= cw /\
          map fst det = zseq (first_claim_week p cw) (nr_claim_weeks p cw) /\
          claim_weeks H hook (nr_claim_weeks p cw) h s1 (adv p (first_claim_week p cw - pr_week p))
            = Ok (h', s2, adv p (cw - pr_week p), det)
      end.
  Proof.
    intros Hwf. unfold claim_multi. intros Heq.
    apply bind_ok in Heq. destruct Heq as (s1 & Hu & Heq).
    pose proof max_weeks_nonneg as HM.
    destruct (pfind (w_prog s) user) as [p|] eqn:Ep.
    - specialize (Hwf p eq_refl).
      destruct (pr_week p <=? cw) eqn:Ew; [|discriminate]. apply Z.leb_le in Ew.
      apply bind_ok in Heq. destruct Heq as ([[[h2 s2] p2] det2] & Hc & Heq). inversion Heq; subst; clear Heq.
      assert (Hcp : (if MAXW <? cw - pr_week p then advance_multiple_weeks p (cw - pr_week p - MAXW) else p)
                    = adv p (first_claim_week p cw - pr_week p)).
      { unfold first_claim_week. destruct (MAXW <? cw - pr_week p) eqn:Em.
        - apply Z.ltb_lt in Em. rewrite advance_multiple_adv by lia. f_equal. lia.
        - apply Z.ltb_ge in Em. replace (Z.max (pr_week p) (cw - MAXW) - pr_week p) with 0 by lia.
          rewrite adv_0. reflexivity. }
      rewrite Hcp in Hc. fold (nr_claim_weeks p cw) in Hc.
      pose proof (claim_weeks_frame H hook hook_frame _ _ _ _ _ _ _ _
                    (eq_ind _ (fun x => 0 <= x) Hwf _ (eq_sym (adv_tok p _))) Hc) as (Hf & Hp2 & Hm).
      exists s1, s2. split; [exact Hu|]. split; [exact Hf|]. split; [reflexivity|]. split.
      + destruct (update_user_energy_frame _ _ _ _ _ Hu) as (u1 & _). destruct Hf as (f1 & _).
        unfold store_progress, progress_after. destruct (0 <? en_amount cur); simpl; congruence.
      + split; [exact Ew|]. split.
        * rewrite Hm. rewrite adv_week. f_equal. unfold first_claim_week. lia.
        * rewrite Hc, Hp2, adv_adv.
          replace (first_claim_week p cw - pr_week p + Z.of_nat (nr_claim_weeks p cw)) with (cw - pr_week p);
            [reflexivity|].
          unfold nr_claim_weeks, first_claim_week. lia.
    - simpl in Heq. rewrite Z.leb_refl in Heq. rewrite Z.sub_diag in Heq.
      destruct (MAXW <? 0) eqn:Em; [apply Z.ltb_lt in Em; lia|].
      rewrite Z.min_l in Heq by lia. simpl in Heq. inversion Heq; subst; clear Heq.
      exists s1, s1. split; [exact Hu|]. split; [apply sbr_refl|]. split; [reflexivity|]. split.
      + destruct (update_user_energy_frame _ _ _ _ _ Hu) as (u1 & _).
        unfold store_progress, progress_after. destruct (0 <? en_amount cur); simpl; congruence.
      + repeat split.
  Qed.
End ClaimMulti.

(** ================================================================== Part B: the fees collector *)

Lemma fc_hook_frame h s w e E h' s' r : fc_hook h s w e E = Ok (h', s', r) -> same_but_rewards s s'.
Proof. intros Hh. apply (default_hook_spec _ _ _ _ _ _ _ _ _ _ Hh). Qed.

Lemma decay_amt_adv p k w : decay_amt (adv p k) w = decay_amt p w.
Proof. unfold decay_amt, adv; simpl. ring. Qed.

Lemma energy_at_adv p k w : energy_at (adv p k) w = energy_at p w.
Proof. unfold energy_at. rewrite decay_amt_adv. reflexivity. Qed.

Lemma en_amount_energy_at p : en_amount (pr_en p) = energy_at p (pr_week p).
Proof. rewrite en_amount_max. unfold energy_at, decay_amt. f_equal. lia. Qed.

(** the share a week's claim pays: nothing without energy or without a total, otherwise the floor shares
    of the week's (now frozen) total rewards *)
Definition week_share (tot : list (Z * Z)) (e E : Z) : list (Z * Z) :=
  if (e =? 0) || (E =? 0) then [] else shares tot e E.

Lemma fc_claim_weeks_shares n : forall h s p h' s' p' det,
  0 <= en_tok (pr_en p) ->
  claim_weeks fhost fc_hook n h s p = Ok (h', s', p', det) ->
  (forall w r, In (w, r) det ->
     r = week_share (rget (w_rewards s') w) (energy_at p w) (aget (w_energy s) w)) /\
  (forall w, ~ In w (zseq (pr_week p) n) -> rget (w_rewards s') w = rget (w_rewards s) w) /\
  (forall w, rget (w_rewards s) w <> [] -> rget (w_rewards s') w = rget (w_rewards s) w).
Proof.
  induction n as [|n IH]; intros h s p h' s' p' det Ht; simpl claim_weeks.
  - intros Heq; inversion Heq; subst. split; [intros w r []|]. split; reflexivity.
  - intros Heq. apply bind_ok in Heq. destruct Heq as ([[[h1 s1] p1] r0] & Hs & Heq).
    apply bind_ok in Heq. destruct Heq as ([[[h2 s2] p2] rs] & Hr & Heq). inversion Heq; subst; clear Heq.
    unfold claim_single in Hs. apply bind_ok in Hs. destruct Hs as ([[hx sx] rx] & Hh & Hs). inversion Hs; subst; clear Hs.
    rewrite advance_week_adv in Hr by assumption.
    destruct (default_hook_spec _ _ _ _ _ _ _ _ _ _ Hh) as (Hf & Hoth & Hr0 & Hfz & _).
    assert (Ht1 : 0 <= en_tok (pr_en (adv p 1))) by (rewrite adv_tok; exact Ht).
    destruct (IH _ _ _ _ _ _ _ Ht1 Hr) as (IH1 & IH2 & IH3).
    assert (Hw0 : rget (w_rewards s') (pr_week p) = rget (w_rewards s1) (pr_week p)).
    { apply IH2. rewrite adv_week, zseq_in. lia. }
    destruct Hf as (_ & Hen & _).
    split; [|split].
    + intros w r [Heq|Hin].
      * inversion Heq; subst. rewrite Hw0, <- en_amount_energy_at. reflexivity.
      * rewrite (IH1 _ _ Hin), energy_at_adv, Hen. reflexivity.
    + intros w Hn. simpl in Hn. rewrite IH2.
      * apply Hoth. intros ->. apply Hn. left; reflexivity.
      * rewrite adv_week. intros Hin. apply Hn. right; exact Hin.
    + intros w Hne. destruct (Z.eq_dec w (pr_week p)) as [->|Hw].
      * rewrite Hw0. apply Hfz. exact Hne.
      * rewrite IH3; [apply Hoth; exact Hw | rewrite Hoth by exact Hw; exact Hne].
Qed.

(** ------------------------------------------------------------------ well-formedness of collector states *)
Definition prog_ok (cw : Z) (up : Z * progress) : Prop :=
  0 <= en_tok (pr_en (snd up)) /\ pr_week (snd up) <= cw.

Definition FWf (f : fc) : Prop :=
  exists cw, current_week f = Ok cw /\
             Forall (prog_ok cw) (w_prog (fc_w f)) /\
             Forall (fun ue => 0 <= en_tok (snd ue)) (fc_factory f) /\
             NoDup (h_tokens (fc_h f)).

Lemma pfind_in l u p : pfind l u = Some p -> In (u, p) l.
Proof.
  induction l as [|[u' p'] t IH]; simpl; [discriminate|].
  destruct (u' =? u) eqn:E.
  - apply Z.eqb_eq in E. intros Heq; inversion Heq; subst. left; reflexivity.
  - intros Hf. right. apply IH. exact Hf.
Qed.

Lemma Forall_pset (P : Z * progress -> Prop) l u p : Forall P l -> P (u, p) -> Forall P (pset l u p).
Proof.
  induction l as [|[u' p'] t IH]; simpl; intros Hl Hp.
  - constructor; [exact Hp | constructor].
  - inversion Hl; subst. destruct (u' =? u); constructor; auto.
Qed.

Lemma Forall_pdel (P : Z * progress -> Prop) l u : Forall P l -> Forall P (pdel l u).
Proof.
  unfold pdel. induction l as [|[u' p'] t IH]; simpl; intros Hl; [constructor|].
  inversion Hl; subst. destruct (u' =? u); simpl; [auto | constructor; auto].
Qed.

Lemma Forall_progress_after (P : Z * progress -> Prop) l u cw cur :
  Forall P l -> P (u, mkProg cur cw) -> Forall P (progress_after l u cw cur).
Proof.
  intros Hl Hp. unfold progress_after. destruct (0 <? en_amount cur); [apply Forall_pset | apply Forall_pdel]; assumption.
Qed.

Lemma efind_in l u e : efind l u = Some e -> In (u, e) l.
Proof.
  induction l as [|[u' e'] t IH]; simpl; [discriminate|].
  destruct (u' =? u) eqn:E.
  - apply Z.eqb_eq in E. intros Heq; inversion Heq; subst. left; reflexivity.
  - intros Hf. right. apply IH. exact Hf.
Qed.

Lemma Forall_eset (P : Z * en -> Prop) l u e : Forall P l -> P (u, e) -> Forall P (eset l u e).
Proof.
  induction l as [|[u' e'] t IH]; simpl; intros Hl Hp.
  - constructor; [exact Hp | constructor].
  - inversion Hl; subst. destruct (u' =? u); constructor; auto.
Qed.

Lemma en_deplete_tok e ep : en_tok (en_deplete e ep) = en_tok e.
Proof. unfold en_deplete. destruct (en_epoch e =? ep); reflexivity. Qed.

Lemma energy_entry_tok f u : Forall (fun ue => 0 <= en_tok (snd ue)) (fc_factory f) -> 0 <= en_tok (energy_entry f u).
Proof.
  intros Hall. unfold energy_entry. destruct (efind (fc_factory f) u) as [e|] eqn:E.
  - rewrite en_deplete_tok. apply efind_in in E. rewrite Forall_forall in Hall. apply (Hall _ E).
  - simpl. lia.
Qed.

Lemma week_for_epoch_mono fe e1 e2 w1 : week_for_epoch fe e1 = Ok w1 -> e1 <= e2 ->
  exists w2, week_for_epoch fe e2 = Ok w2 /\ w1 <= w2.
Proof.
  unfold week_for_epoch. destruct (fe <=? e1) eqn:E1; [|discriminate]. apply Z.leb_le in E1.
  intros Heq Hle. inversion Heq; subst; clear Heq.
  assert (E2 : (fe <=? e2) = true) by (apply Z.leb_le; lia). rewrite E2.
  eexists; split; [reflexivity|].
  pose proof week_pos. pose proof (Z.div_le_mono (e1 - fe) (e2 - fe) WK). lia.
Qed.

Lemma week_for_epoch_pos fe e w : week_for_epoch fe e = Ok w -> 1 <= w.
Proof.
  unfold week_for_epoch. destruct (fe <=? e) eqn:E1; [|discriminate]. apply Z.leb_le in E1.
  intros Heq; inversion Heq. pose proof week_pos. pose proof (Z.div_pos (e - fe) WK). lia.
Qed.

Lemma prog_ok_mono cw cw' up : cw <= cw' -> prog_ok cw up -> prog_ok cw' up.
Proof. unfold prog_ok. intros; lia. Qed.

(** who a claim / energy update is for *)
Definition claim_user (c : Z) (orig : option Z) : Z := match orig with Some u => u | None => c end.

(** ------------------------------------------------------------------ the claim endpoint, characterised *)
Lemma accumulate_additional_w f cw : fc_w (accumulate_additional f cw) = fc_w f.
Proof. unfold accumulate_additional. destruct (fc_lock_week f =? cw); reflexivity. Qed.

Lemma accumulate_additional_env f cw :
  fc_epoch (accumulate_additional f cw) = fc_epoch f /\ fc_first_epoch (accumulate_additional f cw) = fc_first_epoch f /\
  fc_factory (accumulate_additional f cw) = fc_factory f /\ fc_bal (accumulate_additional f cw) = fc_bal f /\
  h_tokens (fc_h (accumulate_additional f cw)) = h_tokens (fc_h f).
Proof. unfold accumulate_additional. destruct (fc_lock_week f =? cw); simpl; repeat split. Qed.

Lemma energy_entry_accumulate f cw u : energy_entry (accumulate_additional f cw) u = energy_entry f u.
Proof.
  unfold energy_entry. destruct (accumulate_additional_env f cw) as (-> & _ & -> & _). reflexivity.
Qed.

Lemma store_progress_rewards s u cw cur : w_rewards (store_progress s u cw cur) = w_rewards s.
Proof. unfold store_progress. destruct (0 <? en_amount cur); reflexivity. Qed.

Lemma store_progress_prog s u cw cur : w_prog (store_progress s u cw cur) = progress_after (w_prog s) u cw cur.
Proof. unfold store_progress, progress_after. destruct (0 <? en_amount cur); reflexivity. Qed.

Lemma store_progress_energy s u cw cur : w_energy (store_progress s u cw cur) = w_energy s.
Proof. unfold store_progress. destruct (0 <? en_amount cur); reflexivity. Qed.

(** [claim_rewards f dest user]: exactly the weeks of the window, each paying the floor share of that week's
    total with the user's recorded energy decayed to the week and the week's total energy *)
Lemma claim_rewards_char f dest user f' outs det :
  FWf f -> claim_rewards f dest user = Ok (f', outs, det) ->
  exists cw, current_week f = Ok cw /\
    match view_progress f user with
    | None => det = []
    | Some p =>
        pr_week p <= cw /\
        map fst det = zseq (first_claim_week p cw) (nr_claim_weeks p cw) /\
        (forall w r, In (w, r) det ->
           r = week_share (view_total_rewards f' w) (energy_at p w) (view_total_energy f w))
    end /\
    w_prog (fc_w f') = progress_after (w_prog (fc_w f)) user cw (energy_entry f user) /\
    outs = unlocked_part (flat_rewards det) ++ (if 0 <? locked_total (flat_rewards det) then [(LOCKED, locked_total (flat_rewards det))] else []) /\
    pay_out (fc_bal f) (unlocked_part (flat_rewards det)) = Ok (fc_bal f').
Proof.
  intros (cw0 & Hcw & Hprog & Hfac & _). unfold claim_rewards. rewrite Hcw. simpl bind.
  intros Heq. apply bind_ok in Heq. destruct Heq as ([[h2 w2] det2] & Hcm & Heq).
  apply bind_ok in Heq. destruct Heq as (bal' & Hpay & Heq). inversion Heq; subst; clear Heq.
  exists cw0. split; [reflexivity|].
  rewrite accumulate_additional_w, energy_entry_accumulate in Hcm.
  assert (Hwfu : forall p, pfind (w_prog (fc_w f)) user = Some p -> 0 <= en_tok (pr_en p)).
  { intros p Hp. apply pfind_in in Hp. rewrite Forall_forall in Hprog. apply (Hprog _ Hp). }
  destruct (claim_multi_spec fhost fc_hook fc_hook_frame _ _ _ _ _ _ _ _ Hwfu Hcm)
    as (s1 & s2 & Hu & Hsbr & Hs' & Hpa & Hm).
  destruct (accumulate_additional_env f cw0) as (_ & _ & _ & Hbal & _).
  unfold view_progress, view_total_rewards, view_total_energy. simpl fc_w. simpl fc_bal.
  split; [|split; [exact Hpa | split; [reflexivity | rewrite <- Hbal; exact Hpay]]].
  destruct (pfind (w_prog (fc_w f)) user) as [p|] eqn:Ep.
  - destruct Hm as (Hle & Hmap & Hcw2). split; [exact Hle|]. split; [exact Hmap|].
    intros w r Hin.
    assert (Htp : 0 <= en_tok (pr_en (adv p (first_claim_week p cw0 - pr_week p)))) by (rewrite adv_tok; apply Hwfu; reflexivity).
    destruct (fc_claim_weeks_shares _ _ _ _ _ _ _ _ Htp Hcw2) as (Hsh & _ & _).
    rewrite (Hsh _ _ Hin), energy_at_adv, Hs', store_progress_rewards.
    assert (Hwin : In w (zseq (first_claim_week p cw0) (nr_claim_weeks p cw0))).
    { rewrite <- Hmap. apply (in_map fst) in Hin. exact Hin. }
    apply zseq_in in Hwin. unfold first_claim_week, nr_claim_weeks in Hwin.
    destruct (update_user_energy_frame _ _ _ _ _ Hu) as (_ & _ & Hen & _).
    pose proof max_weeks_nonneg.
    rewrite Hen; [reflexivity | lia | unfold cleared_week; lia].
  - destruct Hm as (-> & _). reflexivity.
Qed.

(** ------------------------------------------------------------------ collecting a week's deposits *)
Lemma acc_get_set_same h w t v : acc_get (acc_set h w t v) w t = v.
Proof. unfold acc_get, acc_set; simpl. rewrite rget_rset_same, aget_aset_same. reflexivity. Qed.

Lemma acc_get_set_other h w t v w' t' : (w <> w' \/ t <> t') -> acc_get (acc_set h w t v) w' t' = acc_get h w' t'.
Proof.
  unfold acc_get, acc_set; simpl. intros Hne. destruct (Z.eq_dec w w') as [->|Hw].
  - rewrite rget_rset_same. destruct Hne as [Hc|Ht]; [contradiction|]. apply aget_aset_other. exact Ht.
  - rewrite rget_rset_other by exact Hw. reflexivity.
Qed.

Definition positive_part (l : list (Z * Z)) : list (Z * Z) := filter (fun p => 0 <? snd p) l.

Lemma collect_tokens_spec w toks : forall h h' r, NoDup toks ->
  collect_tokens h w toks = (h', r) ->
  r = positive_part (map (fun t => (t, acc_get h w t)) toks) /\
  (forall t, In t toks -> acc_get h' w t = 0) /\
  (forall w' t', (w' <> w \/ ~ In t' toks) -> acc_get h' w' t' = acc_get h w' t') /\
  h_tokens h' = h_tokens h.
Proof.
  induction toks as [|t tl IH]; intros h h' r Hnd; simpl.
  - intros Heq; inversion Heq; subst. repeat split; auto. intros t [].
  - inversion Hnd as [|? ? Hnin Hnd']; subst.
    destruct (collect_tokens (acc_set h w t 0) w tl) as [h1 r1] eqn:Ec.
    intros Heq; inversion Heq; subst; clear Heq.
    destruct (IH _ _ _ Hnd' Ec) as (Hr & Hz & Ho & Ht).
    split; [|split; [|split]].
    + unfold positive_part in *. simpl. rewrite Hr.
      assert (Hmap : map (fun t0 => (t0, acc_get (acc_set h w t 0) w t0)) tl = map (fun t0 => (t0, acc_get h w t0)) tl).
      { apply map_ext_in. intros a Ha. f_equal. apply acc_get_set_other. right. intros ->. contradiction. }
      rewrite Hmap. reflexivity.
    + intros t0 [->|Hin]; [|apply Hz; exact Hin].
      rewrite Ho by (right; exact Hnin). apply acc_get_set_same.
    + intros w' t' Hne. rewrite Ho.
      * apply acc_get_set_other. destruct Hne as [Hw|Hn]; [left; congruence | right; intros ->; apply Hn; left; reflexivity].
      * destruct Hne as [Hw|Hn]; [left; exact Hw | right; intros Hin; apply Hn; right; exact Hin].
    + rewrite Ht. reflexivity.
Qed.

Lemma collect_tokens_frame w toks : forall h h' r,
  collect_tokens h w toks = (h', r) ->
  h_tokens h' = h_tokens h /\ (forall w' t, w' <> w -> acc_get h' w' t = acc_get h w' t).
Proof.
  induction toks as [|t tl IH]; intros h h' r; simpl.
  - intros Heq; inversion Heq; subst. split; reflexivity.
  - destruct (collect_tokens (acc_set h w t 0) w tl) as [h2 r2] eqn:Ec2.
    intros Heq; inversion Heq; subst. destruct (IH _ _ _ Ec2) as (Ht & Ha).
    split; [rewrite Ht; reflexivity|]. intros w' t' Hw. rewrite Ha by exact Hw.
    apply acc_get_set_other. left. congruence.
Qed.

Lemma fc_hook_tokens h s w e E h' s' r : fc_hook h s w e E = Ok (h', s', r) ->
  h_tokens h' = h_tokens h /\ (forall w' t, w' <> w -> acc_get h' w' t = acc_get h w' t).
Proof.
  unfold fc_hook, default_user_rewards. destruct ((e =? 0) || (E =? 0)).
  - intros Heq; inversion Heq; subst. split; reflexivity.
  - unfold collect_and_get. destruct (rget (w_rewards s) w).
    + destruct (fc_collect h w) as [h1 r1] eqn:Ec. intros Heq; inversion Heq; subst.
      unfold fc_collect in Ec. apply (collect_tokens_frame _ _ _ _ _ Ec).
    + intros Heq; inversion Heq; subst. split; reflexivity.
Qed.

Lemma fc_claim_weeks_host n : forall h s p h' s' p' det,
  claim_weeks fhost fc_hook n h s p = Ok (h', s', p', det) ->
  h_tokens h' = h_tokens h /\
  (forall w t, ~ In w (map fst det) -> acc_get h' w t = acc_get h w t).
Proof.
  induction n as [|n IH]; intros h s p h' s' p' det; simpl claim_weeks.
  - intros Heq; inversion Heq; subst. split; reflexivity.
  - intros Heq. apply bind_ok in Heq. destruct Heq as ([[[h1 s1] p1] r0] & Hs & Heq).
    apply bind_ok in Heq. destruct Heq as ([[[h2 s2] p2] rs] & Hr & Heq). inversion Heq; subst; clear Heq.
    unfold claim_single in Hs. apply bind_ok in Hs. destruct Hs as ([[hx sx] rx] & Hh & Hs). inversion Hs; subst; clear Hs.
    destruct (fc_hook_tokens _ _ _ _ _ _ _ _ Hh) as (Ht & Ha). destruct (IH _ _ _ _ _ _ _ Hr) as (IHt & IHa).
    split; [congruence|]. intros w t Hn. simpl in Hn. rewrite IHa by (intros Hin; apply Hn; right; exact Hin).
    apply Ha. intros ->. apply Hn. left; reflexivity.
Qed.

(** ------------------------------------------------------------------ well-formedness is preserved *)
Lemma FWf_frame f f' :
  fc_first_epoch f' = fc_first_epoch f -> fc_epoch f' = fc_epoch f -> w_prog (fc_w f') = w_prog (fc_w f) ->
  fc_factory f' = fc_factory f -> h_tokens (fc_h f') = h_tokens (fc_h f) -> FWf f -> FWf f'.
Proof.
  intros H1 H2 H3 H4 H5 (cw & Hcw & Hp & Hf & Ht). exists cw. unfold current_week in *. rewrite H1, H2, H3, H4, H5.
  repeat split; assumption.
Qed.

Lemma claim_rewards_env f dest user f' outs det :
  claim_rewards f dest user = Ok (f', outs, det) ->
  fc_first_epoch f' = fc_first_epoch f /\ fc_epoch f' = fc_epoch f /\ fc_factory f' = fc_factory f /\
  h_tokens (fc_h f') = h_tokens (fc_h f) /\ fc_contracts f' = fc_contracts f /\ fc_wl f' = fc_wl f /\
  fc_paused f' = fc_paused f /\ fc_allow f' = fc_allow f.
Proof.
  unfold claim_rewards. intros Heq. apply bind_ok in Heq. destruct Heq as (cw & _ & Heq).
  apply bind_ok in Heq. destruct Heq as ([[h2 w2] det2] & Hcm & Heq).
  apply bind_ok in Heq. destruct Heq as (bal' & _ & Heq). inversion Heq; subst; clear Heq. simpl.
  unfold claim_multi in Hcm. apply bind_ok in Hcm. destruct Hcm as (s1 & _ & Hcm).
  destruct (pr_week _ <=? cw); [|discriminate].
  apply bind_ok in Hcm. destruct Hcm as ([[[h3 s3] p3] d3] & Hcw & Hcm). inversion Hcm; subst; clear Hcm.
  destruct (fc_claim_weeks_host _ _ _ _ _ _ _ _ Hcw) as (Ht & _).
  unfold accumulate_additional in *. destruct (fc_lock_week f =? cw); simpl in *; repeat split; try assumption.
Qed.

Lemma claim_rewards_wf f dest user f' outs det :
  FWf f -> claim_rewards f dest user = Ok (f', outs, det) -> FWf f'.
Proof.
  intros Hwf Hc. destruct (claim_rewards_char _ _ _ _ _ _ Hwf Hc) as (cw & Hcw & _ & Hpa & _).
  destruct (claim_rewards_env _ _ _ _ _ _ Hc) as (e1 & e2 & e3 & e4 & _).
  destruct Hwf as (cw0 & Hcw0 & Hp & Hf & Ht). rewrite Hcw in Hcw0. inversion Hcw0; subst cw0.
  exists cw. unfold current_week in *. rewrite e1, e2, e3, e4, Hpa.
  split; [exact Hcw|]. split; [|split; assumption].
  apply Forall_progress_after; [exact Hp|]. unfold prog_ok; simpl. split; [apply energy_entry_tok; exact Hf | lia].
Qed.

Lemma update_energy_wf f c u f' outs det :
  FWf f -> ep_update_energy f c u = Ok (f', outs, det) -> FWf f'.
Proof.
  intros (cw & Hcw & Hp & Hf & Ht). unfold ep_update_energy. rewrite Hcw. simpl bind.
  intros Heq. apply bind_ok in Heq. destruct Heq as (w' & Hu & Heq). inversion Heq; subst; clear Heq.
  unfold update_energy_for_user in Hu. destruct (match pfind _ u with Some p => pr_week p =? cw | None => true end); [|discriminate].
  unfold update_energy_and_progress in Hu. apply bind_ok in Hu. destruct Hu as (s1 & Hu & Heq). inversion Heq; subst; clear Heq.
  destruct (update_user_energy_frame _ _ _ _ _ Hu) as (u1 & _).
  exists cw. unfold current_week in *. simpl. rewrite store_progress_prog, u1.
  split; [exact Hcw|]. split; [|split; assumption].
  apply Forall_progress_after; [exact Hp|]. unfold prog_ok; simpl. split; [apply energy_entry_tok; exact Hf | lia].
Qed.

Lemma NoDup_snoc (x : Z) l : NoDup l -> ~ In x l -> NoDup (l ++ [x]).
Proof.
  induction l as [|y t IH]; simpl; intros Hnd Hn.
  - constructor; [intros [] | constructor].
  - inversion Hnd; subst. constructor.
    + rewrite in_app_iff. intros [Hi|[->|[]]]; [contradiction | apply Hn; left; reflexivity].
    + apply IH; [assumption | intros Hi; apply Hn; right; exact Hi].
Qed.

Lemma NoDup_remove_z x l : NoDup l -> NoDup (remove_z x l).
Proof. unfold remove_z. apply NoDup_filter. Qed.

Lemma mem_in x l : mem x l = true <-> In x l.
Proof.
  unfold mem. rewrite existsb_exists. split.
  - intros (y & Hy & He). apply Z.eqb_eq in He. subst. exact Hy.
  - intros Hin. exists x. split; [exact Hin | apply Z.eqb_refl].
Qed.

Lemma step_wf f op f' outs det : FWf f -> step f op = Ok (f', outs, det) -> FWf f'.
Proof.
  intros Hwf. destruct op; simpl.
  - (* Advance *)
    unfold ep_advance. destruct (0 <=? n) eqn:En; [|discriminate]. apply Z.leb_le in En.
    intros Heq; inversion Heq; subst; clear Heq. destruct Hwf as (cw & Hcw & Hp & Hf & Ht).
    unfold current_week in *. simpl.
    destruct (week_for_epoch_mono _ _ (fc_epoch f + n) _ Hcw ltac:(lia)) as (cw2 & Hcw2 & Hle).
    exists cw2. split; [exact Hcw2|]. split; [|split; assumption].
    eapply Forall_impl; [|exact Hp]. intros a. apply prog_ok_mono. exact Hle.
  - (* SetEnergy *)
    unfold ep_set_energy. destruct ((0 <=? amt) && (0 <=? tok)) eqn:Eg; [|discriminate].
    apply andb_prop in Eg. destruct Eg as (_ & Eg). apply Z.leb_le in Eg.
    intros Heq; inversion Heq; subst; clear Heq. destruct Hwf as (cw & Hcw & Hp & Hf & Ht).
    exists cw. unfold current_week in *. simpl. repeat split; try assumption.
    apply Forall_eset; [exact Hf | simpl; exact Eg].
  - (* SetEnergyRaw *)
    unfold ep_set_energy_raw. destruct ((0 <=? ep) && (0 <=? tok)) eqn:Eg; [|discriminate].
    apply andb_prop in Eg. destruct Eg as (_ & Eg). apply Z.leb_le in Eg.
    intros Heq; inversion Heq; subst; clear Heq. destruct Hwf as (cw & Hcw & Hp & Hf & Ht).
    exists cw. unfold current_week in *. simpl. repeat split; try assumption.
    apply Forall_eset; [exact Hf | simpl; exact Eg].
  - (* Deposit *)
    unfold ep_deposit. destruct ((0 <=? amt) && (0 <=? nonce)); [|discriminate].
    destruct (mem c (fc_contracts f)); [|discriminate]. destruct (mem tok (h_tokens (fc_h f))); [|discriminate].
    intros Heq. apply bind_ok in Heq. destruct Heq as (cw & _ & Heq).
    apply bind_ok in Heq. destruct Heq as (f1 & Hf1 & Heq). inversion Heq; subst; clear Heq.
    assert (Hwf1 : FWf f1).
    { destruct (0 <? nonce).
      - destruct (tok =? LOCKED); [|discriminate]. inversion Hf1; subst. exact Hwf.
      - inversion Hf1; subst. eapply FWf_frame; [| | | | |exact Hwf]; reflexivity. }
    eapply FWf_frame; [| | | | |exact Hwf1]; reflexivity.
  - (* Claim *)
    unfold ep_claim. destruct (negb (fc_paused f)); [|discriminate].
    destruct boosted; destruct orig as [u|].
    + destruct (mem u (fc_allow f)); [|discriminate]. apply claim_rewards_wf; exact Hwf.
    + apply claim_rewards_wf; exact Hwf.
    + destruct (mem c (fc_wl f)); [|discriminate]. apply claim_rewards_wf; exact Hwf.
    + apply claim_rewards_wf; exact Hwf.
  - apply update_energy_wf; exact Hwf.
  - unfold ep_pause. destruct (owner_only c); [|discriminate]. intros Heq; inversion Heq; subst.
    eapply FWf_frame; [| | | | |exact Hwf]; reflexivity.
  - (* AddToken *)
    unfold ep_add_token. destruct (owner_only c); [|discriminate]. intros Heq; inversion Heq; subst; clear Heq.
    destruct Hwf as (cw & Hcw & Hp & Hf & Ht). exists cw. unfold current_week in *. simpl.
    repeat split; try assumption. destruct (mem t (h_tokens (fc_h f))) eqn:Em; [exact Ht|].
    apply NoDup_snoc; [exact Ht|]. intros Hx. apply mem_in in Hx. congruence.
  - unfold ep_remove_token. destruct (owner_only c); [|discriminate]. intros Heq; inversion Heq; subst; clear Heq.
    destruct Hwf as (cw & Hcw & Hp & Hf & Ht). exists cw. unfold current_week in *. simpl.
    repeat split; try assumption. apply NoDup_remove_z. exact Ht.
  - unfold ep_add_contract. destruct (owner_only c); [|discriminate]. destruct (is_sc a); [|discriminate].
    intros Heq; inversion Heq; subst. eapply FWf_frame; [| | | | |exact Hwf]; reflexivity.
  - unfold ep_remove_contract. destruct (owner_only c); [|discriminate].
    intros Heq; inversion Heq; subst. eapply FWf_frame; [| | | | |exact Hwf]; reflexivity.
  - unfold ep_wl_add. destruct (owner_only c); [|discriminate]. destruct (negb (mem a (fc_wl f))); [|discriminate].
    intros Heq; inversion Heq; subst. eapply FWf_frame; [| | | | |exact Hwf]; reflexivity.
  - unfold ep_wl_rm. destruct (owner_only c); [|discriminate]. destruct (mem a (fc_wl f)); [|discriminate].
    intros Heq; inversion Heq; subst. eapply FWf_frame; [| | | | |exact Hwf]; reflexivity.
  - unfold ep_set_per_block. destruct (owner_only c); [|discriminate]. destruct (0 <=? amt); [|discriminate].
    intros Heq. apply bind_ok in Heq. destruct Heq as (cw & _ & Heq). inversion Heq; subst; clear Heq.
    destruct (accumulate_additional_env f cw) as (e1 & e2 & e3 & _ & e5).
    eapply FWf_frame; [| | | | |exact Hwf]; simpl; try assumption. rewrite accumulate_additional_w. reflexivity.
Qed.

Lemma init_wf epoch : FWf (init_fc epoch).
Proof.
  exists ((epoch - epoch) / WK + 1). unfold current_week, week_for_epoch; simpl. rewrite Z.leb_refl.
  split; [reflexivity|]. split; [constructor|]. split; [constructor|].
  constructor; [intros [] | constructor].
Qed.

Lemma step_total_wf f op : FWf f -> FWf (step_total f op).
Proof.
  intros Hwf. unfold step_total. destruct (step f op) as [[[f' o] d]|] eqn:E; [|exact Hwf].
  eapply step_wf; eassumption.
Qed.

Lemma run_wf ops : forall f, FWf f -> FWf (run f ops).
Proof.
  unfold run. induction ops as [|op t IH]; intros f Hwf; simpl; [exact Hwf|].
  apply IH. apply step_total_wf. exact Hwf.
Qed.

(** ------------------------------------------------------------------ operations that do not touch the
    weekly state or the clock *)
Definition quiet (op : fop) : bool :=
  match op with Advance _ | Claim _ _ _ | UpdateEnergy _ _ => false | _ => true end.

Lemma quiet_frame f op f' outs det : quiet op = true -> step f op = Ok (f', outs, det) ->
  fc_w f' = fc_w f /\ fc_epoch f' = fc_epoch f /\ fc_first_epoch f' = fc_first_epoch f /\ det = [] /\ outs = [].
Proof.
  destruct op; simpl; try discriminate; intros _.
  - unfold ep_set_energy. destruct ((0 <=? amt) && (0 <=? tok)); [|discriminate]. intros Heq; inversion Heq; subst. repeat split.
  - unfold ep_set_energy_raw. destruct ((0 <=? ep) && (0 <=? tok)); [|discriminate]. intros Heq; inversion Heq; subst. repeat split.
  - unfold ep_deposit. destruct ((0 <=? amt) && (0 <=? nonce)); [|discriminate].
    destruct (mem c (fc_contracts f)); [|discriminate]. destruct (mem tok (h_tokens (fc_h f))); [|discriminate].
    intros Heq. apply bind_ok in Heq. destruct Heq as (cw & _ & Heq).
    apply bind_ok in Heq. destruct Heq as (f1 & Hf1 & Heq). inversion Heq; subst; clear Heq.
    destruct (0 <? nonce).
    + destruct (tok =? LOCKED); [|discriminate]. inversion Hf1; subst. repeat split.
    + inversion Hf1; subst. repeat split.
  - unfold ep_pause. destruct (owner_only c); [|discriminate]. intros Heq; inversion Heq; subst. repeat split.
  - unfold ep_add_token. destruct (owner_only c); [|discriminate]. intros Heq; inversion Heq; subst. repeat split.
  - unfold ep_remove_token. destruct (owner_only c); [|discriminate]. intros Heq; inversion Heq; subst. repeat split.
  - unfold ep_add_contract. destruct (owner_only c); [|discriminate]. destruct (is_sc a); [|discriminate].
    intros Heq; inversion Heq; subst. repeat split.
  - unfold ep_remove_contract. destruct (owner_only c); [|discriminate]. intros Heq; inversion Heq; subst. repeat split.
  - unfold ep_wl_add. destruct (owner_only c); [|discriminate]. destruct (negb (mem a (fc_wl f))); [|discriminate].
    intros Heq; inversion Heq; subst. repeat split.
  - unfold ep_wl_rm. destruct (owner_only c); [|discriminate]. destruct (mem a (fc_wl f)); [|discriminate].
    intros Heq; inversion Heq; subst. repeat split.
  - unfold ep_set_per_block. destruct (owner_only c); [|discriminate]. destruct (0 <=? amt); [|discriminate].
    intros Heq. apply bind_ok in Heq. destruct Heq as (cw & _ & Heq). inversion Heq; subst; clear Heq. simpl.
    destruct (accumulate_additional_env f cw) as (e1 & e2 & _). rewrite accumulate_additional_w. repeat split; assumption.
Qed.

(** the claim endpoint is [claim_rewards] for the resolved (receiver, user) *)
Lemma ep_claim_inv f c orig boosted f' outs det :
  ep_claim f c orig boosted = Ok (f', outs, det) ->
  fc_paused f = false /\ exists dest, claim_rewards f dest (claim_user c orig) = Ok (f', outs, det).
Proof.
  unfold ep_claim. destruct (fc_paused f); simpl; [discriminate|]. intros Heq. split; [reflexivity|].
  destruct boosted; destruct orig as [u|]; simpl.
  - destruct (mem u (fc_allow f)); [|discriminate]. exists u. exact Heq.
  - exists c. exact Heq.
  - destruct (mem c (fc_wl f)); [|discriminate]. exists c. exact Heq.
  - exists c. exact Heq.
Qed.

(** ------------------------------------------------------------------ at most once per (user, week) *)
Definition cur_week (f : fc) : Z := (fc_epoch f - fc_first_epoch f) / WK + 1.

Lemma current_week_cur f cw : current_week f = Ok cw -> cw = cur_week f.
Proof.
  unfold current_week, week_for_epoch, cur_week. destruct (fc_first_epoch f <=? fc_epoch f); [|discriminate].
  intros Heq; inversion Heq; reflexivity.
Qed.

(** the first week a user can still be paid for: the recorded progress week, or — without a recorded
    progress — the current week (a new entry starts there) *)
Definition claimable_from (f : fc) (u : Z) : Z :=
  match view_progress f u with Some p => pr_week p | None => cur_week f end.

(** the (user, week) pairs a successful operation processes *)
Definition events (op : fop) (det : detail) : list (Z * Z) :=
  match op with
  | Claim c orig _ => map (fun wr => (claim_user c orig, fst wr)) det
  | _ => []
  end.

Fixpoint run_log (f : fc) (ops : list fop) : list (Z * Z) :=
  match ops with
  | [] => []
  | op :: t => match step f op with
               | Ok (f', _, det) => events op det ++ run_log f' t
               | Err _ => run_log f t
               end
  end.

Lemma progress_after_find l u cw cur u2 :
  pfind (progress_after l u cw cur) u2 =
  if u =? u2 then (if 0 <? en_amount cur then Some (mkProg cur cw) else None) else pfind l u2.
Proof.
  unfold progress_after. destruct (u =? u2) eqn:E.
  - apply Z.eqb_eq in E. subst u2. destruct (0 <? en_amount cur); [apply pfind_pset_same | apply pfind_pdel_same].
  - apply Z.eqb_neq in E. destruct (0 <? en_amount cur); [apply pfind_pset_other | apply pfind_pdel_other]; exact E.
Qed.

Lemma prog_ok_find f cw u p : Forall (prog_ok cw) (w_prog (fc_w f)) -> view_progress f u = Some p ->
  0 <= en_tok (pr_en p) /\ pr_week p <= cw.
Proof.
  intros Hall Hf. apply pfind_in in Hf. rewrite Forall_forall in Hall. apply (Hall _ Hf).
Qed.

Lemma step_claimable f op f' outs det :
  FWf f -> step f op = Ok (f', outs, det) ->
  (forall u, claimable_from f u <= claimable_from f' u) /\
  (forall u w, In (u, w) (events op det) -> claimable_from f u <= w < claimable_from f' u) /\
  NoDup (events op det).
Proof.
  intros Hwf Hs. destruct (quiet op) eqn:Eq.
  - destruct (quiet_frame _ _ _ _ _ Eq Hs) as (Hw & He & Hfe & -> & _).
    assert (Hev : events op [] = []) by (destruct op; reflexivity). rewrite Hev.
    split; [|split; [intros u w [] | constructor]].
    intros u. unfold claimable_from, view_progress, cur_week. rewrite Hw, He, Hfe. lia.
  - destruct op; try discriminate; simpl in Hs.
    + (* Advance *)
      unfold ep_advance in Hs. destruct (0 <=? n) eqn:En; [|discriminate]. apply Z.leb_le in En.
      inversion Hs; subst; clear Hs. simpl. split; [|split; [intros u w [] | constructor]].
      intros u. unfold claimable_from, view_progress, cur_week; simpl.
      destruct (pfind (w_prog (fc_w f)) u); [lia|].
      pose proof week_pos. pose proof (Z.div_le_mono (fc_epoch f - fc_first_epoch f) (fc_epoch f + n - fc_first_epoch f) WK). lia.
    + (* Claim *)
      destruct (ep_claim_inv _ _ _ _ _ _ _ Hs) as (_ & dest & Hc).
      destruct (claim_rewards_char _ _ _ _ _ _ Hwf Hc) as (cw & Hcw & Hm & Hpa & _).
      destruct (claim_rewards_env _ _ _ _ _ _ Hc) as (e1 & e2 & _).
      destruct Hwf as (cw0 & Hcw0 & Hp & _). rewrite Hcw in Hcw0. inversion Hcw0; subst cw0.
      pose proof (current_week_cur _ _ Hcw) as Hcur.
      assert (Hcur' : cur_week f' = cw) by (unfold cur_week; rewrite e1, e2; symmetry; exact Hcur).
      set (user := claim_user c orig) in *.
      assert (Hfrom' : forall u, claimable_from f' u = if user =? u then cw else claimable_from f u).
      { intros u. unfold claimable_from, view_progress. rewrite Hpa, progress_after_find.
        destruct (user =? u); [destruct (0 <? en_amount _); [reflexivity | exact Hcur']|].
        rewrite Hcur', <- Hcur. reflexivity. }
      split; [|split].
      * intros u. rewrite Hfrom'. destruct (user =? u) eqn:Eu; [|lia]. apply Z.eqb_eq in Eu. subst u.
        unfold claimable_from. destruct (view_progress f user) as [p|] eqn:Ep; [|lia].
        apply (prog_ok_find _ _ _ _ Hp Ep).
      * intros u w Hin. simpl in Hin. apply in_map_iff in Hin. destruct Hin as ([w0 r] & Heq & Hin).
        inversion Heq; subst; clear Heq. simpl. rewrite Hfrom', Z.eqb_refl.
        unfold claimable_from. fold user. destruct (view_progress f user) as [p|] eqn:Ep.
        -- destruct Hm as (Hle & Hmap & _). apply (in_map fst) in Hin. rewrite Hmap in Hin. apply zseq_in in Hin.
           unfold first_claim_week, nr_claim_weeks in Hin. pose proof max_weeks_nonneg. simpl in Hin. lia.
        -- subst det. destruct Hin.
      * simpl. destruct (view_progress f user) as [p|] eqn:Ep.
        -- destruct Hm as (_ & Hmap & _).
           assert (Hnd : NoDup (map fst det)) by (rewrite Hmap; apply zseq_nodup).
           clear - Hnd. induction det as [|[w r] tl IH]; simpl in *; [constructor|].
           inversion Hnd; subst. constructor; [|apply IH; assumption].
           intros Hin. apply in_map_iff in Hin. destruct Hin as ([w' r'] & Heq & Hin). inversion Heq; subst.
           apply H1. apply (in_map fst) in Hin. exact Hin.
        -- subst det. constructor.
    + (* UpdateEnergy *)
      unfold ep_update_energy in Hs. destruct Hwf as (cw & Hcw & Hp & _). rewrite Hcw in Hs. simpl bind in Hs.
      apply bind_ok in Hs. destruct Hs as (w' & Hu & Hs). inversion Hs; subst; clear Hs.
      split; [|split; [intros u0 w [] | constructor]].
      unfold update_energy_for_user in Hu. destruct (match pfind _ u with Some p => pr_week p =? cw | None => true end); [|discriminate].
      unfold update_energy_and_progress in Hu. apply bind_ok in Hu. destruct Hu as (s1 & Hu & Heq). inversion Heq; subst; clear Heq.
      destruct (update_user_energy_frame _ _ _ _ _ Hu) as (u1 & _).
      pose proof (current_week_cur _ _ Hcw) as Hcur.
      intros u0. unfold claimable_from, view_progress, cur_week; simpl. rewrite store_progress_prog, u1, progress_after_find.
      fold (cur_week f). destruct (u =? u0) eqn:Eu; [|lia]. apply Z.eqb_eq in Eu. subst u0.
      assert (Hold : match pfind (w_prog (fc_w f)) u with Some p => pr_week p | None => cur_week f end <= cw).
      { destruct (pfind (w_prog (fc_w f)) u) as [p|] eqn:Ep; [apply (prog_ok_find f cw u p Hp Ep) | lia]. }
      destruct (0 <? en_amount _); simpl; lia.
Qed.

Lemma NoDup_app_disjoint {A} (l1 l2 : list A) :
  NoDup l1 -> NoDup l2 -> (forall x, In x l1 -> ~ In x l2) -> NoDup (l1 ++ l2).
Proof.
  induction l1 as [|a t IH]; simpl; intros H1 H2 Hd; [exact H2|].
  inversion H1; subst. constructor.
  - rewrite in_app_iff. intros [Hi|Hi]; [contradiction | apply (Hd a); [left; reflexivity | exact Hi]].
  - apply IH; [assumption | assumption | intros x Hx; apply Hd; right; exact Hx].
Qed.

(** over any history: every (user, week) is processed by at most one claim *)
Lemma run_log_once ops : forall f, FWf f ->
  (forall u w, In (u, w) (run_log f ops) -> claimable_from f u <= w) /\ NoDup (run_log f ops).
Proof.
  induction ops as [|op t IH]; intros f Hwf; simpl.
  - split; [intros u w [] | constructor].
  - destruct (step f op) as [[[f' o] d]|] eqn:Es; [|apply IH; exact Hwf].
    destruct (step_claimable _ _ _ _ _ Hwf Es) as (Hmono & Hev & Hnd).
    destruct (IH f' (step_wf _ _ _ _ _ Hwf Es)) as (IH1 & IH2).
    split.
    + intros u w Hin. apply in_app_or in Hin. destruct Hin as [Hin|Hin].
      * apply (Hev _ _ Hin).
      * specialize (IH1 _ _ Hin). specialize (Hmono u). lia.
    + apply NoDup_app_disjoint; [exact Hnd | exact IH2|].
      intros [u w] Hin Hin2. specialize (Hev _ _ Hin). specialize (IH1 _ _ Hin2). lia.
Qed.

(** ------------------------------------------------------------------ frozen weekly totals *)
Lemma fc_claim_weeks_collect n : forall h s p h' s' p' det,
  0 <= en_tok (pr_en p) -> NoDup (h_tokens h) ->
  claim_weeks fhost fc_hook n h s p = Ok (h', s', p', det) ->
  forall w, rget (w_rewards s) w = [] -> rget (w_rewards s') w <> [] ->
    In w (zseq (pr_week p) n) /\
    rget (w_rewards s') w = positive_part (map (fun t => (t, acc_get h w t)) (h_tokens h)) /\
    (forall t, In t (h_tokens h) -> acc_get h' w t = 0).
Proof.
  induction n as [|n IH]; intros h s p h' s' p' det Ht Hnd; simpl claim_weeks.
  - intros Heq; inversion Heq; subst. intros w He Hne. congruence.
  - intros Heq. apply bind_ok in Heq. destruct Heq as ([[[h1 s1] p1] r0] & Hs & Heq).
    apply bind_ok in Heq. destruct Heq as ([[[h2 s2] p2] rs] & Hr & Heq). inversion Heq; subst; clear Heq.
    unfold claim_single in Hs. apply bind_ok in Hs. destruct Hs as ([[hx sx] rx] & Hh & Hs). inversion Hs; subst; clear Hs.
    rewrite advance_week_adv in Hr by assumption.
    assert (Ht1 : 0 <= en_tok (pr_en (adv p 1))) by (rewrite adv_tok; exact Ht).
    destruct (default_hook_spec _ _ _ _ _ _ _ _ _ _ Hh) as (Hf & Hoth & Hr0 & Hfz & Hz & Hcol).
    destruct (fc_hook_tokens _ _ _ _ _ _ _ _ Hh) as (Htok & Hacc).
    destruct (fc_claim_weeks_shares _ _ _ _ _ _ _ _ Ht1 Hr) as (_ & Hs2 & _).
    destruct (fc_claim_weeks_host _ _ _ _ _ _ _ _ Hr) as (Htok2 & Hacc2).
    destruct (claim_weeks_frame fhost fc_hook fc_hook_frame _ _ _ _ _ _ _ _ Ht1 Hr) as (_ & _ & Hmap).
    intros w He Hne. destruct (Z.eq_dec w (pr_week p)) as [->|Hw].
    + assert (Hsame : rget (w_rewards s') (pr_week p) = rget (w_rewards s1) (pr_week p)).
      { apply Hs2. rewrite adv_week, zseq_in. lia. }
      split; [simpl; left; reflexivity|].
      destruct ((energy_at p (pr_week p) =? 0) || (aget (w_energy s) (pr_week p) =? 0)) eqn:Ez.
      * rewrite <- en_amount_energy_at in Ez. destruct (Hz Ez) as (-> & _). congruence.
      * rewrite <- en_amount_energy_at in Ez. specialize (Hcol Ez He). unfold fc_collect in Hcol.
        symmetry in Hcol. destruct (collect_tokens_spec _ _ _ _ _ Hnd Hcol) as (Hrr & Hzero & _ & _).
        split; [rewrite Hsame; exact Hrr|].
        intros t Hin. rewrite Hacc2; [apply Hzero; exact Hin|].
        rewrite Hmap, adv_week, zseq_in. lia.
    + assert (He1 : rget (w_rewards s1) w = []) by (rewrite Hoth by exact Hw; exact He).
      rewrite <- Htok in Hnd.
      destruct (IH _ _ _ _ _ _ _ Ht1 Hnd Hr w He1 Hne) as (Hin & Hrw & Hzero).
      split; [simpl; right; rewrite adv_week in Hin; exact Hin|].
      split.
      * rewrite Hrw, Htok. f_equal. apply map_ext. intros t. f_equal. apply Hacc. exact Hw.
      * intros t Hin'. apply Hzero. rewrite Htok. exact Hin'.
Qed.

Lemma perform_weekly_update_rewards s cw s1 :
  perform_weekly_update s cw = Ok s1 ->
  forall w, rget (w_rewards s1) w = rget (w_rewards s) w \/ rget (w_rewards s1) w = [].
Proof.
  unfold perform_weekly_update.
  destruct (w_last s =? cw); [intros Heq; inversion Heq; subst; left; reflexivity|].
  destruct (w_last s =? 0); [intros Heq; inversion Heq; subst; left; reflexivity|].
  destruct (w_last s <=? cw); [|discriminate].
  intros Heq. apply bind_ok in Heq. destruct Heq as ([[[[f0 bt] bs] tt'] te'] & _ & Heq).
  destruct (MAXW + 1 <? cw); inversion Heq; subst; simpl; intros w; [|left; reflexivity].
  destruct (Z.eq_dec (cw - MAXW - 1) w) as [->|Hne]; [right; apply rget_rset_same | left; apply rget_rset_other; exact Hne].
Qed.

Lemma update_user_energy_rewards s cw cur op s1 :
  update_user_energy s cw cur op = Ok s1 ->
  forall w, rget (w_rewards s1) w = rget (w_rewards s) w \/ rget (w_rewards s1) w = [].
Proof.
  assert (Hx : forall la prev, update_global_amounts s cw la prev cur = Ok s1 ->
               forall w, rget (w_rewards s1) w = rget (w_rewards s) w \/ rget (w_rewards s1) w = []).
  { intros la prev Hg. unfold update_global_amounts in Hg. apply bind_ok in Hg. destruct Hg as (s0 & Hp0 & Hg).
    destruct (la <=? cw); [|discriminate].
    apply bind_ok in Hg. destruct Hg as ([[sx hp] hc] & Hr & Hg).
    apply bind_ok in Hg. destruct Hg as (tl' & _ & Hg). apply bind_ok in Hg. destruct Hg as (te & _ & Hg).
    inversion Hg; subst; clear Hg. simpl.
    destruct (reallocate_bucket_frame _ _ _ _ _ _ _ Hr) as (_ & _ & _ & _ & r5 & _). rewrite r5.
    apply (perform_weekly_update_rewards _ _ _ Hp0). }
  unfold update_user_energy. destruct op as [p|]; apply Hx.
Qed.

(** a successful claim at week [cw]: a week's total, once set, is not changed while the week is
    claimable; a total that becomes set is a past week's accumulated deposits of the known tokens
    (the positive ones, in token order), which are thereby consumed; accumulations of the current and
    later weeks are not touched *)
Lemma claim_rewards_frozen f dest user f' outs det :
  FWf f -> claim_rewards f dest user = Ok (f', outs, det) ->
  exists cw, current_week f = Ok cw /\
    (forall w, view_total_rewards f w <> [] -> cw - MAXW <= w ->
               view_total_rewards f' w = view_total_rewards f w) /\
    (forall w, view_total_rewards f w = [] -> view_total_rewards f' w <> [] ->
               cw - MAXW <= w < cw /\
               view_total_rewards f' w =
                 positive_part (map (fun t => (t, view_accumulated (accumulate_additional f cw) w t)) (h_tokens (fc_h f))) /\
               (forall t, In t (h_tokens (fc_h f)) -> view_accumulated f' w t = 0)) /\
    (forall w t, cw <= w -> view_accumulated f' w t = view_accumulated f w t).
Proof.
  intros (cw & Hcw & Hprog & Hfac & Hnd). unfold claim_rewards. rewrite Hcw. simpl bind.
  intros Heq. apply bind_ok in Heq. destruct Heq as ([[h2 w2] det2] & Hcm & Heq).
  apply bind_ok in Heq. destruct Heq as (bal' & Hpay & Heq). inversion Heq; subst; clear Heq.
  exists cw. split; [reflexivity|].
  pose proof (accumulate_additional_w f cw) as Haw. rewrite Haw, energy_entry_accumulate in Hcm.
  assert (Hwfu : forall p, pfind (w_prog (fc_w f)) user = Some p -> 0 <= en_tok (pr_en p)).
  { intros p Hp. apply pfind_in in Hp. rewrite Forall_forall in Hprog. apply (Hprog _ Hp). }
  destruct (claim_multi_spec fhost fc_hook fc_hook_frame _ _ _ _ _ _ _ _ Hwfu Hcm)
    as (s1 & s2 & Hu & Hsbr & Hs' & Hpa & Hm).
  destruct (update_user_energy_frame _ _ _ _ _ Hu) as (_ & _ & _ & Hrw).
  pose proof (update_user_energy_rewards _ _ _ _ _ Hu) as Hrw2.
  destruct (accumulate_additional_env f cw) as (_ & _ & _ & _ & Htk).
  pose proof max_weeks_nonneg as HM.
  assert (Hacc0 : forall w t, cw <= w -> acc_get (fc_h (accumulate_additional f cw)) w t = acc_get (fc_h f) w t).
  { intros w t Hw. unfold accumulate_additional. destruct (fc_lock_week f =? cw); [reflexivity|]. simpl.
    apply acc_get_set_other. left. lia. }
  unfold view_total_rewards, view_accumulated. simpl fc_w. simpl fc_h.
  rewrite Hs', store_progress_rewards.
  destruct (pfind (w_prog (fc_w f)) user) as [p|] eqn:Ep.
  - destruct Hm as (Hle & Hmap & Hcw2).
    assert (Htp : 0 <= en_tok (pr_en (adv p (first_claim_week p cw - pr_week p)))) by (rewrite adv_tok; apply Hwfu; reflexivity).
    destruct (fc_claim_weeks_shares _ _ _ _ _ _ _ _ Htp Hcw2) as (_ & Hout & Hfz).
    destruct (fc_claim_weeks_host _ _ _ _ _ _ _ _ Hcw2) as (_ & Hacc).
    rewrite <- Htk in Hnd.
    pose proof (fc_claim_weeks_collect _ _ _ _ _ _ _ _ Htp Hnd Hcw2) as Hcol.
    split; [|split].
    + intros w Hne Hw. rewrite Hfz; [apply Hrw; unfold cleared_week; lia|].
      rewrite Hrw by (unfold cleared_week; lia). exact Hne.
    + intros w He Hne.
      assert (He1 : rget (w_rewards s1) w = []) by (destruct (Hrw2 w) as [Hy|Hy]; [rewrite Hy; exact He | exact Hy]).
      destruct (Hcol w He1 Hne) as (Hin & Hrr & Hzero).
      rewrite adv_week, zseq_in in Hin. unfold first_claim_week, nr_claim_weeks in Hin.
      split; [lia|]. split; [rewrite Hrr, Htk; reflexivity|].
      intros t Hin'. apply Hzero. rewrite Htk. exact Hin'.
    + intros w t Hw. rewrite <- Hacc0 by exact Hw. apply Hacc.
      rewrite Hmap, zseq_in. unfold first_claim_week, nr_claim_weeks. lia.
  - destruct Hm as (-> & -> & ->). split; [|split].
    + intros w Hne Hw. apply Hrw. unfold cleared_week. lia.
    + intros w He Hne. exfalso. apply Hne. destruct (Hrw2 w) as [Hy|Hy]; [rewrite Hy; exact He | exact Hy].
    + intros w t Hw. apply Hacc0. exact Hw.
Qed.

Lemma step_rewards_frozen f op f' outs det :
  FWf f -> step f op = Ok (f', outs, det) ->
  forall w, view_total_rewards f w <> [] -> cur_week f' - MAXW <= w ->
            view_total_rewards f' w = view_total_rewards f w.
Proof.
  intros Hwf Hs. destruct (quiet op) eqn:Eq.
  - destruct (quiet_frame _ _ _ _ _ Eq Hs) as (Hw & _). intros w _ _. unfold view_total_rewards. rewrite Hw. reflexivity.
  - destruct op; try discriminate; simpl in Hs.
    + unfold ep_advance in Hs. destruct (0 <=? n); [|discriminate]. inversion Hs; subst. reflexivity.
    + destruct (ep_claim_inv _ _ _ _ _ _ _ Hs) as (_ & dest & Hc).
      destruct (claim_rewards_frozen _ _ _ _ _ _ Hwf Hc) as (cw & Hcw & Hfz & _).
      destruct (claim_rewards_env _ _ _ _ _ _ Hc) as (e1 & e2 & _).
      intros w Hne Hw. apply Hfz; [exact Hne|]. rewrite (current_week_cur _ _ Hcw).
      unfold cur_week in *. rewrite e1, e2 in Hw. exact Hw.
    + unfold ep_update_energy in Hs. destruct Hwf as (cw & Hcw & Hp & _). rewrite Hcw in Hs. simpl bind in Hs.
      apply bind_ok in Hs. destruct Hs as (w' & Hu & Hs). inversion Hs; subst; clear Hs.
      unfold update_energy_for_user in Hu. destruct (match pfind _ u with Some p => pr_week p =? cw | None => true end); [|discriminate].
      unfold update_energy_and_progress in Hu. apply bind_ok in Hu. destruct Hu as (s1 & Hu & Heq). inversion Heq; subst; clear Heq.
      destruct (update_user_energy_frame _ _ _ _ _ Hu) as (_ & _ & _ & Hrw).
      intros w Hne Hw. unfold view_total_rewards; simpl. rewrite store_progress_rewards. apply Hrw.
      unfold cur_week in Hw; simpl in Hw. fold (cur_week f) in Hw. rewrite <- (current_week_cur _ _ Hcw) in Hw.
      pose proof max_weeks_nonneg. unfold cleared_week. lia.
Qed.

(** only a claim fixes a week's total *)
Lemma step_rewards_set_by_claim f op f' outs det :
  FWf f -> step f op = Ok (f', outs, det) ->
  forall w, view_total_rewards f w = [] -> view_total_rewards f' w <> [] -> exists c orig b, op = Claim c orig b.
Proof.
  intros Hwf Hs w He Hne. destruct (quiet op) eqn:Eq.
  - destruct (quiet_frame _ _ _ _ _ Eq Hs) as (Hw & _). unfold view_total_rewards in *. rewrite Hw in Hne. contradiction.
  - destruct op; try discriminate; simpl in Hs.
    + unfold ep_advance in Hs. destruct (0 <=? n); [|discriminate]. inversion Hs; subst. contradiction.
    + eauto.
    + exfalso. unfold ep_update_energy in Hs. destruct Hwf as (cw & Hcw & Hp & _). rewrite Hcw in Hs. simpl bind in Hs.
      apply bind_ok in Hs. destruct Hs as (w' & Hu & Hs). inversion Hs; subst; clear Hs.
      unfold update_energy_for_user in Hu. destruct (match pfind _ u with Some p => pr_week p =? cw | None => true end); [|discriminate].
      unfold update_energy_and_progress in Hu. apply bind_ok in Hu. destruct Hu as (s1 & Hu & Heq). inversion Heq; subst; clear Heq.
      unfold view_total_rewards in *; simpl in Hne. rewrite store_progress_rewards in Hne.
      destruct (update_user_energy_rewards _ _ _ _ _ Hu w) as [Hy|Hy]; [rewrite Hy in Hne; contradiction | contradiction].
Qed.

(** a deposit lands in the running week's accumulation of its token and nowhere else *)
Lemma deposit_spec f c tok nonce amt f' outs det :
  ep_deposit f c tok nonce amt = Ok (f', outs, det) ->
  exists cw, current_week f = Ok cw /\ fc_w f' = fc_w f /\
    (forall w t, view_accumulated f' w t =
                 view_accumulated f w t + (if (w =? cw) && (t =? tok) then amt else 0)) /\
    (forall t, aget (fc_bal f') t = aget (fc_bal f) t + (if (t =? tok) && (nonce =? 0) then amt else 0)) /\
    mem c (fc_contracts f) = true /\ mem tok (h_tokens (fc_h f)) = true /\ 0 <= amt /\
    (0 < nonce -> tok = LOCKED) /\ 0 <= nonce.
Proof.
  unfold ep_deposit. destruct ((0 <=? amt) && (0 <=? nonce)) eqn:Eg; [|discriminate].
  apply andb_prop in Eg. destruct Eg as (Ea & En). apply Z.leb_le in Ea. apply Z.leb_le in En.
  destruct (mem c (fc_contracts f)); [|discriminate]. destruct (mem tok (h_tokens (fc_h f))); [|discriminate].
  intros Heq. apply bind_ok in Heq. destruct Heq as (cw & Hcw & Heq).
  apply bind_ok in Heq. destruct Heq as (f1 & Hf1 & Heq). inversion Heq; subst; clear Heq.
  exists cw. split; [exact Hcw|].
  assert (Hacc : forall f0 w t, view_accumulated (with_h f0 (acc_set (fc_h f0) cw tok (acc_get (fc_h f0) cw tok + amt))) w t =
                 view_accumulated f0 w t + (if (w =? cw) && (t =? tok) then amt else 0)).
  { intros f0 w t. unfold view_accumulated; simpl.
    destruct (w =? cw) eqn:E1; [destruct (t =? tok) eqn:E2|]; simpl.
    - apply Z.eqb_eq in E1. apply Z.eqb_eq in E2. subst. apply acc_get_set_same.
    - apply Z.eqb_eq in E1. apply Z.eqb_neq in E2. subst. rewrite acc_get_set_other by (right; congruence). lia.
    - apply Z.eqb_neq in E1. rewrite acc_get_set_other by (left; congruence). lia. }
  destruct (0 <? nonce) eqn:E0.
  - apply Z.ltb_lt in E0. destruct (tok =? LOCKED) eqn:El; [|discriminate]. apply Z.eqb_eq in El. inversion Hf1; subst f1.
    split; [reflexivity|]. split; [apply Hacc|]. split.
    + intros t. simpl. destruct (nonce =? 0) eqn:En0; [apply Z.eqb_eq in En0; lia|]. rewrite andb_false_r. lia.
    + repeat split; auto.
  - apply Z.ltb_ge in E0. inversion Hf1; subst f1. split; [reflexivity|]. split; [intros w t; rewrite Hacc; reflexivity|]. split.
    + intros t. simpl. assert (nonce = 0) by lia. subst nonce. rewrite Z.eqb_refl, andb_true_r.
      destruct (t =? tok) eqn:Et.
      * apply Z.eqb_eq in Et. subst. apply aget_aset_same.
      * apply Z.eqb_neq in Et. rewrite aget_aset_other by congruence. lia.
    + repeat split; auto. lia.
Qed.

(** ------------------------------------------------------------------ statements used by Props/C10.v *)
Lemma claim_share_char f c orig boosted f' outs det :
  FWf f -> ep_claim f c orig boosted = Ok (f', outs, det) ->
  forall p w r, view_progress f (claim_user c orig) = Some p -> In (w, r) det ->
    let e := energy_at p w in let E := view_total_energy f w in let tot := view_total_rewards f' w in
    ((e = 0 \/ E = 0) -> r = []) /\
    (0 < e -> 0 < E ->
       (forall t x, In (t, x) r -> exists a, In (t, a) tot /\ floor_of x (a * e) E /\ 0 < x) /\
       (forall t a, In (t, a) tot -> 0 < a * e / E -> In (t, a * e / E) r)).
Proof.
  intros Hwf Hs p w r Hp Hin. destruct (ep_claim_inv _ _ _ _ _ _ _ Hs) as (_ & dest & Hc).
  destruct (claim_rewards_char _ _ _ _ _ _ Hwf Hc) as (cw & Hcw & Hm & _).
  rewrite Hp in Hm. destruct Hm as (_ & _ & Hsh). specialize (Hsh _ _ Hin). simpl.
  unfold week_share in Hsh. split.
  - intros [He|HE]; rewrite Hsh.
    + rewrite He. reflexivity.
    + rewrite HE, Z.eqb_refl, orb_true_r. reflexivity.
  - intros He HE.
    assert (Hz : (energy_at p w =? 0) || (view_total_energy f w =? 0) = false).
    { apply orb_false_iff. split; apply Z.eqb_neq; lia. }
    rewrite Hz in Hsh. subst r. split.
    + intros t x Hx. apply (shares_in _ _ _ _ _ HE Hx).
    + intros t a Ha Hpos. apply shares_complete; assumption.
Qed.

Lemma claim_window_char f c orig boosted f' outs det :
  FWf f -> ep_claim f c orig boosted = Ok (f', outs, det) ->
  exists cw, current_week f = Ok cw /\
    match view_progress f (claim_user c orig) with
    | None => det = []
    | Some p => pr_week p <= cw /\
                map fst det = zseq (Z.max (pr_week p) (cw - MAXW)) (Z.to_nat (Z.min (cw - pr_week p) MAXW))
    end /\
    (forall w, In w (map fst det) -> cw - MAXW <= w < cw) /\
    view_progress f' (claim_user c orig) =
      (if 0 <? en_amount (energy_entry f (claim_user c orig))
       then Some (mkProg (energy_entry f (claim_user c orig)) cw) else None) /\
    (forall u, u <> claim_user c orig -> view_progress f' u = view_progress f u).
Proof.
  intros Hwf Hs. destruct (ep_claim_inv _ _ _ _ _ _ _ Hs) as (_ & dest & Hc).
  destruct (claim_rewards_char _ _ _ _ _ _ Hwf Hc) as (cw & Hcw & Hm & Hpa & _).
  exists cw. split; [exact Hcw|]. pose proof max_weeks_nonneg as HM.
  split; [|split; [|split]].
  - destruct (view_progress f (claim_user c orig)) as [p|]; [|exact Hm].
    destruct Hm as (Hle & Hmap & _). split; [exact Hle | exact Hmap].
  - intros w Hin. destruct (view_progress f (claim_user c orig)) as [p|].
    + destruct Hm as (Hle & Hmap & _). rewrite Hmap in Hin. apply zseq_in in Hin.
      unfold first_claim_week, nr_claim_weeks in Hin. lia.
    + subst det. destruct Hin.
  - unfold view_progress. rewrite Hpa, progress_after_find, Z.eqb_refl. reflexivity.
  - intros u Hu. unfold view_progress. rewrite Hpa, progress_after_find.
    destruct (claim_user c orig =? u) eqn:E; [apply Z.eqb_eq in E; congruence | reflexivity].
Qed.

Lemma ep_claim_frozen f c orig boosted f' outs det :
  FWf f -> ep_claim f c orig boosted = Ok (f', outs, det) ->
  exists cw, current_week f = Ok cw /\
    (forall w, view_total_rewards f w <> [] -> cw - MAXW <= w ->
               view_total_rewards f' w = view_total_rewards f w) /\
    (forall w, view_total_rewards f w = [] -> view_total_rewards f' w <> [] ->
               cw - MAXW <= w < cw /\
               view_total_rewards f' w =
                 positive_part (map (fun t => (t, view_accumulated (accumulate_additional f cw) w t)) (h_tokens (fc_h f))) /\
               (forall t, In t (h_tokens (fc_h f)) -> view_accumulated f' w t = 0)) /\
    (forall w t, cw <= w -> view_accumulated f' w t = view_accumulated f w t).
Proof.
  intros Hwf Hs. destruct (ep_claim_inv _ _ _ _ _ _ _ Hs) as (_ & dest & Hc).
  apply (claim_rewards_frozen _ _ _ _ _ _ Hwf Hc).
Qed.

(** sum of a list *)
Fixpoint zsum (l : list Z) : Z := match l with [] => 0 | x :: t => x + zsum t end.

(** the arithmetic core of "never more than collected": floor shares of claimers whose energies add up to
    at most the week's total energy add up to at most the week's total, per token *)
Lemma shares_sum_le tot E t : 0 < E -> Forall (fun p => 0 <= snd p) tot ->
  forall es, Forall (fun e => 0 <= e) es -> zsum es <= E ->
  zsum (map (fun e => tok_sum (week_share tot e E) t) es) <= tok_sum tot t.
Proof.
  intros HE Htot es Hes Hsum.
  assert (Hk : zsum (map (fun e => tok_sum (week_share tot e E) t) es) * E <= tok_sum tot t * zsum es /\
               0 <= zsum (map (fun e => tok_sum (week_share tot e E) t) es)).
  { clear Hsum. induction es as [|e tl IH]; simpl; [lia|].
    inversion Hes as [|? ? He Htl]; subst. destruct (IH Htl) as [IH1 IH2].
    unfold week_share at 1 3. destruct ((e =? 0) || (E =? 0)) eqn:Ez.
    - simpl. apply orb_prop in Ez. destruct Ez as [Ez|Ez]; apply Z.eqb_eq in Ez; [|lia]. subst e. lia.
    - destruct (tok_sum_shares_le tot e E t HE He Htot) as [H1 H2]. split; nia. }
  destruct Hk as [Hk1 Hk2].
  assert (Hnn : 0 <= tok_sum tot t).
  { clear - Htot. induction tot as [|[t' a] tl IH]; simpl; [lia|]. inversion Htot; subst. simpl in *.
    specialize (IH H2). destruct (t' =? t); lia. }
  nia.
Qed.

(** ================================================================== Part C *)
(** raw per-user quantities: [a] = signed amount decayed to the global week, [t] = locked tokens,
    [F] = first bucket id *)
Definition r_live (a t : Z) : bool := (0 <? a) && (0 <? t).
Definition r_bkt (F a t : Z) : Z := F + a / t / WK.
Definition r_tokb (F b a t : Z) : Z := if r_live a t && (r_bkt F a t =? b) then t else 0.
Definition r_surb (F b a t : Z) : Z := if r_live a t && (r_bkt F a t =? b) then a mod (t * WK) else 0.
Definition r_ltok (a t : Z) : Z := if r_live a t then t else 0.

Lemma div_decomp a t : 0 < t ->
  exists q r, a = t * WK * q + r /\ 0 <= r < t * WK /\ a / t / WK = q /\ a mod (t * WK) = r /\
              (a - WK * t) / t / WK = q - 1 /\ (a - WK * t) mod (t * WK) = r.
Proof.
  intros Ht. pose proof week_pos as HW. assert (Htw : 0 < t * WK) by nia.
  exists (a / (t * WK)), (a mod (t * WK)).
  pose proof (Z.div_mod a (t * WK)). pose proof (Z.mod_pos_bound a (t * WK) Htw).
  split; [lia|]. split; [lia|]. split; [apply Z.div_div; lia|]. split; [reflexivity|].
  replace (a - WK * t) with (a + (-1) * (t * WK)) by ring.
  rewrite Z.div_div by lia. rewrite Z.div_add by lia. rewrite Z.mod_add by lia. split; [lia | reflexivity].
Qed.

(** one week of the global shift, seen from one user: [a' = a - 7t], first bucket F -> F+1 *)
Lemma raw_shift a t F : 0 <= t ->
  let a' := a - WK * t in
  (forall b, b <> F -> b <> F + 1 -> r_tokb (F + 1) b a' t = r_tokb F b a t) /\
  r_tokb (F + 1) F a' t = 0 /\
  0 <= r_tokb (F + 1) (F + 1) a' t <= r_tokb F (F + 1) a t /\
  (forall b, b <> F -> r_surb (F + 1) b a' t = r_surb F b a t) /\
  r_surb (F + 1) F a' t = 0 /\
  r_ltok a t - r_tokb F F a t - r_tokb F (F + 1) a t = r_ltok a' t - r_tokb (F + 1) (F + 1) a' t /\
  Z.max 0 a - WK * (r_ltok a t - r_tokb F F a t) - r_surb F F a t = Z.max 0 a' /\
  0 <= r_ltok a t - r_tokb F F a t /\ 0 <= r_surb F F a t.
Proof.
  intros Ht a'. pose proof week_pos as HW.
  destruct (Z.eq_dec t 0) as [->|Htz].
  - subst a'. unfold r_tokb, r_surb, r_ltok, r_live. rewrite Z.ltb_irrefl, !andb_false_r. simpl.
    repeat split; intros; lia.
  - assert (Htp : 0 < t) by lia.
    destruct (div_decomp a t Htp) as (q & r & Ha & Hr & Hq & Hm & Hq' & Hm').
    subst a'. unfold r_tokb, r_surb, r_ltok, r_live, r_bkt. rewrite Hq, Hm, Hq', Hm'.
    assert (Et : (0 <? t) = true) by (apply Z.ltb_lt; lia). rewrite Et, !andb_true_r.
    replace (F + 1 + (q - 1)) with (F + q) by lia.
    set (tw := t * WK) in *. assert (Htw : WK * t = tw) by (unfold tw; ring). rewrite Htw.
    assert (Hcases : q <= -1 \/ q = 0 \/ q = 1 \/ 2 <= q) by lia.
    assert (Hb : (q <= -1 -> a < 0) /\ (2 <= q -> 2 * tw <= a - r)).
    { split; intros; nia. }
    destruct Hb as (Hneg & Hbig). clearbody tw. clear Hq Hm Hq' Hm'.
    destruct Hcases as [Hc|[Hc|[Hc|Hc]]].
    + specialize (Hneg Hc).
      assert (E1 : (0 <? a) = false) by (apply Z.ltb_ge; lia).
      assert (E2 : (0 <? a - tw) = false) by (apply Z.ltb_ge; lia).
      rewrite E1, E2. simpl. repeat split; intros; lia.
    + subst q. assert (Har : a = r) by lia.
      assert (E2 : (0 <? a - tw) = false) by (apply Z.ltb_ge; lia). rewrite E2. simpl.
      rewrite Z.add_0_r, Z.eqb_refl.
      assert (E3 : (F =? F + 1) = false) by (apply Z.eqb_neq; lia). rewrite E3.
      destruct (0 <? a) eqn:E1; simpl.
      * apply Z.ltb_lt in E1. repeat split; intros; try lia.
        -- destruct (F =? b) eqn:Eb; [apply Z.eqb_eq in Eb; lia | reflexivity].
        -- destruct (F =? b) eqn:Eb; [apply Z.eqb_eq in Eb; lia | reflexivity].
      * apply Z.ltb_ge in E1. repeat split; intros; lia.
    + subst q. assert (Har : a = tw + r) by lia.
      assert (E1 : (0 <? a) = true) by (apply Z.ltb_lt; lia). rewrite E1. simpl.
      assert (E3 : (F + 1 =? F) = false) by (apply Z.eqb_neq; lia). rewrite E3.
      rewrite Z.eqb_refl.
      destruct (0 <? a - tw) eqn:E2; simpl.
      * apply Z.ltb_lt in E2. repeat split; intros; try lia.
      * apply Z.ltb_ge in E2. assert (r = 0) by lia. subst r. repeat split; intros; try lia.
        -- destruct (F + 1 =? b) eqn:Eb; [apply Z.eqb_eq in Eb; lia | reflexivity].
        -- destruct (F + 1 =? b) eqn:Eb; [apply Z.eqb_eq in Eb; lia | reflexivity].
    + specialize (Hbig Hc).
      assert (E1 : (0 <? a) = true) by (apply Z.ltb_lt; lia).
      assert (E2 : (0 <? a - tw) = true) by (apply Z.ltb_lt; lia). rewrite E1, E2. simpl.
      assert (E3 : (F + q =? F) = false) by (apply Z.eqb_neq; lia).
      assert (E4 : (F + q =? F + 1) = false) by (apply Z.eqb_neq; lia). rewrite E3, E4.
      repeat split; intros; lia.
Qed.

(** ------------------------------------------------------------------ sums over the recorded users *)
Definition u_tok (p : progress) : Z := en_tok (pr_en p).

Definition psum (f : progress -> Z) (l : list (Z * progress)) : Z :=
  fold_right (fun up acc => f (snd up) + acc) 0 l.

Definition c_energy (L : Z) (p : progress) : Z := energy_at p L.
Definition c_ltok (L : Z) (p : progress) : Z := r_ltok (decay_amt p L) (u_tok p).
Definition c_tokb (L F b : Z) (p : progress) : Z := r_tokb F b (decay_amt p L) (u_tok p).
Definition c_surb (L F b : Z) (p : progress) : Z := r_surb F b (decay_amt p L) (u_tok p).

Definition users_ok (L : Z) (l : list (Z * progress)) : Prop :=
  NoDup (map fst l) /\ Forall (fun up => 0 <= u_tok (snd up) /\ pr_week (snd up) <= L) l.

Lemma psum_ext f g l : (forall up, In up l -> f (snd up) = g (snd up)) -> psum f l = psum g l.
Proof.
  induction l as [|up t IH]; simpl; intros Hfg; [reflexivity|].
  rewrite (Hfg up) by (left; reflexivity). rewrite IH; [reflexivity|]. intros; apply Hfg; right; assumption.
Qed.

Lemma psum_le f g l : (forall up, In up l -> f (snd up) <= g (snd up)) -> psum f l <= psum g l.
Proof.
  induction l as [|up t IH]; simpl; intros Hfg; [lia|].
  specialize (Hfg up (or_introl eq_refl)) as H1. assert (psum f t <= psum g t) by (apply IH; intros; apply Hfg; right; assumption). lia.
Qed.

Lemma psum_nonneg f l : (forall up, In up l -> 0 <= f (snd up)) -> 0 <= psum f l.
Proof.
  induction l as [|up t IH]; simpl; intros Hf; [lia|].
  specialize (Hf up (or_introl eq_refl)) as H1. assert (0 <= psum f t) by (apply IH; intros; apply Hf; right; assumption). lia.
Qed.

Lemma psum_lin f g h k l : (forall up, In up l -> f (snd up) - k * g (snd up) - h (snd up) = 0) ->
  psum f l - k * psum g l - psum h l = 0.
Proof.
  induction l as [|up t IH]; simpl; intros Hf; [lia|].
  specialize (Hf up (or_introl eq_refl)) as H1.
  assert (psum f t - k * psum g t - psum h t = 0) by (apply IH; intros; apply Hf; right; assumption). lia.
Qed.

Lemma psum_member f l u p : (forall up, In up l -> 0 <= f (snd up)) -> In (u, p) l -> f p <= psum f l.
Proof.
  induction l as [|up t IH]; simpl; intros Hf Hin; [destruct Hin|].
  pose proof (Hf up (or_introl eq_refl)) as H1.
  assert (Ht : 0 <= psum f t) by (apply psum_nonneg; intros; apply Hf; right; assumption).
  destruct Hin as [->|Hin]; [simpl; lia|].
  assert (f p <= psum f t) by (apply IH; [intros; apply Hf; right; assumption | exact Hin]). lia.
Qed.

(** the bookkeeping invariant for user list [l] at global week [L] with first bucket [F]:
    every bucket other than the first holds exactly the tokens of the users expiring in it, the first
    bucket at least those (it may also hold tokens of entries that ran out exactly at the week boundary;
    they leave with the next shift), every bucket holds exactly the surplus energies of its users, the
    total of locked tokens is the live users' tokens plus that slack, and the total energy is the sum of
    the users' decayed energies *)
Definition BInv (l : list (Z * progress)) (L F : Z) (bt bs : list (Z * Z)) (T E : Z) : Prop :=
  (forall b, b <> F -> aget bt b = psum (c_tokb L F b) l) /\
  psum (c_tokb L F F) l <= aget bt F /\
  (forall b, aget bs b = psum (c_surb L F b) l) /\
  T - aget bt F = psum (c_ltok L) l - psum (c_tokb L F F) l /\
  E = psum (c_energy L) l.

Lemma decay_amt_succ p L : decay_amt p (L + 1) = decay_amt p L - WK * u_tok p.
Proof. unfold decay_amt, u_tok. ring. Qed.

(** one week of the global shift is exact (no saturation, no underflow) and re-establishes the invariant *)
Lemma shift_one l L F bt bs T E :
  Forall (fun up => 0 <= u_tok (snd up)) l -> BInv l L F bt bs T E ->
  aget bt F <= T /\ (T - aget bt F) * WK + aget bs F <= E /\
  BInv l (L + 1) (F + 1) (aset bt F 0) (aset bs F 0) (T - aget bt F)
       (E - ((T - aget bt F) * WK + aget bs F)).
Proof.
  intros Hok (Hb & HF & Hs & HT & HE).
  assert (Hraw : forall up, In up l -> let p := snd up in
            (forall b, b <> F -> b <> F + 1 -> c_tokb (L + 1) (F + 1) b p = c_tokb L F b p) /\
            c_tokb (L + 1) (F + 1) F p = 0 /\
            0 <= c_tokb (L + 1) (F + 1) (F + 1) p <= c_tokb L F (F + 1) p /\
            (forall b, b <> F -> c_surb (L + 1) (F + 1) b p = c_surb L F b p) /\
            c_surb (L + 1) (F + 1) F p = 0 /\
            c_ltok L p - c_tokb L F F p - c_tokb L F (F + 1) p = c_ltok (L + 1) p - c_tokb (L + 1) (F + 1) (F + 1) p /\
            c_energy L p - WK * (c_ltok L p - c_tokb L F F p) - c_surb L F F p = c_energy (L + 1) p /\
            0 <= c_ltok L p - c_tokb L F F p /\ 0 <= c_surb L F F p).
  { intros up Hin p. rewrite Forall_forall in Hok. specialize (Hok _ Hin).
    unfold c_tokb, c_surb, c_ltok, c_energy, energy_at. rewrite decay_amt_succ.
    apply raw_shift. exact Hok. }
  assert (Hd : 0 <= psum (c_ltok L) l - psum (c_tokb L F F) l).
  { assert (psum (c_tokb L F F) l <= psum (c_ltok L) l); [|lia].
    apply psum_le. intros up Hin. destruct (Hraw up Hin) as (_ & _ & _ & _ & _ & _ & _ & H8 & _). lia. }
  split; [lia|].
  (* energy algebra *)
  assert (HEn : psum (c_energy L) l - WK * (psum (c_ltok L) l - psum (c_tokb L F F) l) - psum (c_surb L F F) l
                = psum (c_energy (L + 1)) l).
  { clear - Hraw. induction l as [|up t IH]; simpl; [lia|].
    destruct (Hraw up (or_introl eq_refl)) as (_ & _ & _ & _ & _ & _ & H7 & _).
    assert (IH' : psum (c_energy L) t - WK * (psum (c_ltok L) t - psum (c_tokb L F F) t) - psum (c_surb L F F) t
                  = psum (c_energy (L + 1)) t) by (apply IH; intros; apply Hraw; right; assumption).
    simpl in H7. lia. }
  assert (Hen1 : 0 <= psum (c_energy (L + 1)) l).
  { apply psum_nonneg. intros. unfold c_energy. apply energy_at_nonneg. }
  split; [rewrite HT, Hs, HE; lia|].
  unfold BInv. split; [|split; [|split; [|split]]].
  - intros b Hne. destruct (Z.eq_dec b F) as [->|HbF].
    + rewrite aget_aset_same. symmetry. 
      assert (psum (c_tokb (L + 1) (F + 1) F) l = psum (fun _ => 0) l).
      { apply psum_ext. intros up Hin. apply (Hraw up Hin). }
      rewrite H. clear. induction l; simpl; lia.
    + rewrite aget_aset_other by congruence. rewrite Hb by exact HbF.
      apply psum_ext. intros up Hin. symmetry. apply (Hraw up Hin); assumption.
  - rewrite aget_aset_other by lia. rewrite Hb by lia.
    apply psum_le. intros up Hin. apply (Hraw up Hin).
  - intros b. destruct (Z.eq_dec b F) as [->|HbF].
    + rewrite aget_aset_same. symmetry.
      assert (psum (c_surb (L + 1) (F + 1) F) l = psum (fun _ => 0) l).
      { apply psum_ext. intros up Hin. apply (Hraw up Hin). }
      rewrite H. clear. induction l; simpl; lia.
    + rewrite aget_aset_other by congruence. rewrite Hs.
      apply psum_ext. intros up Hin. symmetry. apply (Hraw up Hin); assumption.
  - rewrite aget_aset_other by lia. rewrite (Hb (F + 1)) by lia. rewrite HT.
    clear - Hraw. induction l as [|up t IH]; simpl; [lia|].
    destruct (Hraw up (or_introl eq_refl)) as (_ & _ & _ & _ & _ & H6 & _).
    assert (IH' : psum (c_ltok L) t - psum (c_tokb L F F) t - psum (c_tokb L F (F + 1)) t =
                  psum (c_ltok (L + 1)) t - psum (c_tokb (L + 1) (F + 1) (F + 1)) t)
      by (apply IH; intros; apply Hraw; right; assumption).
    simpl in H6. lia.
  - rewrite HT, Hs, HE. lia.
Qed.

(** the shift loop: never fails, [safe_sub] never saturates, the invariant moves [n] weeks *)
Lemma shift_n n : forall l L F bt bs T E,
  Forall (fun up => 0 <= u_tok (snd up)) l -> BInv l L F bt bs T E ->
  exists bt' bs' T' E',
    shift_buckets n F bt bs T E = Ok (F + Z.of_nat n, bt', bs', T', E') /\
    BInv l (L + Z.of_nat n) (F + Z.of_nat n) bt' bs' T' E'.
Proof.
  induction n as [|n IH]; intros l L F bt bs T E Hok Hinv.
  - exists bt, bs, T, E. simpl. rewrite !Z.add_0_r. split; [reflexivity | exact Hinv].
  - destruct (shift_one _ _ _ _ _ _ _ Hok Hinv) as (H1 & H2 & Hinv').
    destruct (IH _ _ _ _ _ _ _ Hok Hinv') as (bt' & bs' & T' & E' & Hsh & Hinv'').
    exists bt', bs', T', E'. split.
    + simpl shift_buckets. unfold sub_chk. destruct (T <? aget bt F) eqn:Elt; [apply Z.ltb_lt in Elt; lia|].
      simpl bind. unfold safe_sub.
      destruct ((T - aget bt F) * WK + aget bs F <? E) eqn:Es.
      * rewrite Hsh. f_equal. f_equal. f_equal. f_equal. f_equal. lia.
      * apply Z.ltb_ge in Es. assert (Hz : E - ((T - aget bt F) * WK + aget bs F) = 0) by lia.
        rewrite Hz in Hsh. rewrite Hsh. f_equal. f_equal. f_equal. f_equal. f_equal. lia.
    + replace (L + Z.of_nat (S n)) with (L + 1 + Z.of_nat n) by lia.
      replace (F + Z.of_nat (S n)) with (F + 1 + Z.of_nat n) by lia. exact Hinv''.
Qed.

(** ------------------------------------------------------------------ a user's entry is replaced *)
Definition f_old (f : progress -> Z) (op : option progress) : Z :=
  match op with Some p => f p | None => 0 end.

Lemma pfind_notin l u : ~ In u (map fst l) -> pfind l u = None /\ pdel l u = l.
Proof.
  unfold pdel. induction l as [|[u' p'] t IH]; simpl; intros Hn; [split; reflexivity|].
  destruct (u' =? u) eqn:E; [apply Z.eqb_eq in E; subst; exfalso; apply Hn; left; reflexivity|].
  simpl. destruct IH as (I1 & I2); [intros Hin; apply Hn; right; exact Hin|]. rewrite I1, I2. split; reflexivity.
Qed.

Lemma psum_pset f l u pn : psum f (pset l u pn) = psum f l - f_old f (pfind l u) + f pn.
Proof.
  induction l as [|[u' p'] t IH]; simpl; [lia|].
  destruct (u' =? u); simpl; [lia | rewrite IH; lia].
Qed.

Lemma psum_pdel f l u : NoDup (map fst l) -> psum f (pdel l u) = psum f l - f_old f (pfind l u).
Proof.
  induction l as [|[u' p'] t IH]; simpl; intros Hnd; [lia|].
  inversion Hnd as [|? ? Hnin Hnd']; subst. unfold pdel in *. simpl.
  destruct (u' =? u) eqn:E; simpl.
  - apply Z.eqb_eq in E. subst u'. destruct (pfind_notin _ _ Hnin) as (_ & Hd). unfold pdel in Hd. rewrite Hd. lia.
  - rewrite IH by exact Hnd'. lia.
Qed.

Lemma psum_progress_after f l u cw cur : NoDup (map fst l) ->
  (en_amount cur = 0 -> f (mkProg cur cw) = 0) ->
  psum f (progress_after l u cw cur) = psum f l - f_old f (pfind l u) + f (mkProg cur cw).
Proof.
  intros Hnd Hz. unfold progress_after. destruct (0 <? en_amount cur) eqn:E.
  - apply psum_pset.
  - apply Z.ltb_ge in E. pose proof (en_amount_nonneg cur). rewrite Hz by lia. rewrite psum_pdel by exact Hnd. lia.
Qed.

Lemma keys_pset_in l u p x : In x (map fst (pset l u p)) -> x = u \/ In x (map fst l).
Proof.
  induction l as [|[u' p'] t IH]; simpl.
  - intros [H|[]]; auto.
  - destruct (u' =? u) eqn:E; simpl.
    + apply Z.eqb_eq in E. subst. intros [H|H]; auto.
    + intros [H|H]; auto. destruct (IH H); auto.
Qed.

Lemma nodup_pset l u p : NoDup (map fst l) -> NoDup (map fst (pset l u p)).
Proof.
  induction l as [|[u' p'] t IH]; simpl; intros Hnd.
  - constructor; [intros [] | constructor].
  - inversion Hnd as [|? ? Hnin Hnd']; subst.
    destruct (u' =? u) eqn:E; simpl.
    + apply Z.eqb_eq in E. subst. constructor; assumption.
    + constructor; [|apply IH; assumption].
      intros Hin. apply keys_pset_in in Hin. destruct Hin as [->|Hin]; [rewrite Z.eqb_refl in E; discriminate | contradiction].
Qed.

Lemma nodup_pdel l u : NoDup (map fst l) -> NoDup (map fst (pdel l u)).
Proof.
  unfold pdel. induction l as [|[u' p'] t IH]; simpl; intros Hnd; [constructor|].
  inversion Hnd as [|? ? Hnin Hnd']; subst. destruct (u' =? u); simpl; [apply IH; assumption|].
  constructor; [|apply IH; assumption]. intros Hin. apply Hnin.
  clear - Hin. induction t as [|[u2 p2] t IH]; simpl in *; [exact Hin|].
  destruct (u2 =? u); simpl in *; [right; apply IH; exact Hin | destruct Hin; [left; assumption | right; apply IH; assumption]].
Qed.

Lemma users_ok_progress_after L l u cur : users_ok L l -> 0 <= en_tok cur -> users_ok L (progress_after l u L cur).
Proof.
  intros (Hnd & Hall) Ht. split.
  - unfold progress_after. destruct (0 <? en_amount cur); [apply nodup_pset | apply nodup_pdel]; exact Hnd.
  - apply Forall_progress_after; [exact Hall|]. simpl. unfold u_tok; simpl. split; [exact Ht | lia].
Qed.

Lemma users_ok_mono L L' l : L <= L' -> users_ok L l -> users_ok L' l.
Proof.
  intros Hle (Hnd & Hall). split; [exact Hnd|]. eapply Forall_impl; [|exact Hall]. simpl. intros a (H1 & H2). split; lia.
Qed.

(** ------------------------------------------------------------------ bucket reallocation *)
Lemma bucket_id_for_spec F e : 0 <= en_tok e ->
  bucket_id_for F e = if r_live (en_amt e) (en_tok e) then Some (r_bkt F (en_amt e) (en_tok e)) else None.
Proof.
  intros Ht. unfold bucket_id_for, r_live, r_bkt. rewrite en_amount_max.
  destruct (en_tok e =? 0) eqn:E0.
  - apply Z.eqb_eq in E0. rewrite E0. rewrite Z.ltb_irrefl, andb_false_r. reflexivity.
  - apply Z.eqb_neq in E0. assert (Etp : (0 <? en_tok e) = true) by (apply Z.ltb_lt; lia). rewrite Etp, andb_true_r.
    destruct (0 <? en_amt e) eqn:Ea.
    + apply Z.ltb_lt in Ea. rewrite Z.max_r by lia.
      destruct (en_amt e =? 0) eqn:Ez; [apply Z.eqb_eq in Ez; lia|]. f_equal. lia.
    + apply Z.ltb_ge in Ea. rewrite Z.max_l by lia. reflexivity.
Qed.

Lemma aget_aset_pt l k v b : aget (aset l k v) b = if k =? b then v else aget l b.
Proof.
  destruct (k =? b) eqn:E; [apply Z.eqb_eq in E; subst; apply aget_aset_same | apply Z.eqb_neq in E; apply aget_aset_other; exact E].
Qed.

Lemma sub_chk_ge a b : b <= a -> sub_chk a b = Ok (a - b).
Proof. intros. unfold sub_chk. destruct (a <? b) eqn:E; [apply Z.ltb_lt in E; lia | reflexivity]. Qed.

Lemma r_tokb_at F a t : r_live a t = true -> r_tokb F (r_bkt F a t) a t = t.
Proof. intros El. unfold r_tokb. rewrite El, Z.eqb_refl. reflexivity. Qed.
Lemma r_surb_at F a t : r_live a t = true -> r_surb F (r_bkt F a t) a t = a mod (t * WK).
Proof. intros El. unfold r_surb. rewrite El, Z.eqb_refl. reflexivity. Qed.
Lemma r_tokb_pt F b a t : r_live a t = true -> r_tokb F b a t = if r_bkt F a t =? b then t else 0.
Proof. intros El. unfold r_tokb. rewrite El. reflexivity. Qed.
Lemma r_surb_pt F b a t : r_live a t = true -> r_surb F b a t = if r_bkt F a t =? b then a mod (t * WK) else 0.
Proof. intros El. unfold r_surb. rewrite El. reflexivity. Qed.
Lemma r_dead F b a t : r_live a t = false -> r_tokb F b a t = 0 /\ r_surb F b a t = 0 /\ r_ltok a t = 0.
Proof. intros El. unfold r_tokb, r_surb, r_ltok. rewrite El. repeat split. Qed.

Lemma surplus_for_live e : r_live (en_amt e) (en_tok e) = true -> surplus_for e = en_amt e mod (en_tok e * WK).
Proof.
  intros El. unfold r_live in El. apply andb_prop in El. destruct El as (E1 & E2). apply Z.ltb_lt in E1. apply Z.ltb_lt in E2.
  unfold surplus_for. destruct (en_tok e =? 0) eqn:Ez; [apply Z.eqb_eq in Ez; lia|].
  rewrite en_amount_max, Z.max_r by lia. reflexivity.
Qed.

Lemma reallocate_spec s prev depl cur :
  let F := w_first s in let a := en_amt depl in let t := en_tok depl in
  let ac := en_amt cur in let tc := en_tok cur in
  0 <= t -> en_tok prev = t -> 0 <= tc ->
  (r_live a t = true -> surplus_for prev = a mod (t * WK)) ->
  (forall b, r_tokb F b a t <= aget (w_btok s) b) ->
  (forall b, r_surb F b a t <= aget (w_bsur s) b) ->
  exists s', reallocate_bucket s prev depl cur = Ok (s', r_live a t, r_live ac tc) /\
    w_prog s' = w_prog s /\ w_energy s' = w_energy s /\ w_tokens s' = w_tokens s /\ w_last s' = w_last s /\
    w_rewards s' = w_rewards s /\ w_first s' = w_first s /\
    (forall b, aget (w_btok s') b = aget (w_btok s) b - r_tokb F b a t + r_tokb F b ac tc) /\
    (forall b, aget (w_bsur s') b = aget (w_bsur s) b - r_surb F b a t + r_surb F b ac tc).
Proof.
  intros F a t ac tc Ht Hpt Htc Hsur Hbt Hbs. unfold reallocate_bucket.
  rewrite (bucket_id_for_spec _ depl Ht). fold a t F.
  destruct (r_live a t) eqn:El.
  - pose proof (Hbt (r_bkt F a t)) as H1. pose proof (Hbs (r_bkt F a t)) as H2.
    rewrite r_tokb_at in H1 by exact El. rewrite r_surb_at in H2 by exact El.
    rewrite Hpt, (Hsur eq_refl). rewrite (sub_chk_ge _ _ H1). simpl bind. rewrite (sub_chk_ge _ _ H2). simpl bind.
    rewrite (bucket_id_for_spec _ cur Htc). fold ac tc F.
    destruct (r_live ac tc) eqn:Ec.
    + eexists. split; [reflexivity|]. simpl. repeat (split; [reflexivity|]).
      rewrite (surplus_for_live cur Ec). fold ac tc.
      split; intros b; rewrite !aget_aset_pt;
        [rewrite (r_tokb_pt F b a t El), (r_tokb_pt F b ac tc Ec) | rewrite (r_surb_pt F b a t El), (r_surb_pt F b ac tc Ec)];
        destruct (r_bkt F ac tc =? b) eqn:Eb; destruct (r_bkt F a t =? b) eqn:Eb2;
        try (apply Z.eqb_eq in Eb; subst b); try (apply Z.eqb_eq in Eb2; try subst b); 
        rewrite ?aget_aset_pt, ?Z.eqb_refl, ?Eb2, ?Z.eqb_refl; try lia.
    + eexists. split; [reflexivity|]. simpl. repeat (split; [reflexivity|]).
      destruct (r_dead F 0 ac tc Ec) as (_ & _ & _).
      split; intros b; rewrite !aget_aset_pt;
        [rewrite (r_tokb_pt F b a t El); destruct (r_dead F b ac tc Ec) as (-> & _ & _)
        | rewrite (r_surb_pt F b a t El); destruct (r_dead F b ac tc Ec) as (_ & -> & _)];
        destruct (r_bkt F a t =? b) eqn:Eb2; try (apply Z.eqb_eq in Eb2; subst b); lia.
  - simpl bind. rewrite (bucket_id_for_spec _ cur Htc). fold ac tc F.
    destruct (r_live ac tc) eqn:Ec.
    + eexists. split; [reflexivity|]. simpl. repeat (split; [reflexivity|]).
      rewrite (surplus_for_live cur Ec). fold ac tc.
      split; intros b; rewrite !aget_aset_pt;
        [rewrite (r_tokb_pt F b ac tc Ec); destruct (r_dead F b a t El) as (-> & _ & _)
        | rewrite (r_surb_pt F b ac tc Ec); destruct (r_dead F b a t El) as (_ & -> & _)];
        destruct (r_bkt F ac tc =? b) eqn:Eb; try (apply Z.eqb_eq in Eb; subst b); lia.
    + eexists. split; [reflexivity|]. simpl. repeat (split; [reflexivity|]).
      split; intros b; [destruct (r_dead F b a t El) as (-> & _ & _); destruct (r_dead F b ac tc Ec) as (-> & _ & _)
                       | destruct (r_dead F b a t El) as (_ & -> & _); destruct (r_dead F b ac tc Ec) as (_ & -> & _)]; lia.
Qed.

(** ------------------------------------------------------------------ a user touch re-establishes the invariant *)
Lemma c_nonneg L F b (l : list (Z * progress)) : Forall (fun up => 0 <= u_tok (snd up)) l ->
  forall up, In up l -> 0 <= c_tokb L F b (snd up) /\ 0 <= c_surb L F b (snd up) /\ 0 <= c_ltok L (snd up) /\ 0 <= c_energy L (snd up).
Proof.
  intros Hall up Hin. rewrite Forall_forall in Hall. specialize (Hall _ Hin).
  unfold c_tokb, c_surb, c_ltok, c_energy, r_tokb, r_surb, r_ltok.
  pose proof (energy_at_nonneg (snd up) L). pose proof week_pos.
  destruct (r_live (decay_amt (snd up) L) (u_tok (snd up))) eqn:El; simpl.
  - unfold r_live in El. apply andb_prop in El. destruct El as (_ & E2). apply Z.ltb_lt in E2.
    pose proof (Z.mod_pos_bound (decay_amt (snd up) L) (u_tok (snd up) * WK) ltac:(nia)).
    destruct (r_bkt F (decay_amt (snd up) L) (u_tok (snd up)) =? b); repeat split; lia.
  - repeat split; lia.
Qed.

Lemma f_old_le_psum f l u : (forall up, In up l -> 0 <= f (snd up)) -> 0 <= f_old f (pfind l u) <= psum f l.
Proof.
  intros Hf. destruct (pfind l u) as [p|] eqn:Ep; simpl.
  - apply pfind_in in Ep. split; [apply (Hf _ Ep) | apply (psum_member f l u p Hf Ep)].
  - split; [lia | apply psum_nonneg; exact Hf].
Qed.

Lemma update_global_rest s cw la prev cur s1 l u a t :
  perform_weekly_update s cw = Ok s1 ->
  l = w_prog s1 -> users_ok cw l -> 0 <= en_tok cur -> w_last s1 = cw -> la <= cw -> 0 <= t ->
  BInv l cw (w_first s1) (w_btok s1) (w_bsur s1) (aget (w_tokens s1) cw) (aget (w_energy s1) cw) ->
  (* the previous entry, depleted to the current week, has amount [a] and tokens [t] *)
  en_tok prev = t ->
  (let depl := if cw =? la then prev else en_deplete prev (en_epoch prev + (cw - la) * WK) in
   en_amt depl = a /\ en_tok depl = t) ->
  (r_live a t = true -> surplus_for prev = a mod (t * WK)) ->
  (forall b, f_old (c_tokb cw (w_first s1) b) (pfind l u) = r_tokb (w_first s1) b a t) ->
  (forall b, f_old (c_surb cw (w_first s1) b) (pfind l u) = r_surb (w_first s1) b a t) ->
  f_old (c_ltok cw) (pfind l u) = r_ltok a t ->
  f_old (c_energy cw) (pfind l u) = Z.max 0 a ->
  exists s2, update_global_amounts s cw la prev cur = Ok s2 /\
    w_prog s2 = l /\ w_last s2 = cw /\ w_first s2 = w_first s1 /\ w_rewards s2 = w_rewards s1 /\
    (forall w, w <> cw -> aget (w_energy s2) w = aget (w_energy s1) w) /\
    BInv (progress_after l u cw cur) cw (w_first s2) (w_btok s2) (w_bsur s2)
         (aget (w_tokens s2) cw) (aget (w_energy s2) cw).
Proof.
  intros Hp Hl (Hnd & Hall) Htc Hlast Hla Ht Hinv Hpt Hdepl Hsur Hot Hos Hol Hoe.
  unfold update_global_amounts. rewrite Hp. simpl bind.
  assert (Ela : (la <=? cw) = true) by (apply Z.leb_le; exact Hla). rewrite Ela.
  set (depl := if cw =? la then prev else en_deplete prev (en_epoch prev + (cw - la) * WK)) in *.
  destruct Hdepl as (Hda & Hdt).
  set (F := w_first s1) in *.
  destruct Hinv as (Hb & HF & Hs & HT & HE).
  assert (Hok : Forall (fun up => 0 <= u_tok (snd up)) l).
  { eapply Forall_impl; [|exact Hall]. simpl. intros x (H1 & _). exact H1. }
  assert (Hnn := c_nonneg cw F).
  (* bounds for the bucket subtraction *)
  assert (Hbt : forall b, r_tokb F b a t <= aget (w_btok s1) b).
  { intros b. rewrite <- Hot.
    destruct (f_old_le_psum (c_tokb cw F b) l u) as (_ & Hle); [intros up Hin; apply (Hnn b l Hok up Hin)|].
    destruct (Z.eq_dec b F) as [->|Hne]; [lia | rewrite Hb by exact Hne; lia]. }
  assert (Hbs : forall b, r_surb F b a t <= aget (w_bsur s1) b).
  { intros b. rewrite <- Hos, Hs.
    apply (f_old_le_psum (c_surb cw F b) l u). intros up Hin. apply (Hnn b l Hok up Hin). }
  destruct (reallocate_spec s1 prev depl cur) as (s2 & Hre & r1 & r2 & r3 & r4 & r5 & r6 & Hbt2 & Hbs2);
    try (rewrite ?Hda, ?Hdt; assumption).
  rewrite Hda, Hdt in Hre, Hbt2, Hbs2. fold F in Hbt2, Hbs2.
  rewrite Hre. simpl bind. rewrite r3.
  set (ac := en_amt cur) in *. set (tc := en_tok cur) in *.
  set (T := aget (w_tokens s1) cw) in *. set (E := aget (w_energy s1) cw) in *.
  (* tokens *)
  assert (HTge : r_ltok a t <= T).
  { rewrite <- Hol.
    destruct (f_old_le_psum (c_ltok cw) l u) as (_ & Hle); [intros up Hin; apply (Hnn F l Hok up Hin)|]. lia. }
  assert (Htok : exists T2,
     (if r_live a t && r_live ac tc then sub_chk (T + tc) (en_tok depl)
      else if r_live a t then sub_chk T (en_tok depl)
      else if r_live ac tc then Ok (T + tc) else Ok T) = Ok T2 /\ T2 = T + r_ltok ac tc - r_ltok a t).
  { rewrite Hdt. unfold r_ltok in *. destruct (r_live a t); destruct (r_live ac tc); simpl.
    - rewrite sub_chk_ge by lia. eexists; split; [reflexivity | lia].
    - rewrite sub_chk_ge by lia. eexists; split; [reflexivity | lia].
    - eexists; split; [reflexivity | lia].
    - eexists; split; [reflexivity | lia]. }
  destruct Htok as (T2 & HT2 & HT2v). rewrite HT2. simpl bind.
  (* energy *)
  assert (Hea : en_amount depl = Z.max 0 a) by (rewrite en_amount_max, Hda; reflexivity).
  assert (HEge : Z.max 0 a <= E).
  { rewrite <- Hoe, HE. apply (f_old_le_psum (c_energy cw) l u). intros up Hin. apply (Hnn F l Hok up Hin). }
  replace (aget (w_energy s2) cw) with E by (unfold E; rewrite r2; reflexivity).
  rewrite Hea. rewrite (sub_chk_ge _ _ HEge). simpl bind.
  eexists. split; [reflexivity|]. simpl.
  split; [congruence|]. split; [congruence|]. split; [exact r6|]. split; [exact r5|].
  split; [intros w Hw; rewrite aget_aset_other by congruence; rewrite r2; reflexivity|].
  rewrite !aget_aset_same, r6. fold F.
  (* the new entry's contributions *)
  set (pn := mkProg cur cw).
  assert (Hdn : decay_amt pn cw = ac) by (unfold decay_amt, pn; simpl; fold ac; ring).
  assert (Hz : en_amount cur = 0 -> r_live ac tc = false).
  { rewrite en_amount_max. fold ac. intros Hm. unfold r_live. assert (E0 : (0 <? ac) = false) by (apply Z.ltb_ge; lia).
    rewrite E0. reflexivity. }
  assert (Hpa : forall f, (en_amount cur = 0 -> f pn = 0) ->
                psum f (progress_after l u cw cur) = psum f l - f_old f (pfind l u) + f pn).
  { intros f Hf. apply psum_progress_after; assumption. }
  assert (Hpt' : forall b, psum (c_tokb cw F b) (progress_after l u cw cur) = psum (c_tokb cw F b) l - r_tokb F b a t + r_tokb F b ac tc).
  { intros b. rewrite Hpa, Hot.
    - replace (c_tokb cw F b pn) with (r_tokb F b ac tc); [reflexivity|]. unfold c_tokb. rewrite Hdn. reflexivity.
    - intros Hc. unfold c_tokb. rewrite Hdn. apply (r_dead F b ac tc (Hz Hc)). }
  assert (Hps' : forall b, psum (c_surb cw F b) (progress_after l u cw cur) = psum (c_surb cw F b) l - r_surb F b a t + r_surb F b ac tc).
  { intros b. rewrite Hpa, Hos.
    - replace (c_surb cw F b pn) with (r_surb F b ac tc); [reflexivity|]. unfold c_surb. rewrite Hdn. reflexivity.
    - intros Hc. unfold c_surb. rewrite Hdn. apply (r_dead F b ac tc (Hz Hc)). }
  assert (Hpl' : psum (c_ltok cw) (progress_after l u cw cur) = psum (c_ltok cw) l - r_ltok a t + r_ltok ac tc).
  { rewrite Hpa, Hol.
    - replace (c_ltok cw pn) with (r_ltok ac tc); [reflexivity|]. unfold c_ltok. rewrite Hdn. reflexivity.
    - intros Hc. unfold c_ltok. rewrite Hdn. apply (r_dead F 0 ac tc (Hz Hc)). }
  assert (Hpe' : psum (c_energy cw) (progress_after l u cw cur) = psum (c_energy cw) l - Z.max 0 a + en_amount cur).
  { rewrite Hpa, Hoe.
    - replace (c_energy cw pn) with (en_amount cur); [reflexivity|].
      unfold c_energy, energy_at. rewrite Hdn, en_amount_max. reflexivity.
    - intros Hc. unfold c_energy, energy_at. rewrite Hdn. rewrite en_amount_max in Hc. exact Hc. }
  unfold BInv. split; [|split; [|split; [|split]]].
  - intros b Hne. rewrite Hbt2, Hpt', Hb by exact Hne. reflexivity.
  - rewrite Hbt2, Hpt'. lia.
  - intros b. rewrite Hbs2, Hps', Hs. reflexivity.
  - rewrite Hbt2, Hpl', Hpt', HT2v. lia.
  - rewrite Hpe', <- HE. reflexivity.
Qed.

(** ------------------------------------------------------------------ the weekly-state invariant *)
Definition zero_maps (s : wstate) : Prop :=
  forall k, aget (w_energy s) k = 0 /\ aget (w_tokens s) k = 0 /\ aget (w_btok s) k = 0 /\ aget (w_bsur s) k = 0.

(** invariant with respect to a user list [l] (the stored one, or — between the global update and the
    write-back of the user's new progress — the list about to be stored) *)
Definition WInvL (l : list (Z * progress)) (s : wstate) : Prop :=
  users_ok (w_last s) l /\
  BInv l (w_last s) (w_first s) (w_btok s) (w_bsur s) (aget (w_tokens s) (w_last s)) (aget (w_energy s) (w_last s)) /\
  (w_last s = 0 -> l = [] /\ zero_maps s) /\
  0 <= w_last s.

Definition WInv (s : wstate) : Prop := WInvL (w_prog s) s.

Lemma BInv_nil L F bt bs : (forall k, aget bt k = 0) -> (forall k, aget bs k = 0) -> BInv [] L F bt bs 0 0.
Proof.
  intros Hbt Hbs. unfold BInv; simpl. rewrite !Hbt. repeat split; intros; try rewrite Hbt; try rewrite Hbs; lia.
Qed.

Lemma init_w_inv : WInv init_w.
Proof.
  unfold WInv, WInvL, init_w; simpl. split; [split; constructor|]. split; [apply BInv_nil; reflexivity|].
  split; [|lia]. intros _. split; [reflexivity|]. intros k. repeat split.
Qed.

Lemma weekly_update_spec s cw : WInv s -> w_last s <= cw -> 1 <= cw ->
  exists s1, perform_weekly_update s cw = Ok s1 /\ w_prog s1 = w_prog s /\ w_last s1 = cw /\
    users_ok cw (w_prog s) /\
    BInv (w_prog s) cw (w_first s1) (w_btok s1) (w_bsur s1) (aget (w_tokens s1) cw) (aget (w_energy s1) cw).
Proof.
  intros (Hok & Hinv & Hzero & Hnn) Hle Hcw. unfold perform_weekly_update.
  destruct (w_last s =? cw) eqn:E1.
  - apply Z.eqb_eq in E1. exists s. rewrite E1 in *. split; [reflexivity|]. split; [reflexivity|]. split; [reflexivity|]. split; [exact Hok | exact Hinv].
  - apply Z.eqb_neq in E1. destruct (w_last s =? 0) eqn:E2.
    + apply Z.eqb_eq in E2. destruct (Hzero E2) as (Hnil & Hz). exists (set_last s cw). simpl.
      split; [reflexivity|]. split; [reflexivity|]. split; [reflexivity|]. rewrite Hnil.
      split; [split; constructor|].
      destruct (Hz cw) as (-> & -> & _ & _). apply BInv_nil; intros k; apply (Hz k).
    + apply Z.eqb_neq in E2. assert (Ele : (w_last s <=? cw) = true) by (apply Z.leb_le; lia). rewrite Ele.
      assert (Hok' : Forall (fun up => 0 <= u_tok (snd up)) (w_prog s)).
      { destruct Hok as (_ & Hall). eapply Forall_impl; [|exact Hall]. simpl. intros x (H1 & _). exact H1. }
      destruct (shift_n (Z.to_nat (cw - w_last s)) _ _ _ _ _ _ _ Hok' Hinv) as (bt' & bs' & T' & E' & Hsh & Hinv').
      rewrite Hsh. simpl bind.
      replace (w_last s + Z.of_nat (Z.to_nat (cw - w_last s))) with cw in Hinv' by lia.
      assert (Hu : users_ok cw (w_prog s)) by (apply (users_ok_mono (w_last s)); [lia | exact Hok]).
      pose proof max_weeks_nonneg as HM.
      destruct (USER_MAX_CLAIM_WEEKS + 1 <? cw) eqn:E4.
      * eexists. split; [reflexivity|]. simpl. split; [reflexivity|]. split; [reflexivity|]. split; [exact Hu|].
        rewrite aget_aset_same. rewrite aget_aset_other by lia. rewrite aget_aset_same. exact Hinv'.
      * eexists. split; [reflexivity|]. simpl. split; [reflexivity|]. split; [reflexivity|]. split; [exact Hu|].
        rewrite !aget_aset_same. exact Hinv'.
Qed.

Lemma update_user_energy_spec s cw u cur : WInv s -> w_last s <= cw -> 1 <= cw -> 0 <= en_tok cur ->
  exists s2, update_user_energy s cw cur (pfind (w_prog s) u) = Ok s2 /\
    w_prog s2 = w_prog s /\ WInvL (progress_after (w_prog s) u cw cur) s2 /\ w_last s2 = cw.
Proof.
  intros Hinv Hle Hcw Htc.
  destruct (weekly_update_spec s cw Hinv Hle Hcw) as (s1 & Hp & Hpr & Hlast & Hu & Hb).
  pose proof week_pos as HW.
  unfold update_user_energy.
  destruct (pfind (w_prog s) u) as [p|] eqn:Ep.
  - assert (Hin : In (u, p) (w_prog s)) by (apply pfind_in; exact Ep).
    destruct Hu as (Hnd & Hall). pose proof Hall as Hall'. rewrite Forall_forall in Hall'. destruct (Hall' _ Hin) as (Ht & Hw). simpl in Ht, Hw.
    destruct (update_global_rest s cw (pr_week p) (pr_en p) cur s1 (w_prog s) u (decay_amt p cw) (u_tok p))
      as (s2 & Hg & g1 & g2 & g3 & g4 & g5 & Hb2); try assumption; try (symmetry; assumption); try (split; assumption); try reflexivity.
    + simpl. destruct (cw =? pr_week p) eqn:Ec.
      * apply Z.eqb_eq in Ec. unfold decay_amt, u_tok. split; [rewrite Ec; ring | reflexivity].
      * rewrite deplete_fwd by (unfold u_tok in Ht; nia). simpl. unfold decay_amt, u_tok. split; [ring | reflexivity].
    + intros El. unfold r_live in El. apply andb_prop in El. destruct El as (E1 & E2). apply Z.ltb_lt in E1. apply Z.ltb_lt in E2.
      unfold surplus_for. fold (u_tok p). destruct (u_tok p =? 0) eqn:Ez; [apply Z.eqb_eq in Ez; lia|].
      unfold decay_amt in *. fold (u_tok p) in *.
      assert (Hpos : 0 < en_amt (pr_en p)) by nia.
      rewrite en_amount_max, Z.max_r by lia.
      replace (en_amt (pr_en p)) with (en_amt (pr_en p) - WK * u_tok p * (cw - pr_week p) + (cw - pr_week p) * (u_tok p * WK)) at 1 by ring.
      apply Z.mod_add. nia.
    + rewrite Ep. reflexivity.
    + rewrite Ep. reflexivity.
    + rewrite Ep. reflexivity.
    + rewrite Ep. reflexivity.
    + exists s2. split; [exact Hg|]. split; [congruence|]. split; [|exact g2].
      unfold WInvL. rewrite g2. split; [apply users_ok_progress_after; [split; assumption | exact Htc]|].
      split; [exact Hb2|]. split; [intros Hc; lia | lia].
  - destruct (update_global_rest s cw 0 en_default cur s1 (w_prog s) u 0 0)
      as (s2 & Hg & g1 & g2 & g3 & g4 & g5 & Hb2); try assumption; try (symmetry; assumption); try reflexivity; try lia.
    + simpl. destruct (cw =? 0) eqn:Ec; [apply Z.eqb_eq in Ec; lia|].
      unfold en_deplete, en_default; simpl. destruct ((cw - 0) * WK); simpl; split; reflexivity.
    + intros b. rewrite Ep. reflexivity.
    + intros b. rewrite Ep. reflexivity.
    + rewrite Ep. reflexivity.
    + rewrite Ep. reflexivity.
    + exists s2. split; [exact Hg|]. split; [congruence|]. split; [|exact g2].
      unfold WInvL. rewrite g2. split; [apply users_ok_progress_after; [exact Hu | exact Htc]|].
      split; [exact Hb2|]. split; [intros Hc; lia | lia].
Qed.

Lemma WInvL_frame l s s' : same_but_rewards s s' -> WInvL l s -> WInvL l s'.
Proof.
  intros (f1 & f2 & f3 & f4 & f5 & f6 & f7) (H1 & H2 & H3 & H4). unfold WInvL, zero_maps in *.
  rewrite f2, f3, f4, f5, f6, f7. split; [exact H1|]. split; [exact H2|]. split; [exact H3 | exact H4].
Qed.

Lemma WInv_store l s u cw cur : w_prog (store_progress s u cw cur) = l ->
  WInvL l s -> WInv (store_progress s u cw cur).
Proof.
  intros Hl Hinv. unfold WInv. rewrite Hl.
  assert (Hsame : forall s0 l0, WInvL l (set_prog s0 l0) <-> WInvL l s0) by (intros; unfold WInvL, zero_maps; simpl; tauto).
  unfold store_progress in *. destruct (0 <? en_amount cur); apply Hsame; exact Hinv.
Qed.

(** any claim keeps the invariant (any hook that only touches the host and the frozen totals) and its
    global update never fails *)
Section ClaimInv.
  Variable H : Type.
  Variable hook : H -> wstate -> Z -> Z -> Z -> result (H * wstate * list (Z * Z)).
  Hypothesis hook_frame : forall h s w e E h' s' r, hook h s w e E = Ok (h', s', r) -> same_but_rewards s s'.

  Lemma claim_multi_inv h s user cw cur h' s' det :
    WInv s -> w_last s <= cw -> 1 <= cw -> 0 <= en_tok cur ->
    claim_multi H hook h s user cw cur = Ok (h', s', det) -> WInv s' /\ w_last s' = cw.
  Proof.
    intros Hinv Hle Hcw Htc Hc.
    assert (Hwfu : forall p, pfind (w_prog s) user = Some p -> 0 <= en_tok (pr_en p)).
    { intros p Hp. apply pfind_in in Hp. destruct Hinv as ((_ & Hall) & _). rewrite Forall_forall in Hall. apply (Hall _ Hp). }
    destruct (claim_multi_spec H hook hook_frame _ _ _ _ _ _ _ _ Hwfu Hc) as (s1 & s2 & Hu & Hsbr & Hs' & Hpa & _).
    destruct (update_user_energy_spec s cw user cur Hinv Hle Hcw Htc) as (s1' & Hu' & _ & Hl & Hlast).
    rewrite Hu in Hu'. inversion Hu'; subst s1'.
    split.
    - rewrite Hs'. apply (WInv_store (progress_after (w_prog s) user cw cur)).
      + rewrite <- Hs'. exact Hpa.
      + apply (WInvL_frame _ s1); assumption.
    - rewrite Hs'. destruct Hsbr as (_ & _ & _ & f4 & _).
      unfold store_progress. destruct (0 <? en_amount cur); simpl; congruence.
  Qed.
End ClaimInv.

Lemma update_energy_and_progress_inv s user cw cur s' :
  WInv s -> w_last s <= cw -> 1 <= cw -> 0 <= en_tok cur ->
  update_energy_and_progress s user cw cur = Ok s' -> WInv s' /\ w_last s' = cw.
Proof.
  intros Hinv Hle Hcw Htc Hu. unfold update_energy_and_progress in Hu.
  apply bind_ok in Hu. destruct Hu as (s1 & Hu & Heq). inversion Heq; subst s'; clear Heq.
  destruct (update_user_energy_spec s cw user cur Hinv Hle Hcw Htc) as (s1' & Hu' & Hpr & Hl & Hlast).
  rewrite Hu in Hu'. inversion Hu'; subst s1'. split.
  - apply (WInv_store (progress_after (w_prog s) user cw cur)); [rewrite store_progress_prog, Hpr; reflexivity | exact Hl].
  - unfold store_progress. destruct (0 <? en_amount cur); simpl; exact Hlast.
Qed.

(** ------------------------------------------------------------------ the collector's reachable states *)
Definition FInv (f : fc) : Prop := FWf f /\ WInv (fc_w f) /\ w_last (fc_w f) <= cur_week f.

Lemma init_finv epoch : FInv (init_fc epoch).
Proof.
  split; [apply init_wf|]. split; [apply init_w_inv|]. simpl. unfold cur_week; simpl.
  rewrite Z.sub_diag. pose proof week_pos. rewrite Z.div_0_l by lia. lia.
Qed.

Lemma claim_rewards_w f dest user f' outs det :
  claim_rewards f dest user = Ok (f', outs, det) ->
  exists cw h2, current_week f = Ok cw /\
    claim_multi fhost fc_hook (fc_h (accumulate_additional f cw)) (fc_w f) user cw (energy_entry f user) = Ok (h2, fc_w f', det).
Proof.
  unfold claim_rewards. intros Heq. apply bind_ok in Heq. destruct Heq as (cw & Hcw & Heq).
  apply bind_ok in Heq. destruct Heq as ([[h2 w2] det2] & Hcm & Heq).
  apply bind_ok in Heq. destruct Heq as (bal' & _ & Heq). inversion Heq; subst; clear Heq.
  exists cw, h2. split; [exact Hcw|]. rewrite accumulate_additional_w, energy_entry_accumulate in Hcm. exact Hcm.
Qed.

Lemma step_finv f op f' outs det : FInv f -> step f op = Ok (f', outs, det) -> FInv f'.
Proof.
  intros (Hwf & Hinv & Hle) Hs. split; [eapply step_wf; eassumption|].
  destruct (quiet op) eqn:Eq.
  - destruct (quiet_frame _ _ _ _ _ Eq Hs) as (Hw & He & Hfe & _). unfold cur_week. rewrite Hw, He, Hfe. split; assumption.
  - destruct op; try discriminate; simpl in Hs.
    + unfold ep_advance in Hs. destruct (0 <=? n) eqn:En; [|discriminate]. apply Z.leb_le in En.
      inversion Hs; subst; clear Hs. simpl. split; [exact Hinv|]. unfold cur_week in *; simpl.
      pose proof week_pos. pose proof (Z.div_le_mono (fc_epoch f - fc_first_epoch f) (fc_epoch f + n - fc_first_epoch f) WK). lia.
    + destruct (ep_claim_inv _ _ _ _ _ _ _ Hs) as (_ & dest & Hc).
      destruct (claim_rewards_w _ _ _ _ _ _ Hc) as (cw & h2 & Hcw & Hcm).
      destruct (claim_rewards_env _ _ _ _ _ _ Hc) as (e1 & e2 & _).
      pose proof (current_week_cur _ _ Hcw) as Hcur.
      assert (Hpos : 1 <= cw) by (apply (week_for_epoch_pos _ _ _ Hcw)).
      destruct Hwf as (cw0 & Hcw0 & _ & Hfac & _).
      assert (Hle2 : w_last (fc_w f) <= cw) by lia.
      destruct (claim_multi_inv fhost fc_hook fc_hook_frame _ _ _ _ _ _ _ _ Hinv Hle2 Hpos
                  (energy_entry_tok f _ Hfac) Hcm) as (Hinv' & Hlast).
      split; [exact Hinv'|]. unfold cur_week. rewrite e1, e2. fold (cur_week f). lia.
    + unfold ep_update_energy in Hs. destruct Hwf as (cw & Hcw & _ & Hfac & _). rewrite Hcw in Hs. simpl bind in Hs.
      apply bind_ok in Hs. destruct Hs as (w' & Hu & Hs). inversion Hs; subst; clear Hs.
      unfold update_energy_for_user in Hu. destruct (match pfind _ u with Some p => pr_week p =? cw | None => true end); [|discriminate].
      pose proof (current_week_cur _ _ Hcw) as Hcur.
      assert (Hpos : 1 <= cw) by (apply (week_for_epoch_pos _ _ _ Hcw)).
      assert (Hle2 : w_last (fc_w f) <= cw) by lia.
      destruct (update_energy_and_progress_inv _ _ _ _ _ Hinv Hle2 Hpos (energy_entry_tok f u Hfac) Hu) as (Hinv' & Hlast).
      simpl. split; [exact Hinv'|]. unfold cur_week; simpl. fold (cur_week f). lia.
Qed.

Lemma step_total_finv f op : FInv f -> FInv (step_total f op).
Proof.
  intros Hi. unfold step_total. destruct (step f op) as [[[f' o] d]|] eqn:E; [|exact Hi].
  eapply step_finv; eassumption.
Qed.

Lemma run_finv ops : forall f, FInv f -> FInv (run f ops).
Proof.
  unfold run. induction ops as [|op t IH]; intros f Hi; simpl; [exact Hi|]. apply IH. apply step_total_finv. exact Hi.
Qed.

(** the total energy of the last globally updated week is the sum of all recorded entries decayed to it *)
Lemma total_energy_sum f : FInv f ->
  view_total_energy f (view_last_global f) =
  psum (fun p => energy_at p (view_last_global f)) (w_prog (fc_w f)).
Proof. intros (_ & (_ & (_ & _ & _ & _ & HE) & _) & _). exact HE. Qed.

(** ================================================================== Part D *)

(** accumulations change only where a week's total is newly fixed, for the known tokens *)
Lemma fc_hook_acc h s w e E h' s' r :
  (forall w t, 0 <= acc_get h w t) -> NoDup (h_tokens h) ->
  fc_hook h s w e E = Ok (h', s', r) ->
  forall w' t, (w' <> w \/ rget (w_rewards s) w <> [] \/ rget (w_rewards s') w = [] \/ ~ In t (h_tokens h)) ->
               acc_get h' w' t = acc_get h w' t.
Proof.
  intros Hnn Hnd Hh w' t Hc.
  destruct (fc_hook_tokens _ _ _ _ _ _ _ _ Hh) as (_ & Ha).
  destruct (Z.eq_dec w' w) as [->|Hw]; [|apply Ha; exact Hw].
  destruct Hc as [Hc|Hc]; [contradiction|].
  destruct (default_hook_spec _ _ _ _ _ _ _ _ _ _ Hh) as (_ & _ & _ & Hfz & Hz & Hcol).
  destruct (rget (w_rewards s) w) as [|x0 tl0] eqn:He.
  2:{ destruct (Hfz ltac:(discriminate)) as (_ & ->). reflexivity. }
  destruct ((e =? 0) || (E =? 0)) eqn:Ez; [destruct (Hz eq_refl) as (_ & ->); reflexivity|].
  specialize (Hcol eq_refl eq_refl). unfold fc_collect in Hcol. symmetry in Hcol.
  destruct (collect_tokens_spec _ _ _ _ _ Hnd Hcol) as (Hr & Hzero & Hoth & _).
  destruct Hc as [Hc|[Hc|Hc]]; [contradiction| |apply Hoth; right; exact Hc].
  destruct (in_dec Z.eq_dec t (h_tokens h)) as [Hin|Hnin]; [|apply Hoth; right; exact Hnin].
  rewrite (Hzero _ Hin). rewrite Hc in Hr.
  (* nothing positive was collected, so the accumulation was already zero *)
  specialize (Hnn w t). assert (acc_get h w t <= 0); [|lia].
  clear - Hr Hin. unfold positive_part in Hr. induction (h_tokens h) as [|t0 tl IH]; simpl in *; [destruct Hin|].
  destruct (0 <? acc_get h w t0) eqn:Ep; [discriminate|].
  destruct Hin as [->|Hin]; [apply Z.ltb_ge in Ep; exact Ep | apply IH; assumption].
Qed.

Lemma collect_tokens_nonneg w toks : forall h h' r,
  collect_tokens h w toks = (h', r) -> (forall w t, 0 <= acc_get h w t) -> forall w t, 0 <= acc_get h' w t.
Proof.
  induction toks as [|t0 tl IH]; intros h h' r1; simpl.
  - intros Heq Hnn; inversion Heq; subst. exact Hnn.
  - destruct (collect_tokens (acc_set h w t0 0) w tl) as [h2 r2] eqn:Ec2.
    intros Heq Hnn; inversion Heq; subst. apply (IH _ _ _ Ec2).
    intros w1 t1. destruct (Z.eq_dec w w1) as [->|Hw]; [destruct (Z.eq_dec t0 t1) as [->|Ht]|].
    + rewrite acc_get_set_same. lia.
    + rewrite acc_get_set_other by (right; exact Ht). apply Hnn.
    + rewrite acc_get_set_other by (left; exact Hw). apply Hnn.
Qed.

Lemma fc_hook_acc_nonneg h s w e E h' s' r :
  (forall w t, 0 <= acc_get h w t) -> fc_hook h s w e E = Ok (h', s', r) -> forall w t, 0 <= acc_get h' w t.
Proof.
  intros Hnn Hh. unfold fc_hook, default_user_rewards in Hh. destruct ((e =? 0) || (E =? 0)).
  - inversion Hh; subst. exact Hnn.
  - unfold collect_and_get in Hh. destruct (rget (w_rewards s) w).
    + destruct (fc_collect h w) as [h1 r1] eqn:Ec. inversion Hh; subst. unfold fc_collect in Ec.
      apply (collect_tokens_nonneg _ _ _ _ _ Ec Hnn).
    + inversion Hh; subst. exact Hnn.
Qed.

Lemma fc_claim_weeks_acc n : forall h s p h' s' p' det,
  0 <= en_tok (pr_en p) -> NoDup (h_tokens h) -> (forall w t, 0 <= acc_get h w t) ->
  claim_weeks fhost fc_hook n h s p = Ok (h', s', p', det) ->
  (forall w t, 0 <= acc_get h' w t) /\
  (forall w t, (rget (w_rewards s) w <> [] \/ rget (w_rewards s') w = [] \/ ~ In t (h_tokens h)) ->
               acc_get h' w t = acc_get h w t).
Proof.
  induction n as [|n IH]; intros h s p h' s' p' det Ht Hnd Hnn; simpl claim_weeks.
  - intros Heq; inversion Heq; subst. split; [exact Hnn | reflexivity].
  - intros Heq. apply bind_ok in Heq. destruct Heq as ([[[h1 s1] p1] r0] & Hs & Heq).
    apply bind_ok in Heq. destruct Heq as ([[[h2 s2] p2] rs] & Hr & Heq). inversion Heq; subst; clear Heq.
    unfold claim_single in Hs. apply bind_ok in Hs. destruct Hs as ([[hx sx] rx] & Hh & Hs). inversion Hs; subst; clear Hs.
    rewrite advance_week_adv in Hr by assumption.
    assert (Ht1 : 0 <= en_tok (pr_en (adv p 1))) by (rewrite adv_tok; exact Ht).
    destruct (default_hook_spec _ _ _ _ _ _ _ _ _ _ Hh) as (_ & Hoth & _).
    destruct (fc_hook_tokens _ _ _ _ _ _ _ _ Hh) as (Htok & Hacc).
    pose proof (fc_hook_acc_nonneg _ _ _ _ _ _ _ _ Hnn Hh) as Hnn1.
    pose proof (fc_hook_acc _ _ _ _ _ _ _ _ Hnn Hnd Hh) as Hacc1.
    rewrite <- Htok in Hnd.
    destruct (IH _ _ _ _ _ _ _ Ht1 Hnd Hnn1 Hr) as (IHnn & IHacc).
    destruct (fc_claim_weeks_shares _ _ _ _ _ _ _ _ Ht1 Hr) as (_ & Hs2 & _).
    destruct (fc_claim_weeks_host _ _ _ _ _ _ _ _ Hr) as (_ & Hacc2).
    destruct (claim_weeks_frame fhost fc_hook fc_hook_frame _ _ _ _ _ _ _ _ Ht1 Hr) as (_ & _ & Hmap).
    split; [exact IHnn|].
    intros w t Hc. destruct (Z.eq_dec w (pr_week p)) as [->|Hw].
    + assert (Hnot : ~ In (pr_week p) (zseq (pr_week (adv p 1)) n)) by (rewrite adv_week, zseq_in; lia).
      rewrite Hacc2 by (rewrite Hmap; exact Hnot).
      apply Hacc1. right. rewrite <- (Hs2 _ Hnot). exact Hc.
    + rewrite IHacc.
      * apply Hacc. exact Hw.
      * rewrite Hoth by exact Hw. rewrite Htok. exact Hc.
Qed.

(** the week whose entries a global update drops: afterwards either untouched or (energy 0, rewards []) *)
Lemma perform_weekly_update_cleared s cw s1 :
  perform_weekly_update s cw = Ok s1 ->
  let iw := cleared_week cw in
  (aget (w_energy s1) iw = aget (w_energy s) iw /\ rget (w_rewards s1) iw = rget (w_rewards s) iw) \/
  (aget (w_energy s1) iw = 0 /\ rget (w_rewards s1) iw = []).
Proof.
  pose proof max_weeks_nonneg as HM. unfold perform_weekly_update, cleared_week.
  destruct (w_last s =? cw); [intros Heq; inversion Heq; subst; left; split; reflexivity|].
  destruct (w_last s =? 0); [intros Heq; inversion Heq; subst; left; split; reflexivity|].
  destruct (w_last s <=? cw); [|discriminate].
  intros Heq. apply bind_ok in Heq. destruct Heq as ([[[[f0 bt] bs] tt'] te'] & _ & Heq).
  destruct (MAXW + 1 <? cw) eqn:E4; inversion Heq; subst; simpl.
  - right. split; [apply aget_aset_same | apply rget_rset_same].
  - left. rewrite aget_aset_other by lia. split; reflexivity.
Qed.

Lemma update_user_energy_cleared s cw cur op s1 :
  update_user_energy s cw cur op = Ok s1 ->
  let iw := cleared_week cw in
  (aget (w_energy s1) iw = aget (w_energy s) iw /\ rget (w_rewards s1) iw = rget (w_rewards s) iw) \/
  (aget (w_energy s1) iw = 0 /\ rget (w_rewards s1) iw = []).
Proof.
  pose proof max_weeks_nonneg as HM.
  assert (Hx : forall la prev, update_global_amounts s cw la prev cur = Ok s1 ->
     let iw := cleared_week cw in
     (aget (w_energy s1) iw = aget (w_energy s) iw /\ rget (w_rewards s1) iw = rget (w_rewards s) iw) \/
     (aget (w_energy s1) iw = 0 /\ rget (w_rewards s1) iw = [])).
  { intros la prev Hg. unfold update_global_amounts in Hg. apply bind_ok in Hg. destruct Hg as (s0 & Hp0 & Hg).
    destruct (la <=? cw); [|discriminate].
    apply bind_ok in Hg. destruct Hg as ([[sx hp] hc] & Hr & Hg).
    apply bind_ok in Hg. destruct Hg as (tl' & _ & Hg). apply bind_ok in Hg. destruct Hg as (te & _ & Hg).
    inversion Hg; subst; clear Hg. simpl.
    destruct (reallocate_bucket_frame _ _ _ _ _ _ _ Hr) as (_ & r2 & _ & _ & r5 & _). rewrite r5, r2.
    rewrite aget_aset_other by (unfold cleared_week; lia).
    apply (perform_weekly_update_cleared _ _ _ Hp0). }
  unfold update_user_energy. destruct op as [p|]; apply Hx.
Qed.

Definition nonneg_acc (f : fc) : Prop := forall w t, 0 <= view_accumulated f w t.

Lemma accumulate_additional_acc f cw w t :
  view_accumulated (accumulate_additional f cw) w t =
  view_accumulated f w t +
  (if negb (fc_lock_week f =? cw) && (w =? cw - 1) && (t =? LOCKED) then fc_per_block f * BLOCKS_IN_WEEK else 0).
Proof.
  unfold accumulate_additional, view_accumulated. destruct (fc_lock_week f =? cw); simpl; [lia|].
  destruct (w =? cw - 1) eqn:E1; [destruct (t =? LOCKED) eqn:E2|]; simpl.
  - apply Z.eqb_eq in E1. apply Z.eqb_eq in E2. subst. rewrite acc_get_set_same. reflexivity.
  - apply Z.eqb_eq in E1. apply Z.eqb_neq in E2. subst. rewrite acc_get_set_other by (right; congruence). lia.
  - apply Z.eqb_neq in E1. rewrite acc_get_set_other by (left; congruence). lia.
Qed.

(** everything a user touch (claim, energy update) does to the collector, week by week: [f1] is the
    state whose accumulations the touch starts from (for a claim: after the extra locked tokens of the
    previous week were credited) *)
Definition touch_summary (f f1 f' : fc) (user : Z) (det : detail) : Prop :=
  let cw := cur_week f in let toks := h_tokens (fc_h f) in
  current_week f = Ok cw /\ cur_week f' = cw /\ w_last (fc_w f') = cw /\
  w_prog (fc_w f') = progress_after (w_prog (fc_w f)) user cw (energy_entry f user) /\
  (forall w, w <> cw ->
     (view_total_energy f' w = view_total_energy f w /\ view_total_rewards f' w = view_total_rewards f w /\
      forall t, view_accumulated f' w t = view_accumulated f1 w t) \/
     (w = cleared_week cw /\ view_total_energy f' w = 0 /\ view_total_rewards f' w = [] /\
      forall t, view_accumulated f' w t = view_accumulated f1 w t) \/
     (view_total_energy f' w = view_total_energy f w /\ view_total_rewards f w = [] /\ cw - MAXW <= w < cw /\
      view_total_rewards f' w = positive_part (map (fun t => (t, view_accumulated f1 w t)) toks) /\
      forall t, view_accumulated f' w t = if mem t toks then 0 else view_accumulated f1 w t)) /\
  (view_total_rewards f' cw = view_total_rewards f cw /\ forall t, view_accumulated f' cw t = view_accumulated f1 cw t) /\
  match view_progress f user with
  | None => det = []
  | Some p => pr_week p <= cw /\
              map fst det = zseq (first_claim_week p cw) (nr_claim_weeks p cw) /\
              (forall w r, In (w, r) det ->
                 r = week_share (view_total_rewards f' w) (energy_at p w) (view_total_energy f w))
  end /\
  pay_out (fc_bal f) (unlocked_part (flat_rewards det)) = Ok (fc_bal f') /\
  fc_per_block f' = fc_per_block f /\ h_tokens (fc_h f') = toks /\ nonneg_acc f'.

Lemma claim_summary f dest user f' outs det :
  FInv f -> nonneg_acc f -> 0 <= fc_per_block f ->
  claim_rewards f dest user = Ok (f', outs, det) ->
  touch_summary f (accumulate_additional f (cur_week f)) f' user det.
Proof.
  intros (Hwf & Hinv & Hlast) Hnn Hpb Hc. unfold touch_summary.
  set (cw := cur_week f). set (f1 := accumulate_additional f cw). set (toks := h_tokens (fc_h f)).
  destruct (claim_rewards_char _ _ _ _ _ _ Hwf Hc) as (cw0 & Hcw & Hm & Hpa & _ & Hpay).
  pose proof (current_week_cur _ _ Hcw) as Hcur. fold cw in Hcur. subst cw0.
  destruct (claim_rewards_env _ _ _ _ _ _ Hc) as (e1 & e2 & _ & e4 & _).
  pose proof Hwf as (cw0 & Hcw0 & Hprog & Hfac & Hnd). rewrite Hcw in Hcw0. inversion Hcw0; subst cw0; clear Hcw0.
  unfold claim_rewards in Hc. rewrite Hcw in Hc. simpl bind in Hc. fold f1 in Hc.
  apply bind_ok in Hc. destruct Hc as ([[h2 w2] det2] & Hcm & Hc).
  apply bind_ok in Hc. destruct Hc as (bal' & _ & Hc). inversion Hc; subst; clear Hc.
  assert (Haw : fc_w f1 = fc_w f) by apply accumulate_additional_w.
  rewrite Haw in Hcm. unfold f1 in Hcm at 2. rewrite energy_entry_accumulate in Hcm.
  assert (Hwfu : forall p, pfind (w_prog (fc_w f)) user = Some p -> 0 <= en_tok (pr_en p)).
  { intros p Hp. apply pfind_in in Hp. rewrite Forall_forall in Hprog. apply (Hprog _ Hp). }
  destruct (claim_multi_spec fhost fc_hook fc_hook_frame _ _ _ _ _ _ _ _ Hwfu Hcm)
    as (s1 & s2 & Hu & Hsbr & Hs' & _ & Hmm).
  destruct (update_user_energy_frame _ _ _ _ _ Hu) as (_ & Hl1 & Hen1 & Hrw).
  pose proof (update_user_energy_cleared _ _ _ _ _ Hu) as Hclr.
  destruct (accumulate_additional_env f cw) as (_ & _ & _ & _ & Htk). fold f1 in Htk.
  pose proof max_weeks_nonneg as HM.
  assert (Hnn1 : forall w t, 0 <= acc_get (fc_h f1) w t).
  { intros w t. change (0 <= view_accumulated f1 w t). unfold f1. rewrite accumulate_additional_acc.
    specialize (Hnn w t). pose proof weekly_params as (_ & _ & HB).
    destruct (negb (fc_lock_week f =? cw) && (w =? cw - 1) && (t =? LOCKED)); nia. }
  assert (Hnd1 : NoDup (h_tokens (fc_h f1))) by (rewrite Htk; exact Hnd).
  (* what the claim loop does to rewards and accumulations *)
  assert (Hloop : (forall w, ~ In w (map fst det) -> rget (w_rewards s2) w = rget (w_rewards s1) w) /\
                  (forall w, rget (w_rewards s1) w <> [] -> rget (w_rewards s2) w = rget (w_rewards s1) w) /\
                  (forall w, rget (w_rewards s1) w = [] -> rget (w_rewards s2) w <> [] ->
                     In w (map fst det) /\
                     rget (w_rewards s2) w = positive_part (map (fun t => (t, acc_get (fc_h f1) w t)) toks) /\
                     (forall t, In t toks -> acc_get h2 w t = 0)) /\
                  (forall w t, 0 <= acc_get h2 w t) /\
                  (forall w t, (rget (w_rewards s1) w <> [] \/ rget (w_rewards s2) w = [] \/ ~ In t toks) ->
                               acc_get h2 w t = acc_get (fc_h f1) w t)).
  { destruct (pfind (w_prog (fc_w f)) user) as [p|] eqn:Ep.
    - destruct Hmm as (Hle & Hmap & Hcw2).
      assert (Htp : 0 <= en_tok (pr_en (adv p (first_claim_week p cw - pr_week p)))) by (rewrite adv_tok; apply Hwfu; reflexivity).
      destruct (fc_claim_weeks_shares _ _ _ _ _ _ _ _ Htp Hcw2) as (_ & Hout & Hfz).
      pose proof (fc_claim_weeks_collect _ _ _ _ _ _ _ _ Htp Hnd1 Hcw2) as Hcol.
      destruct (fc_claim_weeks_acc _ _ _ _ _ _ _ _ Htp Hnd1 Hnn1 Hcw2) as (Hnn2 & Hacc2).
      rewrite adv_week in Hout, Hcol.
      replace (pr_week p + (first_claim_week p cw - pr_week p)) with (first_claim_week p cw) in Hout, Hcol by lia.
      rewrite <- Hmap in Hout, Hcol. rewrite Htk in Hcol, Hacc2.
      split; [exact Hout|]. split; [exact Hfz|]. split; [exact Hcol|]. split; [exact Hnn2 | exact Hacc2].
    - destruct Hmm as (-> & -> & ->). split; [reflexivity|]. split; [reflexivity|].
      split; [intros w He Hne; contradiction|]. split; [exact Hnn1 | reflexivity]. }
  destruct Hloop as (Hout & Hfz & Hcol & Hnn2 & Hacc2).
  assert (Hwin : forall w, In w (map fst det) -> cw - MAXW <= w < cw).
  { intros w Hin. unfold view_progress in Hm. destruct (pfind (w_prog (fc_w f)) user) as [p|].
    - destruct Hm as (_ & Hmap & _). rewrite Hmap in Hin. apply zseq_in in Hin. unfold first_claim_week, nr_claim_weeks in Hin. lia.
    - subst det. destruct Hin. }
  unfold view_total_energy, view_total_rewards, view_accumulated, nonneg_acc. simpl fc_w. simpl fc_h. simpl fc_per_block.
  subst w2. rewrite store_progress_rewards, store_progress_energy.
  assert (Hen2 : w_energy s2 = w_energy s1) by apply Hsbr.
  (* a week whose total stays as it is keeps its accumulations *)
  assert (Hsame : forall w, rget (w_rewards s2) w = rget (w_rewards s1) w -> forall t, acc_get h2 w t = acc_get (fc_h f1) w t).
  { intros w Hw t. apply Hacc2. destruct (rget (w_rewards s1) w) eqn:E1; [right; left; exact Hw | left; discriminate]. }
  split; [exact Hcw|]. split; [unfold cur_week; rewrite e1, e2; reflexivity|].
  split; [destruct Hsbr as (_ & _ & _ & f4 & _); unfold store_progress; destruct (0 <? en_amount _); simpl; congruence|].
  split; [exact Hpa|].
  split.
  { intros w Hw. rewrite Hen2. destruct (Z.eq_dec w (cleared_week cw)) as [->|Hcl].
    - assert (Hnot : ~ In (cleared_week cw) (map fst det)) by (intros Hin; apply Hwin in Hin; unfold cleared_week in Hin; lia).
      specialize (Hout _ Hnot).
      destruct Hclr as [(Ha & Hb)|(Ha & Hb)].
      + left. split; [exact Ha|]. split; [rewrite Hout; exact Hb | apply Hsame; exact Hout].
      + right. left. split; [reflexivity|]. split; [exact Ha|]. split; [rewrite Hout; exact Hb | apply Hsame; exact Hout].
    - specialize (Hen1 w Hw Hcl). specialize (Hrw w Hcl).
      destruct (rget (w_rewards s1) w) as [|x1 t1] eqn:E1.
      + destruct (rget (w_rewards s2) w) as [|x2 t2] eqn:E2.
        * left. split; [exact Hen1|]. split; [rewrite <- Hrw; reflexivity | apply Hsame; rewrite E1, E2; reflexivity].
        * right. right.
          destruct (Hcol w E1 ltac:(rewrite E2; discriminate)) as (Hin & Hpp & Hzero).
          split; [exact Hen1|]. split; [symmetry; exact Hrw|]. split; [apply Hwin; exact Hin|].
          split; [rewrite <- E2; exact Hpp|].
          intros t. destruct (mem t toks) eqn:Em.
          -- apply Hzero. apply mem_in. exact Em.
          -- apply Hacc2. right. right. intros Hin'. apply mem_in in Hin'. congruence.
      + left. assert (Hne : rget (w_rewards s1) w <> []) by (rewrite E1; discriminate).
        split; [exact Hen1|]. split; [rewrite (Hfz _ Hne), E1; exact Hrw | apply Hsame; apply Hfz; exact Hne]. }
  split.
  { assert (Hnot : ~ In cw (map fst det)) by (intros Hin; apply Hwin in Hin; lia).
    specialize (Hout _ Hnot). split; [rewrite Hout; apply Hrw; unfold cleared_week; lia | apply Hsame; exact Hout]. }
  split.
  { unfold view_progress in *. destruct (pfind (w_prog (fc_w f)) user) as [p|]; [|exact Hm].
    destruct Hm as (Hle & Hmap & Hsh). split; [exact Hle|]. split; [exact Hmap|].
    intros w r Hin. rewrite (Hsh w r Hin). unfold view_total_rewards, view_total_energy. simpl.
    rewrite store_progress_rewards. reflexivity. }
  split; [exact Hpay|]. split; [unfold f1, accumulate_additional; destruct (fc_lock_week f =? cw); reflexivity|].
  split; [exact e4 | exact Hnn2].
Qed.

(** ------------------------------------------------------------------ ghost ledger of a history *)
Record ghost := mkG {
  g_paid : list (Z * Z * Z);      (* (week, token, amount) paid out by claims *)
  g_used : list (Z * Z);          (* (week, energy) the claims of that week's rewards were computed with *)
  g_cred : list (Z * Z * Z)       (* (week, token, amount) deposited for the week *)
}.
Definition g0 : ghost := mkG [] [] [].

Definition sum3 (l : list (Z * Z * Z)) (w t : Z) : Z :=
  fold_right (fun e acc => if (fst (fst e) =? w) && (snd (fst e) =? t) then snd e + acc else acc) 0 l.
Definition sum2 (l : list (Z * Z)) (w : Z) : Z :=
  fold_right (fun e acc => if fst e =? w then snd e + acc else acc) 0 l.

Lemma sum3_app l1 l2 w t : sum3 (l1 ++ l2) w t = sum3 l1 w t + sum3 l2 w t.
Proof. induction l1 as [|e tl IH]; simpl; [lia|]. destruct ((fst (fst e) =? w) && (snd (fst e) =? t)); rewrite IH; lia. Qed.
Lemma sum2_app l1 l2 w : sum2 (l1 ++ l2) w = sum2 l1 w + sum2 l2 w.
Proof. induction l1 as [|e tl IH]; simpl; [lia|]. destruct (fst e =? w); rewrite IH; lia. Qed.

Definition pay_entries (det : detail) : list (Z * Z * Z) :=
  flat_map (fun wr => map (fun ta => (fst wr, fst ta, snd ta)) (snd wr)) det.
Definition used_entries (op : option progress) (det : detail) : list (Z * Z) :=
  match op with Some p => map (fun wr => (fst wr, energy_at p (fst wr))) det | None => [] end.
Definition extra_credit (f : fc) : list (Z * Z * Z) :=
  if fc_lock_week f =? cur_week f then [] else [(cur_week f - 1, LOCKED, fc_per_block f * BLOCKS_IN_WEEK)].

Definition gstep (fg : fc * ghost) (op : fop) : fc * ghost :=
  let '(f, g) := fg in
  match step f op with
  | Err _ => (f, g)
  | Ok (f', _, det) =>
      (f', match op with
           | Deposit c tok nonce amt => mkG (g_paid g) (g_used g) (g_cred g ++ [(cur_week f, tok, amt)])
           | Claim c orig b =>
               mkG (g_paid g ++ pay_entries det)
                   (g_used g ++ used_entries (view_progress f (claim_user c orig)) det)
                   (g_cred g ++ extra_credit f)
           | SetPerBlock _ _ => mkG (g_paid g) (g_used g) (g_cred g ++ extra_credit f)
           | _ => g
           end)
  end.

Definition grun (fg : fc * ghost) (ops : list fop) : fc * ghost := fold_left gstep ops fg.

Lemma grun_fst ops : forall f g, fst (grun (f, g) ops) = run f ops.
Proof.
  unfold grun, run. induction ops as [|op t IH]; intros f g; simpl; [reflexivity|].
  unfold step_total. destruct (step f op) as [[[f' o] d]|]; apply IH.
Qed.

Lemma sum3_map_week w0 (r : list (Z * Z)) w t :
  sum3 (map (fun ta => (w0, fst ta, snd ta)) r) w t = if w0 =? w then tok_sum r t else 0.
Proof.
  induction r as [|[t0 a] tl IH]; simpl; [destruct (w0 =? w); reflexivity|].
  rewrite IH. destruct (w0 =? w); simpl; [destruct (t0 =? t); reflexivity | reflexivity].
Qed.

Lemma pay_entries_sum det w t : NoDup (map fst det) ->
  (forall r, In (w, r) det -> sum3 (pay_entries det) w t = tok_sum r t) /\
  (~ In w (map fst det) -> sum3 (pay_entries det) w t = 0).
Proof.
  induction det as [|[w0 r0] tl IH]; simpl; intros Hnd.
  - split; [intros r [] | reflexivity].
  - inversion Hnd as [|? ? Hnin Hnd']; subst. destruct (IH Hnd') as (IH1 & IH2).
    rewrite sum3_app, sum3_map_week. split.
    + intros r [Heq|Hin].
      * inversion Heq; subst. rewrite Z.eqb_refl, IH2 by exact Hnin. lia.
      * destruct (w0 =? w) eqn:E; [apply Z.eqb_eq in E; subst; exfalso; apply Hnin; apply (in_map fst) in Hin; exact Hin|].
        rewrite (IH1 _ Hin). lia.
    + intros Hn. destruct (w0 =? w) eqn:E; [apply Z.eqb_eq in E; subst; exfalso; apply Hn; left; reflexivity|].
      rewrite IH2; [lia | intros Hin; apply Hn; right; exact Hin].
Qed.

Lemma used_entries_sum p det w : NoDup (map fst det) ->
  sum2 (used_entries (Some p) det) w = if existsb (Z.eqb w) (map fst det) then energy_at p w else 0.
Proof.
  simpl. induction det as [|[w0 r0] tl IH]; simpl; intros Hnd; [reflexivity|].
  inversion Hnd as [|? ? Hnin Hnd']; subst. rewrite (IH Hnd'). rewrite (Z.eqb_sym w w0).
  destruct (w0 =? w) eqn:E; simpl; [|reflexivity].
  apply Z.eqb_eq in E. subst.
  destruct (existsb (Z.eqb w) (map fst tl)) eqn:Ex; [|lia].
  exfalso. apply Hnin. apply existsb_exists in Ex. destruct Ex as (x & Hx & He). apply Z.eqb_eq in He. subst. exact Hx.
Qed.

Lemma existsb_in w l : existsb (Z.eqb w) l = true <-> In w l.
Proof.
  rewrite existsb_exists. split; [intros (x & Hx & He); apply Z.eqb_eq in He; subst; exact Hx | intros H; exists w; split; [exact H | apply Z.eqb_refl]].
Qed.

(** sum of a token over a positive part of per-token accumulations *)
Lemma tok_sum_positive_part (g : Z -> Z) toks t : NoDup toks -> (forall x, 0 <= g x) ->
  tok_sum (positive_part (map (fun x => (x, g x)) toks)) t = if mem t toks then g t else 0.
Proof.
  unfold positive_part. intros Hnd Hg. induction toks as [|x tl IH]; simpl; [reflexivity|].
  inversion Hnd as [|? ? Hnin Hnd']; subst. specialize (IH Hnd').
  rewrite (Z.eqb_sym t x). destruct (0 <? g x) eqn:Ep; simpl.
  - destruct (x =? t) eqn:Ex; simpl.
    + apply Z.eqb_eq in Ex. subst. rewrite IH. destruct (mem t tl) eqn:Em; [apply mem_in in Em; contradiction | lia].
    + exact IH.
  - rewrite IH. destruct (x =? t) eqn:Ex; simpl; [|reflexivity].
    apply Z.eqb_eq in Ex. subst. apply Z.ltb_ge in Ep. specialize (Hg t).
    destruct (mem t tl) eqn:Em; [apply mem_in in Em; contradiction | lia].
Qed.

Lemma positive_part_nonneg l : Forall (fun p : Z * Z => 0 <= snd p) (positive_part l).
Proof.
  unfold positive_part. apply Forall_forall. intros p Hin. apply filter_In in Hin. destruct Hin as (_ & Hp).
  apply Z.ltb_lt in Hp. lia.
Qed.

Lemma tok_sum_nonneg l t : Forall (fun p : Z * Z => 0 <= snd p) l -> 0 <= tok_sum l t.
Proof.
  induction l as [|[t0 a] tl IH]; simpl; intros Hall; [lia|]. inversion Hall; subst. simpl in *.
  specialize (IH H2). destruct (t0 =? t); lia.
Qed.

(** ------------------------------------------------------------------ sums over a window of weeks *)
Definition wsum (g : Z -> Z) (a : Z) (n : nat) : Z := zsum (map g (zseq a n)).

Lemma wsum_S g a n : wsum g a (S n) = g a + wsum g (a + 1) n.
Proof. reflexivity. Qed.

Lemma wsum_ext g h a n : (forall w, a <= w < a + Z.of_nat n -> g w = h w) -> wsum g a n = wsum h a n.
Proof.
  revert a. induction n as [|n IH]; intros a Hgh; [reflexivity|]. rewrite !wsum_S.
  rewrite (Hgh a) by lia. rewrite (IH (a + 1)); [reflexivity|]. intros w Hw. apply Hgh. lia.
Qed.

Lemma wsum_le g h a n : (forall w, a <= w < a + Z.of_nat n -> g w <= h w) -> wsum g a n <= wsum h a n.
Proof.
  revert a. induction n as [|n IH]; intros a Hgh; [unfold wsum; simpl; lia|]. rewrite !wsum_S.
  pose proof (Hgh a ltac:(lia)). assert (wsum g (a + 1) n <= wsum h (a + 1) n) by (apply IH; intros w Hw; apply Hgh; lia). lia.
Qed.

Lemma wsum_nonneg g a n : (forall w, a <= w < a + Z.of_nat n -> 0 <= g w) -> 0 <= wsum g a n.
Proof.
  revert a. induction n as [|n IH]; intros a Hg; [unfold wsum; simpl; lia|]. rewrite wsum_S.
  pose proof (Hg a ltac:(lia)). assert (0 <= wsum g (a + 1) n) by (apply IH; intros w Hw; apply Hg; lia). lia.
Qed.

Lemma wsum_add g h a n : wsum (fun w => g w + h w) a n = wsum g a n + wsum h a n.
Proof. revert a. induction n as [|n IH]; intros a; [reflexivity|]. rewrite !wsum_S, IH. lia. Qed.

Lemma wsum_snoc g a n : wsum g a (S n) = wsum g a n + g (a + Z.of_nat n).
Proof.
  revert a. induction n as [|n IH]; intros a.
  - unfold wsum; simpl. rewrite !Z.add_0_r. lia.
  - rewrite wsum_S, IH, (wsum_S g a n). replace (a + 1 + Z.of_nat n) with (a + Z.of_nat (S n)) by lia. lia.
Qed.

(** sliding the window forward over weeks that hold nothing yet *)
Lemma wsum_slide g a n d : (forall w, 0 <= g w) -> (forall w, a + Z.of_nat n <= w -> g w = 0) ->
  wsum g (a + Z.of_nat d) n <= wsum g a n.
Proof.
  intros Hnn Hz. induction d as [|d IH]; [rewrite Z.add_0_r; lia|].
  assert (Hstep : wsum g (a + Z.of_nat (S d)) n = wsum g (a + Z.of_nat d) n - g (a + Z.of_nat d) + g (a + Z.of_nat d + Z.of_nat n)).
  { pose proof (wsum_S g (a + Z.of_nat d) n) as H1. pose proof (wsum_snoc g (a + Z.of_nat d) n) as H2.
    replace (a + Z.of_nat (S d)) with (a + Z.of_nat d + 1) by lia. lia. }
  rewrite Hstep. rewrite (Hz (a + Z.of_nat d + Z.of_nat n)) by lia. specialize (Hnn (a + Z.of_nat d)). lia.
Qed.

Ltac b2p := repeat match goal with
  | H : (_ && _) = true |- _ => apply andb_prop in H; destruct H
  | H : (_ && _) = false |- _ => apply andb_false_iff in H; destruct H
  | H : (_ =? _) = true |- _ => apply Z.eqb_eq in H
  | H : (_ =? _) = false |- _ => apply Z.eqb_neq in H
  | H : (_ <=? _) = true |- _ => apply Z.leb_le in H
  | H : (_ <=? _) = false |- _ => apply Z.leb_gt in H
  | H : (_ <? _) = true |- _ => apply Z.ltb_lt in H
  | H : (_ <? _) = false |- _ => apply Z.ltb_ge in H end.

Lemma wsum_indicator (w0 c : Z) a n :
  wsum (fun w => if w0 =? w then c else 0) a n = if (a <=? w0) && (w0 <? a + Z.of_nat n) then c else 0.
Proof.
  revert a. induction n as [|n IH]; intros a.
  - unfold wsum; simpl. destruct ((a <=? w0) && (w0 <? a + 0)) eqn:E; [b2p; lia | reflexivity].
  - rewrite wsum_S, IH.
    destruct (w0 =? a) eqn:E0; destruct ((a + 1 <=? w0) && (w0 <? a + 1 + Z.of_nat n)) eqn:E1;
      destruct ((a <=? w0) && (w0 <? a + Z.of_nat (S n))) eqn:E2; b2p; lia.
Qed.

(** payments: the balances move by exactly the per-token totals *)
Lemma pay_out_effect ps : forall bal bal', pay_out bal ps = Ok bal' ->
  forall t, aget bal' t = aget bal t - tok_sum ps t.
Proof.
  induction ps as [|[t0 a] tl IH]; intros bal bal'; simpl.
  - intros Heq; inversion Heq; subst. intros; lia.
  - intros Heq. apply bind_ok in Heq. destruct Heq as (b & Hb & Heq). apply sub_chk_ok in Hb. destruct Hb as (_ & ->).
    intros t. rewrite (IH _ _ Heq t), aget_aset_pt. destruct (t0 =? t) eqn:E; [apply Z.eqb_eq in E; subst|]; lia.
Qed.

Lemma pay_out_total ps : forall bal, Forall (fun p : Z * Z => 0 <= snd p) ps ->
  (forall t, tok_sum ps t <= aget bal t) -> exists bal', pay_out bal ps = Ok bal'.
Proof.
  induction ps as [|[t0 a] tl IH]; intros bal Hnn Hle; simpl; [eexists; reflexivity|].
  inversion Hnn as [|? ? Ha Htl]; subst. simpl in Ha.
  pose proof (Hle t0) as H0. simpl in H0. rewrite Z.eqb_refl in H0.
  pose proof (tok_sum_nonneg tl t0 Htl).
  rewrite sub_chk_ge by lia. simpl bind. apply IH; [exact Htl|].
  intros t. rewrite aget_aset_pt. specialize (Hle t). simpl in Hle.
  destruct (t0 =? t) eqn:E; [apply Z.eqb_eq in E; subst|]; lia.
Qed.

(** ------------------------------------------------------------------ the ledger invariant *)
Definition gE (f : fc) (w : Z) : Z := view_total_energy f w.
Definition gR (f : fc) (w t : Z) : Z := tok_sum (view_total_rewards f w) t.
Definition gA (f : fc) (w t : Z) : Z := view_accumulated f w t.
Definition paid (g : ghost) (w t : Z) : Z := sum3 (g_paid g) w t.
Definition used (g : ghost) (w : Z) : Z := sum2 (g_used g) w.
Definition cred (g : ghost) (w t : Z) : Z := sum3 (g_cred g) w t.
(** energy of the recorded users that can still claim week [w] *)
Definition owed_at (w : Z) (p : progress) : Z := if pr_week p <=? w then energy_at p w else 0.
Definition owed (f : fc) (w : Z) : Z := psum (owed_at w) (w_prog (fc_w f)).
(** what the collector may still have to hand out of week [w] in token [t] *)
Definition pot (f : fc) (g : ghost) (t w : Z) : Z := gA f w t + Z.max 0 (gR f w t - paid g w t).
Definition window_len : nat := S (Z.to_nat MAXW).

Record DInv (f : fc) (g : ghost) : Prop := mkD {
  d_E0 : forall w, 0 <= gE f w;
  d_Efut : forall w, w_last (fc_w f) < w -> gE f w = 0;
  d_Rfut : forall w, w_last (fc_w f) <= w -> view_total_rewards f w = [];
  d_Rnn : forall w, Forall (fun p => 0 <= snd p) (view_total_rewards f w);
  d_A0 : nonneg_acc f;
  d_Afut : forall w t, cur_week f < w -> gA f w t = 0;
  d_pb : 0 <= fc_per_block f;
  d_paid0 : forall w t, 0 <= paid g w t;
  d_used0 : forall w, 0 <= used g w;
  d_paidfut : forall w t, w_last (fc_w f) <= w -> paid g w t = 0;
  d_usedfut : forall w, w_last (fc_w f) <= w -> used g w = 0;
  d_EI : forall w, w < w_last (fc_w f) -> gE f w = 0 \/ used g w + owed f w <= gE f w;
  d_PI : forall w t, paid g w t * gE f w <= gR f w t * used g w;
  d_P0 : forall w t, cur_week f - MAXW <= w -> (view_total_rewards f w = [] \/ gE f w = 0) -> paid g w t = 0;
  d_CI : forall w t, gA f w t + Z.max (gR f w t) (paid g w t) <= cred g w t;
  d_SI : forall t, t <> LOCKED -> wsum (pot f g t) (cur_week f - MAXW) window_len <= aget (fc_bal f) t
}.

Lemma pot_init epoch t w : pot (init_fc epoch) g0 t w = 0.
Proof. unfold pot, gA, gR, paid, view_accumulated, view_total_rewards, acc_get; simpl. lia. Qed.

Lemma init_dinv epoch : DInv (init_fc epoch) g0.
Proof.
  constructor; unfold gE, gR, gA, paid, used, cred, nonneg_acc, view_total_energy, view_total_rewards, view_accumulated, acc_get; simpl;
    intros; try lia; try reflexivity; try constructor.
Qed.

(** the invariant only looks at the weekly state, the accumulations, the balances and the clock *)
Lemma DInv_ext f f' g :
  fc_w f' = fc_w f -> (forall w t, view_accumulated f' w t = view_accumulated f w t) ->
  fc_bal f' = fc_bal f -> fc_per_block f' = fc_per_block f -> cur_week f' = cur_week f ->
  DInv f g -> DInv f' g.
Proof.
  intros Hw Ha Hb Hp Hc D.
  assert (HE : forall w, gE f' w = gE f w) by (intros; unfold gE, view_total_energy; rewrite Hw; reflexivity).
  assert (HR : forall w, view_total_rewards f' w = view_total_rewards f w) by (intros; unfold view_total_rewards; rewrite Hw; reflexivity).
  assert (HR2 : forall w t, gR f' w t = gR f w t) by (intros; unfold gR; rewrite HR; reflexivity).
  assert (HA : forall w t, gA f' w t = gA f w t) by (intros; apply Ha).
  assert (HO : forall w, owed f' w = owed f w) by (intros; unfold owed; rewrite Hw; reflexivity).
  constructor; intros; rewrite ?HE, ?HR, ?HR2, ?HA, ?HO, ?Hw, ?Hc, ?Hb, ?Hp in *.
  - apply (d_E0 _ _ D).
  - apply (d_Efut _ _ D); assumption.
  - apply (d_Rfut _ _ D); assumption.
  - apply (d_Rnn _ _ D).
  - intros w0 t0. rewrite Ha. apply (d_A0 _ _ D).
  - apply (d_Afut _ _ D); assumption.
  - apply (d_pb _ _ D).
  - apply (d_paid0 _ _ D).
  - apply (d_used0 _ _ D).
  - apply (d_paidfut _ _ D); assumption.
  - apply (d_usedfut _ _ D); assumption.
  - apply (d_EI _ _ D); assumption.
  - apply (d_PI _ _ D).
  - apply (d_P0 _ _ D); assumption.
  - apply (d_CI _ _ D).
  - erewrite wsum_ext; [apply (d_SI _ _ D); assumption|]. intros w0 _. unfold pot. rewrite HA, HR2. reflexivity.
Qed.

Lemma pot_nonneg f g t w : DInv f g -> 0 <= pot f g t w.
Proof. intros D. unfold pot. pose proof (d_A0 _ _ D w t). unfold gA. lia. Qed.

Lemma pot_future f g t w : FInv f -> DInv f g -> cur_week f < w -> pot f g t w = 0.
Proof.
  intros (_ & _ & Hl) D Hw. unfold pot. rewrite (d_Afut _ _ D) by exact Hw.
  unfold gR. rewrite (d_Rfut _ _ D) by lia. rewrite (d_paidfut _ _ D) by lia. simpl. lia.
Qed.

Lemma window_len_Z : Z.of_nat window_len = MAXW + 1.
Proof. unfold window_len. pose proof max_weeks_nonneg. lia. Qed.

(** time passes *)
Lemma DInv_advance f g n : FInv f -> DInv f g -> 0 <= n -> DInv (with_epoch f (fc_epoch f + n)) g.
Proof.
  intros Hi D Hn. set (f' := with_epoch f (fc_epoch f + n)).
  assert (Hcw : cur_week f <= cur_week f').
  { unfold cur_week, f'; simpl. pose proof week_pos.
    pose proof (Z.div_le_mono (fc_epoch f - fc_first_epoch f) (fc_epoch f + n - fc_first_epoch f) WK). lia. }
  constructor; try (apply D); intros.
  - apply (d_Afut _ _ D). lia.
  - apply (d_P0 _ _ D); [lia | assumption].
  - change (fc_bal f') with (fc_bal f).
    eapply Z.le_trans; [|apply (d_SI _ _ D); assumption].
    assert (Hpot : forall w, pot f' g t w = pot f g t w) by reflexivity.
    erewrite wsum_ext; [|intros; apply Hpot].
    replace (cur_week f' - MAXW) with (cur_week f - MAXW + Z.of_nat (Z.to_nat (cur_week f' - cur_week f))) by lia.
    apply wsum_slide.
    + intros w. apply pot_nonneg. exact D.
    + intros w Hw. rewrite window_len_Z in Hw. apply pot_future; [exact Hi | exact D | lia].
Qed.

(** an amount is credited to one (week, token) accumulation *)
Lemma DInv_credit f f' g w0 t0 a :
  FInv f -> DInv f g ->
  fc_w f' = fc_w f -> cur_week f' = cur_week f -> 0 <= fc_per_block f' -> 0 <= a -> w0 <= cur_week f ->
  (forall w t, view_accumulated f' w t = view_accumulated f w t + (if (w0 =? w) && (t0 =? t) then a else 0)) ->
  (forall t, t <> LOCKED -> aget (fc_bal f') t = aget (fc_bal f) t + (if t0 =? t then a else 0)) ->
  (t0 <> LOCKED -> cur_week f - MAXW <= w0) ->
  forall cr, (forall w t, sum3 cr w t = if (w0 =? w) && (t0 =? t) then a else 0) ->
  DInv f' (mkG (g_paid g) (g_used g) (g_cred g ++ cr)).
Proof.
  intros Hi D Hw Hc Hpb Ha Hw0 HA Hbal Hwin cr Hcr.
  set (g' := mkG (g_paid g) (g_used g) (g_cred g ++ cr)).
  assert (HE : forall w, gE f' w = gE f w) by (intros; unfold gE, view_total_energy; rewrite Hw; reflexivity).
  assert (HR : forall w, view_total_rewards f' w = view_total_rewards f w) by (intros; unfold view_total_rewards; rewrite Hw; reflexivity).
  assert (HR2 : forall w t, gR f' w t = gR f w t) by (intros; unfold gR; rewrite HR; reflexivity).
  assert (HO : forall w, owed f' w = owed f w) by (intros; unfold owed; rewrite Hw; reflexivity).
  assert (Hpaid : forall w t, paid g' w t = paid g w t) by reflexivity.
  assert (Hused : forall w, used g' w = used g w) by reflexivity.
  assert (Hcred : forall w t, cred g' w t = cred g w t + (if (w0 =? w) && (t0 =? t) then a else 0)).
  { intros. unfold cred, g'; simpl. rewrite sum3_app, Hcr. reflexivity. }
  constructor; intros; rewrite ?HE, ?HR, ?HR2, ?HO, ?Hw, ?Hc, ?Hpaid, ?Hused in *.
  - apply (d_E0 _ _ D).
  - apply (d_Efut _ _ D); assumption.
  - apply (d_Rfut _ _ D); assumption.
  - apply (d_Rnn _ _ D).
  - intros w t. rewrite HA. pose proof (d_A0 _ _ D w t). destruct ((w0 =? w) && (t0 =? t)); lia.
  - unfold gA. rewrite HA. assert (Ef : (w0 =? w) = false) by (apply Z.eqb_neq; lia). rewrite Ef. simpl.
    pose proof (d_Afut _ _ D w t H). unfold gA in *. lia.
  - exact Hpb.
  - apply (d_paid0 _ _ D).
  - apply (d_used0 _ _ D).
  - apply (d_paidfut _ _ D); assumption.
  - apply (d_usedfut _ _ D); assumption.
  - apply (d_EI _ _ D); assumption.
  - apply (d_PI _ _ D).
  - apply (d_P0 _ _ D); assumption.
  - rewrite Hcred. unfold gA. rewrite HA. pose proof (d_CI _ _ D w t). unfold gA in *. lia.
  - rewrite (Hbal t H).
    assert (Hpot : forall w, pot f' g' t w = pot f g t w + (if w0 =? w then (if t0 =? t then a else 0) else 0)).
    { intros w. unfold pot, gA. rewrite HA, HR2, Hpaid. destruct (w0 =? w); destruct (t0 =? t); simpl; lia. }
    erewrite wsum_ext; [|intros; apply Hpot].
    rewrite wsum_add, wsum_indicator. pose proof (d_SI _ _ D t H). rewrite window_len_Z.
    destruct (t0 =? t) eqn:Et.
    + apply Z.eqb_eq in Et. subst t0. specialize (Hwin H).
      destruct ((cur_week f - MAXW <=? w0) && (w0 <? cur_week f - MAXW + (MAXW + 1))) eqn:Eb; [lia | b2p; lia].
    + destruct ((cur_week f - MAXW <=? w0) && (w0 <? cur_week f - MAXW + (MAXW + 1))); lia.
Qed.

(** an energy update is a touch that claims nothing *)
Lemma update_summary f c u f' outs det :
  FInv f -> nonneg_acc f -> ep_update_energy f c u = Ok (f', outs, det) ->
  touch_summary f f f' u [] /\ det = [].
Proof.
  intros (Hwf & Hinv & Hlast) Hnn Hs. unfold touch_summary.
  destruct Hwf as (cw & Hcw & Hprog & Hfac & Hnd). pose proof (current_week_cur _ _ Hcw) as Hcur. subst cw.
  set (cw := cur_week f) in *.
  unfold ep_update_energy in Hs. rewrite Hcw in Hs. simpl bind in Hs.
  apply bind_ok in Hs. destruct Hs as (w' & Hu & Hs). inversion Hs; subst; clear Hs.
  unfold update_energy_for_user in Hu.
  destruct (match pfind (w_prog (fc_w f)) u with Some p => pr_week p =? cw | None => true end) eqn:Eg; [|discriminate].
  unfold update_energy_and_progress in Hu. apply bind_ok in Hu. destruct Hu as (s1 & Hu & Heq). inversion Heq; subst; clear Heq.
  destruct (update_user_energy_frame _ _ _ _ _ Hu) as (Hp1 & Hl1 & Hen1 & Hrw).
  pose proof (update_user_energy_cleared _ _ _ _ _ Hu) as Hclr.
  pose proof max_weeks_nonneg as HM.
  split; [|reflexivity].
  unfold view_total_energy, view_total_rewards, view_accumulated, nonneg_acc, view_progress. simpl fc_w. simpl fc_h. simpl fc_bal. simpl fc_per_block.
  rewrite store_progress_rewards, store_progress_energy, store_progress_prog.
  split; [exact Hcw|]. split; [reflexivity|].
  split; [unfold store_progress; destruct (0 <? en_amount _); simpl; exact Hl1|].
  split; [rewrite Hp1; reflexivity|].
  split.
  { intros w Hw. destruct (Z.eq_dec w (cleared_week cw)) as [->|Hcl].
    - destruct Hclr as [(Ha & Hb)|(Ha & Hb)].
      + left. split; [exact Ha|]. split; [exact Hb | reflexivity].
      + right. left. split; [reflexivity|]. split; [exact Ha|]. split; [exact Hb | reflexivity].
    - left. split; [apply Hen1; assumption|]. split; [apply Hrw; exact Hcl | reflexivity]. }
  split; [split; [apply Hrw; unfold cleared_week; lia | reflexivity]|].
  split.
  { destruct (pfind (w_prog (fc_w f)) u) as [p|]; [|reflexivity].
    apply Z.eqb_eq in Eg. split; [lia|]. split; [|intros w r []].
    unfold nr_claim_weeks. rewrite Eg, Z.sub_diag, Z.min_l by lia. reflexivity. }
  split; [reflexivity|]. split; [reflexivity|]. split; [reflexivity | exact Hnn].
Qed.

Lemma tok_sum_unlocked l t : t <> LOCKED -> tok_sum (unlocked_part l) t = tok_sum l t.
Proof.
  intros Ht. unfold unlocked_part. induction l as [|[t0 a] tl IH]; simpl; [reflexivity|].
  destruct (t0 =? LOCKED) eqn:El; simpl.
  - apply Z.eqb_eq in El. subst t0. destruct (LOCKED =? t) eqn:E; [apply Z.eqb_eq in E; congruence | exact IH].
  - rewrite IH. reflexivity.
Qed.

Lemma tok_sum_flat det t : tok_sum (flat_rewards det) t = zsum (map (fun wr => tok_sum (snd wr) t) det).
Proof.
  unfold flat_rewards. induction det as [|[w r] tl IH]; simpl; [reflexivity|]. rewrite tok_sum_app, IH. reflexivity.
Qed.

(** summing the new payment entries over a window that contains all claimed weeks gives the claim's total *)
Lemma wsum_pay_entries det t a n : NoDup (map fst det) ->
  (forall w, In w (map fst det) -> a <= w < a + Z.of_nat n) ->
  wsum (fun w => sum3 (pay_entries det) w t) a n = zsum (map (fun wr => tok_sum (snd wr) t) det).
Proof.
  induction det as [|[w0 r0] tl IH]; intros Hnd Hin.
  - simpl. clear. revert a. induction n as [|n IH]; intros a; [reflexivity|]. rewrite wsum_S, IH. simpl. lia.
  - inversion Hnd as [|? ? Hnin Hnd']; subst. simpl map. simpl zsum.
    rewrite <- IH; [|exact Hnd' | intros w Hw; apply Hin; right; exact Hw].
    assert (Hpt : forall w, sum3 (pay_entries ((w0, r0) :: tl)) w t = (if w0 =? w then tok_sum r0 t else 0) + sum3 (pay_entries tl) w t).
    { intros w. simpl. rewrite sum3_app, sum3_map_week. reflexivity. }
    erewrite wsum_ext; [|intros; apply Hpt]. rewrite wsum_add, wsum_indicator.
    pose proof (Hin w0 (or_introl eq_refl)) as Hw0.
    destruct ((a <=? w0) && (w0 <? a + Z.of_nat n)) eqn:Eb; [reflexivity | b2p; lia].
Qed.

Lemma owed_at_nonneg w p : 0 <= owed_at w p.
Proof. unfold owed_at. destruct (pr_week p <=? w); [apply energy_at_nonneg | lia]. Qed.

(** ------------------------------------------------------------------ a touch preserves the ledger invariant *)
Lemma touch_preserves f f1 f' user det g :
  FInv f -> FInv f' -> DInv f1 g ->
  fc_w f1 = fc_w f -> fc_bal f1 = fc_bal f -> cur_week f1 = cur_week f -> fc_per_block f1 = fc_per_block f ->
  touch_summary f f1 f' user det ->
  DInv f' (mkG (g_paid g ++ pay_entries det) (g_used g ++ used_entries (view_progress f user) det) (g_cred g)) /\
  (* what the touch pays in a fungible token is covered by what the window still held *)
  (forall t, t <> LOCKED ->
     tok_sum (unlocked_part (flat_rewards det)) t <= wsum (pot f1 g t) (cur_week f - MAXW) window_len).
Proof.
  intros Hi Hi' D Hw1 Hb1 Hc1 Hp1 Hts. unfold touch_summary in Hts.
  set (cw := cur_week f) in *. set (toks := h_tokens (fc_h f)) in *.
  destruct Hts as (Hcw & Hcw' & HL' & Hprog' & Hweeks & Hcwk & Hdet & Hpay & Hpb' & Htoks' & Hnn').
  set (pop := view_progress f user) in *.
  set (g' := mkG (g_paid g ++ pay_entries det) (g_used g ++ used_entries pop det) (g_cred g)).
  set (L := w_last (fc_w f)).
  pose proof max_weeks_nonneg as HM.
  destruct Hi as (Hwf & Hinv & HLcw). fold L cw in HLcw.
  assert (Hnd : NoDup toks) by (destruct Hwf as (? & _ & _ & _ & Hx); exact Hx).
  (* the invariant of [f1] read in terms of [f] *)
  assert (HE1 : forall w, gE f1 w = gE f w) by (intros; unfold gE, view_total_energy; rewrite Hw1; reflexivity).
  assert (HR1 : forall w, view_total_rewards f1 w = view_total_rewards f w) by (intros; unfold view_total_rewards; rewrite Hw1; reflexivity).
  assert (HRt1 : forall w t, gR f1 w t = gR f w t) by (intros; unfold gR; rewrite HR1; reflexivity).
  assert (HO1 : forall w, owed f1 w = owed f w) by (intros; unfold owed; rewrite Hw1; reflexivity).
  assert (HL1 : w_last (fc_w f1) = L) by (unfold L; rewrite Hw1; reflexivity).
  assert (DE0 := d_E0 _ _ D). assert (DEfut := d_Efut _ _ D). assert (DRfut := d_Rfut _ _ D).
  assert (DRnn := d_Rnn _ _ D). assert (DA0 := d_A0 _ _ D). assert (DAfut := d_Afut _ _ D).
  assert (Dpaid0 := d_paid0 _ _ D). assert (Dused0 := d_used0 _ _ D). assert (Dpaidfut := d_paidfut _ _ D).
  assert (Dusedfut := d_usedfut _ _ D). assert (DEI := d_EI _ _ D). assert (DPI := d_PI _ _ D).
  assert (DP0 := d_P0 _ _ D). assert (DCI := d_CI _ _ D). assert (DSI := d_SI _ _ D).
  setoid_rewrite HE1 in DE0. setoid_rewrite HE1 in DEfut. setoid_rewrite HR1 in DRfut. setoid_rewrite HR1 in DRnn.
  setoid_rewrite HE1 in DEI. setoid_rewrite HO1 in DEI. setoid_rewrite HE1 in DPI. setoid_rewrite HRt1 in DPI.
  setoid_rewrite HE1 in DP0. setoid_rewrite HR1 in DP0. setoid_rewrite HRt1 in DCI.
  rewrite HL1 in *. rewrite Hc1 in *. fold cw in DAfut, DP0, DSI.
  (* new ghost sums *)
  set (x := fun w t => sum3 (pay_entries det) w t). set (y := fun w => sum2 (used_entries pop det) w).
  assert (Hpaid' : forall w t, paid g' w t = paid g w t + x w t) by (intros; unfold paid, g', x; simpl; apply sum3_app).
  assert (Hused' : forall w, used g' w = used g w + y w) by (intros; unfold used, g', y; simpl; apply sum2_app).
  assert (Hcred' : forall w t, cred g' w t = cred g w t) by reflexivity.
  (* the claimed weeks *)
  set (W := map fst det).
  assert (HW : NoDup W /\ forall w, In w W -> cw - MAXW <= w < cw /\ exists p, pop = Some p /\ pr_week p <= w).
  { unfold W. destruct pop as [p|] eqn:Epop.
    - destruct Hdet as (Hle & Hmap & _). rewrite Hmap. split; [apply zseq_nodup|].
      intros w Hin. apply zseq_in in Hin. unfold first_claim_week, nr_claim_weeks in Hin.
      split; [lia|]. exists p. split; [reflexivity | lia].
    - subst det. split; [constructor | intros w []]. }
  destruct HW as (HWnd & HWin).
  assert (Hxy0 : forall w, ~ In w W -> (forall t, x w t = 0) /\ y w = 0).
  { intros w Hn. split.
    - intros t. unfold x. apply (pay_entries_sum det w t HWnd). exact Hn.
    - unfold y. destruct pop as [p|]; [|reflexivity]. rewrite used_entries_sum by exact HWnd.
      destruct (existsb (Z.eqb w) (map fst det)) eqn:Ex; [apply existsb_in in Ex; contradiction | reflexivity]. }
  assert (Hxy1 : forall w, In w W -> exists p r, pop = Some p /\ In (w, r) det /\ pr_week p <= w /\
                   (forall t, x w t = tok_sum r t) /\ y w = energy_at p w /\
                   r = week_share (view_total_rewards f' w) (energy_at p w) (gE f w)).
  { intros w Hin. destruct (HWin w Hin) as (_ & p & Hp & Hle).
    unfold W in Hin. apply in_map_iff in Hin. destruct Hin as ([w0 r] & Hfst & Hin). simpl in Hfst. subst w0.
    exists p, r. split; [exact Hp|]. split; [exact Hin|]. split; [exact Hle|].
    split; [intros t; unfold x; apply (pay_entries_sum det w t HWnd); exact Hin|].
    split.
    - unfold y. rewrite Hp, used_entries_sum by exact HWnd.
      assert (Ex : existsb (Z.eqb w) (map fst det) = true) by (apply existsb_in; apply (in_map fst) in Hin; exact Hin).
      rewrite Ex. reflexivity.
    - rewrite Hp in Hdet. destruct Hdet as (_ & _ & Hsh). apply (Hsh _ _ Hin). }
  (* rewards stay non-negative *)
  assert (Rnn' : forall w, Forall (fun p => 0 <= snd p) (view_total_rewards f' w)).
  { intros w. destruct (Z.eq_dec w cw) as [->|Hne].
    - destruct Hcwk as (-> & _). apply DRnn.
    - destruct (Hweeks w Hne) as [(_ & -> & _)|[(_ & _ & -> & _)|(_ & _ & _ & -> & _)]];
        [apply DRnn | constructor | apply positive_part_nonneg]. }
  assert (HRt'nn : forall w t, 0 <= gR f' w t) by (intros; apply tok_sum_nonneg; apply Rnn').
  assert (HRtnn : forall w t, 0 <= gR f w t) by (intros; apply tok_sum_nonneg; apply DRnn).
  (* bounds on the new payments *)
  assert (Xb : forall w t, 0 <= x w t /\ 0 <= y w /\ x w t * gE f w <= gR f' w t * y w /\
                           (gE f w = 0 -> x w t = 0) /\ (view_total_rewards f' w = [] -> x w t = 0)).
  { intros w t. destruct (in_dec Z.eq_dec w W) as [Hin|Hn].
    - destruct (Hxy1 w Hin) as (p & r & _ & _ & _ & Hx & Hy & Hr). rewrite Hx, Hy.
      pose proof (energy_at_nonneg p w) as He. pose proof (DE0 w) as HE. pose proof (HRt'nn w t) as HRn.
      unfold week_share in Hr. destruct ((energy_at p w =? 0) || (gE f w =? 0)) eqn:Ez.
      + subst r. simpl. repeat split; try lia; nia.
      + apply orb_false_iff in Ez. destruct Ez as (Ez1 & Ez2). apply Z.eqb_neq in Ez1. apply Z.eqb_neq in Ez2.
        assert (HEp : 0 < gE f w) by lia.
        destruct (tok_sum_shares_le (view_total_rewards f' w) (energy_at p w) (gE f w) t HEp He (Rnn' w)) as (H1 & H2).
        rewrite <- Hr in H1, H2. unfold gR. repeat split; try lia.
        intros Hnil. rewrite Hnil in Hr. subst r. reflexivity.
    - destruct (Hxy0 w Hn) as (Hx0 & Hy0). rewrite Hx0, Hy0. pose proof (HRt'nn w t). repeat split; lia. }
  (* users that can still claim a week *)
  destruct Hinv as (Hok & HBI & _).
  assert (Hokl : NoDup (map fst (w_prog (fc_w f))) /\ forall u p, In (u, p) (w_prog (fc_w f)) -> pr_week p <= L).
  { destruct Hok as (H1 & H2). split; [exact H1|]. intros u p Hin. rewrite Forall_forall in H2. apply (H2 _ Hin). }
  destruct Hokl as (Hndl & Hweekl).
  assert (Howed' : forall w, w < cw -> owed f' w = owed f w - f_old (owed_at w) pop).
  { intros w Hw. unfold owed. rewrite Hprog', psum_progress_after.
    - unfold owed_at at 3. simpl. assert (Ef : (cw <=? w) = false) by (apply Z.leb_gt; lia). rewrite Ef. unfold pop, view_progress. lia.
    - exact Hndl.
    - intros _. unfold owed_at. simpl. assert (Ef : (cw <=? w) = false) by (apply Z.leb_gt; lia). rewrite Ef. reflexivity. }
  assert (Hold : forall w, 0 <= f_old (owed_at w) pop /\ y w <= f_old (owed_at w) pop).
  { intros w. assert (H0 : 0 <= f_old (owed_at w) pop) by (destruct pop; simpl; [apply owed_at_nonneg | lia]).
    split; [exact H0|]. destruct (in_dec Z.eq_dec w W) as [Hin|Hn].
    - destruct (Hxy1 w Hin) as (p & r & Hp & _ & Hle & _ & Hy & _). rewrite Hp, Hy. simpl. unfold owed_at.
      assert (Et : (pr_week p <=? w) = true) by (apply Z.leb_le; exact Hle). rewrite Et. lia.
    - destruct (Hxy0 w Hn) as (_ & ->). exact H0. }
  assert (HEL : L < cw -> gE f L = owed f L).
  { intros _. destruct HBI as (_ & _ & _ & _ & HEs). unfold gE, view_total_energy. fold L in HEs. rewrite HEs.
    unfold owed. apply psum_ext. intros [u p] Hin. simpl. unfold c_energy, owed_at.
    assert (Et : (pr_week p <=? L) = true) by (apply Z.leb_le; apply (Hweekl u p Hin)). rewrite Et. reflexivity. }
  (* per-week view of the state change *)
  assert (HE'cw : 0 <= gE f' cw).
  { pose proof (total_energy_sum f' Hi') as Hs. unfold view_last_global in Hs. rewrite HL' in Hs. unfold gE. rewrite Hs.
    apply psum_nonneg. intros. apply energy_at_nonneg. }
  assert (Hcwk2 : gR f' cw = gR f cw) by (unfold gR; destruct Hcwk as (-> & _); reflexivity).
  assert (Hfut : forall w, cw <= w -> ~ In w W) by (intros w Hw Hin; apply HWin in Hin; lia).
  (* paid' <= R' whenever something is paid, via the energy and payment invariants *)
  assert (HEI' : forall w, w < cw -> gE f' w = 0 \/ used g' w + owed f' w <= gE f' w).
  { intros w Hw. assert (Hne : w <> cw) by lia.
    assert (Hbase : gE f w = 0 \/ used g w + owed f w <= gE f w).
    { destruct (Z_lt_le_dec w L) as [HwL|HwL]; [apply DEI; exact HwL|].
      destruct (Z.eq_dec w L) as [->|HnL].
      - right. rewrite (Dusedfut L) by lia. rewrite HEL by lia. lia.
      - left. apply DEfut. lia. }
    destruct (Hweeks w Hne) as [(He & _)|[(_ & He & _)|(He & _)]]; unfold gE in *; rewrite He.
    - destruct Hbase as [Hz|Hb]; [left; exact Hz|]. right. rewrite Hused', Howed' by exact Hw.
      destruct (Hold w) as (H0 & Hy). lia.
    - left. reflexivity.
    - destruct Hbase as [Hz|Hb]; [left; exact Hz|]. right. rewrite Hused', Howed' by exact Hw.
      destruct (Hold w) as (H0 & Hy). lia. }
  assert (HPI' : forall w t, paid g' w t * gE f' w <= gR f' w t * used g' w).
  { intros w t. rewrite Hpaid', Hused'. destruct (Xb w t) as (Hx0 & Hy0 & Hxe & HxE & HxR).
    destruct (Z.eq_dec w cw) as [->|Hne].
    - rewrite (Dpaidfut cw t) by lia. destruct (Hxy0 cw (Hfut cw ltac:(lia))) as (Hxz & Hyz). rewrite Hxz, Hyz.
      rewrite Hcwk2. unfold gR. rewrite DRfut by lia. simpl. lia.
    - pose proof (DPI w t) as Hpi. pose proof (Dused0 w) as Hu0. pose proof (HRtnn w t) as HRn.
      destruct (Hweeks w Hne) as [(He & Hr & _)|[(_ & He & Hr & _)|(He & Hr0 & Hwin & Hr & _)]].
      + unfold gE in *. rewrite He. unfold gR in *. rewrite Hr in *. nia.
      + unfold gE, gR. rewrite He, Hr. simpl. lia.
      + unfold gE in *. rewrite He.
        assert (Hp0 : paid g w t = 0) by (apply DP0; [lia | left; exact Hr0]).
        rewrite Hp0. pose proof (HRt'nn w t). nia. }
  assert (HPR : forall w t, 0 < x w t -> paid g' w t <= gR f' w t /\ In w W).
  { intros w t Hx. destruct (in_dec Z.eq_dec w W) as [Hin|Hn]; [|destruct (Hxy0 w Hn) as (Hx0 & _); rewrite Hx0 in Hx; lia].
    split; [|exact Hin]. destruct (HWin w Hin) as (Hwin & _).
    destruct (Xb w t) as (_ & _ & _ & HxE & _).
    assert (Hne : w <> cw) by lia.
    assert (He : gE f' w = gE f w).
    { unfold gE. destruct (Hweeks w Hne) as [(He & _)|[(Hc & _)|(He & _)]]; [exact He | unfold cleared_week in Hc; lia | exact He]. }
    assert (HEp : 0 < gE f w) by (pose proof (DE0 w); destruct (Z.eq_dec (gE f w) 0) as [Hz|Hz]; [specialize (HxE Hz); lia | lia]).
    pose proof (HPI' w t) as Hpi. rewrite He in Hpi.
    destruct (HEI' w ltac:(lia)) as [Hz|Hei]; [rewrite He in Hz; lia|]. rewrite He in Hei.
    assert (Ho : 0 <= owed f' w) by (unfold owed; apply psum_nonneg; intros; apply owed_at_nonneg).
    pose proof (HRt'nn w t). nia. }
  assert (Hpot : forall t w, cw - MAXW <= w < cw - MAXW + Z.of_nat window_len ->
                  pot f' g' t w = pot f1 g t w + (- x w t)).
  { intros t w Hwr. rewrite window_len_Z in Hwr. unfold pot. rewrite Hpaid', HRt1.
    destruct (Xb w t) as (Hx0 & _).
    destruct (Z.eq_dec w cw) as [->|Hne].
    - destruct Hcwk as (_ & Ha). unfold gA. rewrite Ha, Hcwk2.
      destruct (Hxy0 cw (Hfut cw ltac:(lia))) as (Hxz & _). rewrite Hxz. lia.
    - assert (Hle : 0 < x w t -> paid g w t + x w t <= gR f' w t).
      { intros Hx. destruct (HPR w t Hx) as (Hle & _). rewrite Hpaid' in Hle. exact Hle. }
      unfold gA. pose proof (Dpaid0 w t) as Hp0.
      destruct (Hweeks w Hne) as [(_ & Hr & Ha)|[(Hcl & _)|(_ & Hr0 & Hwin & Hr & Ha)]].
      + rewrite Ha. unfold gR in *. rewrite Hr in *. destruct (Z.eq_dec (x w t) 0) as [Hz|Hz]; [rewrite Hz; lia|].
        specialize (Hle ltac:(lia)). lia.
      + unfold cleared_week in Hcl. lia.
      + rewrite Ha. unfold gR in *. rewrite Hr, Hr0 in *. simpl.
        rewrite (tok_sum_positive_part (fun t0 => view_accumulated f1 w t0) toks t Hnd (fun t0 => DA0 w t0)) in *.
        assert (Hpz : paid g w t = 0) by (apply DP0; [lia | left; exact Hr0]). rewrite Hpz in *.
        pose proof (DA0 w t). destruct (Z.eq_dec (x w t) 0) as [Hz|Hz].
        * rewrite Hz. destruct (mem t toks); lia.
        * specialize (Hle ltac:(lia)). destruct (mem t toks); lia. }
  assert (Hxsum : forall t, wsum (fun w => x w t) (cw - MAXW) window_len = zsum (map (fun wr => tok_sum (snd wr) t) det)).
  { intros t. apply (wsum_pay_entries det t (cw - MAXW) window_len HWnd).
    intros w Hin. rewrite window_len_Z. destruct (HWin w Hin) as (Hwin & _). lia. }
  assert (Hneg : forall t, wsum (fun w => - x w t) (cw - MAXW) window_len = - wsum (fun w => x w t) (cw - MAXW) window_len).
  { intros t. clear. generalize (cw - MAXW). induction window_len as [|n IH]; intros a; [reflexivity|]. rewrite !wsum_S, IH. lia. }
  split.
  { constructor.
  - (* E >= 0 *)
    intros w. destruct (Z.eq_dec w cw) as [->|Hne]; [exact HE'cw|].
    unfold gE in *. destruct (Hweeks w Hne) as [(-> & _)|[(_ & -> & _)|(-> & _)]]; [apply DE0 | lia | apply DE0].
  - (* E = 0 beyond the last updated week *)
    rewrite HL'. intros w Hw. assert (Hne : w <> cw) by lia.
    unfold gE in *. destruct (Hweeks w Hne) as [(-> & _)|[(_ & -> & _)|(-> & _)]]; [apply DEfut; lia | reflexivity | apply DEfut; lia].
  - (* no totals for the running and later weeks *)
    rewrite HL'. intros w Hw. destruct (Z.eq_dec w cw) as [->|Hne].
    + destruct Hcwk as (-> & _). apply DRfut. lia.
    + destruct (Hweeks w Hne) as [(_ & -> & _)|[(_ & _ & -> & _)|(_ & _ & Hwin & _)]]; [apply DRfut; lia | reflexivity | lia].
  - exact Rnn'.
  - exact Hnn'.
  - (* no accumulation for future weeks *)
    rewrite Hcw'. intros w t Hw. assert (Hne : w <> cw) by lia. unfold gA in *.
    destruct (Hweeks w Hne) as [(_ & _ & Ha)|[(_ & _ & _ & Ha)|(_ & _ & Hwin & _)]]; [rewrite Ha; apply DAfut; exact Hw | rewrite Ha; apply DAfut; exact Hw | lia].
  - rewrite Hpb', <- Hp1. apply (d_pb _ _ D).
  - intros w t. rewrite Hpaid'. pose proof (Dpaid0 w t). destruct (Xb w t) as (Hx0 & _). lia.
  - intros w. rewrite Hused'. pose proof (Dused0 w). destruct (Xb w 0) as (_ & Hy0 & _). lia.
  - rewrite HL'. intros w t Hw. rewrite Hpaid', (Dpaidfut w t) by lia. destruct (Hxy0 w (Hfut w Hw)) as (Hx0 & _). rewrite Hx0. lia.
  - rewrite HL'. intros w Hw. rewrite Hused', (Dusedfut w) by lia. destruct (Hxy0 w (Hfut w Hw)) as (_ & Hy0). rewrite Hy0. lia.
  - rewrite HL'. exact HEI'.
  - exact HPI'.
  - (* nothing paid for a week without total or without energy *)
    rewrite Hcw'. intros w t Hw Hc. rewrite Hpaid'.
    destruct (Xb w t) as (_ & _ & _ & HxE & HxR).
    destruct (Z.eq_dec w cw) as [->|Hne].
    + rewrite (Dpaidfut cw t) by lia. destruct (Hxy0 cw (Hfut cw ltac:(lia))) as (Hx0 & _). rewrite Hx0. lia.
    + destruct (Hweeks w Hne) as [(He & Hr & _)|[(Hcl & _)|(He & Hr0 & Hwin & Hr & _)]].
      * unfold gE in *. rewrite He, Hr in Hc.
        rewrite (DP0 w t Hw Hc). destruct Hc as [Hc|Hc]; [rewrite <- Hr in Hc; rewrite (HxR Hc); lia | rewrite (HxE Hc); lia].
      * unfold cleared_week in Hcl. lia.
      * rewrite (DP0 w t Hw (or_introl Hr0)).
        destruct Hc as [Hc|Hc]; [rewrite (HxR Hc); lia | unfold gE in *; rewrite He in Hc; rewrite (HxE Hc); lia].
  - (* never more than credited *)
    intros w t. rewrite Hcred'.
    assert (Hmax : Z.max (gR f' w t) (paid g' w t) <= Z.max (gR f' w t) (paid g w t)).
    { rewrite Hpaid'. destruct (Xb w t) as (Hx0 & _). destruct (Z.eq_dec (x w t) 0) as [Hz|Hz]; [rewrite Hz; lia|].
      destruct (HPR w t ltac:(lia)) as (Hle & _). rewrite Hpaid' in Hle. lia. }
    eapply Z.le_trans; [|apply (DCI w t)].
    assert (Hgoal : gA f' w t + Z.max (gR f' w t) (paid g w t) <= gA f1 w t + Z.max (gR f w t) (paid g w t)); [|lia].
    unfold gA. destruct (Z.eq_dec w cw) as [->|Hne].
    + destruct Hcwk as (_ & Ha). rewrite Ha, Hcwk2. lia.
    + pose proof (HRtnn w t) as HRn. pose proof (Dpaid0 w t) as Hp0.
      destruct (Hweeks w Hne) as [(_ & Hr & Ha)|[(_ & _ & Hr & Ha)|(_ & Hr0 & Hwin & Hr & Ha)]].
      * rewrite Ha. unfold gR. rewrite Hr. lia.
      * rewrite Ha. unfold gR at 1. rewrite Hr. simpl. lia.
      * rewrite Ha. unfold gR. rewrite Hr, Hr0. simpl.
        rewrite (tok_sum_positive_part (fun t0 => view_accumulated f1 w t0) toks t Hnd (fun t0 => DA0 w t0)).
        assert (Hpz : paid g w t = 0) by (apply DP0; [lia | left; exact Hr0]). rewrite Hpz.
        pose proof (DA0 w t). destruct (mem t toks); lia.
  - (* the balances cover what can still be claimed *)
    rewrite Hcw'. intros t Ht.
    rewrite (pay_out_effect _ _ _ Hpay t), tok_sum_unlocked by exact Ht. rewrite tok_sum_flat, <- Hxsum.
    erewrite wsum_ext; [|exact (Hpot t)]. rewrite wsum_add, Hneg.
    pose proof (DSI t Ht) as Hs. rewrite Hb1 in Hs. lia. }
  (* the bound on the payments *)
  intros t Ht. rewrite tok_sum_unlocked by exact Ht. rewrite tok_sum_flat, <- Hxsum.
  assert (H0 : 0 <= wsum (pot f' g' t) (cw - MAXW) window_len).
  { apply wsum_nonneg. intros w _. unfold pot. pose proof (Hnn' w t). unfold gA. lia. }
  erewrite wsum_ext in H0; [|exact (Hpot t)]. rewrite wsum_add, Hneg in H0. lia.
Qed.

(** ------------------------------------------------------------------ every operation preserves both invariants *)
Definition calm (op : fop) : bool :=
  match op with
  | SetEnergy _ _ _ | SetEnergyRaw _ _ _ _ | Pause _ _ | AddToken _ _ | RemoveToken _ _
  | AddContract _ _ | RemoveContract _ _ | WlAdd _ _ | WlRm _ _ => true
  | _ => false
  end.

Lemma calm_frame f op f' outs det : calm op = true -> step f op = Ok (f', outs, det) ->
  fc_w f' = fc_w f /\ (forall w t, view_accumulated f' w t = view_accumulated f w t) /\
  fc_bal f' = fc_bal f /\ fc_per_block f' = fc_per_block f /\ cur_week f' = cur_week f.
Proof.
  destruct op; simpl; try discriminate; intros _.
  - unfold ep_set_energy. destruct ((0 <=? amt) && (0 <=? tok)); [|discriminate]. intros Heq; inversion Heq; subst. repeat split.
  - unfold ep_set_energy_raw. destruct ((0 <=? ep) && (0 <=? tok)); [|discriminate]. intros Heq; inversion Heq; subst. repeat split.
  - unfold ep_pause. destruct (owner_only c); [|discriminate]. intros Heq; inversion Heq; subst. repeat split.
  - unfold ep_add_token. destruct (owner_only c); [|discriminate]. intros Heq; inversion Heq; subst. repeat split.
  - unfold ep_remove_token. destruct (owner_only c); [|discriminate]. intros Heq; inversion Heq; subst. repeat split.
  - unfold ep_add_contract. destruct (owner_only c); [|discriminate]. destruct (is_sc a); [|discriminate].
    intros Heq; inversion Heq; subst. repeat split.
  - unfold ep_remove_contract. destruct (owner_only c); [|discriminate]. intros Heq; inversion Heq; subst. repeat split.
  - unfold ep_wl_add. destruct (owner_only c); [|discriminate]. destruct (negb (mem a (fc_wl f))); [|discriminate].
    intros Heq; inversion Heq; subst. repeat split.
  - unfold ep_wl_rm. destruct (owner_only c); [|discriminate]. destruct (mem a (fc_wl f)); [|discriminate].
    intros Heq; inversion Heq; subst. repeat split.
Qed.

Lemma extra_credit_sum f w t :
  sum3 (extra_credit f) w t =
  if (cur_week f - 1 =? w) && (LOCKED =? t)
  then (if fc_lock_week f =? cur_week f then 0 else fc_per_block f * BLOCKS_IN_WEEK) else 0.
Proof.
  unfold extra_credit. destruct (fc_lock_week f =? cur_week f).
  - change (sum3 [] w t) with 0. destruct ((cur_week f - 1 =? w) && (LOCKED =? t)); reflexivity.
  - unfold sum3. cbn [fold_right fst snd]. destruct ((cur_week f - 1 =? w) && (LOCKED =? t)); lia.
Qed.

Lemma DInv_accumulate f g : FInv f -> DInv f g ->
  DInv (accumulate_additional f (cur_week f)) (mkG (g_paid g) (g_used g) (g_cred g ++ extra_credit f)).
Proof.
  intros Hi D. pose proof weekly_params as (_ & _ & HB). pose proof (d_pb _ _ D) as Hpb.
  destruct (accumulate_additional_env f (cur_week f)) as (e1 & e2 & _ & e4 & _).
  set (a := if fc_lock_week f =? cur_week f then 0 else fc_per_block f * BLOCKS_IN_WEEK).
  assert (H1 : fc_w (accumulate_additional f (cur_week f)) = fc_w f) by apply accumulate_additional_w.
  assert (H2 : cur_week (accumulate_additional f (cur_week f)) = cur_week f) by (unfold cur_week at 1; rewrite e1, e2; reflexivity).
  assert (H3 : 0 <= fc_per_block (accumulate_additional f (cur_week f))).
  { unfold accumulate_additional. destruct (fc_lock_week f =? cur_week f); simpl; exact Hpb. }
  assert (H4 : 0 <= a) by (unfold a; destruct (fc_lock_week f =? cur_week f); nia).
  assert (H5 : cur_week f - 1 <= cur_week f) by lia.
  assert (H6 : forall w t, view_accumulated (accumulate_additional f (cur_week f)) w t =
                           view_accumulated f w t + (if (cur_week f - 1 =? w) && (LOCKED =? t) then a else 0)).
  { intros w t. rewrite accumulate_additional_acc. rewrite (Z.eqb_sym w), (Z.eqb_sym t). unfold a.
    destruct (fc_lock_week f =? cur_week f); cbn [negb andb];
      destruct (cur_week f - 1 =? w); cbn [andb]; try destruct (LOCKED =? t); lia. }
  assert (H7 : forall t, t <> LOCKED -> aget (fc_bal (accumulate_additional f (cur_week f))) t =
                                        aget (fc_bal f) t + (if LOCKED =? t then a else 0)).
  { intros t Ht. rewrite e4. destruct (LOCKED =? t) eqn:E; [apply Z.eqb_eq in E; congruence | lia]. }
  assert (H8 : LOCKED <> LOCKED -> cur_week f - MAXW <= cur_week f - 1) by (intros Hc; congruence).
  apply (DInv_credit f _ g _ _ _ Hi D H1 H2 H3 H4 H5 H6 H7 H8).
  intros w t. apply extra_credit_sum.
Qed.

Lemma gstep_inv f g op : FInv f -> DInv f g ->
  FInv (fst (gstep (f, g) op)) /\ DInv (fst (gstep (f, g) op)) (snd (gstep (f, g) op)).
Proof.
  intros Hi D. unfold gstep. destruct (step f op) as [[[f' outs] det]|] eqn:Es; [|simpl; split; assumption].
  simpl. split; [eapply step_finv; eassumption|].
  pose proof (step_finv _ _ _ _ _ Hi Es) as Hi'.
  destruct (calm op) eqn:Ec.
  - destruct (calm_frame _ _ _ _ _ Ec Es) as (c1 & c2 & c3 & c4 & c5).
    assert (Hg : match op with
                 | Deposit _ tok _ amt => mkG (g_paid g) (g_used g) (g_cred g ++ [(cur_week f, tok, amt)])
                 | Claim c orig _ => mkG (g_paid g ++ pay_entries det) (g_used g ++ used_entries (view_progress f (claim_user c orig)) det) (g_cred g ++ extra_credit f)
                 | SetPerBlock _ _ => mkG (g_paid g) (g_used g) (g_cred g ++ extra_credit f)
                 | _ => g end = g) by (destruct op; try discriminate; reflexivity).
    rewrite Hg. apply (DInv_ext f); assumption.
  - destruct op; try discriminate; simpl in Es.
    + (* Advance *)
      unfold ep_advance in Es. destruct (0 <=? n) eqn:En; [|discriminate]. apply Z.leb_le in En.
      inversion Es; subst. apply DInv_advance; assumption.
    + (* Deposit *)
      destruct (deposit_spec _ _ _ _ _ _ _ _ Es) as (cw & Hcw & Hw & Ha & Hb & _ & _ & Hamt & Hnl & Hn0).
      pose proof (current_week_cur _ _ Hcw) as Hcur. subst cw.
      assert (Hq : quiet (Deposit c tok nonce amt) = true) by reflexivity.
      destruct (quiet_frame _ _ _ _ _ Hq Es) as (_ & q2 & q3 & _).
      pose proof max_weeks_nonneg as HM.
      apply (DInv_credit f f' g (cur_week f) tok amt); try assumption.
      * unfold cur_week. rewrite q2, q3. reflexivity.
      * (* per block unchanged *)
        unfold ep_deposit in Es. destruct ((0 <=? amt) && (0 <=? nonce)); [|discriminate].
        destruct (mem c (fc_contracts f)); [|discriminate]. destruct (mem tok (h_tokens (fc_h f))); [|discriminate].
        apply bind_ok in Es. destruct Es as (cw & _ & Es). apply bind_ok in Es. destruct Es as (f1 & Hf1 & Es).
        inversion Es; subst; clear Es. simpl. pose proof (d_pb _ _ D).
        destruct (0 <? nonce); [destruct (tok =? LOCKED); [|discriminate]|]; inversion Hf1; subst; simpl; assumption.
      * lia.
      * intros w t. rewrite Ha. rewrite (Z.eqb_sym w), (Z.eqb_sym t). reflexivity.
      * intros t Ht. rewrite Hb. destruct (tok =? t) eqn:E.
        -- apply Z.eqb_eq in E. subst t. rewrite Z.eqb_refl. destruct (nonce =? 0) eqn:E0; [reflexivity|].
           apply Z.eqb_neq in E0. exfalso. apply Ht. apply Hnl. lia.
        -- rewrite (Z.eqb_sym t tok), E. simpl. lia.
      * intros _. lia.
      * intros w t. simpl. destruct ((cur_week f =? w) && (tok =? t)); lia.
    + (* Claim *)
      destruct (ep_claim_inv _ _ _ _ _ _ _ Es) as (_ & dest & Hc).
      pose proof (DInv_accumulate f g Hi D) as D1.
      pose proof (claim_summary _ _ _ _ _ _ Hi (d_A0 _ _ D) (d_pb _ _ D) Hc) as Hts.
      destruct (accumulate_additional_env f (cur_week f)) as (e1 & e2 & _ & e4 & _).
      assert (H1 : fc_w (accumulate_additional f (cur_week f)) = fc_w f) by apply accumulate_additional_w.
      assert (H2 : cur_week (accumulate_additional f (cur_week f)) = cur_week f) by (unfold cur_week at 1; rewrite e1, e2; reflexivity).
      assert (H3 : fc_per_block (accumulate_additional f (cur_week f)) = fc_per_block f).
      { unfold accumulate_additional. destruct (fc_lock_week f =? cur_week f); reflexivity. }
      exact (proj1 (touch_preserves f (accumulate_additional f (cur_week f)) f' (claim_user c orig) det
               (mkG (g_paid g) (g_used g) (g_cred g ++ extra_credit f)) Hi Hi' D1 H1 e4 H2 H3 Hts)).
    + (* UpdateEnergy *)
      destruct (update_summary _ _ _ _ _ _ Hi (d_A0 _ _ D) Es) as (Hts & ->).
      pose proof (proj1 (touch_preserves f f f' u [] g Hi Hi' D eq_refl eq_refl eq_refl eq_refl Hts)) as D'.
      simpl in D'. rewrite app_nil_r in D'.
      assert (Hu : used_entries (view_progress f u) [] = []) by (destruct (view_progress f u); reflexivity).
      rewrite Hu, app_nil_r in D'. destruct g; exact D'.
    + (* SetPerBlock *)
      unfold ep_set_per_block in Es. destruct (owner_only c); [|discriminate]. destruct (0 <=? amt) eqn:Ea; [|discriminate].
      apply Z.leb_le in Ea. apply bind_ok in Es. destruct Es as (cw & Hcw & Es). inversion Es; subst; clear Es.
      pose proof (current_week_cur _ _ Hcw) as Hcur. subst cw.
      pose proof (DInv_accumulate f g Hi D) as D1.
      set (f1 := accumulate_additional f (cur_week f)) in *.
      assert (D2 : DInv (with_lock f1 (fc_lock_week f1) amt) (mkG (g_paid g) (g_used g) (g_cred g ++ extra_credit f))).
      { destruct D1. constructor; try assumption. }
      exact D2.
Qed.

Lemma grun_inv ops : forall f g, FInv f -> DInv f g ->
  FInv (fst (grun (f, g) ops)) /\ DInv (fst (grun (f, g) ops)) (snd (grun (f, g) ops)).
Proof.
  unfold grun. induction ops as [|op t IH]; intros f g Hi D; cbn [fold_left]; [split; assumption|].
  destruct (gstep_inv f g op Hi D) as (Hi' & D'). destruct (gstep (f, g) op) as [f' g'] eqn:E. cbn [fst snd] in *.
  apply IH; assumption.
Qed.

(** over any history: what was paid out for a (week, token) never exceeds what was deposited for it,
    and neither does the week's frozen total *)
Lemma paid_le_credited epoch ops w t :
  let g := snd (grun (init_fc epoch, g0) ops) in let f := fst (grun (init_fc epoch, g0) ops) in
  0 <= paid g w t /\ paid g w t <= cred g w t /\ gR f w t + gA f w t <= cred g w t.
Proof.
  intros g f. destruct (grun_inv ops _ _ (init_finv epoch) (init_dinv epoch)) as (Hi & D). fold f g in Hi, D.
  pose proof (d_CI _ _ D w t). pose proof (d_A0 _ _ D w t). pose proof (d_paid0 _ _ D w t). unfold gA in *. lia.
Qed.

(** ... and the collector's balance of every fungible fee token covers everything that can still be
    claimed: over the claimable window, accumulated deposits plus the unpaid part of the frozen totals *)
Lemma balance_covers epoch ops t : t <> LOCKED ->
  let g := snd (grun (init_fc epoch, g0) ops) in let f := fst (grun (init_fc epoch, g0) ops) in
  wsum (pot f g t) (cur_week f - MAXW) window_len <= aget (fc_bal f) t /\
  (forall w, 0 <= pot f g t w).
Proof.
  intros Ht g f. destruct (grun_inv ops _ _ (init_finv epoch) (init_dinv epoch)) as (Hi & D). fold f g in Hi, D.
  split; [apply (d_SI _ _ D); exact Ht | intros w; apply pot_nonneg; exact D].
Qed.

(** ------------------------------------------------------------------ a permitted claim never aborts *)
Lemma pay_out_total' ps : forall bal, Forall (fun p : Z * Z => 0 <= snd p) ps ->
  (forall t, In t (map fst ps) -> tok_sum ps t <= aget bal t) -> exists bal', pay_out bal ps = Ok bal'.
Proof.
  induction ps as [|[t0 a] tl IH]; intros bal Hnn Hle; simpl; [eexists; reflexivity|].
  inversion Hnn as [|? ? Ha Htl]; subst. simpl in Ha.
  pose proof (Hle t0 (or_introl eq_refl)) as H0. simpl in H0. rewrite Z.eqb_refl in H0.
  pose proof (tok_sum_nonneg tl t0 Htl).
  rewrite sub_chk_ge by lia. simpl bind. apply IH; [exact Htl|].
  intros t Hin. rewrite aget_aset_pt. specialize (Hle t (or_intror Hin)). simpl in Hle.
  destruct (t0 =? t) eqn:E; [apply Z.eqb_eq in E; subst|]; lia.
Qed.

Lemma fc_hook_total h s w e E : exists h' s' r, fc_hook h s w e E = Ok (h', s', r).
Proof.
  unfold fc_hook, default_user_rewards. destruct ((e =? 0) || (E =? 0)); [eauto|].
  destruct (collect_and_get fhost fc_collect h s w) as [[h1 s1] tot]. eauto.
Qed.

Lemma claim_weeks_total n : forall h s p, exists h' s' p' det, claim_weeks fhost fc_hook n h s p = Ok (h', s', p', det).
Proof.
  induction n as [|n IH]; intros h s p; simpl claim_weeks; [eauto|].
  unfold claim_single. destruct (fc_hook_total h s (pr_week p) (en_amount (pr_en p)) (aget (w_energy s) (pr_week p))) as (h1 & s1 & r & Hh).
  rewrite Hh. simpl bind. destruct (IH h1 s1 (advance_week p)) as (h2 & s2 & p2 & d2 & Hr). rewrite Hr. simpl bind. eauto.
Qed.

Lemma claim_multi_total f h user : FInv f ->
  exists h' s' det, claim_multi fhost fc_hook h (fc_w f) user (cur_week f) (energy_entry f user) = Ok (h', s', det).
Proof.
  intros (Hwf & Hinv & Hle). destruct Hwf as (cw & Hcw & Hprog & Hfac & _).
  pose proof (current_week_cur _ _ Hcw) as Hcur. subst cw.
  assert (Hpos : 1 <= cur_week f) by (apply (week_for_epoch_pos _ _ _ Hcw)).
  destruct (update_user_energy_spec (fc_w f) (cur_week f) user (energy_entry f user) Hinv Hle Hpos (energy_entry_tok f user Hfac))
    as (s1 & Hu & _).
  unfold claim_multi. rewrite Hu. simpl bind.
  assert (Hck : (pr_week (match pfind (w_prog (fc_w f)) user with Some p => p | None => mkProg (energy_entry f user) (cur_week f) end) <=? cur_week f) = true).
  { apply Z.leb_le. destruct (pfind (w_prog (fc_w f)) user) as [p|] eqn:Ep; [|simpl; lia].
    apply pfind_in in Ep. rewrite Forall_forall in Hprog. apply (Hprog _ Ep). }
  rewrite Hck.
  match goal with |- context [claim_weeks fhost fc_hook ?n ?hh ?ss ?pp] =>
    destruct (claim_weeks_total n hh ss pp) as (h2 & s2 & p2 & d2 & Hc) end.
  rewrite Hc. simpl bind. eauto.
Qed.

(** add a list of payments to balances *)
Fixpoint credit_all (bal : list (Z * Z)) (ps : list (Z * Z)) : list (Z * Z) :=
  match ps with [] => bal | (t, a) :: tl => credit_all (aset bal t (aget bal t + a)) tl end.

Lemma credit_all_get ps : forall bal t, aget (credit_all bal ps) t = aget bal t + tok_sum ps t.
Proof.
  induction ps as [|[t0 a] tl IH]; intros bal t; simpl; [lia|].
  rewrite IH, aget_aset_pt. destruct (t0 =? t) eqn:E; [apply Z.eqb_eq in E; subst|]; lia.
Qed.

Lemma FInv_with_bal f b : FInv f -> FInv (with_bal f b).
Proof. intros (H1 & H2 & H3). split; [|split]; assumption. Qed.

Lemma accumulate_with_bal f b cw : accumulate_additional (with_bal f b) cw = with_bal (accumulate_additional f cw) b.
Proof. unfold accumulate_additional; simpl. destruct (fc_lock_week f =? cw); reflexivity. Qed.

Lemma shares_pos tot e E : Forall (fun p : Z * Z => 0 <= snd p) (shares tot e E).
Proof.
  induction tot as [|[t a] tl IH]; simpl; [constructor|].
  destruct (0 <? a * e / E) eqn:Ep; [constructor; [apply Z.ltb_lt in Ep; simpl; lia | exact IH] | exact IH].
Qed.

Lemma fc_claim_weeks_nonneg n : forall h s p h' s' p' det,
  claim_weeks fhost fc_hook n h s p = Ok (h', s', p', det) ->
  Forall (fun p : Z * Z => 0 <= snd p) (flat_rewards det).
Proof.
  induction n as [|n IH]; intros h s p h' s' p' det; simpl claim_weeks.
  - intros Heq; inversion Heq; subst. constructor.
  - intros Heq. apply bind_ok in Heq. destruct Heq as ([[[h1 s1] p1] r0] & Hs & Heq).
    apply bind_ok in Heq. destruct Heq as ([[[h2 s2] p2] rs] & Hr & Heq). inversion Heq; subst; clear Heq.
    unfold claim_single in Hs. apply bind_ok in Hs. destruct Hs as ([[hx sx] rx] & Hh & Hs). inversion Hs; subst; clear Hs.
    unfold flat_rewards. simpl. apply Forall_app. split; [|apply (IH _ _ _ _ _ _ _ Hr)].
    unfold fc_hook, default_user_rewards in Hh. destruct ((_ =? 0) || (_ =? 0)); [inversion Hh; constructor|].
    destruct (collect_and_get fhost fc_collect h s (pr_week p)) as [[h3 s3] tot]. inversion Hh; subst. apply shares_pos.
Qed.

Lemma unlocked_part_nonneg l : Forall (fun p : Z * Z => 0 <= snd p) l -> Forall (fun p : Z * Z => 0 <= snd p) (unlocked_part l).
Proof.
  unfold unlocked_part. intros Hall. apply Forall_forall. intros p Hin. apply filter_In in Hin. destruct Hin as (Hin & _).
  rewrite Forall_forall in Hall. apply (Hall _ Hin).
Qed.

Lemma unlocked_part_no_locked l t : In t (map fst (unlocked_part l)) -> t <> LOCKED.
Proof.
  unfold unlocked_part. intros Hin. apply in_map_iff in Hin. destruct Hin as ([t0 a] & Ht & Hin). simpl in Ht. subst t0.
  apply filter_In in Hin. destruct Hin as (_ & Hn). simpl in Hn. intros ->. rewrite Z.eqb_refl in Hn. discriminate.
Qed.

Lemma FInv_accumulate f : FInv f -> FInv (accumulate_additional f (cur_week f)).
Proof.
  intros (H1 & H2 & H3). destruct (accumulate_additional_env f (cur_week f)) as (e1 & e2 & e3 & _ & e5).
  pose proof (accumulate_additional_w f (cur_week f)) as ew.
  split; [|split].
  - eapply FWf_frame; [exact e2 | exact e1 | rewrite ew; reflexivity | exact e3 | exact e5 | exact H1].
  - rewrite ew. exact H2.
  - rewrite ew.
    assert (Hc : cur_week (accumulate_additional f (cur_week f)) = cur_week f) by (unfold cur_week at 1; rewrite e1, e2; reflexivity).
    rewrite Hc. exact H3.
Qed.

Lemma DInv_with_bal f g b : (forall t, t <> LOCKED -> aget (fc_bal f) t <= aget b t) -> DInv f g -> DInv (with_bal f b) g.
Proof.
  intros Hb D. constructor; try apply D.
  intros t Ht. simpl fc_bal. eapply Z.le_trans; [|apply (Hb t Ht)].
  erewrite wsum_ext; [apply (d_SI _ _ D t Ht)|]. intros; reflexivity.
Qed.

(** on every reachable state [claim_rewards] succeeds for every receiver and user: the global update never
    underflows and the balances always cover the payments *)
Lemma claim_rewards_never_aborts f g dest user : FInv f -> DInv f g ->
  exists f' outs det, claim_rewards f dest user = Ok (f', outs, det).
Proof.
  intros Hi D. pose proof Hi as (Hwf & _). destruct Hwf as (cw & Hcw & _).
  pose proof (current_week_cur _ _ Hcw) as Hcur. subst cw.
  set (f1 := accumulate_additional f (cur_week f)).
  destruct (claim_multi_total f (fc_h f1) user Hi) as (h2 & w2 & det & Hcm).
  set (plain := unlocked_part (flat_rewards det)).
  assert (Hnnp : Forall (fun p : Z * Z => 0 <= snd p) plain).
  { apply unlocked_part_nonneg. unfold claim_multi in Hcm. apply bind_ok in Hcm. destruct Hcm as (s1 & _ & Hcm).
    destruct (pr_week _ <=? cur_week f); [|discriminate].
    apply bind_ok in Hcm. destruct Hcm as ([[[h3 s3] p3] d3] & Hcw3 & Hcm). inversion Hcm; subst.
    apply (fc_claim_weeks_nonneg _ _ _ _ _ _ _ _ Hcw3). }
  assert (Hbal0 : forall t, t <> LOCKED -> 0 <= aget (fc_bal f) t).
  { intros t Ht. eapply Z.le_trans; [|apply (d_SI _ _ D t Ht)]. apply wsum_nonneg. intros w _. apply pot_nonneg. exact D. }
  (* the same claim on a copy of the state with enough balance to pay certainly succeeds ... *)
  set (bo := credit_all (fc_bal f) plain). set (fo := with_bal f bo).
  assert (Hstep : forall (ff : fc) bb, ff = with_bal f bb ->
            (exists bal', pay_out bb plain = Ok bal') ->
            exists f' outs, claim_rewards ff dest user = Ok (f', outs, det)).
  { intros ff bb -> (bal' & Hp). unfold claim_rewards.
    assert (Hcwb : current_week (with_bal f bb) = Ok (cur_week f)) by exact Hcw. rewrite Hcwb. simpl bind.
    rewrite accumulate_with_bal. fold f1.
    assert (He : energy_entry (with_bal f1 bb) user = energy_entry f user).
    { unfold energy_entry; simpl. unfold f1. destruct (accumulate_additional_env f (cur_week f)) as (-> & _ & -> & _). reflexivity. }
    rewrite He. simpl fc_h. simpl fc_w. unfold f1 at 2. rewrite accumulate_additional_w. rewrite Hcm. simpl bind.
    simpl fc_bal. fold plain. rewrite Hp. simpl bind. eauto. }
  assert (Hpo : exists bal', pay_out bo plain = Ok bal').
  { apply pay_out_total'; [exact Hnnp|]. intros t Hin. unfold bo. rewrite credit_all_get.
    specialize (Hbal0 t (unlocked_part_no_locked _ _ Hin)). lia. }
  destruct (Hstep fo bo eq_refl Hpo) as (fo' & outs_o & Hco).
  (* ... and the ledger invariant bounds what it pays by what the window held, which the real balance covers *)
  assert (Hio : FInv fo) by (apply FInv_with_bal; exact Hi).
  assert (Dob : DInv fo g).
  { apply DInv_with_bal; [|exact D]. intros t Ht. unfold bo. rewrite credit_all_get. pose proof (tok_sum_nonneg plain t Hnnp). lia. }
  pose proof (DInv_accumulate fo g Hio Dob) as D1o.
  pose proof (claim_summary _ _ _ _ _ _ Hio (d_A0 _ _ Dob) (d_pb _ _ Dob) Hco) as Hts.
  assert (Hio' : FInv fo').
  { assert (Hso : step fo (Claim dest (Some user) true) = Ok (fo', outs_o, det) \/ True) by (right; exact I).
    (* directly from the weekly invariant of a claim *)
    destruct (claim_rewards_w _ _ _ _ _ _ Hco) as (cw & h2' & Hcw2 & Hcm2).
    destruct (claim_rewards_env _ _ _ _ _ _ Hco) as (e1 & e2 & _).
    pose proof (current_week_cur _ _ Hcw2) as Hc2. destruct Hio as (Hwfo & Hinvo & Hleo).
    assert (Hpos : 1 <= cw) by (apply (week_for_epoch_pos _ _ _ Hcw2)).
    pose proof Hwfo as (cw0 & _ & _ & Hfac & _).
    assert (Hle2 : w_last (fc_w fo) <= cw) by lia.
    destruct (claim_multi_inv fhost fc_hook fc_hook_frame _ _ _ _ _ _ _ _ Hinvo Hle2 Hpos (energy_entry_tok fo _ Hfac) Hcm2) as (Hinv' & Hlast).
    split; [eapply claim_rewards_wf; eassumption|]. split; [exact Hinv'|]. unfold cur_week. rewrite e1, e2. fold (cur_week fo). lia. }
  destruct (accumulate_additional_env fo (cur_week fo)) as (e1 & e2 & _ & e4 & _).
  assert (H1 : fc_w (accumulate_additional fo (cur_week fo)) = fc_w fo) by apply accumulate_additional_w.
  assert (H2 : cur_week (accumulate_additional fo (cur_week fo)) = cur_week fo) by (unfold cur_week at 1; rewrite e1, e2; reflexivity).
  assert (H3 : fc_per_block (accumulate_additional fo (cur_week fo)) = fc_per_block fo).
  { unfold accumulate_additional. destruct (fc_lock_week fo =? cur_week fo); reflexivity. }
  destruct (touch_preserves fo (accumulate_additional fo (cur_week fo)) fo' user det
              (mkG (g_paid g) (g_used g) (g_cred g ++ extra_credit fo)) Hio Hio' D1o H1 e4 H2 H3 Hts) as (_ & Hbound).
  (* the potential does not depend on the balances *)
  pose proof (DInv_accumulate f g Hi D) as D1.
  assert (Hreal : exists f' outs, claim_rewards f dest user = Ok (f', outs, det)); [|destruct Hreal as (f' & o & Hr); eauto].
  apply (Hstep f (fc_bal f)); [destruct f; reflexivity|].
  apply pay_out_total'; [exact Hnnp|]. intros t Hin.
  pose proof (unlocked_part_no_locked _ _ Hin) as Ht.
  eapply Z.le_trans; [apply (Hbound t Ht)|].
  destruct (accumulate_additional_env f (cur_week f)) as (_ & _ & _ & eb & _).
  rewrite <- eb. eapply Z.le_trans; [|apply (d_SI _ _ D1 t Ht)].
  assert (Hc1 : cur_week (accumulate_additional f (cur_week f)) = cur_week f).
  { destruct (accumulate_additional_env f (cur_week f)) as (x1 & x2 & _). unfold cur_week at 1. rewrite x1, x2. reflexivity. }
  rewrite Hc1. change (cur_week fo) with (cur_week f).
  apply Z.eq_le_incl. apply wsum_ext. intros w _. unfold pot, gA, gR, paid. unfold fo. rewrite accumulate_with_bal. reflexivity.
Qed.

Lemma ep_claim_never_aborts f g c (orig : option Z) (boosted : bool) : FInv f -> DInv f g ->
  fc_paused f = false ->
  (match orig with Some u => (if boosted then mem u (fc_allow f) else mem c (fc_wl f)) = true | None => True end) ->
  exists f' outs det, ep_claim f c orig boosted = Ok (f', outs, det).
Proof.
  intros Hi D Hp Hperm. unfold ep_claim. rewrite Hp. simpl.
  destruct boosted; destruct orig as [u|]; try rewrite Hperm; eapply claim_rewards_never_aborts; eassumption.
Qed.
