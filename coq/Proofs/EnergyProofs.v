(** C08: the energy entry of every user account equals the time-weighted sum of the locked tokens it
    holds, in every reachable state of the composed model (energy factory + token-unstake +
    lkmex-transfer + wrapper).  The algebra is linear; the content is that every endpoint updates the
    right account by the right amounts, and that every call site of [add_after_token_lock] (which
    silently drops a term when unlock <= now) has unlock >= now. *)
From MX Require Import Base.Prelude Gen.Params Model.Energy.

(** Break a hypothesis [H : <monadic computation> = Ok _] into its successful steps. *)
Ltac inv_ok H :=
  repeat (first
    [ match type of H with
      | Ok _ = Ok _ => inversion H; subst; clear H
      | Err _ = Ok _ => discriminate H
      | bind ?r ?f = Ok _ =>
          let a := fresh "a" in let Hb := fresh "Hb" in
          apply bind_ok in H; destruct H as (a & Hb & H)
      | (if ?b then _ else _) = Ok _ =>
          let E := fresh "E" in destruct b eqn:E
      | (let (_, _) := ?x in _) = Ok _ => destruct x
      | (match ?x with Some _ => _ | None => _ end) = Ok _ =>
          let E := fresh "E" in destruct x eqn:E
      end
    | progress cbv beta in H ]).

Ltac zb := repeat match goal with
  | H : (_ =? _) = true |- _ => apply Z.eqb_eq in H
  | H : (_ =? _) = false |- _ => apply Z.eqb_neq in H
  | H : (_ <? _) = true |- _ => apply Z.ltb_lt in H
  | H : (_ <? _) = false |- _ => apply Z.ltb_ge in H
  | H : (_ <=? _) = true |- _ => apply Z.leb_le in H
  | H : (_ <=? _) = false |- _ => apply Z.leb_gt in H
  | H : negb _ = true |- _ => apply negb_true_iff in H
  | H : negb _ = false |- _ => apply negb_false_iff in H
  | H : (_ && _) = true |- _ => apply andb_true_iff in H; destruct H
  end.

(** ------------------------------------------------------------------ the only facts about the constants *)
Lemma month_pos : 0 < EPOCHS_PER_MONTH.
Proof. vm_compute. reflexivity. Qed.
Lemma month_le_year : EPOCHS_PER_MONTH <= EPOCHS_PER_YEAR.
Proof. vm_compute. discriminate. Qed.

(** ------------------------------------------------------------------ energy algebra *)
(** [stored_ok en W T now]: a stored entry, last updated at [e_upd en] <= now, of an account whose
    tokens have sum(amount*unlock) = W and sum(amount) = T.
    [fresh en W T now]: the same entry brought to the current epoch. *)
Definition stored_ok (en : energy) (W T now : Z) : Prop :=
  e_amt en = W - e_upd en * T /\ e_tot en = T /\ e_upd en <= now /\ 0 <= T.

Definition fresh (en : energy) (W T now : Z) : Prop :=
  e_upd en = now /\ e_amt en = W - now * T /\ e_tot en = T /\ 0 <= T.

Lemma fresh_stored en W T now : fresh en W T now -> stored_ok en W T now.
Proof. unfold fresh, stored_ok. intros (U & A & To & P). rewrite U. repeat split; auto; lia. Qed.

Lemma fresh_ext en W T W' T' now : fresh en W T now -> W = W' -> T = T' -> fresh en W' T' now.
Proof. intros H -> ->. exact H. Qed.

Lemma deplete_fresh en W T now : stored_ok en W T now -> fresh (deplete en now) W T now.
Proof.
  unfold stored_ok, fresh, deplete. intros (A & To & U & P).
  destruct (e_upd en =? now) eqn:E; zb.
  - rewrite <- E. repeat split; auto.
  - destruct (0 <? e_tot en) eqn:Et; zb; simpl.
    + unfold en_subtract. destruct (now <=? e_upd en) eqn:E2; zb; [lia|]. simpl.
      repeat split; auto. rewrite A, To. ring.
    + assert (HT : T = 0) by lia. rewrite HT in *. repeat split; auto; lia.
Qed.

Lemma add_lock_fresh en W T now a e :
  fresh en W T now -> now <= e -> 0 <= a ->
  fresh (add_after_token_lock en a e now) (W + a * e) (T + a) now.
Proof.
  unfold fresh, add_after_token_lock, en_add. intros (U & A & To & P) He Ha.
  destruct (e <=? now) eqn:E; zb; simpl.
  - assert (e = now) by lia. subst e. repeat split; auto; try lia; rewrite A; ring.
  - repeat split; auto; try lia; rewrite A; ring.
Qed.

Lemma refund_fresh en W T now a e en' :
  fresh en W T now -> e <= now -> refund_after_token_unlock en a e now = Ok en' ->
  fresh en' (W - a * e) (T - a) now.
Proof.
  unfold fresh, refund_after_token_unlock, en_add. intros (U & A & To & P) He H.
  apply bind_ok in H. destruct H as (t & Hb & H). apply sub_chk_ok in Hb. destruct Hb as [Hle Ht].
  inversion H; subst en'; clear H. rewrite Ht. clear Ht.
  destruct (now <=? e) eqn:E; zb; simpl in *.
  - assert (e = now) by lia. subst e. repeat split; auto; try lia; nia.
  - repeat split; auto; try lia; nia.
Qed.

Lemma early_fresh en W T now a e en' :
  fresh en W T now -> now <= e -> deplete_after_early_unlock en a e now = Ok en' ->
  fresh en' (W - a * e) (T - a) now.
Proof.
  unfold fresh, deplete_after_early_unlock, en_subtract. intros (U & A & To & P) He H.
  apply bind_ok in H. destruct H as (t & Hb & H). apply sub_chk_ok in Hb. destruct Hb as [Hle Ht].
  inversion H; subst en'; clear H. rewrite Ht. clear Ht.
  destruct (e <=? now) eqn:E; zb; simpl in *.
  - assert (e = now) by lia. subst e. repeat split; auto; try lia; nia.
  - repeat split; auto; try lia; nia.
Qed.

Lemma any_fresh en W T now a e en' :
  fresh en W T now -> update_after_unlock_any en a e now = Ok en' ->
  fresh en' (W - a * e) (T - a) now.
Proof.
  unfold update_after_unlock_any. intros F H. destruct (e <? now) eqn:E; zb.
  - eapply refund_fresh; eauto. lia.
  - eapply early_fresh; eauto.
Qed.

Lemma change_fresh en W T now a e1 e2 en' :
  fresh en W T now -> now <= e2 -> 0 <= a ->
  update_after_unlock_epoch_change en a e1 e2 now = Ok en' ->
  fresh en' (W - a * e1 + a * e2) T now.
Proof.
  unfold update_after_unlock_epoch_change. intros F He Ha H. inv_ok H.
  eapply fresh_ext; [apply add_lock_fresh; [eapply any_fresh; eauto | assumption | assumption] | |]; lia.
Qed.

(** the "else" branches of cancelUnbond and add_energy_to_destination: tokens that are already
    unlockable carry a negative term *)
Lemma raw_add_first_fresh en W T now a e en' :
  fresh en W T now -> remove_energy_raw (add_energy_raw en a 0) 0 (a * (now - e)) = Ok en' ->
  fresh en' (W + a * e) (T + a) now.
Proof.
  unfold fresh, remove_energy_raw, add_energy_raw. intros (U & A & To & P) H. simpl in H.
  apply bind_ok in H. destruct H as (t & Hb & H). apply sub_chk_ok in Hb. destruct Hb as [Hle Ht].
  inversion H; subst en'; clear H. rewrite Ht. clear Ht. simpl.
  repeat split; auto; try lia; nia.
Qed.

Lemma raw_remove_first_fresh en W T now a e en1 :
  fresh en W T now -> 0 <= a -> remove_energy_raw en 0 (a * (now - e)) = Ok en1 ->
  fresh (add_energy_raw en1 a 0) (W + a * e) (T + a) now.
Proof.
  unfold fresh, remove_energy_raw, add_energy_raw. intros (U & A & To & P) Ha H.
  apply bind_ok in H. destruct H as (t & Hb & H). apply sub_chk_ok in Hb. destruct Hb as [Hle Ht].
  inversion H; subst en1; clear H. rewrite Ht. clear Ht. simpl.
  repeat split; auto; try lia; nia.
Qed.

(** ------------------------------------------------------------------ payment lists *)
Fixpoint wsum (ps : list (Z * Z)) : Z := match ps with [] => 0 | (e, a) :: t => a * e + wsum t end.
Fixpoint tsum (ps : list (Z * Z)) : Z := match ps with [] => 0 | (_, a) :: t => a + tsum t end.

Definition all_pos (ps : list (Z * Z)) : bool := forallb (fun p => 0 <? snd p) ps.

Lemma unlock_loop_fresh ps : forall en W T now en',
  fresh en W T now -> unlock_loop en now ps = Ok en' ->
  fresh en' (W - wsum ps) (T - tsum ps) now.
Proof.
  induction ps as [|[e a] t IH]; simpl; intros en W T now en' F H.
  - inv_ok H. eapply fresh_ext; eauto; lia.
  - inv_ok H. zb. eapply fresh_ext; [eapply IH; [eapply refund_fresh; eauto | eassumption] | |]; lia.
Qed.

Lemma deduct_loop_fresh ps : forall en W T now en',
  fresh en W T now -> deduct_loop en now ps = Ok en' ->
  fresh en' (W - wsum ps) (T - tsum ps) now.
Proof.
  induction ps as [|[e a] t IH]; simpl; intros en W T now en' F H.
  - inv_ok H. eapply fresh_ext; eauto; lia.
  - inv_ok H. zb. eapply fresh_ext; [eapply IH; [eapply early_fresh; eauto; lia | eassumption] | |]; lia.
Qed.

Lemma add_dest_loop_fresh ps : forall en W T now en',
  fresh en W T now -> all_pos ps = true -> add_dest_loop en now ps = Ok en' ->
  fresh en' (W + wsum ps) (T + tsum ps) now.
Proof.
  induction ps as [|[e a] t IH]; simpl; intros en W T now en' F P H.
  - inv_ok H. eapply fresh_ext; eauto; lia.
  - unfold all_pos in P. simpl in P. apply andb_true_iff in P. destruct P as [Pa Pt]. apply Z.ltb_lt in Pa.
    apply bind_ok in H. destruct H as (en1 & H1 & H).
    assert (F1 : fresh en1 (W + a * e) (T + a) now).
    { destruct (now <? e) eqn:E.
      - apply Z.ltb_lt in E. inversion H1; subst en1. apply add_lock_fresh; auto; lia.
      - apply bind_ok in H1. destruct H1 as (en0 & H0 & H1). inversion H1; subst en1.
        eapply raw_remove_first_fresh; eauto; lia. }
    eapply fresh_ext; [eapply IH; eauto | |]; lia.
Qed.

Definition ub_pay (ub : unbond) : Z * Z := (ub_e ub, ub_locked ub).

Lemma cancel_loop_fresh q : forall en W T now en',
  fresh en W T now -> Forall (fun ub => 0 < ub_locked ub) q -> cancel_loop en now q = Ok en' ->
  fresh en' (W + wsum (map ub_pay q)) (T + tsum (map ub_pay q)) now.
Proof.
  induction q as [|ub t IH]; simpl; intros en W T now en' F P H.
  - inv_ok H. eapply fresh_ext; eauto; lia.
  - inversion P as [|? ? P1 P2]; subst. apply bind_ok in H. destruct H as (en1 & H1 & H).
    assert (F1 : fresh en1 (W + ub_locked ub * ub_e ub) (T + ub_locked ub) now).
    { destruct (now <=? ub_e ub) eqn:E; zb.
      - inv_ok H1. apply add_lock_fresh; auto; lia.
      - eapply raw_add_first_fresh; eauto. }
    eapply fresh_ext; [eapply IH; eauto | |]; lia.
Qed.

(** ------------------------------------------------------------------ ledger *)
(** [ldelta l l' h dw dt]: l' differs from l by dw in sum(amount*unlock) and dt in sum(amount) of holder h *)
Definition ldelta (l l' : ledger) (h dw dt : Z) : Prop :=
  forall v, lweight l' v = lweight l v + (if h =? v then dw else 0) /\
            ltotal l' v = ltotal l v + (if h =? v then dt else 0).

Lemma ldelta_credit l h e a : ldelta l (credit l h e a) h (a * e) a.
Proof. intros v. simpl. destruct (h =? v); lia. Qed.

Lemma ldelta_debit l h e a l' : debit l h e a = Ok l' -> ldelta l l' h (- (a * e)) (- a).
Proof.
  unfold debit. intros H. inv_ok H. intros v. simpl. destruct (h =? v); lia.
Qed.

Lemma ldelta_credit_all ps : forall l h, ldelta l (credit_all l h ps) h (wsum ps) (tsum ps).
Proof.
  induction ps as [|[e a] t IH]; simpl; intros l h v.
  - destruct (h =? v); lia.
  - destruct (IH (credit l h e a) h v) as [A B]. rewrite A, B. simpl. destruct (h =? v); lia.
Qed.

Lemma ldelta_debit_all ps : forall l h l', debit_all l h ps = Ok l' -> ldelta l l' h (- wsum ps) (- tsum ps).
Proof.
  induction ps as [|[e a] t IH]; simpl; intros l h l' H.
  - inv_ok H. intros v. destruct (h =? v); lia.
  - inv_ok H. apply ldelta_debit in Hb. specialize (IH _ _ _ H). intros v.
    destruct (IH v) as [A B]. destruct (Hb v) as [C D]. rewrite A, B, C, D. destruct (h =? v); lia.
Qed.

Lemma lock_tokens_future l h e a now : now < e -> lock_tokens l h e a now = credit l h e a.
Proof. unfold lock_tokens. intros H. destruct (e <=? now) eqn:E; zb; [lia | reflexivity]. Qed.

(** ------------------------------------------------------------------ lock options, month rounding *)
Lemma som_bounds x : som x <= x < som x + EPOCHS_PER_MONTH.
Proof. unfold som. pose proof (Z.mod_pos_bound x _ month_pos). lia. Qed.

Lemma forallb_last {A} (f : A -> bool) l d : l <> [] -> forallb f l = true -> f (last l d) = true.
Proof.
  induction l as [|a t IH]; intros Hne H; [congruence|].
  simpl in H. apply andb_true_iff in H. destruct H as [Ha Ht].
  destruct t as [|b t']; [exact Ha|]. change (last (a :: b :: t') d) with (last (b :: t') d).
  apply IH; [discriminate | exact Ht].
Qed.

Lemma valid_opts_facts opts : valid_opts opts = true ->
  opts <> [] /\ EPOCHS_PER_YEAR <= last_lock opts /\
  (forall le, listed opts le = true -> EPOCHS_PER_YEAR <= le).
Proof.
  unfold valid_opts. intros H. zb.
  assert (Hne : opts <> []) by (destruct opts; [discriminate | discriminate]).
  split; [exact Hne|]. split.
  - unfold last_lock. pose proof (forallb_last _ opts (0, 0) Hne H1) as L. simpl in L. zb. lia.
  - intros le Hl. unfold listed in Hl. apply existsb_exists in Hl. destruct Hl as (o & Hin & Ho). zb.
    rewrite forallb_forall in H1. specialize (H1 _ Hin). zb. lia.
Qed.

Lemma som_upper_future opts now x : EPOCHS_PER_MONTH <= last_lock opts -> now < x -> now < som_upper opts now x.
Proof.
  intros HL Hx. unfold som_upper. pose proof (som_bounds x) as B.
  destruct (x =? som x) eqn:E1; zb; [lia|].
  destruct (som x + EPOCHS_PER_MONTH <=? now) eqn:E2; zb; [lia|].
  destruct (som x + EPOCHS_PER_MONTH - now <=? last_lock opts) eqn:E3; zb; lia.
Qed.

Lemma avg_up_future v1 w1 v2 w2 r now :
  avg_up v1 w1 v2 w2 = Ok r -> now < v1 -> now < v2 -> 0 < w1 -> 0 < w2 -> now < r.
Proof.
  unfold avg_up. intros H H1 H2 P1 P2. apply div_chk_ok in H. destruct H as [Hne ->].
  assert (now + 1 <= (v1 * w1 + v2 * w2 + (w1 + w2) - 1) / (w1 + w2)); [|lia].
  apply Z.div_le_lower_bound; [lia | nia].
Qed.

Lemma merge_loop_spec ps : forall en now acc_e acc_a W T en' me ma,
  fresh en W T now -> now < acc_e -> 0 < acc_a -> all_pos ps = true ->
  merge_loop en now acc_e acc_a ps = Ok (en', me, ma) ->
  fresh en' (W - wsum ps) (T - tsum ps) now /\ now < me /\ ma = acc_a + tsum ps /\ 0 < ma.
Proof.
  induction ps as [|[e a] t IH]; simpl; intros en now acc_e acc_a W T en' me ma F He Ha P H.
  - inv_ok H. split; [eapply fresh_ext; eauto; lia | lia].
  - zb. simpl in *. zb. inv_ok H. zb.
    pose proof (avg_up_future _ _ _ _ _ now Hb0 He E Ha H0) as Hne.
    assert (Hpos : 0 < acc_a + a) by lia.
    destruct (IH _ _ _ _ _ _ _ _ _ (any_fresh _ _ _ _ _ _ _ F Hb) Hne Hpos H1 H) as (F' & M1 & M2 & M3).
    split; [eapply fresh_ext; eauto; lia | lia].
Qed.

(** ------------------------------------------------------------------ the invariant *)
Definition user_ok (s : st) (u : Z) : Prop :=
  stored_ok (eget (s_en s) u) (lweight (s_bal s) u) (ltotal (s_bal s) u) (s_now s).

Record EnergyInv (s : st) : Prop := {
  inv_users : forall u, 0 < u -> user_ok s u;
  inv_nonusers : forall h, h <= 0 -> eget (s_en s) h = zero_energy;     (* contract accounts have no entry *)
  inv_opts : valid_opts (opts_of s) = true;
  inv_unb : Forall (fun p => 0 < ub_locked (snd p)) (s_unb s);
  inv_xf : Forall (fun x => all_pos (xf_funds x) = true) (s_xf s)
}.

Lemma entry_fresh s u : EnergyInv s -> 0 < u ->
  fresh (entry_now s u) (lweight (s_bal s) u) (ltotal (s_bal s) u) (s_now s).
Proof. intros I Hu. apply deplete_fresh. apply (inv_users _ I u Hu). Qed.

Lemma eget_eset_same l u v : eget (eset l u v) u = v.
Proof. unfold eset. simpl. rewrite Z.eqb_refl. reflexivity. Qed.

Lemma eget_eset_other l u v w : u <> w -> eget (eset l u v) w = eget l w.
Proof. unfold eset. simpl. intros H. destruct (u =? w) eqn:E; zb; [contradiction | reflexivity]. Qed.

(** one user's entry is rewritten with a fresh value matching its new holdings; every other user
    account's holdings are untouched *)
Lemma inv_update s s' u en' :
  EnergyInv s -> 0 < u ->
  s_cfg s' = s_cfg s -> s_now s' = s_now s -> s_en s' = eset (s_en s) u en' ->
  (forall v, 0 < v -> v <> u ->
     lweight (s_bal s') v = lweight (s_bal s) v /\ ltotal (s_bal s') v = ltotal (s_bal s) v) ->
  fresh en' (lweight (s_bal s') u) (ltotal (s_bal s') u) (s_now s) ->
  Forall (fun p => 0 < ub_locked (snd p)) (s_unb s') ->
  Forall (fun x => all_pos (xf_funds x) = true) (s_xf s') ->
  EnergyInv s'.
Proof.
  intros I Hu Hc Hn He Hfr Hf Hub Hxf. constructor; auto.
  - intros v Hv. unfold user_ok. rewrite He, Hn. destruct (Z.eq_dec u v) as [->|Hne].
    + rewrite eget_eset_same. apply fresh_stored. exact Hf.
    + rewrite eget_eset_other by assumption. destruct (Hfr v Hv ltac:(congruence)) as [A B].
      rewrite A, B. apply (inv_users _ I v Hv).
  - intros h Hh. rewrite He. rewrite eget_eset_other by lia. apply (inv_nonusers _ I h Hh).
  - unfold opts_of. rewrite Hc. apply (inv_opts _ I).
Qed.

(** no entry is written; user holdings are untouched; time may advance *)
Lemma inv_frame s s' :
  EnergyInv s ->
  s_cfg s' = s_cfg s -> s_now s <= s_now s' -> s_en s' = s_en s ->
  (forall v, 0 < v ->
     lweight (s_bal s') v = lweight (s_bal s) v /\ ltotal (s_bal s') v = ltotal (s_bal s) v) ->
  Forall (fun p => 0 < ub_locked (snd p)) (s_unb s') ->
  Forall (fun x => all_pos (xf_funds x) = true) (s_xf s') ->
  EnergyInv s'.
Proof.
  intros I Hc Hn He Hfr Hub Hxf. constructor; auto.
  - intros v Hv. unfold user_ok. rewrite He. destruct (Hfr v Hv) as [A B]. rewrite A, B.
    destruct (inv_users _ I v Hv) as (P1 & P2 & P3 & P4). repeat split; auto. lia.
  - intros h Hh. rewrite He. apply (inv_nonusers _ I h Hh).
  - unfold opts_of. rewrite Hc. apply (inv_opts _ I).
Qed.

(** ------------------------------------------------------------------ ledger bookkeeping tactics *)
Ltac ledger_facts :=
  repeat match goal with
  | H : debit _ _ _ _ = Ok _ |- _ => apply ldelta_debit in H
  | H : debit_all _ _ _ = Ok _ |- _ => apply ldelta_debit_all in H
  end;
  repeat match goal with
  | |- context [credit ?l ?h ?e ?a] =>
      let x := fresh "bal" in let Hx := fresh "Hc" in
      pose proof (ldelta_credit l h e a) as Hx; set (x := credit l h e a) in *; clearbody x
  | |- context [credit_all ?l ?h ?ps] =>
      let x := fresh "bal" in let Hx := fresh "Hc" in
      pose proof (ldelta_credit_all ps l h) as Hx; set (x := credit_all l h ps) in *; clearbody x
  | H : context [credit ?l ?h ?e ?a] |- _ =>
      let x := fresh "bal" in let Hx := fresh "Hc" in
      pose proof (ldelta_credit l h e a) as Hx; set (x := credit l h e a) in *; clearbody x
  | H : context [credit_all ?l ?h ?ps] |- _ =>
      let x := fresh "bal" in let Hx := fresh "Hc" in
      pose proof (ldelta_credit_all ps l h) as Hx; set (x := credit_all l h ps) in *; clearbody x
  end.

Ltac at_holder v :=
  repeat match goal with
  | H : ldelta _ _ _ _ _ |- _ =>
      let A := fresh "A" in let B := fresh "B" in destruct (H v) as [A B]; clear H
  end;
  repeat match goal with
  | H : context [if ?b then _ else _] |- _ => let E := fresh "E" in destruct b eqn:E
  end; zb; unfold H_UNSTAKE, H_XFER, H_WRAP in *.

Ltac proj := cbn [s_cfg s_now s_en s_bal s_unb s_xf s_slast s_rlast s_wbal set_bal set_en set_unb set_xf
                  set_slast set_rlast set_wbal set_now put_entry].

(** ------------------------------------------------------------------ every endpoint preserves the invariant *)
Lemma ep_lock_inv s amt le dest s' o :
  EnergyInv s -> 0 < dest -> ep_lock s amt le dest = Ok (s', o) -> EnergyInv s'.
Proof.
  intros I Hd H. unfold ep_lock in H. inv_ok H. zb.
  rewrite lock_tokens_future by assumption.
  pose proof (entry_fresh s dest I Hd) as F.
  apply (add_lock_fresh _ _ _ _ amt (som (s_now s + le))) in F; [|lia|lia].
  eapply (inv_update s _ dest); try reflexivity; auto; proj;
    try (apply (inv_unb _ I)); try (apply (inv_xf _ I)).
  - intros v Hv Hne. ledger_facts. at_holder v; lia.
  - ledger_facts. at_holder dest; try lia. eapply fresh_ext; [exact F | lia | lia].
Qed.

Lemma ep_extend_inv s u e amt le dest s' o :
  EnergyInv s -> 0 < u -> ep_extend s u e amt le dest = Ok (s', o) -> EnergyInv s'.
Proof.
  intros I Hu H. unfold ep_extend in H. inv_ok H. zb. subst dest.
  rewrite lock_tokens_future by assumption.
  pose proof (entry_fresh s u I Hu) as F.
  eapply change_fresh in F; [| | |eassumption]; [|lia|lia].
  eapply (inv_update s _ u); try reflexivity; auto; proj;
    try (apply (inv_unb _ I)); try (apply (inv_xf _ I)).
  - intros v Hv Hne. ledger_facts. at_holder v; lia.
  - ledger_facts. at_holder u; try lia. eapply fresh_ext; [exact F | lia | lia].
Qed.

Lemma ep_unlock_inv s c ps s' o :
  EnergyInv s -> 0 < c -> ep_unlock s c ps = Ok (s', o) -> EnergyInv s'.
Proof.
  intros I Hu H. unfold ep_unlock in H. inv_ok H.
  pose proof (entry_fresh s c I Hu) as F.
  eapply unlock_loop_fresh in F; [|eassumption].
  eapply (inv_update s _ c); try reflexivity; auto; proj;
    try (apply (inv_unb _ I)); try (apply (inv_xf _ I)).
  - intros v Hv Hne. ledger_facts. at_holder v; lia.
  - ledger_facts. at_holder c; try lia. eapply fresh_ext; [exact F | lia | lia].
Qed.

Lemma ep_merge_spec s u ps s' o :
  EnergyInv s -> 0 < u -> ep_merge s u ps = Ok (s', o) ->
  EnergyInv s' /\ exists ne ma, o = [ne; ma] /\ s_now s < ne /\ 0 < ma.
Proof.
  intros I Hu H. unfold ep_merge in H.
  apply bind_ok in H. destruct H as (bal1 & Hd & H).
  destruct (forallb (fun p => 0 <? snd p) ps) eqn:Hpos; [|discriminate].
  destruct ps as [|[e0 a0] t]; [discriminate|].
  inv_ok H. clear E0. zb.
  change (forallb (fun p => 0 <? snd p) ((e0, a0) :: t)) with (all_pos ((e0, a0) :: t)) in Hpos.
  unfold all_pos in Hpos. simpl in Hpos. apply andb_true_iff in Hpos. destruct Hpos as [Pa Pt]. zb.
  pose proof (entry_fresh s u I Hu) as F.
  eapply any_fresh in F; [|eassumption].
  destruct (merge_loop_spec _ _ _ _ _ _ _ _ _ _ F E Pa Pt Hb0) as (F2 & Hme & Hma & Hmp).
  destruct (valid_opts_facts _ (inv_opts _ I)) as (_ & HL & _).
  assert (Hne : s_now s < som_upper (opts_of s) (s_now s) z0).
  { apply som_upper_future; [pose proof month_le_year; lia | exact Hme]. }
  rewrite lock_tokens_future by assumption.
  apply (add_lock_fresh _ _ _ _ z (som_upper (opts_of s) (s_now s) z0)) in F2; [|lia|lia].
  split; [|eauto 6].
  eapply (inv_update s _ u); try reflexivity; auto; proj;
    try (apply (inv_unb _ I)); try (apply (inv_xf _ I)).
  - intros v Hv Hne'. ledger_facts. at_holder v; lia.
  - ledger_facts. at_holder u; try lia. simpl in *. eapply fresh_ext; [exact F2 | lia | lia].
Qed.

Lemma reduce_common_spec s c e amt ole en1 nle lft :
  EnergyInv s -> 0 < c -> reduce_common s c e amt ole = Ok (en1, nle, lft) ->
  fresh en1 (lweight (s_bal s) c - amt * e) (ltotal (s_bal s) c - amt) (s_now s) /\
  0 < lft /\ 0 < amt /\ s_now s < e /\
  match ole with
  | Some le => listed (opts_of s) le = true -> 0 < nle /\ s_now s + nle = som (s_now s + le)
  | None => nle = 0
  end.
Proof.
  intros I Hc H. unfold reduce_common in H. inv_ok H. zb.
  split; [eapply early_fresh; [apply entry_fresh; auto | lia | eassumption]|].
  split; [lia|]. split; [lia|]. split; [lia|].
  destruct ole as [le|].
  - intros Hl. apply sub_chk_ok in Hb. destruct Hb as [_ ->].
    destruct (valid_opts_facts _ (inv_opts _ I)) as (_ & _ & HY). specialize (HY _ Hl).
    pose proof (som_bounds (s_now s + le)). pose proof month_le_year. lia.
  - inversion Hb. reflexivity.
Qed.

Lemma ep_unlock_early_inv s c e amt s' o :
  EnergyInv s -> 0 < c -> ep_unlock_early s c e amt = Ok (s', o) -> EnergyInv s'.
Proof.
  intros I Hc H. unfold ep_unlock_early in H.
  apply bind_ok in H. destruct H as (bal0 & Hd & H).
  apply bind_ok in H. destruct H as ([[en1 nle] lft] & Hr & H). inversion H; subst s' o; clear H.
  destruct (reduce_common_spec _ _ _ _ _ _ _ _ I Hc Hr) as (F & Hl & Ha & He & _).
  eapply (inv_update s _ c); try reflexivity; auto; proj; try (apply (inv_xf _ I)).
  - intros v Hv Hne. ledger_facts. at_holder v; lia.
  - ledger_facts. at_holder c; try lia. eapply fresh_ext; [exact F | lia | lia].
  - apply Forall_app. split; [apply (inv_unb _ I)|]. constructor; [simpl; lia | constructor].
Qed.

Lemma ep_reduce_spec s c e amt le s' o :
  EnergyInv s -> 0 < c -> ep_reduce s c e amt le = Ok (s', o) ->
  EnergyInv s' /\ exists ne ma, o = [ne; ma] /\ s_now s < ne /\ 0 < ma.
Proof.
  intros I Hc H. unfold ep_reduce in H.
  destruct (listed (opts_of s) le) eqn:Hl; [|discriminate].
  apply bind_ok in H. destruct H as (bal0 & Hd & H).
  apply bind_ok in H. destruct H as ([[en1 nle] lft] & Hr & H). inversion H; subst s' o; clear H.
  destruct (reduce_common_spec _ _ _ _ _ _ _ _ I Hc Hr) as (F & Hlf & Ha & He & Hn).
  destruct (Hn Hl) as [Hn1 Hn2].
  rewrite lock_tokens_future by lia.
  apply (add_lock_fresh _ _ _ _ lft (s_now s + nle)) in F; [|lia|lia].
  split; [|exists (s_now s + nle), lft; repeat split; lia].
  eapply (inv_update s _ c); try reflexivity; auto; proj;
    try (apply (inv_unb _ I)); try (apply (inv_xf _ I)).
  - intros v Hv Hne. ledger_facts. at_holder v; lia.
  - ledger_facts. at_holder c; try lia. eapply fresh_ext; [exact F | lia | lia].
Qed.

Lemma claim_scan_kept (P : Z * unbond -> Prop) l : forall u now fuel stopped,
  Forall P l -> Forall P (fst (claim_scan l u now fuel stopped)).
Proof.
  induction l as [|[k ub] t IH]; simpl; intros u now fuel stopped H; [constructor|].
  inversion H as [|? ? Hh Ht]; subst.
  destruct (negb (k =? u)).
  - specialize (IH u now fuel stopped Ht). destruct (claim_scan t u now fuel stopped). simpl in *. constructor; auto.
  - destruct stopped.
    + specialize (IH u now fuel true Ht). destruct (claim_scan t u now fuel true). simpl in *. constructor; auto.
    + destruct fuel as [|f].
      * specialize (IH u now O true Ht). destruct (claim_scan t u now O true). simpl in *. constructor; auto.
      * destruct (now <? ub_at ub).
        -- specialize (IH u now (S f) true Ht). destruct (claim_scan t u now (S f) true). simpl in *. constructor; auto.
        -- specialize (IH u now f false Ht). destruct (claim_scan t u now f false). simpl in *. auto.
Qed.

Lemma ep_claim_inv s c s' o : EnergyInv s -> ep_claim s c = Ok (s', o) -> EnergyInv s'.
Proof.
  intros I H. unfold ep_claim in H.
  pose proof (claim_scan_kept _ (s_unb s) c (s_now s) (Z.to_nat MAX_CLAIM_UNLOCKED_TOKENS) false (inv_unb _ I)) as K.
  destruct (claim_scan (s_unb s) c (s_now s) (Z.to_nat MAX_CLAIM_UNLOCKED_TOKENS) false) as [kept got].
  inv_ok H. simpl in K.
  eapply (inv_frame s); try reflexivity; auto; proj; try lia; try (apply (inv_xf _ I)); auto.
  intros v Hv. ledger_facts. at_holder v; lia.
Qed.

Lemma queue_pos s c : EnergyInv s -> Forall (fun ub => 0 < ub_locked ub) (queue_of (s_unb s) c).
Proof.
  intros I. unfold queue_of. apply Forall_forall. intros ub Hin.
  apply in_map_iff in Hin. destruct Hin as ([k ub'] & <- & Hin). apply filter_In in Hin. destruct Hin as [Hin _].
  pose proof (inv_unb _ I) as U. rewrite Forall_forall in U. exact (U _ Hin).
Qed.

Lemma Forall_filter_keep {A} (P : A -> Prop) f l : Forall P l -> Forall P (filter f l).
Proof.
  intros H. apply Forall_forall. intros x Hin. apply filter_In in Hin. destruct Hin as [Hin _].
  rewrite Forall_forall in H. auto.
Qed.

Lemma ep_cancel_unbond_inv s c s' o :
  EnergyInv s -> 0 < c -> ep_cancel_unbond s c = Ok (s', o) -> EnergyInv s'.
Proof.
  intros I Hc H. unfold ep_cancel_unbond in H. inv_ok H.
  pose proof (entry_fresh s c I Hc) as F.
  eapply cancel_loop_fresh in F; [| apply queue_pos; exact I | eassumption].
  change (map (fun ub => (ub_e ub, ub_locked ub)) (queue_of (s_unb s) c)) with (map ub_pay (queue_of (s_unb s) c)) in *.
  eapply (inv_update s _ c); try reflexivity; auto; proj; try (apply (inv_xf _ I)).
  - intros v Hv Hne. ledger_facts. at_holder v; lia.
  - ledger_facts. at_holder c; try lia. eapply fresh_ext; [exact F | lia | lia].
  - apply Forall_filter_keep. apply (inv_unb _ I).
Qed.

Lemma find_xf_pos s r sd x : EnergyInv s -> find_xf (s_xf s) r sd = Some x -> all_pos (xf_funds x) = true.
Proof.
  intros I H. unfold find_xf in H. apply find_some in H. destruct H as [Hin _].
  pose proof (inv_xf _ I) as X. rewrite Forall_forall in X. exact (X _ Hin).
Qed.

Lemma ep_lock_funds_inv s sender receiver ps s' o :
  EnergyInv s -> 0 < sender -> ep_lock_funds s sender receiver ps = Ok (s', o) -> EnergyInv s'.
Proof.
  intros I Hc H. unfold ep_lock_funds in H.
  apply bind_ok in H. destruct H as (bal1 & Hd & H).
  destruct (forallb (fun p => 0 <? snd p) ps) eqn:Hpos; [|discriminate].
  inv_ok H.
  pose proof (entry_fresh s sender I Hc) as F.
  eapply deduct_loop_fresh in F; [|eassumption].
  eapply (inv_update s _ sender); try reflexivity; auto; proj; try (apply (inv_unb _ I)).
  - intros v Hv Hne. ledger_facts. at_holder v; lia.
  - ledger_facts. at_holder sender; try lia. eapply fresh_ext; [exact F | lia | lia].
  - apply Forall_app. split; [apply (inv_xf _ I)|]. constructor; [exact Hpos | constructor].
Qed.

Lemma ep_withdraw_inv s receiver sender s' o :
  EnergyInv s -> 0 < receiver -> ep_withdraw s receiver sender = Ok (s', o) -> EnergyInv s'.
Proof.
  intros I Hc H. unfold ep_withdraw in H.
  destruct (negb (on_cooldown s (aget (s_rlast s) receiver))); [|discriminate].
  destruct (find_xf (s_xf s) receiver sender) as [x|] eqn:Hf; [|discriminate].
  pose proof (find_xf_pos _ _ _ _ I Hf) as Hpos.
  inv_ok H.
  pose proof (entry_fresh s receiver I Hc) as F.
  eapply add_dest_loop_fresh in F; [| exact Hpos | eassumption].
  eapply (inv_update s _ receiver); try reflexivity; auto; proj; try (apply (inv_unb _ I)).
  - intros v Hv Hne. ledger_facts. at_holder v; lia.
  - ledger_facts. at_holder receiver; try lia. eapply fresh_ext; [exact F | lia | lia].
  - apply Forall_filter_keep. apply (inv_xf _ I).
Qed.

Lemma ep_cancel_transfer_inv s c sender receiver s' o :
  EnergyInv s -> 0 < sender -> ep_cancel_transfer s c sender receiver = Ok (s', o) -> EnergyInv s'.
Proof.
  intros I Hc H. unfold ep_cancel_transfer in H.
  destruct (c =? ADMIN); [|discriminate].
  destruct (find_xf (s_xf s) receiver sender) as [x|] eqn:Hf; [|discriminate].
  pose proof (find_xf_pos _ _ _ _ I Hf) as Hpos.
  inv_ok H.
  pose proof (entry_fresh s sender I Hc) as F.
  eapply add_dest_loop_fresh in F; [| exact Hpos | eassumption].
  eapply (inv_update s _ sender); try reflexivity; auto; proj; try (apply (inv_unb _ I)).
  - intros v Hv Hne. ledger_facts. at_holder v; lia.
  - ledger_facts. at_holder sender; try lia. eapply fresh_ext; [exact F | lia | lia].
  - apply Forall_filter_keep. apply (inv_xf _ I).
Qed.

Lemma ep_wrap_inv s c e amt s' o :
  EnergyInv s -> 0 < c -> ep_wrap s c e amt = Ok (s', o) -> EnergyInv s'.
Proof.
  intros I Hc H. unfold ep_wrap in H.
  apply bind_ok in H. destruct H as (bal0 & Hd & H).
  destruct (0 <? amt) eqn:Ha; [|discriminate].
  apply bind_ok in H. destruct H as (en1 & Hl & H). inversion H; subst s' o; clear H.
  pose proof (entry_fresh s c I Hc) as F.
  eapply deduct_loop_fresh in F; [|eassumption]. simpl in F.
  eapply (inv_update s _ c); try reflexivity; auto; proj;
    try (apply (inv_unb _ I)); try (apply (inv_xf _ I)).
  - intros v Hv Hne. ledger_facts. at_holder v; lia.
  - ledger_facts. at_holder c; try lia. eapply fresh_ext; [exact F | lia | lia].
Qed.

Lemma ep_unwrap_inv s c e amt s' o :
  EnergyInv s -> 0 < c -> ep_unwrap s c e amt = Ok (s', o) -> EnergyInv s'.
Proof.
  intros I Hc H. unfold ep_unwrap in H.
  apply bind_ok in H. destruct H as (w1 & Hw & H). clear Hw.
  destruct (0 <? amt) eqn:Ha; [|discriminate].
  apply bind_ok in H. destruct H as (en1 & Hl & H).
  apply bind_ok in H. destruct H as (bal0 & Hd & H). inversion H; subst s' o; clear H.
  pose proof (entry_fresh s c I Hc) as F.
  eapply add_dest_loop_fresh in F; [| | eassumption]; [|unfold all_pos; simpl; rewrite Ha; reflexivity].
  simpl in F.
  eapply (inv_update s _ c); try reflexivity; auto; proj;
    try (apply (inv_unb _ I)); try (apply (inv_xf _ I)).
  - intros v Hv Hne. ledger_facts. at_holder v; lia.
  - ledger_facts. at_holder c; try lia. eapply fresh_ext; [exact F | lia | lia].
Qed.

Lemma ep_wtransfer_inv s a b e amt s' o : EnergyInv s -> ep_wtransfer s a b e amt = Ok (s', o) -> EnergyInv s'.
Proof.
  intros I H. unfold ep_wtransfer in H. inv_ok H.
  eapply (inv_frame s); try reflexivity; auto; proj; try lia;
    try (apply (inv_unb _ I)); try (apply (inv_xf _ I)); auto.
Qed.

Lemma ep_advance_inv s d s' o : EnergyInv s -> ep_advance s d = Ok (s', o) -> EnergyInv s'.
Proof.
  intros I H. unfold ep_advance in H. inv_ok H. zb.
  eapply (inv_frame s); try reflexivity; auto; proj; try lia;
    try (apply (inv_unb _ I)); try (apply (inv_xf _ I)); auto.
Qed.

Theorem step_inv s op s' o : EnergyInv s -> step s op = Ok (s', o) -> EnergyInv s'.
Proof.
  intros I H. unfold step in H.
  destruct (accounts_ok op) eqn:Ha; [|discriminate].
  destruct op; simpl in Ha; unfold is_user in Ha; zb.
  - eapply ep_lock_inv; [exact I | | exact H]; assumption.
  - eapply ep_lock_inv; [exact I | | exact H]; assumption.
  - eapply ep_extend_inv; [exact I | | exact H]; assumption.
  - eapply ep_extend_inv; [exact I | | exact H]; assumption.
  - eapply proj1, ep_merge_spec; [exact I | | exact H]; assumption.
  - eapply proj1, ep_merge_spec; [exact I | | exact H]; assumption.
  - eapply proj1, ep_reduce_spec; [exact I | | exact H]; assumption.
  - eapply ep_unlock_inv; [exact I | | exact H]; assumption.
  - eapply ep_unlock_early_inv; [exact I | | exact H]; assumption.
  - eapply ep_claim_inv; [exact I | exact H].
  - eapply ep_cancel_unbond_inv; [exact I | | exact H]; assumption.
  - eapply ep_lock_funds_inv; [exact I | | exact H]; assumption.
  - eapply ep_withdraw_inv; [exact I | | exact H]; assumption.
  - eapply ep_cancel_transfer_inv; [exact I | | exact H]; assumption.
  - eapply ep_wrap_inv; [exact I | | exact H]; assumption.
  - eapply ep_unwrap_inv; [exact I | | exact H]; assumption.
  - eapply ep_wtransfer_inv; [exact I | exact H].
  - discriminate.
  - eapply ep_advance_inv; [exact I | exact H].
Qed.

Lemma step_total_inv s op : EnergyInv s -> EnergyInv (step_total s op).
Proof.
  intros I. unfold step_total. destruct (step s op) as [[s' o]|] eqn:E; [|exact I].
  eapply step_inv; eauto.
Qed.

Lemma run_inv ops : forall s, EnergyInv s -> EnergyInv (run s ops).
Proof.
  unfold run. induction ops as [|op t IH]; simpl; intros s I; [exact I|].
  apply IH. apply step_total_inv. exact I.
Qed.

Lemma init_inv c epoch : valid_opts (c_opts c) = true -> 0 <= epoch -> EnergyInv (init_state c epoch).
Proof.
  intros Hv He. constructor; simpl; auto.
  - intros u Hu. unfold user_ok, stored_ok. simpl. repeat split; lia.
Qed.

(** ------------------------------------------------------------------ the property's sum, over balances
    The ledger records signed changes; the property speaks about balances.  [epochs_of l h] lists,
    without repetition, the unlock epochs of the tokens the ledger mentions for holder [h];
    [lget l h e] is h's balance of the token with unlock epoch e.  The sums below are the
    property's "sum over the locked tokens attributed to the account". *)
Definition sumf (f : Z -> Z) (es : list Z) : Z := fold_right (fun e acc => f e + acc) 0 es.

Definition epochs_of (l : ledger) (h : Z) : list Z :=
  nodup Z.eq_dec (map (fun x => snd (fst x)) (filter (fun x => fst (fst x) =? h) l)).

Definition spec_energy (l : ledger) (h now : Z) : Z := sumf (fun e => lget l h e * (e - now)) (epochs_of l h).
Definition spec_total (l : ledger) (h : Z) : Z := sumf (fun e => lget l h e) (epochs_of l h).

Fixpoint gsum (g : Z -> Z) (l : ledger) (h : Z) : Z :=
  match l with
  | [] => 0
  | (h', e, a) :: t => (if h' =? h then a * g e else 0) + gsum g t h
  end.

Lemma sumf_zero f es : (forall e, f e = 0) -> sumf f es = 0.
Proof. intros H. induction es; simpl; [reflexivity | rewrite H, IHes; reflexivity]. Qed.

Lemma sumf_add f1 f2 es : sumf (fun e => f1 e + f2 e) es = sumf f1 es + sumf f2 es.
Proof. induction es; simpl; lia. Qed.

Lemma sumf_ext f1 f2 es : (forall e, f1 e = f2 e) -> sumf f1 es = sumf f2 es.
Proof. intros H. induction es; simpl; [reflexivity | rewrite H, IHes; reflexivity]. Qed.

Lemma sumf_pick c g x es : NoDup es ->
  sumf (fun e => (if x =? e then c else 0) * g e) es = if in_dec Z.eq_dec x es then c * g x else 0.
Proof.
  induction es as [|y t IH]; simpl; intros Hnd; [reflexivity|].
  inversion Hnd as [|? ? Hnin Hnd']; subst. rewrite (IH Hnd').
  destruct (Z.eq_dec y x) as [->|Hne].
  - rewrite Z.eqb_refl. destruct (in_dec Z.eq_dec x t); [contradiction | lia].
  - destruct (x =? y) eqn:E; zb; [congruence|]. destruct (in_dec Z.eq_dec x t); lia.
Qed.

Lemma balance_sum g l h : forall es, NoDup es ->
  (forall h' e a, In (h', e, a) l -> h' = h -> In e es) ->
  sumf (fun e => lget l h e * g e) es = gsum g l h.
Proof.
  induction l as [|[[h' e'] a'] t IH]; simpl; intros es Hnd Hcov.
  - apply sumf_zero. intros e. reflexivity.
  - rewrite (sumf_ext _ (fun e => (if (h' =? h) && (e' =? e) then a' else 0) * g e + lget t h e * g e))
      by (intros e; ring).
    rewrite sumf_add. rewrite (IH es Hnd) by (intros; eapply Hcov; eauto).
    destruct (h' =? h) eqn:E; zb; simpl.
    + rewrite (sumf_pick a' g e' es Hnd).
      destruct (in_dec Z.eq_dec e' es) as [_|Hnin]; [reflexivity|].
      exfalso. apply Hnin. eapply Hcov; [left; reflexivity | assumption].
    + rewrite sumf_zero by (intros e; reflexivity). reflexivity.
Qed.

Lemma epochs_cover l h : forall h' e a, In (h', e, a) l -> h' = h -> In e (epochs_of l h).
Proof.
  intros h' e a Hin ->. unfold epochs_of. apply nodup_In. apply in_map_iff.
  exists (h, e, a). split; [reflexivity|]. apply filter_In. split; [exact Hin|]. simpl. apply Z.eqb_refl.
Qed.

Lemma gsum_weight l h : gsum (fun e => e) l h = lweight l h.
Proof. induction l as [|[[h' e] a] t IH]; simpl; [reflexivity | rewrite IH; reflexivity]. Qed.

Lemma gsum_total l h : gsum (fun _ => 1) l h = ltotal l h.
Proof. induction l as [|[[h' e] a] t IH]; simpl; [reflexivity | rewrite IH; destruct (h' =? h); lia]. Qed.

Lemma gsum_shift l h now : gsum (fun e => e - now) l h = lweight l h - now * ltotal l h.
Proof. induction l as [|[[h' e] a] t IH]; simpl; [lia | rewrite IH; destruct (h' =? h); lia]. Qed.

Lemma spec_energy_eq l h now : spec_energy l h now = lweight l h - now * ltotal l h.
Proof.
  unfold spec_energy. rewrite (balance_sum (fun e => e - now) l h (epochs_of l h)).
  - apply gsum_shift.
  - apply NoDup_nodup.
  - apply epochs_cover.
Qed.

Lemma spec_total_eq l h : spec_total l h = ltotal l h.
Proof.
  unfold spec_total. rewrite (sumf_ext _ (fun e => lget l h e * 1)) by (intros; ring).
  rewrite (balance_sum (fun _ => 1) l h (epochs_of l h)).
  - apply gsum_total.
  - apply NoDup_nodup.
  - apply epochs_cover.
Qed.

(** what the invariant says about the views *)
Theorem inv_view s u : EnergyInv s -> 0 < u ->
  e_amt (view_entry s u) = spec_energy (s_bal s) u (s_now s) /\
  e_tot (view_entry s u) = spec_total (s_bal s) u /\
  e_upd (view_entry s u) = s_now s /\
  view_amount s u = Z.max 0 (spec_energy (s_bal s) u (s_now s)).
Proof.
  intros I Hu. destruct (entry_fresh s u I Hu) as (U & A & T & P).
  unfold view_entry, view_amount, get_energy_amount. rewrite spec_energy_eq, spec_total_eq.
  repeat split; auto. rewrite A. destruct (0 <? lweight (s_bal s) u - s_now s * ltotal (s_bal s) u) eqn:E; zb; lia.
Qed.

(** contract accounts (the escrows among them) never get an entry: whatever they hold counts for nobody *)
Theorem inv_escrow s h : EnergyInv s -> h <= 0 ->
  view_entry s h = mkEn 0 (s_now s) 0 /\ view_amount s h = 0.
Proof.
  intros I Hh. unfold view_amount, get_energy_amount, view_entry, entry_now. rewrite (inv_nonusers _ I h Hh).
  unfold deplete, zero_energy. cbn [e_upd e_tot e_amt].
  destruct (0 =? s_now s) eqn:E.
  - apply Z.eqb_eq in E. rewrite <- E. split; reflexivity.
  - cbn. split; reflexivity.
Qed.

(** an operation whose balance changes [d] concern other holders only (other accounts, the escrows)
    leaves the account's reported energy alone: tokens moving into, inside or out of escrow, or
    between other accounts, never show up in a third party's entry *)
Lemma ledger_other_holders d l u : Forall (fun x => fst (fst x) <> u) d ->
  lweight (d ++ l) u = lweight l u /\ ltotal (d ++ l) u = ltotal l u /\ (forall e, lget (d ++ l) u e = lget l u e).
Proof.
  induction d as [|[[h e] a] t IH]; simpl; intros H; [auto|].
  inversion H as [|? ? Hh Ht]; subst. simpl in Hh. destruct (IH Ht) as (A & B & C).
  destruct (h =? u) eqn:E; zb; [contradiction|]. simpl. rewrite A, B. repeat split; auto.
Qed.

Theorem inv_frame_view s s' u d : EnergyInv s -> EnergyInv s' -> 0 < u -> s_now s' = s_now s ->
  s_bal s' = d ++ s_bal s -> Forall (fun x => fst (fst x) <> u) d ->
  view_entry s' u = view_entry s u /\ (forall e, lget (s_bal s') u e = lget (s_bal s) u e).
Proof.
  intros I I' Hu Hn Hb Hd.
  destruct (ledger_other_holders d (s_bal s) u Hd) as (LW & LT & LG). rewrite <- Hb in LW, LT, LG.
  split; [|exact LG].
  destruct (entry_fresh s u I Hu) as (U & A & T & _). destruct (entry_fresh s' u I' Hu) as (U' & A' & T' & _).
  unfold view_entry. destruct (entry_now s' u), (entry_now s u). simpl in *. rewrite LW, LT, Hn in *. congruence.
Qed.

(** every lock / extend / merge / reduce that succeeds produces a token whose unlock epoch is in the
    future (so [lock_tokens] never hands the payment back unlocked and [add_after_token_lock] never
    drops its term) *)
Lemma ep_lock_out s amt le dest s' o : ep_lock s amt le dest = Ok (s', o) ->
  exists ne ma, o = [ne; ma] /\ s_now s < ne /\ 0 < ma.
Proof. unfold ep_lock. intros H. inv_ok H. zb. eauto 6. Qed.

Lemma ep_extend_out s u e amt le dest s' o : ep_extend s u e amt le dest = Ok (s', o) ->
  exists ne ma, o = [ne; ma] /\ s_now s < ne /\ 0 < ma.
Proof. unfold ep_extend. intros H. inv_ok H. zb. eauto 6. Qed.

Definition makes_token (op : eop) : bool :=
  match op with
  | Lock _ _ _ _ | LockVirtual _ _ _ | Extend _ _ _ _ _ | ExtendVia _ _ _ _
  | Merge _ _ | MergeVia _ _ | Reduce _ _ _ _ => true
  | _ => false
  end.

Theorem new_token_in_future s op s' o : EnergyInv s -> makes_token op = true -> step s op = Ok (s', o) ->
  exists ne ma, o = [ne; ma] /\ s_now s < ne /\ 0 < ma.
Proof.
  intros I Hm H. unfold step in H.
  destruct (accounts_ok op) eqn:Ha; [|discriminate].
  destruct op; try discriminate Hm; simpl in Ha; unfold is_user in Ha; zb.
  - eapply ep_lock_out; eauto.
  - eapply ep_lock_out; eauto.
  - eapply ep_extend_out; eauto.
  - eapply ep_extend_out; eauto.
  - eapply proj2, ep_merge_spec; [exact I | | exact H]; assumption.
  - eapply proj2, ep_merge_spec; [exact I | | exact H]; assumption.
  - eapply proj2, ep_reduce_spec; [exact I | | exact H]; assumption.
Qed.

Lemma spec_meaning l u now :
  spec_energy l u now = fold_right (fun e acc => lget l u e * (e - now) + acc) 0 (epochs_of l u) /\
  spec_total l u = fold_right (fun e acc => lget l u e + acc) 0 (epochs_of l u) /\
  NoDup (epochs_of l u) /\
  (forall e, ~ In e (epochs_of l u) -> lget l u e = 0).
Proof.
  split; [reflexivity|]. split; [reflexivity|]. split; [apply NoDup_nodup|].
  intros e Hnin. induction l as [|[[h' e'] a'] t IH]; simpl; [reflexivity|].
  destruct ((h' =? u) && (e' =? e)) eqn:E.
  - exfalso. apply Hnin. zb. subst. eapply epochs_cover; [left; reflexivity | reflexivity].
  - rewrite IH; [reflexivity|]. intros Hin. apply Hnin. unfold epochs_of in *. apply nodup_In. apply nodup_In in Hin.
    simpl. destruct (h' =? u); simpl; auto.
Qed.

Lemma reach_inv c epoch ops : valid_opts (c_opts c) = true -> 0 <= epoch -> EnergyInv (run (init_state c epoch) ops).
Proof. intros. apply run_inv. apply init_inv; assumption. Qed.

Lemma reach_view c epoch ops u : valid_opts (c_opts c) = true -> 0 <= epoch -> 0 < u ->
  let s := run (init_state c epoch) ops in
  e_amt (view_entry s u) = spec_energy (s_bal s) u (s_now s) /\
  e_tot (view_entry s u) = spec_total (s_bal s) u /\
  view_amount s u = Z.max 0 (spec_energy (s_bal s) u (s_now s)).
Proof.
  intros Hv He Hu s. destruct (inv_view s u (reach_inv c epoch ops Hv He) Hu) as (A & B & _ & D). auto.
Qed.

(** ------------------------------------------------------------------ escrow accounts hold exactly what is pending *)
Fixpoint psum_e (ps : list (Z * Z)) (e : Z) : Z :=
  match ps with [] => 0 | (e', a) :: t => (if e' =? e then a else 0) + psum_e t e end.
Fixpoint usum (l : list (Z * unbond)) (e : Z) : Z :=
  match l with [] => 0 | (_, ub) :: t => (if ub_e ub =? e then ub_locked ub else 0) + usum t e end.
Fixpoint xsum (l : list xfer) (e : Z) : Z :=
  match l with [] => 0 | x :: t => psum_e (xf_funds x) e + xsum t e end.
Fixpoint lsum_e (l : ledger) (e : Z) : Z :=
  match l with [] => 0 | (_, e', a) :: t => (if e' =? e then a else 0) + lsum_e t e end.

(** locked tokens of unlock epoch [e] waiting in the unbond queue / in scheduled transfers / wrapped *)
Definition unbonding (s : st) (e : Z) : Z := usum (s_unb s) e.
Definition in_transfer (s : st) (e : Z) : Z := xsum (s_xf s) e.
Definition wrapped_supply (s : st) (e : Z) : Z := lsum_e (s_wbal s) e.

Definition xf_key (x : xfer) : Z * Z := (xf_recv x, xf_send x).

Record EscInv (s : st) : Prop := {
  esc_unb : forall e, lget (s_bal s) H_UNSTAKE e = unbonding s e;
  esc_xf : forall e, lget (s_bal s) H_XFER e = in_transfer s e;
  esc_wrap : forall e, lget (s_bal s) H_WRAP e = wrapped_supply s e;
  esc_keys : NoDup (map xf_key (s_xf s))
}.

(** pointwise effect of ledger operations *)
Definition lpt (l l' : ledger) (h : Z) (f : Z -> Z) : Prop :=
  forall H e0, lget l' H e0 = lget l H e0 + (if h =? H then f e0 else 0).

Lemma lpt_credit l h e a : lpt l (credit l h e a) h (fun e0 => if e =? e0 then a else 0).
Proof. intros H e0. simpl. destruct (h =? H); simpl; [destruct (e =? e0)|]; lia. Qed.

Lemma lpt_debit l h e a l' : debit l h e a = Ok l' -> lpt l l' h (fun e0 => - (if e =? e0 then a else 0)).
Proof. unfold debit. intros X. inv_ok X. intros H e0. simpl. destruct (h =? H); simpl; [destruct (e =? e0)|]; lia. Qed.

Lemma lpt_credit_all ps : forall l h, lpt l (credit_all l h ps) h (fun e0 => psum_e ps e0).
Proof.
  induction ps as [|[e a] t IH]; simpl; intros l h H e0.
  - destruct (h =? H); lia.
  - rewrite (IH (credit l h e a) h H e0). rewrite (lpt_credit l h e a H e0). destruct (h =? H); lia.
Qed.

Lemma lpt_debit_all ps : forall l h l', debit_all l h ps = Ok l' -> lpt l l' h (fun e0 => - psum_e ps e0).
Proof.
  induction ps as [|[e a] t IH]; simpl; intros l h l' X.
  - inv_ok X. intros H e0. destruct (h =? H); lia.
  - inv_ok X. intros H e0. rewrite (IH _ _ _ X H e0). rewrite (lpt_debit _ _ _ _ _ Hb H e0). destruct (h =? H); lia.
Qed.

Lemma lsum_debit l h e a l' e0 : debit l h e a = Ok l' -> lsum_e l' e0 = lsum_e l e0 - (if e =? e0 then a else 0).
Proof. unfold debit. intros X. inv_ok X. simpl. destruct (e =? e0); lia. Qed.

Lemma usum_app l1 l2 e : usum (l1 ++ l2) e = usum l1 e + usum l2 e.
Proof. induction l1 as [|[k ub] t IH]; simpl; [lia | rewrite IH; lia]. Qed.

Lemma xsum_app l1 l2 e : xsum (l1 ++ l2) e = xsum l1 e + xsum l2 e.
Proof. induction l1 as [|x t IH]; simpl; [lia | rewrite IH; lia]. Qed.

Lemma claim_scan_split l e : forall u now fuel stopped,
  usum l e = usum (fst (claim_scan l u now fuel stopped)) e + psum_e (map ub_pay (snd (claim_scan l u now fuel stopped))) e.
Proof.
  induction l as [|[k ub] t IH]; simpl; intros u now fuel stopped; [reflexivity|].
  destruct (negb (k =? u)).
  - rewrite (IH u now fuel stopped). destruct (claim_scan t u now fuel stopped). simpl. lia.
  - destruct stopped.
    + rewrite (IH u now fuel true). destruct (claim_scan t u now fuel true). simpl. lia.
    + destruct fuel as [|f].
      * rewrite (IH u now O true). destruct (claim_scan t u now O true). simpl. lia.
      * destruct (now <? ub_at ub).
        -- rewrite (IH u now (S f) true). destruct (claim_scan t u now (S f) true). simpl. lia.
        -- rewrite (IH u now f false). destruct (claim_scan t u now f false). simpl. lia.
Qed.

Lemma queue_split l c e :
  usum l e = usum (filter (fun p => negb (fst p =? c)) l) e + psum_e (map ub_pay (queue_of l c)) e.
Proof.
  unfold queue_of. induction l as [|[k ub] t IH]; simpl; [reflexivity|].
  destruct (k =? c); simpl; rewrite IH; lia.
Qed.

Lemma filter_all {A} (f : A -> bool) l : (forall x, In x l -> f x = true) -> filter f l = l.
Proof.
  induction l as [|a t IH]; simpl; intros H; [reflexivity|].
  rewrite (H a (or_introl eq_refl)). rewrite IH; [reflexivity | intros; apply H; right; assumption].
Qed.

Lemma xf_match_key r sd x : xf_match r sd x = true <-> xf_key x = (r, sd).
Proof.
  unfold xf_match, xf_key. split.
  - intros H. zb. congruence.
  - intros H. inversion H. rewrite !Z.eqb_refl. reflexivity.
Qed.

Lemma xfer_remove l r sd x e : find_xf l r sd = Some x -> NoDup (map xf_key l) ->
  xsum l e = xsum (filter (fun y => negb (xf_match r sd y)) l) e + psum_e (xf_funds x) e.
Proof.
  unfold find_xf. induction l as [|y t IH]; simpl; intros Hf Hnd; [discriminate|].
  inversion Hnd as [|? ? Hnin Hnd']; subst.
  destruct (xf_match r sd y) eqn:E; simpl.
  - inversion Hf; subst y. rewrite filter_all; [lia|].
    intros z Hz. apply negb_true_iff. destruct (xf_match r sd z) eqn:Ez; [|reflexivity].
    exfalso. apply Hnin. apply xf_match_key in E. apply xf_match_key in Ez. rewrite E, <- Ez. apply in_map. exact Hz.
  - rewrite (IH Hf Hnd'). lia.
Qed.

Lemma nodup_map_filter {A B} (k : A -> B) f l : NoDup (map k l) -> NoDup (map k (filter f l)).
Proof.
  induction l as [|a t IH]; simpl; intros H; [constructor|].
  inversion H as [|? ? Hnin Hnd]; subst. destruct (f a); simpl; [|auto].
  constructor; [|auto]. intros Hin. apply Hnin. apply in_map_iff in Hin. destruct Hin as (x & Hx & Hin).
  apply filter_In in Hin. destruct Hin as [Hin _]. rewrite <- Hx. apply in_map. exact Hin.
Qed.

Lemma nodup_map_snoc {A B} (k : A -> B) l x : NoDup (map k l) -> ~ In (k x) (map k l) -> NoDup (map k (l ++ [x])).
Proof.
  induction l as [|a t IH]; simpl; intros H Hn.
  - constructor; [intros [] | constructor].
  - inversion H as [|? ? Hnin Hnd]; subst. constructor.
    + rewrite map_app, in_app_iff. simpl. intros [Hin|[Heq|[]]]; [contradiction|]. apply Hn. left. symmetry. exact Heq.
    + apply IH; [exact Hnd | intros Hin; apply Hn; right; exact Hin].
Qed.

Lemma find_xf_none l r sd : find_xf l r sd = None -> ~ In (r, sd) (map xf_key l).
Proof.
  unfold find_xf. intros H Hin. apply in_map_iff in Hin. destruct Hin as (x & Hk & Hin).
  pose proof (find_none _ _ H x Hin) as Hm. apply xf_match_key in Hk. congruence.
Qed.

(** nothing escrow-related changes *)
Lemma esc_frame s s' : EscInv s ->
  s_unb s' = s_unb s -> s_xf s' = s_xf s -> s_wbal s' = s_wbal s ->
  (forall H e, H <= 0 -> lget (s_bal s') H e = lget (s_bal s) H e) -> EscInv s'.
Proof.
  intros I Hu Hx Hw Hb. constructor; unfold unbonding, in_transfer, wrapped_supply; intros.
  - rewrite Hu, Hb by (unfold H_UNSTAKE; lia). apply (esc_unb _ I).
  - rewrite Hx, Hb by (unfold H_XFER; lia). apply (esc_xf _ I).
  - rewrite Hw, Hb by (unfold H_WRAP; lia). apply (esc_wrap _ I).
  - rewrite Hx. apply (esc_keys _ I).
Qed.

Ltac lpt_facts :=
  repeat match goal with
  | H : debit _ _ _ _ = Ok _ |- _ => apply lpt_debit in H
  | H : debit_all _ _ _ = Ok _ |- _ => apply lpt_debit_all in H
  end;
  repeat match goal with
  | |- context [credit ?l ?h ?e ?a] =>
      let x := fresh "bal" in let Hx := fresh "Hc" in
      pose proof (lpt_credit l h e a) as Hx; set (x := credit l h e a) in *; clearbody x
  | |- context [credit_all ?l ?h ?ps] =>
      let x := fresh "bal" in let Hx := fresh "Hc" in
      pose proof (lpt_credit_all ps l h) as Hx; set (x := credit_all l h ps) in *; clearbody x
  | H : context [credit ?l ?h ?e ?a] |- _ =>
      let x := fresh "bal" in let Hx := fresh "Hc" in
      pose proof (lpt_credit l h e a) as Hx; set (x := credit l h e a) in *; clearbody x
  | H : context [credit_all ?l ?h ?ps] |- _ =>
      let x := fresh "bal" in let Hx := fresh "Hc" in
      pose proof (lpt_credit_all ps l h) as Hx; set (x := credit_all l h ps) in *; clearbody x
  end.

Ltac at_point H0 e0 :=
  repeat match goal with
  | H : lpt _ _ _ _ |- _ => let A := fresh "A" in pose proof (H H0 e0) as A; cbv beta in A; clear H
  end;
  unfold H_UNSTAKE, H_XFER, H_WRAP in *;
  repeat match goal with
  | H : context [if ?b then _ else _] |- _ => let E := fresh "E" in destruct b eqn:E
  end; zb.

Lemma lpt_lock_tokens l h e a now :
  lpt l (lock_tokens l h e a now) h (fun e0 => if e <=? now then 0 else (if e =? e0 then a else 0)).
Proof.
  unfold lock_tokens. intros H e0. destruct (e <=? now).
  - destruct (h =? H); lia.
  - apply lpt_credit.
Qed.

Ltac lock_facts :=
  repeat match goal with
  | |- context [lock_tokens ?l ?h ?e ?a ?n] =>
      let x := fresh "bal" in let Hx := fresh "Hc" in
      pose proof (lpt_lock_tokens l h e a n) as Hx; set (x := lock_tokens l h e a n) in *; clearbody x
  end.

Ltac esc_user_op s :=
  eapply (esc_frame s); try reflexivity; auto; proj;
  let H0 := fresh "H0" in let e0 := fresh "e0" in let HH := fresh "HH" in
  intros H0 e0 HH; lock_facts; lpt_facts; at_point H0 e0; lia.

Lemma step_esc s op s' o : EscInv s -> step s op = Ok (s', o) -> EscInv s'.
Proof.
  intros I H. unfold step in H.
  pose proof (esc_unb _ I) as U; pose proof (esc_xf _ I) as X; pose proof (esc_wrap _ I) as W0;
  unfold unbonding, in_transfer, wrapped_supply in U, X, W0.
  destruct (accounts_ok op) eqn:Ha; [|discriminate].
  destruct op; simpl in Ha; unfold is_user in Ha; zb.
  - (* Lock *) unfold ep_lock in H. inv_ok H. esc_user_op s.
  - unfold ep_lock in H. inv_ok H. esc_user_op s.
  - (* Extend *) unfold ep_extend in H. inv_ok H. esc_user_op s.
  - unfold ep_extend in H. inv_ok H. esc_user_op s.
  - (* Merge *) unfold ep_merge in H. destruct ps as [|[pe pa] pt]; [inv_ok H|]. inv_ok H. esc_user_op s.
  - unfold ep_merge in H. destruct ps as [|[pe pa] pt]; [inv_ok H|]. inv_ok H. esc_user_op s.
  - (* Reduce *) unfold ep_reduce in H. inv_ok H. esc_user_op s.
  - (* Unlock *) unfold ep_unlock in H. inv_ok H. esc_user_op s.
  - (* UnlockEarly *) unfold ep_unlock_early in H. inv_ok H.
    constructor; unfold unbonding, in_transfer, wrapped_supply; proj; try (apply (esc_keys _ I)); intros q.
    + rewrite usum_app. simpl. rewrite <- (U q). lpt_facts. at_point H_UNSTAKE q; lia.
    + rewrite <- (X q). lpt_facts. at_point H_XFER q; lia.
    + rewrite <- (W0 q). lpt_facts. at_point H_WRAP q; lia.
  - (* Claim *) unfold ep_claim in H.
    pose proof (fun e => claim_scan_split (s_unb s) e c (s_now s) (Z.to_nat MAX_CLAIM_UNLOCKED_TOKENS) false) as Sp.
    destruct (claim_scan (s_unb s) c (s_now s) (Z.to_nat MAX_CLAIM_UNLOCKED_TOKENS) false) as [kept got].
    simpl in Sp. inv_ok H.
    change (map (fun ub => (ub_e ub, ub_locked ub)) got) with (map ub_pay got) in *.
    constructor; unfold unbonding, in_transfer, wrapped_supply; proj; try (apply (esc_keys _ I)); intros q.
    + pose proof (U q) as U'. rewrite (Sp q) in U'. lpt_facts. at_point H_UNSTAKE q; lia.
    + rewrite <- (X q). lpt_facts. at_point H_XFER q; lia.
    + rewrite <- (W0 q). lpt_facts. at_point H_WRAP q; lia.
  - (* CancelUnbond *) unfold ep_cancel_unbond in H. inv_ok H.
    change (map (fun ub => (ub_e ub, ub_locked ub)) (queue_of (s_unb s) c)) with (map ub_pay (queue_of (s_unb s) c)) in *.
    constructor; unfold unbonding, in_transfer, wrapped_supply; proj; try (apply (esc_keys _ I)); intros q.
    + pose proof (U q) as U'. rewrite (queue_split (s_unb s) c q) in U'.
      lpt_facts. at_point H_UNSTAKE q; lia.
    + rewrite <- (X q). lpt_facts. at_point H_XFER q; lia.
    + rewrite <- (W0 q). lpt_facts. at_point H_WRAP q; lia.
  - (* LockFunds *) unfold ep_lock_funds in H. inv_ok H.
    constructor; unfold unbonding, in_transfer, wrapped_supply; proj.
    + intros q. rewrite <- (U q). lpt_facts. at_point H_UNSTAKE q; lia.
    + intros q. rewrite xsum_app. simpl. rewrite <- (X q). lpt_facts. at_point H_XFER q; lia.
    + intros q. rewrite <- (W0 q). lpt_facts. at_point H_WRAP q; lia.
    + apply nodup_map_snoc; [apply (esc_keys _ I)|]. apply find_xf_none. simpl.
      destruct (find_xf (s_xf s) receiver sender); [discriminate | reflexivity].
  - (* Withdraw *) unfold ep_withdraw in H.
    destruct (negb (on_cooldown s (aget (s_rlast s) receiver))); [|discriminate].
    destruct (find_xf (s_xf s) receiver sender) as [x|] eqn:Hf; [|discriminate].
    pose proof (fun e => xfer_remove _ _ _ _ e Hf (esc_keys _ I)) as Sp.
    inv_ok H.
    constructor; unfold unbonding, in_transfer, wrapped_supply; proj.
    + intros q. rewrite <- (U q). lpt_facts. at_point H_UNSTAKE q; lia.
    + intros q. pose proof (X q) as X'. rewrite (Sp q) in X'.
      lpt_facts. at_point H_XFER q; lia.
    + intros q. rewrite <- (W0 q). lpt_facts. at_point H_WRAP q; lia.
    + apply nodup_map_filter. apply (esc_keys _ I).
  - (* CancelTransfer *) unfold ep_cancel_transfer in H.
    destruct (c =? ADMIN); [|discriminate].
    destruct (find_xf (s_xf s) receiver sender) as [x|] eqn:Hf; [|discriminate].
    pose proof (fun e => xfer_remove _ _ _ _ e Hf (esc_keys _ I)) as Sp.
    inv_ok H.
    constructor; unfold unbonding, in_transfer, wrapped_supply; proj.
    + intros q. rewrite <- (U q). lpt_facts. at_point H_UNSTAKE q; lia.
    + intros q. pose proof (X q) as X'. rewrite (Sp q) in X'.
      lpt_facts. at_point H_XFER q; lia.
    + intros q. rewrite <- (W0 q). lpt_facts. at_point H_WRAP q; lia.
    + apply nodup_map_filter. apply (esc_keys _ I).
  - (* Wrap *) unfold ep_wrap in H. inv_ok H.
    constructor; unfold unbonding, in_transfer, wrapped_supply; proj; try (apply (esc_keys _ I)); intros q.
    + rewrite <- (U q). lpt_facts. at_point H_UNSTAKE q; lia.
    + rewrite <- (X q). lpt_facts. at_point H_XFER q; lia.
    + simpl. rewrite <- (W0 q). lpt_facts. at_point H_WRAP q; lia.
  - (* Unwrap *) unfold ep_unwrap in H. inv_ok H.
    pose proof (fun q => lsum_debit _ _ _ _ _ q Hb) as W. clear Hb.
    constructor; unfold unbonding, in_transfer, wrapped_supply; proj; try (apply (esc_keys _ I)); intros q.
    + rewrite <- (U q). lpt_facts. at_point H_UNSTAKE q; lia.
    + rewrite <- (X q). lpt_facts. at_point H_XFER q; lia.
    + rewrite (W q). rewrite <- (W0 q). lpt_facts. at_point H_WRAP q; lia.
  - (* WTransfer *) unfold ep_wtransfer in H. inv_ok H.
    pose proof (fun q => lsum_debit _ _ _ _ _ q Hb) as W. clear Hb.
    constructor; unfold unbonding, in_transfer, wrapped_supply; proj; try (apply (esc_keys _ I)); intros q;
      try (apply U); try (apply X).
    simpl. rewrite (W q). rewrite (W0 q). destruct (e =? q); lia.
  - discriminate.
  - (* Advance *) unfold ep_advance in H. inv_ok H. eapply (esc_frame s); try reflexivity; auto.
Qed.

Lemma init_esc c epoch : EscInv (init_state c epoch).
Proof. constructor; simpl; intros; try reflexivity. constructor. Qed.

Lemma run_esc ops : forall s, EscInv s -> EscInv (run s ops).
Proof.
  unfold run. induction ops as [|op t IH]; simpl; intros s I; [exact I|].
  apply IH. unfold step_total. destruct (step s op) as [[s' o]|] eqn:E; [|exact I]. eapply step_esc; eauto.
Qed.

Lemma reach_escrow c epoch ops e : valid_opts (c_opts c) = true -> 0 <= epoch ->
  let s := run (init_state c epoch) ops in
  lget (s_bal s) H_UNSTAKE e = unbonding s e /\
  lget (s_bal s) H_XFER e = in_transfer s e /\
  lget (s_bal s) H_WRAP e = wrapped_supply s e.
Proof.
  intros _ _ s. pose proof (run_esc ops _ (init_esc c epoch)) as I. fold s in I.
  split; [apply (esc_unb _ I) | split; [apply (esc_xf _ I) | apply (esc_wrap _ I)]].
Qed.
